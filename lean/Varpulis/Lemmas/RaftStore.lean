import Varpulis.Model.RaftStore
import Varpulis.Lemmas.RaftSM
/-! Lemmas about the log stores (storage contract, C35) and about crash recovery of the persistent
store (C36). -/
namespace Varpulis.RaftStore
open Varpulis.RaftSM

/-- strictly increasing indices: what a `BTreeMap<u64, _>` / RocksDB key order guarantees -/
def Sorted (l : List Entry) : Prop := l.Pairwise (fun a b => a.id.index < b.id.index)

theorem Sorted.nil : Sorted [] := List.Pairwise.nil

theorem Sorted.filter {l : List Entry} (p : Entry → Bool) (h : Sorted l) : Sorted (l.filter p) :=
  List.Pairwise.filter p h

/-! ### `insertEntry` -/

theorem mem_insertEntry_of {log : List Entry} {e x : Entry} (h : x ∈ insertEntry log e) : x = e ∨ x ∈ log := by
  induction log with
  | nil => simp [insertEntry] at h; exact .inl h
  | cons y ys ih =>
    simp only [insertEntry] at h
    split at h
    · simp only [List.mem_cons] at h ⊢; rcases h with h | h | h <;> simp [h]
    · split at h
      · simp only [List.mem_cons] at h ⊢; rcases h with h | h <;> simp [h]
      · simp only [List.mem_cons] at h ⊢
        rcases h with h | h
        · simp [h]
        · rcases ih h with h | h <;> simp [h]

theorem self_mem_insertEntry (log : List Entry) (e : Entry) : e ∈ insertEntry log e := by
  induction log with
  | nil => simp [insertEntry]
  | cons y ys ih =>
    simp only [insertEntry]
    split
    · simp
    · split
      · simp
      · simp [ih]

theorem mem_insertEntry_keep {log : List Entry} {e x : Entry} (hx : x ∈ log) (hne : x.id.index ≠ e.id.index) :
    x ∈ insertEntry log e := by
  induction log with
  | nil => cases hx
  | cons y ys ih =>
    simp only [insertEntry]
    split
    · simp only [List.mem_cons] at hx ⊢; exact .inr hx
    · split
      · rename_i heq
        simp only [List.mem_cons] at hx ⊢
        rcases hx with rfl | hx
        · exact absurd heq.symm hne
        · exact .inr hx
      · simp only [List.mem_cons] at hx ⊢
        rcases hx with rfl | hx
        · exact .inl rfl
        · exact .inr (ih hx)

theorem sorted_insertEntry {log : List Entry} (e : Entry) (h : Sorted log) : Sorted (insertEntry log e) := by
  induction log with
  | nil => simp [insertEntry, Sorted]
  | cons y ys ih =>
    have hy : ∀ z ∈ ys, y.id.index < z.id.index := (List.pairwise_cons.1 h).1
    have hys : Sorted ys := (List.pairwise_cons.1 h).2
    simp only [insertEntry]
    split
    · rename_i hlt
      refine List.pairwise_cons.2 ⟨?_, h⟩
      intro z hz
      simp only [List.mem_cons] at hz
      rcases hz with rfl | hz
      · exact hlt
      · exact Nat.lt_trans hlt (hy z hz)
    · split
      · rename_i heq
        refine List.pairwise_cons.2 ⟨?_, hys⟩
        intro z hz; rw [heq]; exact hy z hz
      · rename_i hnlt hne
        refine List.pairwise_cons.2 ⟨?_, ih hys⟩
        intro z hz
        rcases mem_insertEntry_of hz with rfl | hz
        · omega
        · exact hy z hz

/-- in a sorted log an inserted entry replaces the entry of the same index -/
theorem mem_insertEntry_sorted {log : List Entry} {e x : Entry} (h : Sorted log) (hx : x ∈ insertEntry log e) :
    x = e ∨ (x ∈ log ∧ x.id.index ≠ e.id.index) := by
  induction log with
  | nil => simp [insertEntry] at hx; exact .inl hx
  | cons y ys ih =>
    have hy : ∀ z ∈ ys, y.id.index < z.id.index := (List.pairwise_cons.1 h).1
    have hys : Sorted ys := (List.pairwise_cons.1 h).2
    simp only [insertEntry] at hx
    split at hx
    · rename_i hlt
      simp only [List.mem_cons] at hx
      rcases hx with rfl | rfl | hx
      · exact .inl rfl
      · exact .inr ⟨by simp, by omega⟩
      · exact .inr ⟨by simp [hx], by have := hy x hx; omega⟩
    · split at hx
      · rename_i heq
        simp only [List.mem_cons] at hx
        rcases hx with rfl | hx
        · exact .inl rfl
        · exact .inr ⟨by simp [hx], by have := hy x hx; omega⟩
      · rename_i hnlt hne
        simp only [List.mem_cons] at hx
        rcases hx with rfl | hx
        · exact .inr ⟨by simp, by omega⟩
        · rcases ih hys hx with rfl | ⟨h1, h2⟩
          · exact .inl rfl
          · exact .inr ⟨by simp [h1], h2⟩

/-! ### `appendLog` -/

theorem sorted_appendLog {log : List Entry} (es : List Entry) (h : Sorted log) : Sorted (appendLog log es) := by
  induction es generalizing log with
  | nil => exact h
  | cons e es ih => exact ih (sorted_insertEntry e h)

theorem mem_appendLog_of {log es : List Entry} {x : Entry} (h : x ∈ appendLog log es) : x ∈ es ∨ x ∈ log := by
  induction es generalizing log with
  | nil => exact .inr h
  | cons e es ih =>
    rcases ih (log := insertEntry log e) h with h | h
    · exact .inl (List.mem_cons_of_mem _ h)
    · rcases mem_insertEntry_of h with rfl | h
      · exact .inl (by simp)
      · exact .inr h

theorem mem_appendLog_keep {log es : List Entry} {x : Entry} (hx : x ∈ log)
    (hne : ∀ e ∈ es, x.id.index ≠ e.id.index) : x ∈ appendLog log es := by
  induction es generalizing log with
  | nil => exact hx
  | cons e es ih =>
    exact ih (log := insertEntry log e) (mem_insertEntry_keep hx (hne e (by simp)))
      (fun e' he' => hne e' (List.mem_cons_of_mem _ he'))

/-- an old entry survives an append only if no appended entry has its index -/
theorem mem_appendLog_sorted {log es : List Entry} {x : Entry} (h : Sorted log) (hx : x ∈ appendLog log es) :
    x ∈ es ∨ (x ∈ log ∧ ∀ e ∈ es, x.id.index ≠ e.id.index) := by
  induction es generalizing log with
  | nil => exact .inr ⟨hx, by simp⟩
  | cons e es ih =>
    rcases ih (log := insertEntry log e) (sorted_insertEntry e h) hx with h1 | ⟨h1, h2⟩
    · exact .inl (List.mem_cons_of_mem _ h1)
    · rcases mem_insertEntry_sorted h h1 with rfl | ⟨h3, h4⟩
      · exact .inl (by simp)
      · refine .inr ⟨h3, ?_⟩
        intro e' he'
        simp only [List.mem_cons] at he'
        rcases he' with rfl | he'
        · exact h4
        · exact h2 e' he'

/-! ### storage contract (C35) -/

/-- coherence of a log store: sorted by index, every entry above the purge marker -/
def LogStore.Coherent (s : LogStore) : Prop :=
  Sorted s.log ∧ ∀ e ∈ s.log, above (oidx s.lastPurged) e.id.index = true

/-- calling discipline of openraft that coherence needs: entries are appended above the purge marker -/
def LogOp.Ok (s : LogStore) : LogOp → Prop
  | .append es => ∀ e ∈ es, above (oidx s.lastPurged) e.id.index = true
  | _ => True

def LogOpsOk (s : LogStore) : List LogOp → Prop
  | [] => True
  | op :: ops => op.Ok s ∧ LogOpsOk (s.step op) ops

theorem LogStore.coherent_init : (({} : LogStore)).Coherent := ⟨Sorted.nil, by intro e he; cases he⟩

theorem LogStore.coherent_step {s : LogStore} (h : s.Coherent) (op : LogOp) (hop : op.Ok s) :
    (s.step op).Coherent := by
  obtain ⟨hs, ha⟩ := h
  cases op with
  | saveVote v => exact ⟨hs, ha⟩
  | append es =>
    refine ⟨sorted_appendLog es hs, ?_⟩
    intro e he
    rcases mem_appendLog_of he with h1 | h1
    · exact hop e h1
    · exact ha e h1
  | deleteConflictSince id =>
    refine ⟨hs.filter _, ?_⟩
    intro e he
    exact ha e (List.mem_filter.1 he).1
  | purgeUpto id =>
    refine ⟨hs.filter _, ?_⟩
    intro e he
    have := (List.mem_filter.1 he).2
    simpa [LogStore.step, LogStore.purgeUpto, oidx, above] using this

theorem LogStore.coherent_run {s : LogStore} (h : s.Coherent) (ops : List LogOp) (hops : LogOpsOk s ops) :
    (s.run ops).Coherent := by
  induction ops generalizing s with
  | nil => exact h
  | cons op ops ih => exact ih (coherent_step h op hops.1) hops.2

theorem sorted_getLast_max {l : List Entry} (h : Sorted l) {x m : Entry} (hx : x ∈ l) (hm : l.getLast? = some m) :
    x.id.index ≤ m.id.index := by
  induction l with
  | nil => cases hx
  | cons y ys ih =>
    have hy : ∀ z ∈ ys, y.id.index < z.id.index := (List.pairwise_cons.1 h).1
    have hys : Sorted ys := (List.pairwise_cons.1 h).2
    cases ys with
    | nil =>
      simp only [List.getLast?_singleton, Option.some.injEq] at hm
      simp only [List.mem_singleton] at hx
      subst hm; subst hx; exact Nat.le_refl _
    | cons z zs =>
      rw [List.getLast?_cons_cons] at hm
      simp only [List.mem_cons] at hx
      rcases hx with rfl | hx
      · have hmm : m ∈ z :: zs := List.mem_of_getLast? hm
        exact Nat.le_of_lt (hy m hmm)
      · exact ih hys (by simpa using hx) hm

/-- `get_log_state().last_log_id` is the maximum (by index) of the last entry and the purge marker -/
theorem LogStore.lastLogId_spec {s : LogStore} (h : s.Coherent) :
    (∀ e ∈ s.log, ∃ m, s.getLogState.2 = some m ∧ e.id.index ≤ m.index) ∧
    (∀ p, s.lastPurged = some p → ∃ m, s.getLogState.2 = some m ∧ p.index ≤ m.index) ∧
    (∀ m, s.getLogState.2 = some m → (∃ e ∈ s.log, e.id = m) ∨ s.lastPurged = some m) := by
  obtain ⟨hs, ha⟩ := h
  unfold LogStore.getLogState
  cases hl : s.log.getLast? with
  | none =>
    have hnil : s.log = [] := List.getLast?_eq_none_iff.1 hl
    refine ⟨?_, ?_, ?_⟩
    · intro e he; rw [hnil] at he; cases he
    · intro p hp; exact ⟨p, hp, Nat.le_refl _⟩
    · intro m hm; exact .inr hm
  | some x =>
    have hx : x ∈ s.log := List.mem_of_getLast? hl
    refine ⟨?_, ?_, ?_⟩
    · intro e he; exact ⟨x.id, rfl, sorted_getLast_max hs he hl⟩
    · intro p hp
      refine ⟨x.id, rfl, ?_⟩
      have := ha x hx
      simp only [hp, oidx, above, decide_eq_true_eq] at this
      exact Nat.le_of_lt this
    · intro m hm
      simp only [Option.some.injEq] at hm
      exact .inl ⟨x, hx, hm⟩

theorem LogStore.run_append (s : LogStore) (xs ys : List LogOp) : s.run (xs ++ ys) = (s.run xs).run ys := by
  simp [LogStore.run, List.foldl_append]

/-! ### crash recovery (C36) -/

/-- two index-sorted lists with the same members are equal -/
theorem sorted_ext {l₁ l₂ : List Entry} (h₁ : Sorted l₁) (h₂ : Sorted l₂) (h : ∀ x, x ∈ l₁ ↔ x ∈ l₂) : l₁ = l₂ := by
  induction l₁ generalizing l₂ with
  | nil =>
    cases l₂ with
    | nil => rfl
    | cons b bs => exact absurd ((h b).2 (by simp)) (by simp)
  | cons a as ih =>
    cases l₂ with
    | nil => exact absurd ((h a).1 (by simp)) (by simp)
    | cons b bs =>
      have ha : ∀ z ∈ as, a.id.index < z.id.index := (List.pairwise_cons.1 h₁).1
      have hb : ∀ z ∈ bs, b.id.index < z.id.index := (List.pairwise_cons.1 h₂).1
      have hab : a = b := by
        have h1 := (h a).1 (by simp)
        have h2 := (h b).2 (by simp)
        simp only [List.mem_cons] at h1 h2
        rcases h1 with h1 | h1
        · exact h1
        · rcases h2 with h2 | h2
          · exact h2.symm
          · have := ha b h2; have := hb a h1; omega
      subst hab
      congr 1
      apply ih (List.pairwise_cons.1 h₁).2 (List.pairwise_cons.1 h₂).2
      intro x
      constructor
      · intro hx
        have := (h x).1 (List.mem_cons_of_mem _ hx)
        simp only [List.mem_cons] at this
        rcases this with rfl | this
        · have := ha _ hx; omega
        · exact this
      · intro hx
        have := (h x).2 (List.mem_cons_of_mem _ hx)
        simp only [List.mem_cons] at this
        rcases this with rfl | this
        · have := hb _ hx; omega
        · exact this

/-- the committed log up to an optional position -/
def cutN (G : List Entry) (o : Option Nat) : List Entry := G.filter (fun e => upto o e.id.index)

/-- SPEC: the state machine of a coordinator that applied the committed log `G` up to position `o` -/
def smOf (G : List Entry) (o : Option Nat) : SM := applyEntriesT SM.init (cutN G o)

theorem cutN_none (G : List Entry) : cutN G none = [] := by
  simp [cutN, upto]

/-- a sorted log up to `b` = the part up to `o` followed by the part in `(o, b]` -/
theorem cutN_split {G : List Entry} (hG : Sorted G) (o : Option Nat) (b : Nat) (hob : ∀ x, o = some x → x ≤ b) :
    cutN G (some b) = cutN G o ++ G.filter (fun e => above o e.id.index && decide (e.id.index ≤ b)) := by
  cases o with
  | none => simp [cutN, upto, above]
  | some a =>
    have hab : a ≤ b := hob a rfl
    simp only [cutN, upto, above]
    induction G with
    | nil => rfl
    | cons y ys ih =>
      have hy : ∀ z ∈ ys, y.id.index < z.id.index := (List.pairwise_cons.1 hG).1
      have hys : Sorted ys := (List.pairwise_cons.1 hG).2
      by_cases h : y.id.index ≤ a
      · have h1 : y.id.index ≤ b := by omega
        have h2 : ¬ a < y.id.index := by omega
        simp [h, h1, h2, ih hys]
      · have hnil : (y :: ys).filter (fun e => decide (e.id.index ≤ a)) = [] := by
          simp only [List.filter_eq_nil_iff, List.mem_cons, decide_eq_true_eq]
          rintro z (rfl | hz)
          · exact h
          · have := hy z hz; omega
        rw [hnil, List.nil_append]
        apply List.filter_congr
        intro z hz
        simp only [List.mem_cons] at hz
        have : a < z.id.index := by
          rcases hz with rfl | hz
          · omega
          · have := hy z hz; omega
        simp [this]

theorem sorted_cutN {G : List Entry} (hG : Sorted G) (o : Option Nat) : Sorted (cutN G o) := hG.filter _

theorem smOf_wf (G : List Entry) (o : Option Nat) : (smOf G o).state.WF :=
  applyEntriesT_wf State.WF_init _

/-- the applied position of the spec is the id of the last committed entry up to `o` -/
theorem smOf_lastApplied (G : List Entry) (o : Option Nat) :
    (smOf G o).lastApplied = (cutN G o).getLast?.map (·.id) := by
  rw [smOf, applyEntriesT_lastApplied]
  cases (cutN G o).getLast? <;> rfl

/-- cutting at the applied position of `smOf G o` is cutting at `o` -/
theorem cutN_lastApplied {G : List Entry} (hG : Sorted G) (o : Option Nat) :
    cutN G (oidx (smOf G o).lastApplied) = cutN G o := by
  rw [smOf_lastApplied]
  cases hl : (cutN G o).getLast? with
  | none =>
    have : cutN G o = [] := List.getLast?_eq_none_iff.1 hl
    simp [oidx, cutN_none, this]
  | some m =>
    simp only [Option.map_some, oidx]
    have hm : m ∈ cutN G o := List.mem_of_getLast? hl
    apply List.filter_congr
    intro x hx
    have hmo : upto o m.id.index = true := (List.mem_filter.1 hm).2
    by_cases hxo : upto o x.id.index = true
    · have : x ∈ cutN G o := List.mem_filter.2 ⟨hx, hxo⟩
      have := sorted_getLast_max (sorted_cutN hG o) this hl
      rw [hxo]; simp [upto, this]
    · simp only [Bool.not_eq_true] at hxo
      rw [hxo]
      cases o with
      | none => simp [upto] at hmo
      | some k =>
        simp only [upto, decide_eq_true_eq, decide_eq_false_iff_not] at hmo hxo ⊢
        omega

theorem smOf_fix {G : List Entry} (hG : Sorted G) (o : Option Nat) :
    smOf G (oidx (smOf G o).lastApplied) = smOf G o := by
  show applyEntriesT SM.init (cutN G (oidx (smOf G o).lastApplied)) = _
  rw [cutN_lastApplied hG]; rfl

/-! replay = the state component of applying entries -/

/-- the fold of `replay_log` on total commands -/
def replayT (st : State) (es : List Entry) : State :=
  es.foldl (fun st e => match e.payload with
    | .normal c => applyCmdT st c
    | _ => st) st

theorem applyEntriesT_state (sm : SM) (es : List Entry) : (applyEntriesT sm es).state = replayT sm.state es := by
  induction es generalizing sm with
  | nil => rfl
  | cons e es ih =>
    rw [applyEntriesT_cons, ih]
    simp only [replayT, List.foldl_cons]
    congr 1
    unfold applyEntryT
    cases e.payload <;> rfl

theorem replayT_wf {st : State} (h : st.WF) (es : List Entry) : (replayT st es).WF := by
  have := applyEntriesT_wf (sm := { state := st }) h es
  rwa [applyEntriesT_state] at this

theorem replay_fold_ok {st : State} (h : st.WF) (es : List Entry) :
    es.foldl replayStep (Outcome.ok st) = Outcome.ok (replayT st es) := by
  induction es generalizing st with
  | nil => rfl
  | cons e es ih =>
    simp only [List.foldl_cons, replayStep, Outcome.bind_ok]
    cases hp : e.payload with
    | normal c =>
      simp only [(applyCmd_eq_T h c).1]
      rw [ih (applyCmd_eq_T h c).2]
      simp [replayT, hp]
    | blank => simp only []; rw [ih h]; simp [replayT, hp]
    | membership cfg => simp only []; rw [ih h]; simp [replayT, hp]

/-- what every disk a crash can leave satisfies, relative to the committed log `G` -/
structure DInv (G : List Entry) (d : Disk) : Prop where
  sorted : Sorted d.ls.log
  applied : (smOf G (oidx d.lastApplied)).lastApplied = d.lastApplied
  membership : (smOf G (oidx d.lastApplied)).membership = d.membership.getD {}
  snap : ∀ s, d.snapData = some s →
    s.dataState = (smOf G (oidx s.dataLast)).state ∧ ∀ x, oidx s.dataLast = some x → upto (oidx d.lastApplied) x = true
  log : ∀ e : Entry, above (snapFrom d) e.id.index = true → upto (oidx d.lastApplied) e.id.index = true →
    (e ∈ d.ls.log ↔ e ∈ G)
  /-- snapshot data and meta are written together and carry the same position -/
  metaOk : d.snapMeta = d.snapData ∧ ∀ s, d.snapData = some s → s.metaLast = s.dataLast

theorem snapBase_spec {G : List Entry} {d : Disk} (h : DInv G d) : snapBase d = (smOf G (snapFrom d)).state := by
  unfold snapBase snapFrom
  cases hs : d.snapData with
  | none => simp [smOf, cutN_none, SM.init]
  | some s => simp [(h.snap s hs).1]

theorem snapFrom_le {G : List Entry} {d : Disk} (h : DInv G d) (x : Nat) (hx : snapFrom d = some x) :
    upto (oidx d.lastApplied) x = true := by
  unfold snapFrom at hx
  cases hs : d.snapData with
  | none => simp [hs] at hx
  | some s =>
    simp only [hs] at hx
    exact (h.snap s hs).2 x hx

theorem replayState_spec {G : List Entry} (hG : Sorted G) {d : Disk} (h : DInv G d) :
    replayState d = .ok (smOf G (oidx d.lastApplied)).state := by
  unfold replayState
  rw [snapBase_spec h]
  cases hla : d.lastApplied with
  | none =>
    simp only [oidx]
    have : snapFrom d = none := by
      cases hx : snapFrom d with
      | none => rfl
      | some x => have := snapFrom_le h x hx; simp [hla, oidx, upto] at this
    rw [this]
  | some la =>
    simp only [oidx]
    have hle : ∀ x, snapFrom d = some x → x ≤ la.index := by
      intro x hx
      have := snapFrom_le h x hx
      simpa [hla, oidx, upto] using this
    have hlog : d.ls.log.filter (fun e => above (snapFrom d) e.id.index && decide (e.id.index ≤ la.index)) =
        G.filter (fun e => above (snapFrom d) e.id.index && decide (e.id.index ≤ la.index)) := by
      apply sorted_ext (h.sorted.filter _) (hG.filter _)
      intro x
      simp only [List.mem_filter, Bool.and_eq_true, decide_eq_true_eq]
      constructor
      · rintro ⟨h1, h2, h3⟩
        exact ⟨(h.log x h2 (by simp [hla, oidx, upto, h3])).1 h1, h2, h3⟩
      · rintro ⟨h1, h2, h3⟩
        exact ⟨(h.log x h2 (by simp [hla, oidx, upto, h3])).2 h1, h2, h3⟩
    rw [hlog, replay_fold_ok (smOf_wf G _)]
    congr 1
    rw [← applyEntriesT_state, smOf, smOf, cutN_split hG (snapFrom d) la.index hle, applyEntriesT_append]

/-- recovery is exact: `open_with_shared_state` on a disk satisfying the invariant yields the spec state machine -/
theorem reopen_spec {G : List Entry} (hG : Sorted G) {d : Disk} (h : DInv G d) :
    reopen d = .ok { mem := smOf G (oidx d.lastApplied), disk := d } := by
  unfold reopen
  rw [replayState_spec hG h]
  simp only [Outcome.bind_ok]
  have e1 := h.applied
  have e2 := h.membership
  generalize smOf G (oidx d.lastApplied) = X at *
  cases X
  simp_all

/-! closed forms of the disk after each operation's write -/

theorem applyWrite_puts (d : Disk) (es : List Entry) :
    applyWrite d (es.map Prim.putLog) = { d with ls := { d.ls with log := appendLog d.ls.log es } } := by
  induction es generalizing d with
  | nil => rfl
  | cons e es ih =>
    simp only [List.map_cons, applyWrite, List.foldl_cons] at ih ⊢
    rw [ih]; rfl

theorem applyWrite_dels (d : Disk) (is : List Nat) :
    applyWrite d (is.map Prim.delLog) =
      { d with ls := { d.ls with log := d.ls.log.filter (fun e => !is.contains e.id.index) } } := by
  induction is generalizing d with
  | nil =>
    have : List.filter (fun (_ : Entry) => true) d.ls.log = d.ls.log := List.filter_eq_self.2 (fun _ _ => rfl)
    simp [applyWrite, this]
  | cons i is ih =>
    simp only [List.map_cons, applyWrite, List.foldl_cons] at ih ⊢
    rw [ih]
    simp only [applyPrim, List.filter_filter]
    congr 2
    apply List.filter_congr
    intro x _
    by_cases h : x.id.index = i <;> simp [h]

theorem applyWrite_append (d : Disk) (w₁ w₂ : Write) : applyWrite d (w₁ ++ w₂) = applyWrite (applyWrite d w₁) w₂ := by
  simp [applyWrite, List.foldl_append]

/-- deleting the keys of the entries selected by an index predicate = filtering them out -/
theorem dels_filter (log : List Entry) (p : Nat → Bool) :
    log.filter (fun e => !((log.filter (fun e => p e.id.index)).map (fun e => e.id.index)).contains e.id.index)
      = log.filter (fun e => !p e.id.index) := by
  apply List.filter_congr
  intro x hx
  congr 1
  by_cases hp : p x.id.index = true
  · rw [hp]
    simp only [List.contains_eq_mem, List.mem_map, List.mem_filter, decide_eq_true_eq]
    exact ⟨x, ⟨hx, hp⟩, rfl⟩
  · simp only [Bool.not_eq_true] at hp
    rw [hp]
    simp only [List.contains_eq_mem, List.mem_map, List.mem_filter, decide_eq_false_iff_not]
    rintro ⟨y, ⟨_, hy⟩, heq⟩
    rw [heq, hp] at hy; cases hy

/-- `purge_logs_upto` on the disk is `purgeUpto` on the log store -/
theorem disk_purge (nd : Node) (id : LogId) :
    applyWrites nd.disk (writesOf nd (.purge id)) = { nd.disk with ls := nd.disk.ls.purgeUpto id } := by
  simp only [writesOf, applyWrites, List.foldl_cons, List.foldl_nil, applyWrite_append]
  have := applyWrite_dels nd.disk ((nd.disk.ls.log.filter (fun e => decide (e.id.index ≤ id.index))).map (·.id.index))
  simp only [List.map_map] at this
  rw [show (Prim.delLog ∘ fun (e : Entry) => e.id.index) = fun e => Prim.delLog e.id.index from rfl] at this
  rw [this, dels_filter nd.disk.ls.log (fun i => decide (i ≤ id.index))]
  simp only [applyWrite, List.foldl_cons, List.foldl_nil, applyPrim, LogStore.purgeUpto, purgeLog]
  congr 2
  apply List.filter_congr
  intro x _
  simp only [← Nat.not_lt, decide_not, Bool.not_not]

/-- `delete_conflict_logs_since` on the disk is `deleteConflictSince` on the log store -/
theorem disk_deleteConflict (nd : Node) (id : LogId) :
    applyWrites nd.disk (writesOf nd (.deleteConflict id)) = { nd.disk with ls := nd.disk.ls.deleteConflictSince id } := by
  simp only [writesOf, applyWrites, List.foldl_cons, List.foldl_nil]
  have := applyWrite_dels nd.disk ((nd.disk.ls.log.filter (fun e => decide (id.index ≤ e.id.index))).map (·.id.index))
  simp only [List.map_map] at this
  rw [show (Prim.delLog ∘ fun (e : Entry) => e.id.index) = fun e => Prim.delLog e.id.index from rfl] at this
  rw [this, dels_filter nd.disk.ls.log (fun i => decide (id.index ≤ i))]
  simp only [LogStore.deleteConflictSince, truncLog]
  congr 2
  apply List.filter_congr
  intro x _
  simp only [← Nat.not_le, decide_not]

theorem disk_append (nd : Node) (es : List Entry) :
    applyWrites nd.disk (writesOf nd (.append es)) = { nd.disk with ls := nd.disk.ls.append es } := by
  simp only [writesOf, applyWrites, List.foldl_cons, List.foldl_nil, applyWrite_puts]; rfl

theorem disk_saveVote (nd : Node) (v : Vote) :
    applyWrites nd.disk (writesOf nd (.saveVote v)) = { nd.disk with ls := nd.disk.ls.saveVote v } := rfl

/-- openraft's calling discipline on a persistent store, relative to the committed log `G` -/
def Op.Ok (G : List Entry) (nd : Node) : Op → Prop
  | .saveVote _ => True
  /- entries are appended above the applied position (applied entries are committed, never overwritten) -/
  | .append es => ∀ e ∈ es, above (oidx nd.disk.lastApplied) e.id.index = true
  /- the entries handed to the state machine are the committed entries of that index range -/
  | .applyTo j => toApply nd j =
      G.filter (fun e => above (oidx nd.disk.lastApplied) e.id.index && decide (e.id.index ≤ j))
  | .beginSnapshot => True
  | .finishSnapshot => True
  /- an installed snapshot was built by a coordinator that applied a prefix of the committed log, and it
     is not older than a snapshot this node is building at that moment (openraft installs only
     snapshots ahead of the committed position) -/
  | .installSnapshot s =>
      (∀ p, nd.pending = some p → ∀ x, oidx p.dataLast = some x → upto (oidx s.metaLast) x = true) ∧
      ∃ o, s = Varpulis.RaftSM.buildSnapshot (smOf G o)
  /- the log is purged only up to the position of the stored snapshot -/
  | .purge id => ∃ s, nd.disk.snapData = some s ∧ upto (oidx s.dataLast) id.index = true
  /- only entries above the applied position are deleted as conflicting -/
  | .deleteConflict id => above (oidx nd.disk.lastApplied) id.index = true

def OpsOk (G : List Entry) (nd : Node) : List Op → Prop
  | [] => True
  | op :: ops => op.Ok G nd ∧ OpsOk G (step nd op) ops

/-- what a captured, not yet persisted snapshot satisfies: it is the spec at its own position and that
position is not ahead of the applied position -/
def PendingOk (G : List Entry) (d : Disk) (p : Option Snapshot) : Prop :=
  ∀ s, p = some s →
    s.dataState = (smOf G (oidx s.dataLast)).state ∧
    (∀ x, oidx s.dataLast = some x → upto (oidx d.lastApplied) x = true) ∧
    s.metaLast = s.dataLast

/-- invariant of a running node -/
structure Inv (G : List Entry) (nd : Node) : Prop where
  disk : DInv G nd.disk
  mem : nd.mem = smOf G (oidx nd.disk.lastApplied)
  pending : PendingOk G nd.disk nd.pending

/-- the pending clause only looks at the applied position and the stored snapshot's position -/
theorem PendingOk.congr {G : List Entry} {d d' : Disk} {p : Option Snapshot} (h : PendingOk G d p)
    (hla : d'.lastApplied = d.lastApplied) : PendingOk G d' p := by
  intro s hs
  obtain ⟨h1, h2, h3⟩ := h s hs
  exact ⟨h1, by rw [hla]; exact h2, h3⟩

theorem Inv.init (G : List Entry) : Inv G {} := by
  refine ⟨⟨Sorted.nil, ?_, ?_, ?_, ?_, ⟨rfl, by intro s hs; cases hs⟩⟩, ?_, ?_⟩
  · simp [oidx, smOf, cutN_none, SM.init]
  · simp [oidx, smOf, cutN_none, SM.init]
  · intro s hs; cases hs
  · intro e _ h; simp [oidx, upto] at h
  · simp [oidx, smOf, cutN_none, SM.init]
  · intro s hs; cases hs

theorem upto_above_false {o : Option Nat} {n : Nat} (h1 : upto o n = true) (h2 : above o n = true) : False := by
  cases o with
  | none => simp [upto] at h1
  | some k => simp [upto, above] at h1 h2; omega

theorem above_of_not_upto {o : Option Nat} {n : Nat} (h : upto o n = false) : above o n = true := by
  cases o with
  | none => rfl
  | some k => simp [upto, above] at h ⊢; omega

/-- applying the committed entries of the range `(o, j]` to the spec at `o` gives the spec at the new position -/
theorem apply_cut {G : List Entry} (hG : Sorted G) (o : Option Nat) (j : Nat)
    (ho : oidx (smOf G o).lastApplied = o) :
    let m := applyEntriesT (smOf G o) (G.filter (fun e => above o e.id.index && decide (e.id.index ≤ j)))
    m = smOf G (oidx m.lastApplied) ∧
    (∀ x, upto o x = true → upto (oidx m.lastApplied) x = true) ∧
    (∀ x, upto (oidx m.lastApplied) x = true → upto o x = true ∨ (above o x = true ∧ x ≤ j)) := by
  intro m
  have hm : m.lastApplied = match (G.filter (fun e => above o e.id.index && decide (e.id.index ≤ j))).getLast? with
      | some e => some e.id
      | none => (smOf G o).lastApplied := applyEntriesT_lastApplied _ _
  cases hl : (G.filter (fun e => above o e.id.index && decide (e.id.index ≤ j))).getLast? with
  | none =>
    have hnil := List.getLast?_eq_none_iff.1 hl
    have hmm : m = smOf G o := by show applyEntriesT _ _ = _; rw [hnil]; rfl
    rw [hl] at hm
    simp only at hm
    rw [hm, ho]
    exact ⟨hmm, fun x h => h, fun x h => .inl h⟩
  | some last =>
    rw [hl] at hm
    simp only at hm
    have hlast := List.mem_of_getLast? hl
    have hlast' := (List.mem_filter.1 hlast).2
    simp only [Bool.and_eq_true, decide_eq_true_eq] at hlast'
    have hle : ∀ x, o = some x → x ≤ last.id.index := by
      intro x hx; subst hx; have := hlast'.1; simp [above] at this; omega
    have hes : G.filter (fun e => above o e.id.index && decide (e.id.index ≤ last.id.index)) =
        G.filter (fun e => above o e.id.index && decide (e.id.index ≤ j)) := by
      apply List.filter_congr
      intro x hx
      by_cases ha : above o x.id.index = true
      · simp only [ha, Bool.true_and]
        by_cases hj : x.id.index ≤ j
        · have : x ∈ G.filter (fun e => above o e.id.index && decide (e.id.index ≤ j)) :=
            List.mem_filter.2 ⟨hx, by simp [ha, hj]⟩
          have := sorted_getLast_max (hG.filter _) this hl
          simp [hj, this]
        · have : ¬ x.id.index ≤ last.id.index := by omega
          simp [hj, this]
      · simp only [Bool.not_eq_true] at ha; simp [ha]
    rw [hm]
    simp only [oidx]
    refine ⟨?_, ?_, ?_⟩
    · show applyEntriesT _ _ = _
      rw [smOf, smOf, cutN_split hG o last.id.index hle, applyEntriesT_append, hes]
    · intro x hx
      cases o with
      | none => simp [upto] at hx
      | some k => simp only [upto, decide_eq_true_eq] at hx ⊢; have := hle k rfl; omega
    · intro x hx
      simp only [upto, decide_eq_true_eq] at hx
      by_cases hu : upto o x = true
      · exact .inl hu
      · simp only [Bool.not_eq_true] at hu
        exact .inr ⟨above_of_not_upto hu, by omega⟩

theorem step_disk (nd : Node) (op : Op) : (step nd op).disk = applyWrites nd.disk (writesOf nd op) := rfl
theorem step_mem (nd : Node) (op : Op) : (step nd op).mem = memAfter nd op := rfl
theorem step_pending (nd : Node) (op : Op) : (step nd op).pending = pendingAfter nd op := rfl

theorem inv_saveVote {G : List Entry} {nd : Node} (h : Inv G nd) (v : Vote) : Inv G (step nd (.saveVote v)) := by
  have hd := h.disk
  refine ⟨?_, ?_, ?_⟩
  · rw [step_disk, disk_saveVote]
    exact ⟨hd.sorted, hd.applied, hd.membership, hd.snap, hd.log, hd.metaOk⟩
  · rw [step_disk, disk_saveVote, step_mem]; exact h.mem
  · rw [step_disk, disk_saveVote]; exact h.pending

theorem inv_append {G : List Entry} {nd : Node} (h : Inv G nd) (es : List Entry)
    (hok : Op.Ok G nd (.append es)) : Inv G (step nd (.append es)) := by
  have hd := h.disk
  refine ⟨?_, ?_, ?_⟩
  · rw [step_disk, disk_append]
    refine ⟨sorted_appendLog es hd.sorted, hd.applied, hd.membership, hd.snap, ?_, hd.metaOk⟩
    intro e ha hu
    rw [← hd.log e ha hu]
    constructor
    · intro he
      rcases mem_appendLog_of he with h1 | h1
      · exact absurd (hok e h1) (by intro h2; exact upto_above_false hu h2)
      · exact h1
    · intro he
      apply mem_appendLog_keep he
      intro e' he' heq
      have := hok e' he'
      rw [← heq] at this
      exact upto_above_false hu this
  · rw [step_disk, disk_append, step_mem]; exact h.mem
  · rw [step_disk, disk_append]; exact h.pending

theorem inv_deleteConflict {G : List Entry} {nd : Node} (h : Inv G nd) (id : LogId)
    (hok : Op.Ok G nd (.deleteConflict id)) : Inv G (step nd (.deleteConflict id)) := by
  have hd := h.disk
  refine ⟨?_, ?_, ?_⟩
  · rw [step_disk, disk_deleteConflict]
    refine ⟨hd.sorted.filter _, hd.applied, hd.membership, hd.snap, ?_, hd.metaOk⟩
    intro e ha hu
    rw [← hd.log e ha hu]
    simp only [LogStore.deleteConflictSince, truncLog, List.mem_filter, decide_eq_true_eq, and_iff_left_iff_imp]
    intro _
    -- e.index ≤ applied position < id.index
    have hok' : above (oidx nd.disk.lastApplied) id.index = true := hok
    cases hla : oidx nd.disk.lastApplied with
    | none => rw [hla] at hu; simp [upto] at hu
    | some k => rw [hla] at hu hok'; simp [upto, above] at hu hok'; omega
  · rw [step_disk, disk_deleteConflict, step_mem]; exact h.mem
  · rw [step_disk, disk_deleteConflict]; exact h.pending

theorem inv_purge {G : List Entry} {nd : Node} (h : Inv G nd) (id : LogId)
    (hok : Op.Ok G nd (.purge id)) : Inv G (step nd (.purge id)) := by
  have hd := h.disk
  obtain ⟨s, hs, hle⟩ := hok
  refine ⟨?_, ?_, ?_⟩
  · rw [step_disk, disk_purge]
    refine ⟨hd.sorted.filter _, hd.applied, hd.membership, hd.snap, ?_, hd.metaOk⟩
    intro e ha hu
    rw [← hd.log e ha hu]
    simp only [LogStore.purgeUpto, purgeLog, List.mem_filter, decide_eq_true_eq, and_iff_left_iff_imp]
    intro _
    have ha' : above (oidx s.dataLast) e.id.index = true := by
      have : snapFrom nd.disk = oidx s.dataLast := by simp [snapFrom, hs]
      rw [← this]; exact ha
    cases hk : oidx s.dataLast with
    | none => rw [hk] at hle; simp [upto] at hle
    | some k => rw [hk] at hle ha'; simp [upto, above] at hle ha'; omega
  · rw [step_disk, disk_purge, step_mem]; exact h.mem
  · rw [step_disk, disk_purge]; exact h.pending

theorem inv_begin {G : List Entry} {nd : Node} (h : Inv G nd) : Inv G (step nd .beginSnapshot) := by
  have hd := h.disk
  have hmem := h.mem
  have hla : nd.mem.lastApplied = nd.disk.lastApplied := by rw [hmem]; exact hd.applied
  refine ⟨hd, h.mem, ?_⟩
  intro s hs
  have : s = buildSnapshot nd.mem := by
    simp only [step_pending, pendingAfter, Option.some.injEq] at hs; exact hs.symm
  subst this
  refine ⟨?_, ?_, rfl⟩
  · show nd.mem.state = (smOf G (oidx nd.mem.lastApplied)).state
    rw [hla, ← hmem]
  · intro x hx
    have hx' : oidx nd.mem.lastApplied = some x := hx
    rw [hla] at hx'
    show upto (oidx nd.disk.lastApplied) x = true
    rw [hx']; simp [upto]

theorem upto_above_trans {o p : Option Nat} {n : Nat} (hop : ∀ y, o = some y → upto p y = true)
    (h : above p n = true) : above o n = true := by
  cases o with
  | none => rfl
  | some y =>
    have := hop y rfl
    cases p with
    | none => simp [upto] at this
    | some k => simp [upto, above] at this h ⊢; omega

/-- a build that is not stale captured a position at or above the stored snapshot's -/
theorem not_stale {G : List Entry} {d : Disk} (hd : DInv G d) {p : Snapshot} (hp : p.metaLast = p.dataLast)
    (h : staleBuild d p = false) : ∀ y, snapFrom d = some y → upto (oidx p.dataLast) y = true := by
  intro y hy
  unfold staleBuild at h
  have hmeta : storedSnapIndex d = snapFrom d := by
    unfold snapFrom storedSnapIndex
    rw [hd.metaOk.1]
    cases hs : d.snapData with
    | none => rfl
    | some t => simp only []; rw [hd.metaOk.2 t hs]
  rw [hmeta, hy, hp] at h
  cases hx : oidx p.dataLast with
  | none => rw [hx] at h; simp at h
  | some x => rw [hx] at h; simp only [decide_eq_false_iff_not] at h; simp [upto]; omega

theorem inv_finish {G : List Entry} {nd : Node} (h : Inv G nd) : Inv G (step nd .finishSnapshot) := by
  have hd := h.disk
  have hnone : (step nd .finishSnapshot).pending = none := rfl
  have hpend : PendingOk G (step nd .finishSnapshot).disk (step nd .finishSnapshot).pending := by
    intro s hs; rw [hnone] at hs; cases hs
  cases hp : nd.pending with
  | none =>
    have hdisk : (step nd .finishSnapshot).disk = nd.disk := by
      simp [step, writesOf, hp, applyWrites]
    exact ⟨by rw [hdisk]; exact hd, by rw [hdisk, step_mem]; exact h.mem, hpend⟩
  | some p =>
    obtain ⟨hp1, hp2, hp3⟩ := h.pending p hp
    cases hst : staleBuild nd.disk p with
    | true =>
      have hdisk : (step nd .finishSnapshot).disk = nd.disk := by
        simp [step, writesOf, hp, hst, applyWrites]
      exact ⟨by rw [hdisk]; exact hd, by rw [hdisk, step_mem]; exact h.mem, hpend⟩
    | false =>
      have hp4 := not_stale hd hp3 hst
      have hdisk : (step nd .finishSnapshot).disk = { nd.disk with snapData := some p, snapMeta := some p } := by
        simp [step, writesOf, hp, hst, applyWrites, applyWrite, applyPrim]
      refine ⟨?_, ?_, hpend⟩
      · rw [hdisk]
        refine ⟨hd.sorted, hd.applied, hd.membership, ?_, ?_, ⟨rfl, ?_⟩⟩
        · intro s hs
          have : s = p := by simp at hs; exact hs.symm
          subst this
          exact ⟨hp1, hp2⟩
        · intro e ha hu
          have ha' : above (oidx p.dataLast) e.id.index = true := ha
          exact hd.log e (upto_above_trans hp4 ha') hu
        · intro s hs
          have : s = p := by simp at hs; exact hs.symm
          subst this
          exact hp3
      · rw [hdisk, step_mem]; exact h.mem

theorem inv_install {G : List Entry} (hG : Sorted G) {nd : Node} (h : Inv G nd) (s : Snapshot)
    (hok : Op.Ok G nd (.installSnapshot s)) : Inv G (step nd (.installSnapshot s)) := by
  have hd := h.disk
  obtain ⟨hpend, o, rfl⟩ := hok
  have hfix := smOf_fix hG o
  refine ⟨⟨hd.sorted, ?_, ?_, ?_, ?_, ⟨rfl, ?_⟩⟩, ?_, ?_⟩
  · show (smOf G (oidx (smOf G o).lastApplied)).lastApplied = (smOf G o).lastApplied
    rw [hfix]
  · show (smOf G (oidx (smOf G o).lastApplied)).membership = (smOf G o).membership
    rw [hfix]
  · intro s hs
    have : s = buildSnapshot (smOf G o) := by
      simp [step, writesOf, applyWrites, applyWrite, applyPrim] at hs; exact hs.symm
    subst this
    refine ⟨?_, ?_⟩
    · show (smOf G o).state = (smOf G (oidx (smOf G o).lastApplied)).state
      rw [hfix]
    · intro x hx
      show upto (oidx (smOf G o).lastApplied) x = true
      have hx' : oidx (smOf G o).lastApplied = some x := hx
      rw [hx']; simp [upto]
  · intro e ha hu
    exfalso
    have ha' : above (oidx (smOf G o).lastApplied) e.id.index = true := ha
    have hu' : upto (oidx (smOf G o).lastApplied) e.id.index = true := hu
    exact upto_above_false hu' ha'
  · intro s hs
    have : s = buildSnapshot (smOf G o) := by
      simp [step, writesOf, applyWrites, applyWrite, applyPrim] at hs; exact hs.symm
    subst this; rfl
  · show smOf G o = smOf G (oidx (smOf G o).lastApplied)
    rw [hfix]
  · intro s hs
    have hs' : nd.pending = some s := hs
    obtain ⟨h1, _, h3⟩ := h.pending s hs'
    exact ⟨h1, hpend s hs', h3⟩

theorem inv_apply {G : List Entry} (hG : Sorted G) {nd : Node} (h : Inv G nd) (j : Nat)
    (hok : Op.Ok G nd (.applyTo j)) : Inv G (step nd (.applyTo j)) := by
  have hd := h.disk
  have hmem := h.mem
  have hla : nd.mem.lastApplied = nd.disk.lastApplied := by rw [hmem]; exact hd.applied
  have ho : oidx (smOf G (oidx nd.disk.lastApplied)).lastApplied = oidx nd.disk.lastApplied := by rw [hd.applied]
  obtain ⟨hcut1, hcut2, hcut3⟩ := apply_cut hG (oidx nd.disk.lastApplied) j ho
  have hok' : toApply nd j =
      G.filter (fun e => above (oidx nd.disk.lastApplied) e.id.index && decide (e.id.index ≤ j)) := hok
  have hm : memAfter nd (.applyTo j) = applyEntriesT (smOf G (oidx nd.disk.lastApplied))
      (G.filter (fun e => above (oidx nd.disk.lastApplied) e.id.index && decide (e.id.index ≤ j))) := by
    simp only [memAfter]; rw [hok', hmem]
  refine ⟨⟨hd.sorted, ?_, ?_, ?_, ?_, hd.metaOk⟩, ?_, ?_⟩
  · show (smOf G (oidx (memAfter nd (.applyTo j)).lastApplied)).lastApplied = (memAfter nd (.applyTo j)).lastApplied
    rw [hm, ← hcut1]
  · show (smOf G (oidx (memAfter nd (.applyTo j)).lastApplied)).membership = (memAfter nd (.applyTo j)).membership
    rw [hm, ← hcut1]
  · intro s hs
    have hs' : nd.disk.snapData = some s := hs
    obtain ⟨h1, h2⟩ := hd.snap s hs'
    refine ⟨h1, ?_⟩
    intro x hx
    show upto (oidx (memAfter nd (.applyTo j)).lastApplied) x = true
    rw [hm]; exact hcut2 x (h2 x hx)
  · intro e ha hu
    have ha' : above (snapFrom nd.disk) e.id.index = true := ha
    have hu' : upto (oidx (memAfter nd (.applyTo j)).lastApplied) e.id.index = true := hu
    rw [hm] at hu'
    show e ∈ nd.disk.ls.log ↔ e ∈ G
    rcases hcut3 _ hu' with h3 | ⟨h3, h4⟩
    · exact hd.log e ha' h3
    · have hmem_iff : e ∈ toApply nd j ↔ e ∈ nd.disk.ls.log := by
        simp only [toApply, List.mem_filter, hla, h3, h4, Bool.true_and, decide_true, and_true]
      rw [← hmem_iff, hok']
      simp only [List.mem_filter, h3, h4, Bool.true_and, decide_true, and_true]
  · show memAfter nd (.applyTo j) = smOf G (oidx (memAfter nd (.applyTo j)).lastApplied)
    rw [hm]; exact hcut1
  · intro s hs
    have hs' : nd.pending = some s := hs
    obtain ⟨h1, h2, h3⟩ := h.pending s hs'
    refine ⟨h1, ?_, h3⟩
    intro x hx
    show upto (oidx (memAfter nd (.applyTo j)).lastApplied) x = true
    rw [hm]; exact hcut2 x (h2 x hx)

theorem step_inv {G : List Entry} (hG : Sorted G) {nd : Node} (h : Inv G nd) (op : Op) (hok : op.Ok G nd) :
    Inv G (step nd op) := by
  cases op with
  | saveVote v => exact inv_saveVote h v
  | append es => exact inv_append h es hok
  | applyTo j => exact inv_apply hG h j hok
  | beginSnapshot => exact inv_begin h
  | finishSnapshot => exact inv_finish h
  | installSnapshot s => exact inv_install hG h s hok
  | purge id => exact inv_purge h id hok
  | deleteConflict id => exact inv_deleteConflict h id hok

/-- every operation issues at most one atomic write, so a crash sees the disk before or after it -/
theorem writesOf_le_one (nd : Node) (op : Op) : writesOf nd op = [] ∨ ∃ w, writesOf nd op = [w] := by
  cases op with
  | beginSnapshot => exact .inl rfl
  | finishSnapshot =>
    cases hp : nd.pending with
    | none => exact .inl (by simp [writesOf, hp])
    | some p =>
      cases hst : staleBuild nd.disk p with
      | true => exact .inl (by simp [writesOf, hp, hst])
      | false => exact .inr ⟨[.putSnapData p, .putSnapMeta p], by simp [writesOf, hp, hst]⟩
  | saveVote v => exact .inr ⟨_, rfl⟩
  | append es => exact .inr ⟨_, rfl⟩
  | applyTo j => exact .inr ⟨_, rfl⟩
  | installSnapshot s => exact .inr ⟨_, rfl⟩
  | purge id => exact .inr ⟨_, rfl⟩
  | deleteConflict id => exact .inr ⟨_, rfl⟩

theorem crash_inv {G : List Entry} (hG : Sorted G) {nd : Node} (h : Inv G nd) (ops : List Op) (hok : OpsOk G nd ops) :
    ∀ d ∈ crashDisks nd ops, DInv G d := by
  induction ops generalizing nd with
  | nil => intro d hd; simp only [crashDisks, List.mem_singleton] at hd; subst hd; exact h.disk
  | cons op ops ih =>
    intro d hd
    simp only [crashDisks, List.mem_append] at hd
    have hnext := step_inv hG h op hok.1
    rcases hd with hd | hd
    · rcases writesOf_le_one nd op with hw | ⟨w, hw⟩
      · rw [hw] at hd
        simp only [prefixDisks, List.mem_singleton] at hd
        subst hd; exact h.disk
      · rw [hw] at hd
        simp only [prefixDisks, List.mem_cons, List.not_mem_nil, or_false] at hd
        rcases hd with rfl | rfl
        · exact h.disk
        · have : applyWrite nd.disk w = (step nd op).disk := by
            rw [step_disk, hw]; rfl
          rw [this]; exact hnext.disk
    · exact ih hnext hok.2 d hd

theorem run_inv {G : List Entry} (hG : Sorted G) (ops : List Op) :
    ∀ nd, Inv G nd → OpsOk G nd ops → Inv G (run nd ops) := by
  induction ops with
  | nil => intro nd hi _; exact hi
  | cons op ops ih =>
    intro nd hi hok
    exact ih (step nd op) (step_inv hG hi op hok.1) hok.2

theorem specSM_eq (G : List Entry) (la : Option LogId) : specSM G la = smOf G (oidx la) := rfl

theorem mem_prefixDisks_take (d : Disk) (ws : List Write) (n : Nat) :
    applyWrites d (ws.take n) ∈ prefixDisks d ws := by
  induction ws generalizing d n with
  | nil => simp [prefixDisks, applyWrites]
  | cons w ws ih =>
    cases n with
    | zero => simp [prefixDisks, applyWrites]
    | succ n =>
      simp only [List.take_succ_cons, prefixDisks, applyWrites, List.foldl_cons]
      exact List.mem_cons_of_mem _ (ih (applyWrite d w) n)

/-- the disk the driver computes for "crash after `n` writes" is one of the crash disks of the theorem -/
theorem crashDiskAt_mem (nd : Node) (ops : List Op) (n : Nat) : crashDiskAt nd ops n ∈ crashDisks nd ops := by
  induction ops generalizing nd n with
  | nil => simp [crashDiskAt, crashDisks]
  | cons op ops ih =>
    simp only [crashDiskAt, crashDisks]
    split
    · exact List.mem_append_left _ (mem_prefixDisks_take _ _ _)
    · exact List.mem_append_right _ (ih _ _)

/-! ### contiguity: no holes in the log (C35 storage contract, C36 crash disks) -/

/-- consecutive indices: no hole inside the log -/
def Consec : List Entry → Prop
  | [] => True
  | [_] => True
  | a :: b :: r => b.id.index = a.id.index + 1 ∧ Consec (b :: r)

theorem Consec.tail {a : Entry} {l : List Entry} (h : Consec (a :: l)) : Consec l := by
  cases l with
  | nil => trivial
  | cons b r => exact h.2

theorem consec_cons {a : Entry} {l : List Entry} (hl : Consec l)
    (hh : ∀ b, l.head? = some b → b.id.index = a.id.index + 1) : Consec (a :: l) := by
  cases l with
  | nil => trivial
  | cons b r => exact ⟨hh b rfl, hl⟩

theorem consec_sorted {l : List Entry} (h : Consec l) : Sorted l := by
  induction l with
  | nil => exact Sorted.nil
  | cons a l ih =>
    have hs := ih h.tail
    refine List.pairwise_cons.2 ⟨?_, hs⟩
    intro z hz
    cases l with
    | nil => cases hz
    | cons b r =>
      simp only [List.mem_cons] at hz
      have hab : b.id.index = a.id.index + 1 := h.1
      rcases hz with rfl | hz
      · omega
      · have := (List.pairwise_cons.1 hs).1 z hz; omega

/-- inserting above every present index appends -/
theorem insertEntry_above {log : List Entry} {e : Entry} (h : ∀ x ∈ log, x.id.index < e.id.index) :
    insertEntry log e = log ++ [e] := by
  induction log with
  | nil => rfl
  | cons y ys ih =>
    have hy := h y (by simp)
    have h1 : ¬ e.id.index < y.id.index := by omega
    have h2 : ¬ e.id.index = y.id.index := by omega
    simp only [insertEntry, h1, h2, if_false, List.cons_append]
    rw [ih (fun x hx => h x (List.mem_cons_of_mem _ hx))]

theorem appendLog_above {log es : List Entry} (hes : Sorted es)
    (h : ∀ x ∈ log, ∀ e ∈ es, x.id.index < e.id.index) : appendLog log es = log ++ es := by
  induction es generalizing log with
  | nil => simp [appendLog]
  | cons e es ih =>
    have he : ∀ z ∈ es, e.id.index < z.id.index := (List.pairwise_cons.1 hes).1
    show appendLog (insertEntry log e) es = _
    rw [insertEntry_above (fun x hx => h x hx e (by simp))]
    rw [ih (List.pairwise_cons.1 hes).2]
    · simp
    · intro x hx z hz
      simp only [List.mem_append, List.mem_singleton] at hx
      rcases hx with hx | rfl
      · exact h x hx z (List.mem_cons_of_mem _ hz)
      · exact he z hz

theorem consec_append {l₁ l₂ : List Entry} (h₁ : Consec l₁) (h₂ : Consec l₂)
    (hj : ∀ a, l₁.getLast? = some a → ∀ b, l₂.head? = some b → b.id.index = a.id.index + 1) :
    Consec (l₁ ++ l₂) := by
  induction l₁ with
  | nil => simpa using h₂
  | cons a l ih =>
    cases l with
    | nil =>
      simp only [List.cons_append, List.nil_append]
      exact consec_cons h₂ (fun b hb => hj a rfl b hb)
    | cons b r =>
      simp only [List.cons_append]
      refine ⟨h₁.1, ?_⟩
      have := ih h₁.2 (fun a' ha' => hj a' (by rw [List.getLast?_cons_cons]; exact ha'))
      simpa using this

/-- truncating a hole-free log keeps a hole-free prefix -/
theorem consec_trunc {l : List Entry} (h : Consec l) (i : Nat) : Consec (truncLog l i) := by
  induction l with
  | nil => trivial
  | cons a l ih =>
    have hs := consec_sorted h
    have ha : ∀ z ∈ l, a.id.index < z.id.index := (List.pairwise_cons.1 hs).1
    unfold truncLog
    by_cases hai : a.id.index < i
    · simp only [List.filter_cons, hai, decide_true, if_true]
      refine consec_cons (ih h.tail) ?_
      intro b hb
      cases l with
      | nil => simp at hb
      | cons c r =>
        by_cases hci : c.id.index < i
        · simp only [List.filter_cons, hci, decide_true, if_true, List.head?_cons, Option.some.injEq] at hb
          subst hb; exact h.1
        · have hnil : (c :: r).filter (fun e => decide (e.id.index < i)) = [] := by
            simp only [List.filter_eq_nil_iff, decide_eq_true_eq]
            intro z hz
            have hsl := consec_sorted h.tail
            simp only [List.mem_cons] at hz
            rcases hz with rfl | hz
            · exact hci
            · have := (List.pairwise_cons.1 hsl).1 z hz; omega
          rw [hnil] at hb; simp at hb
    · have hnil : (a :: l).filter (fun e => decide (e.id.index < i)) = [] := by
        simp only [List.filter_eq_nil_iff, decide_eq_true_eq]
        intro z hz
        simp only [List.mem_cons] at hz
        rcases hz with rfl | hz
        · exact hai
        · have := ha z hz; omega
      rw [hnil]; trivial

/-- purging a hole-free log whose first index is at most `i+1` leaves a hole-free suffix starting at `i+1` -/
theorem consec_purge {l : List Entry} (h : Consec l) (i : Nat)
    (hf : ∀ f, l.head? = some f → f.id.index ≤ i + 1) :
    Consec (purgeLog l i) ∧ ∀ f, (purgeLog l i).head? = some f → f.id.index = i + 1 := by
  induction l with
  | nil => exact ⟨trivial, by intro f hf'; simp [purgeLog] at hf'⟩
  | cons a l ih =>
    have hs := consec_sorted h
    have ha : ∀ z ∈ l, a.id.index < z.id.index := (List.pairwise_cons.1 hs).1
    have hai := hf a rfl
    unfold purgeLog
    by_cases hia : i < a.id.index
    · have hall : (a :: l).filter (fun e => decide (i < e.id.index)) = a :: l := by
        apply List.filter_eq_self.2
        intro z hz
        simp only [List.mem_cons] at hz
        rcases hz with rfl | hz
        · simpa using hia
        · have := ha z hz; simp; omega
      rw [hall]
      exact ⟨h, by intro f hf'; simp at hf'; subst hf'; omega⟩
    · simp only [List.filter_cons, hia, decide_false, Bool.false_eq_true, if_false]
      apply ih h.tail
      intro f hf'
      cases l with
      | nil => simp at hf'
      | cons b r =>
        simp only [List.head?_cons, Option.some.injEq] at hf'
        rw [← hf']
        have : b.id.index = a.id.index + 1 := h.1
        omega

theorem trunc_head {l : List Entry} (hs : Sorted l) (i : Nat) {f : Entry}
    (h : (truncLog l i).head? = some f) : l.head? = some f := by
  cases l with
  | nil => simp [truncLog] at h
  | cons a l =>
    have ha : ∀ z ∈ l, a.id.index < z.id.index := (List.pairwise_cons.1 hs).1
    unfold truncLog at h
    by_cases hai : a.id.index < i
    · simp only [List.filter_cons, hai, decide_true, if_true, List.head?_cons] at h
      simpa using h
    · have hnil : (a :: l).filter (fun e => decide (e.id.index < i)) = [] := by
        simp only [List.filter_eq_nil_iff, decide_eq_true_eq]
        intro z hz
        simp only [List.mem_cons] at hz
        rcases hz with rfl | hz
        · exact hai
        · have := ha z hz; omega
      rw [hnil] at h; simp at h

/-- no hole in the log: consecutive indices, and the first entry comes right after the purge marker -/
def LogStore.NoHole (s : LogStore) : Prop :=
  Consec s.log ∧ ∀ p, s.lastPurged = some p → ∀ f, s.log.head? = some f → f.id.index = p.index + 1

/-- openraft's full calling discipline on the log half: entries are appended consecutively right after
the last log id (last entry, else purge marker); a purge never starts below the first entry minus one -/
def LogOp.Full (s : LogStore) : LogOp → Prop
  | .saveVote _ => True
  | .append es => Consec es ∧ ∀ f, es.head? = some f →
      match s.log.getLast? with
      | some l => f.id.index = l.id.index + 1
      | none => ∀ p, s.lastPurged = some p → f.id.index = p.index + 1
  | .deleteConflictSince _ => True
  | .purgeUpto id => ∀ f, s.log.head? = some f → f.id.index ≤ id.index + 1

def LogOpsFull (s : LogStore) : List LogOp → Prop
  | [] => True
  | op :: ops => op.Full s ∧ LogOpsFull (s.step op) ops

theorem LogStore.noHole_init : (({} : LogStore)).NoHole := ⟨trivial, by intro p hp; cases hp⟩

theorem head_le_of_sorted {l : List Entry} (hs : Sorted l) {f e : Entry} (hf : l.head? = some f) (he : e ∈ l) :
    f.id.index ≤ e.id.index := by
  cases l with
  | nil => cases he
  | cons a r =>
    simp only [List.head?_cons, Option.some.injEq] at hf
    subst hf
    simp only [List.mem_cons] at he
    rcases he with rfl | he
    · exact Nat.le_refl _
    · exact Nat.le_of_lt ((List.pairwise_cons.1 hs).1 e he)

theorem LogStore.noHole_step {s : LogStore} (h : s.NoHole) (op : LogOp) (hop : op.Full s) :
    (s.step op).NoHole := by
  obtain ⟨hc, hh⟩ := h
  cases op with
  | saveVote v => exact ⟨hc, hh⟩
  | deleteConflictSince id =>
    refine ⟨consec_trunc hc _, ?_⟩
    intro p hp f hf
    exact hh p hp f (trunc_head (consec_sorted hc) _ hf)
  | purgeUpto id =>
    obtain ⟨h1, h2⟩ := consec_purge hc id.index hop
    refine ⟨h1, ?_⟩
    intro p hp f hf
    have : id = p := by simpa [LogStore.step, LogStore.purgeUpto] using hp
    subst this
    exact h2 f hf
  | append es =>
    obtain ⟨hes, hstart⟩ := hop
    cases es with
    | nil => exact ⟨hc, hh⟩
    | cons e0 es' =>
      have hsl := consec_sorted hc
      have hse := consec_sorted hes
      have hstart0 := hstart e0 rfl
      -- every present index is below every appended one
      have habove : ∀ x ∈ s.log, ∀ e ∈ e0 :: es', x.id.index < e.id.index := by
        intro x hx e he
        have h0 : e0.id.index ≤ e.id.index := head_le_of_sorted hse rfl he
        cases hl : s.log.getLast? with
        | none =>
          have := List.getLast?_eq_none_iff.1 hl
          rw [this] at hx; cases hx
        | some l =>
          rw [hl] at hstart0
          have := sorted_getLast_max hsl hx hl
          simp only at hstart0
          omega
      have happ : (s.step (.append (e0 :: es'))).log = s.log ++ e0 :: es' := appendLog_above hse habove
      refine ⟨?_, ?_⟩
      · rw [happ]
        apply consec_append hc hes
        intro a ha b hb
        simp only [List.head?_cons, Option.some.injEq] at hb
        subst hb
        rw [ha] at hstart0
        exact hstart0
      · intro p hp f hf
        have hp' : s.lastPurged = some p := hp
        rw [happ] at hf
        cases hlog : s.log with
        | nil =>
          rw [hlog] at hf
          simp only [List.nil_append, List.head?_cons, Option.some.injEq] at hf
          subst hf
          have hl : s.log.getLast? = none := by rw [hlog]; rfl
          rw [hl] at hstart0
          exact hstart0 p hp'
        | cons a r =>
          rw [hlog] at hf
          simp only [List.cons_append, List.head?_cons, Option.some.injEq] at hf
          subst hf
          exact hh p hp' a (by rw [hlog]; rfl)

theorem LogStore.noHole_run {s : LogStore} (h : s.NoHole) (ops : List LogOp) (hops : LogOpsFull s ops) :
    (s.run ops).NoHole := by
  induction ops generalizing s with
  | nil => exact h
  | cons op ops ih => exact ih (noHole_step h op hops.1) hops.2

/-! ### no hole on the persistent store's disk at any crash point -/

/-- the log-store call an operation of the persistent store performs on the log half, if any -/
def Op.toLogOp : Op → Option LogOp
  | .saveVote v => some (.saveVote v)
  | .append es => some (.append es)
  | .purge id => some (.purgeUpto id)
  | .deleteConflict id => some (.deleteConflictSince id)
  | _ => none

theorem step_ls (nd : Node) (op : Op) :
    (step nd op).disk.ls = match op.toLogOp with
      | some l => nd.disk.ls.step l
      | none => nd.disk.ls := by
  cases op with
  | saveVote v => rw [step_disk, disk_saveVote]; rfl
  | append es => rw [step_disk, disk_append]; rfl
  | purge id => rw [step_disk, disk_purge]; rfl
  | deleteConflict id => rw [step_disk, disk_deleteConflict]; rfl
  | applyTo j => rfl
  | beginSnapshot => rfl
  | installSnapshot s => rfl
  | finishSnapshot =>
    simp only [Op.toLogOp, step_disk, writesOf]
    cases nd.pending with
    | none => rfl
    | some p => cases h : staleBuild nd.disk p <;> simp [h, applyWrites, applyWrite, applyPrim]

/-- the full log discipline, lifted to the operations of the persistent store -/
def Op.Full (nd : Node) (op : Op) : Prop :=
  match op.toLogOp with
  | some l => l.Full nd.disk.ls
  | none => True

def OpsFull (nd : Node) : List Op → Prop
  | [] => True
  | op :: ops => op.Full nd ∧ OpsFull (step nd op) ops

theorem step_noHole {nd : Node} (h : nd.disk.ls.NoHole) (op : Op) (hop : op.Full nd) :
    (step nd op).disk.ls.NoHole := by
  rw [step_ls]
  unfold Op.Full at hop
  cases hl : op.toLogOp with
  | none => exact h
  | some l => rw [hl] at hop; exact LogStore.noHole_step h l hop

theorem crash_noHole {nd : Node} (h : nd.disk.ls.NoHole) (ops : List Op) (hok : OpsFull nd ops) :
    ∀ d ∈ crashDisks nd ops, d.ls.NoHole := by
  induction ops generalizing nd with
  | nil => intro d hd; simp only [crashDisks, List.mem_singleton] at hd; subst hd; exact h
  | cons op ops ih =>
    intro d hd
    simp only [crashDisks, List.mem_append] at hd
    have hnext := step_noHole h op hok.1
    rcases hd with hd | hd
    · rcases writesOf_le_one nd op with hw | ⟨w, hw⟩
      · rw [hw] at hd
        simp only [prefixDisks, List.mem_singleton] at hd
        subst hd; exact h
      · rw [hw] at hd
        simp only [prefixDisks, List.mem_cons, List.not_mem_nil, or_false] at hd
        rcases hd with rfl | rfl
        · exact h
        · have : applyWrite nd.disk w = (step nd op).disk := by
            rw [step_disk, hw]; rfl
          rw [this]; exact hnext
    · exact ih hnext hok.2 d hd

end Varpulis.RaftStore
