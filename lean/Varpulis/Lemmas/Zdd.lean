import Varpulis.Model.Zdd
namespace Varpulis.Zdd

@[simp] theorem sets_empty : sets .empty = [] := rfl
@[simp] theorem sets_base : sets .base = [[]] := rfl
@[simp] theorem sets_node (v lo hi) : sets (.node v lo hi) = sets lo ++ (sets hi).map (v :: ·) := rfl

theorem sets_mk (v : Nat) (lo hi : Z) : sets (mk v lo hi) = sets lo ++ (sets hi).map (v :: ·) := by
  unfold mk; split <;> simp_all

theorem mem_mk (v : Nat) (lo hi : Z) (s : List Nat) :
    s ∈ sets (mk v lo hi) ↔ s ∈ sets lo ∨ ∃ t ∈ sets hi, s = v :: t := by
  rw [sets_mk]; simp [eq_comm]

theorem mem_union (a b : Z) : ∀ s, s ∈ sets (union a b) ↔ s ∈ sets a ∨ s ∈ sets b := by
  fun_induction union a b <;> intro s <;> simp_all [mem_mk]
  all_goals first
    | grind
    | (rename_i a b _ _ _ _ _ _; cases a <;> cases b <;> simp_all <;> grind)


/-! ### ordering / reducedness -/

@[simp] theorem ord_empty (n) : Ord n .empty := trivial
@[simp] theorem ord_base (n) : Ord n .base := trivial
@[simp] theorem ord_node (n v lo hi) : Ord n (.node v lo hi) ↔ n ≤ v ∧ Ord (v + 1) lo ∧ Ord (v + 1) hi := Iff.rfl
@[simp] theorem red_empty : Red .empty := trivial
@[simp] theorem red_base : Red .base := trivial
@[simp] theorem red_node (v lo hi) : Red (.node v lo hi) ↔ hi ≠ .empty ∧ Red lo ∧ Red hi := Iff.rfl

theorem Ord.mono {z : Z} : ∀ {n m}, Ord n z → m ≤ n → Ord m z := by
  induction z with
  | empty => simp
  | base => simp
  | node v lo hi _ _ => intro n m h hm; simp_all; omega

theorem head_ge {z : Z} : ∀ {n v t}, Ord n z → (v :: t) ∈ sets z → n ≤ v := by
  induction z with
  | empty => simp
  | base => simp
  | node w lo hi ihlo ihhi =>
    intro n v t h hm
    simp at h hm
    rcases hm with hm | ⟨u, hu, rfl, rfl⟩
    · have := ihlo h.2.1 hm; omega
    · exact h.1

theorem ord_mk {n v lo hi} (hv : n ≤ v) (hl : Ord (v+1) lo) (hh : Ord (v+1) hi) : Ord n (mk v lo hi) := by
  unfold mk; split
  · exact hl.mono (by omega)
  · simp_all

theorem red_mk {v lo hi} (hl : Red lo) (hh : Red hi) : Red (mk v lo hi) := by
  unfold mk; split <;> simp_all


macro "zdd_ord" : tactic => `(tactic| (
  all_goals try assumption
  all_goals try (simp only [ord_node] at *)
  all_goals try (apply ord_mk <;> grind [Ord.mono, ord_node, ord_base, ord_empty])
  all_goals try trivial
  all_goals try grind [Ord.mono, ord_node, ord_base, ord_empty]))

theorem ord_union (a b : Z) : ∀ n, Ord n a → Ord n b → Ord n (union a b) := by
  fun_induction union a b <;> intro n ha hb <;> zdd_ord

theorem ord_inter (a b : Z) : ∀ n, Ord n a → Ord n b → Ord n (inter a b) := by
  fun_induction inter a b <;> intro n ha hb <;> zdd_ord

theorem ord_diff (a b : Z) : ∀ n, Ord n a → Ord n b → Ord n (diff a b) := by
  fun_induction diff a b <;> intro n ha hb <;> zdd_ord

theorem ord_pwo (a : Z) (var : Nat) : ∀ n, Ord n a → n ≤ var → Ord n (pwo a var) := by
  fun_induction pwo a var <;> intro n ha hv <;> zdd_ord
  exact ord_mk hv ha.2.1 (ord_union _ _ _ ha.2.1 ha.2.2)

theorem not_cons_mem {z : Z} {n v : Nat} {t : List Nat} (h : Ord n z) (hv : v < n) : (v :: t) ∉ sets z :=
  fun hm => by have := head_ge h hm; omega


theorem mem_inter (a b : Z) : ∀ n, Ord n a → Ord n b → ∀ s, s ∈ sets (inter a b) ↔ s ∈ sets a ∧ s ∈ sets b := by
  fun_induction inter a b <;> intro n ha hb s
  all_goals try (simp only [ord_node] at ha hb)
  all_goals try (simp_all [mem_mk]; done)
  all_goals try (simp only [mem_mk, sets_node, sets_base, sets_empty, List.mem_append, List.mem_map]; grind [not_cons_mem, ord_node, ord_base, sets_base])
  case case1 => rename_i h; rcases h with h | h <;> subst h <;> simp
  case case3 =>
    rename_i av alo ahi bv blo bhi h _ _ ih
    have hb' : Ord (av+1) (Z.node bv blo bhi) := ⟨by omega, hb.2.1, hb.2.2⟩
    have := ih (av+1) ha.2.1 hb' s
    simp only [sets_node, List.mem_append, List.mem_map] at *
    grind [not_cons_mem]
  case case4 =>
    rename_i av alo ahi bv blo bhi _ h _ _ ih
    have ha' : Ord (bv+1) (Z.node av alo ahi) := ⟨by omega, ha.2.1, ha.2.2⟩
    have := ih (bv+1) ha' hb.2.1 s
    simp only [sets_node, List.mem_append, List.mem_map] at *
    grind [not_cons_mem]
  case case8 => rename_i a b _ _ _ _ _; cases a <;> cases b <;> simp_all <;> grind



theorem mem_diff (a b : Z) : ∀ n, Ord n a → Ord n b → ∀ s, s ∈ sets (diff a b) ↔ s ∈ sets a ∧ s ∉ sets b := by
  fun_induction diff a b <;> intro n ha hb s
  all_goals try (simp only [ord_node] at ha hb)
  all_goals try (simp_all [mem_mk]; done)
  all_goals try (simp only [mem_mk, sets_node, sets_base, sets_empty, List.mem_append, List.mem_map]; grind [not_cons_mem, ord_node, ord_base, sets_base])
  case case4 =>
    rename_i av alo ahi bv blo bhi h _ _ _ ih
    have hb' : Ord (av+1) (Z.node bv blo bhi) := ⟨by omega, hb.2.1, hb.2.2⟩
    have := ih (av+1) ha.2.1 hb' s
    simp only [mem_mk, sets_node, List.mem_append, List.mem_map] at *
    grind [not_cons_mem]
  case case5 =>
    rename_i av alo ahi bv blo bhi _ h _ _ _ ih
    have ha' : Ord (bv+1) (Z.node av alo ahi) := ⟨by omega, ha.2.1, ha.2.2⟩
    have := ih (bv+1) ha' hb.2.1 s
    simp only [sets_node, List.mem_append, List.mem_map] at *
    grind [not_cons_mem]
  case case9 => rename_i a b _ _ _ _ _ _; cases a <;> cases b <;> simp_all <;> grind



theorem count_eq (a : Z) : count a = (sets a).length := by
  induction a <;> simp_all [count]

theorem insertSorted_lt {v : Nat} {t : List Nat} (h : ∀ x ∈ t, v < x) : insertSorted v t = v :: t := by
  cases t with
  | nil => rfl
  | cons x xs => simp [insertSorted, h x (by simp)]

/-- every member of an ordered ZDD is strictly ascending with elements ≥ n -/
theorem mem_sorted {z : Z} : ∀ {n s}, Ord n z → s ∈ sets z → s.Pairwise (· < ·) ∧ ∀ x ∈ s, n ≤ x := by
  induction z with
  | empty => simp
  | base => simp
  | node v lo hi ihlo ihhi =>
    intro n s h hm
    simp at h hm
    rcases hm with hm | ⟨t, ht, rfl⟩
    · have := ihlo h.2.1 hm
      exact ⟨this.1, fun x hx => by have := this.2 x hx; omega⟩
    · have := ihhi h.2.2 ht
      refine ⟨List.pairwise_cons.2 ⟨fun x hx => by have := this.2 x hx; omega, this.1⟩, ?_⟩
      intro x hx
      simp at hx
      rcases hx with rfl | hx
      · exact h.1
      · have := this.2 x hx; omega

theorem sets_nodup {z : Z} : ∀ {n}, Ord n z → (sets z).Nodup := by
  induction z with
  | empty => simp
  | base => simp
  | node v lo hi ihlo ihhi =>
    intro n h
    simp at h
    simp only [sets_node]
    refine List.nodup_append.2 ⟨ihlo h.2.1, ?_, ?_⟩
    · exact List.Pairwise.map _ (fun a b hab => by simpa using hab) (ihhi h.2.2)
    · intro s hs t ht hst
      simp at ht
      rcases ht with ⟨u, hu, rfl⟩
      subst hst
      exact not_cons_mem h.2.1 (by omega) hs



theorem red_sets_ne_nil {z : Z} : Red z → z ≠ .empty → sets z ≠ [] := by
  induction z with
  | empty => simp
  | base => simp
  | node v lo hi _ ihhi =>
    intro h _
    simp at h
    have := ihhi h.2.2 h.1
    simp [this]

/-- canonicity at tree level: ordered, reduced trees with the same members are equal -/
theorem canonical (a : Z) : ∀ (b : Z) (n : Nat), Ord n a → Ord n b → Red a → Red b →
    (∀ s, s ∈ sets a ↔ s ∈ sets b) → a = b := by
  induction a with
  | empty =>
    intro b n _ _ _ rb h
    by_cases hb : b = .empty
    · exact hb.symm
    · have := red_sets_ne_nil rb hb
      cases hs : sets b with
      | nil => exact absurd hs this
      | cons x xs => have := (h x).2 (by simp [hs]); simp at this
  | base =>
    intro b n _ ob _ rb h
    cases b with
    | empty => have := (h []).1 (by simp); simp at this
    | base => rfl
    | node v lo hi =>
      simp at ob rb
      have hne := red_sets_ne_nil rb.2.2 rb.1
      cases hs : sets hi with
      | nil => exact absurd hs hne
      | cons x xs =>
        have := (h (v :: x)).2 (by simp [hs])
        simp at this
  | node v lo hi ihlo ihhi =>
    intro b n oa ob ra rb h
    simp at oa ra
    cases b with
    | empty =>
      have hne := red_sets_ne_nil ra.2.2 ra.1
      cases hs : sets hi with
      | nil => exact absurd hs hne
      | cons x xs => have := (h (v :: x)).1 (by simp [hs]); simp at this
    | base =>
      have hne := red_sets_ne_nil ra.2.2 ra.1
      cases hs : sets hi with
      | nil => exact absurd hs hne
      | cons x xs => have := (h (v :: x)).1 (by simp [hs]); simp at this
    | node w lo' hi' =>
      simp at ob rb
      have hnea := red_sets_ne_nil ra.2.2 ra.1
      have hneb := red_sets_ne_nil rb.2.2 rb.1
      have hvw : v = w := by
        rcases Nat.lt_trichotomy v w with hlt | heq | hgt
        · exfalso
          cases hs : sets hi with
          | nil => exact absurd hs hnea
          | cons x xs =>
            have hm := (h (v :: x)).1 (by simp [hs])
            simp at hm
            rcases hm with hm | ⟨t, _, hvt⟩
            · exact not_cons_mem ob.2.1 (by omega) hm
            · omega
        · exact heq
        · exfalso
          cases hs : sets hi' with
          | nil => exact absurd hs hneb
          | cons x xs =>
            have hm := (h (w :: x)).2 (by simp [hs])
            simp at hm
            rcases hm with hm | ⟨t, _, hvt⟩
            · exact not_cons_mem oa.2.1 (by omega) hm
            · omega
      subst hvw
      have hlo : lo = lo' := ihlo lo' (v+1) oa.2.1 ob.2.1 ra.2.1 rb.2.1 (by
        intro s
        have := h s
        simp at this
        constructor
        · intro hs
          rcases this.1 (Or.inl hs) with h1 | ⟨t, _, rfl⟩
          · exact h1
          · exact absurd hs (not_cons_mem oa.2.1 (by omega))
        · intro hs
          rcases this.2 (Or.inl hs) with h1 | ⟨t, _, rfl⟩
          · exact h1
          · exact absurd hs (not_cons_mem ob.2.1 (by omega)))
      have hhi : hi = hi' := ihhi hi' (v+1) oa.2.2 ob.2.2 ra.2.2 rb.2.2 (by
        intro s
        have := h (v :: s)
        simp at this
        constructor
        · intro hs
          rcases this.1 (Or.inr hs) with h1 | h1
          · exact absurd h1 (not_cons_mem ob.2.1 (by omega))
          · exact h1
        · intro hs
          rcases this.2 (Or.inr hs) with h1 | h1
          · exact absurd h1 (not_cons_mem oa.2.1 (by omega))
          · exact h1)
      rw [hlo, hhi]



macro "zdd_red" : tactic => `(tactic| (
  all_goals try assumption
  all_goals try (simp only [red_node] at *)
  all_goals try (apply red_mk <;> grind [red_node, red_base, red_empty])
  all_goals try trivial
  all_goals try grind [red_node, red_base, red_empty]))

theorem red_union (a b : Z) : Red a → Red b → Red (union a b) := by
  fun_induction union a b <;> intro ha hb <;> zdd_red

theorem red_inter (a b : Z) : Red a → Red b → Red (inter a b) := by
  fun_induction inter a b <;> intro ha hb <;> zdd_red

theorem red_diff (a b : Z) : Red a → Red b → Red (diff a b) := by
  fun_induction diff a b <;> intro ha hb <;> zdd_red

theorem red_pwo (a : Z) (var : Nat) : Red a → Red (pwo a var) := by
  fun_induction pwo a var <;> intro ha <;> zdd_red
  exact red_mk ha.2.1 (red_union _ _ ha.2.1 ha.2.2)


theorem ord_product (a b : Z) : ∀ n, Ord n a → Ord n b → Ord n (product a b) := by
  fun_induction product a b <;> intro n ha hb <;> zdd_ord
  rename_i av alo ahi bv blo bhi h1 h2 _ _ _ ih4 ih3 ih2 ih1
  have : av = bv := by omega
  subst this
  exact ord_mk ha.1 (ih4 _ ha.2.1 hb.2.1)
    (ord_union _ _ _ (ord_union _ _ _ (ih3 _ ha.2.2 hb.2.1) (ih2 _ ha.2.1 hb.2.2)) (ih1 _ ha.2.2 hb.2.2))

theorem red_product (a b : Z) : Red a → Red b → Red (product a b) := by
  fun_induction product a b <;> intro ha hb <;> zdd_red
  rename_i ih4 ih3 ih2 ih1
  exact red_mk (ih4 ha.2.1 hb.2.1)
    (red_union _ _ (red_union _ _ (ih3 ha.2.2 hb.2.1) (ih2 ha.2.1 hb.2.2)) (ih1 ha.2.2 hb.2.2))


theorem insertSorted_of_mem {z : Z} {n v : Nat} {t : List Nat} (h : Ord n z) (hv : v < n) (ht : t ∈ sets z) :
    insertSorted v t = v :: t :=
  insertSorted_lt (fun x hx => by have := (mem_sorted h ht).2 x hx; omega)

theorem insertSorted_cons_gt {v x : Nat} {t : List Nat} (h : x < v) : insertSorted v (x :: t) = x :: insertSorted v t := by
  simp only [insertSorted]; split
  · omega
  · split
    · omega
    · rfl

@[simp] theorem insertSorted_cons_self {v : Nat} {t : List Nat} : insertSorted v (v :: t) = v :: t := by
  simp [insertSorted]

theorem mem_pwo (a : Z) (var : Nat) : ∀ n, Ord n a → ∀ s,
    s ∈ sets (pwo a var) ↔ s ∈ sets a ∨ ∃ t ∈ sets a, s = insertSorted var t := by
  fun_induction pwo a var <;> intro n ha s
  all_goals try (simp only [ord_node] at ha)
  · simp
  · simp [mem_mk, insertSorted]
  · rename_i v lo hi hlt ih1 ih2
    simp only [mem_mk, sets_node, List.mem_append, List.mem_map, ih1 _ ha.2.1, ih2 _ ha.2.2]
    constructor
    · rintro (h | ⟨t, hl, rfl⟩)
      · rcases h with h | ⟨t, ht, rfl⟩
        · exact Or.inl (Or.inl h)
        · exact Or.inr ⟨t, Or.inl ht, rfl⟩
      · rcases hl with hh | ⟨u, hu, rfl⟩
        · exact Or.inl (Or.inr ⟨t, hh, rfl⟩)
        · exact Or.inr ⟨v :: u, Or.inr ⟨u, hu, rfl⟩, (insertSorted_cons_gt hlt).symm⟩
    · rintro ((h | ⟨t, hh, rfl⟩) | ⟨t, (hl | ⟨u, hu, rfl⟩), rfl⟩)
      · exact Or.inl (Or.inl h)
      · exact Or.inr ⟨t, Or.inl hh, rfl⟩
      · exact Or.inl (Or.inr ⟨t, hl, rfl⟩)
      · exact Or.inr ⟨insertSorted var u, Or.inr ⟨u, hu, rfl⟩, insertSorted_cons_gt hlt⟩
  · rename_i lo hi hnlt
    simp only [mem_mk, mem_union, sets_node, List.mem_append, List.mem_map]
    constructor
    · rintro (h | ⟨t, (hl | hh), rfl⟩)
      · exact Or.inl (Or.inl h)
      · exact Or.inr ⟨t, Or.inl hl, (insertSorted_of_mem ha.2.1 (by omega) hl).symm⟩
      · exact Or.inl (Or.inr ⟨t, hh, rfl⟩)
    · rintro ((h | ⟨t, hh, rfl⟩) | ⟨t, (hl | ⟨u, hu, rfl⟩), rfl⟩)
      · exact Or.inl h
      · exact Or.inr ⟨t, Or.inr hh, rfl⟩
      · exact Or.inr ⟨t, Or.inl hl, insertSorted_of_mem ha.2.1 (by omega) hl⟩
      · exact Or.inr ⟨u, Or.inr hu, by simp⟩
  · rename_i v lo hi h1 h2
    have hord : Ord v (Z.node v lo hi) := ⟨Nat.le_refl _, ha.2.1, ha.2.2⟩
    have hlt : var < v := by omega
    simp only [mem_mk]
    constructor
    · rintro (h | ⟨t, ht, rfl⟩)
      · exact Or.inl h
      · exact Or.inr ⟨t, ht, (insertSorted_of_mem hord hlt ht).symm⟩
    · rintro (h | ⟨t, ht, rfl⟩)
      · exact Or.inl h
      · exact Or.inr ⟨t, ht, insertSorted_of_mem hord hlt ht⟩



theorem sets_fromSorted (l : List Nat) : sets (fromSorted l) = [l] := by
  induction l with
  | nil => rfl
  | cons v vs ih => simp [fromSorted, sets_mk, ih]

theorem ord_fromSorted (l : List Nat) : ∀ n, l.Pairwise (· < ·) → (∀ x ∈ l, n ≤ x) → Ord n (fromSorted l) := by
  induction l with
  | nil => intros; trivial
  | cons v vs ih =>
    intro n hp hn
    simp at hp hn
    exact ord_mk hn.1 trivial (ih (v+1) hp.2 (fun x hx => hp.1 x hx))

theorem red_fromSorted (l : List Nat) : Red (fromSorted l) := by
  induction l with
  | nil => trivial
  | cons v vs ih => exact red_mk trivial ih

theorem mem_insertSorted (v : Nat) (l : List Nat) : ∀ x, x ∈ insertSorted v l ↔ x = v ∨ x ∈ l := by
  induction l with
  | nil => simp [insertSorted]
  | cons y ys ih =>
    intro x; simp only [insertSorted]; split
    · simp
    · split
      · subst_vars; simp
      · simp [ih]; grind

theorem pairwise_insertSorted (v : Nat) (l : List Nat) (h : l.Pairwise (· < ·)) : (insertSorted v l).Pairwise (· < ·) := by
  induction l with
  | nil => simp [insertSorted]
  | cons y ys ih =>
    simp at h
    simp only [insertSorted]; split
    · simp; refine ⟨⟨by assumption, fun a ha => ?_⟩, h⟩
      have := h.1 a ha; omega
    · split
      · simp; exact h
      · simp; refine ⟨fun a ha => ?_, ih h.2⟩
        rcases (mem_insertSorted v ys a).1 ha with rfl | ha
        · omega
        · exact h.1 a ha

theorem normalize_spec (l : List Nat) : (normalize l).Pairwise (· < ·) ∧ ∀ x, x ∈ normalize l ↔ x ∈ l := by
  induction l with
  | nil => simp [normalize]
  | cons y ys ih =>
    simp only [normalize, List.foldr_cons] at *
    exact ⟨pairwise_insertSorted _ _ ih.1, fun x => by simp [mem_insertSorted, ih.2]⟩

theorem contains_iff (a : Z) : ∀ n (q : List Nat), Ord n a → (contains a q = true ↔ q ∈ sets a) := by
  induction a with
  | empty => intro n q _; simp [contains]
  | base => intro n q _; cases q <;> simp [contains]
  | node v lo hi ihlo ihhi =>
    intro n q h
    simp at h
    cases q with
    | nil => simp [contains, ihlo _ [] h.2.1]
    | cons e q =>
      simp only [contains]
      split
      · subst_vars
        simp [ihhi _ q h.2.2]
        intro hm; exact absurd hm (not_cons_mem h.2.1 (by omega))
      · split
        · simp
          refine ⟨fun hm => not_cons_mem h.2.1 (by omega) hm, fun _ _ => by omega⟩
        · simp [ihlo _ (e :: q) h.2.1]
          intro _ h'; exact absurd h' (by assumption)



theorem mem_sunion (t u : List Nat) : ∀ x, x ∈ sunion t u ↔ x ∈ t ∨ x ∈ u := by
  induction t with
  | nil => simp [sunion]
  | cons y ys ih => intro x; simp only [sunion, List.foldr_cons] at *; simp [mem_insertSorted, ih]; grind

theorem sunion_cons_lt {v : Nat} {t u : List Nat} (ht : ∀ x ∈ t, v < x) (hu : ∀ x ∈ u, v < x) :
    sunion (v :: t) u = v :: sunion t u := by
  simp only [sunion, List.foldr_cons]
  apply insertSorted_lt
  intro x hx
  rcases (mem_sunion t u x).1 hx with h | h
  · exact ht x h
  · exact hu x h

theorem sunion_cons_right {v : Nat} {t u : List Nat} (ht : ∀ x ∈ t, v < x) :
    sunion t (v :: u) = v :: sunion t u := by
  induction t with
  | nil => simp [sunion]
  | cons y ys ih =>
    have hy : v < y := ht y (by simp)
    have := ih (fun x hx => ht x (by simp [hx]))
    simp only [sunion, List.foldr_cons] at *
    rw [this, insertSorted_cons_gt hy]

theorem sunion_cons_cons {v : Nat} {t u : List Nat} (ht : ∀ x ∈ t, v < x) :
    sunion (v :: t) (v :: u) = v :: sunion t u := by
  have := sunion_cons_right (u := u) ht
  simp only [sunion, List.foldr_cons] at *
  rw [this]; simp

theorem sunion_nil_right (t : List Nat) (h : t.Pairwise (· < ·)) : sunion t [] = t := by
  induction t with
  | nil => rfl
  | cons y ys ih =>
    simp at h
    simp only [sunion, List.foldr_cons] at *
    rw [ih h.2]; exact insertSorted_lt h.1

theorem mem_product (a b : Z) : ∀ n, Ord n a → Ord n b → ∀ s,
    s ∈ sets (product a b) ↔ ∃ t ∈ sets a, ∃ u ∈ sets b, s = sunion t u := by
  fun_induction product a b <;> intro n ha hb s
  all_goals try (simp only [ord_node] at ha hb)
  case case1 =>
    rename_i h
    rcases h with h | h <;> subst h <;> simp
  case case2 =>
    simp [sunion]
  case case3 =>
    rename_i a _ _
    simp only [sets_base, List.mem_singleton]
    constructor
    · intro h; exact ⟨s, h, [], rfl, (sunion_nil_right s (mem_sorted ha h).1).symm⟩
    · rintro ⟨t, ht, u, rfl, rfl⟩; rw [sunion_nil_right t (mem_sorted ha ht).1]; exact ht
  case case4 =>
    rename_i av alo ahi bv blo bhi hlt _ _ _ ih2 ih1
    have hB : Ord (av+1) (Z.node bv blo bhi) := ⟨by omega, hb.2.1, hb.2.2⟩
    rw [mem_mk]
    constructor
    · rintro (h | ⟨w, hw, rfl⟩)
      · obtain ⟨t, ht, u, hu, rfl⟩ := (ih2 _ ha.2.1 hB s).1 h
        exact ⟨t, by simp [ht], u, hu, rfl⟩
      · obtain ⟨t, ht, u, hu, rfl⟩ := (ih1 _ ha.2.2 hB w).1 hw
        refine ⟨av :: t, by simp [ht], u, hu, ?_⟩
        rw [sunion_cons_lt (fun x hx => by have := (mem_sorted ha.2.2 ht).2 x hx; omega)
          (fun x hx => by have := (mem_sorted hB hu).2 x hx; omega)]
    · rintro ⟨t, ht, u, hu, rfl⟩
      simp only [sets_node, List.mem_append, List.mem_map] at ht
      rcases ht with ht | ⟨t', ht', rfl⟩
      · exact Or.inl ((ih2 _ ha.2.1 hB _).2 ⟨t, ht, u, hu, rfl⟩)
      · refine Or.inr ⟨sunion t' u, (ih1 _ ha.2.2 hB _).2 ⟨t', ht', u, hu, rfl⟩, ?_⟩
        exact sunion_cons_lt (fun x hx => by have := (mem_sorted ha.2.2 ht').2 x hx; omega)
          (fun x hx => by have := (mem_sorted hB hu).2 x hx; omega)
  case case5 =>
    rename_i av alo ahi bv blo bhi _ hgt _ _ _ ih2 ih1
    have hA : Ord (bv+1) (Z.node av alo ahi) := ⟨by omega, ha.2.1, ha.2.2⟩
    rw [mem_mk]
    constructor
    · rintro (h | ⟨w, hw, rfl⟩)
      · obtain ⟨t, ht, u, hu, rfl⟩ := (ih2 _ hA hb.2.1 s).1 h
        exact ⟨t, ht, u, by simp [hu], rfl⟩
      · obtain ⟨t, ht, u, hu, rfl⟩ := (ih1 _ hA hb.2.2 w).1 hw
        refine ⟨t, ht, bv :: u, by simp [hu], ?_⟩
        rw [sunion_cons_right (fun x hx => by have := (mem_sorted hA ht).2 x hx; omega)]
    · rintro ⟨t, ht, u, hu, rfl⟩
      simp only [sets_node, List.mem_append, List.mem_map] at hu
      rcases hu with hu | ⟨u', hu', rfl⟩
      · exact Or.inl ((ih2 _ hA hb.2.1 _).2 ⟨t, ht, u, hu, rfl⟩)
      · refine Or.inr ⟨sunion t u', (ih1 _ hA hb.2.2 _).2 ⟨t, ht, u', hu', rfl⟩, ?_⟩
        exact sunion_cons_right (fun x hx => by have := (mem_sorted hA ht).2 x hx; omega)
  case case6 =>
    rename_i av alo ahi bv blo bhi h1 h2 _ _ _ ih4 ih3 ih2 ih1
    have : av = bv := by omega
    subst this
    have gtA : ∀ {t}, t ∈ sets ahi → ∀ x ∈ t, av < x := fun ht x hx => by have := (mem_sorted ha.2.2 ht).2 x hx; omega
    have gtAl : ∀ {t}, t ∈ sets alo → ∀ x ∈ t, av < x := fun ht x hx => by have := (mem_sorted ha.2.1 ht).2 x hx; omega
    have gtB : ∀ {t}, t ∈ sets blo → ∀ x ∈ t, av < x := fun ht x hx => by have := (mem_sorted hb.2.1 ht).2 x hx; omega
    rw [mem_mk]
    constructor
    · rintro (h | ⟨w, hw, rfl⟩)
      · obtain ⟨t, ht, u, hu, rfl⟩ := (ih4 _ ha.2.1 hb.2.1 s).1 h
        exact ⟨t, by simp [ht], u, by simp [hu], rfl⟩
      · rw [mem_union, mem_union] at hw
        rcases hw with (hw | hw) | hw
        · obtain ⟨t, ht, u, hu, rfl⟩ := (ih3 _ ha.2.2 hb.2.1 w).1 hw
          exact ⟨av :: t, by simp [ht], u, by simp [hu], (sunion_cons_lt (gtA ht) (gtB hu)).symm⟩
        · obtain ⟨t, ht, u, hu, rfl⟩ := (ih2 _ ha.2.1 hb.2.2 w).1 hw
          exact ⟨t, by simp [ht], av :: u, by simp [hu], (sunion_cons_right (gtAl ht)).symm⟩
        · obtain ⟨t, ht, u, hu, rfl⟩ := (ih1 _ ha.2.2 hb.2.2 w).1 hw
          exact ⟨av :: t, by simp [ht], av :: u, by simp [hu], (sunion_cons_cons (gtA ht)).symm⟩
    · rintro ⟨t, ht, u, hu, rfl⟩
      simp only [sets_node, List.mem_append, List.mem_map] at ht hu
      rcases ht with ht | ⟨t', ht', rfl⟩ <;> rcases hu with hu | ⟨u', hu', rfl⟩
      · exact Or.inl ((ih4 _ ha.2.1 hb.2.1 _).2 ⟨t, ht, u, hu, rfl⟩)
      · refine Or.inr ⟨sunion t u', ?_, sunion_cons_right (gtAl ht)⟩
        rw [mem_union, mem_union]
        exact Or.inl (Or.inr ((ih2 _ ha.2.1 hb.2.2 _).2 ⟨t, ht, u', hu', rfl⟩))
      · refine Or.inr ⟨sunion t' u, ?_, sunion_cons_lt (gtA ht') (gtB hu)⟩
        rw [mem_union, mem_union]
        exact Or.inl (Or.inl ((ih3 _ ha.2.2 hb.2.1 _).2 ⟨t', ht', u, hu, rfl⟩))
      · refine Or.inr ⟨sunion t' u', ?_, sunion_cons_cons (gtA ht')⟩
        rw [mem_union, mem_union]
        exact Or.inr ((ih1 _ ha.2.2 hb.2.2 _).2 ⟨t', ht', u', hu', rfl⟩)
  case case7 =>
    rename_i b _ a _ _ _
    cases a <;> cases b <;> simp_all <;> grind


end Varpulis.Zdd
