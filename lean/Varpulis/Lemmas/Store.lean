import Varpulis.Model.Store
namespace Varpulis.Store

/-- keys strictly ascending -/
def Sorted (l : List (Nat × Content)) : Prop := l.Pairwise (fun a b => a.1 < b.1)

/-- every listed file is a complete checkpoint carrying its own id -/
def AllGood (l : List (Nat × Content)) : Prop := ∀ e ∈ l, ∃ x, e = (e.1, Content.good e.1 x)

theorem insertFin_gt (l : List (Nat × Content)) (k : Nat) (c : Content)
    (h : ∀ e ∈ l, e.1 < k) : insertFin l k c = l ++ [(k, c)] := by
  induction l with
  | nil => rfl
  | cons e rest ih =>
    obtain ⟨k', c'⟩ := e
    have hk : k' < k := h (k', c') (by simp)
    simp only [insertFin]
    rw [if_neg (by omega), if_neg (by omega), ih (fun e he => h e (by simp [he]))]
    rfl

theorem getLast?_drop_lt {α} (l : List α) (j : Nat) (h : j < l.length) : (l.drop j).getLast? = l.getLast? := by
  induction j generalizing l with
  | zero => rfl
  | succ j ih =>
    cases l with
    | nil => simp at h
    | cons a rest =>
      simp at h
      rw [List.drop_succ_cons, ih rest h]
      cases rest with
      | nil => simp at h
      | cons b r => simp [List.getLast?_cons_cons]

theorem recover_append_good (l : List (Nat × Content)) (k i x : Nat) :
    recover (l ++ [(k, Content.good i x)]) = some (i, x) := by
  induction l with
  | nil => simp [recover]
  | cons e rest ih => simp [recover, ih]

theorem recover_of_last_good (l : List (Nat × Content)) (k i x : Nat)
    (h : l.getLast? = some (k, Content.good i x)) : recover l = some (i, x) := by
  have hne : l ≠ [] := by intro hn; simp [hn] at h
  have := List.dropLast_concat_getLast hne
  rw [← this]
  have hl : l.getLast hne = (k, Content.good i x) := by
    have := List.getLast?_eq_some_getLast hne
    rw [this] at h; exact Option.some.inj h
  rw [hl]; exact recover_append_good _ _ _ _


theorem le_last_of_pairwise {α} (f : α → Nat) (l : List α) (hp : l.Pairwise (fun a b => f a < f b))
    (m : α) (hm : l.getLast? = some m) : ∀ e ∈ l, f e ≤ f m := by
  induction l with
  | nil => simp
  | cons a rest ih =>
    intro e he
    simp at hp
    cases rest with
    | nil => simp at hm he; subst hm; subst he; exact Nat.le_refl _
    | cons b r =>
      rw [List.getLast?_cons_cons] at hm
      have hmem : m ∈ (b :: r) := List.mem_of_getLast? hm
      simp only [List.mem_cons] at he
      rcases he with rfl | he
      · exact Nat.le_of_lt (hp.1 m hmem)
      · exact ih hp.2 hm e (by simpa using he)

structure Inv (s : Sys) : Prop where
  sorted : Sorted s.disk.fin
  good : ∀ e ∈ s.disk.fin, ∃ x, e = (e.1, Content.good e.1 x) ∧ (e.1, x) ∈ s.written
  lt : ∀ e ∈ s.disk.fin, e.1 < s.nextId
  wlt : ∀ w ∈ s.written, w.1 < s.nextId
  wasc : s.written.Pairwise (fun a b => a.1 < b.1)
  last : ∀ w, s.written.getLast? = some w → s.disk.fin.getLast? = some (w.1, Content.good w.1 w.2)
  empty : s.written = [] → s.disk.fin = []

theorem inv_init : Inv {} := by
  constructor <;> simp [Sorted]

/-- facts about the disk after the rename and `j` prune deletions -/
theorem saveK_renamed (s : Sys) (hs : Inv s) (data keep k : Nat) (hk : 1 ≤ keep) :
    let d := saveK s.disk s.nextId data keep (k + 3)
    Sorted d.fin ∧
    (∀ e ∈ d.fin, ∃ x, e = (e.1, Content.good e.1 x) ∧ (e.1, x) ∈ s.written ++ [(s.nextId, data)]) ∧
    (∀ e ∈ d.fin, e.1 < s.nextId + 1) ∧
    d.fin.getLast? = some (s.nextId, Content.good s.nextId data) ∧
    d.fin.length = (s.disk.fin.length + 1) - min k (s.disk.fin.length + 1 - keep) := by
  intro d
  have hins : insertFin s.disk.fin s.nextId (Content.good s.nextId data)
      = s.disk.fin ++ [(s.nextId, Content.good s.nextId data)] := insertFin_gt _ _ _ hs.lt
  have hd : d.fin = (s.disk.fin ++ [(s.nextId, Content.good s.nextId data)]).drop
      (min k ((s.disk.fin ++ [(s.nextId, Content.good s.nextId data)]).length - keep)) := by
    simp only [d, saveK, hins]
  have hsortedApp : Sorted (s.disk.fin ++ [(s.nextId, Content.good s.nextId data)]) := by
    unfold Sorted
    rw [List.pairwise_append]
    refine ⟨hs.sorted, by simp, ?_⟩
    intro a ha b hb
    simp at hb; subst hb
    exact hs.lt a ha
  have hsub : ∀ e ∈ d.fin, e ∈ s.disk.fin ++ [(s.nextId, Content.good s.nextId data)] := by
    intro e he; rw [hd] at he; exact List.mem_of_mem_drop he
  refine ⟨?_, ?_, ?_, ?_, ?_⟩
  · rw [hd]; exact List.Pairwise.sublist (List.drop_sublist _ _) hsortedApp
  · intro e he
    have := hsub e he
    simp only [List.mem_append, List.mem_singleton] at this
    rcases this with h | h
    · obtain ⟨x, hx, hw⟩ := hs.good e h
      exact ⟨x, hx, by simp [hw]⟩
    · subst h; exact ⟨data, rfl, by simp⟩
  · intro e he
    have := hsub e he
    simp only [List.mem_append, List.mem_singleton] at this
    rcases this with h | h
    · have := hs.lt e h; omega
    · subst h; simp
  · rw [hd, getLast?_drop_lt]
    · simp
    · simp; omega
  · rw [hd]; simp


theorem nextIdOf_gt (fin : List (Nat × Content)) (h : Sorted fin) : ∀ e ∈ fin, e.1 < nextIdOf fin := by
  intro e he
  unfold nextIdOf
  cases hl : fin.getLast? with
  | none => simp [List.getLast?_eq_none_iff] at hl; subst hl; simp at he
  | some m =>
    have := le_last_of_pairwise (fun a : Nat × Content => a.1) fin h m hl e he
    obtain ⟨k, c⟩ := m
    simp at this ⊢; omega

/-- restart bookkeeping: with the invariant, the next id exceeds every written id -/
theorem restart_inv (s : Sys) (hs : Inv s) : Inv { s with nextId := nextIdOf s.disk.fin } := by
  refine ⟨hs.sorted, hs.good, nextIdOf_gt _ hs.sorted, ?_, hs.wasc, hs.last, hs.empty⟩
  intro w hw
  simp only
  cases hl : s.written.getLast? with
  | none => simp [List.getLast?_eq_none_iff] at hl; rw [hl] at hw; simp at hw
  | some m =>
    have hle := le_last_of_pairwise (fun a : Nat × Nat => a.1) s.written hs.wasc m hl w hw
    have hf := hs.last m hl
    unfold nextIdOf; rw [hf]; simp at hle ⊢; omega

theorem written_snoc_props (s : Sys) (hs : Inv s) (data : Nat) :
    (s.written ++ [(s.nextId, data)]).Pairwise (fun a b => a.1 < b.1) ∧
    (∀ w ∈ s.written ++ [(s.nextId, data)], w.1 < s.nextId + 1) := by
  constructor
  · rw [List.pairwise_append]
    refine ⟨hs.wasc, by simp, ?_⟩
    intro a ha b hb; simp at hb; subst hb; exact hs.wlt a ha
  · intro w hw
    simp only [List.mem_append, List.mem_singleton] at hw
    rcases hw with h | h
    · have := hs.wlt w h; omega
    · subst h; simp

theorem inv_tmp (s : Sys) (t : List (Nat × Content)) (hs : Inv s) :
    Inv { s with disk := { s.disk with tmp := t } } :=
  ⟨hs.sorted, hs.good, hs.lt, hs.wlt, hs.wasc, hs.last, hs.empty⟩

theorem step_inv (keep : Nat) (hk : 1 ≤ keep) (s : Sys) (hs : Inv s) (op : Op) : Inv (step keep s op) := by
  cases op with
  | restart => exact restart_inv s hs
  | save data =>
    have hlen : saveLen s.disk s.nextId data keep = (saveLen s.disk s.nextId data keep - 3) + 3 := by
      unfold saveLen; omega
    have h := saveK_renamed s hs data keep (saveLen s.disk s.nextId data keep - 3) hk
    rw [← hlen] at h
    obtain ⟨h1, h2, h3, h4, _⟩ := h
    have hw := written_snoc_props s hs data
    refine ⟨h1, h2, h3, hw.2, hw.1, ?_, ?_⟩
    · intro w hwl
      simp only [step] at hwl ⊢
      simp at hwl; subst hwl; exact h4
    · intro he; simp [step] at he
  | crash data k =>
    match k with
    | 0 => simpa [step, saveK] using restart_inv s hs
    | 1 => simpa [step, saveK] using restart_inv _ (inv_tmp s (setKV s.disk.tmp s.nextId Content.bad) hs)
    | 2 => simpa [step, saveK] using restart_inv _ (inv_tmp s (setKV s.disk.tmp s.nextId (Content.good s.nextId data)) hs)
    | k + 3 =>
      have h := saveK_renamed s hs data keep k hk
      obtain ⟨h1, h2, h3, h4, _⟩ := h
      have hw := written_snoc_props s hs data
      have hmid : Inv { disk := saveK s.disk s.nextId data keep (k + 3), nextId := s.nextId + 1,
                        written := s.written ++ [(s.nextId, data)] } := by
        refine ⟨h1, h2, h3, hw.2, hw.1, ?_, ?_⟩
        · intro w hwl; simp at hwl; subst hwl; exact h4
        · intro he; simp at he
      have := restart_inv _ hmid
      simpa [step] using this

theorem run_inv (keep : Nat) (hk : 1 ≤ keep) (ops : List Op) : Inv (run keep ops) := by
  unfold run
  suffices ∀ s, Inv s → Inv (ops.foldl (step keep) s) from this _ inv_init
  induction ops with
  | nil => intro s hs; exact hs
  | cons op rest ih => intro s hs; exact ih _ (step_inv keep hk s hs op)

end Varpulis.Store
