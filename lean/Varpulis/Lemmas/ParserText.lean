import Varpulis.Model.ParserText
/-! Lemmas for C41: the text stages of `parse` never hit one of their explicit failure points. -/
namespace Varpulis.ParserText
open Varpulis.Expand

/-! ### basics -/

theorem byteLen_dropWhile_le (p : Char → Bool) (l : Text) : byteLen (l.dropWhile p) ≤ byteLen l := by
  induction l with
  | nil => simp [byteLen]
  | cons c cs ih =>
    simp only [List.dropWhile]
    split
    · simp only [byteLen]; omega
    · simp [byteLen]

theorem indentC_ok (l : Line) : indentC l = .ok (indentOf l) := by
  have := byteLen_dropWhile_le isWs l
  simp [indentC, usizeSub, indentOf, trimStart, this]

theorem idx_ok {α : Type} (v : List α) (i : Nat) (h : i < v.length) : idx v i = .ok v[i] := by
  simp [idx, List.getElem?_eq_getElem h]

/-! ### `preprocess_indentation` -/

theorem popWhile_ok (indent : Nat) (stack : List Nat) (out : List Text) (h : stack ≠ []) :
    ∃ stk o, popWhile indent stack out = .ok (stk, o) ∧ stk ≠ [] := by
  induction stack generalizing out with
  | nil => exact absurd rfl h
  | cons t rest ih =>
    cases rest with
    | nil => exact ⟨[t], out, by simp [popWhile], by simp⟩
    | cons t2 rest2 =>
      by_cases ht : t > indent
      · obtain ⟨stk, o, h1, h2⟩ := ih (DEDENT :: out) (by simp)
        exact ⟨stk, o, by simp [popWhile, ht, h1], h2⟩
      · exact ⟨t :: t2 :: rest2, out, by simp [popWhile, ht], by simp⟩

theorem indentStep_ok (st : IndSt) (line : Line) (h : st.stack ≠ []) :
    ∃ st', indentStep st line = .ok st' ∧ st'.stack ≠ [] := by
  unfold indentStep
  split
  · exact ⟨_, rfl, h⟩
  · split
    · exact ⟨_, rfl, h⟩
    · simp only []
      split
      · exact ⟨_, rfl, h⟩
      · rw [indentC_ok]
        obtain ⟨t, r, hs⟩ : ∃ t r, st.stack = t :: r := by
          cases hst : st.stack with
          | nil => exact absurd hst h
          | cons t r => exact ⟨t, r, rfl⟩
        simp only [hs, top]
        split
        · exact ⟨_, rfl, by simp⟩
        · split
          · obtain ⟨stk, o, h1, h2⟩ := popWhile_ok (indentOf line) (t :: r) st.out (by simp)
            rw [h1]
            exact ⟨_, rfl, h2⟩
          · exact ⟨_, rfl, by simp [hs]⟩

theorem indentLines_ok (ls : List Line) (st : IndSt) (h : st.stack ≠ []) :
    ∃ st', indentLines st ls = .ok st' := by
  induction ls generalizing st with
  | nil => exact ⟨st, rfl⟩
  | cons l ls ih =>
    obtain ⟨st1, h1, h2⟩ := indentStep_ok st l h
    obtain ⟨st2, h3⟩ := ih st1 h2
    exact ⟨st2, by simp [indentLines, h1, h3]⟩

theorem preprocessC_ok (src : Text) : ∃ out, preprocessC src = .ok out := by
  obtain ⟨st, h⟩ := indentLines_ok (rustLines src) {} (by simp)
  simp only [preprocessC, h]
  exact ⟨_, rfl⟩

/-! ### `SourceLocation::from_position` -/

theorem lineLensGo_head (cs : Text) (n : Nat) : ∃ m r, lineLensGo cs n = m :: r ∧ n ≤ m := by
  induction cs generalizing n with
  | nil => exact ⟨n, [], rfl, Nat.le_refl _⟩
  | cons c cs ih =>
    by_cases hc : c = '\n'
    · exact ⟨n, lineLensGo cs 0, by simp [lineLensGo, hc], Nat.le_refl _⟩
    · obtain ⟨m, r, h1, h2⟩ := ih (n + 1)
      exact ⟨m, r, by simp [lineLensGo, hc, h1], by omega⟩

theorem fromPosGo_within (pos : Nat) (cs : Text) (i line n : Nat) :
    ∃ k m, (fromPosGo pos cs i line (n + 1)).1 = line + k ∧ (lineLensGo cs n)[k]? = some m ∧
      1 ≤ (fromPosGo pos cs i line (n + 1)).2 ∧ (fromPosGo pos cs i line (n + 1)).2 ≤ m + 1 := by
  induction cs generalizing i line n with
  | nil => exact ⟨0, n, by simp [fromPosGo, lineLensGo]⟩
  | cons c cs ih =>
    by_cases hp : i ≥ pos
    · obtain ⟨m, r, h1, h2⟩ := lineLensGo_head (c :: cs) n
      exact ⟨0, m, by simp [fromPosGo, hp, h1]; omega⟩
    · by_cases hc : c = '\n'
      · obtain ⟨k, m, h1, h2, h3, h4⟩ := ih (i + c.utf8Size) (line + 1) 0
        refine ⟨k + 1, m, ?_⟩
        simp only [fromPosGo, hp, hc, if_false, if_true, lineLensGo]
        simp only [hc, Nat.zero_add] at h1 h3 h4
        refine ⟨by omega, by simpa using h2, h3, h4⟩
      · obtain ⟨k, m, h1, h2, h3, h4⟩ := ih (i + c.utf8Size) line (n + 1)
        refine ⟨k, m, ?_⟩
        simp only [fromPosGo, hp, hc, if_false, lineLensGo]
        exact ⟨h1, h2, h3, h4⟩

theorem fromPosition_within (source : Text) (pos : Nat) :
    locWithin source (fromPosition source pos).1 (fromPosition source pos).2 = true := by
  obtain ⟨k, m, h1, h2, h3, h4⟩ := fromPosGo_within pos source 0 1 0
  have h1' : (fromPosition source pos).1 = 1 + k := h1
  have h3' : 1 ≤ (fromPosition source pos).2 := h3
  have h4' : (fromPosition source pos).2 ≤ m + 1 := h4
  simp only [locWithin, lineLen, h1']
  have : 1 + k - 1 = k := by omega
  simp [this, h2]
  omega

/-! ### `check_nesting_depth` -/

theorem arr_get (b : Array UInt8) (i : Nat) (h : i < b.size) : b[i]? = some b[i] := by
  simp [h]

theorem skipString_ok (b : Array UInt8) (fuel i : Nat) (h : b.size - i < fuel) :
    ∃ j, skipString b fuel i = .ok j ∧ i ≤ j := by
  induction fuel generalizing i with
  | zero => omega
  | succ f ih =>
    unfold skipString
    by_cases hi : i < b.size
    · simp only [hi, if_true, arr_get b i hi]
      split
      · obtain ⟨j, h1, h2⟩ := ih (i + 2) (by omega)
        exact ⟨j, h1, by omega⟩
      · split
        · exact ⟨i + 1, rfl, by omega⟩
        · obtain ⟨j, h1, h2⟩ := ih (i + 1) (by omega)
          exact ⟨j, h1, by omega⟩
    · simp only [hi, if_false]
      exact ⟨i, rfl, Nat.le_refl _⟩

theorem skipLineComment_ok (b : Array UInt8) (fuel i : Nat) (h : b.size - i < fuel) :
    ∃ j, skipLineComment b fuel i = .ok j ∧ i ≤ j := by
  induction fuel generalizing i with
  | zero => omega
  | succ f ih =>
    unfold skipLineComment
    by_cases hi : i < b.size
    · simp only [hi, if_true, arr_get b i hi]
      split
      · obtain ⟨j, h1, h2⟩ := ih (i + 1) (by omega)
        exact ⟨j, h1, by omega⟩
      · exact ⟨i, rfl, Nat.le_refl _⟩
    · simp only [hi, if_false]
      exact ⟨i, rfl, Nat.le_refl _⟩

theorem skipBlockComment_ok (b : Array UInt8) (fuel i : Nat) (h : b.size - i < fuel) :
    ∃ j, skipBlockComment b fuel i = .ok j ∧ i ≤ j := by
  induction fuel generalizing i with
  | zero => omega
  | succ f ih =>
    unfold skipBlockComment
    by_cases hi : i + 1 < b.size
    · have h0 : i < b.size := by omega
      simp only [hi, if_true, arr_get b i h0, arr_get b (i + 1) hi]
      split
      · exact ⟨i + 2, rfl, by omega⟩
      · obtain ⟨j, h1, h2⟩ := ih (i + 1) (by omega)
        exact ⟨j, h1, by omega⟩
    · simp only [hi, if_false]
      exact ⟨i, rfl, Nat.le_refl _⟩

theorem nestLoop_ok (b : Array UInt8) (fuel i depth maxDepth maxPos : Nat) (h : b.size - i < fuel)
    (inv : maxDepth > 0 → maxPos < b.size) :
    ∃ r, nestLoop b fuel i depth maxDepth maxPos = .ok r ∧ ∀ p, r = some p → p < b.size := by
  induction fuel generalizing i depth maxDepth maxPos with
  | zero => omega
  | succ f ih =>
    unfold nestLoop
    by_cases hi : i < b.size
    · simp only [hi, if_true, arr_get b i hi]
      split
      · obtain ⟨j, h1, h2⟩ := skipString_ok b (b.size + 1) (i + 1) (by omega)
        rw [h1]
        exact ih j depth maxDepth maxPos (by omega) inv
      · split
        · obtain ⟨j, h1, h2⟩ := skipLineComment_ok b (b.size + 1) (i + 1) (by omega)
          rw [h1]
          exact ih j depth maxDepth maxPos (by omega) inv
        · split
          · obtain ⟨j, h1, h2⟩ := skipBlockComment_ok b (b.size + 1) (i + 2) (by omega)
            rw [h1]
            exact ih j depth maxDepth maxPos (by omega) inv
          · have key : (bracketStep b[i] i depth maxDepth maxPos).2.1 > 0 →
                (bracketStep b[i] i depth maxDepth maxPos).2.2 < b.size := by
              unfold bracketStep
              split
              · split
                · intro _; exact hi
                · exact inv
              · split <;> exact inv
            generalize bracketStep b[i] i depth maxDepth maxPos = t at key
            by_cases hgt : t.2.1 > MAX_NESTING_DEPTH
            · simp only [hgt, if_true]
              refine ⟨_, rfl, ?_⟩
              intro p hp
              cases hp
              exact key (by omega)
            · simp only [hgt, if_false]
              exact ih (i + 1) t.1 t.2.1 t.2.2 (by omega) key
    · simp only [hi, if_false]
      exact ⟨none, rfl, by intro p hp; cases hp⟩

theorem checkNesting_ok (bytes : List UInt8) :
    ∃ r, checkNesting bytes = .ok r ∧ ∀ p, r = some p → p < bytes.length := by
  have := nestLoop_ok bytes.toArray (bytes.toArray.size + 1) 0 0 0 0 (by omega) (by omega)
  simpa [checkNesting] using this

/-! ### `source_location` -/

theorem byteLen_append (a b : Text) : byteLen (a ++ b) = byteLen a + byteLen b := by
  induction a with
  | nil => simp [byteLen]
  | cons c cs ih => simp [byteLen, ih]; omega

theorem segGo_flatten (s : Text) (acc : List Char) : (segGo s acc).flatten = acc.reverse ++ s := by
  induction s generalizing acc with
  | nil =>
    simp only [segGo]
    split
    · rename_i h; simp [List.isEmpty_iff.mp h]
    · simp
  | cons c cs ih =>
    simp only [segGo]
    split
    · simp [ih]
    · simp [ih]

theorem segments_flatten (s : Text) : (segments s).flatten = s := by
  simp [segments, segGo_flatten]

theorem byteLen_reverse (a : Text) : byteLen a.reverse = byteLen a := by
  induction a with
  | nil => rfl
  | cons c cs ih => simp [byteLen_append, byteLen, ih]; omega

theorem byteLen_segLine_le (seg : Text) : byteLen (segLine seg) ≤ byteLen seg := by
  unfold segLine
  split
  · rename_i r h
    have : seg = (('\n' :: '\r' :: r)).reverse := by rw [← h]; simp
    rw [this]; simp [byteLen_reverse, byteLen_append, byteLen]
  · rename_i r _ h
    have : seg = (('\n' :: r)).reverse := by rw [← h]; simp
    rw [this]; simp [byteLen_reverse, byteLen_append, byteLen]
  · exact Nat.le_refl _

theorem sourceLine_bound (segs : List Text) (i start s : Nat) (l : Line)
    (h : sourceLine segs i start = some (s, l)) : s + byteLen l ≤ start + byteLen segs.flatten := by
  induction segs generalizing i start with
  | nil => simp [sourceLine] at h
  | cons seg rest ih =>
    simp only [sourceLine] at h
    split at h
    · cases h
      have := byteLen_segLine_le seg
      simp [byteLen_append]; omega
    · have := ih _ _ h
      simp [byteLen_append]; omega

theorem skipMarkers_ok (fuel : Nat) (rest : List UInt8) (cs : Nat) (h : rest.length < fuel) :
    ∃ r, skipMarkers fuel rest cs = .ok r := by
  induction fuel generalizing rest cs with
  | zero => omega
  | succ f ih =>
    unfold skipMarkers
    split
    · rename_i hp
      have hl := (List.isPrefixOf_iff_prefix.mp hp).length_le
      have : 0 < (utf8 INDENT).length := by decide
      exact ih _ _ (by simp; omega)
    · split
      · rename_i hp
        have hl := (List.isPrefixOf_iff_prefix.mp hp).length_le
        have : 0 < (utf8 DEDENT).length := by decide
        exact ih _ _ (by simp; omega)
      · exact ⟨cs, rfl⟩

theorem backToBoundary_ok (t : Text) (off : Nat) : ∃ o, backToBoundary t (off + 1) off = .ok o ∧ o ≤ off := by
  induction off with
  | zero => exact ⟨0, by simp [backToBoundary, isBoundary, byteDrop], Nat.le_refl _⟩
  | succ n ih =>
    unfold backToBoundary
    split
    · exact ⟨n + 1, rfl, Nat.le_refl _⟩
    · obtain ⟨o, h1, h2⟩ := ih
      simp only [usizeSub, show 1 ≤ n + 1 by omega, if_true, Nat.add_sub_cancel]
      exact ⟨o, h1, by omega⟩

theorem sourceLocation_ok (source : Text) (origins : List Nat) (pre : List UInt8) (position : Nat) :
    ∃ l c o, sourceLocation source origins pre position = .ok (l, c, o) ∧
      locWithin source l c = true ∧ posWithin source o = true := by
  unfold sourceLocation
  simp only []
  have h1 : (0 ≤ min position pre.length ∧ min position pre.length ≤ pre.length) := by omega
  simp only [sliceC, h1, and_self, if_true, List.drop_zero, Nat.sub_zero]
  generalize hb : List.take (min position pre.length) pre = before
  have hbl : before.length ≤ pre.length := by rw [← hb]; simp; omega
  have h2 : before.length - (List.takeWhile (fun x => x != bNl) before.reverse).length ≤ pre.length ∧ pre.length ≤ pre.length := by omega
  simp only [h2, and_self, if_true]
  generalize hls : before.length - (List.takeWhile (fun x => x != bNl) before.reverse).length = lineStart
  obtain ⟨cs, hcs⟩ := skipMarkers_ok (pre.length + 1) (List.take (pre.length - lineStart) (List.drop lineStart pre)) lineStart (by simp; omega)
  simp only [hcs]
  split
  · exact ⟨_, _, _, rfl, fromPosition_within _ _, by simp [posWithin]⟩
  · rename_i srcStart srcLine hsl
    rw [indentC_ok]
    simp only []
    obtain ⟨o, ho1, ho2⟩ := backToBoundary_ok srcLine (min (indentOf srcLine + (min position pre.length - cs)) (byteLen srcLine))
    rw [ho1]
    refine ⟨_, _, _, rfl, fromPosition_within _ _, ?_⟩
    simp only [posWithin, decide_eq_true_eq]
    cases hor : origins[List.count bNl before]? with
    | none => simp [hor] at hsl
    | some i =>
      simp only [hor, Option.bind_some] at hsl
      have := sourceLine_bound _ _ _ _ _ hsl
      rw [segments_flatten] at this
      omega

/-! ### `expand_declaration_loops`: the index-based mirror equals the list-recursive model -/

theorem take_len_takeWhile {α : Type} (p : α → Bool) (l : List α) : l.take (l.takeWhile p).length = l.takeWhile p :=
  (List.prefix_iff_eq_take.mp (List.takeWhile_prefix p)).symm

theorem drop_len_takeWhile {α : Type} (p : α → Bool) (l : List α) : l.drop (l.takeWhile p).length = l.dropWhile p := by
  induction l with
  | nil => rfl
  | cons a l ih =>
    by_cases h : p a
    · simp [List.takeWhile, List.dropWhile, h, ih]
    · simp [List.takeWhile, List.dropWhile, h]

/-- the `body_indent` the scan ends with, given the value `bi` it started with -/
def scanIndent (bi : Option Nat) (body : List Line) : Option Nat :=
  if bi.isNone then (body.find? (fun l => !isBlank l)).map indentOf else bi

theorem scanBody_eq (lines : List Line) (fuel j : Nat) (bi : Option Nat) (h : lines.length - j < fuel) :
    scanBody lines fuel j bi =
      .ok (j + ((lines.drop j).takeWhile bodyLine).length, scanIndent bi ((lines.drop j).takeWhile bodyLine)) := by
  induction fuel generalizing j bi with
  | zero => omega
  | succ f ih =>
    unfold scanBody
    by_cases hj : j < lines.length
    · simp only [hj, if_true, idx_ok lines j hj, List.drop_eq_getElem_cons hj]
      by_cases hb : isBlank lines[j] = true
      · simp only [hb, if_true]
        rw [ih (j + 1) bi (by omega)]
        simp only [List.takeWhile, bodyLine, hb, Bool.true_or, List.length_cons]
        congr 1
        refine Prod.ext (by first | omega | (simp; omega)) ?_
        simp [scanIndent, List.find?, hb]
      · have hb' : isBlank lines[j] = false := by simpa using hb
        simp only [hb', Bool.false_eq_true, if_false, indentC_ok]
        by_cases hz : indentOf lines[j] = 0
        · simp [hz, List.takeWhile, bodyLine, hb', scanIndent]
        · simp only [hz, if_false]
          rw [ih (j + 1) _ (by omega)]
          have hbl : bodyLine lines[j] = true := by simp [bodyLine, hb', hz]
          simp only [List.takeWhile, hbl, List.length_cons]
          congr 1
          refine Prod.ext (by first | omega | (simp; omega)) ?_
          cases bi <;> simp [scanIndent, List.find?, hb']
    · have : lines.drop j = [] := List.drop_eq_nil_of_le (by omega)
      simp [hj, this, scanIndent]




theorem Outcome.map_map {α β γ : Type} (f : α → β) (g : β → γ) (o : Outcome α) :
    (o.map f).map g = o.map (g ∘ f) := by cases o <;> rfl

theorem sliceC_ok {α : Type} (v : List α) (a b : Nat) (h : a ≤ b ∧ b ≤ v.length) :
    sliceC v a b = .ok ((v.drop a).take (b - a)) := by simp [sliceC, h]

theorem stripOf_eq (body : List Line) : (scanIndent none body).getD 4 = stripOf body := by
  simp [scanIndent, stripOf]

theorem passLoop_eq (lines : List Line) (fuel i b : Nat) (h : lines.length - i < fuel) :
    (passLoop lines fuel i b).map (fun r => (r.1, r.2.2)) = onePass b (lines.drop i) := by
  induction fuel generalizing i b with
  | zero => omega
  | succ f ih =>
    unfold passLoop
    by_cases hi : i < lines.length
    · simp only [hi, if_true, idx_ok lines i hi, indentC_ok, List.drop_eq_getElem_cons hi]
      rw [onePass]
      have hplain : (Outcome.map (fun r => (lines[i] :: r.1, i :: r.2.1, r.2.2)) (passLoop lines f (i + 1) b)).map
            (fun r => (r.1, r.2.2)) = (onePass b (lines.drop (i + 1))).map fun r => (lines[i] :: r.1, r.2) := by
        rw [← ih (i + 1) b (by omega), Outcome.map_map, Outcome.map_map]; rfl
      by_cases hc : indentOf lines[i] = 0 ∧ isDeclFor (trim lines[i]) = true
      · have hlh : loopHeader lines[i] = parseForRange (trim lines[i]) := by simp [loopHeader, hc.1, hc.2]
        simp only [hc, and_self, if_true, hlh]
        cases hp : parseForRange (trim lines[i]) with
        | none => simpa using hplain
        | some t =>
          obtain ⟨var, s, e⟩ := t
          simp only []
          by_cases hl : tooLarge s e = true
          · simp [hl, Outcome.map]
          · simp only [hl, Bool.false_eq_true, if_false]
            rw [scanBody_eq lines (lines.length + 1) (i + 1) none (by omega)]
            simp only []
            have hsl := sliceC_ok lines (i + 1) (i + 1 + ((lines.drop (i + 1)).takeWhile bodyLine).length)
              ⟨by omega, by
                have := (List.takeWhile_prefix (l := lines.drop (i + 1)) bodyLine).length_le
                simp at this; omega⟩
            rw [hsl]
            simp only [Nat.add_sub_cancel_left, take_len_takeWhile]
            have hprod : (e - s).toNat * ((lines.drop (i + 1)).takeWhile bodyLine).length
                = produced s e ((lines.drop (i + 1)).takeWhile bodyLine) := rfl
            rw [hprod]
            by_cases hb : produced s e ((lines.drop (i + 1)).takeWhile bodyLine) > b
            · simp [hb, Outcome.map]
            · simp only [hb, if_false]
              have hdrop : lines.drop (i + 1 + ((lines.drop (i + 1)).takeWhile bodyLine).length)
                  = (lines.drop (i + 1)).dropWhile bodyLine := by
                rw [← drop_len_takeWhile bodyLine (lines.drop (i + 1)), List.drop_drop]
              rw [Outcome.map_map, ← hdrop, ← ih _ _ (by omega), Outcome.map_map]
              congr 1
      · have hlh : loopHeader lines[i] = none := by
          simp only [loopHeader]
          split
          · rename_i h2; simp at h2; exact absurd ⟨h2.1, h2.2⟩ hc
          · rfl
        simp only [hc, if_false, hlh]
        exact hplain
    · have : lines.drop i = [] := List.drop_eq_nil_of_le (by omega)
      simp [hi, this, onePass, Outcome.map]


theorem onePassC_eq (b : Nat) (src : Text) :
    (onePassC b src).map (fun r => (r.1, r.2.2)) = onePassText b src := by
  simp only [onePassC, onePassText, Outcome.map_map]
  rw [← List.drop_zero (l := rustLines src)] 
  rw [← passLoop_eq (rustLines src) ((rustLines src).length + 1) 0 b (by omega), Outcome.map_map]
  simp
  rfl

theorem passesC_eq (n b : Nat) (r : Text) (o : List Nat) :
    (passesC n b r o).map (·.1) = passes n b r := by
  induction n generalizing b r o with
  | zero => rfl
  | succ n ih =>
    simp only [passesC, passes]
    rw [← onePassC_eq]
    cases h : onePassC b r with
    | ok t =>
      obtain ⟨e, fr, b'⟩ := t
      simp only [Outcome.map]
      by_cases he : e = r
      · simp [he, Outcome.map]
      · simp only [he, if_false]
        by_cases hn : n = 0
        · simp [hn, Outcome.map]
        · simp only [hn, if_false]
          exact ih _ _ _
    | err k => rfl
    | panic w => rfl

/-- the index-based expander computes exactly what the list-recursive one computes -/
theorem expandC_eq (src : Text) : (expandC src).map (·.1) = expand src := by
  simp [expandC, expand, passesC_eq]

theorem onePass_no_panic (ls : List Line) (b : Nat) (w : String) : onePass b ls ≠ .panic w := by
  fun_induction onePass b ls with
  | case1 b => simp
  | case2 b l rest var s e hlh hl => simp
  | case3 b l rest var s e hlh hl hb => simp
  | case4 b l rest var s e hlh hl hb ih =>
    revert ih
    cases onePass (b - produced s e (rest.takeWhile bodyLine)) (rest.dropWhile bodyLine) <;> simp [Outcome.map]
  | case5 b l rest hlh ih =>
    revert ih
    cases onePass b rest <;> simp [Outcome.map]

theorem passes_no_panic (n b : Nat) (r : Text) (w : String) : passes n b r ≠ .panic w := by
  induction n generalizing b r with
  | zero => simp [passes]
  | succ n ih =>
    simp only [passes, onePassText]
    have := onePass_no_panic (rustLines r) b
    revert this
    cases onePass b (rustLines r) with
    | ok t =>
      intro _
      simp only [Outcome.map]
      split <;> try simp
      split <;> try simp
      exact ih _ _
    | err k => simp [Outcome.map]
    | panic w' => intro h; exact absurd rfl (h w')

theorem expand_no_panic (src : Text) (w : String) : expand src ≠ .panic w := passes_no_panic _ _ _ _

theorem expandC_no_panic (src : Text) (w : String) : expandC src ≠ .panic w := by
  intro h
  have := expandC_eq src
  rw [h] at this
  exact expand_no_panic src w this.symm



/-! ### bounded expansion, and the whole modelled prefix of `parse_inner` -/

theorem intRange_length (s e : Int) : (intRange s e).length = (e - s).toNat := by simp [intRange]

theorem copies_length (var : Text) (s e : Int) (body : List Line) :
    (copies var s e body).length = produced s e body := by
  simp only [copies, produced, List.length_flatMap, List.length_map]
  rw [List.map_const', List.sum_replicate_nat, intRange_length]

/-- a pass emits at most its input lines plus the budget it consumes -/
theorem onePass_budget (b : Nat) (ls out : List Line) (b' : Nat) (h : onePass b ls = .ok (out, b')) :
    out.length + b' ≤ ls.length + b := by
  fun_induction onePass b ls generalizing out b' with
  | case1 b => cases h; simp
  | case2 b l rest var s e hlh hl => simp at h
  | case3 b l rest var s e hlh hl hb => simp at h
  | case4 b l rest var s e hlh hl hb ih =>
    cases hr : onePass (b - produced s e (rest.takeWhile bodyLine)) (rest.dropWhile bodyLine) with
    | ok t =>
      rw [hr] at h
      simp only [Outcome.map, Outcome.ok.injEq, Prod.mk.injEq] at h
      obtain ⟨h1, h2⟩ := h
      have := ih t.1 t.2 (by rw [hr])
      have hsplit : (rest.takeWhile bodyLine).length + (rest.dropWhile bodyLine).length = rest.length := by
        rw [← List.length_append, List.takeWhile_append_dropWhile]
      rw [← h1, ← h2]
      simp only [List.length_append, copies_length, List.length_cons]
      omega
    | err k => rw [hr] at h; simp [Outcome.map] at h
    | panic w => rw [hr] at h; simp [Outcome.map] at h
  | case5 b l rest hlh ih =>
    cases hr : onePass b rest with
    | ok t =>
      rw [hr] at h
      simp only [Outcome.map, Outcome.ok.injEq, Prod.mk.injEq] at h
      obtain ⟨h1, h2⟩ := h
      have := ih t.1 t.2 (by rw [hr])
      rw [← h1, ← h2]
      simp only [List.length_cons]
      omega
    | err k => rw [hr] at h; simp [Outcome.map] at h
    | panic w => rw [hr] at h; simp [Outcome.map] at h

theorem preParse_ok (src : Text) :
    ∃ r, preParse src = .ok r ∧ ∀ kind pos, r = .rejected kind pos → posWithin src pos = true := by
  unfold preParse
  cases he : expandC src with
  | err k => exact ⟨_, rfl, by intro kind pos h; cases h; simp [posWithin]⟩
  | panic w => exact absurd he (expandC_no_panic src w)
  | ok t =>
    obtain ⟨expanded, origins⟩ := t
    simp only []
    obtain ⟨pre, hp⟩ := preprocessC_ok expanded
    rw [hp]
    simp only []
    obtain ⟨r, hr, _⟩ := checkNesting_ok (utf8 pre)
    rw [hr]
    cases r with
    | none => exact ⟨_, rfl, by intro kind pos h; cases h⟩
    | some p =>
      simp only []
      obtain ⟨l, c, o, h1, _, h3⟩ := sourceLocation_ok src origins (utf8 pre) p
      rw [h1]
      exact ⟨_, rfl, by intro kind pos h; cases h; exact h3⟩

/-! ### `parse_timestamp` -/

theorem monthDays_ok (year : Int) (ms : List Nat) (h : ∀ m ∈ ms, 1 ≤ m ∧ m ≤ 12) : ∃ r, monthDays year ms = .ok r := by
  induction ms with
  | nil => exact ⟨0, rfl⟩
  | cons m ms ih =>
    obtain ⟨r, hr⟩ := ih (fun x hx => h x (by simp [hx]))
    have hm := h m (by simp)
    have hlt : m - 1 < DAYS_IN_MONTH.length := by simp [DAYS_IN_MONTH]; omega
    simp only [monthDays, idx_ok DAYS_IN_MONTH (m - 1) hlt, hr]
    exact ⟨_, rfl⟩

/-- the calendar arithmetic of `parse_timestamp` cannot panic, whatever digits the literal holds -/
theorem timestampNs_ok (year : Int) (month day : Nat) (tod tzHours : Int) :
    ∃ r, timestampNs year month day tod tzHours = .ok r := by
  unfold timestampNs
  simp only []
  have hms : ∀ m ∈ (List.range (max 1 (min month 12) - 1)).map (· + 1), 1 ≤ m ∧ m ≤ 12 := by
    intro m hm
    simp only [List.mem_map, List.mem_range] at hm
    obtain ⟨a, ha, rfl⟩ := hm
    omega
  obtain ⟨md, hmd⟩ := monthDays_ok year _ hms
  have hd : 1 ≤ max 1 day := by omega
  simp only [hmd, usizeSub, hd, if_true]
  exact ⟨_, rfl⟩


theorem timestampText_ok (lit : Text) (h : timePartOk lit = true) : ∃ r, timestampText lit = .ok r := by
  unfold timestampText
  simp only []
  split
  · rename_i y m d _
    split
    · exact timestampNs_ok _ _ _ _ _
    · rename_i ts hts
      have hbd : ∃ rest, byteDrop 1 ts = some rest := by
        unfold timePartOk at h
        rw [hts] at h
        cases ts with
        | nil => simp at h
        | cons c cs =>
          simp only [beq_iff_eq] at h
          exact ⟨cs, by simp [byteDrop, h]⟩
      obtain ⟨rest, hrest⟩ := hbd
      have htz : ∃ z, tzSeconds ts = .ok z := by
        unfold tzSeconds
        simp only [hrest]
        split
        · exact ⟨_, rfl⟩
        · split <;> exact ⟨_, rfl⟩
      obtain ⟨z, hz⟩ := htz
      simp only [hz]
      exact timestampNs_ok _ _ _ _ _
  · exact ⟨0, rfl⟩


end Varpulis.ParserText
