import Varpulis.Model.Simulate
/-! Lemmas for C18: worker outputs vs single-engine output, as permutations (= multisets). -/
namespace Varpulis.Simulate
open List

variable {E O σ τ K : Type}

theorem flatMap_congr' {α β : Type} (L : List α) (f g : α → List β) (h : ∀ i ∈ L, f i = g i) :
    L.flatMap f = L.flatMap g := by
  induction L with
  | nil => rfl
  | cons a t ih =>
    simp only [List.flatMap_cons]
    rw [h a (List.mem_cons_self), ih (fun i hi => h i (List.mem_cons_of_mem _ hi))]

/-- moving the one extra block `o` produced by worker `i0` to the front -/
theorem flatMap_single_prefix (L : List Nat) (hL : L.Nodup) (i0 : Nat) (h0 : i0 ∈ L) (o : List O)
    (g : Nat → List O) :
    (L.flatMap fun i => (if i = i0 then o else []) ++ g i).Perm (o ++ L.flatMap g) := by
  induction L with
  | nil => cases h0
  | cons a t ih =>
    have hnd := List.nodup_cons.mp hL
    by_cases ha : a = i0
    · subst ha
      have hnot : ∀ i ∈ t, ¬ i = a := fun i hi e => hnd.1 (e ▸ hi)
      have e : (t.flatMap fun i => (if i = a then o else []) ++ g i) = t.flatMap g := by
        apply flatMap_congr'
        intro i hi; simp [hnot i hi]
      simp [List.flatMap_cons, e]
    · have h0' : i0 ∈ t := by
        rcases List.mem_cons.mp h0 with h | h
        · exact absurd h.symm ha
        · exact h
      have := ih hnd.2 h0'
      simp only [List.flatMap_cons, ha, if_false, List.nil_append]
      refine (List.Perm.append_left (g a) this).trans ?_
      -- g a ++ (o ++ rest) ~ o ++ (g a ++ rest)
      rw [← List.append_assoc, ← List.append_assoc]
      exact List.Perm.append_right _ List.perm_append_comm

/-- worker states agree with the single engine on every key slot they are responsible for -/
def Inv [DecidableEq K] (key : E → K) (w : E → Nat) (s : K → τ) (ss : Nat → K → τ) : Prop :=
  ∀ e, ss (w e) (key e) = s (key e)

theorem keyed_multi_perm_gen [DecidableEq K] (key : E → K) (km : Machine E O τ) (n : Nat) (w : E → Nat)
    (hw : ∀ e, w e < n) (hk : ∀ e e', key e = key e' → w e = w e') :
    ∀ (es : List E) (s : K → τ) (ss : Nat → K → τ), Inv key w s ss →
      ((List.range n).flatMap fun i => (keyed key km).run (ss i) (es.filter fun e => w e = i)).Perm
        ((keyed key km).run s es) := by
  intro es
  induction es with
  | nil => intro s ss _; simp [Machine.run]
  | cons e es ih =>
    intro s ss hinv
    -- the step of the responsible worker equals the single engine's step
    let t' := (km.step (s (key e)) e).1
    let o := (km.step (s (key e)) e).2
    let s' : K → τ := fun k => if k = key e then t' else s k
    let ss2 : Nat → K → τ := fun i => if i = w e then (fun k => if k = key e then t' else ss (w e) k) else ss i
    have hinv' : Inv key w s' ss2 := by
      intro e'
      by_cases hwe : w e' = w e
      · simp only [ss2, s', hwe, if_true]
        by_cases hke : key e' = key e
        · simp [hke]
        · simp only [hke, if_false]
          have := hinv e'
          rw [hwe] at this; exact this
      · have hke : ¬ key e' = key e := fun h => hwe (hk _ _ h)
        simp only [ss2, s', hwe, hke, if_false]
        exact hinv e'
    have hstep : ∀ i, (keyed key km).run (ss i) ((e :: es).filter fun x => w x = i) =
        (if i = w e then o else []) ++ (keyed key km).run (ss2 i) (es.filter fun x => w x = i) := by
      intro i
      by_cases hi : i = w e
      · subst hi
        have hsame : ss (w e) (key e) = s (key e) := hinv e
        simp [Machine.run, keyed, hsame, ss2, o, t']
      · have hne : ¬ w e = i := fun h => hi h.symm
        simp [hne, hi, ss2]
    have e1 : ((List.range n).flatMap fun i => (keyed key km).run (ss i) ((e :: es).filter fun x => w x = i)) =
        ((List.range n).flatMap fun i => (if i = w e then o else []) ++
          (keyed key km).run (ss2 i) (es.filter fun x => w x = i)) := by
      apply flatMap_congr'; intro i _; exact hstep i
    rw [e1]
    have hmem : w e ∈ List.range n := List.mem_range.mpr (hw e)
    refine (flatMap_single_prefix (List.range n) List.nodup_range (w e) hmem o _).trans ?_
    have hrun : (keyed key km).run s (e :: es) = o ++ (keyed key km).run s' es := by
      simp [Machine.run, keyed, o, s', t']
    rw [hrun]
    exact List.Perm.append_left o (ih s' ss2 hinv')

theorem stateless_run {m : Machine E O σ} {f : E → List O} (hf : ∀ s e, (m.step s e).2 = f e) :
    ∀ (es : List E) (s : σ), m.run s es = es.flatMap f := by
  intro es
  induction es with
  | nil => intro s; simp [Machine.run]
  | cons e es ih => intro s; simp [Machine.run, hf, ih]

theorem prod_run_perm (m₁ : Machine E O σ) (m₂ : Machine E O τ) :
    ∀ (es : List E) (s₁ : σ) (s₂ : τ),
      ((prod m₁ m₂).run (s₁, s₂) es).Perm (m₁.run s₁ es ++ m₂.run s₂ es) := by
  intro es
  induction es with
  | nil => intro s₁ s₂; simp [Machine.run]
  | cons e es ih =>
    intro s₁ s₂
    simp only [Machine.run, prod]
    have := ih (m₁.step s₁ e).1 (m₂.step s₂ e).1
    simp only [prod] at this
    refine (List.Perm.append_left _ this).trans ?_
    -- (a ++ b) ++ (x ++ y) ~ (a ++ x) ++ (b ++ y)
    simp only [List.append_assoc]
    refine List.Perm.append_left _ ?_
    rw [← List.append_assoc, ← List.append_assoc]
    exact List.Perm.append_right _ List.perm_append_comm

theorem flatMap_perm_pointwise {α β : Type} (L : List α) (f g : α → List β) (h : ∀ i ∈ L, (f i).Perm (g i)) :
    (L.flatMap f).Perm (L.flatMap g) := by
  induction L with
  | nil => simp
  | cons a t ih =>
    simp only [List.flatMap_cons]
    exact (h a List.mem_cons_self).append (ih fun i hi => h i (List.mem_cons_of_mem _ hi))

theorem flatMap_append_perm {α β : Type} (L : List α) (a b : α → List β) :
    (L.flatMap fun i => a i ++ b i).Perm (L.flatMap a ++ L.flatMap b) := by
  induction L with
  | nil => simp
  | cons x t ih =>
    simp only [List.flatMap_cons]
    refine (List.Perm.append_left _ ih).trans ?_
    -- (a x ++ b x) ++ (A ++ B) ~ (a x ++ A) ++ (b x ++ B)
    simp only [List.append_assoc]
    refine List.Perm.append_left _ ?_
    rw [← List.append_assoc, ← List.append_assoc]
    exact List.Perm.append_right _ List.perm_append_comm

theorem chunksGo_flatten (c : Nat) (hc : 0 < c) : ∀ (fuel : Nat) (es : List E), es.length ≤ fuel →
    (chunksGo c fuel es).flatten = es := by
  intro fuel
  induction fuel with
  | zero => intro es h; have : es = [] := List.length_eq_zero_iff.mp (by omega); simp [chunksGo, this]
  | succ n ih =>
    intro es h
    unfold chunksGo
    split
    · rename_i he; simp [he]
    · rename_i he
      have hpos : 0 < es.length := List.length_pos_iff.mpr he
      have : (es.drop c).length ≤ n := by simp [List.length_drop]; omega
      simp [ih (es.drop c) this]

theorem chunks_flatten (n : Nat) (hn : 0 < n) (es : List E) : (chunks n es).flatten = es := by
  unfold chunks
  by_cases he : es = []
  · subst he; simp [chunksGo]
  · have hpos : 0 < es.length := List.length_pos_iff.mpr he
    apply chunksGo_flatten _ _ _ _ (Nat.le_refl _)
    apply Nat.div_pos <;> omega

end Varpulis.Simulate
