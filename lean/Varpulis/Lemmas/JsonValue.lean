import Varpulis.Model.JsonValue
/-! Lemmas about the JSON ↔ Value model used by `Props/C44.lean`. -/
namespace Varpulis.JsonValue

theorem numToValue_fits {n : Int} (h : fitsI64 n = true) : numToValue n = .int n := by
  simp [numToValue, h]

mutual
theorem roundtrip_ok : ∀ j : Json, j.ok = true → valueToJson (jsonToValue j) = j
  | .null, _ => by simp [jsonToValue, valueToJson]
  | .bool _, _ => by simp [jsonToValue, valueToJson]
  | .int n, h => by
    have h' : fitsI64 n = true := by simpa [Json.ok] using h
    simp [jsonToValue, numToValue_fits h', valueToJson]
  | .float f, h => by
    have h' : f.isFinite = true := by simpa [Json.ok] using h
    simp [jsonToValue, valueToJson, h']
  | .str _, _ => by simp [jsonToValue, valueToJson]
  | .arr xs, h => by
    have h' : Json.okList xs = true := by simpa [Json.ok] using h
    simp [jsonToValue, valueToJson, roundtrip_okList xs h']
  | .obj kvs, h => by
    have h' : Json.okFields kvs = true := by simpa [Json.ok] using h
    simp [jsonToValue, valueToJson, roundtrip_okFields kvs h']
theorem roundtrip_okList : ∀ xs : List Json, Json.okList xs = true → valueToJsonList (jsonToValueList xs) = xs
  | [], _ => by simp [jsonToValueList, valueToJsonList]
  | x :: xs, h => by
    have h' : x.ok = true ∧ Json.okList xs = true := by simpa [Json.okList] using h
    simp [jsonToValueList, valueToJsonList, roundtrip_ok x h'.1, roundtrip_okList xs h'.2]
theorem roundtrip_okFields : ∀ kvs : List (String × Json), Json.okFields kvs = true →
    valueToJsonFields (jsonToValueFields kvs) = kvs
  | [], _ => by simp [jsonToValueFields, valueToJsonFields]
  | (k, v) :: kvs, h => by
    have h' : v.ok = true ∧ Json.okFields kvs = true := by simpa [Json.okFields] using h
    simp [jsonToValueFields, valueToJsonFields, roundtrip_ok v h'.1, roundtrip_okFields kvs h'.2]
end

mutual
theorem same_jsonToValue : ∀ j : Json, j.ok = true → same j (jsonToValue j) = true
  | .null, _ => by simp [jsonToValue, same]
  | .bool _, _ => by simp [jsonToValue, same]
  | .int n, h => by
    have h' : fitsI64 n = true := by simpa [Json.ok] using h
    simp only [jsonToValue]
    rw [numToValue_fits h']
    simp [same]
  | .float f, _ => by simp [jsonToValue, same]
  | .str _, _ => by simp [jsonToValue, same]
  | .arr xs, h => by
    have h' : Json.okList xs = true := by simpa [Json.ok] using h
    simp [jsonToValue, same, same_jsonToValueList xs h']
  | .obj kvs, h => by
    have h' : Json.okFields kvs = true := by simpa [Json.ok] using h
    simp [jsonToValue, same, same_jsonToValueFields kvs h']
theorem same_jsonToValueList : ∀ xs : List Json, Json.okList xs = true → sameList xs (jsonToValueList xs) = true
  | [], _ => by simp [jsonToValueList, sameList]
  | x :: xs, h => by
    have h' : x.ok = true ∧ Json.okList xs = true := by simpa [Json.okList] using h
    simp [jsonToValueList, sameList, same_jsonToValue x h'.1, same_jsonToValueList xs h'.2]
theorem same_jsonToValueFields : ∀ kvs : List (String × Json), Json.okFields kvs = true →
    sameFields kvs (jsonToValueFields kvs) = true
  | [], _ => by simp [jsonToValueFields, sameFields]
  | (k, v) :: kvs, h => by
    have h' : v.ok = true ∧ Json.okFields kvs = true := by simpa [Json.okFields] using h
    simp [jsonToValueFields, sameFields, same_jsonToValue v h'.1, same_jsonToValueFields kvs h'.2]
end

mutual
theorem same_valueToJson : ∀ v : Value, v.plain = true → same (valueToJson v) v = true
  | .null, _ => by simp [valueToJson, same]
  | .bool _, _ => by simp [valueToJson, same]
  | .int _, _ => by simp [valueToJson, same]
  | .float f, h => by
    have h' : f.isFinite = true := by simpa [Value.plain] using h
    simp [valueToJson, same, h']
  | .str _, _ => by simp [valueToJson, same]
  | .timestamp _, h => by simp [Value.plain] at h
  | .duration _, h => by simp [Value.plain] at h
  | .array xs, h => by
    have h' : Value.plainList xs = true := by simpa [Value.plain] using h
    simp [valueToJson, same, same_valueToJsonList xs h']
  | .map kvs, h => by
    have h' : Value.plainFields kvs = true := by simpa [Value.plain] using h
    simp [valueToJson, same, same_valueToJsonFields kvs h']
theorem same_valueToJsonList : ∀ xs : List Value, Value.plainList xs = true → sameList (valueToJsonList xs) xs = true
  | [], _ => by simp [valueToJsonList, sameList]
  | x :: xs, h => by
    have h' : x.plain = true ∧ Value.plainList xs = true := by simpa [Value.plainList] using h
    simp [valueToJsonList, sameList, same_valueToJson x h'.1, same_valueToJsonList xs h'.2]
theorem same_valueToJsonFields : ∀ kvs : List (String × Value), Value.plainFields kvs = true →
    sameFields (valueToJsonFields kvs) kvs = true
  | [], _ => by simp [valueToJsonFields, sameFields]
  | (k, v) :: kvs, h => by
    have h' : v.plain = true ∧ Value.plainFields kvs = true := by simpa [Value.plainFields] using h
    simp [valueToJsonFields, sameFields, same_valueToJson v h'.1, same_valueToJsonFields kvs h'.2]
end

/-! ### events -/

theorem injectBatchEvents_eq_map : ∀ rs : List InjectEventRequest, injectBatchEvents rs = rs.map injectEvent
  | [] => rfl
  | r :: rs => by simp [injectBatchEvents, injectEvent, injectBatchEvents_eq_map rs]

theorem insertField_new {k : String} {v : Value} : ∀ {l : List (String × Value)},
    (∀ kv ∈ l, kv.1 ≠ k) → insertField k v l = l ++ [(k, v)]
  | [], _ => rfl
  | (k', w) :: rest, h => by
    have hk : (k' == k) = false := by simpa using h (k', w) List.mem_cons_self
    simp [insertField, hk, insertField_new (l := rest) fun kv hkv => h kv (List.mem_cons_of_mem _ hkv)]

theorem jsonToValueFields_eq_map (kvs : List (String × Json)) :
    jsonToValueFields kvs = kvs.map fun kv => (kv.1, jsonToValue kv.2) := by
  induction kvs with
  | nil => rfl
  | cons a t ih => cases a; simp [jsonToValueFields, ih]

/-- with pairwise distinct field names the event carries the converted fields in request order -/
theorem foldl_withField (ty : String) : ∀ (fields : List (String × Json)) (acc : List (String × Value)),
    (fields.map (·.1)).Nodup → (∀ kv ∈ acc, kv.1 ∉ fields.map (·.1)) →
    (fields.foldl (fun ev kv => ev.withField kv.1 (jsonToValue kv.2)) ({ eventType := ty, data := acc } : Event))
      = { eventType := ty, data := acc ++ jsonToValueFields fields }
  | [], acc, _, _ => by simp [jsonToValueFields]
  | (k, v) :: rest, acc, hnd, hacc => by
    have hnd' : k ∉ rest.map (·.1) ∧ (rest.map (·.1)).Nodup := List.nodup_cons.mp hnd
    have hnew : ∀ kv ∈ acc, kv.1 ≠ k := fun kv hkv hEq => hacc kv hkv (by simp [hEq])
    have ih := foldl_withField ty rest (acc ++ [(k, jsonToValue v)]) hnd'.2 (by
      intro kv hkv
      rcases List.mem_append.mp hkv with h | h
      · intro hm; exact hacc kv h (by simp [List.mem_map] at hm ⊢; right; exact hm)
      · simp at h; subst h; simpa using hnd'.1)
    simp only [List.foldl_cons, Event.withField, insertField_new hnew] at ih ⊢
    rw [ih]
    simp [jsonToValueFields]

theorem injectEvent_data (body : InjectEventRequest) (hnd : (body.fields.map (·.1)).Nodup) :
    injectEvent body = { eventType := body.eventType, data := jsonToValueFields body.fields } := by
  simpa [injectEvent] using foldl_withField body.eventType body.fields [] hnd (by simp)

end Varpulis.JsonValue
