import Varpulis.Lemmas.CoordBook
/-! Every guarded step of the coordinator model preserves `BookInv` (C32). -/
namespace Varpulis.Coord

theorem getW_isSome_reg {s : St} {id : WId} (h : (s.getW id).isSome = true) : ∃ w ∈ s.workers, w.id = id := by
  cases hg : s.getW id with
  | none => rw [hg] at h; cases h
  | some w => exact ⟨w, (getW_some hg).1, (getW_some hg).2⟩

theorem isEmpty_eq_nil {α : Type} {l : List α} (h : l.isEmpty = true) : l = [] := by
  cases l with
  | nil => rfl
  | cons a l => cases h

/-! ### deploy commit -/

theorem find?_insert_other (P : List PRec) (k k' : PRec → Bool) (r0 : PRec)
    (h : P.find? k' = none) (h0 : k' r0 = false) : (P.eraseP k ++ [r0]).find? k' = none := by
  rw [List.find?_eq_none] at h ⊢
  intro x hx
  rcases List.mem_append.1 hx with hm | hm
  · exact h x (List.mem_of_mem_eraseP hm)
  · simp only [List.mem_singleton] at hm; subst hm; simp [h0]

theorem commitResult_getP_other (g : GId) (s : St) (r : DeployResult) (n : Name)
    (hne : r.replica ≠ n) (h : s.getP g n = none) : (commitResult g s r).getP g n = none := by
  unfold commitResult
  have hk : ∀ (w : WId) (st : PStatus) (b : Bool),
      PRec.hasKey g n { gid := g, name := r.replica, worker := w, status := st, hasId := b, epoch := 0 } = false := by
    intro w st b; simp [PRec.hasKey, hne]
  split
  · exact find?_insert_other s.placements _ _ _ h (hk _ _ _)
  · exact find?_insert_other s.placements _ _ _ h (hk _ _ _)

theorem commitResult_reg (g : GId) (s : St) (r : DeployResult) (id : WId) :
    (∃ w ∈ (commitResult g s r).workers, w.id = id) ↔ ∃ w ∈ s.workers, w.id = id := by
  unfold commitResult
  split
  · exact reg_updW (s := s.insertP _) (j := r.worker) (f := Worker.push r.replica) (fun _ => rfl) id
  · exact Iff.rfl

theorem bookInv_commitResult (g : GId) (s : St) (r : DeployResult) (h : BookInv s)
    (hfree : s.getP g r.replica = none) (hreg : r.ok = true → ∃ w ∈ s.workers, w.id = r.worker) :
    BookInv (commitResult g s r) := by
  have hold : OldIdle s g r.replica := by intro x hx; rw [hfree] at hx; cases hx
  unfold commitResult
  split
  · rename_i hok
    exact bookInv_insert_running s g r.replica r.worker 0 h (hreg hok) hold
  · exact bookInv_insert_failed s g r.replica r.worker h hold

theorem bookInv_foldl_commitResult (g : GId) : ∀ (rs : List DeployResult) (s : St), BookInv s →
    (rs.map (·.replica)).Nodup → (∀ r ∈ rs, s.getP g r.replica = none) →
    (∀ r ∈ rs, r.ok = true → ∃ w ∈ s.workers, w.id = r.worker) →
    BookInv (rs.foldl (commitResult g) s) := by
  intro rs
  induction rs with
  | nil => intro s h _ _ _; exact h
  | cons r rs ih =>
    intro s h hnd hfree hreg
    simp only [List.foldl_cons]
    simp only [List.map_cons, List.nodup_cons, List.mem_map, not_exists, not_and] at hnd
    apply ih
    · exact bookInv_commitResult g s r h (hfree r List.mem_cons_self) (hreg r List.mem_cons_self)
    · exact hnd.2
    · intro r' hr'
      apply commitResult_getP_other
      · intro e; exact hnd.1 r' hr' e.symm
      · exact hfree r' (List.mem_cons_of_mem _ hr')
    · intro r' hr' hok
      exact (commitResult_reg g s r _).2 (hreg r' (List.mem_cons_of_mem _ hr') hok)

theorem bookInv_commitDeploy (s : St) (g : GId) (specs : List PSpec) (rs : List DeployResult) (h : BookInv s)
    (hfresh : s.placements.all (fun r => r.gid != g) = true) (hnd : (rs.map (·.replica)).Nodup)
    (hreg : rs.all (fun r => !r.ok || (s.getW r.worker).isSome) = true) :
    BookInv (commitDeploy s g specs rs) := by
  unfold commitDeploy
  have hfilter : s.placements.filter (fun r => r.gid != g) = s.placements := List.filter_eq_self.2 (List.all_eq_true.1 hfresh)
  simp only [hfilter]
  refine bookInv_foldl_commitResult g rs _ (bookInv_congr s _ rfl rfl h) hnd ?_ ?_
  · intro r _
    show s.placements.find? (PRec.hasKey g r.replica) = none
    rw [List.find?_eq_none]
    intro x hx hk
    have := List.all_eq_true.1 hfresh x hx
    simp only [PRec.hasKey, Bool.and_eq_true, beq_iff_eq] at hk
    simp [hk.1] at this
  · intro r hr hok
    have := List.all_eq_true.1 hreg r hr
    simp only [hok, Bool.not_true, Bool.false_or] at this
    exact getW_isSome_reg this

/-! ### teardown commit -/

theorem bookInv_foldl_teardown (g : GId) : ∀ (ts : List (Name × WId)) (s : St), BookInv s → tdGuard g s ts = true →
    BookInv (ts.foldl (teardownTask g) s) ∧
    ∀ r ∈ (ts.foldl (teardownTask g) s).placements, r.gid = g → r.status ≠ .running := by
  intro ts
  induction ts with
  | nil =>
    intro s h hg
    refine ⟨h, ?_⟩
    intro r hr hgid hs
    have := List.all_eq_true.1 hg r hr
    simp [hgid, hs] at this
  | cons t ts ih =>
    intro s h hg
    simp only [tdGuard, Bool.and_eq_true] at hg
    simp only [List.foldl_cons]
    cases hp : s.getP g t.1 with
    | none => simp [hp] at hg
    | some r =>
      simp only [hp, Bool.and_eq_true, decide_eq_true_eq, beq_iff_eq] at hg
      apply ih _ _ hg.2
      have : t = (t.1, t.2) := rfl
      rw [this]
      exact bookInv_teardownTask s g t.1 t.2 r h hp hg.1.1 hg.1.2

theorem bookInv_commitTeardown (s : St) (g : GId) (ts : List (Name × WId)) (h : BookInv s)
    (hg : tdGuard g s ts = true) : BookInv (commitTeardown s g ts) := by
  unfold commitTeardown
  obtain ⟨h1, h2⟩ := bookInv_foldl_teardown g ts s h hg
  refine bookInv_congr { ts.foldl (teardownTask g) s with
      placements := (ts.foldl (teardownTask g) s).placements.filter (fun r => r.gid != g) } _ rfl rfl ?_
  apply bookInv_filterP _ _ _ h1
  intro r hr hq
  apply h2 r hr
  simpa using hq

/-! ### the step theorem -/

theorem bookInv_updW_bk (s : St) (id : WId) (f : Worker → Worker)
    (hf : ∀ w, (f w).id = w.id ∧ (f w).assigned = w.assigned ∧ (f w).running = w.running) (h : BookInv s) :
    BookInv (s.updW id f) := by
  apply bookInv_map_workers s _ _ h
  intro w _
  by_cases e : w.id = id
  · rw [if_pos e]
    have := hf w
    exact ⟨this.1, this.2.1, fun h' => this.2.2.trans h'⟩
  · rw [if_neg e]
    exact ⟨rfl, rfl, fun h' => h'⟩

theorem step_preserves (s : St) (st : Step) (h : BookInv s) (hg : guardFail s st = none) : BookInv (step s st) := by
  cases st with
  | register id m c r0 now =>
    simp only [guardFail] at hg
    split at hg
    · rename_i hc
      simp only [Bool.and_eq_true, beq_iff_eq] at hc
      obtain ⟨he, h0⟩ := hc
      subst h0
      exact bookInv_register s id m c now h (isEmpty_eq_nil he)
    · cases hg
  | heartbeat id n now =>
    simp only [guardFail] at hg
    simp only [step, heartbeat]
    cases hw : s.getW id with
    | none => exact h
    | some w0 =>
      simp only [hw] at hg
      split at hg
      · rename_i hn
        simp only [beq_iff_eq] at hn
        simp only [Option.getD_some]
        apply bookInv_map_workers s _ _ h
        intro w hw'
        by_cases e : w.id = id
        · rw [if_pos e]
          refine ⟨rfl, rfl, fun _ => ?_⟩
          show n = w.assigned.length
          have l1 := (h.2 w hw').1.length_eq
          have l2 := (h.2 w0 (getW_some hw).1).1.length_eq
          rw [(getW_some hw).2] at l2
          rw [e] at l1
          omega
        · rw [if_neg e]
          exact ⟨rfl, rfl, fun h' => h'⟩
      · cases hg
  | deregister id =>
    simp only [guardFail] at hg
    simp only [step]
    cases hd : deregister s id with
    | none => exact h
    | some s' =>
      split at hg
      · rename_i he
        exact bookInv_deregister s s' id h (isEmpty_eq_nil he) hd
      · cases hg
  | sweep now =>
    simp only [step, sweep]
    apply bookInv_map_workers s _ _ h
    intro w _
    unfold sweepWorker
    split <;> exact ⟨rfl, rfl, fun h' => h'⟩
  | markDraining id =>
    simp only [step, markDraining]
    exact bookInv_updW_bk s id _ (fun _ => ⟨rfl, rfl, rfl⟩) h
  | commitDeploy g specs rs =>
    simp only [guardFail] at hg
    simp only [step]
    split at hg
    · cases hg
    · rename_i h1
      split at hg
      · rename_i h2
        simp only [Bool.or_eq_true, Bool.not_eq_true', decide_eq_false_iff_not, not_or, Bool.not_eq_false,
          Decidable.not_not] at h1
        exact bookInv_commitDeploy s g specs rs h h1.1 h1.2 h2
      · cases hg
  | commitTeardown g ts =>
    simp only [guardFail] at hg
    simp only [step]
    split at hg
    · rename_i h1; exact bookInv_commitTeardown s g ts h h1
    · cases hg
  | commitMigrate p ok =>
    simp only [guardFail] at hg
    simp only [step, commitMigrate]
    by_cases hc : (ok && migCurrent s p) = true
    · simp only [hc, if_true] at hg ⊢
      have hcur : migCurrent s p = true := by simp only [Bool.and_eq_true] at hc; exact hc.2
      unfold migCurrent at hcur
      simp only [Bool.and_eq_true] at hcur
      cases hp : s.getP p.gid p.name with
      | none => simp [hp] at hcur
      | some r =>
        simp only [hp, Bool.and_eq_true, beq_iff_eq] at hcur hg
        split at hg
        · rename_i hrun
          exact bookInv_applyMigration s p r h hp hrun hcur.1.2.1 (getW_isSome_reg hcur.2)
        · cases hg
    · simp only [hc]
      exact h
  | migrateAtomic g n t ok =>
    simp only [guardFail] at hg
    simp only [step, migrateAtomic]
    cases hp : s.getP g n with
    | none => exact h
    | some r =>
      cases hw : s.getW t with
      | none => exact h
      | some w =>
        simp only [hp, hw] at hg ⊢
        by_cases hc : (w.isAvailable && s.hasGroup g && ok) = true
        · simp only [hc, if_true] at hg ⊢
          split at hg
          · rename_i hrun
            exact bookInv_applyMigration s { gid := g, name := n, source := r.worker, target := t, epoch := r.epoch } r
              h hp hrun rfl ⟨w, (getW_some hw).1, (getW_some hw).2⟩
          · cases hg
        · simp only [hc]
          exact h

/-- the empty coordinator satisfies the invariant -/
theorem bookInv_init (t : Nat) : BookInv { timeout := t } := by
  constructor
  · intro r hr; cases hr
  · intro w hw; cases hw

/-- **every history inside the guards keeps the bookkeeping consistent** -/
theorem guardedRun_preserves : ∀ (steps : List Step) (s : St), BookInv s → guardedRun s steps = true →
    BookInv (run s steps) := by
  intro steps
  induction steps with
  | nil => intro s h _; exact h
  | cons st rest ih =>
    intro s h hg
    simp only [guardedRun, Bool.and_eq_true, Option.isNone_iff_eq_none] at hg
    simp only [run, List.foldl_cons]
    exact ih (step s st) (step_preserves s st h hg.1) hg.2

end Varpulis.Coord
