import Varpulis.Model.ZddIter
import Varpulis.Lemmas.ZddTable
/-!
# The iterator step machines produce exactly `Zdd.sets (treeOf t r)`

`acollect_frame` / `zcollect_frame`: processing a frame `(r, 0)` on top of any stack takes exactly
`stepsA z` (`stepsZ z`) loop iterations, emits `sets z` prefixed by the current path, in order, and leaves
the rest of the stack (and, for `ArenaIterator`, the shared path vector) as it found them.
-/
namespace Varpulis.ZddT
open Varpulis.Zdd

theorem ref_of_tree_empty {t : Table} (hw : TWF t) {r : Ref} (hv : Valid t r) (h : treeOf t r = .empty) : r = .E := by
  cases r with
  | E => rfl
  | B => simp at h
  | N i => obtain ⟨n, hn⟩ := get_of_valid hv; rw [tree_N hw.toBelow hn] at h; simp at h

theorem ref_of_tree_base {t : Table} (hw : TWF t) {r : Ref} (hv : Valid t r) (h : treeOf t r = .base) : r = .B := by
  cases r with
  | E => simp at h
  | B => rfl
  | N i => obtain ⟨n, hn⟩ := get_of_valid hv; rw [tree_N hw.toBelow hn] at h; simp at h

theorem ref_of_tree_node {t : Table} (hw : TWF t) {r : Ref} (hv : Valid t r) {v : Nat} {lo hi : Z}
    (h : treeOf t r = .node v lo hi) :
    ∃ i n, r = .N i ∧ t[i]? = some n ∧ n.v = v ∧ treeOf t n.lo = lo ∧ treeOf t n.hi = hi ∧
      Valid t n.lo ∧ Valid t n.hi := by
  cases r with
  | E => simp at h
  | B => simp at h
  | N i =>
    obtain ⟨n, hn⟩ := get_of_valid hv
    rw [tree_N hw.toBelow hn] at h
    simp only [Z.node.injEq] at h
    have hc := hw.toBelow.child_valid hn
    exact ⟨i, n, rfl, hn, h.1, h.2.1, h.2.2, hc.1, hc.2⟩

section
variable {t : Table}

theorem acollect_stop (f : Nat) (p : List Nat) : AIter.collect t (f + 1) ⟨[], p⟩ = some [] := by
  simp [AIter.collect, AIter.step]
theorem acollect_E (f : Nat) (b : Nat) (rest : List (Ref × Nat)) (p : List Nat) :
    AIter.collect t (f + 1) ⟨(.E, b) :: rest, p⟩ = AIter.collect t f ⟨rest, p⟩ := by
  simp [AIter.collect, AIter.step]
theorem acollect_B (f : Nat) (b : Nat) (rest : List (Ref × Nat)) (p : List Nat) :
    AIter.collect t (f + 1) ⟨(.B, b) :: rest, p⟩ = (AIter.collect t f ⟨rest, p⟩).map (p :: ·) := by
  simp [AIter.collect, AIter.step]
theorem acollect_N0 {i : Nat} {n : Node} (hn : t[i]? = some n) (f : Nat) (rest : List (Ref × Nat)) (p : List Nat) :
    AIter.collect t (f + 1) ⟨(.N i, 0) :: rest, p⟩ = AIter.collect t f ⟨(n.lo, 0) :: (.N i, 1) :: rest, p⟩ := by
  simp [AIter.collect, AIter.step, hn]
theorem acollect_N1 {i : Nat} {n : Node} (hn : t[i]? = some n) (f : Nat) (rest : List (Ref × Nat)) (p : List Nat) :
    AIter.collect t (f + 1) ⟨(.N i, 1) :: rest, p⟩ = AIter.collect t f ⟨(n.hi, 0) :: (.N i, 2) :: rest, p ++ [n.v]⟩ := by
  simp [AIter.collect, AIter.step, hn]
theorem acollect_N2 {i : Nat} {n : Node} (hn : t[i]? = some n) (f : Nat) (rest : List (Ref × Nat)) (p : List Nat) :
    AIter.collect t (f + 1) ⟨(.N i, 2) :: rest, p⟩ = AIter.collect t f ⟨rest, p.dropLast⟩ := by
  simp [AIter.collect, AIter.step, hn]

theorem zcollect_stop (f : Nat) : ZIter.collect t (f + 1) ⟨[]⟩ = some [] := by
  simp [ZIter.collect, ZIter.step]
theorem zcollect_E (f : Nat) (b : Nat) (rest : List (Ref × List Nat × Nat)) (p : List Nat) :
    ZIter.collect t (f + 1) ⟨(.E, p, b) :: rest⟩ = ZIter.collect t f ⟨rest⟩ := by
  simp [ZIter.collect, ZIter.step]
theorem zcollect_B (f : Nat) (b : Nat) (rest : List (Ref × List Nat × Nat)) (p : List Nat) :
    ZIter.collect t (f + 1) ⟨(.B, p, b) :: rest⟩ = (ZIter.collect t f ⟨rest⟩).map (p :: ·) := by
  simp [ZIter.collect, ZIter.step]
theorem zcollect_N0 {i : Nat} {n : Node} (hn : t[i]? = some n) (f : Nat) (rest : List (Ref × List Nat × Nat)) (p : List Nat) :
    ZIter.collect t (f + 1) ⟨(.N i, p, 0) :: rest⟩ = ZIter.collect t f ⟨(n.lo, p, 0) :: (.N i, p, 1) :: rest⟩ := by
  simp [ZIter.collect, ZIter.step, hn]
theorem zcollect_N1 {i : Nat} {n : Node} (hn : t[i]? = some n) (f : Nat) (rest : List (Ref × List Nat × Nat)) (p : List Nat) :
    ZIter.collect t (f + 1) ⟨(.N i, p, 1) :: rest⟩ = ZIter.collect t f ⟨(n.hi, p ++ [n.v], 0) :: rest⟩ := by
  simp [ZIter.collect, ZIter.step, hn]
end

theorem acollect_frame {t : Table} (hw : TWF t) : ∀ (z : Z) (r : Ref) (rest : List (Ref × Nat)) (p : List Nat) (f : Nat),
    Valid t r → treeOf t r = z →
    AIter.collect t (stepsA z + f) ⟨(r, 0) :: rest, p⟩ =
      (AIter.collect t f ⟨rest, p⟩).map (((sets z).map (p ++ ·)) ++ ·) := by
  intro z
  induction z with
  | empty =>
    intro r rest p f hv hz
    have := ref_of_tree_empty hw hv hz; subst this
    have : stepsA .empty + f = f + 1 := by simp [stepsA]; omega
    rw [this, acollect_E]
    simp
  | base =>
    intro r rest p f hv hz
    have := ref_of_tree_base hw hv hz; subst this
    have : stepsA .base + f = f + 1 := by simp [stepsA]; omega
    rw [this, acollect_B]
    simp
  | node v lo hi ihlo ihhi =>
    intro r rest p f hv hz
    obtain ⟨i, n, rfl, hn, rfl, hlo, hhi, vlo, vhi⟩ := ref_of_tree_node hw hv hz
    have e : stepsA (.node n.v lo hi) + f = (stepsA lo + ((stepsA hi + (f + 1)) + 1)) + 1 := by
      simp only [stepsA]; omega
    rw [e, acollect_N0 hn, ihlo n.lo _ p _ vlo hlo, acollect_N1 hn, ihhi n.hi _ (p ++ [n.v]) _ vhi hhi,
      acollect_N2 hn, List.dropLast_concat]
    cases AIter.collect t f ⟨rest, p⟩ with
    | none => rfl
    | some l => simp [List.append_assoc]

theorem acollect_mono {t : Table} : ∀ (f : Nat) (s : AIter) (l : List (List Nat)) (k : Nat),
    AIter.collect t f s = some l → AIter.collect t (f + k) s = some l := by
  intro f
  induction f with
  | zero => intro s l k h; simp [AIter.collect] at h
  | succ f ih =>
    intro s l k h
    have : f + 1 + k = (f + k) + 1 := by omega
    rw [this]
    simp only [AIter.collect] at h ⊢
    cases hs : s.step t with
    | stop => simpa [hs] using h
    | panic => simp [hs] at h
    | go s' o =>
      cases o with
      | none => simp only [hs] at h ⊢; exact ih _ _ _ h
      | some p =>
        simp only [hs] at h ⊢
        cases hc : AIter.collect t f s' with
        | none => simp [hc] at h
        | some l' => rw [ih _ _ k hc]; simpa [hc] using h

/-- **`ArenaIterator` yields exactly `sets`**: collecting the step machine started at a valid handle of a
well-formed table terminates within `stepsA (treeOf t r) + 1` loop iterations, never panics, and returns
the members in the order of `Zdd.sets` (lo branch before hi branch, each member ascending). -/
theorem aiter_collect {t : Table} (hw : TWF t) {r : Ref} (hv : Valid t r) :
    AIter.collect t (stepsA (treeOf t r) + 1) (AIter.new r) = some (sets (treeOf t r)) := by
  by_cases he : r = .E
  · subst he; simp [AIter.new, acollect_stop]
  · simp only [AIter.new, he, if_false]
    rw [acollect_frame hw _ r [] [] 1 hv rfl, acollect_stop]
    simp

theorem aiter_collect_any_fuel {t : Table} (hw : TWF t) {r : Ref} (hv : Valid t r) (k : Nat) :
    AIter.collect t (stepsA (treeOf t r) + 1 + k) (AIter.new r) = some (sets (treeOf t r)) :=
  acollect_mono _ _ _ k (aiter_collect hw hv)

/-- `collect` is "call `next()` until it returns `None`": a `next()` that yields `p` and leaves state `s'`
contributes `p` in front of what collecting from `s'` gives; a `next()` that returns `None` ends the collection -/
theorem anext_collect {t : Table} : ∀ (f : Nat) (s : AIter),
    (∀ p s', AIter.next t f s = some (some p, s') → ∀ g l, AIter.collect t g s' = some l →
      AIter.collect t (f + g) s = some (p :: l)) ∧
    (∀ s', AIter.next t f s = some (none, s') → AIter.collect t f s = some []) := by
  intro f
  induction f with
  | zero => intro s; constructor <;> intros <;> simp_all [AIter.next]
  | succ f ih =>
    intro s
    constructor
    · intro p s' h g l hc
      have : f + 1 + g = (f + g) + 1 := by omega
      rw [this]
      simp only [AIter.next, AIter.collect] at h ⊢
      cases hs : s.step t with
      | stop => simp [hs] at h
      | panic => simp [hs] at h
      | go s1 o =>
        cases o with
        | none => simp only [hs] at h ⊢; exact (ih s1).1 p s' h g l hc
        | some q =>
          simp only [hs, Option.some.injEq, Prod.mk.injEq] at h ⊢
          obtain ⟨rfl, rfl⟩ := h
          have := acollect_mono g s1 l f hc
          rw [Nat.add_comm] at this
          simp [this]
    · intro s' h
      simp only [AIter.next, AIter.collect] at h ⊢
      cases hs : s.step t with
      | stop => rfl
      | panic => simp [hs] at h
      | go s1 o =>
        cases o with
        | none => simp only [hs] at h ⊢; exact (ih s1).2 s' h
        | some q => simp [hs] at h

/-! ### `ZddIterator` -/

theorem zcollect_frame {t : Table} (hw : TWF t) : ∀ (z : Z) (r : Ref) (rest : List (Ref × List Nat × Nat)) (p : List Nat)
    (f : Nat), Valid t r → treeOf t r = z →
    ZIter.collect t (stepsZ z + f) ⟨(r, p, 0) :: rest⟩ =
      (ZIter.collect t f ⟨rest⟩).map (((sets z).map (p ++ ·)) ++ ·) := by
  intro z
  induction z with
  | empty =>
    intro r rest p f hv hz
    have := ref_of_tree_empty hw hv hz; subst this
    have : stepsZ .empty + f = f + 1 := by simp [stepsZ]; omega
    rw [this, zcollect_E]
    simp
  | base =>
    intro r rest p f hv hz
    have := ref_of_tree_base hw hv hz; subst this
    have : stepsZ .base + f = f + 1 := by simp [stepsZ]; omega
    rw [this, zcollect_B]
    simp
  | node v lo hi ihlo ihhi =>
    intro r rest p f hv hz
    obtain ⟨i, n, rfl, hn, rfl, hlo, hhi, vlo, vhi⟩ := ref_of_tree_node hw hv hz
    have e : stepsZ (.node n.v lo hi) + f = (stepsZ lo + ((stepsZ hi + f) + 1)) + 1 := by
      simp only [stepsZ]; omega
    rw [e, zcollect_N0 hn, ihlo n.lo _ p _ vlo hlo, zcollect_N1 hn, ihhi n.hi _ (p ++ [n.v]) _ vhi hhi]
    cases ZIter.collect t f ⟨rest⟩ with
    | none => rfl
    | some l => simp [List.append_assoc]

/-- **`ZddIterator` yields exactly `sets`** -/
theorem ziter_collect {t : Table} (hw : TWF t) {r : Ref} (hv : Valid t r) :
    ZIter.collect t (stepsZ (treeOf t r) + 1) (ZIter.new r) = some (sets (treeOf t r)) := by
  by_cases he : r = .E
  · subst he; simp [ZIter.new, zcollect_stop]
  · simp only [ZIter.new, he, if_false]
    rw [zcollect_frame hw _ r [] [] 1 hv rfl, zcollect_stop]
    simp

theorem Arena.iterAll_spec {s : Arena} (hs : s.OK) {a : Ref} (ha : Valid s.table a) :
    s.iterAll a = some (sets (treeOf s.table a)) := aiter_collect hs.twf ha

theorem ZddS.toSets_spec {z : ZddS} (hz : z.OK) : z.toSets = some (sets z.den) := ziter_collect hz.twf hz.valid

/-- `count_uncached` (per-call cache) is the count of the denoted tree -/
theorem Arena.countUncached_spec {s : Arena} (hs : s.OK) {a : Ref} (ha : Valid s.table a) :
    s.countUncached a = some (Zdd.count (treeOf s.table a)) := by
  obtain ⟨cc', k, e, _, z⟩ := countT_spec (a.rank + 1) s.table [] a hs.twf (CacheNOK.nil _) ha (Nat.le_succ _)
  simp [Arena.countUncached, e, z]

end Varpulis.ZddT
