import Varpulis.Lemmas.Window
/-! Lemmas for C04: generic independence of partitions, its premises for each window kind,
`PartitionedAggregatorState`, injectivity of `to_partition_key`. -/
namespace Varpulis.Window

variable {κ σ ι β : Type} [DecidableEq κ]

/-- does operation `op` concern key `k` (routed to it, or broadcast)? -/
def concerns (route : ι → Option κ) (k : κ) (op : ι) : Bool :=
  match route op with | none => true | some k' => k' = k

theorem proj_eq (route : ι → Option κ) (k : κ) (ops : List ι) : proj route k ops = ops.filter (concerns route k) := rfl

theorem forKey_append (k : κ) (a b : List (κ × β)) : forKey k (a ++ b) = forKey k a ++ forKey k b := by
  simp [forKey]

theorem forKey_map_same (k : κ) (l : List β) : forKey k (l.map (fun b => (k, b))) = l := by
  induction l with
  | nil => simp [forKey]
  | cons a l ih => simp [forKey] at ih ⊢; exact ih

theorem forKey_map_other {k k' : κ} (h : k' ≠ k) (l : List β) : forKey k (l.map (fun b => (k', b))) = [] := by
  induction l with
  | nil => simp [forKey]
  | cons a l ih => simp [forKey] at ih ⊢; exact ⟨h, ih⟩

theorem forKey_flatMap (k : κ) (g : κ → List β) : ∀ (dom : List κ), dom.Nodup →
    forKey k (dom.flatMap (fun k' => (g k').map (fun b => (k', b)))) = if k ∈ dom then g k else [] := by
  intro dom
  induction dom with
  | nil => simp [forKey]
  | cons a dom ih =>
    intro hnd
    rw [List.nodup_cons] at hnd
    rw [List.flatMap_cons, forKey_append, ih hnd.2]
    by_cases hak : a = k
    · subst hak
      rw [forKey_map_same]
      simp [hnd.1]
    · rw [forKey_map_other hak]
      have : k ≠ a := fun h => hak h.symm
      simp [this]

/-- well-formed partition map: keys are distinct, absent keys read as the initial sub-state -/
structure PWf (m : Machine σ ι β) (ps : PState κ σ) : Prop where
  nodup : ps.dom.Nodup
  absent : ∀ k, k ∉ ps.dom → ps.sub k = m.init

theorem pstep_key (m : Machine σ ι β) (route : ι → Option κ) (drop : ι → List β → Bool)
    (hidle : ∀ b, route b = none → m.step m.init b = (m.init, []))
    (hdrop : ∀ s b, route b = none → drop b (m.step s b).2 = true → (m.step s b).1 = m.init)
    (ps : PState κ σ) (hwf : PWf m ps) (op : ι) (k : κ) :
    PWf m (pstep m route drop ps op).1 ∧
    (pstep m route drop ps op).1.sub k = (if concerns route k op then (m.step (ps.sub k) op).1 else ps.sub k) ∧
    forKey k (pstep m route drop ps op).2 = (if concerns route k op then (m.step (ps.sub k) op).2 else []) := by
  obtain ⟨hnd, habs⟩ := hwf
  unfold pstep concerns
  cases hr : route op with
  | some k' =>
    simp only
    refine ⟨⟨?_, ?_⟩, ?_, ?_⟩
    · simp only [PState.set]
      split
      · exact hnd
      · rename_i hn
        rw [List.nodup_append]
        exact ⟨hnd, by simp, by intro a ha b hb; simp at hb; subst hb; intro h; subst h; exact hn ha⟩
    · intro q hq
      simp only [PState.set] at hq ⊢
      have hqk : q ≠ k' := by
        intro h; subst h; split at hq <;> simp_all
      have hqd : q ∉ ps.dom := by
        intro h; split at hq <;> simp_all
      simp [hqk, habs q hqd]
    · simp only [PState.set]
      by_cases h : k' = k
      · subst h; simp
      · have : k ≠ k' := fun h' => h h'.symm
        simp [h, this]
    · by_cases h : k' = k
      · subst h; simp [forKey_map_same]
      · simp [h, forKey_map_other h]
  | none =>
    simp only
    refine ⟨⟨?_, ?_⟩, ?_, ?_⟩
    · exact hnd.filter _
    · intro q hq
      simp only [List.mem_filter, Bool.not_eq_eq_eq_not, Bool.not_true, not_and, Bool.not_eq_false] at hq
      by_cases hqd : q ∈ ps.dom
      · simp only [hqd, ↓reduceIte]
        exact hdrop _ _ hr (hq hqd)
      · simp [hqd, habs q hqd]
    · by_cases hkd : k ∈ ps.dom
      · simp [hkd]
      · simp [hkd, habs k hkd, hidle op hr]
    · rw [forKey_flatMap k (fun k' => (m.step (ps.sub k') op).2) ps.dom hnd]
      by_cases hkd : k ∈ ps.dom
      · simp [hkd]
      · simp [hkd, habs k hkd, hidle op hr]

/-- C04, generic: from a well-formed partition map, what the partitioned machine does for key `k`
is exactly what the plain machine does on `k`'s sub-sequence of operations. -/
theorem partition_run (m : Machine σ ι β) (route : ι → Option κ) (drop : ι → List β → Bool)
    (hidle : ∀ b, route b = none → m.step m.init b = (m.init, []))
    (hdrop : ∀ s b, route b = none → drop b (m.step s b).2 = true → (m.step s b).1 = m.init) (k : κ) :
    ∀ (ops : List ι) (ps : PState κ σ), PWf m ps →
      ((partitioned m route drop).final ps ops).sub k = m.final (ps.sub k) (proj route k ops) ∧
      forKey k ((partitioned m route drop).emits ps ops) = m.emits (ps.sub k) (proj route k ops) := by
  intro ops
  induction ops with
  | nil => intro ps _; simp [Machine.final, Machine.emits, proj, forKey]
  | cons o os ih =>
    intro ps hwf
    obtain ⟨hwf', hsub, hout⟩ := pstep_key m route drop hidle hdrop ps hwf o k
    have := ih _ hwf'
    simp only [Machine.final, Machine.emits, forKey_append, proj_eq, List.filter_cons]
    simp only [partitioned] at this ⊢
    rw [this.1, this.2, hsub, hout, proj_eq]
    by_cases hc : concerns route k o
    · simp [hc, Machine.final, Machine.emits]
    · simp [hc]

theorem pwf_init (m : Machine σ ι β) (route : ι → Option κ) (drop : ι → List β → Bool) :
    PWf m (partitioned m route drop).init := ⟨by simp [partitioned], by simp [partitioned]⟩

/-- grouping a tagged list by a duplicate-free key list that covers it is a permutation -/
theorem perm_group : ∀ (keys : List κ) (l : List (κ × β)), keys.Nodup → (∀ p ∈ l, p.1 ∈ keys) →
    l.Perm (keys.flatMap (fun k => (forKey k l).map (fun b => (k, b)))) := by
  intro keys
  induction keys with
  | nil =>
    intro l _ h
    cases l with
    | nil => simp
    | cons a l => have := h a (by simp); simp at this
  | cons k ks ih =>
    intro l hnd hcov
    rw [List.nodup_cons] at hnd
    rw [List.flatMap_cons]
    have h1 : (forKey k l).map (fun b => (k, b)) = l.filter (fun p => decide (p.1 = k)) := by
      unfold forKey
      rw [List.map_map]
      conv => rhs; rw [← List.map_id (l.filter _)]
      apply List.map_congr_left
      intro p hp
      have := (List.mem_filter.mp hp).2
      simp at this
      simp [← this]
    have h2 : ∀ k' ∈ ks, forKey k' l = forKey k' (l.filter (fun p => !decide (p.1 = k))) := by
      intro k' hk'
      unfold forKey
      rw [List.filter_filter]
      congr 1
      apply List.filter_congr
      intro p _
      by_cases hp : p.1 = k'
      · have : k' ≠ k := by intro h; subst h; exact hnd.1 hk'
        simp [hp, this]
      · simp [hp]
    have h3 := ih (l.filter (fun p => !decide (p.1 = k))) hnd.2 (by
      intro p hp
      have hm := List.mem_filter.mp hp
      have := hcov p hm.1
      simp at hm
      rcases List.mem_cons.mp this with h | h
      · exact absurd h hm.2
      · exact h)
    rw [h1]
    refine (List.filter_append_perm (fun p => decide (p.1 = k)) l).symm.trans ?_
    apply List.Perm.append_left
    refine h3.trans ?_
    apply List.Perm.of_eq
    rw [List.flatMap_def, List.flatMap_def]
    congr 1
    apply List.map_congr_left
    intro k' hk'
    rw [h2 k' hk']


/-! ### premises of the generic theorem for each window kind -/
theorem tumbling_idle (d : Int) : ∀ b, winRoute b = none → (tumbling d).step (tumbling d).init b = ((tumbling d).init, []) := by
  intro b hb; cases b <;> simp_all [winRoute, tumbling, Tumbling.step, flushed]
theorem sliding_idle (size slide : Int) : ∀ b, winRoute b = none → (sliding size slide).step (sliding size slide).init b = ((sliding size slide).init, []) := by
  intro b hb; cases b <;> simp_all [winRoute, sliding, Sliding.step, expireBefore]
theorem session_idle (g : Int) : ∀ b, winRoute b = none → (session g).step (session g).init b = ((session g).init, []) := by
  intro b hb; cases b <;> simp_all [winRoute, session, Session.step, flushed]
theorem count_idle (n : Nat) : ∀ b, winRoute b = none → (count n).step (count n).init b = ((count n).init, []) := by
  intro b hb; cases b <;> simp_all [winRoute, count, Count.step, flushed]
theorem slidingCount_idle (size slide : Nat) : ∀ b, winRoute b = none → (slidingCount size slide).step (slidingCount size slide).init b = ((slidingCount size slide).init, []) := by
  intro b hb; cases b <;> simp_all [winRoute, slidingCount, SlidingCount.step]

theorem never_drop {σ : Type} (m : Machine σ Op (List Ev)) : ∀ s b, winRoute b = none → never b (m.step s b).2 = true → (m.step s b).1 = m.init := by
  intro s b _ h; simp [never] at h

theorem session_drop (g : Int) : ∀ s b, winRoute b = none → dropClosed b ((session g).step s b).2 = true → ((session g).step s b).1 = (session g).init := by
  intro s b hb h
  cases b with
  | add e => simp [winRoute] at hb
  | flush => simp [dropClosed] at h
  | watermark t =>
    simp only [session, Session.step, dropClosed] at h ⊢
    split at h
    · split at h <;> simp_all
    · simp at h
  | expire t =>
    simp only [session, Session.step, dropClosed] at h ⊢
    split at h
    · split at h <;> simp_all
    · simp at h

/-! ### `PartitionedAggregatorState::apply` -/
theorem mem_keysOf {α : Type} (k : α → κ) (key : κ) : ∀ (l : List α), key ∈ keysOf k l ↔ ∃ e ∈ l, k e = key := by
  intro l
  induction l with
  | nil => simp [keysOf]
  | cons a l ih =>
    simp only [keysOf, List.mem_cons, List.mem_filter, ih]
    constructor
    · rintro (h | ⟨⟨e, he, hk⟩, _⟩)
      · exact ⟨a, Or.inl rfl, h.symm⟩
      · exact ⟨e, Or.inr he, hk⟩
    · rintro ⟨e, (he | he), hk⟩
      · subst he; exact Or.inl hk.symm
      · by_cases h : key = k a
        · exact Or.inl h
        · exact Or.inr ⟨⟨e, he, hk⟩, by simpa using h⟩

theorem keysOf_nodup {α : Type} (k : α → κ) : ∀ (l : List α), (keysOf k l).Nodup := by
  intro l
  induction l with
  | nil => simp [keysOf]
  | cons a l ih =>
    simp only [keysOf, List.nodup_cons, List.mem_filter]
    exact ⟨by simp, ih.filter _⟩

/-! ### partition keys -/
def ofDigits (l : List Nat) : Nat := l.foldl (fun a d => a * 10 + d) 0

theorem ofDigits_natDigits (n : Nat) : ofDigits (natDigits n) = n := by
  fun_induction natDigits n with
  | case1 n h => simp [ofDigits]
  | case2 n h ih =>
    unfold ofDigits at *
    rw [List.foldl_append, ih]
    simp; omega

theorem natDigits_lt (n : Nat) : ∀ d ∈ natDigits n, d < 10 := by
  fun_induction natDigits n with
  | case1 n h => simp; omega
  | case2 n h ih =>
    intro d hd
    rcases List.mem_append.mp hd with hd | hd
    · exact ih d hd
    · simp at hd; omega

theorem natDigits_ne_nil (n : Nat) : natDigits n ≠ [] := by
  fun_induction natDigits n <;> simp

theorem digitChar_inj : ∀ a, a < 10 → ∀ b, b < 10 → digitChar a = digitChar b → a = b := by
  unfold digitChar; decide

theorem digitChar_ne_minus : ∀ a, a < 10 → digitChar a ≠ '-' := by unfold digitChar; decide
theorem digitChar_ne_d : ∀ a, a < 10 → digitChar a ≠ 'd' := by unfold digitChar; decide

theorem map_digitChar_inj : ∀ (l₁ l₂ : List Nat), (∀ d ∈ l₁, d < 10) → (∀ d ∈ l₂, d < 10) →
    l₁.map digitChar = l₂.map digitChar → l₁ = l₂ := by
  intro l₁
  induction l₁ with
  | nil => intro l₂ _ _ h; cases l₂ <;> simp_all
  | cons a l₁ ih =>
    intro l₂ h1 h2 h
    cases l₂ with
    | nil => simp at h
    | cons b l₂ =>
      simp only [List.map_cons, List.cons.injEq] at h
      have := digitChar_inj a (h1 a (by simp)) b (h2 b (by simp)) h.1
      subst this
      rw [ih l₂ (fun d hd => h1 d (by simp [hd])) (fun d hd => h2 d (by simp [hd])) h.2]

theorem natDigits_inj {a b : Nat} (h : natDigits a = natDigits b) : a = b := by
  rw [← ofDigits_natDigits a, ← ofDigits_natDigits b, h]

theorem ofList_inj {l₁ l₂ : List Char} (h : String.ofList l₁ = String.ofList l₂) : l₁ = l₂ := by
  have := congrArg String.toList h
  simpa using this

/-- `i64::to_string` is injective -/
theorem intKey_inj {a b : Int} (h : intKey a = intKey b) : a = b := by
  unfold intKey at h
  cases a with
  | ofNat n =>
    cases b with
    | ofNat m =>
      have := ofList_inj h
      rw [natDigits_inj (map_digitChar_inj _ _ (natDigits_lt n) (natDigits_lt m) this)]
    | negSucc m =>
      have := ofList_inj h
      cases hn : natDigits n with
      | nil => exact absurd hn (natDigits_ne_nil n)
      | cons d ds =>
        rw [hn] at this
        simp only [List.map_cons, List.cons.injEq] at this
        exact absurd this.1 (digitChar_ne_minus d (natDigits_lt n d (by simp [hn])))
  | negSucc n =>
    cases b with
    | ofNat m =>
      have := ofList_inj h
      cases hm : natDigits m with
      | nil => exact absurd hm (natDigits_ne_nil m)
      | cons d ds =>
        rw [hm] at this
        simp only [List.map_cons, List.cons.injEq] at this
        exact absurd this.1.symm (digitChar_ne_minus d (natDigits_lt m d (by simp [hm])))
    | negSucc m =>
      have := ofList_inj h
      simp only [List.cons.injEq, true_and] at this
      have := natDigits_inj (map_digitChar_inj _ _ (natDigits_lt _) (natDigits_lt _) this)
      have : n = m := by omega
      rw [this]

theorem intKey_ne_default (i : Int) : intKey i ≠ "default" := by
  intro h
  have h' := congrArg String.toList h
  unfold intKey at h'
  cases i with
  | ofNat n =>
    simp only [String.toList_ofList] at h'
    cases hn : natDigits n with
    | nil => exact absurd hn (natDigits_ne_nil n)
    | cons d ds =>
      rw [hn] at h'
      have hd := digitChar_ne_d d (natDigits_lt n d (by simp [hn]))
      simp at h'
      exact hd h'.1
  | negSucc n =>
    simp at h'

theorem intKey_ne_empty (i : Int) : intKey i ≠ "" := by
  intro h
  have h' := congrArg String.toList h
  unfold intKey at h'
  cases i with
  | ofNat n =>
    simp only [String.toList_ofList] at h'
    have := natDigits_ne_nil n
    simp_all
  | negSucc n => simp at h'



theorem adds_proj (k : String) : ∀ (ops : List Op), adds (proj winRoute k ops) = (adds ops).filter (fun e => e.partKey = k) := by
  intro ops
  induction ops with
  | nil => simp [proj, adds]
  | cons o os ih =>
    rw [proj_eq] at ih ⊢
    cases o with
    | add e =>
      by_cases h : e.partKey = k
      · simp [concerns, winRoute, h, adds, ih]
      · simp [concerns, winRoute, h, adds, ih]
    | watermark t => simp [List.filter_cons, concerns, winRoute, adds, ih]
    | flush => simp [List.filter_cons, concerns, winRoute, adds, ih]
    | expire t => simp [List.filter_cons, concerns, winRoute, adds, ih]

theorem inOrder_proj (k : String) {ops : List Op} (h : InOrder ops) : InOrder (proj winRoute k ops) := by
  unfold InOrder at *
  exact h.sublist (List.Sublist.filterMap _ List.filter_sublist)

/-- generic containment: if every step only hands out / keeps events of the old buffer or the added event,
every emitted window consists of buffered or added events -/
theorem emits_subset {σ : Type} (m : Machine σ Op (List Ev)) (buf : σ → List Ev)
    (hstep : ∀ s o, (∀ w ∈ (m.step s o).2, ∀ e ∈ w, e ∈ buf s ++ adds [o]) ∧ (∀ e ∈ buf (m.step s o).1, e ∈ buf s ++ adds [o])) :
    ∀ ops s, ∀ w ∈ m.emits s ops, ∀ e ∈ w, e ∈ buf s ++ adds ops := by
  intro ops
  induction ops with
  | nil => intro s w hw; simp [Machine.emits] at hw
  | cons o os ih =>
    intro s w hw e he
    rw [adds_cons, ← List.append_assoc]
    simp only [Machine.emits, List.mem_append] at hw
    rcases hw with hw | hw
    · exact List.mem_append_left _ ((hstep s o).1 w hw e he)
    · have := ih _ w hw e he
      rcases List.mem_append.mp this with h | h
      · exact List.mem_append_left _ ((hstep s o).2 e h)
      · exact List.mem_append_right _ h

theorem tumbling_subset (d : Int) : ∀ s o, (∀ w ∈ ((tumbling d).step s o).2, ∀ e ∈ w, e ∈ s.buf ++ adds [o]) ∧
    (∀ e ∈ ((tumbling d).step s o).1.buf, e ∈ s.buf ++ adds [o]) := by
  intro s o
  cases o <;> simp only [tumbling, Tumbling.step, adds]
  · split <;> simp_all
  · split
    · split <;> simp_all
    · simp_all
  · exact ⟨fun w hw e he => by rw [mem_flushed hw] at he; simpa using he, by simp⟩
  · simp_all

theorem count_subset (n : Nat) : ∀ s o, (∀ w ∈ ((count n).step s o).2, ∀ e ∈ w, e ∈ s.buf ++ adds [o]) ∧
    (∀ e ∈ ((count n).step s o).1.buf, e ∈ s.buf ++ adds [o]) := by
  intro s o
  cases o <;> simp only [count, Count.step, adds]
  · split <;> simp_all
  · simp_all
  · exact ⟨fun w hw e he => by rw [mem_flushed hw] at he; simpa using he, by simp⟩
  · simp_all

theorem session_subset (g : Int) : ∀ s o, (∀ w ∈ ((session g).step s o).2, ∀ e ∈ w, e ∈ s.buf ++ adds [o]) ∧
    (∀ e ∈ ((session g).step s o).1.buf, e ∈ s.buf ++ adds [o]) := by
  intro s o
  cases o <;> simp only [session, Session.step, adds]
  · split
    · split <;> simp_all
    · simp_all
  · split
    · split <;> simp_all
    · simp_all
  · exact ⟨fun w hw e he => by rw [mem_flushed hw] at he; simpa using he, by simp⟩
  · split
    · split <;> simp_all
    · simp_all

theorem mem_expireBefore {c : Int} {l : List Ev} {e : Ev} (h : e ∈ expireBefore c l) : e ∈ l :=
  (List.dropWhile_sublist _).subset h

theorem sliding_subset (size slide : Int) : ∀ s o, (∀ w ∈ ((sliding size slide).step s o).2, ∀ e ∈ w, e ∈ s.evs ++ adds [o]) ∧
    (∀ e ∈ ((sliding size slide).step s o).1.evs, e ∈ s.evs ++ adds [o]) := by
  intro s o
  cases o <;> simp only [sliding, Sliding.step, adds]
  · split
    · exact ⟨fun w hw e he => by simp at hw; subst hw; exact mem_expireBefore he, fun e he => mem_expireBefore he⟩
    · exact ⟨by simp, fun e he => mem_expireBefore he⟩
  · split
    · exact ⟨fun w hw e he => by simp at hw; subst hw; simpa using mem_expireBefore he, fun e he => by simpa using mem_expireBefore he⟩
    · exact ⟨by simp, fun e he => by simpa using mem_expireBefore he⟩
  · simp
  · simp

theorem slidingCount_subset (size slide : Nat) : ∀ s o, (∀ w ∈ ((slidingCount size slide).step s o).2, ∀ e ∈ w, e ∈ s.evs ++ adds [o]) ∧
    (∀ e ∈ ((slidingCount size slide).step s o).1.evs, e ∈ s.evs ++ adds [o]) := by
  intro s o
  cases o <;> simp only [slidingCount, SlidingCount.step, adds]
  · split
    · exact ⟨fun w hw e he => by simp at hw; subst hw; exact (List.drop_sublist _ _).subset he, fun e he => (List.drop_sublist _ _).subset he⟩
    · exact ⟨by simp, fun e he => (List.drop_sublist _ _).subset he⟩
  all_goals simp

theorem session_run_inv {g : Int} (o : Op) : ∀ (pre : List Op) (now : Int) (s : Session),
    SInv g now s → InOrderFrom now (pre ++ [o]) →
    ∃ now', SInv g now' ((session g).final s pre) ∧ now' ≤ nextNow now' o := by
  intro pre
  induction pre with
  | nil => intro now s h hord; exact ⟨now, by simpa [Machine.final] using h, (inOrderFrom_cons hord).1⟩
  | cons p pre ih =>
    intro now s h hord
    obtain ⟨hle, hrest⟩ := inOrderFrom_cons hord
    exact ih _ _ (session_step_inv h p hle).1 hrest

/-- in-order: an arriving event closes the session only when its gap to the session's last event exceeds `g` -/
theorem session_close_gap {g : Int} (pre : List Op) (e : Ev) (h : InOrder (pre ++ [.add e])) :
    ∀ w ∈ ((session g).step ((session g).final (session g).init pre) (.add e)).2,
      ∃ x, w.getLast? = some x ∧ e.ts - x.ts > g := by
  obtain ⟨now, hfrom⟩ := inOrder_exists_from h
  have h0 : SInv g now (session g).init := ⟨by simp [session], by simp [session], by simp [session, sessionOk_nil]⟩
  obtain ⟨now', hinv, _⟩ := session_run_inv (.add e) pre now _ h0 hfrom
  intro w hw
  simp only [session, Session.step] at hw hinv
  split at hw
  · rename_i l hl
    obtain ⟨_, x, hx, hxl⟩ := hinv.last_eq l hl
    split at hw
    · simp at hw; subst hw; exact ⟨x, hx, by omega⟩
    · simp at hw
  · simp at hw


/-- C04, generic, from the empty map -/
theorem partition_from_init {κ σ ι β : Type} [DecidableEq κ] (m : Machine σ ι β) (route : ι → Option κ) (drop : ι → List β → Bool)
    (hidle : ∀ b, route b = none → m.step m.init b = (m.init, []))
    (hdrop : ∀ s b, route b = none → drop b (m.step s b).2 = true → (m.step s b).1 = m.init)
    (ops : List ι) (k : κ) :
    ((partitioned m route drop).final (partitioned m route drop).init ops).sub k = m.final m.init (proj route k ops) ∧
    forKey k ((partitioned m route drop).emits (partitioned m route drop).init ops) = m.emits m.init (proj route k ops) := by
  have := partition_run m route drop hidle hdrop k ops (partitioned m route drop).init (pwf_init m route drop)
  simpa [partitioned] using this

theorem ptumbling_key (d : Int) (ops : List Op) (k : String) :
    ((ptumbling d).final (ptumbling d).init ops).sub k = (tumbling d).final (tumbling d).init (proj winRoute k ops) ∧
    forKey k ((ptumbling d).emits (ptumbling d).init ops) = (tumbling d).emits (tumbling d).init (proj winRoute k ops) :=
  partition_from_init (tumbling d) winRoute never (tumbling_idle d) (never_drop _) ops k
theorem psliding_key (size slide : Int) (ops : List Op) (k : String) :
    ((psliding size slide).final (psliding size slide).init ops).sub k = (sliding size slide).final (sliding size slide).init (proj winRoute k ops) ∧
    forKey k ((psliding size slide).emits (psliding size slide).init ops) = (sliding size slide).emits (sliding size slide).init (proj winRoute k ops) :=
  partition_from_init (sliding size slide) winRoute never (sliding_idle size slide) (never_drop _) ops k
theorem psession_key (g : Int) (ops : List Op) (k : String) :
    ((psession g).final (psession g).init ops).sub k = (session g).final (session g).init (proj winRoute k ops) ∧
    forKey k ((psession g).emits (psession g).init ops) = (session g).emits (session g).init (proj winRoute k ops) :=
  partition_from_init (session g) winRoute dropClosed (session_idle g) (session_drop g) ops k
theorem pcount_key (n : Nat) (ops : List Op) (k : String) :
    ((pcount n).final (pcount n).init ops).sub k = (count n).final (count n).init (proj winRoute k ops) ∧
    forKey k ((pcount n).emits (pcount n).init ops) = (count n).emits (count n).init (proj winRoute k ops) :=
  partition_from_init (count n) winRoute never (count_idle n) (never_drop _) ops k
theorem pslidingCount_key (size slide : Nat) (ops : List Op) (k : String) :
    ((pslidingCount size slide).final (pslidingCount size slide).init ops).sub k = (slidingCount size slide).final (slidingCount size slide).init (proj winRoute k ops) ∧
    forKey k ((pslidingCount size slide).emits (pslidingCount size slide).init ops) = (slidingCount size slide).emits (slidingCount size slide).init (proj winRoute k ops) :=
  partition_from_init (slidingCount size slide) winRoute never (slidingCount_idle size slide) (never_drop _) ops k


/-! ### a partitioned window followed by a partitioned aggregate (engine glue) -/



theorem keysOf_append_same {α κ : Type} [DecidableEq κ] (f : α → κ) (k : κ) (rb : List α) (hk : k ∉ keysOf f rb) :
    ∀ (w : List α), (∀ e ∈ w, f e = k) → keysOf f (w ++ rb) = (if w = [] then [] else [k]) ++ keysOf f rb := by
  intro w
  induction w with
  | nil => intro _; simp
  | cons e w ih =>
    intro hw
    have he : f e = k := hw e (by simp)
    have ih' := ih (fun x hx => hw x (by simp [hx]))
    simp only [List.cons_append, keysOf, he, ih']
    have hfilt : (keysOf f rb).filter (fun x => decide (x ≠ k)) = keysOf f rb := by
      rw [List.filter_eq_self]; intro a ha; simp; intro h; subst h; exact hk ha
    by_cases hwn : w = []
    · simp only [hwn, if_true, List.nil_append, if_neg (List.cons_ne_nil e []), hfilt, List.singleton_append]
    · simp only [hwn, if_false, if_neg (List.cons_ne_nil e w), List.singleton_append, List.filter_cons]
      simp
      intro a ha h; subst h; exact hk ha

theorem filter_flatMap_key (k : String) : ∀ (out : List (String × List Ev)),
    (out.map (·.1)).Nodup → (∀ p ∈ out, ∀ e ∈ p.2, e.partKey = p.1) →
    (out.flatMap (·.2)).filter (fun e => e.partKey = k) = (out.filter (fun p => p.1 = k)).flatMap (·.2) := by
  intro out
  induction out with
  | nil => simp
  | cons p out ih =>
    intro hnd hown
    simp only [List.map_cons, List.nodup_cons] at hnd
    have ih' := ih hnd.2 (fun q hq => hown q (by simp [hq]))
    simp only [List.flatMap_cons, List.filter_append, ih']
    by_cases hp : p.1 = k
    · have : p.2.filter (fun e => decide (e.partKey = k)) = p.2 := by
        rw [List.filter_eq_self]; intro e he; simp [hown p (by simp) e he, hp]
      simp [hp, this]
    · have : p.2.filter (fun e => decide (e.partKey = k)) = [] := by
        rw [List.filter_eq_nil_iff]; intro e he; simp [hown p (by simp) e he, hp]
      simp [hp, this]

/-- if the windows of one step belong to distinct keys and each holds only events of its key, regrouping the
flattened batch by key gives back exactly the non-empty windows: one aggregate per emitted window -/
theorem aggregateStage_eq {ρ : Type} (agg : List Ev → ρ) : ∀ (out : List (String × List Ev)),
    (out.map (·.1)).Nodup → (∀ p ∈ out, ∀ e ∈ p.2, e.partKey = p.1) →
    aggregateStage agg out = (out.filter (fun p => p.2 ≠ [])).map (fun p => (p.1, agg p.2)) := by
  intro out hnd hown
  unfold aggregateStage papply
  have hkeys : ∀ (o : List (String × List Ev)), (o.map (·.1)).Nodup → (∀ p ∈ o, ∀ e ∈ p.2, e.partKey = p.1) →
      keysOf Ev.partKey (o.flatMap (·.2)) = (o.filter (fun p => p.2 ≠ [])).map (·.1) := by
    intro o
    induction o with
    | nil => intro _ _; simp [keysOf]
    | cons p o ih =>
      intro hnd hown
      simp only [List.map_cons, List.nodup_cons] at hnd
      have ih' := ih hnd.2 (fun q hq => hown q (by simp [hq]))
      have hk : p.1 ∉ keysOf Ev.partKey (o.flatMap (·.2)) := by
        rw [ih']; intro h
        obtain ⟨q, hq, hqe⟩ := List.mem_map.mp h
        exact hnd.1 (List.mem_map.mpr ⟨q, (List.mem_filter.mp hq).1, hqe⟩)
      rw [List.flatMap_cons, keysOf_append_same Ev.partKey p.1 _ hk p.2 (hown p (by simp)), ih']
      by_cases hp : p.2 = []
      · simp [hp]
      · simp [hp]
  rw [hkeys out hnd hown, List.map_map]
  apply List.map_congr_left
  intro p hp
  have hpm := (List.mem_filter.mp hp).1
  simp only [Function.comp]
  congr 2
  rw [filter_flatMap_key p.1 out hnd hown]
  -- only `p` itself has key `p.1`
  have : out.filter (fun q => decide (q.1 = p.1)) = [p] := by
    clear hkeys hp
    induction out with
    | nil => simp at hpm
    | cons q out ih =>
      simp only [List.map_cons, List.nodup_cons] at hnd
      rcases List.mem_cons.mp hpm with h | h
      · subst h
        have : out.filter (fun q => decide (q.1 = p.1)) = [] := by
          rw [List.filter_eq_nil_iff]; intro q hq; simp; intro h; exact hnd.1 (List.mem_map.mpr ⟨q, hq, h⟩)
        simp [this]
      · have hne : q.1 ≠ p.1 := by intro h'; exact hnd.1 (List.mem_map.mpr ⟨p, h, h'.symm⟩)
        simp only [List.filter_cons, hne, decide_false, Bool.false_eq_true, ↓reduceIte]
        exact ih hnd.2 (fun r hr => hown r (by simp [hr])) h
  rw [this]; simp
/-- the sub-state of every key buffers only events of that key -/
def OwnKeys {σ : Type} (bufOf : σ → List Ev) (ps : PState String σ) : Prop :=
  ∀ k, ∀ e ∈ bufOf (ps.sub k), e.partKey = k

theorem nodup_flatMap_tag {β : Type} (g : String → List β) (hone : ∀ k, (g k).length ≤ 1) :
    ∀ (dom : List String), dom.Nodup → ((dom.flatMap (fun k => (g k).map (fun b => (k, b)))).map (·.1)).Nodup := by
  intro dom
  induction dom with
  | nil => simp
  | cons a dom ih =>
    intro hnd
    rw [List.nodup_cons] at hnd
    rw [List.flatMap_cons, List.map_append, List.nodup_append]
    refine ⟨?_, ih hnd.2, ?_⟩
    · have := hone a
      match hg : g a with
      | [] => simp
      | [b] => simp
      | _ :: _ :: _ => rw [hg] at this; simp at this
    · intro x hx y hy
      simp only [List.map_map, List.mem_map, Function.comp] at hx
      obtain ⟨b, _, rfl⟩ := hx
      simp only [List.mem_map, List.mem_flatMap] at hy
      obtain ⟨p, ⟨k, hk, hp⟩, rfl⟩ := hy
      obtain ⟨b', _, rfl⟩ := hp
      simp only
      intro h; subst h; exact hnd.1 hk

theorem pstep_out_ok {σ : Type} (m : Machine σ Op (List Ev)) (bufOf : σ → List Ev)
    (hsub : ∀ s o, (∀ w ∈ (m.step s o).2, ∀ e ∈ w, e ∈ bufOf s ++ adds [o]) ∧ (∀ e ∈ bufOf (m.step s o).1, e ∈ bufOf s ++ adds [o]))
    (hone : ∀ s o, (m.step s o).2.length ≤ 1) (drop : Op → List (List Ev) → Bool)
    (ps : PState String σ) (hnd : ps.dom.Nodup) (hinv : OwnKeys bufOf ps) (op : Op) :
    (((pstep m winRoute drop ps op).2).map (·.1)).Nodup ∧
    (∀ p ∈ (pstep m winRoute drop ps op).2, ∀ e ∈ p.2, e.partKey = p.1) ∧
    OwnKeys bufOf (pstep m winRoute drop ps op).1 := by
  unfold pstep
  cases hr : winRoute op with
  | some k =>
    have hop : ∃ e, op = .add e ∧ e.partKey = k := by
      cases op <;> simp_all [winRoute]
    obtain ⟨e, rfl, hek⟩ := hop
    simp only
    have hs := hsub (ps.sub k) (.add e)
    have hmem : ∀ x, x ∈ bufOf (ps.sub k) ++ adds [Op.add e] → x.partKey = k := by
      intro x hx
      rcases List.mem_append.mp hx with h | h
      · exact hinv k x h
      · simp [adds] at h; subst h; exact hek
    refine ⟨?_, ?_, ?_⟩
    · have := hone (ps.sub k) (.add e)
      match hg : (m.step (ps.sub k) (.add e)).2 with
      | [] => simp
      | [b] => simp
      | _ :: _ :: _ => rw [hg] at this; simp at this
    · intro p hp x hx
      obtain ⟨w, hw, rfl⟩ := List.mem_map.mp hp
      exact hmem x (hs.1 w hw x hx)
    · intro k' x hx
      simp only [PState.set] at hx
      by_cases hk : k' = k
      · subst hk; simp at hx; exact hmem x (hs.2 x hx)
      · simp [hk] at hx; exact hinv k' x hx
  | none =>
    have hadds : adds [op] = [] := by cases op <;> simp_all [winRoute, adds]
    simp only
    refine ⟨nodup_flatMap_tag (fun k => (m.step (ps.sub k) op).2) (fun k => hone _ _) ps.dom hnd, ?_, ?_⟩
    · intro p hp x hx
      obtain ⟨k, _, hp⟩ := List.mem_flatMap.mp hp
      obtain ⟨w, hw, rfl⟩ := List.mem_map.mp hp
      have := (hsub (ps.sub k) op).1 w hw x hx
      rw [hadds, List.append_nil] at this
      exact hinv k x this
    · intro k x hx
      simp only at hx
      split at hx
      · have := (hsub (ps.sub k) op).2 x hx
        rw [hadds, List.append_nil] at this
        exact hinv k x this
      · exact hinv k x hx

/-- states reachable from the empty map keep distinct keys and own-key buffers; so every step's emissions
regroup exactly: the partitioned aggregate behind a partitioned window yields one result per emitted
non-empty window, computed from that window alone -/
theorem partitioned_window_then_aggregate {σ ρ : Type} (m : Machine σ Op (List Ev)) (bufOf : σ → List Ev)
    (hsub : ∀ s o, (∀ w ∈ (m.step s o).2, ∀ e ∈ w, e ∈ bufOf s ++ adds [o]) ∧ (∀ e ∈ bufOf (m.step s o).1, e ∈ bufOf s ++ adds [o]))
    (hone : ∀ s o, (m.step s o).2.length ≤ 1) (hinit : bufOf m.init = []) (drop : Op → List (List Ev) → Bool)
    (agg : List Ev → ρ) (pre : List Op) (op : Op) :
    let out := ((partitioned m winRoute drop).step ((partitioned m winRoute drop).final (partitioned m winRoute drop).init pre) op).2
    aggregateStage agg out = (out.filter (fun p => p.2 ≠ [])).map (fun p => (p.1, agg p.2)) := by
  have reach : ∀ (ops : List Op) (ps : PState String σ), ps.dom.Nodup → OwnKeys bufOf ps →
      ((partitioned m winRoute drop).final ps ops).dom.Nodup ∧ OwnKeys bufOf ((partitioned m winRoute drop).final ps ops) := by
    intro ops
    induction ops with
    | nil => intro ps h1 h2; exact ⟨h1, h2⟩
    | cons o os ih =>
      intro ps h1 h2
      simp only [Machine.final]
      have hs := pstep_out_ok m bufOf hsub hone drop ps h1 h2 o
      refine ih _ ?_ hs.2.2
      -- dom stays duplicate-free
      simp only [partitioned]
      unfold pstep
      cases winRoute o with
      | some k =>
        simp only [PState.set]
        split
        · exact h1
        · rename_i hn
          rw [List.nodup_append]
          exact ⟨h1, by simp, by intro a ha b hb; simp at hb; subst hb; intro h; subst h; exact hn ha⟩
      | none => exact h1.filter _
  intro out
  have h0 := reach pre (partitioned m winRoute drop).init (by simp [partitioned]) (by intro k e he; simp [partitioned, hinit] at he)
  have hs := pstep_out_ok m bufOf hsub hone drop _ h0.1 h0.2 op
  exact aggregateStage_eq agg out hs.1 hs.2.1

theorem tumbling_one (d : Int) : ∀ s o, ((tumbling d).step s o).2.length ≤ 1 := by
  intro s o; cases o <;> simp only [tumbling, Tumbling.step, flushed] <;> (repeat' split) <;> simp
theorem count_one (n : Nat) : ∀ s o, ((count n).step s o).2.length ≤ 1 := by
  intro s o; cases o <;> simp only [count, Count.step, flushed] <;> (repeat' split) <;> simp
theorem session_one (g : Int) : ∀ s o, ((session g).step s o).2.length ≤ 1 := by
  intro s o; cases o <;> simp only [session, Session.step, flushed] <;> (repeat' split) <;> simp
theorem sliding_one (a b : Int) : ∀ s o, ((sliding a b).step s o).2.length ≤ 1 := by
  intro s o; cases o <;> simp only [sliding, Sliding.step] <;> (repeat' split) <;> simp
theorem slidingCount_one (a b : Nat) : ∀ s o, ((slidingCount a b).step s o).2.length ≤ 1 := by
  intro s o; cases o <;> simp only [slidingCount, SlidingCount.step] <;> (repeat' split) <;> simp

end Varpulis.Window
