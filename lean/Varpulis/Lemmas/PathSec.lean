import Varpulis.Model.PathSec
/-! Lemmas about `resolve` (M-PATH): the result is a chain of real directories ending in a real
directory or file (no symlink left), consists of proper names, and is a fixed point. -/
namespace Varpulis.PathSec

/-- every prefix of `p` (including `p`) is a real directory: no symlink anywhere on the way -/
def RealDir (fs : FS) (p : List String) : Prop := ∀ q, q <+: p → look fs q = some .dir

/-- `c` names a real node: its parent chain consists of real directories and `c` itself is a
directory or a regular file — never a symlink -/
def Real (fs : FS) (c : List String) : Prop :=
  RealDir fs c.dropLast ∧ (look fs c = some .dir ∨ look fs c = some .file)

/-- a proper file name -/
def ValidName (n : String) : Prop := n ≠ "" ∧ n ≠ "." ∧ n ≠ ".."

theorem realDir_nil (fs : FS) : RealDir fs [] := by
  intro q hq
  have : q = [] := List.prefix_nil.mp hq
  subst this; simp [look]

theorem realDir_dropLast {fs : FS} {p : List String} (h : RealDir fs p) : RealDir fs p.dropLast :=
  fun q hq => h q (hq.trans (List.dropLast_prefix p))

theorem realDir_concat {fs : FS} {p : List String} {c : String} (h : RealDir fs p)
    (hc : look fs (p ++ [c]) = some .dir) : RealDir fs (p ++ [c]) := by
  intro q hq
  rcases List.prefix_concat_iff.mp hq with rfl | hq
  · exact hc
  · exact h q hq

theorem real_of_realDir {fs : FS} {p : List String} (h : RealDir fs p) : Real fs p :=
  ⟨realDir_dropLast h, Or.inl (h p (List.prefix_refl p))⟩

/-- main invariant of the walk -/
theorem resolve_real (fs : FS) (fuel : Nat) (cur rest : List String) :
    ∀ c, RealDir fs cur → resolve fs fuel cur rest = some c → Real fs c := by
  fun_induction resolve fs fuel cur rest <;> intro r hcur h
  · simp at h; subst h; exact real_of_realDir hcur
  · rename_i ih; exact ih r hcur h
  · rename_i ih; exact ih r (realDir_dropLast hcur) h
  · simp at h
  · simp at h
    subst h
    rename_i cur c _ _ _ hl
    exact ⟨by simpa using hcur, Or.inr hl⟩
  · simp at h
  · rename_i hl ih
    exact ih r (realDir_concat hcur hl) h
  · simp at h
  · rename_i ih
    refine ih r ?_ h
    split
    · exact realDir_nil fs
    · exact hcur

theorem resolve_names (fs : FS) (fuel : Nat) (cur rest : List String) :
    ∀ c, (∀ n ∈ cur, ValidName n) → resolve fs fuel cur rest = some c → ∀ n ∈ c, ValidName n := by
  fun_induction resolve fs fuel cur rest <;> intro r hcur h
  · simp at h; subst h; exact hcur
  · rename_i ih; exact ih r hcur h
  · rename_i ih
    exact ih r (fun n hn => hcur n ((List.dropLast_prefix _).subset hn)) h
  · simp at h
  · simp at h
    subst h
    rename_i cur c _ h1 h2 _
    intro n hn
    rcases List.mem_append.mp hn with hn | hn
    · exact hcur n hn
    · simp at hn; subst hn
      exact ⟨fun e => h1 (Or.inl e), fun e => h1 (Or.inr e), h2⟩
  · simp at h
  · rename_i cur c _ h1 h2 _ ih
    refine ih r ?_ h
    intro n hn
    rcases List.mem_append.mp hn with hn | hn
    · exact hcur n hn
    · simp at hn; subst hn
      exact ⟨fun e => h1 (Or.inl e), fun e => h1 (Or.inr e), h2⟩
  · simp at h
  · rename_i ih
    refine ih r ?_ h
    split
    · intro n hn; cases hn
    · exact hcur

/-- walking a chain of real nodes with proper names changes nothing (any fuel: no link is met) -/
theorem resolve_fix (fs : FS) (fuel : Nat) : ∀ (r cur : List String), RealDir fs cur →
    (∀ n ∈ r, ValidName n) → Real fs (cur ++ r) → resolve fs fuel cur r = some (cur ++ r) := by
  intro r
  induction r with
  | nil => intro cur _ _ _; simp [resolve]
  | cons c rest ih =>
    intro cur hcur hn hreal
    have hc : ValidName c := hn c (List.mem_cons_self)
    have e : cur ++ c :: rest = (cur ++ [c]) ++ rest := by simp
    rw [resolve]
    simp only [hc.1, hc.2.1, hc.2.2, or_self, if_false]
    by_cases hr : rest = []
    · subst hr
      rcases hreal.2 with hd | hf
      · simp [hd, resolve]
      · simp [hf]
    · have hpre : cur ++ [c] <+: (cur ++ c :: rest).dropLast := by
        rw [e, List.dropLast_append_of_ne_nil hr]
        exact List.prefix_append _ _
      have hd : look fs (cur ++ [c]) = some .dir := hreal.1 _ hpre
      simp only [hd]
      rw [e]
      exact ih (cur ++ [c]) (realDir_concat hcur hd) (fun n h => hn n (List.mem_cons_of_mem _ h))
        (by rw [← e]; exact hreal)

/-! ### Worlds used by the statements of Props/C31 -/

/-- well-formed world: the current directory is a chain of real directories with proper names
(relevant only when the configured work directory is a relative path) -/
def WF (w : World) : Prop := RealDir w.fs w.cwd ∧ ∀ n ∈ w.cwd, ValidName n

/-- `/wd/l -> /etc` -/
def wEscape : World :=
  { fs := [(["wd"], .dir), (["wd", "l"], .link "/etc"), (["etc"], .dir), (["etc", "passwd"], .file)] }

/-- a sibling directory whose name extends the work directory's name -/
def wSibling : World :=
  { fs := [(["wd"], .dir), (["wd-evil"], .dir), (["wd-evil", "x"], .file)] }

/-- a world whose work directory `/work` is a symlink to `srv/data`, with a relative symlink inside -/
def wOk : World :=
  { fs := [(["srv"], .dir), (["srv", "data"], .dir), (["srv", "data", "a"], .dir),
           (["srv", "data", "a", "f.vpl"], .file), (["srv", "data", "cur"], .link "a/../a"),
           (["work"], .link "srv/data")] }


end Varpulis.PathSec
