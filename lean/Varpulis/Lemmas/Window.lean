import Varpulis.Model.Partition
/-! Lemmas for C12 / C13 (windows): conservation, in-order invariants, sliding content and timing. -/
namespace Varpulis.Window


@[simp] theorem flushed_flatten (b : List Ev) : (flushed b).flatten = b := by
  unfold flushed; split <;> simp_all

theorem mem_flushed {w b : List Ev} (h : w ∈ flushed b) : w = b := by
  unfold flushed at h; split at h <;> simp_all

theorem adds_cons (o : Op) (os : List Op) : adds (o :: os) = adds [o] ++ adds os := by
  cases o <;> simp [adds]

/-- generic conservation: if every step conserves `emitted ++ buffer`, so does every run -/
theorem conserve (m : Machine σ Op (List Ev)) (buf : σ → List Ev)
    (hstep : ∀ s o, (m.step s o).2.flatten ++ buf (m.step s o).1 = buf s ++ adds [o]) :
    ∀ ops s, (m.emits s ops).flatten ++ buf (m.final s ops) = buf s ++ adds ops := by
  intro ops
  induction ops with
  | nil => intro s; simp [Machine.emits, Machine.final, adds]
  | cons o os ih =>
    intro s
    rw [adds_cons]
    simp only [Machine.emits, Machine.final, List.flatten_append, List.append_assoc]
    rw [ih, ← List.append_assoc, hstep, List.append_assoc]

theorem tumbling_step_conserve (d : Int) (s : Tumbling) (o : Op) :
    ((tumbling d).step s o).2.flatten ++ ((tumbling d).step s o).1.buf = s.buf ++ adds [o] := by
  cases o <;> simp only [tumbling, Tumbling.step, adds]
  · split <;> simp
  · split
    · split <;> simp
    · simp
  · simp
  · simp

theorem count_step_conserve (n : Nat) (s : Count) (o : Op) :
    ((count n).step s o).2.flatten ++ ((count n).step s o).1.buf = s.buf ++ adds [o] := by
  cases o <;> simp only [count, Count.step, adds]
  · split <;> simp
  all_goals simp

theorem session_step_conserve (g : Int) (s : Session) (o : Op) :
    ((session g).step s o).2.flatten ++ ((session g).step s o).1.buf = s.buf ++ adds [o] := by
  cases o <;> simp only [session, Session.step, adds]
  · split
    · split <;> simp
    · simp
  · split
    · split <;> simp
    · simp
  · simp
  · split
    · split <;> simp
    · simp

def nextNow (now : Int) (o : Op) : Int := (o.time).getD now
theorem inOrderFrom_cons {now : Int} {o : Op} {os : List Op} (h : InOrderFrom now (o :: os)) :
    now ≤ nextNow now o ∧ InOrderFrom (nextNow now o) os := by
  unfold InOrderFrom at *
  cases ht : o.time with
  | none =>
    simp only [List.filterMap_cons, ht] at h
    simpa [nextNow, ht] using h
  | some t =>
    simp only [List.filterMap_cons, ht, List.pairwise_cons] at h
    simp only [nextNow, ht, Option.getD_some, List.pairwise_cons]
    exact ⟨h.1 t (by simp), h.2.1, h.2.2⟩
theorem inOrder_exists_from {ops : List Op} (h : InOrder ops) : ∃ now, InOrderFrom now ops := by
  unfold InOrder at h; unfold InOrderFrom
  cases hl : ops.filterMap Op.time with
  | nil => exact ⟨0, by simp⟩
  | cons t rest =>
    rw [hl] at h
    refine ⟨t, ?_⟩
    rw [List.pairwise_cons] at h ⊢
    refine ⟨?_, List.pairwise_cons.mpr h⟩
    intro a ha
    rcases List.mem_cons.mp ha with rfl | ha
    · exact Int.le_refl _
    · exact h.1 a ha

structure TInv (d now : Int) (s : Tumbling) : Prop where
  none_empty : s.start = none → s.buf = []
  start_le : ∀ st, s.start = some st → st ≤ now
  sorted : s.buf.Pairwise (fun a b => a.ts ≤ b.ts)
  le_now : ∀ e ∈ s.buf, e.ts ≤ now
  inwin : ∀ st, s.start = some st → ∀ e ∈ s.buf, st ≤ e.ts ∧ e.ts < st + d

theorem TInv.buf_ok {d now : Int} {s : Tumbling} (h : TInv d now s) : TumblingOk d s.buf := by
  refine ⟨h.sorted, ?_⟩
  intro f hf e he
  cases hs : s.start with
  | none => have := h.none_empty hs; simp_all
  | some st =>
    have hfm : f ∈ s.buf := List.mem_of_mem_head? hf
    have := h.inwin st hs f hfm
    have := h.inwin st hs e he
    omega

theorem tumbling_step_inv {d now : Int} (hd : 0 < d) {s : Tumbling} (h : TInv d now s) (o : Op)
    (hle : now ≤ nextNow now o) :
    TInv d (nextNow now o) ((tumbling d).step s o).1 ∧ ∀ w ∈ ((tumbling d).step s o).2, TumblingOk d w := by
  have hb := h.buf_ok
  obtain ⟨h1, h2, h3, h4, h5⟩ := h
  cases o with
  | add e =>
    simp only [nextNow, Op.time, Option.getD_some] at hle ⊢
    simp only [tumbling, Tumbling.step]
    split
    · refine ⟨⟨by simp, by simp, by simp, by simp, ?_⟩, by simpa using hb⟩
      simp; omega
    · rename_i hlt
      refine ⟨⟨by simp, ?_, ?_, ?_, ?_⟩, by simp⟩
      · cases hs : s.start <;> simp_all <;> omega
      · rw [List.pairwise_append]; simp; grind
      · simp; grind
      · cases hs : s.start with
        | none => have := h1 hs; simp_all
        | some st => simp_all; grind
  | watermark t =>
    simp only [nextNow, Op.time, Option.getD_some] at hle ⊢
    simp only [tumbling, Tumbling.step]
    split
    · split
      · refine ⟨⟨by simp, by simp, by simp, by simp, by simp⟩, by simpa using hb⟩
      · refine ⟨⟨h1, ?_, h3, ?_, h5⟩, by simp⟩
        · intro st hs; have := h2 st hs; omega
        · intro e he; have := h4 e he; omega
    · refine ⟨⟨h1, ?_, h3, ?_, h5⟩, by simp⟩
      · intro st hs; have := h2 st hs; omega
      · intro e he; have := h4 e he; omega
  | flush =>
    simp only [nextNow, Op.time, Option.getD_none]
    simp only [tumbling, Tumbling.step]
    refine ⟨⟨by simp, h2, by simp, by simp, by simp⟩, fun w hw => mem_flushed hw ▸ hb⟩
  | expire t =>
    simp only [nextNow, Op.time, Option.getD_some] at hle ⊢
    simp only [tumbling, Tumbling.step]
    refine ⟨⟨h1, ?_, h3, ?_, h5⟩, by simp⟩
    · intro st hs; have := h2 st hs; omega
    · intro e he; have := h4 e he; omega

theorem tumbling_in_order_from {d : Int} (hd : 0 < d) : ∀ (ops : List Op) (now : Int) (s : Tumbling),
    TInv d now s → InOrderFrom now ops →
    ∀ w ∈ (tumbling d).emits s ops ++ [((tumbling d).final s ops).buf], TumblingOk d w := by
  intro ops
  induction ops with
  | nil => intro now s h _ w hw; simp [Machine.emits, Machine.final] at hw; subst hw; exact h.buf_ok
  | cons o os ih =>
    intro now s h hord w hw
    obtain ⟨hle, hrest⟩ := inOrderFrom_cons hord
    obtain ⟨hinv, hout⟩ := tumbling_step_inv hd h o hle
    simp only [Machine.emits, Machine.final, List.append_assoc, List.mem_append] at hw
    rcases hw with hw | hw
    · exact hout w hw
    · exact ih _ _ hinv hrest w (by simpa using hw)
theorem adjacent_append_singleton (l : List α) (e : α) :
    adjacent (l ++ [e]) = adjacent l ++ (match l.getLast? with | some x => [(x, e)] | none => []) := by
  induction l with
  | nil => simp [adjacent]
  | cons a l ih =>
    cases l with
    | nil => simp [adjacent]
    | cons b l =>
      simp only [List.cons_append, adjacent] at ih ⊢
      rw [ih]
      simp [List.getLast?_cons_cons]

structure SInv (g now : Int) (s : Session) : Prop where
  none_empty : s.last = none → s.buf = []
  last_eq : ∀ l, s.last = some l → l ≤ now ∧ ∃ x, s.buf.getLast? = some x ∧ x.ts = l
  ok : SessionOk g s.buf

theorem sessionOk_nil (g : Int) : SessionOk g [] := by simp [SessionOk, adjacent]
theorem sessionOk_single (g : Int) (e : Ev) : SessionOk g [e] := by simp [SessionOk, adjacent]

theorem session_step_inv {g now : Int} {s : Session} (h : SInv g now s) (o : Op)
    (hle : now ≤ nextNow now o) :
    SInv g (nextNow now o) ((session g).step s o).1 ∧ ∀ w ∈ ((session g).step s o).2, SessionOk g w := by
  obtain ⟨h1, h2, h3⟩ := h
  have hinit : ∀ n, SInv g n ({} : Session) := fun n => ⟨by simp, by simp, sessionOk_nil g⟩
  cases o with
  | add e =>
    simp only [nextNow, Op.time, Option.getD_some] at hle ⊢
    simp only [session, Session.step]
    split
    · rename_i l hl
      obtain ⟨hln, x, hx, hxl⟩ := h2 l hl
      split
      · exact ⟨⟨by simp, by simp, sessionOk_single g e⟩, by simpa using h3⟩
      · refine ⟨⟨by simp, by simp, ?_⟩, by simp⟩
        intro p hp
        rw [adjacent_append_singleton, hx] at hp
        simp only [List.mem_append, List.mem_singleton] at hp
        rcases hp with hp | hp
        · exact h3 p hp
        · subst hp; simp; omega
    · rename_i hl
      have := h1 hl
      refine ⟨⟨by simp, by simp, ?_⟩, by simp⟩
      rw [this]; exact sessionOk_single g e
  | watermark t =>
    simp only [nextNow, Op.time, Option.getD_some] at hle ⊢
    simp only [session, Session.step]
    split
    · split
      · exact ⟨hinit t, by simpa using h3⟩
      · refine ⟨⟨h1, ?_, h3⟩, by simp⟩
        intro l hl; obtain ⟨a, b⟩ := h2 l hl; exact ⟨by omega, b⟩
    · refine ⟨⟨h1, ?_, h3⟩, by simp⟩
      intro l hl; obtain ⟨a, b⟩ := h2 l hl; exact ⟨by omega, b⟩
  | flush =>
    simp only [nextNow, Op.time, Option.getD_none]
    simp only [session, Session.step]
    exact ⟨hinit now, fun w hw => mem_flushed hw ▸ h3⟩
  | expire t =>
    simp only [nextNow, Op.time, Option.getD_some] at hle ⊢
    simp only [session, Session.step]
    split
    · split
      · exact ⟨hinit t, by simpa using h3⟩
      · refine ⟨⟨h1, ?_, h3⟩, by simp⟩
        intro l hl; obtain ⟨a, b⟩ := h2 l hl; exact ⟨by omega, b⟩
    · refine ⟨⟨h1, ?_, h3⟩, by simp⟩
      intro l hl; obtain ⟨a, b⟩ := h2 l hl; exact ⟨by omega, b⟩

theorem session_in_order_from {g : Int} : ∀ (ops : List Op) (now : Int) (s : Session),
    SInv g now s → InOrderFrom now ops →
    ∀ w ∈ (session g).emits s ops ++ [((session g).final s ops).buf], SessionOk g w := by
  intro ops
  induction ops with
  | nil => intro now s h _ w hw; simp [Machine.emits, Machine.final] at hw; subst hw; exact h.ok
  | cons o os ih =>
    intro now s h hord w hw
    obtain ⟨hle, hrest⟩ := inOrderFrom_cons hord
    obtain ⟨hinv, hout⟩ := session_step_inv h o hle
    simp only [Machine.emits, Machine.final, List.append_assoc, List.mem_append] at hw
    rcases hw with hw | hw
    · exact hout w hw
    · exact ih _ _ hinv hrest w (by simpa using hw)

theorem count_trace {n : Nat} (hn : 0 < n) : ∀ (ops : List Op) (s : Count), s.buf.length < n →
    ((count n).final s ops).buf.length < n ∧
    ∀ p ∈ (count n).trace s ops, ∀ w ∈ p.2, (∀ e, p.1 = .add e → w.length = n) ∧ (p.1 = .flush → w.length < n) := by
  intro ops
  induction ops with
  | nil => intro s h; simp [Machine.final, Machine.trace, h]
  | cons o os ih =>
    intro s h
    simp only [Machine.final, Machine.trace, List.mem_cons, forall_eq_or_imp]
    have key : ((count n).step s o).1.buf.length < n ∧
        ∀ w ∈ ((count n).step s o).2, (∀ e, o = .add e → w.length = n) ∧ (o = .flush → w.length < n) := by
      cases o <;> simp only [count, Count.step]
      · split
        · simp at *; omega
        · simp at *; omega
      · simp [h]
      · exact ⟨by simp [hn], fun w hw => by rw [mem_flushed hw]; simp [h]⟩
      · simp [h]
    exact ⟨(ih _ key.1).1, key.2, (ih _ key.1).2⟩
theorem dropWhile_eq_filter_of_sorted (c : Int) : ∀ (l : List Ev), l.Pairwise (fun a b => a.ts ≤ b.ts) →
    expireBefore c l = l.filter (fun e => decide (c ≤ e.ts)) := by
  intro l
  induction l with
  | nil => simp [expireBefore]
  | cons a l ih =>
    intro h
    rw [List.pairwise_cons] at h
    unfold expireBefore at *
    by_cases hc : a.ts < c
    · have : ¬ c ≤ a.ts := by omega
      simp [hc, this, ih h.2]
    · have hca : c ≤ a.ts := by omega
      simp only [List.dropWhile_cons, hc, decide_false, Bool.false_eq_true, ↓reduceIte, List.filter_cons, hca, decide_true]
      congr 1
      symm
      rw [List.filter_eq_self]
      intro b hb
      have := h.1 b hb
      simp; omega

structure SlInv (size now c : Int) (seen : List Ev) (s : Sliding) : Prop where
  evs_eq : s.evs = seen.filter (fun e => decide (c ≤ e.ts))
  c_le : c ≤ now - size
  sorted : seen.Pairwise (fun a b => a.ts ≤ b.ts)
  le_now : ∀ e ∈ seen, e.ts ≤ now

theorem filter_filter_le (c c' : Int) (h : c ≤ c') (l : List Ev) :
    (l.filter (fun e => decide (c ≤ e.ts))).filter (fun e => decide (c' ≤ e.ts)) = l.filter (fun e => decide (c' ≤ e.ts)) := by
  rw [List.filter_filter]
  congr 1
  funext e
  by_cases h' : c' ≤ e.ts
  · have : c ≤ e.ts := by omega
    simp [h', this]
  · simp [h']

theorem expire_eq {size now c : Int} {seen : List Ev} {s : Sliding} (h : SlInv size now c seen s)
    (t : Int) (hle : now ≤ t) (extra : List Ev) (hs : (seen ++ extra).Pairwise (fun a b => a.ts ≤ b.ts)) :
    expireBefore (t - size) (s.evs ++ extra) = inRange size t (seen ++ extra) := by
  have hsub : (s.evs ++ extra).Sublist (seen ++ extra) := by
    rw [h.evs_eq]; exact List.Sublist.append List.filter_sublist (List.Sublist.refl _)
  rw [dropWhile_eq_filter_of_sorted _ _ (hs.sublist hsub), h.evs_eq]
  unfold inRange
  rw [List.filter_append, List.filter_append, filter_filter_le c (t - size) (by have := h.c_le; omega)]

theorem sliding_step_inv {size slide now c : Int} {seen : List Ev} {s : Sliding}
    (h : SlInv size now c seen s) (o : Op) (hle : now ≤ nextNow now o) :
    (∃ c', SlInv size (nextNow now o) c' (seen ++ adds [o]) ((sliding size slide).step s o).1) ∧
    ((sliding size slide).step s o).2 = slidingExpected size slide s.lastEmit seen o ∧
    ((sliding size slide).step s o).1.lastEmit =
      (if ((sliding size slide).step s o).2.isEmpty then s.lastEmit else o.time) := by
  have ⟨h1, h2, h3, h4⟩ := h
  cases o with
  | add e =>
    simp only [nextNow, Op.time, Option.getD_some] at hle ⊢
    have hs' : (seen ++ [e]).Pairwise (fun a b => a.ts ≤ b.ts) := by
      rw [List.pairwise_append]; refine ⟨h3, by simp, ?_⟩
      intro a ha b hb; simp at hb; subst hb; have := h4 a ha; omega
    have hx := expire_eq h e.ts hle [e] hs'
    have hinv : SlInv size e.ts (e.ts - size) (seen ++ [e]) { evs := inRange size e.ts (seen ++ [e]), lastEmit := none } := by
      refine ⟨by simp [inRange], by omega, hs', ?_⟩
      intro a ha; simp at ha; rcases ha with ha | ha
      · have := h4 a ha; omega
      · subst ha; omega
    simp only [sliding, Sliding.step, slidingExpected, adds, hx]
    split
    · exact ⟨⟨_, ⟨hinv.1, hinv.2, hinv.3, hinv.4⟩⟩, rfl, by simp⟩
    · exact ⟨⟨_, ⟨hinv.1, hinv.2, hinv.3, hinv.4⟩⟩, rfl, by simp⟩
  | watermark t =>
    simp only [nextNow, Op.time, Option.getD_some] at hle ⊢
    have hx := expire_eq h t hle [] (by simpa using h3)
    simp only [List.append_nil] at hx
    have hinv : SlInv size t (t - size) seen { evs := inRange size t seen, lastEmit := none } := by
      refine ⟨by simp [inRange], by omega, h3, ?_⟩
      intro a ha; have := h4 a ha; omega
    simp only [sliding, Sliding.step, slidingExpected, adds, hx, List.append_nil]
    split
    · exact ⟨⟨_, ⟨hinv.1, hinv.2, hinv.3, hinv.4⟩⟩, rfl, by simp⟩
    · exact ⟨⟨_, ⟨hinv.1, hinv.2, hinv.3, hinv.4⟩⟩, rfl, by simp⟩
  | flush =>
    simp only [nextNow, Op.time, Option.getD_none, sliding, Sliding.step, slidingExpected, adds, List.append_nil]
    exact ⟨⟨c, h⟩, trivial, by simp⟩
  | expire t =>
    simp only [nextNow, Op.time, Option.getD_some] at hle ⊢
    simp only [sliding, Sliding.step, slidingExpected, adds, List.append_nil]
    refine ⟨⟨c, ⟨h1, by omega, h3, ?_⟩⟩, trivial, by simp⟩
    intro a ha; have := h4 a ha; omega

/-- in-order run from a state satisfying the invariant: the state after `pre` still satisfies it,
`last_emit` is the time of the latest emission of the trace, and the next operation is not earlier -/
theorem sliding_run_inv {size slide : Int} (o : Op) : ∀ (pre : List Op) (now c : Int) (seen : List Ev) (s : Sliding),
    SlInv size now c seen s → InOrderFrom now (pre ++ [o]) →
    ∃ now' c', SlInv size now' c' (seen ++ adds pre) ((sliding size slide).final s pre) ∧ now' ≤ nextNow now' o ∧
      ((sliding size slide).final s pre).lastEmit = lastEmission s.lastEmit ((sliding size slide).trace s pre) := by
  intro pre
  induction pre with
  | nil =>
    intro now c seen s h hord
    exact ⟨now, c, by simpa [adds, Machine.final] using h, (inOrderFrom_cons hord).1, by simp [Machine.final, Machine.trace, lastEmission]⟩
  | cons p pre ih =>
    intro now c seen s h hord
    obtain ⟨hle, hrest⟩ := inOrderFrom_cons hord
    obtain ⟨⟨c', hinv⟩, _, hlast⟩ := sliding_step_inv (slide := slide) h p hle
    obtain ⟨now'', c'', h1, h2, h3⟩ := ih _ _ _ _ hinv hrest
    refine ⟨now'', c'', ?_, h2, ?_⟩
    · rw [adds_cons, ← List.append_assoc]; exact h1
    · simp only [Machine.final, Machine.trace, lastEmission]; rw [h3, hlast]

/-- C13, time-sliding: content and timing of every emission of an in-order run from the initial state -/
theorem sliding_emission {size slide : Int} (pre : List Op) (o : Op) (h : InOrder (pre ++ [o])) :
    ((sliding size slide).step ((sliding size slide).final (sliding size slide).init pre) o).2 =
      slidingExpected size slide (lastEmission none ((sliding size slide).trace (sliding size slide).init pre)) (adds pre) o := by
  obtain ⟨now, hfrom⟩ := inOrder_exists_from h
  have h0 : SlInv size now (now - size) [] (sliding size slide).init :=
    ⟨by simp [sliding], by omega, by simp, by simp⟩
  obtain ⟨now', c', h1, h2, h3⟩ := sliding_run_inv (slide := slide) o pre now _ _ _ h0 hfrom
  have := (sliding_step_inv (slide := slide) h1 o h2).2.1
  rw [this, h3]
  simp [sliding]
theorem succ_mod_case (a s : Nat) (hs : 0 < s) :
    (a + 1) % s = if a % s + 1 = s then 0 else a % s + 1 := by
  have hlt := Nat.mod_lt a hs
  rw [Nat.add_mod]
  split
  · rename_i h
    by_cases h1 : s = 1
    · subst h1; simp [Nat.mod_one]
    · have : 1 % s = 1 := Nat.mod_eq_of_lt (by omega)
      rw [this, h, Nat.mod_self]
  · rename_i h
    by_cases h1 : s = 1
    · subst h1; omega
    · have : 1 % s = 1 := Nat.mod_eq_of_lt (by omega)
      rw [this, Nat.mod_eq_of_lt (by omega)]

/-- the counter of the count-sliding window as a function of the number of events seen -/
def sinceAt (size slide i : Nat) : Nat := if i < size then (slide - size) + i else (i - size) % slide

structure SCInv (size slide : Nat) (seen : List Ev) (s : SlidingCount) : Prop where
  evs_eq : s.evs = seen.drop (seen.length - size)
  since_eq : s.since = sinceAt size slide seen.length

theorem slidingCount_step_inv {size slide : Nat} (hsz : 0 < size) (hsl : 0 < slide) {seen : List Ev} {s : SlidingCount}
    (h : SCInv size slide seen s) (o : Op) :
    SCInv size slide (seen ++ adds [o]) ((slidingCount size slide).step s o).1 ∧
    ((slidingCount size slide).step s o).2 = slidingCountExpected size slide seen o := by
  obtain ⟨h1, h2⟩ := h
  cases o with
  | add e =>
    simp only [slidingCount, SlidingCount.step, slidingCountExpected, adds]
    have hall : s.evs ++ [e] = (seen ++ [e]).drop (seen.length - size) := by
      rw [h1, List.drop_append_of_le_length (by omega)]
    have hlen : (s.evs ++ [e]).length = min seen.length size + 1 := by
      rw [h1]; simp; omega
    have hevs : (s.evs ++ [e]).drop ((s.evs ++ [e]).length - size) = (seen ++ [e]).drop (seen.length + 1 - size) := by
      rw [hlen, hall, List.drop_drop]; congr 1; omega
    have hlen' : ((seen ++ [e]).drop (seen.length + 1 - size)).length = min (seen.length + 1) size := by
      simp; omega
    rw [hevs, hlen', h2]
    by_cases hi : seen.length + 1 < size
    · have c1 : ¬ (min (seen.length + 1) size ≥ size ∧ sinceAt size slide seen.length + 1 ≥ slide) := by omega
      have c2 : ¬ (size ≤ seen.length + 1 ∧ (seen.length + 1 - size) % slide = 0) := by omega
      rw [if_neg c1, if_neg c2]
      refine ⟨⟨by simp, ?_⟩, rfl⟩
      simp only [List.length_append, List.length_singleton, sinceAt]
      rw [if_pos (by omega : seen.length < size), if_pos hi]; omega
    · by_cases hi2 : seen.length + 1 = size
      · have hs : sinceAt size slide seen.length + 1 ≥ slide := by
          unfold sinceAt; rw [if_pos (by omega)]; omega
        have c1 : (min (seen.length + 1) size ≥ size ∧ sinceAt size slide seen.length + 1 ≥ slide) := ⟨by omega, hs⟩
        have c2 : (size ≤ seen.length + 1 ∧ (seen.length + 1 - size) % slide = 0) := ⟨by omega, by simp [hi2]⟩
        rw [if_pos c1, if_pos c2]
        refine ⟨⟨by simp, ?_⟩, rfl⟩
        simp [sinceAt, hi2]
      · have hge : size ≤ seen.length := by omega
        have hmod := succ_mod_case (seen.length - size) slide hsl
        have hsub : seen.length + 1 - size = seen.length - size + 1 := by omega
        have hsin : sinceAt size slide seen.length = (seen.length - size) % slide := by
          unfold sinceAt; rw [if_neg (by omega)]
        have hlt := Nat.mod_lt (seen.length - size) hsl
        by_cases hz : (seen.length - size) % slide + 1 = slide
        · rw [if_pos hz] at hmod
          have c1 : (min (seen.length + 1) size ≥ size ∧ sinceAt size slide seen.length + 1 ≥ slide) := ⟨by omega, by omega⟩
          have c2 : (size ≤ seen.length + 1 ∧ (seen.length + 1 - size) % slide = 0) := ⟨by omega, by rw [hsub]; exact hmod⟩
          rw [if_pos c1, if_pos c2]
          refine ⟨⟨by simp, ?_⟩, rfl⟩
          simp only [List.length_append, List.length_singleton, sinceAt]
          rw [if_neg (by omega), hsub, hmod]
        · rw [if_neg hz] at hmod
          have c1 : ¬ (min (seen.length + 1) size ≥ size ∧ sinceAt size slide seen.length + 1 ≥ slide) := by omega
          have c2 : ¬ (size ≤ seen.length + 1 ∧ (seen.length + 1 - size) % slide = 0) := by rw [hsub, hmod]; omega
          rw [if_neg c1, if_neg c2]
          refine ⟨⟨by simp, ?_⟩, rfl⟩
          simp only [List.length_append, List.length_singleton, sinceAt]
          rw [if_neg (by omega : ¬ seen.length < size), if_neg (by omega : ¬ seen.length + 1 < size), hsub, hmod]
  | watermark t => simp [slidingCount, SlidingCount.step, slidingCountExpected, adds]; exact ⟨h1, h2⟩
  | flush => simp [slidingCount, SlidingCount.step, slidingCountExpected, adds]; exact ⟨h1, h2⟩
  | expire t => simp [slidingCount, SlidingCount.step, slidingCountExpected, adds]; exact ⟨h1, h2⟩

theorem slidingCount_run_inv {size slide : Nat} (hsz : 0 < size) (hsl : 0 < slide) : ∀ (pre : List Op) (seen : List Ev) (s : SlidingCount),
    SCInv size slide seen s → SCInv size slide (seen ++ adds pre) ((slidingCount size slide).final s pre) := by
  intro pre
  induction pre with
  | nil => intro seen s h; simpa [adds, Machine.final] using h
  | cons p pre ih =>
    intro seen s h
    have := (slidingCount_step_inv hsz hsl h p).1
    have := ih _ _ this
    rw [adds_cons, ← List.append_assoc]; exact this

theorem slidingCount_emission {size slide : Nat} (hsz : 0 < size) (hsl : 0 < slide) (pre : List Op) (o : Op) :
    ((slidingCount size slide).step ((slidingCount size slide).final (slidingCount size slide).init pre) o).2 =
      slidingCountExpected size slide (adds pre) o := by
  have h0 : SCInv size slide [] (slidingCount size slide).init := by
    refine ⟨by simp [slidingCount], ?_⟩
    simp [slidingCount, sinceAt, hsz]
  have := slidingCount_run_inv hsz hsl pre [] _ h0
  simpa using (slidingCount_step_inv hsz hsl this o).2

theorem tumblingOkB_iff (d : Int) (w : List Ev) : tumblingOkB d w = true ↔ TumblingOk d w := by
  unfold tumblingOkB TumblingOk
  cases w with
  | nil => simp
  | cons f l => simp

theorem sessionOkB_iff (g : Int) (w : List Ev) : sessionOkB g w = true ↔ SessionOk g w := by
  unfold sessionOkB SessionOk
  simp [List.all_eq_true]

end Varpulis.Window
