import Varpulis.Model.Join
/-! Helper lemmas for C15 (`JoinBuffer`). -/
namespace Varpulis.Join

theorem get_set (b : List (SK × List Ev)) (sk sk' : SK) (v : List Ev) :
    get (set b sk v) sk' = if sk' = sk then v else get b sk' := by
  by_cases h : sk' = sk
  · subst h; simp [get, set, List.lookup_cons]
  · have : (sk' == sk) = false := by simpa using h
    simp [get, set, List.lookup_cons, this, h]

/-- `b` is `h` with some elements removed, and every removed element satisfies `exp` -/
inductive Kept (exp : Ev → Prop) : List Ev → List Ev → Prop
  | nil : Kept exp [] []
  | keep {b h : List Ev} (e : Ev) : Kept exp b h → Kept exp (e :: b) (e :: h)
  | skip {b h : List Ev} (e : Ev) : exp e → Kept exp b h → Kept exp b (e :: h)

theorem Kept.refl (exp : Ev → Prop) : ∀ h, Kept exp h h
  | [] => .nil
  | e :: h => .keep e (Kept.refl exp h)

theorem Kept.mono {exp exp' : Ev → Prop} (hm : ∀ e, exp e → exp' e) {b h : List Ev}
    (k : Kept exp b h) : Kept exp' b h := by
  induction k with
  | nil => exact .nil
  | keep e _ ih => exact .keep e ih
  | skip e he _ ih => exact .skip e (hm e he) ih

theorem Kept.snoc {exp : Ev → Prop} {b h : List Ev} (k : Kept exp b h) (x : Ev) :
    Kept exp (b ++ [x]) (h ++ [x]) := by
  induction k with
  | nil => exact .keep x .nil
  | keep e _ ih => exact .keep e ih
  | skip e he _ ih => exact .skip e he ih

theorem Kept.filter {exp : Ev → Prop} {b h : List Ev} (k : Kept exp b h) (q : Ev → Bool)
    (hq : ∀ e, q e = false → exp e) : Kept exp (b.filter q) h := by
  induction k with
  | nil => exact .nil
  | keep e _ ih =>
    by_cases hqe : q e = true
    · simp only [List.filter_cons, hqe, if_true]; exact .keep e ih
    · have hf : q e = false := by simpa using hqe
      simp only [List.filter_cons, hf]; exact .skip e (hq e hf) ih
  | skip e he _ ih => exact .skip e he ih

theorem Kept.filter_eq {exp : Ev → Prop} {b h : List Ev} (k : Kept exp b h) (p : Ev → Bool)
    (hp : ∀ e ∈ h, p e = true → ¬ exp e) : b.filter p = h.filter p := by
  induction k with
  | nil => rfl
  | keep e _ ih =>
    have := ih (fun x hx => hp x (List.mem_cons_of_mem _ hx))
    simp only [List.filter_cons, this]
  | skip e he _ ih =>
    have := ih (fun x hx => hp x (List.mem_cons_of_mem _ hx))
    have hpe : p e = false := by
      cases hh : p e with
      | false => rfl
      | true => exact absurd he (hp e (by simp) hh)
    simp only [List.filter_cons, hpe, this]
    simp

/-- scanning from the back for the first match = last element of the matching sub-list -/
theorem lastValid_eq (cutoff : Int) (v : List Ev) :
    lastValid cutoff v = (v.filter fun e => decide (e.ts ≥ cutoff)).getLast? := by
  unfold lastValid
  generalize (fun e : Ev => decide (e.ts ≥ cutoff)) = p
  induction v with
  | nil => rfl
  | cons x xs ih =>
    rw [List.reverse_cons, List.find?_append, ih]
    cases hl : (List.filter p xs).getLast? <;> by_cases hp : p x = true <;>
      simp [hp, hl, List.getLast?_cons]

theorem mapM_option_congr {α β : Type} (f g : α → Option β) :
    ∀ (l : List α), (∀ x ∈ l, f x = g x) → l.mapM f = l.mapM g
  | [], _ => rfl
  | x :: xs, h => by
    have h1 := h x (by simp)
    have h2 := mapM_option_congr f g xs (fun y hy => h y (List.mem_cons_of_mem _ hy))
    simp only [List.mapM_cons, h1, h2]

theorem capEvict_id (max : Nat) (v : List Ev) (h : v.length < max) : capEvict max v = v := by
  unfold capEvict
  have : v.length + 1 - max = 0 := by omega
  rw [this]; rfl

/-! ### history bookkeeping -/

theorem histOf_append (hist : List Arr) (a : Arr) (src key : Nat) :
    histOf (hist ++ [a]) src key =
      if a.src = src ∧ a.key = key then histOf hist src key ++ [a.ev] else histOf hist src key := by
  unfold histOf
  rw [List.filter_append, List.map_append]
  by_cases h : a.src = src ∧ a.key = key
  · obtain ⟨h1, h2⟩ := h
    simp [h1, h2]
  · have : (a.src == src && a.key == key) = false := by
      cases hh : (a.src == src && a.key == key) with
      | false => rfl
      | true =>
        simp only [Bool.and_eq_true, beq_iff_eq] at hh
        exact absurd hh h
    simp [h, this]

theorem expirable_mono (w : Int) (hist : List Arr) (a : Arr) (e : Ev) (h : expirable w hist e = true) :
    expirable w (hist ++ [a]) e = true := by
  unfold expirable at *
  rw [List.any_append, h]; rfl

theorem expirable_last (w : Int) (hist : List Arr) (a : Arr) (e : Ev) (h : e.ts < a.ev.ts - w) :
    expirable w (hist ++ [a]) e = true := by
  unfold expirable
  rw [List.any_append]
  simp [h]

/-! ### the invariant -/

/-- every source's per-key vector is the arrival history of that (source, key) minus events that
the GC was entitled to expire -/
def Inv (c : Cfg) (hist : List Arr) (s : St) : Prop :=
  ∀ src ∈ c.sources, ∀ key, Kept (fun e => expirable c.window hist e = true) (get s.bufs (src, key)) (histOf hist src key)

theorem inv_init (c : Cfg) : Inv c [] St.init := by
  intro src _ key
  simp only [St.init, get, List.lookup_nil, Option.getD_none, histOf, List.filter_nil, List.map_nil]
  exact .nil

/-- the GC fold keeps, for every (source, key), a `Kept` relation to any fixed reference list -/
theorem fold_expire_kept (exp : Ev → Prop) (H : SK → List Ev) (cutoff : Int)
    (hexp : ∀ e : Ev, decide (e.ts ≥ cutoff) = false → exp e) :
    ∀ (qs : List (Int × Nat × Nat)) (b : List (SK × List Ev)),
      (∀ sk, Kept exp (get b sk) (H sk)) →
      ∀ sk, Kept exp (get (qs.foldl (fun b q => set b (q.2.1, q.2.2) (expireVec cutoff (get b (q.2.1, q.2.2)))) b) sk) (H sk) := by
  intro qs
  induction qs with
  | nil => intro b h sk; exact h sk
  | cons q rest ih =>
    intro b h
    simp only [List.foldl_cons]
    apply ih
    intro sk
    rw [get_set]
    by_cases hs : sk = (q.2.1, q.2.2)
    · simp only [hs, if_true]
      exact (h (q.2.1, q.2.2)).filter _ hexp
    · simp only [hs, if_false]; exact h sk

theorem cleanup_kept (c : Cfg) (hist : List Arr) (s : St) (a : Arr) (hinv : Inv c hist s) :
    ∀ src ∈ c.sources, ∀ key,
      Kept (fun e => expirable c.window (hist ++ [a]) e = true)
        (get (cleanupWith expireVec c s a.ev.ts).bufs (src, key)) (histOf hist src key) := by
  have hmono : ∀ src ∈ c.sources, ∀ key, Kept (fun e => expirable c.window (hist ++ [a]) e = true)
      (get s.bufs (src, key)) (histOf hist src key) :=
    fun src hs key => (hinv src hs key).mono (fun e he => expirable_mono _ _ _ _ he)
  unfold cleanupWith
  by_cases hg : gated c s a.ev.ts = true
  · simp only [hg, if_true]; exact hmono
  · simp only [hg]
    intro src hs key
    -- reference lists: the history for listed sources, the vector itself for others
    let H : SK → List Ev := fun sk => if sk.1 ∈ c.sources then histOf hist sk.1 sk.2 else get s.bufs sk
    have hb : ∀ sk, Kept (fun e => expirable c.window (hist ++ [a]) e = true) (get s.bufs sk) (H sk) := by
      intro sk
      by_cases hk : sk.1 ∈ c.sources
      · simp only [H, hk, if_true]; exact hmono sk.1 hk sk.2
      · simp only [H, hk, if_false]; exact Kept.refl _ _
    have := fold_expire_kept (fun e => expirable c.window (hist ++ [a]) e = true) H (a.ev.ts - c.window)
      (fun e he => expirable_last _ _ _ _ (by simpa using he))
      (s.queue.filter fun q => decide (q.1 ≤ a.ev.ts)) s.bufs hb (src, key)
    simpa [H, hs, gcFold] using this

theorem add_inv (c : Cfg) (hist : List Arr) (s : St) (a : Arr) (hinv : Inv c hist s)
    (hcap : capHit c s a = false) : Inv c (hist ++ [a]) (addEvent c s a).1 := by
  intro src hs key
  have hk := cleanup_kept c hist s a hinv
  unfold addEvent addWith
  simp only
  rw [histOf_append]
  by_cases hsrc : a.src ∈ c.sources
  · simp only [hsrc, if_true]
    rw [get_set]
    have hlen : (get (cleanupWith expireVec c s a.ev.ts).bufs (a.src, a.key)).length < c.maxPerKey := by
      unfold capHit at hcap
      simp only [hsrc, decide_true, Bool.true_and, decide_eq_false_iff_not] at hcap
      omega
    by_cases hm : a.src = src ∧ a.key = key
    · obtain ⟨h1, h2⟩ := hm
      subst h1; subst h2
      simp only [if_true, and_self]
      rw [capEvict_id _ _ hlen]
      exact (hk a.src hs a.key).snoc a.ev
    · have hne : (src, key) ≠ (a.src, a.key) := by
        intro he
        injection he with e1 e2
        exact hm ⟨e1.symm, e2.symm⟩
      simp only [hne, if_false, hm]
      exact hk src hs key
  · simp only [hsrc, if_false]
    have hm : ¬ (a.src = src ∧ a.key = key) := fun h => hsrc (h.1 ▸ hs)
    simp only [hm, if_false]
    exact hk src hs key

theorem run_inv (c : Cfg) : ∀ (ops : List Arr) (hist : List Arr) (s : St),
    Inv c hist s → noCapHit c s ops = true → Inv c (hist ++ ops) (run c s ops)
  | [], hist, s, h, _ => by simpa [run, runWith] using h
  | a :: rest, hist, s, h, hc => by
    simp only [noCapHit, Bool.and_eq_true, Bool.not_eq_true'] at hc
    have h1 := add_inv c hist s a h hc.1
    have h2 := run_inv c rest (hist ++ [a]) (addEvent c s a).1 h1 hc.2
    simpa [run, runWith, addEvent] using h2

theorem noCapHit_append (c : Cfg) : ∀ (ops : List Arr) (s : St) (a : Arr),
    noCapHit c s (ops ++ [a]) = true → noCapHit c s ops = true ∧ capHit c (run c s ops) a = false
  | [], s, a, h => by
    simp only [List.nil_append, noCapHit, Bool.and_true, Bool.not_eq_true'] at h
    simp [noCapHit, run, runWith, h]
  | b :: rest, s, a, h => by
    simp only [List.cons_append, noCapHit, Bool.and_eq_true, Bool.not_eq_true'] at h
    have := noCapHit_append c rest (addEvent c s b).1 a h.2
    simp only [noCapHit, Bool.and_eq_true, Bool.not_eq_true', h.1, true_and]
    simpa [run, runWith, addEvent] using this

/-- the correlation step computes the specification whenever no in-window candidate is expirable -/
theorem correlate_eq_spec (c : Cfg) (hist : List Arr) (s : St) (key : Nat) (t : Int)
    (hinv : Inv c hist s)
    (hfresh : ∀ src ∈ c.sources, ∀ e ∈ histOf hist src key, e.ts ≥ t - c.window →
      expirable c.window hist e = false) :
    correlate c s.bufs key t = specJoin c hist key t := by
  unfold correlate specJoin
  apply mapM_option_congr
  intro src hs
  rw [lastValid_eq]
  unfold specPick
  rw [(hinv src hs key).filter_eq (fun e => decide (e.ts ≥ t - c.window))]
  intro e he hp
  have := hfresh src hs e he (by simpa using hp)
  simp [this]

/-! ### the same invariant with the cap: removed events are expirable *or cap-evicted* -/

theorem Kept.drop {exp : Ev → Prop} {b h : List Ev} (k : Kept exp b h) :
    ∀ n, (∀ e ∈ b.take n, exp e) → Kept exp (b.drop n) h := by
  induction k with
  | nil => intro n _; simpa using Kept.nil
  | keep e _ ih =>
    intro n hn
    cases n with
    | zero => simpa using Kept.keep e (by simpa using ih 0 (by simp))
    | succ m =>
      simp only [List.drop_succ_cons]
      refine .skip e (hn e (by simp)) (ih m ?_)
      intro x hx
      exact hn x (by simp [hx])
  | skip e he _ ih => intro n hn; exact .skip e he (ih n hn)

def InvE (c : Cfg) (hist : List Arr) (ev : List Ev) (s : St) : Prop :=
  ∀ src ∈ c.sources, ∀ key,
    Kept (fun e => expirable c.window hist e = true ∨ e ∈ ev) (get s.bufs (src, key)) (histOf hist src key)

theorem invE_init (c : Cfg) : InvE c [] [] St.init := by
  intro src _ key
  simp only [St.init, get, List.lookup_nil, Option.getD_none, histOf, List.filter_nil, List.map_nil]
  exact .nil

theorem cleanup_keptE (c : Cfg) (hist : List Arr) (ev ev' : List Ev) (s : St) (a : Arr)
    (hinv : InvE c hist ev s) (hsub : ∀ e ∈ ev, e ∈ ev') :
    ∀ src ∈ c.sources, ∀ key,
      Kept (fun e => expirable c.window (hist ++ [a]) e = true ∨ e ∈ ev')
        (get (cleanupWith expireVec c s a.ev.ts).bufs (src, key)) (histOf hist src key) := by
  have hmono : ∀ src ∈ c.sources, ∀ key, Kept (fun e => expirable c.window (hist ++ [a]) e = true ∨ e ∈ ev')
      (get s.bufs (src, key)) (histOf hist src key) :=
    fun src hs key => (hinv src hs key).mono (fun e he => by
      rcases he with he | he
      · exact Or.inl (expirable_mono _ _ _ _ he)
      · exact Or.inr (hsub e he))
  unfold cleanupWith
  by_cases hg : gated c s a.ev.ts = true
  · simp only [hg, if_true]; exact hmono
  · simp only [hg]
    intro src hs key
    let H : SK → List Ev := fun sk => if sk.1 ∈ c.sources then histOf hist sk.1 sk.2 else get s.bufs sk
    have hb : ∀ sk, Kept (fun e => expirable c.window (hist ++ [a]) e = true ∨ e ∈ ev') (get s.bufs sk) (H sk) := by
      intro sk
      by_cases hk : sk.1 ∈ c.sources
      · simp only [H, hk, if_true]; exact hmono sk.1 hk sk.2
      · simp only [H, hk, if_false]; exact Kept.refl _ _
    have := fold_expire_kept (fun e => expirable c.window (hist ++ [a]) e = true ∨ e ∈ ev') H (a.ev.ts - c.window)
      (fun e he => Or.inl (expirable_last _ _ _ _ (by simpa using he)))
      (s.queue.filter fun q => decide (q.1 ≤ a.ev.ts)) s.bufs hb (src, key)
    simpa [H, hs, gcFold] using this

theorem add_invE (c : Cfg) (hist : List Arr) (ev : List Ev) (s : St) (a : Arr) (hinv : InvE c hist ev s) :
    InvE c (hist ++ [a]) (ev ++ evictedAt c s a) (addEvent c s a).1 := by
  intro src hs key
  have hk := cleanup_keptE c hist ev (ev ++ evictedAt c s a) s a hinv (fun e he => List.mem_append_left _ he)
  unfold addEvent addWith
  simp only
  rw [histOf_append]
  by_cases hsrc : a.src ∈ c.sources
  · simp only [hsrc, if_true]
    rw [get_set]
    by_cases hm : a.src = src ∧ a.key = key
    · obtain ⟨h1, h2⟩ := hm
      subst h1; subst h2
      simp only [if_true, and_self]
      unfold capEvict
      refine ((hk a.src hs a.key).drop _ ?_).snoc a.ev
      intro e he
      refine Or.inr (List.mem_append_right _ ?_)
      simp only [evictedAt, hsrc, if_true]
      exact he
    · have hne : (src, key) ≠ (a.src, a.key) := by
        intro he
        injection he with e1 e2
        exact hm ⟨e1.symm, e2.symm⟩
      simp only [hne, if_false, hm]
      exact hk src hs key
  · simp only [hsrc, if_false]
    have hm : ¬ (a.src = src ∧ a.key = key) := fun h => hsrc (h.1 ▸ hs)
    simp only [hm, if_false]
    exact hk src hs key

theorem run_invE (c : Cfg) : ∀ (ops : List Arr) (hist : List Arr) (ev : List Ev) (s : St),
    InvE c hist ev s → InvE c (hist ++ ops) (ev ++ evictedBy c s ops) (run c s ops)
  | [], hist, ev, s, h => by simpa [run, runWith, evictedBy] using h
  | a :: rest, hist, ev, s, h => by
    have h1 := add_invE c hist ev s a h
    have h2 := run_invE c rest (hist ++ [a]) (ev ++ evictedAt c s a) (addEvent c s a).1 h1
    simpa [run, runWith, addEvent, evictedBy, List.append_assoc] using h2

theorem run_snoc (c : Cfg) : ∀ (ops : List Arr) (s : St) (a : Arr),
    run c s (ops ++ [a]) = (addEvent c (run c s ops) a).1
  | [], s, a => by simp [run, runWith, addEvent]
  | b :: rest, s, a => by
    have := run_snoc c rest (addEvent c s b).1 a
    simpa [run, runWith, addEvent] using this

theorem correlate_eq_specE (c : Cfg) (hist : List Arr) (ev : List Ev) (s : St) (key : Nat) (t : Int)
    (hinv : InvE c hist ev s)
    (hfresh : ∀ src ∈ c.sources, ∀ e ∈ histOf hist src key, e.ts ≥ t - c.window →
      expirable c.window hist e = false ∧ e ∉ ev) :
    correlate c s.bufs key t = specJoin c hist key t := by
  unfold correlate specJoin
  apply mapM_option_congr
  intro src hs
  rw [lastValid_eq]
  unfold specPick
  rw [(hinv src hs key).filter_eq (fun e => decide (e.ts ≥ t - c.window))]
  intro e he hp
  have := hfresh src hs e he (by simpa using hp)
  simp [this.1, this.2]

theorem evictedBy_nil_of_noCapHit (c : Cfg) : ∀ (ops : List Arr) (s : St),
    noCapHit c s ops = true → evictedBy c s ops = []
  | [], _, _ => rfl
  | a :: rest, s, h => by
    simp only [noCapHit, Bool.and_eq_true, Bool.not_eq_true'] at h
    have ih := evictedBy_nil_of_noCapHit c rest (addEvent c s a).1 h.2
    simp only [evictedBy, ih, List.append_nil]
    unfold evictedAt
    by_cases hsrc : a.src ∈ c.sources
    · have := h.1
      unfold capHit at this
      simp only [hsrc, decide_true, Bool.true_and, decide_eq_false_iff_not] at this
      simp only [hsrc, if_true]
      have hz : (get (cleanupWith expireVec c s a.ev.ts).bufs (a.src, a.key)).length + 1 - c.maxPerKey = 0 := by omega
      rw [hz]; rfl
    · simp [hsrc]

/-! ### the heap's pop order cannot matter -/

def iter (f : List Ev → List Ev) : Nat → List Ev → List Ev
  | 0, a => a
  | n + 1, a => iter f n (f a)

/-- after the GC loop, the vector of `(source, key)` is the per-entry action iterated once per popped
entry of that `(source, key)` — whatever the action and whatever the order of the entries -/
theorem gcFold_get (act : List Ev → List Ev) (qs : List (Int × Nat × Nat)) :
    ∀ (b : List (SK × List Ev)) (sk : SK),
      get (gcFold act qs b) sk = iter act (qs.countP fun q => (q.2.1, q.2.2) = sk) (get b sk) := by
  induction qs with
  | nil => intro b sk; rfl
  | cons q rest ih =>
    intro b sk
    simp only [gcFold, List.foldl_cons] at ih ⊢
    rw [ih, get_set, List.countP_cons]
    by_cases h : sk = (q.2.1, q.2.2)
    · subst h; simp [iter]
    · have h' : ¬ ((q.2.1, q.2.2) = sk) := fun e => h e.symm
      simp [h, h']

theorem gcFold_perm (act : List Ev → List Ev) (qs qs' : List (Int × Nat × Nat)) (hp : qs.Perm qs')
    (b : List (SK × List Ev)) (sk : SK) : get (gcFold act qs b) sk = get (gcFold act qs' b) sk := by
  rw [gcFold_get, gcFold_get, hp.countP_eq]

end Varpulis.Join
