import Varpulis.Lemmas.CoordStep
/-! Well-formedness of the placement records (unique keys, pipeline id ⇔ running) is preserved by every step,
and a teardown plan committed on the state it was planned on is inside the teardown guard (C32). -/
namespace Varpulis.Coord

/-- two records do not share the key (group, name) -/
def KeyNe (a b : PRec) : Prop := ¬ (a.gid = b.gid ∧ a.name = b.name)

/-- record list well-formedness: keys are unique (it is a map), and a record carries a pipeline id only
when it is running (failed deployments have none) -/
def PWF (P : List PRec) : Prop := P.Pairwise KeyNe ∧ ∀ r ∈ P, r.hasId = true → r.status = .running

def WF (s : St) : Prop := PWF s.placements

theorem hasKey_iff (g : GId) (n : Name) (r : PRec) : PRec.hasKey g n r = true ↔ r.gid = g ∧ r.name = n := by
  simp [PRec.hasKey]

/-- after erasing the first record with a key from a key-unique list, no record with that key is left -/
theorem no_key_after_eraseP (P : List PRec) (g : GId) (n : Name) (h : P.Pairwise KeyNe) :
    ∀ x ∈ P.eraseP (PRec.hasKey g n), PRec.hasKey g n x = false := by
  intro x hx
  cases hf : P.find? (PRec.hasKey g n) with
  | none =>
    have hnone := List.find?_eq_none.1 hf
    rw [List.eraseP_of_forall_not hnone] at hx
    simpa using hnone x hx
  | some r =>
    obtain ⟨hk, pre, post, hsplit, hpre⟩ := List.find?_eq_some_iff_append.1 hf
    have he : P.eraseP (PRec.hasKey g n) = pre ++ post := by
      rw [hsplit, List.eraseP_append_right _ (fun b hb => by simpa using hpre b hb)]
      simp [List.eraseP_cons, hk]
    rw [he] at hx
    rw [hsplit, List.pairwise_append] at h
    obtain ⟨_, hrp, hcross⟩ := h
    rw [List.pairwise_cons] at hrp
    have hkr := (hasKey_iff g n r).1 hk
    rcases List.mem_append.1 hx with hm | hm
    · simpa using hpre x hm
    · have := hrp.1 x hm
      cases hkx : PRec.hasKey g n x with
      | false => rfl
      | true =>
        have hkx' := (hasKey_iff g n x).1 hkx
        exact absurd ⟨hkr.1.trans hkx'.1.symm, hkr.2.trans hkx'.2.symm⟩ this

theorem pwf_eraseP (P : List PRec) (k : PRec → Bool) (h : PWF P) : PWF (P.eraseP k) :=
  ⟨h.1.sublist List.eraseP_sublist, fun r hr => h.2 r (List.mem_of_mem_eraseP hr)⟩

theorem pwf_filter (P : List PRec) (q : PRec → Bool) (h : PWF P) : PWF (P.filter q) :=
  ⟨h.1.sublist List.filter_sublist, fun r hr => h.2 r (List.mem_filter.1 hr).1⟩

/-- `HashMap::insert` keeps the record list well-formed -/
theorem pwf_insert (P : List PRec) (r0 : PRec) (h : PWF P) (h0 : r0.hasId = true → r0.status = .running) :
    PWF (P.eraseP (PRec.hasKey r0.gid r0.name) ++ [r0]) := by
  have he := pwf_eraseP P (PRec.hasKey r0.gid r0.name) h
  have hno := no_key_after_eraseP P r0.gid r0.name h.1
  constructor
  · rw [List.pairwise_append]
    refine ⟨he.1, List.pairwise_singleton _ _, ?_⟩
    intro a ha b hb
    simp only [List.mem_singleton] at hb
    subst hb
    intro hab
    have := hno a ha
    rw [(hasKey_iff b.gid b.name a).2 hab] at this
    cases this
  · intro r hr
    rcases List.mem_append.1 hr with hm | hm
    · exact he.2 r hm
    · simp only [List.mem_singleton] at hm; subst hm; exact h0

theorem wf_insertP (s : St) (r0 : PRec) (h : WF s) (h0 : r0.hasId = true → r0.status = .running) :
    WF (s.insertP r0) := pwf_insert s.placements r0 h h0

theorem wf_of_placements_eq (s s' : St) (hp : s'.placements = s.placements) (h : WF s) : WF s' := by
  unfold WF; rw [hp]; exact h

theorem wf_commitResult (g : GId) (s : St) (r : DeployResult) (h : WF s) : WF (commitResult g s r) := by
  unfold commitResult
  split
  · exact wf_of_placements_eq (s.insertP _) _ rfl (wf_insertP s _ h (fun _ => rfl))
  · exact wf_insertP s _ h (fun hh => by cases hh)

theorem wf_foldl_commitResult (g : GId) : ∀ (rs : List DeployResult) (s : St), WF s → WF (rs.foldl (commitResult g) s) := by
  intro rs
  induction rs with
  | nil => intro s h; exact h
  | cons r rs ih => intro s h; exact ih _ (wf_commitResult g s r h)

theorem wf_teardownTask (g : GId) (s : St) (t : Name × WId) (h : WF s) : WF (teardownTask g s t) :=
  pwf_eraseP s.placements _ h

theorem wf_foldl_teardown (g : GId) : ∀ (ts : List (Name × WId)) (s : St), WF s → WF (ts.foldl (teardownTask g) s) := by
  intro ts
  induction ts with
  | nil => intro s h; exact h
  | cons t ts ih => intro s h; exact ih _ (wf_teardownTask g s t h)

theorem wf_applyMigration (s : St) (p : MigPlan) (h : WF s) : WF (applyMigration s p) :=
  pwf_insert s.placements
    { gid := p.gid, name := p.name, worker := p.target, status := .running, hasId := true, epoch := p.epoch + 1 } h
    (fun _ => rfl)

/-- **every step keeps the records well-formed** (no guard needed) -/
theorem wf_step (s : St) (st : Step) (h : WF s) : WF (step s st) := by
  cases st with
  | register id m c r now => exact h
  | heartbeat id n now =>
    simp only [step, heartbeat]; cases s.getW id <;> exact h
  | deregister id =>
    simp only [step, deregister]; cases s.getW id <;> exact h
  | sweep now => exact h
  | markDraining id => exact h
  | commitDeploy g specs rs =>
    simp only [step, commitDeploy]
    apply wf_foldl_commitResult
    exact pwf_filter s.placements _ h
  | commitTeardown g ts =>
    simp only [step, commitTeardown]
    exact pwf_filter _ _ (wf_foldl_teardown g ts s h)
  | commitMigrate p ok =>
    simp only [step, commitMigrate]
    split
    · exact wf_applyMigration s p h
    · exact h
  | migrateAtomic g n t ok =>
    simp only [step, migrateAtomic]
    split
    · split
      · exact wf_applyMigration s _ h
      · exact h
    · exact h

theorem wf_init (t : Nat) : WF { timeout := t } := ⟨List.Pairwise.nil, fun r hr => by cases hr⟩

theorem wf_run : ∀ (steps : List Step) (s : St), WF s → WF (run s steps) := by
  intro steps
  induction steps with
  | nil => intro s h; exact h
  | cons st rest ih => intro s h; exact ih _ (wf_step s st h)

/-! ### a teardown plan is inside the guard on the state it was planned on -/

/-- `tdGuard` only looks at the records -/
def tdGuardP (g : GId) : List PRec → List (Name × WId) → Bool
  | P, [] => P.all fun r => r.gid != g || r.status != .running
  | P, t :: ts =>
    (match P.find? (PRec.hasKey g t.1) with
     | some r => decide (r.status = .running) && r.worker == t.2
     | none => false) && tdGuardP g (P.eraseP (PRec.hasKey g t.1)) ts

theorem tdGuard_eq (g : GId) : ∀ (ts : List (Name × WId)) (s : St), tdGuard g s ts = tdGuardP g s.placements ts := by
  intro ts
  induction ts with
  | nil => intro s; rfl
  | cons t ts ih =>
    intro s
    simp only [tdGuard, tdGuardP, St.getP]
    rw [ih]
    rfl

/-- the tasks cover exactly the running records of the group -/
def Covers (g : GId) (P : List PRec) (ts : List (Name × WId)) : Prop :=
  (∀ t ∈ ts, ∃ r ∈ P, r.gid = g ∧ r.name = t.1 ∧ r.status = .running ∧ r.worker = t.2) ∧
  ts.Pairwise (fun a b => a.1 ≠ b.1) ∧
  (∀ r ∈ P, r.gid = g → r.status = .running → ∃ t ∈ ts, t.1 = r.name)

theorem tdGuardP_of_covers (g : GId) : ∀ (ts : List (Name × WId)) (P : List PRec),
    P.Pairwise KeyNe → Covers g P ts → tdGuardP g P ts = true := by
  intro ts
  induction ts with
  | nil =>
    intro P _ hc
    simp only [tdGuardP, List.all_eq_true, Bool.or_eq_true, bne_iff_ne, ne_eq]
    intro r hr
    by_cases hg : r.gid = g
    · right
      intro hs
      obtain ⟨t, ht, _⟩ := hc.2.2 r hr hg hs
      cases ht
    · exact Or.inl hg
  | cons t ts ih =>
    intro P hu hc
    obtain ⟨h1, h2, h3⟩ := hc
    obtain ⟨r, hr, hrg, hrn, hrs, hrw⟩ := h1 t List.mem_cons_self
    simp only [tdGuardP, Bool.and_eq_true]
    -- the record found under the key is `r`
    have hkr : PRec.hasKey g t.1 r = true := (hasKey_iff g t.1 r).2 ⟨hrg, hrn⟩
    cases hf : P.find? (PRec.hasKey g t.1) with
    | none => exact absurd hkr (by simpa using List.find?_eq_none.1 hf r hr)
    | some r' =>
      have hk' := (hasKey_iff g t.1 r').1 (List.find?_some hf)
      have hr' : r' ∈ P := List.mem_of_find?_eq_some hf
      have heq : r' = r := by
        by_cases e : r' = r
        · exact e
        · -- two different members with the same key contradict uniqueness
          exfalso
          have hne := no_key_after_eraseP P g t.1 hu
          have : r ∈ P.eraseP (PRec.hasKey g t.1) := by
            obtain ⟨hk, pre, post, hsplit, hpre⟩ := List.find?_eq_some_iff_append.1 hf
            have he : P.eraseP (PRec.hasKey g t.1) = pre ++ post := by
              rw [hsplit, List.eraseP_append_right _ (fun b hb => by simpa using hpre b hb)]
              simp [List.eraseP_cons, hk]
            rw [he]
            rw [hsplit] at hr
            rcases List.mem_append.1 hr with hm | hm
            · exact List.mem_append_left _ hm
            · rcases List.mem_cons.1 hm with hm | hm
              · exact absurd hm.symm e
              · exact List.mem_append_right _ hm
          have := hne r this
          rw [hkr] at this; cases this
      subst heq
      refine ⟨by simp [hrs, hrw], ?_⟩
      apply ih _ (hu.sublist List.eraseP_sublist)
      rw [List.pairwise_cons] at h2
      refine ⟨?_, h2.2, ?_⟩
      · intro t' ht'
        obtain ⟨x, hx, hxg, hxn, hxs, hxw⟩ := h1 t' (List.mem_cons_of_mem _ ht')
        refine ⟨x, ?_, hxg, hxn, hxs, hxw⟩
        apply (List.mem_eraseP_of_neg _).2 hx
        rw [hasKey_iff]
        intro hh
        exact h2.1 t' ht' (hh.2.symm.trans hxn)
      · intro x hx hxg hxs
        have hxP := List.mem_of_mem_eraseP hx
        obtain ⟨t', ht', hn'⟩ := h3 x hxP hxg hxs
        rcases List.mem_cons.1 ht' with rfl | ht''
        · exfalso
          have := no_key_after_eraseP P g t'.1 hu x hx
          rw [(hasKey_iff g t'.1 x).2 ⟨hxg, hn'.symm⟩] at this
          cases this
        · exact ⟨t', ht'', hn'⟩

/-- **plan/commit adjacency discharges the teardown guard**: on a well-formed state satisfying BookInv, the
plan produced by `plan_teardown_group` passes `tdGuard` on that same state -/
theorem tdGuard_of_planTeardown (s : St) (g : GId) (ts : List (Name × WId)) (hwf : WF s) (hb : BookInv s)
    (hp : planTeardown s g = some ts) : tdGuard g s ts = true := by
  rw [tdGuard_eq]
  apply tdGuardP_of_covers g ts s.placements hwf.1
  unfold planTeardown at hp
  split at hp
  · simp only [Option.some.injEq] at hp
    subst hp
    refine ⟨?_, ?_, ?_⟩
    · intro t ht
      obtain ⟨r, hr, rfl⟩ := List.mem_map.1 ht
      simp only [List.mem_filter, Bool.and_eq_true, beq_iff_eq] at hr
      exact ⟨r, hr.1, hr.2.1, rfl, hwf.2 r hr.1 hr.2.2, rfl⟩
    · rw [List.pairwise_map]
      have hsub := hwf.1.sublist (List.filter_sublist (p := fun r => r.gid == g && r.hasId) (l := s.placements))
      apply List.Pairwise.imp_of_mem _ hsub
      intro a b ha hb' hab hn
      simp only [List.mem_filter, Bool.and_eq_true, beq_iff_eq] at ha hb'
      exact hab ⟨ha.2.1.trans hb'.2.1.symm, hn⟩
    · intro r hr hg hs
      refine ⟨(r.name, r.worker), List.mem_map.2 ⟨r, ?_, rfl⟩, rfl⟩
      simp only [List.mem_filter, Bool.and_eq_true, beq_iff_eq]
      exact ⟨hr, hg, (hb.1 r hr hs).1⟩
  · cases hp

/-- on a consistent state `reconcile_placements` finds nothing to do -/
theorem reconcileCandidates_nil (s : St) (hb : BookInv s) : reconcileCandidates s = [] := by
  unfold reconcileCandidates
  rw [List.filter_eq_nil_iff]
  intro r hr hc
  simp only [Bool.and_eq_true, decide_eq_true_eq] at hc
  obtain ⟨⟨_, hrun⟩, hw⟩ := hc
  cases hg : s.getW r.worker with
  | none => simp [hg] at hw
  | some w =>
    simp only [hg, Bool.and_eq_true, Bool.not_eq_true', List.contains_eq_mem, decide_eq_false_iff_not] at hw
    have hmem : r.name ∈ s.runningOn w.id := by
      rw [(getW_some hg).2]
      exact mem_ron.2 ⟨r, hr, by simp [PRec.runsOn, hrun], rfl⟩
    exact hw.2 (((hb.2 w (getW_some hg).1).1.mem_iff).2 hmem)

theorem reconcile_noop (s : St) (hb : BookInv s) (b : Bool) : reconcile s b = s := by
  unfold reconcile
  rw [reconcileCandidates_nil s hb]
  cases b <;> rfl

/-! ### plan/commit-adjacent histories -/

/-- results of executing a deploy plan with the given outcomes -/
def mkResults (ts : List Task) (outs : List Bool) : List DeployResult :=
  List.zipWith (fun t o => { replica := t.replica, worker := t.worker, ok := o }) ts outs

/-- operations whose commit phase runs on the state its plan was made on; `raw` is any other step -/
inductive AOp where
  | teardown (g : GId)
  | deploy (g : GId) (specs : List PSpec) (outs : List Bool)
  | heartbeat (id now : Nat)
  | raw (st : Step)

/-- the steps an operation performs from state `s` (`ch` = the placement strategy) -/
def AOp.steps (ch : Chooser) (s : St) : AOp → List Step
  | .teardown g => match planTeardown s g with
    | some ts => [.commitTeardown g ts]
    | none => []
  | .deploy g specs outs => match planDeploy ch s specs with
    | .ok ts => [.commitDeploy g specs (mkResults ts outs)]
    | .noWorkers => []
  | .heartbeat id now => match s.getW id with
    | some w => [.heartbeat id w.assigned.length now]
    | none => []
  | .raw st => [st]

/-- what remains to be assumed: a deploy uses a fresh group id and distinct replica names (input validity);
any other step is inside its own guard. Adjacent teardowns and truthful heartbeats need nothing. -/
def AOp.side (ch : Chooser) (s : St) : AOp → Bool
  | .teardown _ => true
  | .deploy g specs outs => match planDeploy ch s specs with
    | .ok ts => (s.placements.all fun r => r.gid != g) && decide (((mkResults ts outs).map (·.replica)).Nodup)
    | .noWorkers => true
  | .heartbeat _ _ => true
  | .raw st => (guardFail s st).isNone

def runA (ch : Chooser) : St → List AOp → St
  | s, [] => s
  | s, op :: ops => runA ch (run s (op.steps ch s)) ops

def sideAll (ch : Chooser) : St → List AOp → Bool
  | _, [] => true
  | s, op :: ops => op.side ch s && sideAll ch (run s (op.steps ch s)) ops

theorem mem_mkResults {ts : List Task} {outs : List Bool} {r : DeployResult} (h : r ∈ mkResults ts outs) :
    ∃ t ∈ ts, t.worker = r.worker := by
  induction ts generalizing outs with
  | nil => simp [mkResults] at h
  | cons t ts ih =>
    cases outs with
    | nil => simp [mkResults] at h
    | cons o os =>
      simp only [mkResults, List.zipWith_cons_cons, List.mem_cons] at h
      rcases h with rfl | h
      · exact ⟨t, List.mem_cons_self, rfl⟩
      · obtain ⟨t', ht', hw⟩ := ih h
        exact ⟨t', List.mem_cons_of_mem _ ht', hw⟩

theorem planDeploy_workers_registered (ch : Chooser) (hv : ch.Valid) (s : St) (specs : List PSpec)
    (ts : List Task) (h : planDeploy ch s specs = .ok ts) : ∀ t ∈ ts, (s.getW t.worker).isSome = true := by
  intro t ht
  unfold planDeploy at h
  split at h
  · cases h
  · cases hp : planPipes ch s 0 specs with
    | none => simp [hp] at h
    | some ts' =>
      simp only [hp, PlanRes.ok.injEq] at h
      subst h
      obtain ⟨_, _, _, _, ⟨w, hw, hid, _⟩, _⟩ := planPipes_ok ch hv s specs 0 ts' hp t ht
      unfold St.getW
      cases hf : s.workers.find? (fun x => x.id == t.worker) with
      | some _ => rfl
      | none =>
        have := List.find?_eq_none.1 hf w hw
        simp [hid] at this

/-- each adjacent operation is a guarded run -/
theorem guardedRun_steps (ch : Chooser) (hv : ch.Valid) (s : St) (op : AOp) (hb : BookInv s) (hwf : WF s)
    (hs : op.side ch s = true) : guardedRun s (op.steps ch s) = true := by
  cases op with
  | teardown g =>
    simp only [AOp.steps]
    cases hp : planTeardown s g with
    | none => rfl
    | some ts =>
      simp only [guardedRun, guardFail, tdGuard_of_planTeardown s g ts hwf hb hp, if_true, Option.isNone_none, Bool.and_self]
  | deploy g specs outs =>
    simp only [AOp.steps, AOp.side] at hs ⊢
    cases hp : planDeploy ch s specs with
    | noWorkers => rfl
    | ok ts =>
      simp only [hp, Bool.and_eq_true, decide_eq_true_eq] at hs
      have hreg : (mkResults ts outs).all (fun r => !r.ok || (s.getW r.worker).isSome) = true := by
        rw [List.all_eq_true]
        intro r hr
        obtain ⟨t, ht, hw⟩ := mem_mkResults hr
        have := planDeploy_workers_registered ch hv s specs ts hp t ht
        rw [hw] at this
        simp [this]
      simp [guardedRun, guardFail, hs.1, hs.2, hreg]
  | heartbeat id now =>
    simp only [AOp.steps]
    cases hw : s.getW id with
    | none => rfl
    | some w => simp [guardedRun, guardFail, hw]
  | raw st =>
    simp only [AOp.steps, AOp.side] at hs ⊢
    simp [guardedRun, hs]

/-- **plan/commit-adjacent histories keep the bookkeeping consistent**: teardowns planned and committed on
the same state and truthful heartbeats need no premise at all; deploys only need a fresh group id and
distinct replica names; every other step must be inside its own guard -/
theorem adjacent_history_preserves (ch : Chooser) (hv : ch.Valid) : ∀ (ops : List AOp) (s : St),
    BookInv s → WF s → sideAll ch s ops = true → BookInv (runA ch s ops) ∧ WF (runA ch s ops) := by
  intro ops
  induction ops with
  | nil => intro s hb hwf _; exact ⟨hb, hwf⟩
  | cons op ops ih =>
    intro s hb hwf hs
    simp only [sideAll, Bool.and_eq_true] at hs
    simp only [runA]
    apply ih
    · exact guardedRun_preserves _ s hb (guardedRun_steps ch hv s op hb hwf hs.1)
    · exact wf_run _ s hwf
    · exact hs.2

end Varpulis.Coord
