import Varpulis.Model.RateLimit
import Mathlib.Tactic.Linarith
import Mathlib.Algebra.Order.Field.Rat
import Mathlib.Algebra.Order.Field.Basic
import Mathlib.Tactic.Ring
import Mathlib.Tactic.NormNum
/-! Helper lemmas for C30 (token-bucket invariant, potential argument, projection of the
limiter onto one tracked client). -/
namespace Varpulis.RateLimit

/-- bucket invariant: `0 ≤ tokens ≤ max_tokens`, non-negative refill rate -/
structure Bucket.Good (b : Bucket) : Prop where
  tok_nonneg : 0 ≤ b.tokens
  tok_le : b.tokens ≤ b.maxTokens
  rate_nonneg : 0 ≤ b.rate

theorem Bucket.new_good (burst rate : Nat) (now : Rat) : (Bucket.new burst rate now).Good := by
  constructor <;> simp [Bucket.new]

/-- what one `try_consume` does, arithmetically -/
theorem Bucket.tryConsume_spec (b : Bucket) (t : Rat) (hg : b.Good) (hl : b.last ≤ t) :
    (b.tryConsume t).1.Good ∧ (b.tryConsume t).1.last = t ∧ (b.tryConsume t).1.maxTokens = b.maxTokens ∧
    (b.tryConsume t).1.rate = b.rate ∧
    (b.tryConsume t).1.tokens + (if (b.tryConsume t).2 = true then 1 else 0)
      = min (b.tokens + (t - b.last) * b.rate) b.maxTokens := by
  obtain ⟨h0, h1, h2⟩ := hg
  have hel : 0 ≤ (t - b.last) * b.rate := mul_nonneg (by linarith) h2
  have hmin0 : 0 ≤ min (b.tokens + (t - b.last) * b.rate) b.maxTokens := le_min (by linarith) (by linarith)
  have hminle : min (b.tokens + (t - b.last) * b.rate) b.maxTokens ≤ b.maxTokens := min_le_right _ _
  simp only [Bucket.tryConsume, Bucket.refill, hl, if_true]
  split
  · rename_i hc
    refine ⟨⟨?_, ?_, h2⟩, rfl, rfl, rfl, ?_⟩
    · show 0 ≤ min (b.tokens + (t - b.last) * b.rate) b.maxTokens - 1
      linarith
    · show min (b.tokens + (t - b.last) * b.rate) b.maxTokens - 1 ≤ b.maxTokens
      linarith
    · show min (b.tokens + (t - b.last) * b.rate) b.maxTokens - 1 + (if true = true then 1 else 0) = _
      simp
  · refine ⟨⟨hmin0, hminle, h2⟩, rfl, rfl, rfl, ?_⟩
    show min (b.tokens + (t - b.last) * b.rate) b.maxTokens + (if false = true then 1 else 0) = _
    simp

theorem Bucket.run_cons (b : Bucket) (t : Rat) (ts : List Rat) :
    b.run (t :: ts) = (t, (b.tryConsume t).2) :: (b.tryConsume t).1.run ts := rfl

theorem admittedIn_cons (t : Rat) (a : Bool) (tr : List (Rat × Bool)) (lo hi : Rat) :
    admittedIn ((t, a) :: tr) lo hi
      = (if a && decide (lo ≤ t) && decide (t ≤ hi) then 1 else 0) + admittedIn tr lo hi := by
  unfold admittedIn
  by_cases h : (a && decide (lo ≤ t) && decide (t ≤ hi)) = true <;> simp [List.filter_cons, h] <;> omega

/-- requests after the window do not count -/
theorem admittedIn_after (b : Bucket) (ts : List Rat) (lo hi : Rat) (h : ∀ t ∈ ts, hi < t) :
    admittedIn (b.run ts) lo hi = 0 := by
  induction ts generalizing b with
  | nil => rfl
  | cons t ts ih =>
    rw [Bucket.run_cons, admittedIn_cons, ih _ (fun x hx => h x (List.mem_cons_of_mem _ hx))]
    have : ¬ t ≤ hi := not_le.mpr (h t List.mem_cons_self)
    simp [this]

/-- potential argument: from a bucket whose last update is not after the window's end, the
admissions inside `[lo, hi]` are bounded by the tokens available at the window start plus the refill -/
theorem admittedIn_le_potential (b : Bucket) (ts : List Rat) (lo hi : Rat)
    (hg : b.Good) (hs : ts.Pairwise (· ≤ ·)) (hl : ∀ t ∈ ts, b.last ≤ t) (hlh : lo ≤ hi) (hb : b.last ≤ hi) :
    (admittedIn (b.run ts) lo hi : Rat) ≤
      (if lo ≤ b.last then b.tokens + b.rate * (hi - b.last) else b.maxTokens + b.rate * (hi - lo)) := by
  induction ts generalizing b with
  | nil =>
    have h0 := hg.tok_nonneg; have h1 := hg.tok_le; have h2 := hg.rate_nonneg
    have e : admittedIn (b.run []) lo hi = 0 := rfl
    rw [e]
    split
    · have := mul_nonneg h2 (sub_nonneg.mpr hb); push_cast; linarith
    · have := mul_nonneg h2 (sub_nonneg.mpr hlh); push_cast; linarith
  | cons t ts ih =>
    have hbt : b.last ≤ t := hl t List.mem_cons_self
    obtain ⟨hg', hlast', hmax', hrate', htok'⟩ := Bucket.tryConsume_spec b t hg hbt
    have h0 := hg.tok_nonneg; have h1 := hg.tok_le; have h2 := hg.rate_nonneg
    have hs' : ts.Pairwise (· ≤ ·) := (List.pairwise_cons.mp hs).2
    have htl : ∀ x ∈ ts, t ≤ x := (List.pairwise_cons.mp hs).1
    rw [Bucket.run_cons, admittedIn_cons]
    push_cast
    by_cases hthi : t ≤ hi
    · -- the request is not after the window
      have ih' := ih (b.tryConsume t).1 hg' hs' (by intro x hx; rw [hlast']; exact htl x hx) (by rw [hlast']; exact hthi)
      rw [hlast', hrate', hmax'] at ih'
      by_cases hlot : lo ≤ t
      · -- inside the window
        simp only [hlot, if_true] at ih'
        have hmin1 : min (b.tokens + (t - b.last) * b.rate) b.maxTokens ≤ b.tokens + (t - b.last) * b.rate := min_le_left _ _
        have hmin2 : min (b.tokens + (t - b.last) * b.rate) b.maxTokens ≤ b.maxTokens := min_le_right _ _
        have hflag : (if ((b.tryConsume t).2 && decide (lo ≤ t) && decide (t ≤ hi)) = true then (1 : Rat) else 0)
            = (if (b.tryConsume t).2 = true then 1 else 0) := by
          simp [hlot, hthi]
        rw [hflag]
        generalize (if (b.tryConsume t).2 = true then (1 : Rat) else 0) = f at htok' ⊢
        split
        · linarith
        · have : b.rate * (hi - t) ≤ b.rate * (hi - lo) := mul_le_mul_of_nonneg_left (by linarith) h2
          linarith
      · -- before the window: not counted; afterwards the bound is the full burst
        have hlt : t < lo := not_le.mp hlot
        simp only [hlot, if_false] at ih'
        have hbl : ¬ lo ≤ b.last := not_le.mpr (lt_of_le_of_lt hbt hlt)
        simp only [hbl, if_false]
        have : (if ((b.tryConsume t).2 && decide (lo ≤ t) && decide (t ≤ hi)) = true then (1 : Rat) else 0) = 0 := by
          simp [hlot]
        rw [this]; linarith
    · -- after the window: nothing more is counted
      have hall : ∀ x ∈ ts, hi < x := fun x hx => lt_of_lt_of_le (not_le.mp hthi) (htl x hx)
      rw [admittedIn_after _ ts lo hi hall]
      have : (if ((b.tryConsume t).2 && decide (lo ≤ t) && decide (t ≤ hi)) = true then (1 : Rat) else 0) = 0 := by
        simp [hthi]
      rw [this]
      split
      · have := mul_nonneg h2 (sub_nonneg.mpr hb); push_cast; linarith
      · have := mul_nonneg h2 (sub_nonneg.mpr hlh); push_cast; linarith

/-- the bound for one bucket: in every closed window at most `max_tokens + rate·(hi − lo)` admissions -/
theorem bucket_bound (b : Bucket) (ts : List Rat) (lo hi : Rat)
    (hg : b.Good) (hs : ts.Pairwise (· ≤ ·)) (hl : ∀ t ∈ ts, b.last ≤ t) (hlh : lo ≤ hi) :
    (admittedIn (b.run ts) lo hi : Rat) ≤ b.maxTokens + b.rate * (hi - lo) := by
  have h0 := hg.tok_nonneg; have h1 := hg.tok_le; have h2 := hg.rate_nonneg
  by_cases hb : b.last ≤ hi
  · have h := admittedIn_le_potential b ts lo hi hg hs hl hlh hb
    split at h
    · rename_i hlo
      have : b.rate * (hi - b.last) ≤ b.rate * (hi - lo) := mul_le_mul_of_nonneg_left (by linarith) h2
      linarith
    · exact h
  · have hall : ∀ t ∈ ts, hi < t := fun t ht => lt_of_lt_of_le (not_le.mp hb) (hl t ht)
    rw [admittedIn_after b ts lo hi hall]
    have := mul_nonneg h2 (sub_nonneg.mpr hlh)
    push_cast; linarith

/-! ### the per-IP map -/

theorem lookup_cons (x : Nat × Bucket) (xs : List (Nat × Bucket)) (c : Nat) :
    lookup (x :: xs) c = if x.1 = c then some x.2 else lookup xs c := by
  unfold lookup
  by_cases h : x.1 = c <;> simp [h]

theorem erase_cons (x : Nat × Bucket) (xs : List (Nat × Bucket)) (ip : Nat) :
    erase (x :: xs) ip = if x.1 = ip then erase xs ip else x :: erase xs ip := by
  unfold erase
  by_cases h : x.1 = ip <;> simp [h]

theorem lookup_erase_ne (bs : List (Nat × Bucket)) (ip c : Nat) (h : ip ≠ c) :
    lookup (erase bs ip) c = lookup bs c := by
  induction bs with
  | nil => rfl
  | cons x xs ih =>
    rw [erase_cons, lookup_cons]
    by_cases hx : x.1 = ip
    · have hxc : ¬ x.1 = c := by rw [hx]; exact h
      simp [hx, ih, h]
    · simp only [hx, if_false, lookup_cons, ih]

theorem lookup_erase_self (bs : List (Nat × Bucket)) (ip : Nat) : lookup (erase bs ip) ip = none := by
  induction bs with
  | nil => rfl
  | cons x xs ih =>
    rw [erase_cons]
    by_cases hx : x.1 = ip
    · simp [hx, ih]
    · simp [hx, lookup_cons, ih]

theorem lookup_insert_self (bs : List (Nat × Bucket)) (ip : Nat) (b : Bucket) :
    lookup (insert bs ip b) ip = some b := by
  simp [insert, lookup_cons]

theorem lookup_insert_ne (bs : List (Nat × Bucket)) (ip c : Nat) (b : Bucket) (h : ip ≠ c) :
    lookup (insert bs ip b) c = lookup bs c := by
  simp [insert, lookup_cons, h, lookup_erase_ne bs ip c h]

/-! ### `check` and the projection onto one client -/

/-- the value `reset_after` returns (it never panics since the repair) -/
def Bucket.resetSecs (b : Bucket) : Rat :=
  if 1 ≤ b.tokens then 0 else if b.rate = 0 then maxResetAfter else min ((1 - b.tokens) / b.rate) maxResetAfter

theorem Bucket.resetAfter_ok (b : Bucket) : b.resetAfter = .ok b.resetSecs := by
  unfold Bucket.resetAfter Bucket.resetSecs
  split
  · rfl
  · split <;> rfl

/-- the bucket `check` works on for client `c` at time `t` -/
def bucketOf (l : Limiter) (c : Nat) (t : Rat) : Bucket :=
  (lookup l.buckets c).getD (Bucket.new l.cfg.burst l.cfg.rate t)

theorem checkWith_enabled (l : Limiter) (ip : Nat) (now : Rat) (v : Option Nat) (he : l.cfg.enabled = true) :
    let bs := evictFor l.cfg l.buckets ip v
    let b := (lookup bs ip).getD (Bucket.new l.cfg.burst l.cfg.rate now)
    l.checkWith ip now v =
      ({ l with buckets := insert bs ip (b.tryConsume now).1 },
       .ok (if (b.tryConsume now).2 then .allowed (b.tryConsume now).1.remaining (b.tryConsume now).1.resetSecs
            else .limited (b.tryConsume now).1.resetSecs)) := by
  simp only [Limiter.checkWith, he, Bool.not_true, Bucket.resetAfter_ok]
  rfl

theorem checkWith_cfg (l : Limiter) (ip : Nat) (now : Rat) (v : Option Nat) :
    (l.checkWith ip now v).1.cfg = l.cfg := by
  unfold Limiter.checkWith
  split
  · rfl
  · simp only [Bucket.resetAfter_ok]

theorem Limiter.run_cons (l : Limiter) (r : Req) (rs : List Req) :
    l.run (r :: rs) = (r, (l.checkWith r.ip r.now r.victim).2) :: (l.checkWith r.ip r.now r.victim).1.run rs := rfl

/-- client `c`'s admissions are those of its own bucket driven by its own request times, as long
as `c` is not evicted: other clients' requests and evictions do not touch it. -/
theorem clientTrace_eq (c : Nat) (reqs : List Req) (l : Limiter) (he : l.cfg.enabled = true)
    (hst : StaysTracked c l reqs) :
    clientTrace c (l.run reqs)
      = (bucketOf l c (((reqs.filter (·.ip = c)).map (·.now)).headD 0)).run ((reqs.filter (·.ip = c)).map (·.now)) := by
  induction reqs generalizing l with
  | nil => rfl
  | cons r rs ih =>
    obtain ⟨hkeep, hst'⟩ := hst
    have hcfg := checkWith_cfg l r.ip r.now r.victim
    have he' : (l.checkWith r.ip r.now r.victim).1.cfg.enabled = true := by rw [hcfg]; exact he
    have ih' := ih _ he' hst'
    have hstep := checkWith_enabled l r.ip r.now r.victim he
    simp only at hstep
    rw [Limiter.run_cons]
    by_cases hc : r.ip = c
    · -- c's own request
      subst hc
      have hb : (lookup (evictFor l.cfg l.buckets r.ip r.victim) r.ip).getD (Bucket.new l.cfg.burst l.cfg.rate r.now)
          = bucketOf l r.ip r.now := by rw [hkeep]; rfl
      rw [hb] at hstep
      have hlk : lookup (l.checkWith r.ip r.now r.victim).1.buckets r.ip = some ((bucketOf l r.ip r.now).tryConsume r.now).1 := by
        rw [hstep]; exact lookup_insert_self _ _ _
      have hbo : ∀ t, bucketOf (l.checkWith r.ip r.now r.victim).1 r.ip t = ((bucketOf l r.ip r.now).tryConsume r.now).1 := by
        intro t; unfold bucketOf; rw [hlk]; rfl
      rw [hbo] at ih'
      have hflag : admittedFlag (l.checkWith r.ip r.now r.victim).2
          = ((bucketOf l r.ip r.now).tryConsume r.now).2 := by
        rw [hstep]
        cases ((bucketOf l r.ip r.now).tryConsume r.now).2 <;> rfl
      simp only [clientTrace, List.filter_cons, decide_true, if_true, List.map_cons, List.headD_cons] at ih' ⊢
      rw [Bucket.run_cons, ih', hflag]
    · -- another client's request
      have hlk : lookup (l.checkWith r.ip r.now r.victim).1.buckets c = lookup l.buckets c := by
        rw [hstep]; show lookup (insert _ _ _) c = _
        rw [lookup_insert_ne _ _ _ _ hc, hkeep]
      have hbo : ∀ t, bucketOf (l.checkWith r.ip r.now r.victim).1 c t = bucketOf l c t := by
        intro t; unfold bucketOf; rw [hlk, hcfg]
      rw [hbo] at ih'
      simp only [clientTrace, List.filter_cons, hc, decide_false, if_false, Bool.false_eq_true] at ih' ⊢
      exact ih'

theorem lookup_mem (bs : List (Nat × Bucket)) (c : Nat) (b : Bucket) (h : lookup bs c = some b) : (c, b) ∈ bs := by
  induction bs with
  | nil => simp [lookup] at h
  | cons x xs ih =>
    rw [lookup_cons] at h
    by_cases hx : x.1 = c
    · simp only [hx, if_true, Option.some.injEq] at h
      have : x = (c, b) := by cases x; simp_all
      rw [this]; exact List.mem_cons_self
    · simp only [hx, if_false] at h
      exact List.mem_cons_of_mem _ (ih h)

/-- well-formed limiter state relative to the coming requests: every bucket satisfies the
invariant, carries the configured burst and rate, and was last updated no later than the requests -/
def Limiter.WF (l : Limiter) (reqs : List Req) : Prop :=
  ∀ p ∈ l.buckets, p.2.Good ∧ p.2.maxTokens = l.cfg.burst ∧ p.2.rate = l.cfg.rate ∧ ∀ r ∈ reqs, p.2.last ≤ r.now

theorem limiter_bound (c : Nat) (reqs : List Req) (l : Limiter) (lo hi : Rat)
    (he : l.cfg.enabled = true) (hwf : l.WF reqs) (hs : (reqs.map (·.now)).Pairwise (· ≤ ·))
    (hst : StaysTracked c l reqs) (hlh : lo ≤ hi) :
    (admittedIn (clientTrace c (l.run reqs)) lo hi : Rat) ≤ l.cfg.burst + l.cfg.rate * (hi - lo) := by
  rw [clientTrace_eq c reqs l he hst]
  have hsorted : ((reqs.filter (·.ip = c)).map (·.now)).Pairwise (· ≤ ·) :=
    (List.pairwise_map.mpr ((List.pairwise_map.mp hs).filter _))
  generalize hts : (reqs.filter (·.ip = c)).map (·.now) = ts at hsorted
  have hmem : ∀ t ∈ ts, ∃ r ∈ reqs, r.now = t := by
    intro t ht; rw [← hts] at ht
    obtain ⟨r, hr, rfl⟩ := List.mem_map.mp ht
    exact ⟨r, (List.mem_filter.mp hr).1, rfl⟩
  have key : (bucketOf l c (ts.headD 0)).Good ∧ (bucketOf l c (ts.headD 0)).maxTokens = l.cfg.burst ∧
      (bucketOf l c (ts.headD 0)).rate = l.cfg.rate ∧ ∀ t ∈ ts, (bucketOf l c (ts.headD 0)).last ≤ t := by
    unfold bucketOf
    cases hlk : lookup l.buckets c with
    | some b =>
      obtain ⟨g, m, r, hl⟩ := hwf _ (lookup_mem _ _ _ hlk)
      refine ⟨g, m, r, ?_⟩
      intro t ht; obtain ⟨q, hq, rfl⟩ := hmem t ht; exact hl q hq
    | none =>
      refine ⟨Bucket.new_good _ _ _, rfl, rfl, ?_⟩
      intro t ht
      cases ts with
      | nil => cases ht
      | cons t0 ts' =>
        show t0 ≤ t
        rcases List.mem_cons.mp ht with h | h
        · rw [h]
        · exact (List.pairwise_cons.mp hsorted).1 t h
  obtain ⟨g, m, r, hl⟩ := key
  have := bucket_bound _ ts lo hi g hsorted hl hlh
  rw [m, r] at this
  exact this

/-! ### capacity of the tracked-IP map -/

def keys (bs : List (Nat × Bucket)) : List Nat := bs.map (·.1)

theorem exists_min_last (bs : List (Nat × Bucket)) (h : bs ≠ []) :
    ∃ p ∈ bs, ∀ q ∈ bs, p.2.last ≤ q.2.last := by
  induction bs with
  | nil => exact absurd rfl h
  | cons x xs ih =>
    by_cases hx : xs = []
    · subst hx; exact ⟨x, List.mem_cons_self, by intro q hq; simp at hq; rw [hq]⟩
    · obtain ⟨p, hp, hmin⟩ := ih hx
      rcases le_total x.2.last p.2.last with hle | hle
      · refine ⟨x, List.mem_cons_self, ?_⟩
        intro q hq
        rcases List.mem_cons.mp hq with rfl | hq
        · exact le_refl _
        · exact le_trans hle (hmin q hq)
      · refine ⟨p, List.mem_cons_of_mem _ hp, ?_⟩
        intro q hq
        rcases List.mem_cons.mp hq with rfl | hq
        · exact hle
        · exact hmin q hq

theorem pickVictim_some (bs : List (Nat × Bucket)) (h : bs ≠ []) : ∃ v, pickVictim bs = some v ∧ v ∈ keys bs := by
  obtain ⟨p, hp, hmin⟩ := exists_min_last bs h
  have hmem : p.1 ∈ minLastKeys bs := by
    unfold minLastKeys
    apply List.mem_map.mpr
    refine ⟨p, List.mem_filter.mpr ⟨hp, ?_⟩, rfl⟩
    simp only [List.all_eq_true, decide_eq_true_eq]
    intro q hq; exact hmin q hq
  have hsub : ∀ v ∈ minLastKeys bs, v ∈ keys bs := by
    intro v hv
    unfold minLastKeys at hv
    obtain ⟨q, hq, rfl⟩ := List.mem_map.mp hv
    exact List.mem_map.mpr ⟨q, (List.mem_filter.mp hq).1, rfl⟩
  unfold pickVictim
  cases hm : minLastKeys bs with
  | nil => rw [hm] at hmem; cases hmem
  | cons v vs => exact ⟨v, rfl, hsub v (by rw [hm]; exact List.mem_cons_self)⟩

theorem erase_length_of_mem (bs : List (Nat × Bucket)) (v : Nat) (hn : (keys bs).Nodup) (hv : v ∈ keys bs) :
    (erase bs v).length + 1 = bs.length := by
  induction bs with
  | nil => cases hv
  | cons x xs ih =>
    rw [erase_cons]
    simp only [keys, List.map_cons, List.nodup_cons] at hn
    by_cases hx : x.1 = v
    · simp only [hx, if_true]
      have : v ∉ xs.map (·.1) := by rw [← hx]; exact hn.1
      have he : erase xs v = xs := by
        unfold erase
        apply List.filter_eq_self.mpr
        intro q hq
        simp only [decide_eq_true_eq]
        intro hqv; exact this (List.mem_map.mpr ⟨q, hq, hqv⟩)
      rw [he]; rfl
    · simp only [hx, if_false, List.length_cons]
      have hv' : v ∈ keys xs := by
        simp only [keys, List.map_cons, List.mem_cons] at hv
        rcases hv with h | h
        · exact absurd h.symm hx
        · exact h
      have := ih hn.2 hv'
      omega

theorem erase_of_not_mem (bs : List (Nat × Bucket)) (v : Nat) (hv : v ∉ keys bs) : erase bs v = bs := by
  unfold erase
  apply List.filter_eq_self.mpr
  intro q hq
  simp only [decide_eq_true_eq]
  intro hqv; exact hv (List.mem_map.mpr ⟨q, hq, hqv⟩)

theorem keys_erase_nodup (bs : List (Nat × Bucket)) (v : Nat) (hn : (keys bs).Nodup) : (keys (erase bs v)).Nodup := by
  unfold keys erase
  exact (List.Nodup.sublist ((List.filter_sublist).map _) hn)

theorem not_mem_keys_erase (bs : List (Nat × Bucket)) (v : Nat) : v ∉ keys (erase bs v) := by
  unfold keys erase
  intro h
  obtain ⟨q, hq, hqv⟩ := List.mem_map.mp h
  have := (List.mem_filter.mp hq).2
  simp at this
  exact this hqv

theorem mem_keys_iff_lookup (bs : List (Nat × Bucket)) (ip : Nat) : ip ∈ keys bs ↔ (lookup bs ip).isSome = true := by
  induction bs with
  | nil => simp [keys, lookup]
  | cons x xs ih =>
    rw [lookup_cons]
    by_cases hx : x.1 = ip
    · simp [keys, hx]
    · simp only [hx, if_false]
      rw [← ih]
      simp only [keys, List.map_cons, List.mem_cons]
      constructor
      · rintro (h | h)
        · exact absurd h.symm hx
        · exact h
      · exact Or.inr

/-- the tracked-IP map stays within its capacity (at least one entry is always allowed) and its keys stay distinct -/
theorem check_capacity (l : Limiter) (ip : Nat) (now : Rat)
    (hn : (keys l.buckets).Nodup) (hlen : l.buckets.length ≤ max l.cfg.cap 1) :
    (keys (l.check ip now).1.buckets).Nodup ∧ (l.check ip now).1.buckets.length ≤ max l.cfg.cap 1 := by
  unfold Limiter.check Limiter.checkWith
  by_cases he : l.cfg.enabled = true
  · simp only [he, Bool.not_true, Bool.false_eq_true, if_false, Bucket.resetAfter_ok]
    generalize hbs : evictFor l.cfg l.buckets ip (pickVictim l.buckets) = bs
    have key : (keys bs).Nodup ∧ (if ip ∈ keys bs then bs.length else bs.length + 1) ≤ max l.cfg.cap 1 := by
      rw [← hbs]
      unfold evictFor
      by_cases hnew : ((lookup l.buckets ip).isNone && decide (l.cfg.cap ≤ l.buckets.length)) = true
      · simp only [hnew, if_true]
        have hnone : ip ∉ keys l.buckets := by
          rw [mem_keys_iff_lookup]; simp at hnew; simp [hnew.1]
        have hcap : l.cfg.cap ≤ l.buckets.length := by simp at hnew; exact hnew.2
        by_cases hempty : l.buckets = []
        · have : pickVictim l.buckets = none := by rw [hempty]; rfl
          rw [this]; simp only [hempty]
          refine ⟨by simp [keys], ?_⟩
          simp [keys]
        · obtain ⟨v, hv, hvm⟩ := pickVictim_some l.buckets hempty
          rw [hv]
          simp only
          refine ⟨keys_erase_nodup _ _ hn, ?_⟩
          have hl := erase_length_of_mem l.buckets v hn hvm
          have hnotin : ip ∉ keys (erase l.buckets v) := by
            intro h
            unfold keys erase at h
            obtain ⟨q, hq, hqv⟩ := List.mem_map.mp h
            exact hnone (List.mem_map.mpr ⟨q, (List.mem_filter.mp hq).1, hqv⟩)
          simp only [hnotin, if_false]
          omega
      · simp only [hnew, if_false, Bool.false_eq_true]
        refine ⟨hn, ?_⟩
        split
        · exact hlen
        · rename_i hnotin
          have hnone : (lookup l.buckets ip).isNone = true := by
            rw [mem_keys_iff_lookup] at hnotin; simpa using hnotin
          simp [hnone] at hnew
          omega
    obtain ⟨hnd, hl⟩ := key
    simp only [insert]
    constructor
    · simp only [keys, List.map_cons, List.nodup_cons]
      exact ⟨not_mem_keys_erase bs ip, keys_erase_nodup bs ip hnd⟩
    · simp only [List.length_cons]
      by_cases hin : ip ∈ keys bs
      · simp only [hin, if_true] at hl
        have := erase_length_of_mem bs ip hnd hin
        omega
      · simp only [hin, if_false] at hl
        rw [erase_of_not_mem bs ip hin]; exact hl
  · simp only [he, Bool.not_false, if_true]
    exact ⟨hn, hlen⟩
/-! ### the bound under rounding -/

theorem requestsIn_cons (p : Rat × Bool) (tr : List (Rat × Bool)) (lo hi : Rat) :
    requestsIn (p :: tr) lo hi = (if decide (lo ≤ p.1) && decide (p.1 ≤ hi) then 1 else 0) + requestsIn tr lo hi := by
  unfold requestsIn
  by_cases h : (decide (lo ≤ p.1) && decide (p.1 ≤ hi)) = true <;> simp [h] <;> omega

theorem admittedIn_zero_of_after (tr : List (Rat × Bool)) (lo hi : Rat) (h : ∀ p ∈ tr, hi < p.1) :
    admittedIn tr lo hi = 0 := by
  induction tr with
  | nil => rfl
  | cons p tr ih =>
    obtain ⟨t, a⟩ := p
    rw [admittedIn_cons, ih (fun q hq => h q (List.mem_cons_of_mem _ hq))]
    have : ¬ t ≤ hi := not_le.mpr (h (t, a) List.mem_cons_self)
    simp [this]

theorem approxStep_good (ε : Rat) (b b' : Bucket) (t : Rat) (a : Bool) (hg : b.Good) (hs : ApproxStep ε b t b' a) :
    b'.Good := by
  obtain ⟨_, hm, hr, w, hw0, hwm, _, _, ha1, ha0, htok⟩ := hs
  cases a with
  | true =>
    have := ha1 rfl
    simp only [if_true] at htok
    exact ⟨by rw [htok]; linarith, by rw [htok, hm]; linarith, by rw [hr]; exact hg.rate_nonneg⟩
  | false =>
    simp only [Bool.false_eq_true, if_false, sub_zero] at htok
    exact ⟨by rw [htok]; exact hw0, by rw [htok, hm]; exact hwm, by rw [hr]; exact hg.rate_nonneg⟩

theorem approx_potential (ε : Rat) (hε : 0 ≤ ε) (tr : List (Rat × Bool)) (b : Bucket) (lo hi : Rat)
    (hg : b.Good) (hrun : ApproxRun ε b tr) (hs : (tr.map (·.1)).Pairwise (· ≤ ·)) (hl : ∀ p ∈ tr, b.last ≤ p.1)
    (hlh : lo ≤ hi) (hb : b.last ≤ hi) :
    (admittedIn tr lo hi : Rat) ≤
      (if lo ≤ b.last then b.tokens + b.rate * (hi - b.last) else b.maxTokens + b.rate * (hi - lo))
        + ε * (requestsIn tr lo hi : Rat) := by
  induction tr generalizing b with
  | nil =>
    have h0 := hg.tok_nonneg; have h1 := hg.tok_le; have h2 := hg.rate_nonneg
    have e : admittedIn ([] : List (Rat × Bool)) lo hi = 0 := rfl
    have e2 : requestsIn ([] : List (Rat × Bool)) lo hi = 0 := rfl
    rw [e, e2]
    split
    · have := mul_nonneg h2 (sub_nonneg.mpr hb); push_cast; linarith
    · have := mul_nonneg h2 (sub_nonneg.mpr hlh); push_cast; linarith
  | cons p tr ih =>
    obtain ⟨t, a⟩ := p
    obtain ⟨b', hstep, hrun'⟩ := hrun
    have hg' := approxStep_good ε b b' t a hg hstep
    obtain ⟨hlast', hmax', hrate', w, hw0, hwm, hwup, _, ha1, ha0, htok⟩ := hstep
    simp only at hlast' htok ha1 ha0 hwup
    have hbt : b.last ≤ t := hl (t, a) List.mem_cons_self
    have h0 := hg.tok_nonneg; have h1 := hg.tok_le; have h2 := hg.rate_nonneg
    have hs' : (tr.map (·.1)).Pairwise (· ≤ ·) := (List.pairwise_cons.mp hs).2
    have htl : ∀ q ∈ tr, t ≤ q.1 := by
      intro q hq
      exact (List.pairwise_cons.mp hs).1 q.1 (List.mem_map.mpr ⟨q, hq, rfl⟩)
    rw [admittedIn_cons, requestsIn_cons]
    push_cast
    have hmin1 : min (b.tokens + (t - b.last) * b.rate) b.maxTokens ≤ b.tokens + (t - b.last) * b.rate := min_le_left _ _
    have hmin2 : min (b.tokens + (t - b.last) * b.rate) b.maxTokens ≤ b.maxTokens := min_le_right _ _
    have hcnt0 : (0 : Rat) ≤ (requestsIn tr lo hi : Rat) := by exact_mod_cast Nat.zero_le _
    have hεc : 0 ≤ ε * (requestsIn tr lo hi : Rat) := mul_nonneg hε hcnt0
    by_cases hthi : t ≤ hi
    · have ih' := ih b' hg' hrun' hs' (by intro q hq; rw [hlast']; exact htl q hq) (by rw [hlast']; exact hthi)
      rw [hlast', hrate', hmax'] at ih'
      by_cases hlot : lo ≤ t
      · simp only [hlot, if_true] at ih'
        have hflag : (if (a && decide (lo ≤ t) && decide (t ≤ hi)) = true then (1 : Rat) else 0)
            = (if a = true then 1 else 0) := by simp [hlot, hthi]
        have hreq : (if (decide (lo ≤ t) && decide (t ≤ hi)) = true then (1 : Rat) else 0) = 1 := by simp [hlot, hthi]
        rw [hflag, hreq]
        have htok' : b'.tokens + (if a = true then (1 : Rat) else 0) = w := by
          rw [htok]; cases a <;> simp
        generalize (if a = true then (1 : Rat) else 0) = f at htok' ⊢
        split
        · nlinarith
        · have : b.rate * (hi - t) ≤ b.rate * (hi - lo) := mul_le_mul_of_nonneg_left (by linarith) h2
          nlinarith
      · have hlt : t < lo := not_le.mp hlot
        simp only [hlot, if_false] at ih'
        have hbl : ¬ lo ≤ b.last := not_le.mpr (lt_of_le_of_lt hbt hlt)
        simp only [hbl, if_false]
        have e1 : (if (a && decide (lo ≤ t) && decide (t ≤ hi)) = true then (1 : Rat) else 0) = 0 := by simp [hlot]
        have e2 : (if (decide (lo ≤ t) && decide (t ≤ hi)) = true then (1 : Rat) else 0) = 0 := by simp [hlot]
        rw [e1, e2]; linarith
    · have hall : ∀ q ∈ tr, hi < q.1 := fun q hq => lt_of_lt_of_le (not_le.mp hthi) (htl q hq)
      rw [admittedIn_zero_of_after tr lo hi hall]
      have e1 : (if (a && decide (lo ≤ t) && decide (t ≤ hi)) = true then (1 : Rat) else 0) = 0 := by simp [hthi]
      have e2 : (if (decide (lo ≤ t) && decide (t ≤ hi)) = true then (1 : Rat) else 0) = 0 := by simp [hthi]
      rw [e1, e2]
      split
      · have := mul_nonneg h2 (sub_nonneg.mpr hb); push_cast; linarith
      · have := mul_nonneg h2 (sub_nonneg.mpr hlh); push_cast; linarith

/-- the bound with an explicit rounding term: `ε` per request in the window -/
theorem approx_bucket_bound (ε : Rat) (hε : 0 ≤ ε) (tr : List (Rat × Bool)) (b : Bucket) (lo hi : Rat)
    (hg : b.Good) (hrun : ApproxRun ε b tr) (hs : (tr.map (·.1)).Pairwise (· ≤ ·)) (hl : ∀ p ∈ tr, b.last ≤ p.1)
    (hlh : lo ≤ hi) :
    (admittedIn tr lo hi : Rat) ≤ b.maxTokens + b.rate * (hi - lo) + ε * (requestsIn tr lo hi : Rat) := by
  have h0 := hg.tok_nonneg; have h1 := hg.tok_le; have h2 := hg.rate_nonneg
  have hcnt0 : (0 : Rat) ≤ (requestsIn tr lo hi : Rat) := by exact_mod_cast Nat.zero_le _
  by_cases hb : b.last ≤ hi
  · have h := approx_potential ε hε tr b lo hi hg hrun hs hl hlh hb
    split at h
    · have : b.rate * (hi - b.last) ≤ b.rate * (hi - lo) := mul_le_mul_of_nonneg_left (by linarith) h2
      linarith
    · exact h
  · have hall : ∀ p ∈ tr, hi < p.1 := fun p hp => lt_of_lt_of_le (not_le.mp hb) (hl p hp)
    rw [admittedIn_zero_of_after tr lo hi hall]
    have := mul_nonneg h2 (sub_nonneg.mpr hlh)
    have := mul_nonneg hε hcnt0
    push_cast; linarith
/-- corollary: as long as the accumulated rounding stays below one token, at most one extra admission -/
theorem approx_bucket_bound_slack (ε : Rat) (hε : 0 ≤ ε) (tr : List (Rat × Bool)) (b : Bucket) (lo hi : Rat)
    (hg : b.Good) (hrun : ApproxRun ε b tr) (hs : (tr.map (·.1)).Pairwise (· ≤ ·)) (hl : ∀ p ∈ tr, b.last ≤ p.1)
    (hlh : lo ≤ hi) (hsmall : ε * (requestsIn tr lo hi : Rat) ≤ 1) :
    (admittedIn tr lo hi : Rat) ≤ b.maxTokens + b.rate * (hi - lo) + 1 := by
  have := approx_bucket_bound ε hε tr b lo hi hg hrun hs hl hlh
  linarith

/-- the exact model is the special case `ε = 0` -/
theorem exact_is_approx (b : Bucket) (ts : List Rat) (hg : b.Good) (hs : ts.Pairwise (· ≤ ·))
    (hl : ∀ t ∈ ts, b.last ≤ t) : ApproxRun 0 b (b.run ts) := by
  induction ts generalizing b with
  | nil => trivial
  | cons t ts ih =>
    have hbt : b.last ≤ t := hl t List.mem_cons_self
    obtain ⟨hg', hlast', hmax', hrate', htok'⟩ := Bucket.tryConsume_spec b t hg hbt
    rw [Bucket.run_cons]
    refine ⟨(b.tryConsume t).1, ⟨hlast', hmax', hrate', min (b.tokens + (t - b.last) * b.rate) b.maxTokens, ?_, min_le_right _ _, by simp, by simp, ?_, ?_, ?_⟩, ?_⟩
    · have h0 := hg.tok_nonneg; have h1 := hg.tok_le
      have := mul_nonneg (sub_nonneg.mpr hbt) hg.rate_nonneg
      exact le_min (by linarith) (by linarith)
    · intro ha; simp only at ha; rw [ha] at htok'; simp only [if_true] at htok'
      have := hg'.tok_nonneg; linarith
    · intro ha; simp only at ha; rw [ha] at htok'; simp only [Bool.false_eq_true, if_false, add_zero] at htok'
      rw [← htok']
      simp only [Bucket.tryConsume, Bucket.refill, hbt, if_true] at ha ⊢
      split at ha
      · simp at ha
      · rename_i hlt; simp only [hlt, if_false]; exact not_le.mp hlt
    · simp only; linarith
    · apply ih _ hg' (List.pairwise_cons.mp hs).2
      intro x hx; rw [hlast']; exact (List.pairwise_cons.mp hs).1 x hx

/-! ### a concrete history (non-vacuity witness of C30): capacity 1, client 1 is evicted by client 2,
client 2 uses its burst of 2 and is then rejected with retry-after 1/4 s at rate 2 -/
namespace Witness
def cfg0 : Config := { rate := 2, burst := 2, cap := 1 }
def l1 : Limiter := { cfg := cfg0, buckets := [(1, ⟨1, 0, 2, 2⟩)] }
def l2 : Limiter := { cfg := cfg0, buckets := [(2, ⟨1, 0, 2, 2⟩)] }
def l3 : Limiter := { cfg := cfg0, buckets := [(2, ⟨0, 0, 2, 2⟩)] }
def l4 : Limiter := { cfg := cfg0, buckets := [(2, ⟨1/2, 1/4, 2, 2⟩)] }
def reqs : List Req := [⟨1, 0, none⟩, ⟨2, 0, some 1⟩, ⟨2, 0, none⟩, ⟨2, 1/4, none⟩]

theorem s1 : (Limiter.new cfg0).checkWith 1 0 none = (l1, .ok (.allowed 1 0)) := by
  norm_num [Limiter.new, cfg0, l1, Limiter.checkWith, evictFor, lookup, Varpulis.RateLimit.insert, erase, Bucket.new,
    Bucket.tryConsume, Bucket.refill, Bucket.resetAfter, Bucket.remaining, maxResetAfter]
  decide
theorem s2 : l1.checkWith 2 0 (some 1) = (l2, .ok (.allowed 1 0)) := by
  norm_num [cfg0, l1, l2, Limiter.checkWith, evictFor, lookup, Varpulis.RateLimit.insert, erase, Bucket.new,
    Bucket.tryConsume, Bucket.refill, Bucket.resetAfter, Bucket.remaining, maxResetAfter]
  decide
theorem s3 : l2.checkWith 2 0 none = (l3, .ok (.allowed 0 (1/2))) := by
  norm_num [cfg0, l3, l2, Limiter.checkWith, evictFor, lookup, Varpulis.RateLimit.insert, erase, Bucket.new,
    Bucket.tryConsume, Bucket.refill, Bucket.resetAfter, Bucket.remaining, maxResetAfter]
  decide
theorem s4 : l3.checkWith 2 (1/4) none = (l4, .ok (.limited (1/4))) := by
  norm_num [cfg0, l3, l4, Limiter.checkWith, evictFor, lookup, Varpulis.RateLimit.insert, erase, Bucket.new,
    Bucket.tryConsume, Bucket.refill, Bucket.resetAfter, Bucket.remaining, maxResetAfter]

theorem history :
    StaysTracked 2 (Limiter.new cfg0) reqs ∧ ¬ StaysTracked 1 (Limiter.new cfg0) reqs ∧
    ((Limiter.new cfg0).run reqs).map (·.2)
      = [.ok (.allowed 1 0), .ok (.allowed 1 0), .ok (.allowed 0 (1/2)), .ok (.limited (1/4))] := by
  simp only [reqs, StaysTracked, Limiter.run, s1, s2, s3, s4, List.map]
  norm_num [Limiter.new, cfg0, l1, l2, l3, evictFor, lookup, erase]
  intro h; cases h
end Witness

end Varpulis.RateLimit
