import Varpulis.Model.Value
import Batteries.Data.List.Perm
/-! Lemmas for C40: `veq` is an equivalence on well-formed values and determines `hashToks`. -/
namespace Varpulis.Val

/-! ### floats -/

theorem F64.not_nan_of_zero (f : F64) (h : f.isZero = true) : f.isNan = false := by
  simp only [F64.isZero, F64.isNan, F64.expo, F64.mant, beq_iff_eq, Bool.and_eq_false_imp] at *
  intro h2; omega

theorem F64.nan_of_canonical (f : F64) (h : f.bits = F64.canonicalNan) : f.isNan = true := by
  simp [F64.isNan, F64.expo, F64.mant, h, F64.canonicalNan]

/-- `float_eq` holds exactly when the hashed bit patterns coincide -/
theorem floatEq_iff (a b : F64) : floatEq a b = true ↔ floatHashBits a = floatHashBits b := by
  have za := F64.not_nan_of_zero a
  have zb := F64.not_nan_of_zero b
  have ca := F64.nan_of_canonical a
  have cb := F64.nan_of_canonical b
  unfold floatEq floatHashBits F64.ieeeEq
  cases hna : a.isNan <;> cases hnb : b.isNan <;> cases hza : a.isZero <;> cases hzb : b.isZero <;>
    simp_all [F64.canonicalNan] <;> (try (simp [F64.isZero] at *; omega))

/-! ### induction over value trees -/

theorem Value.ind {P : Value → Prop}
    (hscalar : ∀ v, (∀ l, v ≠ .array l) → (∀ m, v ≠ .map m) → P v)
    (harr : ∀ l, (∀ v ∈ l, P v) → P (.array l))
    (hmap : ∀ m, (∀ kv ∈ m, P kv.2) → P (.map m)) : ∀ v, P v := by
  intro v
  refine Value.rec (motive_1 := P) (motive_2 := fun l => ∀ v ∈ l, P v)
    (motive_3 := fun m => ∀ kv ∈ m, P kv.2) (motive_4 := fun kv => P kv.2)
    ?_ ?_ ?_ ?_ ?_ ?_ ?_ harr hmap ?_ ?_ ?_ ?_ ?_ v
  · apply hscalar <;> intros <;> simp
  · intro b; apply hscalar <;> intros <;> simp
  · intro b; apply hscalar <;> intros <;> simp
  · intro b; apply hscalar <;> intros <;> simp
  · intro b; apply hscalar <;> intros <;> simp
  · intro b; apply hscalar <;> intros <;> simp
  · intro b; apply hscalar <;> intros <;> simp
  · intro v hv; cases hv
  · intro h t ih1 ih2 v hv
    rcases List.mem_cons.mp hv with rfl | hv
    · exact ih1
    · exact ih2 v hv
  · intro v hv; cases hv
  · intro h t ih1 ih2 v hv
    rcases List.mem_cons.mp hv with rfl | hv
    · exact ih1
    · exact ih2 v hv
  · intro k v ih; exact ih

/-! ### maps as association lists with distinct keys -/

def keys (m : List (String × Value)) : List String := m.map (·.1)

theorem lookupV_none (k : String) (m : List (String × Value)) : lookupV k m = none ↔ k ∉ keys m := by
  induction m with
  | nil => simp [lookupV, keys]
  | cons kv r ih =>
    obtain ⟨k', v⟩ := kv
    by_cases e : k' = k
    · simp [lookupV, keys, e]
    · have e' : ¬ k = k' := fun h => e h.symm
      simp only [lookupV, keys, List.map_cons, List.mem_cons, not_or, beq_iff_eq, e, if_false, e',
        not_false_eq_true, true_and]
      exact ih

theorem lookupV_mem {k : String} {m : List (String × Value)} {v : Value} (h : lookupV k m = some v) :
    (k, v) ∈ m := by
  induction m with
  | nil => simp [lookupV] at h
  | cons kv r ih =>
    obtain ⟨k', v'⟩ := kv
    simp only [lookupV] at h
    split at h
    · simp_all
    · exact List.mem_cons_of_mem _ (ih h)

theorem mem_keys {k : String} {v : Value} {m : List (String × Value)} (h : (k, v) ∈ m) : k ∈ keys m :=
  List.mem_map.mpr ⟨(k, v), h, rfl⟩

theorem lookupV_of_mem {k : String} {m : List (String × Value)} {v : Value} (hn : (keys m).Nodup)
    (h : (k, v) ∈ m) : lookupV k m = some v := by
  induction m with
  | nil => simp at h
  | cons kv r ih =>
    obtain ⟨k', v'⟩ := kv
    simp only [keys, List.map_cons, List.nodup_cons] at hn
    rcases List.mem_cons.mp h with e | h
    · cases e; simp [lookupV]
    · have : k' ≠ k := by
        intro e; subst e; exact hn.1 (mem_keys h)
      simp only [lookupV, beq_iff_eq, this, if_false]
      exact ih hn.2 h

theorem wfEntries_iff (m : List (String × Value)) :
    wfEntries m = true ↔ (keys m).Nodup ∧ ∀ kv ∈ m, wf kv.2 = true := by
  induction m with
  | nil => simp [wfEntries, keys]
  | cons kv r ih =>
    obtain ⟨k, v⟩ := kv
    simp only [wfEntries, Bool.and_eq_true, ih, Option.isNone_iff_eq_none, lookupV_none, keys, List.map_cons,
      List.nodup_cons, List.mem_cons, forall_eq_or_imp] at *
    constructor
    · rintro ⟨⟨h1, h2⟩, h3, h4⟩; exact ⟨⟨h2, h3⟩, h1, h4⟩
    · rintro ⟨⟨h2, h3⟩, h1, h4⟩; exact ⟨⟨h1, h2⟩, h3, h4⟩

theorem wfList_iff (l : List Value) : wfList l = true ↔ ∀ v ∈ l, wf v = true := by
  induction l with
  | nil => simp [wfList]
  | cons v r ih => simp [wfList, ih]

/-- `IndexMap::insert` keeps the keys distinct -/
theorem keys_insertV (k : String) (v : Value) (m : List (String × Value)) :
    keys (insertV k v m) = if k ∈ keys m then keys m else keys m ++ [k] := by
  induction m with
  | nil => simp [insertV, keys]
  | cons kv r ih =>
    obtain ⟨k', v'⟩ := kv
    by_cases e : k' = k
    · simp [insertV, keys, e]
    · have e' : ¬ k = k' := fun h => e h.symm
      simp only [insertV, beq_iff_eq, e, if_false, keys, List.map_cons, List.mem_cons, e', false_or]
      have ih' := ih; simp only [keys] at ih'
      rw [ih']; split <;> simp_all

theorem wfEntries_insertV (k : String) (v : Value) (m : List (String × Value))
    (hm : wfEntries m = true) (hv : wf v = true) : wfEntries (insertV k v m) = true := by
  rw [wfEntries_iff] at *
  refine ⟨?_, ?_⟩
  · rw [keys_insertV]; split
    · exact hm.1
    · rename_i h
      refine List.nodup_append.mpr ⟨hm.1, by simp, fun a ha b hb e => h ?_⟩
      simp only [List.mem_singleton] at hb; subst hb; subst e; exact ha
  · intro kv hkv
    have : ∀ m : List (String × Value), kv ∈ insertV k v m → kv ∈ m ∨ kv.2 = v := by
      intro m; induction m with
      | nil => simp [insertV]; rintro rfl; rfl
      | cons x r ih =>
        obtain ⟨k', v'⟩ := x
        simp only [insertV]; split
        · simp only [List.mem_cons]; rintro (rfl | h) <;> simp_all
        · simp only [List.mem_cons]; rintro (rfl | h)
          · simp
          · rcases ih h with h | h <;> simp [h]
    rcases this m hkv with h | h
    · exact hm.2 kv h
    · rw [h]; exact hv

theorem veqSub_iff (a b : List (String × Value)) :
    veqSub a b = true ↔ ∀ kv ∈ a, ∃ v2, lookupV kv.1 b = some v2 ∧ veq kv.2 v2 = true := by
  induction a with
  | nil => simp [veqSub]
  | cons kv r ih =>
    obtain ⟨k, v⟩ := kv
    simp only [veqSub, Bool.and_eq_true, ih, List.mem_cons, forall_eq_or_imp]
    constructor
    · rintro ⟨h1, h2⟩; refine ⟨?_, h2⟩; split at h1 <;> simp_all
    · rintro ⟨⟨v2, h1, h1'⟩, h2⟩; refine ⟨?_, h2⟩; simp [h1, h1']

theorem veqList_iff (a b : List Value) :
    veqList a b = true ↔ List.Forall₂ (fun x y => veq x y = true) a b := by
  induction a generalizing b with
  | nil => cases b with
    | nil => simp [veqList]
    | cons y ys => simp [veqList]; intro h; cases h
  | cons x xs ih => cases b with
    | nil => simp [veqList]; intro h; cases h
    | cons y ys => simp [veqList, ih]

/-- pigeonhole: with distinct keys and equal sizes, "every entry of `a` has an equal partner in `b`"
already reaches every entry of `b` -/
theorem veqSub_onto {a b : List (String × Value)} (ha : (keys a).Nodup) (hb : (keys b).Nodup)
    (hlen : a.length = b.length) (hs : veqSub a b = true) :
    ∀ kv ∈ b, ∃ v, (kv.1, v) ∈ a ∧ veq v kv.2 = true := by
  rw [veqSub_iff] at hs
  have hsub : keys a ⊆ keys b := by
    intro k hk
    obtain ⟨⟨k', v⟩, hmem, rfl⟩ := List.mem_map.mp hk
    obtain ⟨v2, h1, _⟩ := hs _ hmem
    exact mem_keys (lookupV_mem h1)
  have hperm : (keys a).Perm (keys b) :=
    (List.subperm_of_subset ha hsub).perm_of_length_le (by simp [keys, hlen])
  intro kv hkv
  obtain ⟨k', v'⟩ := kv
  have : k' ∈ keys a := hperm.mem_iff.mpr (mem_keys hkv)
  obtain ⟨⟨k'', v⟩, hmem, e⟩ := List.mem_map.mp this
  simp only at e; subst e
  obtain ⟨v2, h1, h2⟩ := hs _ hmem
  have := lookupV_of_mem hb hkv
  simp only at h1 h2
  rw [h1] at this; cases this
  exact ⟨v, hmem, h2⟩

/-! ### equivalence -/

theorem veq_refl : ∀ v, wf v = true → veq v v = true := by
  apply Value.ind
  · intro v h1 h2 _
    cases v <;> simp_all [veq]
    exact (floatEq_iff _ _).mpr rfl
  · intro l ih hw
    simp only [wf, wfList_iff] at hw
    simp only [veq, veqList_iff]
    induction l with
    | nil => exact .nil
    | cons x xs ihl =>
      exact .cons (ih x (by simp) (hw x (by simp)))
        (ihl (fun v hv => ih v (List.mem_cons_of_mem _ hv)) (fun v hv => hw v (List.mem_cons_of_mem _ hv)))
  · intro m ih hw
    simp only [wf, wfEntries_iff] at hw
    simp only [veq, beq_self_eq_true, Bool.true_and, veqSub_iff]
    intro kv hkv
    exact ⟨kv.2, lookupV_of_mem hw.1 hkv, ih kv hkv (hw.2 kv hkv)⟩

theorem veq_symm : ∀ a b, wf a = true → wf b = true → veq a b = true → veq b a = true := by
  apply Value.ind
  · intro a h1 h2 b _ _ h
    cases a <;> first | exact absurd rfl (h1 _) | exact absurd rfl (h2 _) | skip
    all_goals cases b <;> (try simp only [veq, beq_iff_eq, Bool.false_eq_true] at h) <;>
      (try simp only [veq, beq_iff_eq]) <;> first | exact h.symm | skip
    rw [floatEq_iff] at *; exact h.symm
  · intro l ih b hwa hwb h
    cases b <;> simp only [veq] at h <;> try cases h
    rename_i l2
    simp only [wf, wfList_iff] at hwa hwb
    simp only [veq, veqList_iff] at *
    induction h with
    | nil => exact .nil
    | cons hxy _ ihl =>
      exact .cons (ih _ (by simp) _ (hwa _ (by simp)) (hwb _ (by simp)) hxy)
        (ihl (fun v hv => ih v (List.mem_cons_of_mem _ hv)) (fun v hv => hwa v (List.mem_cons_of_mem _ hv))
          (fun v hv => hwb v (List.mem_cons_of_mem _ hv)))
  · intro m ih b hwa hwb h
    cases b <;> simp only [veq] at h <;> try cases h
    rename_i m2
    simp only [wf, wfEntries_iff] at hwa hwb
    simp only [Bool.and_eq_true, beq_iff_eq] at h
    have onto := veqSub_onto hwa.1 hwb.1 h.1 h.2
    simp only [veq, Bool.and_eq_true, beq_iff_eq, h.1, true_and, veqSub_iff]
    intro kv hkv
    obtain ⟨v, hmem, hv⟩ := onto kv hkv
    exact ⟨v, lookupV_of_mem hwa.1 hmem, ih _ hmem _ (hwa.2 _ hmem) (hwb.2 _ hkv) hv⟩

theorem veq_trans : ∀ a b c, veq a b = true → veq b c = true → veq a c = true := by
  apply Value.ind
  · intro a h1 h2 b c hab hbc
    cases a <;> first | exact absurd rfl (h1 _) | exact absurd rfl (h2 _) | skip
    all_goals cases b <;> (try simp only [veq, beq_iff_eq, Bool.false_eq_true] at hab) <;> cases c <;>
      (try simp only [veq, beq_iff_eq, Bool.false_eq_true] at hbc) <;>
      (try simp only [veq, beq_iff_eq]) <;> first | exact hab.trans hbc | skip
    rw [floatEq_iff] at *; exact hab.trans hbc
  · intro l ih b c hab hbc
    cases b <;> simp only [veq] at hab <;> try cases hab
    cases c <;> simp only [veq] at hbc <;> try cases hbc
    rename_i l2 l3
    simp only [veq, veqList_iff] at *
    induction hab generalizing l3 with
    | nil => exact hbc
    | cons hxy _ ihl =>
      cases hbc with
      | cons hyz hrest =>
        exact .cons (ih _ (by simp) _ _ hxy hyz) (ihl (fun v hv => ih v (List.mem_cons_of_mem _ hv)) _ hrest)
  · intro m ih b c hab hbc
    cases b <;> simp only [veq] at hab <;> try cases hab
    cases c <;> simp only [veq] at hbc <;> try cases hbc
    rename_i m2 m3
    simp only [Bool.and_eq_true, beq_iff_eq, veqSub_iff] at hab hbc
    simp only [veq, Bool.and_eq_true, beq_iff_eq, veqSub_iff]
    refine ⟨hab.1.trans hbc.1, ?_⟩
    intro kv hkv
    obtain ⟨v2, h1, h2⟩ := hab.2 kv hkv
    obtain ⟨v3, h3, h4⟩ := hbc.2 _ (lookupV_mem h1)
    exact ⟨v3, h3, ih kv hkv _ _ h2 h4⟩

/-! ### hashing -/

theorem hashEntries_eq (m : List (String × Value)) :
    hashEntries m = m.map fun kv => (kv.1, hashToks kv.2) := by
  induction m with
  | nil => simp [hashEntries]
  | cons kv r ih => obtain ⟨k, v⟩ := kv; simp [hashEntries, ih]

theorem eq_of_fst_eq {α : Type} {l : List (String × α)} (hn : (l.map (·.1)).Nodup) {x y : String × α}
    (hx : x ∈ l) (hy : y ∈ l) (h : x.1 = y.1) : x = y := by
  induction l with
  | nil => cases hx
  | cons z r ih =>
    simp only [List.map_cons, List.nodup_cons] at hn
    rcases List.mem_cons.mp hx with ex | hx' <;> rcases List.mem_cons.mp hy with ey | hy'
    · rw [ex, ey]
    · have : x.1 ∈ r.map (fun x => x.1) := List.mem_map.mpr ⟨y, hy', h.symm⟩
      rw [ex] at this; exact absurd this hn.1
    · have : y.1 ∈ r.map (fun x => x.1) := List.mem_map.mpr ⟨x, hx', h⟩
      rw [ey] at this; exact absurd this hn.1
    · exact ih hn.2 hx' hy'

/-- two association lists with distinct keys and the same entries have the same key-sorted form -/
theorem sortByKey_eq_of_same_entries {α : Type} {A B : List (String × α)} (hA : (A.map (·.1)).Nodup)
    (hB : (B.map (·.1)).Nodup) (h : ∀ x, x ∈ A ↔ x ∈ B) : sortByKey A = sortByKey B := by
  have nA : A.Nodup := by
    have := hA; simp only [List.Nodup, List.pairwise_map] at this
    exact this.imp (fun h e => h (congrArg _ e))
  have nB : B.Nodup := by
    have := hB; simp only [List.Nodup, List.pairwise_map] at this
    exact this.imp (fun h e => h (congrArg _ e))
  have hperm : A.Perm B := (List.perm_ext_iff_of_nodup nA nB).mpr h
  have p1 := List.mergeSort_perm A (fun a b => decide (a.1 ≤ b.1))
  have p2 := List.mergeSort_perm B (fun a b => decide (a.1 ≤ b.1))
  have tr : ∀ (a b c : String × α), decide (a.1 ≤ b.1) = true → decide (b.1 ≤ c.1) = true → decide (a.1 ≤ c.1) = true := by
    intro a b c h1 h2; simp only [decide_eq_true_eq] at *; exact String.le_trans h1 h2
  have tot : ∀ (a b : String × α), (decide (a.1 ≤ b.1) || decide (b.1 ≤ a.1)) = true := by
    intro a b; simp only [Bool.or_eq_true, decide_eq_true_eq]; exact String.le_total _ _
  have s1 := List.pairwise_mergeSort tr tot A
  have s2 := List.pairwise_mergeSort tr tot B
  unfold sortByKey
  refine List.Perm.eq_of_pairwise ?_ s1 s2 (p1.trans (hperm.trans p2.symm))
  intro a b ha hb h1 h2
  simp only [decide_eq_true_eq] at h1 h2
  exact eq_of_fst_eq hA (p1.mem_iff.mp ha) ((h b).mpr (p2.mem_iff.mp hb)) (String.le_antisymm h1 h2)

theorem hash_eq_of_veq : ∀ a b, wf a = true → wf b = true → veq a b = true → hashToks a = hashToks b := by
  apply Value.ind
  · intro a h1 h2 b _ _ h
    cases a <;> cases b <;> simp_all [veq, hashToks]
    exact (floatEq_iff _ _).mp h
  · intro l ih b hwa hwb h
    cases b <;> simp only [veq] at h <;> try cases h
    rename_i l2
    simp only [wf, wfList_iff] at hwa hwb
    simp only [veqList_iff] at h
    have : l.length = l2.length ∧ hashList l = hashList l2 := by
      induction h with
      | nil => simp
      | cons hxy _ ihl =>
        have := ihl (fun v hv => ih v (List.mem_cons_of_mem _ hv)) (fun v hv => hwa v (List.mem_cons_of_mem _ hv))
          (fun v hv => hwb v (List.mem_cons_of_mem _ hv))
        simp [hashList, this.1, this.2, ih _ (by simp) _ (hwa _ (by simp)) (hwb _ (by simp)) hxy]
    simp [hashToks, this.1, this.2]
  · intro m ih b hwa hwb h
    cases b <;> simp only [veq] at h <;> try cases h
    rename_i m2
    simp only [wf, wfEntries_iff] at hwa hwb
    simp only [Bool.and_eq_true, beq_iff_eq] at h
    have onto := veqSub_onto hwa.1 hwb.1 h.1 h.2
    have into := (veqSub_iff _ _).mp h.2
    have : sortByKey (hashEntries m) = sortByKey (hashEntries m2) := by
      apply sortByKey_eq_of_same_entries
      · simpa [hashEntries_eq, keys, Function.comp_def] using hwa.1
      · simpa [hashEntries_eq, keys, Function.comp_def] using hwb.1
      · intro x
        simp only [hashEntries_eq, List.mem_map]
        constructor
        · rintro ⟨kv, hkv, rfl⟩
          obtain ⟨v2, h1, h2⟩ := into kv hkv
          have hm2 := lookupV_mem h1
          exact ⟨(kv.1, v2), hm2, by simp [ih kv hkv v2 (hwa.2 _ hkv) (hwb.2 _ hm2) h2]⟩
        · rintro ⟨kv, hkv, rfl⟩
          obtain ⟨v, hmem, hv⟩ := onto kv hkv
          exact ⟨(kv.1, v), hmem, by simp [ih _ hmem kv.2 (hwa.2 _ hmem) (hwb.2 _ hkv) hv]⟩
    simp [hashToks, h.1, this]

end Varpulis.Val
