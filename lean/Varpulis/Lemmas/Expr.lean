import Varpulis.Model.Expr
/-! Helper lemmas for C08 / C10 / C11 over `Model/Expr.lean`. -/
namespace Varpulis.Expr

/-! ## C08: exact order of an `i64` and an `f64` -/

theorem icmp_mul_right (u v c : Int) (hc : 0 < c) : icmp (u * c) (v * c) = icmp u v := by
  unfold icmp
  have h1 : u * c < v * c ↔ u < v := Int.mul_lt_mul_right hc
  have h2 : u * c = v * c ↔ u = v := by
    constructor
    · intro h; exact Int.eq_of_mul_eq_mul_right (Int.ne_of_gt hc) h
    · intro h; rw [h]
  simp [h1, h2]

theorem two_pow_pos_int (n : Nat) : (0 : Int) < 2 ^ n := Int.pow_pos (by omega)

theorem Dy.scaled_split (x : Dy) (k m : Int) (h1 : k ≤ m) (h2 : m ≤ x.exp) :
    x.scaled k = x.scaled m * 2 ^ (m - k).toNat := by
  unfold Dy.scaled
  have : (x.exp - k).toNat = (x.exp - m).toNat + (m - k).toNat := by omega
  rw [this, Int.pow_add, Int.mul_assoc]

theorem Dy.cmp_eq_of_le (x y : Dy) (k : Int) (h1 : k ≤ x.exp) (h2 : k ≤ y.exp) :
    Dy.cmp x y = icmp (x.scaled k) (y.scaled k) := by
  unfold Dy.cmp
  have hm1 : min x.exp y.exp ≤ x.exp := by omega
  have hm2 : min x.exp y.exp ≤ y.exp := by omega
  have hk : k ≤ min x.exp y.exp := by omega
  rw [Dy.scaled_split x k _ hk hm1, Dy.scaled_split y k _ hk hm2, icmp_mul_right _ _ _ (two_pow_pos_int _)]

theorem icmp_lt_iff {u v : Int} : icmp u v = .lt ↔ u < v := by
  unfold icmp; by_cases h1 : u < v <;> by_cases h2 : u = v <;> simp [h1, h2]
theorem icmp_eq_iff {u v : Int} : icmp u v = .eq ↔ u = v := by
  unfold icmp; by_cases h1 : u < v <;> by_cases h2 : u = v <;> simp [h1, h2] <;> omega
theorem icmp_gt_iff {u v : Int} : icmp u v = .gt ↔ v < u := by
  unfold icmp; by_cases h1 : u < v <;> by_cases h2 : u = v <;> simp [h1, h2] <;> omega

theorem snum_mul (s : Bool) (m p : Nat) : F.snum s (m * p) = F.snum s m * (p : Int) := by
  unfold F.snum; cases s <;> simp [Int.neg_mul]


theorem F.cmp_fin (s1 : Bool) (m1 : Nat) (e1 : Int) (s2 : Bool) (m2 : Nat) (e2 : Int) :
    F.cmp (.fin s1 m1 e1) (.fin s2 m2 e2) = some (Dy.cmp ⟨F.snum s1 m1, e1⟩ ⟨F.snum s2 m2, e2⟩) := by
  simp [F.cmp, F.ext, Ext.cmp]

theorem F.ge_fin (s1 : Bool) (m1 : Nat) (e1 : Int) (s2 : Bool) (m2 : Nat) (e2 : Int) (k : Int)
    (h1 : k ≤ e1) (h2 : k ≤ e2) :
    F.ge (.fin s1 m1 e1) (.fin s2 m2 e2) = decide ((⟨F.snum s2 m2, e2⟩ : Dy).scaled k ≤ (⟨F.snum s1 m1, e1⟩ : Dy).scaled k) := by
  rw [Bool.eq_iff_iff]
  simp only [F.ge, F.cmp_fin, Dy.cmp_eq_of_le ⟨F.snum s1 m1, e1⟩ ⟨F.snum s2 m2, e2⟩ k h1 h2, Bool.or_eq_true, beq_iff_eq, Option.some.injEq,
    icmp_gt_iff, icmp_eq_iff, decide_eq_true_eq]
  omega

theorem F.lt_fin (s1 : Bool) (m1 : Nat) (e1 : Int) (s2 : Bool) (m2 : Nat) (e2 : Int) (k : Int)
    (h1 : k ≤ e1) (h2 : k ≤ e2) :
    F.lt (.fin s1 m1 e1) (.fin s2 m2 e2) = decide ((⟨F.snum s1 m1, e1⟩ : Dy).scaled k < (⟨F.snum s2 m2, e2⟩ : Dy).scaled k) := by
  rw [Bool.eq_iff_iff]
  simp only [F.lt, F.cmp_fin, Dy.cmp_eq_of_le ⟨F.snum s1 m1, e1⟩ ⟨F.snum s2 m2, e2⟩ k h1 h2, beq_iff_eq, Option.some.injEq,
    icmp_lt_iff, decide_eq_true_eq]


theorem sat_in_range (v : Int) (h1 : -(2^63) ≤ v) (h2 : v ≤ 2^63 - 1) : (F.sat v).toInt = v := by
  unfold F.sat
  rw [if_neg (by omega), if_neg (by omega)]
  exact Int64.toInt_ofInt_of_le (by omega) (by omega)

theorem mul_step (a q p : Int) (hp : 0 < p) (h : a < q) : a * p + p ≤ q * p := by
  have h1 : (a + 1) * p ≤ q * p := Int.mul_le_mul_of_nonneg_right (by omega) (by omega)
  rw [Int.add_mul, Int.one_mul] at h1
  exact h1

theorem Dy.cmp_self (d : Dy) : Dy.cmp d d = .eq := by
  unfold Dy.cmp; exact icmp_eq_iff.mpr rfl

theorem cmpIntFloat_fin_nonneg (a : Int64) (s : Bool) (m : Nat) (e : Int) (he : 0 ≤ e) :
    cmpIntFloat a (.fin s m e) = some (Dy.cmp ⟨a.toInt, 0⟩ ⟨F.snum s m, e⟩) := by
  have ha1 := Int64.toInt_lt a
  have ha2 := Int64.le_toInt a
  rw [Dy.cmp_eq_of_le ⟨a.toInt, 0⟩ ⟨F.snum s m, e⟩ 0 (by simp) he]
  unfold cmpIntFloat
  simp only [F.isNan, F.two63, F.negTwo63, Bool.false_eq_true, if_false]
  simp only [F.ge_fin s m e false 1 63 0 he (by omega), F.lt_fin s m e true 1 63 0 he (by omega)]
  simp only [Dy.scaled, F.snum, Int.sub_zero, Int.toNat_zero, Int.pow_zero, Int.mul_one, decide_eq_true_eq,
    if_true, if_false, Bool.false_eq_true]
  generalize hB : (if s = true then -(m : Int) else (m : Int)) * 2 ^ e.toNat = B
  have h63 : ((1:Nat):Int) * 2 ^ Int.toNat 63 = 9223372036854775808 := by decide
  have h63' : -((1:Nat):Int) * 2 ^ Int.toNat 63 = -9223372036854775808 := by decide
  rw [h63, h63']
  have htr : (F.fin s m e).trunc = F.fin s m e := by simp [F.trunc, he]
  rw [htr]
  by_cases c1 : 9223372036854775808 ≤ B
  · rw [if_pos c1]; congr 1; symm; exact icmp_lt_iff.mpr (by omega)
  · rw [if_neg c1]
    by_cases c2 : B < -9223372036854775808
    · rw [if_pos c2]; congr 1; symm; exact icmp_gt_iff.mpr (by omega)
    · rw [if_neg c2]
      have hti : (F.fin s m e).toI64.toInt = B := by
        simp only [F.toI64, F.truncInt, he, if_true]
        rw [snum_mul, Int.natCast_pow]
        simp only [F.snum]
        rw [show ((2:Nat):Int) = 2 from rfl]
        rw [hB]
        exact sat_in_range B (by omega) (by omega)
      have hi : i64cmp a (F.fin s m e).toI64 = icmp a.toInt B := by unfold i64cmp; rw [hti]
      rw [hi]
      cases hc : icmp a.toInt B <;> simp [F.cmp_fin, Dy.cmp_self]


theorem cmp_core (a ti p B : Int) (hp : 0 < p) (h1 : ti * p - p < B) (h2 : B < ti * p + p) :
    (match icmp a ti with
      | .eq => some (icmp (ti * p) B)
      | o => some o) = some (icmp (a * p) B) := by
  cases hc : icmp a ti
  · have h := icmp_lt_iff.mp hc
    have h' := mul_step a ti p hp h
    simp only [Option.some.injEq]; symm; exact icmp_lt_iff.mpr (by omega)
  · have h := icmp_eq_iff.mp hc
    subst h; rfl
  · have h := icmp_gt_iff.mp hc
    have h' := mul_step ti a p hp h
    simp only [Option.some.injEq]; symm; exact icmp_gt_iff.mpr (by omega)

theorem cmpIntFloat_fin_neg (a : Int64) (s : Bool) (m : Nat) (e : Int) (he : e < 0) :
    cmpIntFloat a (.fin s m e) = some (Dy.cmp ⟨a.toInt, 0⟩ ⟨F.snum s m, e⟩) := by
  have ha1 := Int64.toInt_lt a
  have ha2 := Int64.le_toInt a
  have hne : ¬ (0 ≤ e) := by omega
  rw [Dy.cmp_eq_of_le ⟨a.toInt, 0⟩ ⟨F.snum s m, e⟩ e (by simp; omega) (by simp)]
  unfold cmpIntFloat
  simp only [F.isNan, F.two63, F.negTwo63, Bool.false_eq_true, if_false]
  simp only [F.ge_fin s m e false 1 63 e (by omega) (by omega), F.lt_fin s m e true 1 63 e (by omega) (by omega)]
  have htr : (F.fin s m e).trunc = F.fin s (m / 2 ^ (-e).toNat) 0 := by simp [F.trunc, hne]
  rw [htr]
  have hti : (F.fin s (m / 2 ^ (-e).toNat) 0).toI64 = F.sat (F.snum s (m / 2 ^ (-e).toNat)) := by
    simp [F.toI64, F.truncInt]
  rw [hti, F.cmp_fin, Dy.cmp_eq_of_le ⟨F.snum s (m / 2 ^ (-e).toNat), 0⟩ ⟨F.snum s m, e⟩ e (by simp; omega) (by simp)]
  have h63 : (63 - e).toNat = 63 + (-e).toNat := by omega
  simp only [Dy.scaled, Int.sub_self, Int.toNat_zero, Int.pow_zero, Int.mul_one, decide_eq_true_eq, Int.zero_sub, h63, Int.pow_add]
  have hpc : (2 : Int) ^ (-e).toNat = ((2 ^ (-e).toNat : Nat) : Int) := by rw [Int.natCast_pow]; rfl
  rw [hpc]
  generalize hP : (2 ^ (-e).toNat : Nat) = P
  have hPpos : 0 < P := by rw [← hP]; exact Nat.two_pow_pos _
  have hdm := Nat.div_add_mod m P
  have hr := Nat.mod_lt m hPpos
  generalize hq : m / P = q at *
  generalize hrr : m % P = r at *
  subst hdm
  have hcast : ((P * q + r : Nat) : Int) = (q : Int) * (P : Int) + (r : Int) := by
    rw [Int.natCast_add, Int.natCast_mul, Int.mul_comm]
  have hp : (0 : Int) < (P : Int) := by omega
  have hrp : (r : Int) < (P : Int) := by omega
  have hr0 : (0 : Int) ≤ (r : Int) := by omega
  have hq0 : (0 : Int) ≤ (q : Int) := by omega
  have h263 : (2 : Int) ^ 63 = 9223372036854775808 := by decide
  rw [h263]
  cases s
  · simp only [F.snum, Bool.false_eq_true, if_false, hcast]
    rw [show ((1 : Nat) : Int) = 1 from rfl, Int.one_mul]
    generalize (P : Int) = p at *
    generalize (q : Int) = qi at *
    generalize (r : Int) = ri at *
    have ha3 : a.toInt * p + p ≤ 9223372036854775808 * p := mul_step a.toInt _ p hp (by omega)
    by_cases c1 : 9223372036854775808 * p ≤ qi * p + ri
    · rw [if_pos c1]; congr 1; symm; exact icmp_lt_iff.mpr (by omega)
    · rw [if_neg c1]
      rw [if_neg (by simp only [if_true]; omega)]
      have hqlt : qi < 9223372036854775808 := by
        apply Classical.byContradiction; intro h
        have : 9223372036854775808 * p ≤ qi * p := Int.mul_le_mul_of_nonneg_right (by omega) (by omega)
        omega
      have hi : i64cmp a (F.sat qi) = icmp a.toInt qi := by
        unfold i64cmp; rw [sat_in_range qi (by omega) (by omega)]
      rw [hi]
      exact cmp_core a.toInt qi p (qi * p + ri) hp (by omega) (by omega)
  · simp only [F.snum, if_true, hcast]
    rw [show ((1 : Nat) : Int) = 1 from rfl]
    generalize (P : Int) = p at *
    generalize (q : Int) = qi at *
    generalize (r : Int) = ri at *
    have ha4 : (-9223372036854775808) * p ≤ a.toInt * p := Int.mul_le_mul_of_nonneg_right (by omega) (by omega)
    rw [if_neg (by simp only [Bool.false_eq_true, if_false]; omega)]
    by_cases c2 : -(qi * p + ri) < -1 * (9223372036854775808 * p)
    · rw [if_pos c2]; congr 1; symm; exact icmp_gt_iff.mpr (by omega)
    · rw [if_neg c2]
      have hqle : qi ≤ 9223372036854775808 := by
        apply Classical.byContradiction; intro h
        have : 9223372036854775808 * p + p ≤ qi * p := mul_step _ qi p hp (by omega)
        omega
      have hi : i64cmp a (F.sat (-qi)) = icmp a.toInt (-qi) := by
        unfold i64cmp; rw [sat_in_range (-qi) (by omega) (by omega)]
      rw [hi]
      have hneg : -qi * p = -(qi * p) := Int.neg_mul _ _
      exact cmp_core a.toInt (-qi) p (-(qi * p + ri)) hp (by omega) (by omega)


theorem Ordering.rev_rev (o : Ordering) : Ordering.rev (Ordering.rev o) = o := by cases o <;> rfl

theorem icmp_rev (u v : Int) : icmp v u = Ordering.rev (icmp u v) := by
  rcases Int.lt_trichotomy u v with h | h | h
  · rw [icmp_lt_iff.mpr h, icmp_gt_iff.mpr h]; rfl
  · subst h; rw [icmp_eq_iff.mpr rfl]; rfl
  · rw [icmp_gt_iff.mpr h, icmp_lt_iff.mpr h]; rfl

theorem Dy.cmp_rev (x y : Dy) : Dy.cmp y x = Ordering.rev (Dy.cmp x y) := by
  unfold Dy.cmp
  rw [show min y.exp x.exp = min x.exp y.exp from Int.min_comm _ _]
  exact icmp_rev _ _

theorem Ext.cmp_rev (x y : Ext) : Ext.cmp y x = Ordering.rev (Ext.cmp x y) := by
  cases x <;> cases y <;> first | rfl | exact Dy.cmp_rev _ _

theorem cmpIntFloat_exact (a : Int64) (b : F) (y : Ext) (hb : b.ext = some y) :
    cmpIntFloat a b = some (Ext.cmp (intExt a) y) := by
  cases b with
  | nan => simp [F.ext] at hb
  | inf s =>
    cases s <;> simp [F.ext] at hb <;> subst hb <;>
      simp [cmpIntFloat, F.isNan, F.ge, F.lt, F.cmp, F.ext, Ext.cmp, F.two63, F.negTwo63, intExt]
  | fin s m e =>
    simp [F.ext] at hb; subst hb
    by_cases he : 0 ≤ e
    · simpa [intExt, Ext.cmp] using cmpIntFloat_fin_nonneg a s m e he
    · simpa [intExt, Ext.cmp] using cmpIntFloat_fin_neg a s m e (by omega)

theorem cmpIntFloat_nan (a : Int64) (s : Bool) : cmpIntFloat a (.nan s) = none := by simp [cmpIntFloat, F.isNan]

theorem i64cmp_exact (a b : Int64) : i64cmp a b = Ext.cmp (intExt a) (intExt b) := by
  simp [i64cmp, intExt, Ext.cmp, Dy.cmp, Dy.scaled]

theorem F.cmp_exact (a b : F) (x y : Ext) (ha : a.ext = some x) (hb : b.ext = some y) :
    F.cmp a b = some (Ext.cmp x y) := by simp [F.cmp, ha, hb]


theorem cmpVals_fixed (op : CmpOp) (l r : Value) (x y : Ext) (hl : numExt l = some x) (hr : numExt r = some y) :
    cmpVals .fixed op l r = .val (.bool (op.holds (some (Ext.cmp x y)))) := by
  cases l <;> simp [numExt] at hl <;> cases r <;> simp [numExt] at hr
  · subst hl; subst hr; simp [cmpVals, i64cmp_exact]
  · subst hl; simp [cmpVals, cmpIntFloat_exact _ _ _ hr]
  · subst hr; simp [cmpVals, cmpIntFloat_exact _ _ _ hl, Ext.cmp_rev x, Ordering.rev_rev]
  · simp [cmpVals, F.cmp_exact _ _ _ _ hl hr]

theorem saseCompare_fixed (l r : Value) (x y : Ext) (hl : numExt l = some x) (hr : numExt r = some y) :
    saseCompare .fixed l r = some (Ext.cmp x y) := by
  cases l <;> simp [numExt] at hl <;> cases r <;> simp [numExt] at hr
  · subst hl; subst hr; simp [saseCompare, i64cmp_exact]
  · subst hl; simp [saseCompare, cmpIntFloat_exact _ _ _ hr]
  · subst hr; simp [saseCompare, cmpIntFloat_exact _ _ _ hl, Ext.cmp_rev x, Ordering.rev_rev]
  · simp [saseCompare, F.cmp_exact _ _ _ _ hl hr]

theorem cmpValsSameKind_exact (op : CmpOp) (l r : Value) (x y : Ext)
    (hl : numExt l = some x) (hr : numExt r = some y)
    (hk : mixedKinds l r = false) :
    cmpValsSameKind op l r = .val (.bool (op.holds (some (Ext.cmp x y)))) := by
  cases l <;> simp [numExt] at hl <;> cases r <;> simp [numExt] at hr <;> simp [mixedKinds] at hk
  · subst hl; subst hr; simp [cmpValsSameKind, i64cmp_exact]
  · simp [cmpValsSameKind, F.cmp_exact _ _ _ _ hl hr]

/-! ## C11: evaluation neither panics nor diverges -/


@[simp] theorem Res.safe_val (v : Value) : (Res.val v).safe := trivial
@[simp] theorem Res.safe_none : Res.none.safe := trivial
@[simp] theorem Res.safe_panic : ¬ Res.panic.safe := fun h => h
@[simp] theorem Res.safe_diverge : ¬ Res.diverge.safe := fun h => h

theorem Res.safe_ofOption (o : Option Value) : (Res.ofOption o).safe := by
  cases o <;> simp [Res.ofOption]

theorem Res.bind_safe (r : Res) (k : Value → Res) (hr : r.safe) (hk : ∀ v, (k v).safe) : (r.bind k).safe := by
  cases r <;> simp_all [Res.bind]

theorem cmpVals_safe (op : CmpOp) (l r : Value) : (cmpVals .fixed op l r).safe := by
  unfold cmpVals; split <;> simp

theorem cmpValsExpr_safe (op : CmpOp) (l r : Value) : (cmpValsExpr .fixed op l r).safe := by
  unfold cmpValsExpr; split <;> simp [cmpVals_safe]

theorem cmpValsExpr_num (op : CmpOp) (l r : Value) (x y : Ext) (hl : numExt l = some x) (hr : numExt r = some y) :
    cmpValsExpr .fixed op l r = cmpVals .fixed op l r := by
  cases l <;> simp [numExt] at hl <;> cases r <;> simp [numExt] at hr <;> simp [cmpValsExpr]

theorem binop_safe (fo : FOps) (op : BinOp) (l r : Value) : (binop fo .fixed op l r).safe := by
  unfold binop
  split <;> (try split) <;> (try split) <;> simp_all [iadd, isub, imul, idiv, irem, cmpVals_safe, cmpValsExpr_safe]

theorem unop_safe (op : UnOp) (v : Value) : (unop .fixed op v).safe := by
  unfold unop; split <;> simp [ineg]


theorem sliceP_some {α : Type} (xs : List α) (s e : Nat) (h : s ≤ e ∧ e ≤ xs.length) :
    ∃ ys, sliceP xs s e = some ys := by
  unfold sliceP; rw [if_pos h]; exact ⟨_, rfl⟩

theorem indexVal_safe (c i : Value) : (indexVal c i).safe := by
  unfold indexVal; split <;> simp [Res.safe_ofOption]

theorem iabs_safe (n : Int64) : (iabs .fixed n).safe := by
  unfold iabs; split <;> simp [ineg]

theorem sliceCore_safe {α : Type} (xs : List α) (start : Nat) (endB : Nat → Res ⊕ Nat) (mk : List α → Value)
    (h : ∀ n r, endB n = .inl r → r.safe) : (sliceCore xs start endB mk).safe := by
  unfold sliceCore
  split
  · rename_i r hr; exact h _ _ hr
  · split
    · rename_i hle
      obtain ⟨ys, hys⟩ := sliceP_some xs start _ ⟨hle, Nat.min_le_right _ _⟩
      rw [hys]; simp
    · simp

theorem sliceVal_safe (c : Value) (start : Nat) (endB : Nat → Res ⊕ Nat)
    (h : ∀ n r, endB n = .inl r → r.safe) : (sliceVal c start endB).safe := by
  unfold sliceVal
  split
  · exact sliceCore_safe _ _ _ _ h
  · exact sliceCore_safe _ _ _ _ h
  · simp

theorem boundOf_safe (r : Option Res) (d : Nat) (h : ∀ x, r = some x → x.safe) :
    ∀ y, boundOf r d = .inl y → y.safe := by
  intro y hy
  cases r with
  | none => simp [boundOf] at hy
  | some x =>
    have hx := h x rfl
    cases x with
    | val v => cases hv : v.asInt <;> simp [boundOf, hv] at hy
    | none => simp [boundOf] at hy
    | panic => simp at hx
    | diverge => simp at hx

theorem collect_safe (rs : List Res) (h : ∀ r ∈ rs, r.safe) :
    (∃ vs, collect rs = .vals vs) := by
  induction rs with
  | nil => exact ⟨[], rfl⟩
  | cons r rs ih =>
    have hr := h r (by simp)
    obtain ⟨vs, hvs⟩ := ih (fun x hx => h x (by simp [hx]))
    cases r with
    | val v => exact ⟨v :: vs, by simp [collect, hvs]⟩
    | none => exact ⟨vs, by simp [collect, hvs]⟩
    | panic => simp at hr
    | diverge => simp at hr

theorem collectMap_safe (ks : List String) (rs : List Res) (acc : List (String × Value))
    (h : ∀ r ∈ rs, r.safe) : (collectMap ks rs acc).safe := by
  induction rs generalizing ks acc with
  | nil => cases ks <;> simp [collectMap]
  | cons r rs ih =>
    cases ks with
    | nil => simp [collectMap]
    | cons k ks =>
      have hr := h r (by simp)
      have ih' := fun acc => ih ks acc (fun x hx => h x (by simp [hx]))
      cases r with
      | val v => simp [collectMap, ih']
      | none => simp [collectMap, ih']
      | panic => simp at hr
      | diverge => simp at hr

theorem evalMember_safe (env : Env) (obj : Expr) (m : String) : (evalMember env obj m).safe := by
  unfold evalMember
  split
  · split
    · exact Res.safe_ofOption _
    · simp only []
      split
      · simp
      · split
        · simp
        · split
          · simp
          · split
            · exact Res.safe_ofOption _
            · simp
  · simp


theorem lookup_mem {β : Type} (l : List (String × β)) (k : String) (v : β) (h : l.lookup k = some v) :
    (k, v) ∈ l := by
  induction l with
  | nil => simp [List.lookup] at h
  | cons p ps ih =>
    obtain ⟨k', v'⟩ := p
    simp only [List.lookup] at h
    split at h
    · rename_i heq
      have : k = k' := by simpa using heq
      simp at h; subst h; subst this; simp
    · exact List.mem_cons_of_mem _ (ih h)

theorem substrCore_safe (s : String) (a b : Nat) : (substrCore s a b).safe := by
  unfold substrCore
  split
  · rename_i h
    obtain ⟨ys, hys⟩ := sliceP_some s.toList a b h
    rw [hys]; simp
  · simp

theorem setP_safe (xs : List Value) (i : Nat) (v : Value) (h : i < xs.length) : (setP xs i v).safe := by
  simp [setP, h]

theorem bIs_safe (p : Value → Bool) (args : List Value) : (bIs p args).safe := by
  unfold bIs; split <;> simp

theorem builtinTable_safe (fo : FOps) : ∀ p ∈ builtinTable fo .fixed, ∀ args, (p.2 args).safe := by
  intro p hp args
  simp only [builtinTable, List.mem_cons, List.mem_nil_iff, or_false] at hp
  rcases hp with h | h | h | h | h | h | h | h | h | h | h | h | h | h | h | h | h | h | h | h | h | h | h | h | h | h | h | h | h | h | h | h | h | h | h | h | h | h | h | h | h | h | h | h | h | h | h | h | h | h <;> subst h <;> simp only []
  · unfold bAbs; split <;> simp [iabs_safe]
  · unfold bFn1; split <;> simp
  · unfold bFn1; split <;> simp
  · unfold bFn1; split <;> simp
  · unfold bFn1; split <;> simp
  · unfold bFn1; split <;> simp
  · unfold bFn1; split <;> simp
  · unfold bFn1; split <;> simp
  · unfold bFloor; split <;> simp
  · unfold bCeil; split <;> simp
  · unfold bRound; split <;> simp
  · unfold bPow; split <;> simp
  · unfold bMin; split <;> simp
  · unfold bMax; split <;> simp
  · unfold bLen; split <;> simp
  · unfold bFirst; split <;> simp [Res.safe_ofOption]
  · unfold bLast; split <;> simp [Res.safe_ofOption]
  · unfold bPush; split <;> simp
  · unfold bPop; split <;> (try split) <;> simp
  · unfold bReverse; split <;> simp
  · unfold bContains; split <;> simp
  · unfold bKeys; split <;> simp
  · unfold bValues; split <;> simp
  · unfold bGet; split <;> simp [Res.safe_ofOption]
  · unfold bSet; split
    · split
      · rename_i h; exact setP_safe _ _ _ h
      · simp
    · simp
    · simp
  · unfold bSum; split <;> simp
  · unfold bAvg; split <;> (try split) <;> simp
  · unfold bToInt; split <;> simp [Res.safe_ofOption]
  · unfold bToFloat; split <;> simp
  · unfold bStartsWith; split <;> simp
  · unfold bEndsWith; split <;> simp
  · unfold bSubstring; split <;> simp [substrCore_safe]
  · unfold bTypeOf; split <;> simp
  iterate 7 exact bIs_safe _ _
  · unfold bSort; split <;> simp
  · unfold bToString; split <;> simp
  · unfold bTrim; split <;> simp
  · unfold bLower; split <;> simp
  · unfold bLower; split <;> simp
  · unfold bUpper; split <;> simp
  · unfold bUpper; split <;> simp
  · unfold bSplit; split <;> simp
  · unfold bJoin; split <;> simp
  · unfold bReplace; split <;> simp

theorem builtin_safe (fo : FOps) (name : String) (args : List Value) : (builtin fo .fixed name args).safe := by
  unfold builtin
  split
  · rename_i f hf
    exact builtinTable_safe fo (name, f) (lookup_mem _ _ _ hf) args
  · simp


mutual
theorem eval_safe (fo : FOps) (env : Env) : ∀ e : Expr, (eval fo .fixed env e).safe
  | .ident x => by simp only [eval]; split <;> simp [Res.safe_ofOption]
  | .null => by simp [eval]
  | .int _ => by simp [eval]
  | .float _ => by simp [eval]
  | .str _ => by simp [eval]
  | .bool _ => by simp [eval]
  | .dur _ => by simp [eval]
  | .arr xs => by
    obtain ⟨vs, hvs⟩ := collect_safe _ (evalAll_safe fo env xs)
    simp [eval, hvs]
  | .map ks vs => by
    simp only [eval]; exact collectMap_safe _ _ _ (evalAll_safe fo env vs)
  | .index c i => by
    simp only [eval]
    exact Res.bind_safe _ _ (eval_safe fo env c) fun cv =>
      Res.bind_safe _ _ (eval_safe fo env i) fun iv => indexVal_safe cv iv
  | .slice c s en => by
    simp only [eval]
    refine Res.bind_safe _ _ (eval_safe fo env c) fun cv => ?_
    have hs := boundOf_safe (evalOpt fo .fixed env s) 0 (evalOpt_safe fo env s)
    split
    · rename_i r hr; exact hs r hr
    · exact sliceVal_safe _ _ _ (fun n r hr => boundOf_safe (evalOpt fo .fixed env en) n (evalOpt_safe fo env en) r hr)
  | .range s e incl => by
    have h1 : ((eval fo .fixed env s).bind fun v => Res.ofOption (v.asInt.map Value.int)).safe :=
      Res.bind_safe _ _ (eval_safe fo env s) fun v => Res.safe_ofOption _
    have h2 : ((eval fo .fixed env e).bind fun v => Res.ofOption (v.asInt.map Value.int)).safe :=
      Res.bind_safe _ _ (eval_safe fo env e) fun v => Res.safe_ofOption _
    simp only [eval]
    split
    · split
      · simp
      · exact h2
    · exact h1
  | .coalesce e d => by
    have he := eval_safe fo env e
    have hd := eval_safe fo env d
    simp only [eval]
    split <;> assumption
  | .member obj m => by simp only [eval]; exact evalMember_safe env obj m
  | .call f args => by
    simp only [eval]
    split
    · obtain ⟨vs, hvs⟩ := collect_safe _ (evalAll_safe fo env args)
      rw [hvs]; exact builtin_safe fo _ vs
    · simp
  | .bin op l r => by
    simp only [eval]
    exact Res.bind_safe _ _ (eval_safe fo env l) fun lv =>
      Res.bind_safe _ _ (eval_safe fo env r) fun rv => binop_safe fo op lv rv
  | .un op e => by
    simp only [eval]
    exact Res.bind_safe _ _ (eval_safe fo env e) fun v => unop_safe op v
  | .ite c t e => by
    simp only [eval]
    refine Res.bind_safe _ _ (eval_safe fo env c) fun cv => ?_
    split
    · exact eval_safe fo env t
    · exact eval_safe fo env e
  | .ts _ => by simp [eval]
  | .optMember _ _ => by simp [eval]
  | .lambda _ _ => by simp [eval]
  | .block _ _ _ => by simp [eval]
theorem evalAll_safe (fo : FOps) (env : Env) : ∀ es : List Expr, ∀ r ∈ evalAll fo .fixed env es, r.safe
  | [] => by simp [evalAll]
  | e :: es => by
    intro r hr
    simp only [evalAll, List.mem_cons] at hr
    rcases hr with h | h
    · rw [h]; exact eval_safe fo env e
    · exact evalAll_safe fo env es r h
theorem evalOpt_safe (fo : FOps) (env : Env) : ∀ o : Option Expr, ∀ x, evalOpt fo .fixed env o = some x → x.safe
  | Option.none => by simp [evalOpt]
  | some e => by
    intro x hx
    simp only [evalOpt, Option.some.injEq] at hx
    rw [← hx]; exact eval_safe fo env e
end


/-! ## C10: folding preserves evaluation -/

theorem isInt0_eq {e : Expr} (h : isInt0 e = true) : e = .int 0 := by
  cases e <;> simp [isInt0] at h; subst h; rfl
theorem isInt1_eq {e : Expr} (h : isInt1 e = true) : e = .int 1 := by
  cases e <;> simp [isInt1] at h; subst h; rfl

theorem Res.isInt_eq {r : Res} (h : r.isInt = true) : ∃ v, r = .val (.int v) := by
  cases r with
  | val v => cases v <;> simp [Res.isInt] at h; exact ⟨_, rfl⟩
  | _ => simp [Res.isInt] at h

theorem eval_bin (fo : FOps) (env : Env) (op : BinOp) (l r : Expr) :
    eval fo .fixed env (.bin op l r) =
      (eval fo .fixed env l).bind fun lv => (eval fo .fixed env r).bind fun rv => binop fo .fixed op lv rv := by
  simp [eval]

theorem foldConst_sound (fo : FOps) (env : Env) (op : BinOp) (l r e : Expr)
    (h : foldConst fo op l r = some e) :
    eval fo .fixed env e = eval fo .fixed env (.bin op l r) := by
  unfold foldConst at h
  split at h <;> (try split at h) <;> simp at h <;> subst h <;>
    simp_all [eval, Res.bind, binop, iadd, isub, imul, idiv, irem]

theorem foldIdent_sound (fo : FOps) (env : Env) (op : BinOp) (l r e x : Expr)
    (h : foldIdent op l r = some (e, x)) (hx : (eval fo .fixed env x).isInt = true) :
    eval fo .fixed env e = eval fo .fixed env (.bin op l r) := by
  obtain ⟨v, hv⟩ := Res.isInt_eq hx
  unfold foldIdent at h
  split at h
  · -- mul
    split at h
    · rename_i h0; have := isInt0_eq h0; subst this
      simp at h; obtain ⟨rfl, rfl⟩ := h
      simp [hv, eval, Res.bind, binop, imul, Int64.mul_zero]
    · split at h
      · rename_i h0; have := isInt0_eq h0; subst this
        simp at h; obtain ⟨rfl, rfl⟩ := h
        simp [hv, eval, Res.bind, binop, imul, Int64.zero_mul]
      · split at h
        · rename_i h1; have := isInt1_eq h1; subst this
          simp at h; obtain ⟨rfl, rfl⟩ := h
          simp [hv, eval, Res.bind, binop, imul, Int64.mul_one]
        · split at h
          · rename_i h1; have := isInt1_eq h1; subst this
            simp at h; obtain ⟨rfl, rfl⟩ := h
            simp [hv, eval, Res.bind, binop, imul, Int64.one_mul]
          · simp at h
  · -- add
    split at h
    · rename_i h0; have := isInt0_eq h0; subst this
      simp at h; obtain ⟨rfl, rfl⟩ := h
      simp [hv, eval, Res.bind, binop, iadd, Int64.add_zero]
    · split at h
      · rename_i h0; have := isInt0_eq h0; subst this
        simp at h; obtain ⟨rfl, rfl⟩ := h
        simp [hv, eval, Res.bind, binop, iadd, Int64.zero_add]
      · simp at h
  · -- sub
    split at h
    · rename_i h0; have := isInt0_eq h0; subst this
      simp at h; obtain ⟨rfl, rfl⟩ := h
      simp [hv, eval, Res.bind, binop, isub, Int64.sub_zero]
    · simp at h
  · -- div
    split at h
    · rename_i h1; have := isInt1_eq h1; subst this
      simp at h; obtain ⟨rfl, rfl⟩ := h
      simp [hv, eval, Res.bind, binop, idiv, Int64.div_one]
    · simp at h
  · simp at h

theorem foldBinary_sound (fo : FOps) (idents : Bool) (env : Env) (op : BinOp) (l r : Expr)
    (h : idents = true → unsafeAt fo env op l r = false) :
    eval fo .fixed env (foldBinary fo idents op l r) = eval fo .fixed env (.bin op l r) := by
  unfold foldBinary
  split
  · rename_i e he; exact foldConst_sound fo env op l r e he
  · rename_i hc
    split
    · rename_i hi
      have hu := h hi
      split
      · rename_i e x hfi
        apply foldIdent_sound fo env op l r e x hfi
        simp [unsafeAt, hc, hfi] at hu
        exact hu
      · rfl
    · rfl

theorem foldUnary_sound (fo : FOps) (env : Env) (op : UnOp) (e : Expr) :
    eval fo .fixed env (foldUnary op e) = eval fo .fixed env (.un op e) := by
  unfold foldUnary
  split <;> simp [eval, Res.bind, unop, ineg]


theorem foldBinary_not_ident (fo : FOps) (op : BinOp) (l r : Expr) :
    isIdent (foldBinary fo false op l r) = false := by
  unfold foldBinary
  split
  · rename_i e he
    unfold foldConst at he
    split at he <;> (try split at he) <;> simp at he <;> subst he <;> rfl
  · simp [isIdent]

theorem foldUnary_not_ident (op : UnOp) (e : Expr) : isIdent (foldUnary op e) = false := by
  unfold foldUnary; split <;> rfl

theorem fold_isIdent_false (fo : FOps) (e : Expr) (h : isIdent (fold fo false e) = true) : isIdent e = true := by
  cases e with
  | bin op l r => simp [fold, foldBinary_not_ident] at h
  | un op e => simp [fold, foldUnary_not_ident] at h
  | ident x => rfl
  | _ => simp [fold, isIdent] at h

theorem eval_call_nonident (fo : FOps) (env : Env) (f : Expr) (args : List Expr) (h : isIdent f = false) :
    eval fo .fixed env (.call f args) = .none := by
  cases f <;> simp [isIdent] at h <;> simp [eval]

theorem evalMember_nonident (env : Env) (obj : Expr) (m : String) (h : isIdent obj = false) :
    evalMember env obj m = .none := by
  cases obj <;> simp [isIdent] at h <;> simp [evalMember]

theorem fold_ident_of_isIdent (fo : FOps) (idents : Bool) (e : Expr) (h : isIdent e = true) :
    fold fo idents e = e := by
  cases e <;> simp [isIdent] at h; simp [fold]

mutual
theorem fold_sound (fo : FOps) (idents : Bool) (env : Env) :
    ∀ e : Expr, (idents = true → unsafeIdent fo env e = false) →
      eval fo .fixed env (fold fo idents e) = eval fo .fixed env e
  | .bin op l r => fun hg => by
    have hl := fold_sound fo idents env l (fun hi => by
      have := hg hi; simp [unsafeIdent] at this; exact this.1.1)
    have hr := fold_sound fo idents env r (fun hi => by
      have := hg hi; simp [unsafeIdent] at this; exact this.1.2)
    simp only [fold]
    rw [foldBinary_sound fo idents env op _ _ (fun hi => by
      have := hg hi; subst hi; simp [unsafeIdent] at this; exact this.2)]
    simp only [eval, hl, hr]
  | .un op e => fun hg => by
    have he := fold_sound fo idents env e (fun hi => by have := hg hi; simpa [unsafeIdent] using this)
    simp only [fold]; rw [foldUnary_sound]; simp only [eval, he]
  | .call f args => fun hg => by
    have ha := foldAll_sound fo idents env args (fun hi => by
      have := hg hi; simp [unsafeIdent] at this; exact this.1.2)
    simp only [fold]
    by_cases hf : isIdent f = true
    · rw [fold_ident_of_isIdent fo idents f hf]
      cases f <;> simp [isIdent] at hf
      simp only [eval, ha]
    · have hf' : isIdent f = false := by simpa using hf
      rw [eval_call_nonident fo env f args hf']
      apply eval_call_nonident
      cases idents with
      | false =>
        cases h : isIdent (fold fo false f) with
        | false => rfl
        | true => have := fold_isIdent_false fo f h; simp [hf'] at this
      | true =>
        have := hg rfl; simp [unsafeIdent, hf'] at this; exact this.2
  | .arr xs => fun hg => by
    have ha := foldAll_sound fo idents env xs (fun hi => by have := hg hi; simpa [unsafeIdent] using this)
    simp only [fold, eval, ha]
  | .map ks vs => fun hg => by
    have ha := foldAll_sound fo idents env vs (fun hi => by have := hg hi; simpa [unsafeIdent] using this)
    simp only [fold, eval, ha]
  | .lambda ps b => fun _ => by simp [fold, eval]
  | .ite c t e => fun hg => by
    have hc := fold_sound fo idents env c (fun hi => by have := hg hi; simp [unsafeIdent] at this; exact this.1.1)
    have ht := fold_sound fo idents env t (fun hi => by have := hg hi; simp [unsafeIdent] at this; exact this.1.2)
    have he := fold_sound fo idents env e (fun hi => by have := hg hi; simp [unsafeIdent] at this; exact this.2)
    simp only [fold, eval, hc, ht, he]
  | .coalesce e d => fun hg => by
    have he := fold_sound fo idents env e (fun hi => by have := hg hi; simp [unsafeIdent] at this; exact this.1)
    have hd := fold_sound fo idents env d (fun hi => by have := hg hi; simp [unsafeIdent] at this; exact this.2)
    simp only [fold, eval, he, hd]
  | .range s e incl => fun hg => by
    have hs := fold_sound fo idents env s (fun hi => by have := hg hi; simp [unsafeIdent] at this; exact this.1)
    have he := fold_sound fo idents env e (fun hi => by have := hg hi; simp [unsafeIdent] at this; exact this.2)
    simp only [fold, eval, hs, he]
  | .member e m => fun hg => by
    simp only [fold, eval]
    by_cases hf : isIdent e = true
    · rw [fold_ident_of_isIdent fo idents e hf]
    · have hf' : isIdent e = false := by simpa using hf
      rw [evalMember_nonident env e m hf']
      apply evalMember_nonident
      cases idents with
      | false =>
        cases h : isIdent (fold fo false e) with
        | false => rfl
        | true => have := fold_isIdent_false fo e h; simp [hf'] at this
      | true =>
        have := hg rfl; simp [unsafeIdent, hf'] at this; exact this.2
  | .optMember e m => fun _ => by simp [fold, eval]
  | .index e i => fun hg => by
    have he := fold_sound fo idents env e (fun hi => by have := hg hi; simp [unsafeIdent] at this; exact this.1)
    have hi' := fold_sound fo idents env i (fun hi => by have := hg hi; simp [unsafeIdent] at this; exact this.2)
    simp only [fold, eval, he, hi']
  | .slice e s en => fun hg => by
    have he := fold_sound fo idents env e (fun hi => by have := hg hi; simp [unsafeIdent] at this; exact this.1.1)
    have hs := foldOpt_sound fo idents env s (fun hi => by have := hg hi; simp [unsafeIdent] at this; exact this.1.2)
    have hen := foldOpt_sound fo idents env en (fun hi => by have := hg hi; simp [unsafeIdent] at this; exact this.2)
    simp only [fold, eval, he, hs, hen]
  | .block ns vs res => fun _ => by simp [fold, eval]
  | .null => fun _ => by simp [fold]
  | .bool _ => fun _ => by simp [fold]
  | .int _ => fun _ => by simp [fold]
  | .float _ => fun _ => by simp [fold]
  | .str _ => fun _ => by simp [fold]
  | .dur _ => fun _ => by simp [fold]
  | .ts _ => fun _ => by simp [fold]
  | .ident _ => fun _ => by simp [fold]
theorem foldAll_sound (fo : FOps) (idents : Bool) (env : Env) :
    ∀ es : List Expr, (idents = true → unsafeIdentAll fo env es = false) →
      evalAll fo .fixed env (foldAll fo idents es) = evalAll fo .fixed env es
  | [] => fun _ => by simp [foldAll]
  | e :: es => fun hg => by
    have he := fold_sound fo idents env e (fun hi => by have := hg hi; simp [unsafeIdentAll] at this; exact this.1)
    have hes := foldAll_sound fo idents env es (fun hi => by have := hg hi; simp [unsafeIdentAll] at this; exact this.2)
    simp only [foldAll, evalAll, he, hes]
theorem foldOpt_sound (fo : FOps) (idents : Bool) (env : Env) :
    ∀ o : Option Expr, (idents = true → unsafeIdentOpt fo env o = false) →
      evalOpt fo .fixed env (foldOpt fo idents o) = evalOpt fo .fixed env o
  | Option.none => fun _ => by simp [foldOpt]
  | some e => fun hg => by
    have he := fold_sound fo idents env e (fun hi => by have := hg hi; simpa [unsafeIdentOpt] using this)
    simp only [foldOpt, evalOpt, he]
end


/-! ## C08: the order on dyadics is the order of the rational numbers they denote -/


theorem two_ne_zero_rat : (2 : Rat) ≠ 0 := by decide

theorem Dy.toRat_scaled (d : Dy) (k : Int) (hk : k ≤ d.exp) :
    d.toRat = ((d.scaled k : Int) : Rat) * (2 : Rat) ^ k := by
  unfold Dy.toRat Dy.scaled
  have h1 : d.exp = ((d.exp - k).toNat : Int) + k := by omega
  rw [Rat.intCast_mul, Rat.intCast_pow, Rat.mul_assoc]
  congr 1
  have h2 : (2 : Rat) ^ d.exp = (2 : Rat) ^ (((d.exp - k).toNat : Int) + k) := by rw [← h1]
  rw [h2, Rat.zpow_add two_ne_zero_rat, Rat.zpow_natCast]
  rfl

theorem Dy.cmp_lt_iff (x y : Dy) : Dy.cmp x y = .lt ↔ x.toRat < y.toRat := by
  have hk1 : min x.exp y.exp ≤ x.exp := by omega
  have hk2 : min x.exp y.exp ≤ y.exp := by omega
  rw [Dy.toRat_scaled x _ hk1, Dy.toRat_scaled y _ hk2,
    Rat.mul_lt_mul_right (Rat.zpow_pos (by decide)), Rat.intCast_lt_intCast]
  unfold Dy.cmp
  exact icmp_lt_iff

theorem Dy.cmp_eq_iff (x y : Dy) : Dy.cmp x y = .eq ↔ x.toRat = y.toRat := by
  have hk1 : min x.exp y.exp ≤ x.exp := by omega
  have hk2 : min x.exp y.exp ≤ y.exp := by omega
  rw [Dy.toRat_scaled x _ hk1, Dy.toRat_scaled y _ hk2]
  unfold Dy.cmp
  rw [icmp_eq_iff]
  constructor
  · intro h; rw [h]
  · intro h
    have hp : (0 : Rat) < (2 : Rat) ^ (min x.exp y.exp) := Rat.zpow_pos (by decide)
    rcases Int.lt_trichotomy (x.scaled (min x.exp y.exp)) (y.scaled (min x.exp y.exp)) with hlt | heq | hgt
    · have := (Rat.mul_lt_mul_right hp).mpr (Rat.intCast_lt_intCast.mpr hlt)
      rw [h] at this; exact absurd this Rat.lt_irrefl
    · exact heq
    · have := (Rat.mul_lt_mul_right hp).mpr (Rat.intCast_lt_intCast.mpr hgt)
      rw [h] at this; exact absurd this Rat.lt_irrefl

theorem Dy.cmp_gt_iff (x y : Dy) : Dy.cmp x y = .gt ↔ y.toRat < x.toRat := by
  rw [← Dy.cmp_lt_iff y x, Dy.cmp_rev x y]
  cases Dy.cmp x y <;> simp [Ordering.rev]


/-! ## C11: pattern expressions -/

theorem patAgg_safe (fo : FOps) (name : String) (xs : List Value) (r : Res) (h : patAgg fo name xs = some r) : r.safe := by
  unfold patAgg at h
  split at h <;> simp at h <;> subst h <;> (try split) <;> simp [Res.safe_ofOption]

theorem patternBinop_safe (op : BinOp) (l r : Value) : (patternBinop .fixed op l r).safe := by
  unfold patternBinop
  split <;> first | exact cmpVals_safe _ _ _ | (unfold cmpValsSameKind; split <;> simp) | simp

theorem evalPat_safe (fo : FOps) : ∀ (e : Expr) (vars : List (String × Value)), (evalPat fo .fixed vars e).safe
  | .block names vals res, vars => by simp only [evalPat]; exact evalPat_safe fo res _
  | .lambda _ body, vars => by simp only [evalPat]; exact evalPat_safe fo body vars
  | .ident x, vars => by simp [evalPat, Res.safe_ofOption]
  | .int _, _ => by simp [evalPat]
  | .float _, _ => by simp [evalPat]
  | .bool _, _ => by simp [evalPat]
  | .str _, _ => by simp [evalPat]
  | .bin op l r, vars => by
    simp only [evalPat]
    exact Res.bind_safe _ _ (evalPat_safe fo l vars) fun lv =>
      Res.bind_safe _ _ (evalPat_safe fo r vars) fun rv => patternBinop_safe op lv rv
  | .member recv m, vars => by
    simp only [evalPat]
    exact Res.bind_safe _ _ (evalPat_safe fo recv vars) fun rv => by split <;> simp [Res.safe_ofOption]
  | .call (.member recv m) args, vars => by
    simp only [evalPat]
    refine Res.bind_safe _ _ (evalPat_safe fo recv vars) fun rv => ?_
    split
    · split <;> try simp
      split
      · rename_i r hr; exact patAgg_safe fo _ _ r hr
      · simp
    · simp
  | .call (.ident f) (a :: _), vars => by
    simp only [evalPat]
    split
    · split
      · simp
      · split
        · split <;> simp
        · split
          · rename_i r hr; exact patAgg_safe fo _ _ r hr
          · simp
    · simp
  | .call (.ident f) [], vars => by simp [evalPat]
  | .call (.null) _, _ => by simp [evalPat]
  | .call (.bool _) _, _ => by simp [evalPat]
  | .call (.int _) _, _ => by simp [evalPat]
  | .call (.float _) _, _ => by simp [evalPat]
  | .call (.str _) _, _ => by simp [evalPat]
  | .call (.dur _) _, _ => by simp [evalPat]
  | .call (.ts _) _, _ => by simp [evalPat]
  | .call (.arr _) _, _ => by simp [evalPat]
  | .call (.map _ _) _, _ => by simp [evalPat]
  | .call (.bin _ _ _) _, _ => by simp [evalPat]
  | .call (.un _ _) _, _ => by simp [evalPat]
  | .call (.optMember _ _) _, _ => by simp [evalPat]
  | .call (.index _ _) _, _ => by simp [evalPat]
  | .call (.slice _ _ _) _, _ => by simp [evalPat]
  | .call (.call _ _) _, _ => by simp [evalPat]
  | .call (.lambda _ _) _, _ => by simp [evalPat]
  | .call (.ite _ _ _) _, _ => by simp [evalPat]
  | .call (.coalesce _ _) _, _ => by simp [evalPat]
  | .call (.range _ _ _) _, _ => by simp [evalPat]
  | .call (.block _ _ _) _, _ => by simp [evalPat]
  | .null, _ => by simp [evalPat]
  | .dur _, _ => by simp [evalPat]
  | .ts _, _ => by simp [evalPat]
  | .arr _, _ => by simp [evalPat]
  | .map _ _, _ => by simp [evalPat]
  | .un _ _, _ => by simp [evalPat]
  | .optMember _ _, _ => by simp [evalPat]
  | .index _ _, _ => by simp [evalPat]
  | .slice _ _ _, _ => by simp [evalPat]
  | .ite _ _ _, _ => by simp [evalPat]
  | .coalesce _ _, _ => by simp [evalPat]
  | .range _ _ _, _ => by simp [evalPat]


/-! ## C11: the comparator of `sort` is a total preorder -/

theorem strCmp_rev (a b : String) : strCmp b a = Ordering.rev (strCmp a b) := by
  unfold strCmp
  by_cases h1 : a < b
  · have h2 : ¬ b < a := String.lt_asymm h1
    have h3 : ¬ (b == a) = true := by
      intro h; have := eq_of_beq h; subst this; exact String.lt_irrefl _ h1
    simp [h1, h2, h3, Ordering.rev]
  · by_cases h2 : (a == b) = true
    · have := eq_of_beq h2; subst this; simp [String.lt_irrefl, Ordering.rev]
    · have hne : a ≠ b := fun h => h2 (by simp [h])
      have h3 : b < a := by
        rcases String.le_total a b with h | h
        · exfalso; exact hne (String.le_antisymm h (String.not_lt.mp h1))
        · exact Classical.byContradiction fun hc => hne (String.le_antisymm (String.not_lt.mp hc) h)
      have h4 : ¬ (b == a) = true := fun h => hne (eq_of_beq h).symm
      simp [h1, h2, h3, Ordering.rev]

theorem F.totalCmp_rev (a b : F) : F.totalCmp b a = Ordering.rev (F.totalCmp a b) := by
  cases a <;> cases b <;> simp only [F.totalCmp] <;> try exact icmp_rev _ _
  rename_i s1 m1 e1 s2 m2 e2
  rw [Dy.cmp_rev ⟨F.snum s1 m1, e1⟩ ⟨F.snum s2 m2, e2⟩]
  cases Dy.cmp ⟨F.snum s1 m1, e1⟩ ⟨F.snum s2 m2, e2⟩ <;> simp only [Ordering.rev]
  exact icmp_rev _ _

theorem sortCmp_rev (a b : Value) : sortCmp b a = Ordering.rev (sortCmp a b) := by
  cases a <;> cases b <;> simp only [sortCmp] <;>
    first | exact icmp_rev _ _ | exact F.totalCmp_rev _ _ | exact strCmp_rev _ _


theorem icmp_le_iff {u v : Int} : icmp u v ≠ .gt ↔ u ≤ v := by
  constructor
  · intro h; apply Classical.byContradiction; intro hc; exact h (icmp_gt_iff.mpr (by omega))
  · intro h hc; have := icmp_gt_iff.mp hc; omega

theorem icmp_trans {u v w : Int} (h1 : icmp u v ≠ .gt) (h2 : icmp v w ≠ .gt) : icmp u w ≠ .gt := by
  rw [icmp_le_iff] at *; omega

theorem strCmp_le_iff (a b : String) : strCmp a b ≠ .gt ↔ a ≤ b := by
  unfold strCmp
  by_cases h1 : a < b
  · have : a ≤ b := String.not_lt.mp (String.lt_asymm h1)
    simp [h1, this]
  · by_cases h2 : (a == b) = true
    · have := eq_of_beq h2; subst this
      have : a ≤ a := String.not_lt.mp (String.lt_irrefl _)
      simp [String.lt_irrefl]
    · have hba : b ≤ a := String.not_lt.mp h1
      have : ¬ a ≤ b := fun hle => h2 (by simp [String.le_antisymm hle hba])
      simp [h1, h2, this]

theorem strCmp_trans {a b c : String} (h1 : strCmp a b ≠ .gt) (h2 : strCmp b c ≠ .gt) : strCmp a c ≠ .gt := by
  rw [strCmp_le_iff] at *; exact String.le_trans h1 h2

/-- three dyadics on one common scale -/
theorem Dy.cmp3 (x y z : Dy) : ∃ X Y Z : Int, Dy.cmp x y = icmp X Y ∧ Dy.cmp y z = icmp Y Z ∧ Dy.cmp x z = icmp X Z := by
  let k := min x.exp (min y.exp z.exp)
  have h1 : k ≤ x.exp := by omega
  have h2 : k ≤ y.exp := by omega
  have h3 : k ≤ z.exp := by omega
  exact ⟨x.scaled k, y.scaled k, z.scaled k, Dy.cmp_eq_of_le x y k h1 h2, Dy.cmp_eq_of_le y z k h2 h3, Dy.cmp_eq_of_le x z k h1 h3⟩

theorem F.totalCmp_trans {a b c : F} (h1 : F.totalCmp a b ≠ .gt) (h2 : F.totalCmp b c ≠ .gt) : F.totalCmp a c ≠ .gt := by
  cases a <;> cases b <;> cases c <;> simp only [F.totalCmp] at * <;>
    try (first | (exact icmp_trans h1 h2) | (rw [icmp_le_iff] at *; simp [F.cls] at *; omega) | (simp [icmp, F.cls] at *; done))
  · rename_i s1 m1 e1 sb s3 m3 e3
    cases sb <;> simp [icmp, F.cls] at h1 h2
  · rename_i s1 m1 e1 sb s3 m3 e3
    cases sb <;> simp [icmp, F.cls] at h1 h2
  · rename_i s1 m1 e1 s2 m2 e2 s3 m3 e3
    obtain ⟨X, Y, Z, hxy, hyz, hxz⟩ := Dy.cmp3 ⟨F.snum s1 m1, e1⟩ ⟨F.snum s2 m2, e2⟩ ⟨F.snum s3 m3, e3⟩
    rw [hxy] at h1; rw [hyz] at h2; rw [hxz]
    rcases Int.lt_trichotomy X Y with hXY | hXY | hXY
    · rcases Int.lt_trichotomy Y Z with hYZ | hYZ | hYZ
      · rw [icmp_lt_iff.mpr (by omega : X < Z)]; simp
      · rw [icmp_lt_iff.mpr (by omega : X < Z)]; simp
      · rw [icmp_gt_iff.mpr hYZ] at h2; simp at h2
    · subst hXY
      rcases Int.lt_trichotomy X Z with hYZ | hYZ | hYZ
      · rw [icmp_lt_iff.mpr hYZ]; simp
      · subst hYZ
        rw [icmp_eq_iff.mpr rfl] at h1 h2 ⊢
        simp only at h1 h2 ⊢
        exact icmp_trans h1 h2
      · rw [icmp_gt_iff.mpr hYZ] at h2; simp at h2
    · rw [icmp_gt_iff.mpr hXY] at h1; simp at h1

theorem sortKind_le {a b : Value} (h : sortCmp a b ≠ .gt) : sortKind a ≤ sortKind b := by
  cases a <;> cases b <;> simp [sortCmp, sortKind, icmp] at h ⊢

theorem sortCmp_lt_of_kind {a b : Value} (h : sortKind a < sortKind b) : sortCmp a b = .lt := by
  cases a <;> cases b <;> simp [sortKind] at h <;> simp [sortCmp, sortKind, icmp]

theorem sortCmp_trans {a b c : Value} (h1 : sortCmp a b ≠ .gt) (h2 : sortCmp b c ≠ .gt) : sortCmp a c ≠ .gt := by
  have k1 := sortKind_le h1
  have k2 := sortKind_le h2
  by_cases hk : sortKind a < sortKind c
  · rw [sortCmp_lt_of_kind hk]; simp
  · have e1 : sortKind a = sortKind b := by omega
    have e2 : sortKind b = sortKind c := by omega
    cases a <;> cases b <;> simp [sortKind] at e1 <;> cases c <;> simp [sortKind] at e2 <;>
      simp only [sortCmp] at * <;>
      first | exact icmp_trans h1 h2 | exact F.totalCmp_trans h1 h2 | exact strCmp_trans h1 h2 | (simp [icmp, sortKind])


end Varpulis.Expr
