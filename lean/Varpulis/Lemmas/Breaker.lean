import Varpulis.Model.Breaker
/-! Helper lemmas for C45: breaker invariants, the open window, half-open, and the accounting of
events through the resilient sink. -/
namespace Varpulis.Breaker

/-- invariant of every reachable breaker state (for `failure_threshold ≥ 1`) -/
structure WFb (c : Cfg) (b : Breaker) : Prop where
  closed_lt : b.state = .closed → b.fails < c.threshold
  open_has_time : b.state = .opened → b.lastFailure.isSome = true
  half_iff_probe : b.state = .halfOpen ↔ b.probe = true

theorem wfb_init (c : Cfg) (h : 1 ≤ c.threshold) : WFb c {} := by
  constructor <;> simp <;> omega

theorem wfb_allow (c : Cfg) (b : Breaker) (now : Nat) (h : WFb c b) : WFb c (allow c b now).1 := by
  obtain ⟨h1, h2, h3⟩ := h
  rcases b with ⟨st, f, lf, p, a1, a2, a3⟩
  cases st <;> simp only [allow] at * 
  · exact ⟨by simpa using h1, by simp, by simpa using h3⟩
  · cases lf with
    | none => simp at h2
    | some t =>
      simp only
      split
      · constructor <;> simp
      · exact ⟨by simp, by simp, by simpa using h3⟩
  · have hp : p = true := by simpa using h3
    subst hp
    simp only [if_true]
    exact ⟨by simp, by simp, by simp⟩

theorem wfb_success (c : Cfg) (b : Breaker) (h : WFb c b) (ht : 1 ≤ c.threshold) : WFb c (recordSuccess b) := by
  obtain ⟨h1, h2, h3⟩ := h
  rcases b with ⟨st, f, lf, p, a1, a2, a3⟩
  cases st <;> simp only [recordSuccess] at *
  · exact ⟨by simp; omega, by simp, by simpa using h3⟩
  · exact ⟨by simp, by simpa using h2, by simpa using h3⟩
  · exact ⟨by simp; omega, by simp, by simp⟩

theorem wfb_failure (c : Cfg) (b : Breaker) (now : Nat) (h : WFb c b) : WFb c (recordFailure c b now) := by
  obtain ⟨h1, h2, h3⟩ := h
  rcases b with ⟨st, f, lf, p, a1, a2, a3⟩
  cases st <;> simp only [recordFailure] at *
  · split
    · exact ⟨by simp, by simp, by simpa using h3⟩
    · exact ⟨by simp; omega, by simp, by simpa using h3⟩
  · exact ⟨by simp, by simp, by simpa using h3⟩
  · exact ⟨by simp, by simp, by simp⟩

theorem snoc_induction {α : Type} {P : List α → Prop} (h0 : P []) (hs : ∀ l a, P l → P (l ++ [a])) : ∀ l, P l := by
  intro l
  rw [← List.reverse_reverse l]
  induction l.reverse with
  | nil => exact h0
  | cons a t ih => rw [List.reverse_cons]; exact hs _ _ ih

theorem wfb_step (c : Cfg) (b : Breaker) (op : Op) (h : WFb c b) (ht : 1 ≤ c.threshold) : WFb c (stepB c b op).1 := by
  cases op with
  | allow now => exact wfb_allow c b now h
  | success => exact wfb_success c b h ht
  | failure now => exact wfb_failure c b now h

theorem finalB_append (c : Cfg) (b : Breaker) (ops : List Op) (op : Op) :
    finalB c b (ops ++ [op]) = (stepB c (finalB c b ops) op).1 := by
  simp [finalB, List.foldl_append]

theorem wfb_final (c : Cfg) (ops : List Op) (ht : 1 ≤ c.threshold) : WFb c (finalB c {} ops) := by
  induction ops using snoc_induction with
  | h0 => exact wfb_init c ht
  | hs ops op ih => rw [finalB_append]; exact wfb_step c _ op ih ht

/-! ### consecutive failures -/

theorem resultsOf_append (ops : List Op) (op : Op) :
    resultsOf (ops ++ [op]) = resultsOf ops ++ (match op with | .success => [true] | .failure _ => [false] | .allow _ => []) := by
  induction ops with
  | nil => cases op <;> rfl
  | cons o os ih => cases o <;> simp [resultsOf, ih]

theorem trailing_snoc_true (rs : List Bool) : trailingFailures (rs ++ [true]) = 0 := by
  simp [trailingFailures]

theorem trailing_snoc_false (rs : List Bool) : trailingFailures (rs ++ [false]) = trailingFailures rs + 1 := by
  simp [trailingFailures]

theorem allow_fails (c : Cfg) (b : Breaker) (now : Nat) : (allow c b now).1.fails = b.fails := by
  unfold allow
  cases b.state <;> simp
  · cases b.lastFailure <;> simp; split <;> rfl
  · split <;> rfl

theorem success_fails (b : Breaker) : (recordSuccess b).fails = 0 := by
  unfold recordSuccess; simp only; split <;> rfl

theorem failure_fails (c : Cfg) (b : Breaker) (now : Nat) : (recordFailure c b now).fails = b.fails + 1 := by
  unfold recordFailure
  cases b.state <;> simp
  split <;> rfl

/-- `consecutive_failures` is the number of failures at the end of the result history, in every state -/
theorem fails_eq_trailing (c : Cfg) (ops : List Op) :
    (finalB c {} ops).fails = trailingFailures (resultsOf ops) := by
  induction ops using snoc_induction with
  | h0 => rfl
  | hs ops op ih =>
    rw [finalB_append, resultsOf_append]
    cases op with
    | allow now => simp [stepB, allow_fails, ih]
    | success => simp [stepB, success_fails, trailing_snoc_true]
    | failure now => simp [stepB, failure_fails, trailing_snoc_false, ih]

/-! ### the open window -/

/-- open since (at least) `t0`: the last failure is not before `t0` -/
def OpenSince (b : Breaker) (t0 : Nat) : Prop := b.state = .opened ∧ ∃ t, b.lastFailure = some t ∧ t0 ≤ t

def Op.time : Op → Option Nat
  | .allow n => some n
  | .failure n => some n
  | .success => none

theorem openSince_step (c : Cfg) (b : Breaker) (t0 : Nat) (op : Op) (h : OpenSince b t0)
    (ht : ∀ n, op.time = some n → t0 ≤ n ∧ n < t0 + c.resetTimeout) :
    OpenSince (stepB c b op).1 t0 ∧ (stepB c b op).2 ≠ some true := by
  obtain ⟨hs, t, hl, hle⟩ := h
  cases op with
  | allow now =>
    obtain ⟨h1, h2⟩ := ht now rfl
    have : ¬ c.resetTimeout ≤ now - t := by omega
    simp [stepB, allow, hs, hl, this, OpenSince]
    exact hle
  | success =>
    simp [stepB, recordSuccess, hs, OpenSince, hl]; exact hle
  | failure now =>
    obtain ⟨h1, h2⟩ := ht now rfl
    simp [stepB, recordFailure, hs, OpenSince]; exact h1

/-- while the breaker has been open since `t0`, every call made before `t0 + reset_timeout` is rejected -/
theorem openSince_run (c : Cfg) (b : Breaker) (t0 : Nat) (ops : List Op) (h : OpenSince b t0)
    (ht : ∀ op ∈ ops, ∀ n, op.time = some n → t0 ≤ n ∧ n < t0 + c.resetTimeout) :
    ∀ r ∈ runB c b ops, r.2 ≠ some true ∧ r.1.state = .opened := by
  induction ops generalizing b with
  | nil => intro r hr; cases hr
  | cons op ops ih =>
    have hstep := openSince_step c b t0 op h (ht op List.mem_cons_self)
    intro r hr
    simp only [runB, List.mem_cons] at hr
    rcases hr with rfl | hr
    · exact ⟨hstep.2, hstep.1.1⟩
    · exact ih _ hstep.1 (fun o ho => ht o (List.mem_cons_of_mem _ ho)) r hr

/-! ### half-open -/

theorem halfOpen_allows_run (c : Cfg) (b : Breaker) (times : List Nat) (hs : b.state = .halfOpen) (hp : b.probe = true) :
    ∀ r ∈ runB c b (times.map Op.allow), r.2 = some false ∧ r.1.state = .halfOpen ∧ r.1.probe = true := by
  induction times generalizing b with
  | nil => intro r hr; cases hr
  | cons t ts ih =>
    have e : stepB c b (.allow t) = ({ b with rejectionsTotal := b.rejectionsTotal + 1 }, some false) := by
      simp [stepB, allow, hs, hp]
    intro r hr
    simp only [List.map_cons, runB, List.mem_cons] at hr
    rcases hr with rfl | hr
    · rw [e]; exact ⟨rfl, hs, hp⟩
    · rw [e] at hr; exact ih { b with rejectionsTotal := b.rejectionsTotal + 1 } hs hp r hr

/-! ### the resilient sink: accounting of events -/

/-- an entry for event `e` in the DLQ naming the sink and the error -/
def InDlq (s : Sys) (msg : String) (e : Nat) : Prop := { connector := s.name, error := msg, event := e : DlqEntry } ∈ s.dlq

/-- what a completed call guarantees for its events -/
def CallOk (s : Sys) (call : List Nat × SendResult) : Prop :=
  match call.2 with
  | .ok => ∀ e ∈ call.1, e ∈ s.delivered
  | .rejected => ∀ e ∈ call.1, InDlq s openMsg e
  | .failed msg => ∀ e ∈ call.1, InDlq s msg e

/-- `s'` extends `s`: same sink name, deliveries and DLQ only grow -/
structure Extends (s s' : Sys) : Prop where
  name_eq : s'.name = s.name
  cfg_eq : s'.cfg = s.cfg
  delivered_sub : ∀ e ∈ s.delivered, e ∈ s'.delivered
  dlq_sub : ∀ d ∈ s.dlq, d ∈ s'.dlq

theorem Extends.refl (s : Sys) : Extends s s := ⟨rfl, rfl, fun _ h => h, fun _ h => h⟩

theorem CallOk.mono {s s' : Sys} (h : Extends s s') (call : List Nat × SendResult) (hc : CallOk s call) : CallOk s' call := by
  unfold CallOk InDlq at *
  cases hr : call.2 <;> simp only [hr] at hc ⊢
  · exact fun e he => h.delivered_sub e (hc e he)
  · intro e he; rw [h.name_eq]; exact h.dlq_sub _ (hc e he)
  · intro e he; rw [h.name_eq]; exact h.dlq_sub _ (hc e he)

theorem mem_removeFirst_or (i : Nat) (l : List (Nat × List Nat)) (evs : List Nat) (h : l.lookup i = some evs)
    (p : Nat × List Nat) (hp : p ∈ l) : p ∈ removeFirst i l ∨ p.2 = evs := by
  induction l with
  | nil => cases hp
  | cons q qs ih =>
    rcases q with ⟨a, b⟩
    by_cases hq : a = i
    · subst hq
      have hb : b = evs := by simpa [List.lookup] using h
      simp only [removeFirst, if_true]
      rcases List.mem_cons.mp hp with rfl | hp
      · exact Or.inr hb
      · exact Or.inl hp
    · have hia : (i == a) = false := by simp; exact fun h => hq h.symm
      have h' : qs.lookup i = some evs := by simpa [List.lookup, hia] using h
      simp only [removeFirst, hq, if_false]
      rcases List.mem_cons.mp hp with rfl | hp
      · exact Or.inl List.mem_cons_self
      · rcases ih h' hp with h1 | h1
        · exact Or.inl (List.mem_cons_of_mem _ h1)
        · exact Or.inr h1
/-- the accounting invariant: every logged call is honoured, every handed event is in flight or logged -/
structure Acc (s : Sys) (H : List Nat) : Prop where
  log_ok : ∀ call ∈ s.log, CallOk s call
  handed_ok : ∀ e ∈ H, (∃ p ∈ s.inflight, e ∈ p.2) ∨ ∃ call ∈ s.log, e ∈ call.1

theorem start_extends (s : Sys) (i : Nat) (evs : List Nat) (now : Nat) : Extends s (start s i evs now).1 := by
  unfold start
  simp only
  split
  · exact ⟨rfl, rfl, fun _ h => h, fun _ h => h⟩
  · exact ⟨rfl, rfl, fun _ h => h, fun d h => by simp [toDlq]; exact Or.inl h⟩

theorem finish_extends (s : Sys) (i : Nat) (d : Downstream) (now : Nat) : Extends s (finish s i d now).1 := by
  unfold finish
  cases s.inflight.lookup i with
  | none => exact Extends.refl s
  | some evs =>
    cases d with
    | ok => exact ⟨rfl, rfl, fun e h => by simp; exact Or.inl h, fun _ h => h⟩
    | fail msg k => exact ⟨rfl, rfl, fun e h => by simp; exact Or.inl h, fun d h => by simp [toDlq]; exact Or.inl h⟩

theorem acc_start (s : Sys) (H : List Nat) (i : Nat) (evs : List Nat) (now : Nat) (h : Acc s H) :
    Acc (start s i evs now).1 (evs ++ H) := by
  have hext := start_extends s i evs now
  obtain ⟨hl, hh⟩ := h
  unfold start at hext ⊢
  simp only at hext ⊢
  split
  · rename_i hadm
    simp only [hadm, if_true] at hext
    constructor
    · intro call hc; exact CallOk.mono hext call (hl call hc)
    · intro e he
      rcases List.mem_append.mp he with he | he
      · exact Or.inl ⟨(i, evs), List.mem_cons_self, he⟩
      · rcases hh e he with ⟨p, hp, hep⟩ | h2
        · exact Or.inl ⟨p, List.mem_cons_of_mem _ hp, hep⟩
        · exact Or.inr h2
  · rename_i hadm
    simp only [hadm] at hext
    constructor
    · intro call hc
      rcases List.mem_cons.mp hc with rfl | hc
      · simp only [CallOk, InDlq, toDlq]
        intro e he
        simp only [List.mem_append, List.mem_map]
        exact Or.inr ⟨e, he, rfl⟩
      · exact CallOk.mono hext call (hl call hc)
    · intro e he
      rcases List.mem_append.mp he with he | he
      · exact Or.inr ⟨(evs, .rejected), List.mem_cons_self, he⟩
      · rcases hh e he with h1 | ⟨call, hc, hec⟩
        · exact Or.inl h1
        · exact Or.inr ⟨call, List.mem_cons_of_mem _ hc, hec⟩

theorem acc_finish (s : Sys) (H : List Nat) (i : Nat) (d : Downstream) (now : Nat) (h : Acc s H) :
    Acc (finish s i d now).1 H := by
  have hext := finish_extends s i d now
  obtain ⟨hl, hh⟩ := h
  unfold finish at hext ⊢
  cases hlk : s.inflight.lookup i with
  | none => simp only [hlk]; exact ⟨hl, hh⟩
  | some evs =>
    simp only [hlk] at hext ⊢
    cases d with
    | ok =>
      simp only at hext ⊢
      constructor
      · intro call hc
        rcases List.mem_cons.mp hc with rfl | hc
        · simp only [CallOk]; intro e he; simp; exact Or.inr he
        · exact CallOk.mono hext call (hl call hc)
      · intro e he
        rcases hh e he with ⟨p, hp, hep⟩ | ⟨call, hc, hec⟩
        · rcases mem_removeFirst_or i s.inflight evs hlk p hp with h1 | h1
          · exact Or.inl ⟨p, h1, hep⟩
          · exact Or.inr ⟨(evs, .ok), List.mem_cons_self, by rw [← h1]; exact hep⟩
        · exact Or.inr ⟨call, List.mem_cons_of_mem _ hc, hec⟩
    | fail msg k =>
      simp only at hext ⊢
      constructor
      · intro call hc
        rcases List.mem_cons.mp hc with rfl | hc
        · simp only [CallOk, InDlq, toDlq]
          intro e he
          simp only [List.mem_append, List.mem_map]
          exact Or.inr ⟨e, he, rfl⟩
        · exact CallOk.mono hext call (hl call hc)
      · intro e he
        rcases hh e he with ⟨p, hp, hep⟩ | ⟨call, hc, hec⟩
        · rcases mem_removeFirst_or i s.inflight evs hlk p hp with h1 | h1
          · exact Or.inl ⟨p, h1, hep⟩
          · exact Or.inr ⟨(evs, .failed msg), List.mem_cons_self, by rw [← h1]; exact hep⟩
        · exact Or.inr ⟨call, List.mem_cons_of_mem _ hc, hec⟩

theorem acc_run (s : Sys) (H : List Nat) (steps : List Step) (h : Acc s H) :
    ∃ H', Acc (runS s steps) H' ∧ (∀ e ∈ H, e ∈ H') ∧ (∀ e ∈ handed steps, e ∈ H') := by
  induction steps generalizing s H with
  | nil => exact ⟨H, h, fun _ h => h, fun _ h => by cases h⟩
  | cons st rest ih =>
    cases st with
    | start i evs now =>
      obtain ⟨H', ha, h1, h2⟩ := ih (start s i evs now).1 (evs ++ H) (acc_start s H i evs now h)
      refine ⟨H', ha, fun e he => h1 e (List.mem_append_right _ he), ?_⟩
      intro e he
      simp only [handed] at he
      rcases List.mem_append.mp he with he | he
      · exact h1 e (List.mem_append_left _ he)
      · exact h2 e he
    | finish i d now =>
      obtain ⟨H', ha, h1, h2⟩ := ih (finish s i d now).1 H (acc_finish s H i d now h)
      exact ⟨H', ha, h1, fun e he => h2 e (by simpa [handed] using he)⟩

/-! ### the breaker inside the sink -/

theorem stepS_breaker (s : Sys) (st : Step) :
    ∃ ops, (stepS s st).breaker = finalB s.cfg s.breaker ops ∧ (stepS s st).cfg = s.cfg := by
  cases st with
  | start i evs now =>
    refine ⟨[.allow now], ?_, ?_⟩
    · simp only [stepS, start, finalB, List.foldl, stepB]
      split <;> rfl
    · simp only [stepS, start]; split <;> rfl
  | finish i d now =>
    simp only [stepS, finish]
    cases s.inflight.lookup i with
    | none => exact ⟨[], rfl, rfl⟩
    | some evs =>
      cases d with
      | ok => exact ⟨[.success], rfl, rfl⟩
      | fail msg k => exact ⟨[.failure now], rfl, rfl⟩

theorem finalB_append' (c : Cfg) (b : Breaker) (o1 o2 : List Op) :
    finalB c b (o1 ++ o2) = finalB c (finalB c b o1) o2 := by
  simp [finalB, List.foldl_append]

/-- the breaker inside the resilient sink is driven by nothing but `allow_request` / `record_*` calls -/
theorem runS_breaker (steps : List Step) (s : Sys) :
    ∃ ops, (runS s steps).breaker = finalB s.cfg s.breaker ops ∧ (runS s steps).cfg = s.cfg := by
  induction steps generalizing s with
  | nil => exact ⟨[], rfl, rfl⟩
  | cons st rest ih =>
    obtain ⟨o1, h1, c1⟩ := stepS_breaker s st
    obtain ⟨o2, h2, c2⟩ := ih (stepS s st)
    refine ⟨o1 ++ o2, ?_, ?_⟩
    · show (runS (stepS s st) rest).breaker = _
      rw [h2, c1, h1, finalB_append']
    · show (runS (stepS s st) rest).cfg = _
      rw [c2, c1]
end Varpulis.Breaker
