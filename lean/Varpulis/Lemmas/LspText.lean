import Varpulis.Model.LspText
/-! Lemmas for the LSP text helpers (C43). -/
namespace Varpulis.LspText

theorem splitNl_ne_nil (s : Str) : splitNl s ≠ [] := by
  cases s with
  | nil => simp [splitNl]
  | cons c cs =>
    unfold splitNl
    split
    · simp
    · split <;> simp

theorem splitNl_cons (c : Char) (cs : Str) :
    ∃ h t, splitNl cs = h :: t ∧
      splitNl (c :: cs) = if c = '\n' then [] :: h :: t else (c :: h) :: t := by
  cases hs : splitNl cs with
  | nil => exact absurd hs (splitNl_ne_nil cs)
  | cons h t => exact ⟨h, t, rfl, by rw [splitNl, hs]⟩

theorem docLines_length_pos (s : Str) : 0 < (docLines s).length := by
  have := splitNl_ne_nil s
  cases h : splitNl s with
  | nil => exact absurd h this
  | cons a b => simp [docLines, h]

/-- invariant of the `position_to_line_col` loop, relative to the still unread text -/
theorem posToLineColGo_spec (position : Nat) (rest : Str) (line col pos : Nat) :
    let r := posToLineColGo position rest line col pos
    line ≤ r.1 ∧ r.1 - line < (splitNl rest).length ∧
      (if r.1 = line then col ≤ r.2 ∧ r.2 - col ≤ ((splitNl rest)[0]?.getD []).length
       else r.2 ≤ ((splitNl rest)[r.1 - line]?.getD []).length) := by
  fun_induction posToLineColGo position rest line col pos
  · simp [splitNl]
  · rename_i ch rest line col pos _
    obtain ⟨h, t, _, h2⟩ := splitNl_cons ch rest
    simp only [Nat.le_refl, Nat.sub_self, if_true, true_and]
    rw [h2]; split <;> simp
  · rename_i rest line col pos _ ih
    obtain ⟨h, t, h1, h2⟩ := splitNl_cons '\n' rest
    simp only [if_true] at h2
    simp only at ih ⊢
    rw [h2]; rw [h1] at ih
    obtain ⟨i1, i2, i3⟩ := ih
    refine ⟨by omega, by simp at i2 ⊢; omega, ?_⟩
    have hne : ¬ (posToLineColGo position rest (line + 1) 0 (pos + '\n'.utf8Size)).1 = line := by omega
    simp only [hne, if_false]
    generalize (posToLineColGo position rest (line + 1) 0 (pos + '\n'.utf8Size)) = r at *
    have e : r.1 - line = (r.1 - (line + 1)) + 1 := by omega
    rw [e]
    split at i3
    · rename_i heq; rw [heq]; simp at i3 ⊢; exact i3
    · simpa using i3
  · rename_i ch rest line col pos _ hnl ih
    obtain ⟨h, t, h1, h2⟩ := splitNl_cons ch rest
    simp only [hnl, if_false] at h2
    simp only at ih ⊢
    rw [h2]; rw [h1] at ih
    obtain ⟨i1, i2, i3⟩ := ih
    generalize (posToLineColGo position rest line (col + 1) (pos + ch.utf8Size)) = r at *
    refine ⟨i1, by simpa using i2, ?_⟩
    split
    · rename_i heq; simp only [heq, if_true] at i3; simp at i3 ⊢; omega
    · rename_i hne; simp only [hne, if_false] at i3
      have e : r.1 - line = (r.1 - line - 1) + 1 := by omega
      rw [e] at i3 ⊢; simpa using i3

theorem posToLineCol_valid (source : Str) (position : Nat) :
    validPos source (posToLineCol source position) := by
  have h := posToLineColGo_spec position source 0 0 0
  simp only [Nat.sub_zero, Nat.zero_le, true_and] at h
  unfold validPos posToLineCol docLines
  obtain ⟨h1, h2⟩ := h
  refine ⟨h1, ?_⟩
  split at h2
  · rename_i heq; rw [heq]; exact h2
  · exact h2

/-! ### word at position -/

theorem wordStart_le (isWord : Char → Bool) (chars : Str) (s : Nat) : wordStart isWord chars s ≤ s := by
  induction s with
  | zero => simp [wordStart]
  | succ n ih =>
    unfold wordStart
    split
    · split
      · omega
      · omega
    · omega

theorem wordStart_eq_of_ge (isWord : Char → Bool) (chars : Str) (s : Nat) (h : chars.length < s) :
    wordStart isWord chars s = s := by
  cases s with
  | zero => omega
  | succ n =>
    unfold wordStart
    have : chars[n]? = none := by simp; omega
    simp [this]

theorem wordEnd_ge (isWord : Char → Bool) (chars : Str) (fuel e : Nat) : e ≤ wordEnd isWord chars fuel e := by
  induction fuel generalizing e with
  | zero => simp [wordEnd]
  | succ n ih =>
    unfold wordEnd
    split
    · split
      · have := ih (e + 1); omega
      · omega
    · omega

theorem wordEnd_le (isWord : Char → Bool) (chars : Str) (fuel e : Nat) (h : e ≤ chars.length) :
    wordEnd isWord chars fuel e ≤ chars.length := by
  induction fuel generalizing e with
  | zero => simpa [wordEnd]
  | succ n ih =>
    unfold wordEnd
    split
    · rename_i c hc
      have hlt : e < chars.length := by
        rcases List.getElem?_eq_some_iff.mp hc with ⟨hl, _⟩; exact hl
      split
      · exact ih (e + 1) hlt
      · exact h
    · exact h

theorem wordAt_ne_panic (isWord : Char → Bool) (text : Str) (line col : Nat) :
    wordAt isWord text line col ≠ .panic := by
  unfold wordAt
  split
  · simp
  · rename_i l _
    split
    · simp
    · simp only
      split
      · simp
      · rename_i hne
        unfold vecSlice
        by_cases hc : col ≤ l.length
        · have h1 := wordStart_le isWord l col
          have h2 := wordEnd_ge isWord l (l.length - col) col
          have h3 := wordEnd_le isWord l (l.length - col) col hc
          have : ¬ (wordStart isWord l col > wordEnd isWord l (l.length - col) col ∨
              wordEnd isWord l (l.length - col) col > l.length) := by omega
          simp [this]
        · exfalso
          apply hne
          have h0 : l.length - col = 0 := by omega
          rw [wordStart_eq_of_ge isWord l col (by omega), h0]
          simp [wordEnd]

/-! ### byte slices -/

theorem utf8Size_pos' (c : Char) : 0 < c.utf8Size := Char.utf8Size_pos c

theorem sliceTo_append (a b : Str) : sliceTo (a ++ b) (blen a) = .ok a := by
  induction a with
  | nil => cases b <;> simp [sliceTo, blen]
  | cons c cs ih =>
    have hp := utf8Size_pos' c
    simp only [List.cons_append, blen, sliceTo]
    have h1 : ¬ (c.utf8Size + blen cs = 0) := by omega
    have h2 : ¬ (c.utf8Size + blen cs < c.utf8Size) := by omega
    simp only [h1, h2, if_false, Nat.add_sub_cancel_left, ih]

theorem sliceFrom_append (a b : Str) : sliceFrom (a ++ b) (blen a) = .ok b := by
  induction a with
  | nil => cases b <;> simp [sliceFrom, blen]
  | cons c cs ih =>
    have hp := utf8Size_pos' c
    simp only [List.cons_append, blen, sliceFrom]
    have h1 : ¬ (c.utf8Size + blen cs = 0) := by omega
    have h2 : ¬ (c.utf8Size + blen cs < c.utf8Size) := by omega
    simp only [h1, h2, if_false, Nat.add_sub_cancel_left, ih]

theorem afterConnector_eq (isWs isWord : Char → Bool) (after : Str) :
    afterConnector isWs isWord after = .ok ((after.dropWhile isWs).dropWhile isWord) := by
  unfold afterConnector
  simp only
  conv => lhs; arg 1; rw [← List.takeWhile_append_dropWhile (p := isWord) (l := after.dropWhile isWs)]
  exact sliceFrom_append _ _

theorem charColToByte_eq (l : Str) (n : Nat) : charColToByte l n = blen (l.take n) := by
  induction l generalizing n with
  | nil => simp [charColToByte, blen]
  | cons c cs ih =>
    cases n with
    | zero => simp [charColToByte, blen]
    | succ k => simp [charColToByte, blen, ih]

theorem complPrefix_eq (text : Str) (line col : Nat) :
    complPrefix text line col = .ok ((((lines text)[line]?).getD []).take col) := by
  unfold complPrefix
  simp only
  rw [charColToByte_eq]
  generalize ((lines text)[line]?).getD [] = l
  conv => lhs; arg 1; rw [← List.take_append_drop col l]
  exact sliceTo_append _ _

theorem identToken_eq (isWord : Char → Bool) (s : Str) :
    identToken isWord s = .ok (s.takeWhile isWord).length := by
  unfold identToken
  have : sliceTo s (blen (s.takeWhile isWord)) = .ok (s.takeWhile isWord) := by
    conv => lhs; arg 1; rw [← List.takeWhile_append_dropWhile (p := isWord) (l := s)]
    exact sliceTo_append _ _
  rw [this]

/-! ### clamping -/

theorem clampPos_valid (source : Str) (line col : Nat) : validPos source (clampPos source line col) := by
  have hpos := docLines_length_pos source
  unfold clampPos validPos
  simp only
  split
  · rename_i h
    exact ⟨h, Nat.min_le_right _ _⟩
  · refine ⟨by simp only; omega, ?_⟩
    simp only
    rw [List.getLast?_eq_getElem?]
    exact Nat.le_refl _

/-- lexicographic order on positions -/
def posLe (a b : Nat × Nat) : Prop := a.1 < b.1 ∨ (a.1 = b.1 ∧ a.2 ≤ b.2)

theorem clampPos_mono (source : Str) (l1 c1 l2 c2 : Nat) (h : posLe (l1, c1) (l2, c2)) :
    posLe (clampPos source l1 c1) (clampPos source l2 c2) := by
  have hpos := docLines_length_pos source
  unfold clampPos posLe at *
  simp only at h ⊢
  by_cases h1 : l1 < (docLines source).length <;> by_cases h2 : l2 < (docLines source).length <;>
    simp only [h1, h2, if_true, if_false]
  · rcases h with h | ⟨h, hc⟩
    · exact Or.inl h
    · subst h; exact Or.inr ⟨rfl, by omega⟩
  · by_cases he : l1 = (docLines source).length - 1
    · subst he
      refine Or.inr ⟨rfl, ?_⟩
      rw [List.getLast?_eq_getElem?]
      exact Nat.min_le_right _ _
    · exact Or.inl (by omega)
  · exfalso; rcases h with h | ⟨h, _⟩ <;> omega
  · simp

end Varpulis.LspText
