import Varpulis.Lemmas.SaseBounds
/-!
# Several concurrent runs (C03, multi-run streams): runs are processed independently
-/
namespace Varpulis.SaseB
open Varpulis.SaseK Varpulis.Zdd

theorem swapRemove_decomp {α : Type} (pre rest : List α) (x : α) :
    ∃ rest', swapRemove (pre ++ x :: rest) pre.length = pre ++ rest' ∧ rest'.Perm rest := by
  rcases List.eq_nil_or_concat rest with rfl | ⟨r, y, rfl⟩
  · refine ⟨[], ?_, List.Perm.refl _⟩
    simp [swapRemove, List.getLast?_append, List.dropLast_append_of_ne_nil, List.set_eq_of_length_le]
  · refine ⟨y :: r, ?_, ?_⟩
    · rw [List.concat_eq_append]
      have h1 : pre ++ x :: (r ++ [y]) = (pre ++ x :: r) ++ [y] := by simp
      rw [h1]
      unfold swapRemove
      rw [List.getLast?_concat, List.dropLast_concat]
      simp [List.set_append]
    · rw [List.concat_eq_append]
      exact (List.perm_append_comm (l₁ := [y]) (l₂ := r))

/-- what one run contributes to a `process` call: the run that stays (if any) and the matches it reports -/
def contrib (nfa : Nfa) (lim : Limits) (e : Ev) (r : Run) : Option Run × List (List Match) :=
  match advance nfa lim r e with
  | .cont r' => (some r', [])
  | .noMatch r' => (some r', [])
  | .complete m => (none, [[m]])
  | .completeCont r' m => (some r', [[m]])
  | .multi ms => (none, [ms])
  | .panic => (none, [])

/-- **runs are processed independently**: the loop of `process_runs_shared` yields, up to the order induced by
`swap_remove`, exactly the surviving runs and the reports of each run taken on its own -/
theorem processRuns_perm (nfa : Nfa) (lim : Limits) (e : Ev) :
    ∀ (fuel : Nat) (pre rest : List Run) (acc : List (List Match)) (runs' : List Run) (ms : List (List Match)),
      rest.length ≤ fuel → (∀ r ∈ rest, advance nfa lim r e ≠ .panic) →
      processRuns nfa lim e fuel (pre ++ rest) pre.length acc = some (runs', ms) →
      runs'.Perm (pre ++ rest.filterMap fun r => (contrib nfa lim e r).1) ∧
      ms.Perm (acc ++ rest.flatMap fun r => (contrib nfa lim e r).2) := by
  intro fuel
  induction fuel with
  | zero =>
    intro pre rest acc runs' ms hlen _ h
    have : rest = [] := List.length_eq_zero_iff.mp (Nat.le_zero.mp hlen)
    subst this
    simp [processRuns] at h
    obtain ⟨rfl, rfl⟩ := h
    simp
  | succ fuel ih =>
    intro pre rest acc runs' ms hlen hnp h
    cases rest with
    | nil =>
      simp [processRuns] at h
      obtain ⟨rfl, rfl⟩ := h
      simp
    | cons r rest =>
      have hget : (pre ++ r :: rest)[pre.length]? = some r := by simp
      have hset : ∀ r', (pre ++ r :: rest).set pre.length r' = (pre ++ [r']) ++ rest := by
        intro r'; simp [List.set_append]
      have hlen' : rest.length ≤ fuel := by simp at hlen; omega
      have hnp' : ∀ x ∈ rest, advance nfa lim x e ≠ .panic := fun x hx => hnp x (List.mem_cons_of_mem _ hx)
      have hpl : (pre ++ [r]).length = pre.length + 1 := by simp
      simp only [processRuns, hget] at h
      cases hadv : advance nfa lim r e with
      | panic => exact absurd hadv (hnp r (by simp))
      | cont r' =>
        simp only [hadv, hset] at h
        have hpl' : (pre ++ [r']).length = pre.length + 1 := by simp
        rw [← hpl'] at h
        obtain ⟨h1, h2⟩ := ih (pre ++ [r']) rest acc runs' ms hlen' hnp' h
        refine ⟨?_, ?_⟩
        · simpa [contrib, hadv] using h1
        · simpa [contrib, hadv] using h2
      | noMatch r' =>
        simp only [hadv, hset] at h
        have hpl' : (pre ++ [r']).length = pre.length + 1 := by simp
        rw [← hpl'] at h
        obtain ⟨h1, h2⟩ := ih (pre ++ [r']) rest acc runs' ms hlen' hnp' h
        refine ⟨?_, ?_⟩
        · simpa [contrib, hadv] using h1
        · simpa [contrib, hadv] using h2
      | completeCont r' m =>
        simp only [hadv, hset] at h
        have hpl' : (pre ++ [r']).length = pre.length + 1 := by simp
        rw [← hpl'] at h
        obtain ⟨h1, h2⟩ := ih (pre ++ [r']) rest (acc ++ [[m]]) runs' ms hlen' hnp' h
        refine ⟨?_, ?_⟩
        · simpa [contrib, hadv] using h1
        · simpa [contrib, hadv] using h2
      | complete m =>
        simp only [hadv] at h
        obtain ⟨rest', hsw, hperm⟩ := swapRemove_decomp pre rest r
        rw [hsw] at h
        have hlen'' : rest'.length ≤ fuel := by rw [hperm.length_eq]; exact hlen'
        have hnp'' : ∀ x ∈ rest', advance nfa lim x e ≠ .panic := fun x hx => hnp' x (hperm.mem_iff.mp hx)
        obtain ⟨h1, h2⟩ := ih pre rest' (acc ++ [[m]]) runs' ms hlen'' hnp'' h
        refine ⟨?_, ?_⟩
        · refine h1.trans ?_
          simp only [List.filterMap_cons, contrib, hadv]
          exact List.Perm.append_left _ (hperm.filterMap _)
        · refine h2.trans ?_
          simp only [List.flatMap_cons, contrib, hadv, List.append_assoc]
          exact List.Perm.append_left _ (List.Perm.append_left _ (hperm.flatMap_right _))
      | multi ms0 =>
        simp only [hadv] at h
        obtain ⟨rest', hsw, hperm⟩ := swapRemove_decomp pre rest r
        rw [hsw] at h
        have hlen'' : rest'.length ≤ fuel := by rw [hperm.length_eq]; exact hlen'
        have hnp'' : ∀ x ∈ rest', advance nfa lim x e ≠ .panic := fun x hx => hnp' x (hperm.mem_iff.mp hx)
        obtain ⟨h1, h2⟩ := ih pre rest' (acc ++ [ms0]) runs' ms hlen'' hnp'' h
        refine ⟨?_, ?_⟩
        · refine h1.trans ?_
          simp only [List.filterMap_cons, contrib, hadv]
          exact List.Perm.append_left _ (hperm.filterMap _)
        · refine h2.trans ?_
          simp only [List.flatMap_cons, contrib, hadv, List.append_assoc]
          exact List.Perm.append_left _ (List.Perm.append_left _ (hperm.flatMap_right _))

/-! ### open runs of `A -> all B -> C` on a stream with several A events -/

/-- an open run of `A -> all B -> C`: its start event, the B events kept so far, its creation number -/
structure Open where
  eA : Ev
  kept : List Ev
  seq : Nat

def Open.toRun (pp : Option Pred) (o : Open) : Run := runOf pp o.eA o.kept o.seq

/-- effect of one non-C event on an open run: a B may extend the closure, anything else is ignored -/
def Open.adv (pe : Option Pred) (mk : Nat) (e : Ev) (o : Open) : Open :=
  if e.ty = 1 then { o with kept := keep pe mk o.eA o.kept e } else o

theorem runOf_seq_cases (pp : Option Pred) (eA : Ev) (kept : List Ev) (seq : Nat) :
    (kept = [] ∧ runOf pp eA kept seq = runAt1 eA seq) ∨
    (∃ l, kept.getLast? = some l ∧ runOf pp eA kept seq = runAt2 pp eA kept l seq) := by
  cases hl : kept.getLast? with
  | none =>
    left
    have : kept = [] := by simpa [List.getLast?_eq_none_iff] using hl
    subst this; exact ⟨rfl, rfl⟩
  | some l => right; exact ⟨l, rfl, by simp [runOf, hl]⟩

/-- an event that is neither a B nor a C leaves an open run alone -/
theorem adv_other (pa pe pp pc : Option Pred) (lim : Limits) (eA e : Ev) (kept : List Ev) (seq : Nat)
    (h1 : e.ty ≠ 1) (h2 : e.ty ≠ 2) :
    advance (nfaMid pa pe pp pc) lim (runOf pp eA kept seq) e = .noMatch (runOf pp eA kept seq) := by
  rcases runOf_seq_cases pp eA kept seq with ⟨_, hr⟩ | ⟨l, _, hr⟩
  · rw [hr]; simp [advance, nfaMid, runAt1, tryTransitions, tryEps, matchesState, tyOk, h1]
  · rw [hr]; simp [advance, nfaMid, runAt2, tryTransitions, tryEps, tryEpsTargets, matchesState, tyOk, h1, h2]

theorem adv_open (pa pe pp pc : Option Pred) (lim : Limits) (e : Ev) (o : Open) (h2 : e.ty ≠ 2) (hk : 1 ≤ lim.maxEvents) :
    advance (nfaMid pa pe pp pc) lim (o.toRun pp) e = .cont ((o.adv pe lim.maxEvents e).toRun pp) ∨
    advance (nfaMid pa pe pp pc) lim (o.toRun pp) e = .noMatch ((o.adv pe lim.maxEvents e).toRun pp) := by
  by_cases h1 : e.ty = 1
  · simp only [Open.toRun, Open.adv, h1, if_true]
    exact adv_B pa pe pp pc lim o.eA e o.kept o.seq h1 hk
  · right
    simp only [Open.toRun, Open.adv, h1, if_false]
    exact adv_other pa pe pp pc lim o.eA e o.kept o.seq h1 h2

/-- the event starts a run -/
def accepts (pa : Option Pred) (e : Ev) : Bool := e.ty == 0 && predOk pa e []

theorem tryStart_mid (pa pe pp pc : Option Pred) (e : Ev) (seq : Nat) :
    tryStart (nfaMid pa pe pp pc) e seq = if accepts pa e then .run (runAt1 e seq) else .none := by
  by_cases h0 : e.ty = 0
  · by_cases hp : predOk pa e [] = true
    · simp [accepts, h0, hp, tryStart_mid_A pa pe pp pc e seq h0 hp]
    · simp [accepts, h0, hp, tryStart, nfaMid, startTargets, startEps, matchesState, tyOk]
  · simp [accepts, h0, tryStart_mid_none pa pe pp pc e seq h0]

/-- one non-C event on an unpartitioned engine whose runs are the open runs `os` -/
theorem step_open (pa pe pp pc : Option Pred) (cfg : Cfg) (s : Eng) (e : Ev) (os : List Open)
    (hp : cfg.partitioned = false) (hk : 1 ≤ cfg.lim.maxEvents) (h2 : e.ty ≠ 2)
    (hr : s.runs = os.map (Open.toRun pp)) (hcap : accepts pa e = true → os.length < cfg.maxRuns) :
    ∃ s' o, step (nfaMid pa pe pp pc) cfg s e = some (s', o) ∧ o.emitted = [] ∧
      s'.runs = (os.map (Open.adv pe cfg.lim.maxEvents e) ++
                 (if accepts pa e then [Open.mk e [] s.nextSeq] else [])).map (Open.toRun pp) ∧
      s'.nextSeq = s.nextSeq + (if accepts pa e then 1 else 0) := by
  have hproc2 : processRuns (nfaMid pa pe pp pc) cfg.lim e (os.map (Open.toRun pp)).length (os.map (Open.toRun pp)) 0 [] =
      some ((os.map (Open.adv pe cfg.lim.maxEvents e)).map (Open.toRun pp), []) := by
    have key : ∀ (fuel : Nat) (pre : List Run) (rest : List Open), rest.length ≤ fuel →
        processRuns (nfaMid pa pe pp pc) cfg.lim e fuel (pre ++ rest.map (Open.toRun pp)) pre.length [] =
          some (pre ++ (rest.map (Open.adv pe cfg.lim.maxEvents e)).map (Open.toRun pp), []) := by
      intro fuel
      induction fuel with
      | zero =>
        intro pre rest hlen
        have : rest = [] := List.length_eq_zero_iff.mp (Nat.le_zero.mp hlen)
        subst this; simp [processRuns]
      | succ fuel ih =>
        intro pre rest hlen
        cases rest with
        | nil => simp [processRuns]
        | cons o rest =>
          have hget : (pre ++ (o :: rest).map (Open.toRun pp))[pre.length]? = some (o.toRun pp) := by simp
          have hset : ∀ r', (pre ++ (o :: rest).map (Open.toRun pp)).set pre.length r' = (pre ++ [r']) ++ rest.map (Open.toRun pp) := by
            intro r'; simp [List.set_append]
          have hlen' : rest.length ≤ fuel := by simp at hlen; omega
          have hpl' : (pre ++ [(o.adv pe cfg.lim.maxEvents e).toRun pp]).length = pre.length + 1 := by simp
          have := ih (pre ++ [(o.adv pe cfg.lim.maxEvents e).toRun pp]) rest hlen'
          rw [hpl'] at this
          simp only [processRuns, hget]
          rcases adv_open pa pe pp pc cfg.lim e o h2 hk with ha | ha <;> simp only [ha, hset, this] <;> simp
    have := key (os.map (Open.toRun pp)).length [] os (by simp)
    simpa using this
  have hst1 : ∀ seq, (nfaMid pa pe pp pc).states[(runAt1 e seq).cur]? =
      some { ty := .normal, evTy := some 0, pred := pa, alias := some 0, trans := [2] } := by
    intro seq; simp [nfaMid, runAt1]
  by_cases hacc : accepts pa e = true
  · have hlt : ((os.map (Open.adv pe cfg.lim.maxEvents e)).map (Open.toRun pp)).length < cfg.maxRuns := by simpa using hcap hacc
    have hbp : ∀ c d r, handleBp cfg c d ((os.map (Open.adv pe cfg.lim.maxEvents e)).map (Open.toRun pp)) r =
        ((os.map (Open.adv pe cfg.lim.maxEvents e)).map (Open.toRun pp) ++ [r], .added) := by
      intro c d r; simp only [handleBp, hlt, if_true]
    simp only [step, hp, hr, Bool.false_eq_true, if_false, Bool.false_and, hproc2, tryStart_mid, hacc, if_true, hst1, hbp]
    refine ⟨_, _, rfl, rfl, ?_, ?_⟩
    · simp [Open.toRun, runOf]
    · simp
  · simp only [step, hp, hr, Bool.false_eq_true, if_false, Bool.false_and, hproc2, tryStart_mid, hacc]
    refine ⟨_, _, rfl, rfl, ?_, ?_⟩
    · simp
    · simp

end Varpulis.SaseB
