import Varpulis.Lemmas.SaseBounds
/-!
# Several concurrent runs (C03, multi-run streams): runs are processed independently
-/
namespace Varpulis.SaseB
open Varpulis.SaseK Varpulis.Zdd

theorem swapRemove_decomp {α : Type} (pre rest : List α) (x : α) :
    ∃ rest', swapRemove (pre ++ x :: rest) pre.length = pre ++ rest' ∧ rest'.Perm rest := by
  rcases List.eq_nil_or_concat rest with rfl | ⟨r, y, rfl⟩
  · refine ⟨[], ?_, List.Perm.refl _⟩
    simp [swapRemove, List.getLast?_append, List.dropLast_append_of_ne_nil, List.set_eq_of_length_le]
  · refine ⟨y :: r, ?_, ?_⟩
    · rw [List.concat_eq_append]
      have h1 : pre ++ x :: (r ++ [y]) = (pre ++ x :: r) ++ [y] := by simp
      rw [h1]
      unfold swapRemove
      rw [List.getLast?_concat, List.dropLast_concat]
      simp [List.set_append]
    · rw [List.concat_eq_append]
      exact (List.perm_append_comm (l₁ := [y]) (l₂ := r))

/-- what one run contributes to a `process` call: the run that stays (if any) and the matches it reports -/
def contrib (nfa : Nfa) (lim : Limits) (e : Ev) (r : Run) : Option Run × List (List Match) :=
  match advance nfa lim r e with
  | .cont r' => (some r', [])
  | .noMatch r' => (some r', [])
  | .complete m => (none, [[m]])
  | .completeCont r' m => (some r', [[m]])
  | .multi ms => (none, [ms])
  | .panic => (none, [])

/-- **runs are processed independently**: if no run panics, the loop of `process_runs_shared` terminates normally and
yields, up to the order induced by `swap_remove`, exactly the surviving runs and the reports of each run taken on its own -/
theorem processRuns_perm (nfa : Nfa) (lim : Limits) (e : Ev) :
    ∀ (fuel : Nat) (pre rest : List Run) (acc : List (List Match)),
      rest.length ≤ fuel → (∀ r ∈ rest, advance nfa lim r e ≠ .panic) →
      ∃ runs' ms, processRuns nfa lim e fuel (pre ++ rest) pre.length acc = some (runs', ms) ∧
        runs'.Perm (pre ++ rest.filterMap fun r => (contrib nfa lim e r).1) ∧
        ms.Perm (acc ++ rest.flatMap fun r => (contrib nfa lim e r).2) := by
  intro fuel
  induction fuel with
  | zero =>
    intro pre rest acc hlen _
    have : rest = [] := List.length_eq_zero_iff.mp (Nat.le_zero.mp hlen)
    subst this
    exact ⟨pre, acc, by simp [processRuns], by simp, by simp⟩
  | succ fuel ih =>
    intro pre rest acc hlen hnp
    cases rest with
    | nil => exact ⟨pre, acc, by simp [processRuns], by simp, by simp⟩
    | cons r rest =>
      have hget : (pre ++ r :: rest)[pre.length]? = some r := by simp
      have hset : ∀ r', (pre ++ r :: rest).set pre.length r' = (pre ++ [r']) ++ rest := by
        intro r'; simp [List.set_append]
      have hlen' : rest.length ≤ fuel := by simp at hlen; omega
      have hnp' : ∀ x ∈ rest, advance nfa lim x e ≠ .panic := fun x hx => hnp x (List.mem_cons_of_mem _ hx)
      have keep1 : ∀ r' acc', (∃ runs' ms, processRuns nfa lim e fuel ((pre ++ [r']) ++ rest) (pre.length + 1) acc' = some (runs', ms) ∧
          runs'.Perm ((pre ++ [r']) ++ rest.filterMap fun r => (contrib nfa lim e r).1) ∧
          ms.Perm (acc' ++ rest.flatMap fun r => (contrib nfa lim e r).2)) := by
        intro r' acc'
        have hpl' : (pre ++ [r']).length = pre.length + 1 := by simp
        have := ih (pre ++ [r']) rest acc' hlen' hnp'
        rwa [hpl'] at this
      have drop1 : ∀ acc', (∃ runs' ms, processRuns nfa lim e fuel (swapRemove (pre ++ r :: rest) pre.length) pre.length acc' = some (runs', ms) ∧
          runs'.Perm (pre ++ rest.filterMap fun r => (contrib nfa lim e r).1) ∧
          ms.Perm (acc' ++ rest.flatMap fun r => (contrib nfa lim e r).2)) := by
        intro acc'
        obtain ⟨rest', hsw, hperm⟩ := swapRemove_decomp pre rest r
        rw [hsw]
        have hlen'' : rest'.length ≤ fuel := by rw [hperm.length_eq]; exact hlen'
        have hnp'' : ∀ x ∈ rest', advance nfa lim x e ≠ .panic := fun x hx => hnp' x (hperm.mem_iff.mp hx)
        obtain ⟨runs', ms, h, h1, h2⟩ := ih pre rest' acc' hlen'' hnp''
        exact ⟨runs', ms, h, h1.trans (List.Perm.append_left _ (hperm.filterMap _)),
          h2.trans (List.Perm.append_left _ (hperm.flatMap_right _))⟩
      simp only [processRuns, hget]
      cases hadv : advance nfa lim r e with
      | panic => exact absurd hadv (hnp r (by simp))
      | cont r' =>
        obtain ⟨runs', ms, h, h1, h2⟩ := keep1 r' acc
        exact ⟨runs', ms, by simpa only [hset] using h, by simpa [contrib, hadv] using h1, by simpa [contrib, hadv] using h2⟩
      | noMatch r' =>
        obtain ⟨runs', ms, h, h1, h2⟩ := keep1 r' acc
        exact ⟨runs', ms, by simpa only [hset] using h, by simpa [contrib, hadv] using h1, by simpa [contrib, hadv] using h2⟩
      | completeCont r' m =>
        obtain ⟨runs', ms, h, h1, h2⟩ := keep1 r' (acc ++ [[m]])
        exact ⟨runs', ms, by simpa only [hset] using h, by simpa [contrib, hadv] using h1, by simpa [contrib, hadv] using h2⟩
      | complete m =>
        obtain ⟨runs', ms, h, h1, h2⟩ := drop1 (acc ++ [[m]])
        exact ⟨runs', ms, h, by simpa [contrib, hadv] using h1, by simpa [contrib, hadv] using h2⟩
      | multi ms0 =>
        obtain ⟨runs', ms, h, h1, h2⟩ := drop1 (acc ++ [ms0])
        exact ⟨runs', ms, h, by simpa [contrib, hadv] using h1, by simpa [contrib, hadv] using h2⟩

/-! ### open runs of `A -> all B -> C` on a stream with several A events -/

/-- an open run of `A -> all B -> C`: its start event, the B events kept so far, its creation number -/
structure Open where
  eA : Ev
  kept : List Ev
  seq : Nat

def Open.toRun (pp : Option Pred) (o : Open) : Run := runOf pp o.eA o.kept o.seq

/-- effect of one non-C event on an open run: a B may extend the closure, anything else is ignored -/
def Open.adv (pe : Option Pred) (mk : Nat) (e : Ev) (o : Open) : Open :=
  if e.ty = 1 then { o with kept := keep pe mk o.eA o.kept e } else o

theorem runOf_seq_cases (pp : Option Pred) (eA : Ev) (kept : List Ev) (seq : Nat) :
    (kept = [] ∧ runOf pp eA kept seq = runAt1 eA seq) ∨
    (∃ l, kept.getLast? = some l ∧ runOf pp eA kept seq = runAt2 pp eA kept l seq) := by
  cases hl : kept.getLast? with
  | none =>
    left
    have : kept = [] := by simpa [List.getLast?_eq_none_iff] using hl
    subst this; exact ⟨rfl, rfl⟩
  | some l => right; exact ⟨l, rfl, by simp [runOf, hl]⟩

/-- an event that is neither a B nor a C leaves an open run alone -/
theorem adv_other (pa pe pp pc : Option Pred) (lim : Limits) (eA e : Ev) (kept : List Ev) (seq : Nat)
    (h1 : e.ty ≠ 1) (h2 : e.ty ≠ 2) :
    advance (nfaMid pa pe pp pc) lim (runOf pp eA kept seq) e = .noMatch (runOf pp eA kept seq) := by
  rcases runOf_seq_cases pp eA kept seq with ⟨_, hr⟩ | ⟨l, _, hr⟩
  · rw [hr]; simp [advance, nfaMid, runAt1, tryTransitions, tryEps, matchesState, tyOk, h1]
  · rw [hr]; simp [advance, nfaMid, runAt2, tryTransitions, tryEps, tryEpsTargets, matchesState, tyOk, h1, h2]

theorem adv_open (pa pe pp pc : Option Pred) (lim : Limits) (e : Ev) (o : Open) (h2 : e.ty ≠ 2) (hk : 1 ≤ lim.maxEvents) :
    advance (nfaMid pa pe pp pc) lim (o.toRun pp) e = .cont ((o.adv pe lim.maxEvents e).toRun pp) ∨
    advance (nfaMid pa pe pp pc) lim (o.toRun pp) e = .noMatch ((o.adv pe lim.maxEvents e).toRun pp) := by
  by_cases h1 : e.ty = 1
  · simp only [Open.toRun, Open.adv, h1, if_true]
    exact adv_B pa pe pp pc lim o.eA e o.kept o.seq h1 hk
  · right
    simp only [Open.toRun, Open.adv, h1, if_false]
    exact adv_other pa pe pp pc lim o.eA e o.kept o.seq h1 h2

/-- the event starts a run -/
def accepts (pa : Option Pred) (e : Ev) : Bool := e.ty == 0 && predOk pa e []

theorem tryStart_mid (pa pe pp pc : Option Pred) (e : Ev) (seq : Nat) :
    tryStart (nfaMid pa pe pp pc) e seq = if accepts pa e then .run (runAt1 e seq) else .none := by
  by_cases h0 : e.ty = 0
  · by_cases hp : predOk pa e [] = true
    · simp [accepts, h0, hp, tryStart_mid_A pa pe pp pc e seq h0 hp]
    · simp [accepts, h0, hp, tryStart, nfaMid, startTargets, startEps, matchesState, tyOk]
  · simp [accepts, h0, tryStart_mid_none pa pe pp pc e seq h0]

/-- one non-C event on an unpartitioned engine whose runs are the open runs `os` -/
theorem step_open (pa pe pp pc : Option Pred) (cfg : Cfg) (s : Eng) (e : Ev) (os : List Open)
    (hp : cfg.partitioned = false) (hk : 1 ≤ cfg.lim.maxEvents) (h2 : e.ty ≠ 2)
    (hr : s.runs = os.map (Open.toRun pp)) (hcap : accepts pa e = true → os.length < cfg.maxRuns) :
    ∃ s' o, step (nfaMid pa pe pp pc) cfg s e = some (s', o) ∧ o.emitted = [] ∧
      s'.runs = (os.map (Open.adv pe cfg.lim.maxEvents e) ++
                 (if accepts pa e then [Open.mk e [] s.nextSeq] else [])).map (Open.toRun pp) ∧
      s'.nextSeq = s.nextSeq + (if accepts pa e then 1 else 0) := by
  have hproc2 : processRuns (nfaMid pa pe pp pc) cfg.lim e (os.map (Open.toRun pp)).length (os.map (Open.toRun pp)) 0 [] =
      some ((os.map (Open.adv pe cfg.lim.maxEvents e)).map (Open.toRun pp), []) := by
    have key : ∀ (fuel : Nat) (pre : List Run) (rest : List Open), rest.length ≤ fuel →
        processRuns (nfaMid pa pe pp pc) cfg.lim e fuel (pre ++ rest.map (Open.toRun pp)) pre.length [] =
          some (pre ++ (rest.map (Open.adv pe cfg.lim.maxEvents e)).map (Open.toRun pp), []) := by
      intro fuel
      induction fuel with
      | zero =>
        intro pre rest hlen
        have : rest = [] := List.length_eq_zero_iff.mp (Nat.le_zero.mp hlen)
        subst this; simp [processRuns]
      | succ fuel ih =>
        intro pre rest hlen
        cases rest with
        | nil => simp [processRuns]
        | cons o rest =>
          have hget : (pre ++ (o :: rest).map (Open.toRun pp))[pre.length]? = some (o.toRun pp) := by simp
          have hset : ∀ r', (pre ++ (o :: rest).map (Open.toRun pp)).set pre.length r' = (pre ++ [r']) ++ rest.map (Open.toRun pp) := by
            intro r'; simp [List.set_append]
          have hlen' : rest.length ≤ fuel := by simp at hlen; omega
          have hpl' : (pre ++ [(o.adv pe cfg.lim.maxEvents e).toRun pp]).length = pre.length + 1 := by simp
          have := ih (pre ++ [(o.adv pe cfg.lim.maxEvents e).toRun pp]) rest hlen'
          rw [hpl'] at this
          simp only [processRuns, hget]
          rcases adv_open pa pe pp pc cfg.lim e o h2 hk with ha | ha <;> simp only [ha, hset, this] <;> simp
    have := key (os.map (Open.toRun pp)).length [] os (by simp)
    simpa using this
  have hst1 : ∀ seq, (nfaMid pa pe pp pc).states[(runAt1 e seq).cur]? =
      some { ty := .normal, evTy := some 0, pred := pa, alias := some 0, trans := [2] } := by
    intro seq; simp [nfaMid, runAt1]
  by_cases hacc : accepts pa e = true
  · have hlt : ((os.map (Open.adv pe cfg.lim.maxEvents e)).map (Open.toRun pp)).length < cfg.maxRuns := by simpa using hcap hacc
    have hbp : ∀ c d r, handleBp cfg c d ((os.map (Open.adv pe cfg.lim.maxEvents e)).map (Open.toRun pp)) r =
        ((os.map (Open.adv pe cfg.lim.maxEvents e)).map (Open.toRun pp) ++ [r], .added) := by
      intro c d r; simp only [handleBp, hlt, if_true]
    simp only [step, hp, hr, Bool.false_eq_true, if_false, Bool.false_and, hproc2, tryStart_mid, hacc, if_true, hst1, hbp]
    refine ⟨_, _, rfl, rfl, ?_, ?_⟩
    · simp [Open.toRun, runOf]
    · simp
  · simp only [step, hp, hr, Bool.false_eq_true, if_false, Bool.false_and, hproc2, tryStart_mid, hacc]
    refine ⟨_, _, rfl, rfl, ?_, ?_⟩
    · simp
    · simp

/-- the B events of a stream -/
def bsOf (es : List Ev) : List Ev := es.filter fun e => e.ty = 1

/-- effect of a C-free stream on an open run -/
def Open.advAll (pe : Option Pred) (mk : Nat) (es : List Ev) (o : Open) : Open :=
  { o with kept := (bsOf es).foldl (keep pe mk o.eA) o.kept }

/-- the runs opened by a C-free stream: one per accepted A, each with the B events *after it* that it kept -/
def opensOf (pa pe : Option Pred) (mk : Nat) : List Ev → Nat → List Open
  | [], _ => []
  | e :: es, next =>
    if accepts pa e then ⟨e, (bsOf es).foldl (keep pe mk e) [], next⟩ :: opensOf pa pe mk es (next + 1)
    else opensOf pa pe mk es next

theorem advAll_cons (pe : Option Pred) (mk : Nat) (e : Ev) (es : List Ev) (o : Open) :
    Open.advAll pe mk (e :: es) o = Open.advAll pe mk es (Open.adv pe mk e o) := by
  by_cases h1 : e.ty = 1
  · simp [Open.advAll, Open.adv, bsOf, h1, List.filter_cons]
  · simp [Open.advAll, Open.adv, bsOf, h1, List.filter_cons]

/-- a C-free stream on an engine whose runs are the open runs `os` (room for every new run): nothing is emitted,
old runs advance independently, new runs are appended -/
theorem runAll_open (pa pe pp pc : Option Pred) (cfg : Cfg) (hp : cfg.partitioned = false) (hk : 1 ≤ cfg.lim.maxEvents) :
    ∀ (es : List Ev) (s : Eng) (os : List Open), (∀ e ∈ es, e.ty ≠ 2) → s.runs = os.map (Open.toRun pp) →
      os.length + (es.filter (accepts pa)).length ≤ cfg.maxRuns →
      ∃ s' outs, runAll (nfaMid pa pe pp pc) cfg s es = some (s', outs) ∧
        outs.map (·.emitted) = es.map (fun _ => []) ∧
        s'.runs = (os.map (Open.advAll pe cfg.lim.maxEvents es) ++ opensOf pa pe cfg.lim.maxEvents es s.nextSeq).map (Open.toRun pp) := by
  intro es
  induction es with
  | nil => intro s os _ hr _; exact ⟨s, [], rfl, rfl, by simp [opensOf, Open.advAll, bsOf, hr]⟩
  | cons e es ih =>
    intro s os h2 hr hcap
    have hcap1 : accepts pa e = true → os.length < cfg.maxRuns := by
      intro ha; simp [List.filter_cons, ha] at hcap; omega
    obtain ⟨s1, o1, hstep, hem, hr1, hn1⟩ := step_open pa pe pp pc cfg s e os hp hk (h2 e (by simp)) hr hcap1
    have hcap2 : (os.map (Open.adv pe cfg.lim.maxEvents e) ++ (if accepts pa e then [Open.mk e [] s.nextSeq] else [])).length
        + (es.filter (accepts pa)).length ≤ cfg.maxRuns := by
      by_cases ha : accepts pa e = true <;> simp [List.filter_cons, ha] at hcap ⊢ <;> omega
    obtain ⟨s2, outs, hrun, hem2, hr2⟩ := ih s1 _ (fun x hx => h2 x (List.mem_cons_of_mem _ hx)) hr1 hcap2
    refine ⟨s2, o1 :: outs, by simp [runAll, hstep, hrun], by simp [hem, hem2], ?_⟩
    rw [hr2, hn1]
    congr 1
    have hmap : (os.map (Open.adv pe cfg.lim.maxEvents e)).map (Open.advAll pe cfg.lim.maxEvents es) =
        os.map (Open.advAll pe cfg.lim.maxEvents (e :: es)) := by
      simp only [List.map_map]
      apply List.map_congr_left
      intro o _
      exact (advAll_cons pe cfg.lim.maxEvents e es o).symm
    by_cases ha : accepts pa e = true
    · simp only [ha, if_true, List.map_append, hmap, opensOf, List.map_cons, List.map_nil, List.append_assoc]
      rfl
    · simp only [ha, Bool.false_eq_true, if_false, List.append_nil, hmap, opensOf, Nat.add_zero]

theorem enumLoop_congr (r r' : Run) (k : KCap) (p : Pred) (mr : Nat) (hc : r.captured = r'.captured) (hs : r.stack = r'.stack) :
    ∀ (cs : List (List Nat × List Entry)) (acc : List Match), enumLoop r k p mr cs acc = enumLoop r' k p mr cs acc := by
  intro cs
  induction cs with
  | nil => intro acc; rfl
  | cons c cs ih =>
    intro acc
    rw [enumLoop, enumLoop]
    simp only [mkEnumMatch, hc, hs, ih]
    rfl

/-- completing a run does not look at its creation number -/
theorem completeRun_seq (r : Run) (seq : Nat) (lim : Limits) : completeRun { r with seq := seq } lim = completeRun r lim := by
  cases hk : r.kc with
  | none => simp [completeRun, hk]
  | some k =>
    cases hd : k.deferred with
    | none => simp [completeRun, hk, hd]
    | some p =>
      simp only [completeRun, hk, hd, enumerate]
      cases k.combos with
      | none => rfl
      | some cs =>
        simp only [Option.map_some]
        exact congrArg Adv.multi (enumLoop_congr { cur := r.cur, stack := r.stack, captured := r.captured, seq := seq, kc := some k } r k p lim.maxResults rfl rfl cs [])

/-- what the open run reports when the C event arrives — the same expression as for a stream with this run alone
(`emitted_mid`): nothing without a kept B or when C fails its filter, otherwise the completion of its own closure -/
def ownReport (pp pc : Option Pred) (lim : Limits) (eC : Ev) (o : Open) : List (List Match) :=
  match o.kept.getLast? with
  | none => []
  | some l =>
    if predOk pc eC (capAB o.eA l) then
      (match completeRun (runAt4 pp o.eA o.kept l eC) lim with
       | .multi ms => [ms]
       | .complete m => [[m]]
       | _ => [])
    else []

theorem contrib_open (pa pe pp pc : Option Pred) (lim : Limits) (eC : Ev) (o : Open) (hC : eC.ty = 2) :
    advance (nfaMid pa pe pp pc) lim (o.toRun pp) eC ≠ .panic ∧
    (contrib (nfaMid pa pe pp pc) lim eC (o.toRun pp)).2 = ownReport pp pc lim eC o := by
  simp only [Open.toRun]
  rcases runOf_seq_cases pp o.eA o.kept o.seq with ⟨hnil, hr⟩ | ⟨l, hl, hr⟩
  · rw [hr, contrib, adv_first_C pa pe pp pc lim o.eA eC o.seq hC]
    simp [ownReport, hnil]
  · rw [hr, contrib, adv_complete pa pe pp pc lim o.eA l eC o.kept o.seq hC]
    by_cases hok : predOk pc eC (capAB o.eA l) = true
    · have hr4 : ({ cur := 4, stack := (⟨o.eA, some 0⟩ :: o.kept.map (⟨·, some 1⟩)) ++ [⟨eC, some 2⟩],
                    captured := (2, eC) :: capAB o.eA l, seq := o.seq, kc := some (kcOf pp o.kept) } : Run)
          = { runAt4 pp o.eA o.kept l eC with seq := o.seq } := rfl
      simp only [hok, if_true, hr4, completeRun_seq, ownReport, hl]
      have hcr := completeRun_ok (nfaMid pa pe pp pc) lim (runAt4 pp o.eA o.kept l eC)
        (by intro k hk; simp [runAt4] at hk; subst hk; exact kinv_kcOf pp o.kept)
      cases hcomp : completeRun (runAt4 pp o.eA o.kept l eC) lim with
      | multi ms => simp
      | complete m => simp
      | panic => rw [hcomp] at hcr; exact absurd hcr (by simp [AdvOk])
      | cont r => simp [completeRun] at hcomp; repeat (split at hcomp <;> try simp at hcomp)
      | noMatch r => simp [completeRun] at hcomp; repeat (split at hcomp <;> try simp at hcomp)
      | completeCont r m => simp [completeRun] at hcomp; repeat (split at hcomp <;> try simp at hcomp)
    · simp [hok, ownReport, hl]

/-- the C event on an engine whose runs are the open runs `os`: every run reports on its own -/
theorem step_close (pa pe pp pc : Option Pred) (cfg : Cfg) (s : Eng) (eC : Ev) (os : List Open)
    (hp : cfg.partitioned = false) (hC : eC.ty = 2) (hr : s.runs = os.map (Open.toRun pp)) :
    ∃ s' o, step (nfaMid pa pe pp pc) cfg s eC = some (s', o) ∧
      o.emitted.Perm (os.flatMap (ownReport pp pc cfg.lim eC)) := by
  have hnp : ∀ r ∈ os.map (Open.toRun pp), advance (nfaMid pa pe pp pc) cfg.lim r eC ≠ .panic := by
    intro r hr'
    rcases List.mem_map.mp hr' with ⟨o, _, rfl⟩
    exact (contrib_open pa pe pp pc cfg.lim eC o hC).1
  have hacc : accepts pa eC = false := by simp [accepts, hC]
  obtain ⟨runs', ms, hpr, _, hperm⟩ := processRuns_perm (nfaMid pa pe pp pc) cfg.lim eC
    (os.map (Open.toRun pp)).length [] (os.map (Open.toRun pp)) [] (Nat.le_refl _) hnp
  simp only [List.nil_append, List.length_nil] at hpr hperm
  refine ⟨_, _, by simp only [step, hp, hr, Bool.false_eq_true, if_false, Bool.false_and, hpr, tryStart_mid, hacc]; rfl, ?_⟩
  refine hperm.trans ?_
  simp only [List.flatMap_map]
  have : (fun o => (contrib (nfaMid pa pe pp pc) cfg.lim eC (Open.toRun pp o)).2) = ownReport pp pc cfg.lim eC := by
    funext o; exact (contrib_open pa pe pp pc cfg.lim eC o hC).2
  simp only [this]
  exact List.Perm.refl _

/-- the part of a Kleene filter that is evaluated eagerly / postponed to the enumeration (`compile_pattern`) -/
def eagerOf (pb : Option Pred) : Option Pred :=
  match pb with | some p => if selfRef (some 1) p then none else some p | none => none
def postOf (pb : Option Pred) : Option Pred :=
  match pb with | some p => if selfRef (some 1) p then some p else none | none => none

theorem compile_mid (pa pb pc : Option Pred) :
    compile (midSteps pa pb pc) = nfaMid pa (eagerOf pb) (postOf pb) pc := by
  cases pb with
  | none => simpa [eagerOf, postOf] using compile_mid_nofilter pa pc
  | some p =>
    by_cases h : selfRef (some 1) p = true
    · simpa [eagerOf, postOf, h] using compile_mid_selfref pa pc p h
    · have h' : selfRef (some 1) p = false := by simpa using h
      simpa [eagerOf, postOf, h'] using compile_mid_consistent pa pc p h'

/-- the accepted A events of a C-free stream, each with the B events that arrive after it -/
def starts (pa : Option Pred) : List Ev → List (Ev × List Ev)
  | [] => []
  | e :: es => if accepts pa e then (e, bsOf es) :: starts pa es else starts pa es

/-- the open run a start event ends up as, had it been alone with its B events -/
def soloOpen (pe : Option Pred) (mk : Nat) (x : Ev × List Ev) : Open := ⟨x.1, x.2.foldl (keep pe mk x.1) [], 0⟩

theorem ownReport_seq (pp pc : Option Pred) (lim : Limits) (eC eA : Ev) (kept : List Ev) (s1 s2 : Nat) :
    ownReport pp pc lim eC ⟨eA, kept, s1⟩ = ownReport pp pc lim eC ⟨eA, kept, s2⟩ := rfl

theorem opensOf_reports (pa pe pp pc : Option Pred) (lim : Limits) (eC : Ev) : ∀ (es : List Ev) (n : Nat),
    (opensOf pa pe lim.maxEvents es n).flatMap (ownReport pp pc lim eC) =
      (starts pa es).flatMap fun x => ownReport pp pc lim eC (soloOpen pe lim.maxEvents x) := by
  intro es
  induction es with
  | nil => intro n; rfl
  | cons e es ih =>
    intro n
    by_cases ha : accepts pa e = true
    · simp only [opensOf, starts, ha, if_true, List.flatMap_cons, ih (n + 1), soloOpen]
      rfl
    · simp only [opensOf, starts, ha, Bool.false_eq_true, if_false, ih n]

/-- **several concurrent runs**: a C-free stream with any number of A events followed by C, all runs fitting under
`max_runs`: nothing is emitted before C; at C the reports are, up to order, the concatenation over the accepted A events of
what each run reports on its own -/
theorem emitted_mid_multi (pa pe pp pc : Option Pred) (cfg : Cfg) (es : List Ev) (eC : Ev)
    (hp : cfg.partitioned = false) (hk : 1 ≤ cfg.lim.maxEvents) (h2 : ∀ e ∈ es, e.ty ≠ 2) (hC : eC.ty = 2)
    (hcap : (es.filter (accepts pa)).length ≤ cfg.maxRuns) :
    ∃ groups, emittedAll (nfaMid pa pe pp pc) cfg (es ++ [eC]) = some (es.map (fun _ => []) ++ [groups]) ∧
      groups.Perm ((starts pa es).flatMap fun x => ownReport pp pc cfg.lim eC (soloOpen pe cfg.lim.maxEvents x)) := by
  obtain ⟨s1, outs, hrun, hem, hr⟩ := runAll_open pa pe pp pc cfg hp hk es {} [] h2 rfl (by simpa using hcap)
  simp only [List.map_nil, List.nil_append] at hr
  obtain ⟨s2, o, hstep, hperm⟩ := step_close pa pe pp pc cfg s1 eC _ hp hC hr
  refine ⟨o.emitted, ?_, ?_⟩
  · simp [emittedAll, runAll_append, hrun, runAll, hstep, hem]
  · rw [← opensOf_reports pa pe pp pc cfg.lim eC es ({} : Eng).nextSeq]
    exact hperm

/-- a run alone: the stream `A B^n C` of one start event with its own B events reports exactly `ownReport` at C -/
theorem solo_report (pa pe pp pc : Option Pred) (cfg : Cfg) (eA eC : Ev) (bs : List Ev)
    (hp : cfg.partitioned = false) (hm : 1 ≤ cfg.maxRuns) (hk : 1 ≤ cfg.lim.maxEvents)
    (hA : accepts pa eA = true) (hB : ∀ b ∈ bs, b.ty = 1) (hC : eC.ty = 2) :
    emittedAll (nfaMid pa pe pp pc) cfg (eA :: (bs ++ [eC])) =
      some ([] :: (bs.map fun _ => []) ++ [ownReport pp pc cfg.lim eC (soloOpen pe cfg.lim.maxEvents (eA, bs))]) := by
  have hA' : eA.ty = 0 ∧ predOk pa eA [] = true := by simpa [accepts] using hA
  rw [emitted_mid pa pe pp pc cfg eA eC bs hp hm hk hA'.1 hA'.2 hB hC]
  rfl

theorem starts_mem (pa : Option Pred) : ∀ (es : List Ev) (x : Ev × List Ev), x ∈ starts pa es →
    accepts pa x.1 = true ∧ ∀ b ∈ x.2, b.ty = 1 := by
  intro es
  induction es with
  | nil => intro x hx; simp [starts] at hx
  | cons e es ih =>
    intro x hx
    by_cases ha : accepts pa e = true
    · simp only [starts, ha, if_true, List.mem_cons] at hx
      rcases hx with rfl | hx
      · exact ⟨ha, fun b hb => by simpa [bsOf] using (List.mem_filter.mp hb).2⟩
      · exact ih x hx
    · simp only [starts, ha, Bool.false_eq_true, if_false] at hx
      exact ih x hx

end Varpulis.SaseB
