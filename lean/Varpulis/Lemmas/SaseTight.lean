import Varpulis.Lemmas.SaseStack
/-!
# Tight stack accounting: a run never holds more than `#steps + max_kleene_events` entries (C05)

Same argument as `SaseStack.lean`, with the state id replaced by its *rank* = number of step states (states that carry
an event type) up to and including it.
-/
namespace Varpulis.SaseK
open Varpulis.Zdd

def isStep (st : State) : Bool := st.evTy.isSome

/-- which states are step states -/
def skel (l : List State) : List Bool := l.map isStep

/-- number of `true` among the positions `0..i` -/
def rk (B : List Bool) (i : Nat) : Nat := (B.take (i + 1)).count true

/-- number of step states among the states `0..i` -/
def rank (nfa : Nfa) (i : Nat) : Nat := rk (skel nfa.states) i

theorem take_sublist_take (B : List Bool) (i j : Nat) (h : i ≤ j) : (B.take i).Sublist (B.take j) := by
  have : B.take i = (B.take j).take i := by rw [List.take_take]; congr 1; omega
  rw [this]; exact List.take_sublist _ _

theorem rk_mono (B : List Bool) {i j : Nat} (h : i ≤ j) : rk B i ≤ rk B j :=
  (take_sublist_take B (i + 1) (j + 1) (by omega)).count_le true

theorem rk_lt (B : List Bool) {i t : Nat} (h : i < t) (ht : B[t]? = some true) : rk B i < rk B t := by
  have h1 : rk B i ≤ (B.take t).count true := (take_sublist_take B (i + 1) t (by omega)).count_le true
  have h2 : rk B t = (B.take t).count true + 1 := by
    simp [rk, List.take_add_one, ht, List.count_append]
  omega

theorem rk_le_count (B : List Bool) (i : Nat) : rk B i ≤ B.count true :=
  (List.take_sublist _ _).count_le true

theorem skel_modify (l : List State) (i : Nat) (f : State → State) (hf : ∀ st, isStep (f st) = isStep st) :
    skel (modifyAt l i f) = skel l := by
  apply List.ext_getElem?
  intro j
  simp only [skel, modifyAt, List.getElem?_map, List.getElem?_modify]
  cases l[j]? with
  | none => rfl
  | some a => by_cases h : i = j <;> simp [h, hf]

/-- transitions strictly increase the rank, epsilon edges do not decrease it -/
def NfaFwdR (nfa : Nfa) : Prop :=
  ∀ (i : Nat) (st : State), nfa.states[i]? = some st →
    (∀ t ∈ st.trans, rank nfa i < rank nfa t) ∧ (∀ e ∈ st.eps, rank nfa i ≤ rank nfa e)

def TInv (nfa : Nfa) (r : Run) : Prop := r.stack.length ≤ rank nfa r.cur + kcN r

def AdvT (nfa : Nfa) : Adv → Prop
  | .cont r => TInv nfa r
  | .noMatch r => TInv nfa r
  | .completeCont r _ => TInv nfa r
  | _ => True

theorem tinv_forward {nfa : Nfa} {r : Run} (h : TInv nfa r) (next : Nat) (hn : rank nfa r.cur < rank nfa next) (e : Ev) (al : Option Nat) :
    TInv nfa ({ r with cur := next }.push e al) := by
  simp only [TInv, Run.push, kcN, List.length_append, List.length_cons, List.length_nil] at h ⊢
  omega

theorem enterKleene_tight (nfa : Nfa) (r : Run) (st : State) (e : Ev) (lim : Limits) (h : TInv nfa r) :
    AdvT nfa (enterKleene r st e lim) := by
  unfold enterKleene
  by_cases hacc : st.epsAccept = true
  · simp only [hacc, if_true, AdvT]; exact h
  · have hacc' : st.epsAccept = false := by simpa using hacc
    simp only [hacc', Bool.false_eq_true, if_false]
    cases hkc : r.kc with
    | none =>
      simp only [TInv, kcN, hkc] at h
      by_cases hge : (KCap.init st.postponed).nextVar ≥ lim.maxEvents
      · simp only [hge, if_true, AdvT, TInv, kcN]; omega
      · simp only [hge, if_false, AdvT, TInv, kcN, add_nextVar]; omega
    | some k' =>
      simp only [TInv, kcN, hkc] at h
      by_cases hge : k'.nextVar ≥ lim.maxEvents
      · simp only [hge, if_true, AdvT, TInv, kcN]; omega
      · simp only [hge, if_false, AdvT, TInv, kcN, add_nextVar]; omega

theorem completeRun_tight (nfa : Nfa) (r : Run) (lim : Limits) : AdvT nfa (completeRun r lim) := by
  unfold completeRun
  split
  · split
    · split <;> trivial
    · trivial
  · trivial

theorem tryTransitions_tight (nfa : Nfa) (lim : Limits) (r : Run) (e : Ev) (h : TInv nfa r) :
    ∀ (l : List Nat), (∀ t ∈ l, rank nfa r.cur < rank nfa t) → ∀ a, tryTransitions nfa lim r e l = some a → AdvT nfa a := by
  intro l
  induction l with
  | nil => intro _ a ha; simp [tryTransitions] at ha
  | cons next rest ih =>
    intro hl a ha
    have hn : rank nfa r.cur < rank nfa next := hl next (by simp)
    simp only [tryTransitions] at ha
    split at ha
    · cases ha; trivial
    · rename_i ns hns
      split at ha
      · have hr := tinv_forward h next hn e ns.alias
        split at ha
        · cases ha; exact completeRun_tight nfa _ _
        · split at ha
          · cases ha; exact enterKleene_tight nfa _ _ e lim hr
          · cases ha; exact hr
      · exact ih (fun t ht => hl t (List.mem_cons_of_mem _ ht)) a ha

theorem tryEpsTargets_tight (nfa : Nfa) (lim : Limits) (r : Run) (e : Ev) (h : TInv nfa r) :
    ∀ (l : List Nat), (∀ t ∈ l, rank nfa r.cur < rank nfa t) → ∀ a, tryEpsTargets nfa lim r e l = some a → AdvT nfa a := by
  intro l
  induction l with
  | nil => intro _ a ha; simp [tryEpsTargets] at ha
  | cons next rest ih =>
    intro hl a ha
    have hn : rank nfa r.cur < rank nfa next := hl next (by simp)
    simp only [tryEpsTargets] at ha
    split at ha
    · cases ha; trivial
    · rename_i ns hns
      split at ha
      · have hr := tinv_forward h next hn e ns.alias
        split at ha
        · cases ha; exact completeRun_tight nfa _ _
        · cases ha; exact hr
      · exact ih (fun t ht => hl t (List.mem_cons_of_mem _ ht)) a ha

theorem tryEps_tight (nfa : Nfa) (lim : Limits) (r : Run) (e : Ev) (skip : Bool) (hf : NfaFwdR nfa) (h : TInv nfa r) :
    ∀ (l : List Nat), (∀ t ∈ l, rank nfa r.cur ≤ rank nfa t) → ∀ a, tryEps nfa lim r e skip l = some a → AdvT nfa a := by
  intro l
  induction l with
  | nil => intro _ a ha; simp [tryEps] at ha
  | cons ep rest ih =>
    intro hl a ha
    have hn : rank nfa r.cur ≤ rank nfa ep := hl ep (by simp)
    have hrest := ih (fun t ht => hl t (List.mem_cons_of_mem _ ht))
    simp only [tryEps] at ha
    split at ha
    · cases ha; trivial
    · rename_i es hes
      split at ha
      · split at ha
        · exact hrest a ha
        · cases ha; exact completeRun_tight nfa _ _
      · split at ha
        · rename_i a' ha'
          cases ha
          exact tryEpsTargets_tight nfa lim r e h _ (fun t ht => Nat.lt_of_le_of_lt hn ((hf ep es hes).1 t ht)) _ ha'
        · exact hrest a ha

/-- without a trailing `all`, `advance` keeps the stack accounted for -/
theorem advance_tight (nfa : Nfa) (lim : Limits) (r : Run) (e : Ev) (hf : NfaFwdR nfa) (hnt : NoTrailingAll nfa)
    (h : TInv nfa r) : AdvT nfa (advance nfa lim r e) := by
  unfold advance
  cases hst : nfa.states[r.cur]? with
  | none => trivial
  | some st =>
    have hfw := hf r.cur st hst
    have hea : st.epsAccept = false := hnt st (List.mem_of_getElem? hst)
    simp only
    by_cases hacc : st.ty = .accept
    · simp only [hacc, if_true]; exact completeRun_tight nfa _ _
    · simp only [hacc, if_false]
      by_cases hloop : (decide (st.ty = STy.kleene) && st.selfLoop && matchesState st e r.captured) = true
      · simp only [hloop, if_true, hea]
        cases hkc : r.kc with
        | none =>
          simp only [TInv, kcN, hkc] at h
          simp only [Bool.false_eq_true, if_false, Bool.false_and, AdvT, TInv, kcN, Run.push, hkc, add_nextVar,
            List.length_append, List.length_cons, List.length_nil, KCap.init]
          omega
        | some k' =>
          simp only [TInv, kcN, hkc] at h
          by_cases hcap : k'.nextVar ≥ lim.maxEvents
          · simp only [hcap, decide_true, if_true, AdvT, TInv, kcN, hkc]; omega
          · simp only [hcap, decide_false, Bool.false_eq_true, if_false, Bool.false_and, AdvT, TInv, kcN, Run.push, hkc,
              add_nextVar, List.length_append, List.length_cons, List.length_nil]
            omega
      · simp only [hloop]
        cases ht : tryTransitions nfa lim r e st.trans with
        | some a => exact tryTransitions_tight nfa lim r e h _ hfw.1 a ht
        | none =>
          cases he : tryEps nfa lim r e (decide (st.ty = STy.kleene) && st.selfLoop && st.epsAccept) st.eps with
          | some a => exact tryEps_tight nfa lim r e _ hf h _ hfw.2 a he
          | none => exact h

/-! ### `compile_fwd` -/

end Varpulis.SaseK

namespace Varpulis.SaseB
open Varpulis.SaseK Varpulis.Zdd

def StartT (nfa : Nfa) : Start → Prop
  | .run r => TInv nfa r
  | _ => True

theorem startTargets_tight (nfa : Nfa) (e : Ev) (seq : Nat) :
    ∀ (l : List Nat), (∀ t ∈ l, 0 < rank nfa t) → ∀ s, startTargets nfa e seq l = some s → StartT nfa s := by
  intro l
  induction l with
  | nil => intro _ s hs; simp [startTargets] at hs
  | cons next rest ih =>
    intro hl s hs
    have hn : 0 < rank nfa next := hl next (by simp)
    simp only [startTargets] at hs
    split at hs
    · cases hs; trivial
    · split at hs
      · cases hs
        simp only [StartT, TInv, Run.push, kcN, List.length_append, List.length_cons, List.length_nil]
        omega
      · exact ih (fun t ht => hl t (List.mem_cons_of_mem _ ht)) s hs

theorem startEps_tight (nfa : Nfa) (e : Ev) (seq : Nat) (hf : NfaFwdR nfa) :
    ∀ (l : List Nat), ∀ s, startEps nfa e seq l = some s → StartT nfa s := by
  intro l
  induction l with
  | nil => intro s hs; simp [startEps] at hs
  | cons ep rest ih =>
    intro s hs
    simp only [startEps] at hs
    split at hs
    · cases hs; trivial
    · rename_i es hes
      split at hs
      · rename_i s' hs'
        cases hs
        exact startTargets_tight nfa e seq _ (fun t ht => Nat.lt_of_le_of_lt (Nat.zero_le _) ((hf ep es hes).1 t ht)) _ hs'
      · exact ih s hs

theorem tryStart_tight (nfa : Nfa) (e : Ev) (seq : Nat) (hf : NfaFwdR nfa) : StartT nfa (tryStart nfa e seq) := by
  unfold tryStart
  split
  · trivial
  · rename_i st hst
    split
    · rename_i s hs
      exact startTargets_tight nfa e seq _ (fun t ht => Nat.lt_of_le_of_lt (Nat.zero_le _) ((hf _ st hst).1 t ht)) _ hs
    · split
      · rename_i s hs; exact startEps_tight nfa e seq hf _ _ hs
      · trivial

theorem processRuns_tight (nfa : Nfa) (lim : Limits) (e : Ev) (hf : NfaFwdR nfa) (hnt : NoTrailingAll nfa) :
    ∀ (fuel : Nat) (runs : List Run) (i : Nat) (acc : List (List Match)) (runs' : List Run) (ms : List (List Match)),
      (∀ r ∈ runs, TInv nfa r) → processRuns nfa lim e fuel runs i acc = some (runs', ms) → ∀ r ∈ runs', TInv nfa r := by
  intro fuel
  induction fuel with
  | zero => intro runs i acc runs' ms hr h; simp [processRuns] at h; rw [← h.1]; exact hr
  | succ fuel ih =>
    intro runs i acc runs' ms hr h
    simp only [processRuns] at h
    cases hi : runs[i]? with
    | none => simp [hi] at h; rw [← h.1]; exact hr
    | some r =>
      have hrin : r ∈ runs := List.mem_of_getElem? hi
      have hadv := advance_tight nfa lim r e hf hnt (hr r hrin)
      have hset : ∀ r', TInv nfa r' → ∀ x ∈ runs.set i r', TInv nfa x := by
        intro r' hr' x hx
        rcases List.mem_or_eq_of_mem_set hx with h | rfl
        · exact hr x h
        · exact hr'
      have hsw : ∀ x ∈ swapRemove runs i, TInv nfa x := fun x hx => hr x (mem_swapRemove _ _ _ hx)
      simp only [hi] at h
      cases hadvr : advance nfa lim r e with
      | cont r' => rw [hadvr] at hadv h; exact ih _ _ _ _ _ (hset r' hadv) h
      | noMatch r' => rw [hadvr] at hadv h; exact ih _ _ _ _ _ (hset r' hadv) h
      | complete m => rw [hadvr] at h; exact ih _ _ _ _ _ hsw h
      | completeCont r' m => rw [hadvr] at hadv h; exact ih _ _ _ _ _ (hset r' hadv) h
      | multi ms0 => rw [hadvr] at h; exact ih _ _ _ _ _ hsw h
      | panic => rw [hadvr] at h; simp at h

/-- all runs of an engine satisfy the stack accounting -/
def EngT (nfa : Nfa) (s : Eng) : Prop := (∀ r ∈ s.runs, TInv nfa r) ∧ ∀ p ∈ s.parts, ∀ r ∈ p.2, TInv nfa r

theorem step_tight (nfa : Nfa) (cfg : Cfg) (s s' : Eng) (e : Ev) (o : Out) (hf : NfaFwdR nfa) (hnt : NoTrailingAll nfa)
    (h : EngT nfa s) (hstep : step nfa cfg s e = some (s', o)) : EngT nfa s' := by
  have hcur : ∀ r ∈ (if cfg.partitioned then (partGet s.parts e.key).getD [] else s.runs), TInv nfa r := by
    split
    · cases hg : partGet s.parts e.key with
      | none => simp
      | some v => exact h.2 _ (lookup_mem _ _ _ hg)
    · exact h.1
  generalize hcv : (if cfg.partitioned then (partGet s.parts e.key).getD [] else s.runs) = cur at hcur
  simp only [step, hcv] at hstep
  cases hpr : processRuns nfa cfg.lim e cur.length cur 0 [] with
  | none => simp [hpr] at hstep
  | some res =>
    obtain ⟨runs1, ms⟩ := res
    have hv1 := processRuns_tight nfa cfg.lim e hf hnt _ _ _ _ _ _ hcur hpr
    have hput : ∀ (s0 : Eng) (rs : List Run), EngT nfa s0 → (∀ r ∈ rs, TInv nfa r) →
        EngT nfa (if cfg.partitioned then { s0 with parts := partSet s0.parts e.key rs } else { s0 with runs := rs }) := by
      intro s0 rs h0 hrs
      split
      · refine ⟨h0.1, ?_⟩
        intro p hp
        rcases mem_partSet _ _ _ _ hp with h' | rfl
        · exact h0.2 p h'
        · exact hrs
      · exact ⟨hrs, h0.2⟩
    have hs1 : EngT nfa (if (cfg.partitioned && (partGet s.parts e.key).isNone) = true then s
        else (if cfg.partitioned then { s with parts := partSet s.parts e.key runs1 } else { s with runs := runs1 })) := by
      split
      · exact h
      · exact hput s runs1 h hv1
    simp only [hpr] at hstep
    generalize (if (cfg.partitioned && (partGet s.parts e.key).isNone) = true then s
        else (if cfg.partitioned then { s with parts := partSet s.parts e.key runs1 } else { s with runs := runs1 })) = s1 at hs1 hstep
    have hstart := tryStart_tight nfa e s.nextSeq hf
    cases hts : tryStart nfa e s.nextSeq with
    | panic => simp [hts] at hstep
    | none =>
      simp only [hts, Option.some.injEq, Prod.mk.injEq] at hstep
      rw [← hstep.1]; exact hs1
    | run r =>
      rw [hts] at hstart
      simp only [hts] at hstep
      have hbp : ∀ x ∈ (handleBp cfg s1.created s1.dropped runs1 r).1, TInv nfa x := by
        intro x hx
        rcases handleBp_mem _ _ _ _ _ _ hx with h' | rfl
        · exact hv1 x h'
        · exact hstart
      have hs2 := hput s1 _ hs1 hbp
      cases hst : nfa.states[r.cur]? with
      | none => simp [hst] at hstep
      | some st =>
        simp only [hst] at hstep
        by_cases hacc : st.ty = .accept
        · rw [if_pos hacc] at hstep
          simp only [Option.some.injEq, Prod.mk.injEq] at hstep
          rw [← hstep.1]; exact hs1
        · rw [if_neg hacc] at hstep
          simp only [Option.some.injEq, Prod.mk.injEq] at hstep
          rw [← hstep.1]
          generalize (if cfg.partitioned then { s1 with parts := partSet s1.parts e.key (handleBp cfg s1.created s1.dropped runs1 r).1 }
            else { s1 with runs := (handleBp cfg s1.created s1.dropped runs1 r).1 }) = s2 at hs2
          cases (handleBp cfg s1.created s1.dropped runs1 r).2 <;> exact hs2

theorem runAll_tight (nfa : Nfa) (cfg : Cfg) (hf : NfaFwdR nfa) (hnt : NoTrailingAll nfa) :
    ∀ (evs : List Ev) (s s' : Eng) (outs : List Out), EngT nfa s → runAll nfa cfg s evs = some (s', outs) → EngT nfa s' := by
  intro evs
  induction evs with
  | nil => intro s s' outs h hr; simp [runAll] at hr; rw [← hr.1]; exact h
  | cons e es ih =>
    intro s s' outs h hr
    simp only [runAll] at hr
    cases hst : step nfa cfg s e with
    | none => simp [hst] at hr
    | some so =>
      obtain ⟨s1, o⟩ := so
      simp only [hst] at hr
      cases hra : runAll nfa cfg s1 es with
      | none => simp [hra] at hr
      | some r2 =>
        obtain ⟨s2, os⟩ := r2
        simp only [hra, Option.map_some, Option.some.injEq, Prod.mk.injEq] at hr
        rw [← hr.1]
        exact ih s1 s2 os (step_tight nfa cfg s s1 e o hf hnt h hst) hra


end Varpulis.SaseB

namespace Varpulis.SaseK
open Varpulis.Zdd

/-! ### compiled automata: `#steps` step states, every transition leads to one -/

/-- invariant of the compilation loop about step states: `k` of them so far, and every transition leads to one -/
structure RInv (n : Nfa) (last : Nat) (k : Nat) : Prop where
  lastLt : last < n.states.length
  cnt : (skel n.states).count true = k
  ts : ∀ st ∈ n.states, ∀ t ∈ st.trans, (skel n.states)[t]? = some true

theorem rinv_init : RInv ({} : Nfa) 0 0 := by
  refine ⟨by simp, by simp [skel, isStep], ?_⟩
  intro st hst; simp at hst; subst hst; simp

theorem skel_append (l : List State) (s : State) : skel (l ++ [s]) = skel l ++ [isStep s] := by simp [skel]

theorem getElem?_true_append {B : List Bool} {t : Nat} (h : B[t]? = some true) (C : List Bool) : (B ++ C)[t]? = some true := by
  obtain ⟨hlt, _⟩ := List.getElem?_eq_some_iff.mp h
  rw [List.getElem?_append_left hlt]; exact h

theorem rinv_compileStep {n : Nfa} {prev k : Nat} (h : RInv n prev k) (s : Step) :
    RInv (compileStep n prev s).1 (compileStep n prev s).2 (k + 1) := by
  have hsk : skel (compileStep n prev s).1.states = skel n.states ++ [true] ++ (if s.kleene then [false] else []) := by
    unfold compileStep
    by_cases hk : s.kleene = true
    · simp only [Nfa.addState, Nfa.addTransition, Nfa.addEpsilon, hk, Bool.not_true, Bool.false_eq_true, if_false, if_true]
      rw [skel_modify, skel_append, skel_modify, skel_modify, skel_modify, skel_append]
      · simp [isStep]
      all_goals intro st
      all_goals first | rfl | (simp only [isStep]; split <;> (try split) <;> rfl)
    · have hk' : s.kleene = false := by simpa using hk
      simp only [Nfa.addState, Nfa.addTransition, hk', Bool.not_false, if_true, Bool.false_eq_true, if_false, List.append_nil]
      rw [skel_modify, skel_append]
      · simp [isStep]
      · intro st; rfl
  have hlast : (compileStep n prev s).2 < (compileStep n prev s).1.states.length := by
    unfold compileStep
    by_cases hk : s.kleene = true
    · simp [Nfa.addState, Nfa.addTransition, Nfa.addEpsilon, hk, length_modifyAt]
    · have hk' : s.kleene = false := by simpa using hk
      simp [Nfa.addState, Nfa.addTransition, hk', length_modifyAt]
  -- every transition leads to a step state of the new skeleton
  have hlen : (skel n.states).length = n.states.length := by simp [skel]
  obtain ⟨SK, hSK⟩ : ∃ SK, SK = skel n.states ++ [true] ++ (if s.kleene then [false] else []) := ⟨_, rfl⟩
  have hnew : SK[n.states.length]? = some true := by
    rw [hSK, List.append_assoc, List.getElem?_append_right (by omega)]
    simp [hlen]
  have hold : ∀ t : Nat, (skel n.states)[t]? = some true → SK[t]? = some true := by
    intro t ht; rw [hSK, List.append_assoc]; exact getElem?_true_append ht _
  have hP0 : ∀ st ∈ modifyAt (n.states ++ [{ ty := .normal, evTy := some s.ty, pred := s.pred, alias := s.alias }]) prev
      (fun st => { st with trans := st.trans ++ [n.states.length] }), ∀ t ∈ st.trans, SK[t]? = some true := by
    apply all_modify (P := fun st => ∀ t ∈ st.trans, SK[t]? = some true)
    · intro st hst t ht
      rcases List.mem_append.mp hst with h' | h'
      · exact hold t (h.ts st h' t ht)
      · simp at h'; subst h'; simp at ht
    · intro st hst t ht
      simp at ht
      rcases ht with ht | rfl
      · exact hst t ht
      · exact hnew
  have hts : ∀ st ∈ (compileStep n prev s).1.states, ∀ t ∈ st.trans, SK[t]? = some true := by
    unfold compileStep
    by_cases hk : s.kleene = true
    · simp only [Nfa.addState, Nfa.addTransition, Nfa.addEpsilon, hk, Bool.not_true, Bool.false_eq_true, if_false]
      refine all_modify (P := fun st => ∀ t ∈ st.trans, SK[t]? = some true) ?_ _ _ ?_
      · intro st hst
        rcases List.mem_append.mp hst with h' | h'
        · refine all_modify (P := fun st => ∀ t ∈ st.trans, SK[t]? = some true)
            (all_modify (P := fun st => ∀ t ∈ st.trans, SK[t]? = some true) hP0 _ _ ?_) _ _ ?_ st h'
          · intro st hst
            split
            · split <;> exact hst
            · exact hst
          · intro st hst; exact hst
        · simp at h'; subst h'; simp
      · intro st hst; exact hst
    · have hk' : s.kleene = false := by simpa using hk
      simp only [Nfa.addState, Nfa.addTransition, hk', Bool.not_false, if_true]
      exact hP0
  refine ⟨hlast, ?_, ?_⟩
  · rw [hsk]
    by_cases hk : s.kleene = true <;> simp [hk, List.count_append, h.cnt]
  · rw [hsk, ← hSK]; exact hts

theorem skel_map (l : List State) (g : State → State) (hg : ∀ s, isStep (g s) = isStep s) : skel (l.map g) = skel l := by
  simp [skel, Function.comp_def, hg]

theorem rinv_foldl (steps : List Step) : ∀ (n : Nfa) (prev k : Nat), RInv n prev k →
    RInv (steps.foldl (fun (acc : Nfa × Nat) s => compileStep acc.1 acc.2 s) (n, prev)).1
         (steps.foldl (fun (acc : Nfa × Nat) s => compileStep acc.1 acc.2 s) (n, prev)).2 (k + steps.length) := by
  induction steps with
  | nil => intro n prev k h; simpa using h
  | cons s rest ih =>
    intro n prev k h
    simp only [List.foldl_cons, List.length_cons]
    have := ih _ _ _ (rinv_compileStep h s)
    rwa [show k + 1 + rest.length = k + (rest.length + 1) by omega] at this

/-- in a compiled automaton there are exactly `#steps` step states and every transition leads to one -/
theorem compile_rank (steps : List Step) :
    (skel (compile steps).states).count true = steps.length ∧
    ∀ st ∈ (compile steps).states, ∀ t ∈ st.trans, (skel (compile steps).states)[t]? = some true := by
  have h := rinv_foldl steps ({} : Nfa) 0 0 rinv_init
  unfold compile
  generalize (steps.foldl (fun (acc : Nfa × Nat) s => compileStep acc.1 acc.2 s) (({} : Nfa), 0)) = res at h
  obtain ⟨n, last⟩ := res
  simp only at h ⊢
  have h1 : skel (n.setAccept last).states = skel n.states := by
    simp only [Nfa.setAccept]; rw [skel_modify]; intro st; rfl
  rw [skel_map _ _ (by intro s; rfl), h1]
  refine ⟨by simpa using h.cnt, ?_⟩
  intro st hst t ht
  rcases List.mem_map.mp hst with ⟨st1, hst1, rfl⟩
  have hst1' : st1 ∈ modifyAt n.states last (fun s => { s with ty := .accept }) := hst1
  exact all_modify (P := fun st => ∀ t ∈ st.trans, (skel n.states)[t]? = some true) h.ts last
    (fun s => { s with ty := .accept }) (fun st hst => hst) st1 hst1' t ht

/-- compiled automata satisfy the rank version of "only forward" -/
theorem compile_fwdR (steps : List Step) : NfaFwdR (compile steps) := by
  intro i st hst
  have hf := compile_fwd steps i st hst
  have hr := compile_rank steps
  refine ⟨fun t ht => ?_, fun e he => rk_mono _ (hf.2 e he)⟩
  exact rk_lt _ (hf.1 t ht) (hr.2 st (List.mem_of_getElem? hst) t ht)

theorem rank_le_steps (steps : List Step) (i : Nat) : rank (compile steps) i ≤ steps.length := by
  have := rk_le_count (skel (compile steps).states) i
  rw [(compile_rank steps).1] at this
  exact this

end Varpulis.SaseK
