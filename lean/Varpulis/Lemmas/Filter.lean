import Varpulis.Model.Filter
/-! Lemmas for C09: case tables for `field op literal` on value-type pairs, and the lifting of
atom-level agreement through `and` / `or` / `not`. -/
namespace Varpulis.Filter
open Varpulis.Val

theorem compareValue_kind {l : Lit} {v : Value} (h : l.compareValue = some v) :
    (∃ n, v = .int n) ∨ (∃ f, v = .float f) ∨ (∃ s, v = .str s) ∨ (∃ b, v = .bool b) := by
  cases l <;> simp [Lit.compareValue, Lit.toValue] at h <;> subst h <;> simp

/-- case table for `==`: outside the float-involving pairs `Value` equality and `values_equal` coincide -/
theorem veq_eq_valuesEqual (x v : Value)
    (hk : (∃ n, v = .int n) ∨ (∃ f, v = .float f) ∨ (∃ s, v = .str s) ∨ (∃ b, v = .bool b))
    (hs : eqSafe x v = true) : veq x v = valuesEqual x v := by
  rcases hk with ⟨n, rfl⟩ | ⟨f, rfl⟩ | ⟨s, rfl⟩ | ⟨b, rfl⟩ <;> cases x <;>
    simp_all [veq, valuesEqual, eqSafe]

/-- the `eqEpsilon` guard is exact: on the `Compare` path `Value` equality and `values_equal`
coincide **iff** `eqSafe` holds -/
theorem eqSafe_exact (x v : Value)
    (hk : (∃ n, v = .int n) ∨ (∃ f, v = .float f) ∨ (∃ s, v = .str s) ∨ (∃ b, v = .bool b)) :
    veq x v = valuesEqual x v ↔ eqSafe x v = true := by
  constructor
  · intro h
    rcases hk with ⟨n, rfl⟩ | ⟨f, rfl⟩ | ⟨s, rfl⟩ | ⟨b, rfl⟩ <;> cases x <;>
      simp_all [veq, valuesEqual, eqSafe]
  · exact veq_eq_valuesEqual x v hk

theorem cmp_strong (op : CmpOp) (x v : Value)
    (hk : (∃ n, v = .int n) ∨ (∃ f, v = .float f) ∨ (∃ s, v = .str s) ∨ (∃ b, v = .bool b))
    (h : whyCmpStrong op x v = none) : evalCmp op x v = some (.bool (compareValues x v op)) := by
  cases op
  case eq => simp only [whyCmpStrong] at h; split at h <;> simp_all [evalCmp, compareValues, veq_eq_valuesEqual x v hk]
  case ne => simp only [whyCmpStrong] at h; split at h <;> simp_all [evalCmp, compareValues, veq_eq_valuesEqual x v hk]
  all_goals
    simp only [whyCmpStrong] at h
    cases x <;> cases v <;> simp_all [numeric, isStr, evalCmp, compareValues, valuesCompare]

@[simp] theorem isTrue_bool (b : Bool) : isTrue (some (.bool b)) = b := by cases b <;> rfl
@[simp] theorem isTrue_none : isTrue none = false := rfl

theorem cmp_weak (op : CmpOp) (x v : Value)
    (hk : (∃ n, v = .int n) ∨ (∃ f, v = .float f) ∨ (∃ s, v = .str s) ∨ (∃ b, v = .bool b))
    (h : whyCmpWeak op x v = none) : isTrue (evalCmp op x v) = compareValues x v op := by
  cases op
  case eq => simp only [whyCmpWeak] at h; split at h <;> simp_all [evalCmp, compareValues, veq_eq_valuesEqual x v hk]
  case ne => simp only [whyCmpWeak] at h; split at h <;> simp_all [evalCmp, compareValues, veq_eq_valuesEqual x v hk]
  all_goals
    simp only [whyCmpWeak] at h
    cases x <;> cases v <;> simp_all [isStr, evalCmp, compareValues, valuesCompare] <;> simp [ordResult]

theorem orElse_none {α : Type} {a b : Option α} (h : orElse a b = none) : a = none ∧ b = none := by
  cases a <;> cases b <;> simp_all [orElse]

theorem comparePath_some {l r : Operand} {f : String} {v : Value} (h : comparePath l r = some (f, v)) :
    ∃ lt, l = .field f ∧ r = .lit lt ∧ lt.compareValue = some v ∧ lt.toValue = v := by
  cases l <;> cases r <;> simp [comparePath] at h
  rename_i f' lt
  obtain ⟨h1, h2⟩ := h
  subst h2
  refine ⟨lt, rfl, rfl, h1, ?_⟩
  cases lt <;> simp_all [Lit.compareValue]

theorem isBoolResult_iff {o : Option Value} (h : isBoolResult o = true) : ∃ b, o = some (.bool b) := by
  cases o with
  | none => simp [isBoolResult] at h
  | some v => cases v <;> simp_all [isBoolResult]

theorem strong_agree : ∀ (e : FExpr) (ev : Event), whyStrong e ev = none →
    evalE e ev = some (.bool (evalP (toPred e) ev)) := by
  intro e ev
  induction e with
  | cmp op l r =>
    intro h
    simp only [whyStrong] at h
    cases hp : comparePath l r with
    | some fv =>
      obtain ⟨f, v⟩ := fv
      obtain ⟨lt, rfl, rfl, hcv, htv⟩ := comparePath_some hp
      simp only [hp] at h
      simp only [toPred, hp, evalP, evalE, evalOperand, htv]
      cases hx : lookupV f ev with
      | none => simp [hx] at h
      | some x =>
        simp only [hx] at h
        simp only [cmp_strong op x v (compareValue_kind hcv) h]
    | none =>
      simp only [hp] at h
      simp only [toPred, hp, evalP]
      split at h
      · rename_i hb
        obtain ⟨b, hb⟩ := isBoolResult_iff hb
        rw [hb]; simp
      · cases h
  | other op l r =>
    intro h
    simp only [whyStrong] at h
    simp only [toPred, evalP]
    split at h
    · rename_i hb
      obtain ⟨b, hb⟩ := isBoolResult_iff hb
      rw [hb]; simp
    · cases h
  | atom o =>
    intro h
    simp only [whyStrong] at h
    simp only [toPred, evalP, evalE]
    split at h
    · rename_i hb
      obtain ⟨b, hb⟩ := isBoolResult_iff hb
      rw [hb]; simp
    · cases h
  | and a b iha ihb =>
    intro h
    simp only [whyStrong] at h
    obtain ⟨h1, h2⟩ := orElse_none h
    simp [evalE, toPred, evalP, iha h1, ihb h2, asBool]
  | or a b iha ihb =>
    intro h
    simp only [whyStrong] at h
    obtain ⟨h1, h2⟩ := orElse_none h
    simp [evalE, toPred, evalP, iha h1, ihb h2, asBool]
  | not a iha =>
    intro h
    simp only [whyStrong] at h
    simp [evalE, toPred, evalP, iha h]

theorem isTrue_and (a b : FExpr) (ev : Event) :
    isTrue (evalE (.and a b) ev) = (isTrue (evalE a ev) && isTrue (evalE b ev)) := by
  simp only [evalE]
  cases evalE a ev with
  | none => simp
  | some x =>
    cases evalE b ev with
    | none => simp
    | some y =>
      cases x <;> cases y <;> simp [asBool, isTrue]
      rename_i p q; cases p <;> cases q <;> rfl

theorem weak_agree : ∀ (e : FExpr) (ev : Event), whyWeak e ev = none →
    isTrue (evalE e ev) = evalP (toPred e) ev := by
  intro e ev
  induction e with
  | cmp op l r =>
    intro h
    simp only [whyWeak] at h
    cases hp : comparePath l r with
    | some fv =>
      obtain ⟨f, v⟩ := fv
      obtain ⟨lt, rfl, rfl, hcv, htv⟩ := comparePath_some hp
      simp only [hp] at h
      simp only [toPred, hp, evalP, evalE, evalOperand, htv]
      cases hx : lookupV f ev with
      | none => simp
      | some x =>
        simp only [hx] at h
        simp only [cmp_weak op x v (compareValue_kind hcv) h]
    | none => simp only [toPred, hp, evalP]
  | other op l r => intro _; simp only [toPred, evalP]
  | atom o => intro _; simp only [toPred, evalP]
  | and a b iha ihb =>
    intro h
    simp only [whyWeak] at h
    obtain ⟨h1, h2⟩ := orElse_none h
    rw [isTrue_and, iha h1, ihb h2]; simp [toPred, evalP]
  | or a b _ _ =>
    intro h
    simp only [whyWeak] at h
    have := strong_agree (.or a b) ev (by simpa [whyStrong] using h)
    rw [this]; simp
  | not a _ =>
    intro h
    simp only [whyWeak] at h
    have := strong_agree (.not a) ev (by simpa [whyStrong] using h)
    rw [this]; simp

/-! ### constant folding without identity rewrites preserves evaluation -/

theorem foldLit_eval {op : ArithOp} {a b r : Operand} (h : foldLit op a b = some r) (ev : Event) :
    evalOperand r ev = evalOperand (.arith op a b) ev := by
  cases a <;> cases b <;> simp [foldLit] at h
  rename_i la lb
  cases la <;> cases lb <;> simp at h
  · obtain ⟨h1, h2⟩ := h; subst h2
    simp [evalOperand, Lit.toValue, evalArith]; exact h1
  · obtain ⟨h1, h2⟩ := h; subst h2
    simp [evalOperand, Lit.toValue, evalArith]; exact h1

theorem foldOpd_eval : ∀ (o : Operand) (ev : Event), identFreeOpd o = true →
    evalOperand (foldOpd o) ev = evalOperand o ev := by
  intro o ev
  induction o with
  | field f => intro _; rfl
  | lit l => intro _; rfl
  | arith op a b iha ihb =>
    intro h
    simp only [identFreeOpd, Bool.and_eq_true, Bool.or_eq_true] at h
    obtain ⟨⟨ha, hb⟩, hc⟩ := h
    have e1 : evalOperand (.arith op (foldOpd a) (foldOpd b)) ev = evalOperand (.arith op a b) ev := by
      simp only [evalOperand, iha ha, ihb hb]
    simp only [foldOpd]
    cases hl : foldLit op (foldOpd a) (foldOpd b) with
    | some r => simp only []; rw [foldLit_eval hl ev, e1]
    | none =>
      simp only [hl, Option.isSome_none, Bool.false_eq_true, false_or, Option.isNone_iff_eq_none] at hc
      simp only [hc]; exact e1

theorem foldE_eval : ∀ (e : FExpr) (ev : Event), identFree e = true → evalE (foldE e) ev = evalE e ev := by
  intro e ev
  induction e with
  | cmp op l r =>
    intro h; simp only [identFree, Bool.and_eq_true] at h
    simp only [foldE, evalE, foldOpd_eval l ev h.1, foldOpd_eval r ev h.2]
  | other op l r =>
    intro h; simp only [identFree, Bool.and_eq_true] at h
    simp only [foldE, evalE, foldOpd_eval l ev h.1, foldOpd_eval r ev h.2]
  | atom o => intro h; simp only [identFree] at h; simp only [foldE, evalE, foldOpd_eval o ev h]
  | and a b iha ihb =>
    intro h; simp only [identFree, Bool.and_eq_true] at h
    simp only [foldE, evalE, iha h.1, ihb h.2]
  | or a b iha ihb =>
    intro h; simp only [identFree, Bool.and_eq_true] at h
    simp only [foldE, evalE, iha h.1, ihb h.2]
  | not a iha => intro h; simp only [identFree] at h; simp only [foldE, evalE, iha h]

end Varpulis.Filter
