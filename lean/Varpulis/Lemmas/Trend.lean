import Varpulis.Model.Trend
/-! Helper lemmas for C25 (trend counts): the brute-force count satisfies a recursion over the
stream; the running-sum recurrence computes it (weighted-state invariant); the per-event GRETA
recurrence equals the running-sum form. -/
namespace Varpulis.Trend
open Spec

theorem filter_or_length {α : Type} (l : List α) (p q : α → Bool)
    (h : ∀ u ∈ l, ¬(p u = true ∧ q u = true)) :
    (l.filter (fun u => p u || q u)).length = (l.filter p).length + (l.filter q).length := by
  induction l with
  | nil => simp
  | cons x xs ih =>
    have hx := h x (by simp)
    have ih' := ih (fun u hu => h u (by simp [hu]))
    simp only [List.filter_cons]
    cases hp : p x <;> cases hq : q x <;> simp_all <;> omega

/-- number of subsequences of the type list matching `q` -/
def cnt (q : Query) (evs : List Ty) : Nat := ((subseqs evs).filter (matchSteps q)).length

theorem cnt_nil (evs : List Ty) : cnt [] evs = 1 := by
  unfold cnt
  induction evs with
  | nil => simp [subseqs, List.filter, matchSteps]
  | cons e es ih =>
    simp only [subseqs, List.filter_append, List.length_append, ih]
    have : ((subseqs es).map (e :: ·)).filter (matchSteps []) = [] := by
      simp [List.filter_eq_nil_iff, matchSteps]
    simp [this]

theorem cnt_cons_nil (s : Step) (ss : Query) : cnt (s :: ss) [] = 0 := by
  simp [cnt, subseqs, List.filter, matchSteps]

/-- adjacent steps have different types -/
def AdjOK (s : Step) (ss : Query) : Prop := ∀ s' ∈ ss.head?, s'.ty ≠ s.ty

theorem match_disjoint (s : Step) (ss : Query) (h : AdjOK s ss) (u : List Ty) :
    ¬(matchSteps ss u = true ∧ (s.kleene && matchSteps (s :: ss) u) = true) := by
  intro ⟨h1, h2⟩
  cases u with
  | nil => simp [matchSteps] at h2
  | cons t ts =>
    cases ss with
    | nil => simp [matchSteps] at h1
    | cons s' ss' =>
      simp only [matchSteps, Bool.and_eq_true, beq_iff_eq] at h1 h2
      have := h s' (by simp)
      exact this (h1.1.symm.trans h2.2.1)

theorem cnt_cons_cons (s : Step) (ss : Query) (h : AdjOK s ss) (e : Ty) (evs : List Ty) :
    cnt (s :: ss) (e :: evs) =
      cnt (s :: ss) evs + (if e = s.ty then cnt ss evs + (if s.kleene then cnt (s :: ss) evs else 0) else 0) := by
  unfold cnt
  simp only [subseqs, List.filter_append, List.length_append, List.filter_map, List.length_map]
  have hcomp : (matchSteps (s :: ss) ∘ fun x => e :: x) =
      fun u => (e == s.ty) && (matchSteps ss u || (s.kleene && matchSteps (s :: ss) u)) := by
    funext u; simp [matchSteps]
  rw [hcomp]
  by_cases he : e = s.ty
  · simp only [he, beq_self_eq_true, Bool.true_and, if_true]
    cases hk : s.kleene
    · simp; exact Nat.add_comm _ _
    · simp only [Bool.true_and, if_true]
      have hd : ∀ u ∈ subseqs evs, ¬(matchSteps ss u = true ∧ matchSteps (s :: ss) u = true) := by
        intro u _ hu
        exact match_disjoint s ss h u ⟨hu.1, by simp [hk, hu.2]⟩
      rw [filter_or_length _ (matchSteps ss) (matchSteps (s :: ss)) hd]
      omega
  · have : (e == s.ty) = false := by simp [he]
    simp [this, he]

/-- adjacent steps have different types, all along the pattern -/
def AdjChain : Query → Prop
  | [] => True
  | s :: ss => AdjOK s ss ∧ AdjChain ss

/-- weighted number of completions: `prev` ways to stand in front of the pattern `ss`, `ws[i]` ways
to stand in step `i` of it; every such way is weighted with the number of subsequences of `evs`
that complete it -/
def W : Nat → Query → List Nat → List Ty → Nat
  | prev, s :: ss, w :: ws, evs => (prev + if s.kleene then w else 0) * cnt (s :: ss) evs + W w ss ws evs
  | prev, _, _, _ => prev

theorem W_lin (b : Nat) (evs : List Ty) : ∀ (ss : Query) (ws : List Nat) (a : Nat), ws.length = ss.length →
    W (a + b) ss ws evs = W a ss ws evs + b * cnt ss evs := by
  intro ss
  induction ss with
  | nil => intro ws a h; cases ws <;> simp_all [W, cnt_nil]
  | cons s ss ih =>
    intro ws a h
    cases ws with
    | nil => simp at h
    | cons w ws =>
      simp only [W]
      generalize cnt (s :: ss) evs = C
      generalize W w ss ws evs = R
      cases s.kleene <;> simp [Nat.add_mul] <;> omega

theorem stepW_length (t : Ty) : ∀ (ss : Query) (ws : List Nat) (prev : Nat), ws.length = ss.length →
    (stepW t prev ss ws).length = ss.length := by
  intro ss
  induction ss with
  | nil => intro ws prev h; cases ws <;> simp_all [stepW]
  | cons s ss ih =>
    intro ws prev h
    cases ws with
    | nil => simp at h
    | cons w ws => simp [stepW, ih ws w (by simpa using h)]

theorem W_step (e : Ty) (evs : List Ty) : ∀ (ss : Query) (ws : List Nat) (prev : Nat), AdjChain ss →
    ws.length = ss.length → W prev ss ws (e :: evs) = W prev ss (stepW e prev ss ws) evs := by
  intro ss
  induction ss with
  | nil => intro ws prev _ h; cases ws <;> simp_all [W]
  | cons s ss ih =>
    intro ws prev hc h
    cases ws with
    | nil => simp at h
    | cons w ws =>
      have hl : ws.length = ss.length := by simpa using h
      simp only [W, stepW]
      rw [ih ws w hc.2 hl, cnt_cons_cons s ss hc.1]
      have hl' := stepW_length e ss ws w hl
      by_cases he : e = s.ty
      · subst he
        simp only [if_true]
        rw [W_lin _ evs ss _ w hl']
        generalize cnt (s :: ss) evs = C
        generalize cnt ss evs = C'
        generalize W w ss (stepW s.ty w ss ws) evs = R
        cases s.kleene <;> simp [Nat.add_mul, Nat.mul_add] <;> omega
      · simp [he]

theorem W_zero (evs : List Ty) : ∀ (ss : Query), W 0 ss (ss.map fun _ => 0) evs = 0 := by
  intro ss
  induction ss with
  | nil => simp [W]
  | cons s ss ih => simp [W, ih]

theorem getLast?_getD_cons (x : Nat) (xs : List Nat) (a b : Nat) :
    ((x :: xs).getLast?).getD a = ((x :: xs).getLast?).getD b := by
  induction xs generalizing x with
  | nil => simp
  | cons y ys ih => simp only [List.getLast?_cons_cons]; exact ih y

theorem W_nil : ∀ (ss : Query) (ws : List Nat) (prev : Nat), ws.length = ss.length →
    W prev ss ws [] = (ws.getLast?).getD prev := by
  intro ss
  induction ss with
  | nil => intro ws prev h; cases ws <;> simp_all [W]
  | cons s ss ih =>
    intro ws prev h
    cases ws with
    | nil => simp at h
    | cons w ws =>
      simp only [W, cnt_cons_nil, Nat.mul_zero, Nat.zero_add]
      rw [ih ws w (by simpa using h)]
      cases ws with
      | nil => simp
      | cons x xs => simp only [List.getLast?_cons_cons]; exact getLast?_getD_cons x xs w prev

theorem runW_length (q : Query) : ∀ (evs : List Ty) (ws : List Nat), ws.length = q.length →
    (runW q ws evs).length = q.length := by
  intro evs
  induction evs with
  | nil => intro ws h; simpa [runW] using h
  | cons e evs ih =>
    intro ws h
    simp only [runW, List.foldl_cons]
    exact ih _ (stepW_length e q ws 1 h)

theorem W_run (q : Query) (hc : AdjChain q) : ∀ (evs : List Ty) (ws : List Nat), ws.length = q.length →
    W 1 q ws evs = ((runW q ws evs).getLast?).getD 1 := by
  intro evs
  induction evs with
  | nil => intro ws h; simpa [runW] using W_nil q ws 1 h
  | cons e evs ih =>
    intro ws h
    rw [W_step e evs q ws 1 hc h, ih _ (stepW_length e q ws 1 h)]
    simp [runW]

theorem adjChain_of_nodup : ∀ (q : Query), (q.map (·.ty)).Nodup → AdjChain q := by
  intro q
  induction q with
  | nil => intro _; trivial
  | cons s ss ih =>
    intro h
    simp only [List.map_cons, List.nodup_cons] at h
    refine ⟨?_, ih h.2⟩
    intro s' hs' heq
    cases ss with
    | nil => simp at hs'
    | cons x xs =>
      simp at hs'
      subst hs'
      exact h.1 (by simp [heq])

/-- the running-sum recurrence counts the subsequences that match -/
theorem dpCount_eq_cnt (q : Query) (hne : q ≠ []) (hc : AdjChain q) (evs : List Ty) :
    dpCount q evs = cnt q evs := by
  have hz : (q.map fun _ => 0).length = q.length := by simp
  have h1 := W_run q hc evs (q.map fun _ => 0) hz
  have hl := runW_length q evs (q.map fun _ => 0) hz
  cases q with
  | nil => exact absurd rfl hne
  | cons s ss =>
    have h2 : W 1 (s :: ss) ((s :: ss).map fun _ => 0) evs = cnt (s :: ss) evs := by
      simp [W, W_zero]
    unfold dpCount
    rw [← h2, h1]
    generalize runW (s :: ss) ((s :: ss).map fun _ => 0) evs = r at hl ⊢
    cases r with
    | nil => simp at hl
    | cons x xs => exact getLast?_getD_cons x xs 0 1

theorem subseqs_map {α β : Type} (f : α → β) : ∀ (l : List α), (subseqs l).map (List.map f) = subseqs (l.map f) := by
  intro l
  induction l with
  | nil => simp [subseqs]
  | cons x xs ih => simp [subseqs, ← ih, Function.comp_def]

theorem trends_length (q : Query) (evs : List Ty) : (trends q evs).length = cnt q evs := by
  unfold trends cnt
  have h : evs = (evs.zipIdx).map (·.1) := by simp
  conv => rhs; rw [h, ← subseqs_map, List.filter_map, List.length_map]
  rfl

theorem sumTy_append (nodes : List (Ty × Nat)) (t x c : Nat) :
    sumTy (nodes ++ [(t, c)]) x = sumTy nodes x + if t = x then c else 0 := by
  unfold sumTy
  by_cases h : t = x <;> simp [List.filter_append, h]

/-- weight in front of a suffix of the pattern: 1 at the start, else Σ counts of the previous step's type -/
def pw (nodes : List (Ty × Nat)) : Option Ty → Nat
  | none => 1
  | some p => sumTy nodes p

theorem stepW_sumTy (nodes : List (Ty × Nat)) (t : Ty) : ∀ (ss : Query) (prev? : Option Ty),
    (ss.map (·.ty)).Nodup →
    stepW t (pw nodes prev?) ss (ss.map fun s => sumTy nodes s.ty) =
      ss.map fun s => sumTy nodes s.ty + if t = s.ty then countFor nodes t prev? ss else 0 := by
  intro ss
  induction ss with
  | nil => intro _ _; simp [stepW]
  | cons s ss ih =>
    intro prev? hnd
    simp only [List.map_cons, List.nodup_cons] at hnd
    have ih' := ih (some s.ty) hnd.2
    simp only [pw] at ih'
    simp only [List.map_cons, stepW, ih']
    congr 1
    · by_cases he : t = s.ty
      · cases prev? <;> simp [countFor, he, pw]
      · simp [he]
    · apply List.map_congr_left
      intro s' hs'
      by_cases he' : t = s'.ty
      · have hne : t ≠ s.ty := by
          intro h
          apply hnd.1
          rw [← h, he']
          exact List.mem_map_of_mem hs'
        subst he'
        simp [countFor, hne]
      · simp [he']

theorem runW_eq_sumTy (q : Query) (hnd : (q.map (·.ty)).Nodup) : ∀ (evs : List Ty) (nodes : List (Ty × Nat)),
    runW q (q.map fun s => sumTy nodes s.ty) evs = q.map fun s => sumTy (evs.foldl (gretaStep q) nodes) s.ty := by
  intro evs
  induction evs with
  | nil => intro nodes; simp [runW]
  | cons e evs ih =>
    intro nodes
    simp only [runW, List.foldl_cons]
    have h := stepW_sumTy nodes e q none hnd
    simp only [pw] at h
    rw [h]
    have : (q.map fun s => sumTy nodes s.ty + if e = s.ty then countFor nodes e none q else 0) =
        q.map fun s => sumTy (gretaStep q nodes e) s.ty := by
      apply List.map_congr_left
      intro s _
      simp [gretaStep, sumTy_append]
    rw [this]
    exact ih (gretaStep q nodes e)

/-- Σ_{e final} count(e) of the per-event recurrence = the running-sum form -/
theorem gretaFinal_eq_dpCount (q : Query) (hnd : (q.map (·.ty)).Nodup) (evs : List Ty) :
    gretaFinal q evs = dpCount q evs := by
  unfold gretaFinal dpCount gretaCounts
  have h := runW_eq_sumTy q hnd evs []
  have hz : (q.map fun s => sumTy [] s.ty) = q.map fun _ => 0 := by simp [sumTy]
  rw [hz] at h
  rw [h, List.getLast?_map]
  cases q.getLast? <;> simp

namespace Hamlet

/-! ### `hamlet_partial`: without an event of a start type the aggregator reports nothing -/

/-- nothing has started: every query sits in its initial state with zero counters -/
def Idle (a : Agg) : Prop :=
  (∀ e ∈ a.states, e.2.cur = a.tpl.initialOf e.1 ∧ e.2.inTrend = false ∧ e.2.count = 0) ∧
  (∀ f ∈ a.finals, f.2 = 0)

/-- no transition on `ty` leaves the initial state of any query -/
def NoStart (a : Agg) (ty : Ty) : Prop :=
  ∀ e ∈ a.states, a.tpl.transition (a.tpl.initialOf e.1) ty = none

theorem getState_mem (a : Agg) (q : Nat) (st : QState) (h : getState a q = some st) :
    ∃ e ∈ a.states, e.1 = q ∧ e.2 = st := by
  unfold getState at h
  cases hf : a.states.find? (·.1 == q) with
  | none => simp [hf] at h
  | some e =>
    simp [hf] at h
    have := List.find?_some hf
    exact ⟨e, List.mem_of_find?_eq_some hf, by simpa using this, h⟩

theorem updateQueryState_idle (a : Agg) (q : Nat) (ty : Ty) (hi : Idle a) (hn : NoStart a ty) :
    updateQueryState a q ty = (a, none) := by
  unfold updateQueryState
  cases hs : getState a q with
  | none => rfl
  | some st =>
    obtain ⟨e, he, heq, hst⟩ := getState_mem a q st hs
    have h1 := (hi.1 e he).1
    have h2 := hn e he
    rw [hst, heq] at h1
    rw [heq] at h2
    simp [h1, h2]

theorem fold_update_idle (ty : Ty) : ∀ (regs : List (Nat × List Ty)) (a : Agg) (acc : List (Nat × Nat)),
    Idle a → NoStart a ty →
    regs.foldl (fun (acc : Agg × List (Nat × Nat)) r =>
      let (a', rep) := updateQueryState acc.1 r.1 ty
      (a', match rep with | some v => acc.2 ++ [(r.1, v)] | none => acc.2)) (a, acc) = (a, acc) := by
  intro regs
  induction regs with
  | nil => intros; rfl
  | cons r rs ih =>
    intro a acc hi hn
    simp only [List.foldl_cons, updateQueryState_idle a r.1 ty hi hn]
    exact ih a acc hi hn

theorem processNonShared_idle (size : Nat) : ∀ (queries : List Nat) (a : Agg), Idle a →
    processNonShared a size queries = a := by
  intro queries
  unfold processNonShared
  induction queries with
  | nil => intros; rfl
  | cons q qs ih =>
    intro a hi
    simp only [List.foldl_cons]
    cases hs : getState a q with
    | none => simpa using ih a hi
    | some st =>
      obtain ⟨e, he, _, hst⟩ := getState_mem a q st hs
      have := (hi.1 e he).2.1
      rw [hst] at this
      simp only [this]
      simpa using ih a hi

theorem decisionShared_false (a : Agg) (ty : Ty) (h : a.regs.length < a.minQueries) :
    decisionShared a ty = false := by
  unfold decisionShared
  have := List.length_filter_le (fun r : Nat × List Ty => r.2.contains ty) a.regs
  simp only [Bool.and_eq_false_iff, decide_eq_false_iff_not]
  right; omega

theorem processClosed_idle (a : Agg) (ty : Ty) (size : Nat) (hi : Idle a) (h : a.regs.length < a.minQueries) :
    processClosed a ty size = a := by
  unfold processClosed
  split
  · rfl
  · simp [decisionShared_false a ty h, processNonShared_idle size _ a hi]

/-- the parts of the aggregator that `Idle`/`NoStart` and the reports depend on -/
def SameCore (a b : Agg) : Prop :=
  a.tpl = b.tpl ∧ a.regs = b.regs ∧ a.minQueries = b.minQueries ∧ a.states = b.states ∧ a.finals = b.finals

theorem idle_of_same {a b : Agg} (h : SameCore a b) (hi : Idle a) : Idle b := by
  obtain ⟨h1, _, _, h4, h5⟩ := h
  unfold Idle at *
  rw [← h1, ← h4, ← h5]; exact hi

theorem noStart_of_same {a b : Agg} (ty : Ty) (h : SameCore a b) (hn : NoStart a ty) : NoStart b ty := by
  obtain ⟨h1, _, _, h4, _⟩ := h
  unfold NoStart at *
  rw [← h1, ← h4]; exact hn

theorem process_idle (a : Agg) (ty : Ty) (hi : Idle a) (hn : NoStart a ty) (h : a.regs.length < a.minQueries) :
    ∃ a', process a ty = (a', []) ∧ SameCore a a' := by
  unfold process
  split
  · exact ⟨a, rfl, rfl, rfl, rfl, rfl, rfl⟩
  · -- the graphlet bookkeeping changes `lastTy`/`active` only
    have hclosed : ∀ l, processClosed a l a.active = a := fun l => processClosed_idle a l a.active hi h
    let a1 : Agg := match a.lastTy with
      | some l => if l != ty then { processClosed a l a.active with active := 0 } else a
      | none => a
    have hs1 : SameCore a a1 := by
      show SameCore a (match a.lastTy with
        | some l => if l != ty then { processClosed a l a.active with active := 0 } else a
        | none => a)
      cases a.lastTy with
      | none => exact ⟨rfl, rfl, rfl, rfl, rfl⟩
      | some l =>
        simp only
        split
        · rw [hclosed l]; exact ⟨rfl, rfl, rfl, rfl, rfl⟩
        · exact ⟨rfl, rfl, rfl, rfl, rfl⟩
    let a2 : Agg := { a1 with lastTy := some ty, active := a1.active + 1 }
    have hs2 : SameCore a a2 := ⟨hs1.1, hs1.2.1, hs1.2.2.1, hs1.2.2.2.1, hs1.2.2.2.2⟩
    refine ⟨a2, ?_, hs2⟩
    have := fold_update_idle ty a2.regs a2 [] (idle_of_same hs2 hi) (noStart_of_same ty hs2 hn)
    exact this

theorem getFinal_idle (a : Agg) (q : Nat) (hi : Idle a) : getFinal a q = 0 := by
  unfold getFinal
  cases hf : a.finals.find? (·.1 == q) with
  | none => simp
  | some f => simpa using hi.2 f (List.mem_of_find?_eq_some hf)

theorem getCount_idle (a : Agg) (q : Nat) (hi : Idle a) : ((getState a q).map (·.count)).getD 0 = 0 := by
  cases hs : getState a q with
  | none => simp
  | some st =>
    obtain ⟨e, he, _, hst⟩ := getState_mem a q st hs
    have := (hi.1 e he).2.2
    rw [hst] at this
    simpa using this

theorem fold_final_idle : ∀ (l : List (Nat × QState)) (a : Agg), (∀ e ∈ l, e.2.inTrend = false) →
    l.foldl (fun a e => if e.2.inTrend && e.2.count > 0 then addFinal a e.1 e.2.count else a) a = a := by
  intro l
  induction l with
  | nil => intros; rfl
  | cons e es ih =>
    intro a h
    simp only [List.foldl_cons, h e (by simp), Bool.false_and]
    exact ih a (fun e' he' => h e' (by simp [he']))

theorem flush_idle (a : Agg) (hi : Idle a) (h : a.regs.length < a.minQueries) : flush a = [] := by
  have key : List.filterMap (fun r : Nat × List Ty =>
        let total := max (getFinal a r.1) (((getState a r.1).map (·.count)).getD 0)
        if total > 0 then some (r.1, total) else none) a.regs = [] := by
    simp [List.filterMap_eq_nil_iff, getFinal_idle a _ hi, getCount_idle a _ hi]
  unfold flush
  cases hl : a.lastTy with
  | none =>
    dsimp only
    rw [fold_final_idle a.states a (fun e he => (hi.1 e he).2.1)]
    exact key
  | some l =>
    dsimp only
    rw [processClosed_idle a l a.active hi h, fold_final_idle a.states a (fun e he => (hi.1 e he).2.1)]
    exact key

/-- the whole run reports nothing -/
theorem run_fold_idle : ∀ (l : List (Ty × Nat)) (a : Agg), Idle a → (∀ p ∈ l, NoStart a p.1) →
    a.regs.length < a.minQueries →
    ∃ a', l.foldl (fun (acc : Agg × List (Nat × Nat × Nat)) (p : Ty × Nat) =>
        let (a', reps) := process acc.1 p.1
        (a', acc.2 ++ reps.map fun (q, v) => (p.2, q, v))) (a, []) = (a', []) ∧ SameCore a a' := by
  intro l
  induction l with
  | nil => intro a _ _ _; exact ⟨a, rfl, rfl, rfl, rfl, rfl, rfl⟩
  | cons p ps ih =>
    intro a hi hn h
    obtain ⟨a1, hp, hs⟩ := process_idle a p.1 hi (hn p (by simp)) h
    simp only [List.foldl_cons, hp, List.map_nil, List.append_nil]
    have hn1 : ∀ p' ∈ ps, NoStart a1 p'.1 := fun p' hp' => noStart_of_same p'.1 hs (hn p' (by simp [hp']))
    have hlen : a1.regs.length < a1.minQueries := by rw [← hs.2.1, ← hs.2.2.1]; exact h
    obtain ⟨a2, h2, hs2⟩ := ih a1 (idle_of_same hs hi) hn1 hlen
    exact ⟨a2, h2, hs.1.trans hs2.1, hs.2.1.trans hs2.2.1, hs.2.2.1.trans hs2.2.2.1,
      hs.2.2.2.1.trans hs2.2.2.2.1, hs.2.2.2.2.trans hs2.2.2.2.2⟩

theorem run_idle (qs : List Query) (m : Nat) (evs : List Ty)
    (hi : Idle (Agg.new qs m)) (hn : ∀ t ∈ evs, NoStart (Agg.new qs m) t)
    (h : (Agg.new qs m).regs.length < (Agg.new qs m).minQueries) :
    run qs m evs = ([], []) := by
  unfold run
  have hn' : ∀ p ∈ evs.zipIdx, NoStart (Agg.new qs m) p.1 := by
    intro p hp
    exact hn p.1 (by
      have := List.mem_map_of_mem (f := Prod.fst) hp
      simpa using this)
  obtain ⟨a', hf, hs⟩ := run_fold_idle evs.zipIdx (Agg.new qs m) hi hn' h
  have hlen : a'.regs.length < a'.minQueries := by rw [← hs.2.1, ← hs.2.2.1]; exact h
  have : (evs.zipIdx.foldl (fun (acc : Agg × List (Nat × Nat × Nat)) (x : Ty × Nat) =>
      match x with
      | (ty, k) =>
        let (a', reps) := process acc.1 ty
        (a', acc.2 ++ reps.map fun (q, v) => (k, q, v))) (Agg.new qs m, [])) = (a', []) := hf
  simp only [this, flush_idle a' (idle_of_same hs hi) hlen]


/-- query 0 starts in state 0, and only its first type leaves state 0 -/
def TInv (t : Template) (ty0 : Ty) : Prop :=
  t.initial = [(0, 0)] ∧ ∀ x ∈ t.trans, x.src = 0 → x.ty = ty0

theorem tinv_registerType (t : Template) (ty0 ty : Ty) (h : TInv t ty0) : TInv (t.registerType ty) ty0 := by
  unfold Template.registerType; split <;> exact h

theorem tinv_addTransition (t : Template) (ty0 : Ty) (src dst : Nat) (ty : Ty) (h : TInv t ty0)
    (hs : src = 0 → ty = ty0) : TInv (t.addTransition src dst ty) ty0 := by
  unfold Template.addTransition
  split
  · exact h
  · refine ⟨h.1, ?_⟩
    intro x hx
    simp only [List.mem_append, List.mem_singleton] at hx
    rcases hx with hx | hx
    · exact h.2 x hx
    · subst hx; exact hs

theorem tinv_addQuery (t : Template) (ty0 : Ty) (src : Nat) (ty : Ty) (q : Nat) (h : TInv t ty0) :
    TInv (t.addQueryToTransition src ty q) ty0 := by
  unfold Template.addQueryToTransition
  refine ⟨h.1, ?_⟩
  intro x hx
  simp only [List.mem_map] at hx
  obtain ⟨y, hy, rfl⟩ := hx
  split <;> exact h.2 y hy

theorem tinv_markKleene (t : Template) (ty0 : Ty) (src : Nat) (ty : Ty) (h : TInv t ty0) :
    TInv (t.markKleene src ty) ty0 := by
  unfold Template.markKleene
  refine ⟨h.1, ?_⟩
  intro x hx
  simp only [List.mem_map] at hx
  obtain ⟨y, hy, rfl⟩ := hx
  split <;> exact h.2 y hy

theorem tinv_addKleenePattern (t : Template) (ty0 ty : Ty) (st : Nat) (h : TInv t ty0) :
    TInv (t.addKleenePattern ty st) ty0 := by
  unfold Template.addKleenePattern; split <;> exact h

theorem tinv_addKleene (t : Template) (ty0 : Ty) (q : Nat) (ty : Ty) (at_ : Nat) (h : TInv t ty0)
    (hs : at_ = 0 → ty = ty0) : TInv (t.addKleene q ty at_) ty0 := by
  unfold Template.addKleene
  have h1 := tinv_addKleenePattern _ ty0 ty at_
    (tinv_markKleene _ ty0 at_ ty (tinv_addQuery _ ty0 at_ ty q
      (tinv_addTransition _ ty0 at_ at_ ty (tinv_registerType t ty0 ty h) hs)))
  exact ⟨h1.1, h1.2⟩

theorem zipIdx_snd_ge {α : Type} : ∀ (l : List α) (k : Nat), ∀ p ∈ l.zipIdx k, k ≤ p.2 := by
  intro l
  induction l with
  | nil => intro k p hp; simp at hp
  | cons x xs ih =>
    intro k p hp
    simp only [List.zipIdx_cons, List.mem_cons] at hp
    rcases hp with rfl | hp
    · exact Nat.le_refl _
    · exact Nat.le_trans (Nat.le_succ k) (ih (k + 1) p hp)

theorem tinv_seq_fold (q : Nat) (ty0 : Ty) : ∀ (l : List (Ty × Nat)) (t : Template), TInv t ty0 →
    (∀ p ∈ l, p.2 = 0 → p.1 = ty0) →
    TInv (l.foldl (fun t (x : Ty × Nat) => match x with
      | (ty, i) => ((t.registerType ty).addTransition (0 + i) (0 + i + 1) ty).addQueryToTransition (0 + i) ty q) t) ty0 := by
  intro l
  induction l with
  | nil => intro t h _; exact h
  | cons p ps ih =>
    intro t h hp
    obtain ⟨ty, i⟩ := p
    simp only [List.foldl_cons]
    apply ih
    · apply tinv_addQuery
      apply tinv_addTransition
      · exact tinv_registerType t ty0 ty h
      · intro h0; exact hp (ty, i) (by simp) (by simpa using h0)
    · intro p' hp'; exact hp p' (by simp [hp'])

theorem tinv_kleene_fold (ty0 : Ty) : ∀ (l : List (Step × Nat)) (t : Template), TInv t ty0 →
    (∀ p ∈ l, p.2 = 0 → p.1.ty = ty0) →
    TInv (l.foldl (fun t (x : Step × Nat) => match x with
      | (s, pos) => if s.kleene then t.addKleene 0 s.ty (0 + pos) else t) t) ty0 := by
  intro l
  induction l with
  | nil => intro t h _; exact h
  | cons p ps ih =>
    intro t h hp
    obtain ⟨s, pos⟩ := p
    simp only [List.foldl_cons]
    apply ih
    · split
      · apply tinv_addKleene _ _ _ _ _ h
        intro h0; exact hp (s, pos) (by simp) (by simpa using h0)
      · exact h
    · intro p' hp'; exact hp p' (by simp [hp'])

theorem tinv_build (s : Step) (ss : Query) : TInv (buildTemplate [s :: ss]) s.ty := by
  have hb : buildTemplate [s :: ss] =
      ((s :: ss).zipIdx).foldl (fun t (x : Step × Nat) => match x with
        | (s, pos) => if s.kleene then t.addKleene 0 s.ty (0 + pos) else t)
        (({} : Template).addSequence 0 (Query.types (s :: ss))) := rfl
  have hs : ({} : Template).addSequence 0 (Query.types (s :: ss)) =
      ((Query.types (s :: ss)).zipIdx).foldl (fun t (x : Ty × Nat) => match x with
        | (ty, i) => ((t.registerType ty).addTransition (0 + i) (0 + i + 1) ty).addQueryToTransition (0 + i) ty 0)
        { nstates := 0 + (Query.types (s :: ss)).length + 1, initial := [(0, 0)],
          finals := [(0, 0 + (Query.types (s :: ss)).length)] } := rfl
  rw [hb, hs]
  apply tinv_kleene_fold
  · apply tinv_seq_fold
    · exact ⟨rfl, by simp⟩
    · intro p hp h0
      simp only [Query.types, List.map_cons, List.zipIdx_cons, List.mem_cons] at hp
      rcases hp with rfl | hp
      · rfl
      · have := zipIdx_snd_ge _ _ p hp; omega
  · intro p hp h0
    simp only [List.zipIdx_cons, List.mem_cons] at hp
    rcases hp with rfl | hp
    · rfl
    · have := zipIdx_snd_ge _ _ p hp; omega

theorem transition_none (t : Template) (ty0 ty : Ty) (h : TInv t ty0) (hne : ty ≠ ty0) :
    t.transition (t.initialOf 0) ty = none := by
  have hi : t.initialOf 0 = 0 := by simp [Template.initialOf, h.1]
  rw [hi]
  unfold Template.transition
  rw [List.find?_eq_none]
  intro x hx
  simp only [Bool.and_eq_true, beq_iff_eq, not_and]
  intro h0 hty
  exact hne (hty ▸ (h.2 x hx h0).symm ▸ rfl)


/-- one query, sharing threshold ≥ 2, no event of the query's first type: no report at all -/
theorem run_no_start (s : Step) (ss : Query) (m : Nat) (hm : 2 ≤ m) (evs : List Ty)
    (h : ∀ t ∈ evs, t ≠ s.ty) : run [s :: ss] m evs = ([], []) := by
  apply run_idle
  · refine ⟨?_, ?_⟩
    · intro e he
      simp [Agg.new, List.range_succ] at he
      subst he
      exact ⟨rfl, rfl, rfl⟩
    · intro f hf
      simp [Agg.new, List.range_succ] at hf
      subst hf; rfl
  · intro t ht e he
    simp [Agg.new, List.range_succ] at he
    subst he
    exact transition_none _ s.ty t (tinv_build s ss) (h t ht)
  · simp [Agg.new]; omega

end Hamlet

theorem cnt_no_start (s : Step) (ss : Query) (hadj : AdjOK s ss) : ∀ (evs : List Ty), (∀ t ∈ evs, t ≠ s.ty) →
    cnt (s :: ss) evs = 0 := by
  intro evs
  induction evs with
  | nil => intro _; exact cnt_cons_nil s ss
  | cons e es ih =>
    intro h
    rw [cnt_cons_cons s ss hadj, ih (fun t ht => h t (by simp [ht]))]
    simp [h e (by simp)]


theorem mem_of_mem_subseqs {α : Type} : ∀ (l u : List α), u ∈ subseqs l → ∀ x ∈ u, x ∈ l := by
  intro l
  induction l with
  | nil => intro u hu x hx; simp [subseqs] at hu; subst hu; simp at hx
  | cons a as ih =>
    intro u hu x hx
    simp only [subseqs, List.mem_append, List.mem_map] at hu
    rcases hu with ⟨v, hv, rfl⟩ | hu
    · simp only [List.mem_cons] at hx
      rcases hx with rfl | hx
      · simp
      · exact List.mem_cons_of_mem _ (ih v hv x hx)
    · exact List.mem_cons_of_mem _ (ih u hu x hx)

/-- inside one window the time condition is vacuous -/
theorem trendsW_inside (q : Query) (w : Nat) (evs : List (Ty × Nat))
    (h : ∀ a ∈ evs, ∀ b ∈ evs, b.2 - a.2 ≤ w) :
    trendsW q w evs = (subseqs evs).filter (fun u => matchSteps q (u.map (·.1))) := by
  unfold trendsW
  apply List.filter_congr
  intro u hu
  have hm := mem_of_mem_subseqs evs u hu
  cases hh : u.head? with
  | none => simp
  | some a =>
    cases hl : u.getLast? with
    | none => simp
    | some b =>
      have ha : a ∈ evs := hm a (List.mem_of_mem_head? (by simp [hh]))
      have hb : b ∈ evs := hm b (List.mem_of_mem_getLast? (by simp [hl]))
      simp [h a ha b hb]

/-! ### several windows: `flush()` + `reset` -/
theorem Hamlet.runWindows_single (qs : List Query) (m : Nat) (evs : List Ty) :
    Hamlet.runWindows qs m [evs] =
      ((Hamlet.run qs m evs).1, (Hamlet.run qs m evs).2.map fun (q, v) => (0, q, v)) := by
  simp [Hamlet.runWindows, Hamlet.run]

theorem GretaImpl.runWindows_single (qs : List Query) (evs : List Ty) (known : Ty → Bool) :
    GretaImpl.runWindows qs [evs] known =
      ((GretaImpl.run qs evs known).1, (GretaImpl.run qs evs known).2.map fun (q, v) => (0, q, v)) := by
  simp [GretaImpl.runWindows, GretaImpl.run]


namespace Hamlet

/-- template, registrations and sharing threshold: what `reset` keeps -/
def CoreEq (a b : Agg) : Prop := a.tpl = b.tpl ∧ a.regs = b.regs ∧ a.minQueries = b.minQueries

theorem CoreEq.refl (a : Agg) : CoreEq a a := ⟨rfl, rfl, rfl⟩
theorem CoreEq.trans {a b c : Agg} (h1 : CoreEq a b) (h2 : CoreEq b c) : CoreEq a c :=
  ⟨h1.1.trans h2.1, h1.2.1.trans h2.2.1, h1.2.2.trans h2.2.2⟩

theorem core_setState (a : Agg) (q : Nat) (s : QState) : CoreEq a (setState a q s) := ⟨rfl, rfl, rfl⟩
theorem core_addFinal (a : Agg) (q n : Nat) : CoreEq a (addFinal a q n) := by
  unfold addFinal; split <;> exact ⟨rfl, rfl, rfl⟩

theorem core_foldl {β : Type} (f : Agg → β → Agg) (hf : ∀ a b, CoreEq a (f a b)) :
    ∀ (l : List β) (a : Agg), CoreEq a (l.foldl f a) := by
  intro l
  induction l with
  | nil => intro a; exact CoreEq.refl a
  | cons x xs ih => intro a; exact (hf a x).trans (ih (f a x))

theorem core_processShared (a : Agg) (size : Nat) (qs : List Nat) : CoreEq a (processShared a size qs) := by
  unfold processShared
  apply core_foldl
  intro a q
  dsimp only
  split
  · exact CoreEq.refl a
  · exact core_setState _ _ _

theorem core_processNonShared (a : Agg) (size : Nat) (qs : List Nat) : CoreEq a (processNonShared a size qs) := by
  unfold processNonShared
  apply core_foldl
  intro a q
  dsimp only
  split
  · exact CoreEq.refl a
  · split
    · exact core_setState _ _ _
    · exact CoreEq.refl a

theorem core_processClosed (a : Agg) (ty : Ty) (size : Nat) : CoreEq a (processClosed a ty size) := by
  unfold processClosed
  split
  · exact CoreEq.refl a
  · dsimp only
    split
    · exact core_processShared _ _ _
    · exact core_processNonShared _ _ _

theorem core_updateQueryState (a : Agg) (q : Nat) (ty : Ty) : CoreEq a (updateQueryState a q ty).1 := by
  unfold updateQueryState
  repeat' (first | split | dsimp only)
  all_goals first
    | exact CoreEq.refl _
    | exact core_setState _ _ _
    | exact (core_setState _ _ _).trans (core_addFinal _ _ _)

theorem core_update_fold (ty : Ty) : ∀ (regs : List (Nat × List Ty)) (a : Agg) (acc : List (Nat × Nat)),
    CoreEq a (regs.foldl (fun (acc : Agg × List (Nat × Nat)) r =>
      let (a', rep) := updateQueryState acc.1 r.1 ty
      (a', match rep with | some v => acc.2 ++ [(r.1, v)] | none => acc.2)) (a, acc)).1 := by
  intro regs
  induction regs with
  | nil => intro a acc; exact CoreEq.refl a
  | cons r rs ih =>
    intro a acc
    simp only [List.foldl_cons]
    exact (core_updateQueryState a r.1 ty).trans (ih _ _)

theorem core_process (a : Agg) (ty : Ty) : CoreEq a (process a ty).1 := by
  unfold process
  split
  · exact CoreEq.refl a
  · dsimp only
    refine CoreEq.trans ?_ (core_update_fold ty _ _ _)
    cases a.lastTy with
    | none => exact ⟨rfl, rfl, rfl⟩
    | some l =>
      dsimp only
      split
      · have := core_processClosed a l a.active
        exact ⟨this.1, this.2.1, this.2.2⟩
      · exact ⟨rfl, rfl, rfl⟩

theorem core_events_fold : ∀ (l : List (Ty × Nat)) (a : Agg) (inc : List (Nat × Nat × Nat)),
    CoreEq a (l.foldl (fun (acc : Agg × List (Nat × Nat × Nat)) (x : Ty × Nat) =>
      match x with
      | (ty, k) =>
        let (a', reps) := process acc.1 ty
        (a', acc.2 ++ reps.map fun (q, v) => (k, q, v))) (a, inc)).1 := by
  intro l
  induction l with
  | nil => intro a inc; exact CoreEq.refl a
  | cons x xs ih =>
    intro a inc
    obtain ⟨ty, k⟩ := x
    simp only [List.foldl_cons]
    exact (core_process a ty).trans (ih _ _)

theorem regs_fst (qs : List Query) (m : Nat) :
    (Agg.new qs m).regs.map (·.1) = List.range qs.length := by
  simp only [Agg.new, List.map_map]
  apply List.ext_getElem <;> simp

/-- after `flush()` the mirror aggregator is the freshly constructed one: every window starts from
`Agg.new qs m`, whatever happened in the windows before -/
theorem reset_fresh (qs : List Query) (m : Nat) (a : Agg) (h : CoreEq (Agg.new qs m) a) :
    reset a = Agg.new qs m := by
  obtain ⟨h1, h2, h3⟩ := h
  have hr := regs_fst qs m
  unfold reset
  rw [← h1, ← h2, ← h3]
  have e1 : (Agg.new qs m).regs.map (fun r => (r.1, ({ cur := (Agg.new qs m).tpl.initialOf r.1 } : QState))) =
      (List.range qs.length).map fun id => (id, ({ cur := (buildTemplate qs).initialOf id } : QState)) := by
    rw [← hr, List.map_map]; rfl
  have e2 : (Agg.new qs m).regs.map (fun r => (r.1, 0)) = (List.range qs.length).map fun id => (id, 0) := by
    rw [← hr, List.map_map]; rfl
  rw [e1, e2]
  rfl

end Hamlet
namespace Hamlet

theorem idle_new (s : Step) (ss : Query) (m : Nat) : Idle (Agg.new [s :: ss] m) := by
  refine ⟨?_, ?_⟩
  · intro e he
    simp [Agg.new, List.range_succ] at he
    subst he
    exact ⟨rfl, rfl, rfl⟩
  · intro f hf
    simp [Agg.new, List.range_succ] at hf
    subst hf; rfl

theorem noStart_new (s : Step) (ss : Query) (m : Nat) (t : Ty) (h : t ≠ s.ty) : NoStart (Agg.new [s :: ss] m) t := by
  intro e he
  simp [Agg.new, List.range_succ] at he
  subst he
  exact transition_none _ s.ty t (tinv_build s ss) h

/-- several windows, one query, no event of its first type in any window: no report in any window -/
theorem runWindows_no_start (s : Step) (ss : Query) (m : Nat) (hm : 2 ≤ m) (wins : List (List Ty))
    (h : ∀ w ∈ wins, ∀ t ∈ w, t ≠ s.ty) : runWindows [s :: ss] m wins = ([], []) := by
  unfold runWindows
  have hlen : (Agg.new [s :: ss] m).regs.length < (Agg.new [s :: ss] m).minQueries := by
    simp [Agg.new]; omega
  have key : ∀ (l : List (List Ty × Nat)) (off : Nat), (∀ p ∈ l, ∀ t ∈ p.1, t ≠ s.ty) →
      l.foldl (fun (acc : Agg × Nat × List (Nat × Nat × Nat) × List (Nat × Nat × Nat)) (x : List Ty × Nat) =>
        match x with
        | (evs, w) =>
          let (a, off, inc, fl) := acc
          let r := (evs.zipIdx off).foldl (fun (acc : Agg × List (Nat × Nat × Nat)) (x : Ty × Nat) =>
            match x with
            | (ty, k) =>
              let (a', reps) := process acc.1 ty
              (a', acc.2 ++ reps.map fun (q, v) => (k, q, v))) (a, inc)
          (reset r.1, off + evs.length, r.2, fl ++ (flush r.1).map fun (q, v) => (w, q, v)))
        (Agg.new [s :: ss] m, off, [], []) =
      (Agg.new [s :: ss] m, off + (l.map (·.1.length)).sum, [], []) := by
    intro l
    induction l with
    | nil => intro off _; simp
    | cons p ps ih =>
      intro off hp
      obtain ⟨evs, w⟩ := p
      have hn : ∀ x ∈ evs.zipIdx off, NoStart (Agg.new [s :: ss] m) x.1 := by
        intro x hx
        apply noStart_new
        apply hp (evs, w) (by simp) x.1
        have := List.mem_map_of_mem (f := Prod.fst) hx
        simpa using this
      obtain ⟨a', hf, hs⟩ := run_fold_idle (evs.zipIdx off) (Agg.new [s :: ss] m) (idle_new s ss m) hn hlen
      have hlen' : a'.regs.length < a'.minQueries := by rw [← hs.2.1, ← hs.2.2.1]; exact hlen
      have hfl : flush a' = [] := flush_idle a' (idle_of_same hs (idle_new s ss m)) hlen'
      have hre : reset a' = Agg.new [s :: ss] m := reset_fresh _ m a' ⟨hs.1, hs.2.1, hs.2.2.1⟩
      simp only [List.foldl_cons]
      have hf' : (evs.zipIdx off).foldl (fun (acc : Agg × List (Nat × Nat × Nat)) (x : Ty × Nat) =>
            match x with
            | (ty, k) =>
              let (a', reps) := process acc.1 ty
              (a', acc.2 ++ reps.map fun (q, v) => (k, q, v))) (Agg.new [s :: ss] m, []) = (a', []) := hf
      simp only [hf', hfl, hre, List.map_nil, List.append_nil]
      rw [ih (off + evs.length) (fun p' hp' => hp p' (by simp [hp']))]
      simp [Nat.add_assoc]
  have hk := key wins.zipIdx 0 (by
    intro p hp t ht
    have : p.1 ∈ wins := by
      have := List.mem_map_of_mem (f := Prod.fst) hp
      simpa using this
    exact h p.1 this t ht)
  have hk' : wins.zipIdx.foldl
      (fun (acc : Agg × Nat × List (Nat × Nat × Nat) × List (Nat × Nat × Nat)) (x : List Ty × Nat) =>
        match x with
        | (evs, w) =>
          let (a, off, inc, fl) := acc
          let r := (evs.zipIdx off).foldl (fun (acc : Agg × List (Nat × Nat × Nat)) (x : Ty × Nat) =>
            match x with
            | (ty, k) =>
              let (a', reps) := process acc.1 ty
              (a', acc.2 ++ reps.map fun (q, v) => (k, q, v))) (a, inc)
          (reset r.1, off + evs.length, r.2, fl ++ (flush r.1).map fun (q, v) => (w, q, v)))
      (Agg.new [s :: ss] m, 0, [], []) = _ := hk
  simp only [hk']

end Hamlet
end Varpulis.Trend
