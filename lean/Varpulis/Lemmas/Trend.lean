import Varpulis.Model.Trend
/-! Helper lemmas for C25 (trend counts): the brute-force count satisfies a recursion over the
stream; the running-sum recurrence computes it (weighted-state invariant); the per-event GRETA
recurrence equals the running-sum form. -/
namespace Varpulis.Trend
open Spec

theorem filter_or_length {α : Type} (l : List α) (p q : α → Bool)
    (h : ∀ u ∈ l, ¬(p u = true ∧ q u = true)) :
    (l.filter (fun u => p u || q u)).length = (l.filter p).length + (l.filter q).length := by
  induction l with
  | nil => simp
  | cons x xs ih =>
    have hx := h x (by simp)
    have ih' := ih (fun u hu => h u (by simp [hu]))
    simp only [List.filter_cons]
    cases hp : p x <;> cases hq : q x <;> simp_all <;> omega

/-- number of subsequences of the type list matching `q` -/
def cnt (q : Query) (evs : List Ty) : Nat := ((subseqs evs).filter (matchSteps q)).length

theorem cnt_nil (evs : List Ty) : cnt [] evs = 1 := by
  unfold cnt
  induction evs with
  | nil => simp [subseqs, List.filter, matchSteps]
  | cons e es ih =>
    simp only [subseqs, List.filter_append, List.length_append, ih]
    have : ((subseqs es).map (e :: ·)).filter (matchSteps []) = [] := by
      simp [List.filter_eq_nil_iff, matchSteps]
    simp [this]

theorem cnt_cons_nil (s : Step) (ss : Query) : cnt (s :: ss) [] = 0 := by
  simp [cnt, subseqs, List.filter, matchSteps]

/-- adjacent steps have different types -/
def AdjOK (s : Step) (ss : Query) : Prop := ∀ s' ∈ ss.head?, s'.ty ≠ s.ty

theorem match_disjoint (s : Step) (ss : Query) (h : AdjOK s ss) (u : List Ty) :
    ¬(matchSteps ss u = true ∧ (s.kleene && matchSteps (s :: ss) u) = true) := by
  intro ⟨h1, h2⟩
  cases u with
  | nil => simp [matchSteps] at h2
  | cons t ts =>
    cases ss with
    | nil => simp [matchSteps] at h1
    | cons s' ss' =>
      simp only [matchSteps, Bool.and_eq_true, beq_iff_eq] at h1 h2
      have := h s' (by simp)
      exact this (h1.1.symm.trans h2.2.1)

theorem cnt_cons_cons (s : Step) (ss : Query) (h : AdjOK s ss) (e : Ty) (evs : List Ty) :
    cnt (s :: ss) (e :: evs) =
      cnt (s :: ss) evs + (if e = s.ty then cnt ss evs + (if s.kleene then cnt (s :: ss) evs else 0) else 0) := by
  unfold cnt
  simp only [subseqs, List.filter_append, List.length_append, List.filter_map, List.length_map]
  have hcomp : (matchSteps (s :: ss) ∘ fun x => e :: x) =
      fun u => (e == s.ty) && (matchSteps ss u || (s.kleene && matchSteps (s :: ss) u)) := by
    funext u; simp [matchSteps]
  rw [hcomp]
  by_cases he : e = s.ty
  · simp only [he, beq_self_eq_true, Bool.true_and, if_true]
    cases hk : s.kleene
    · simp; exact Nat.add_comm _ _
    · simp only [Bool.true_and, if_true]
      have hd : ∀ u ∈ subseqs evs, ¬(matchSteps ss u = true ∧ matchSteps (s :: ss) u = true) := by
        intro u _ hu
        exact match_disjoint s ss h u ⟨hu.1, by simp [hk, hu.2]⟩
      rw [filter_or_length _ (matchSteps ss) (matchSteps (s :: ss)) hd]
      omega
  · have : (e == s.ty) = false := by simp [he]
    simp [this, he]

/-- adjacent steps have different types, all along the pattern -/
def AdjChain : Query → Prop
  | [] => True
  | s :: ss => AdjOK s ss ∧ AdjChain ss

/-- weighted number of completions: `prev` ways to stand in front of the pattern `ss`, `ws[i]` ways
to stand in step `i` of it; every such way is weighted with the number of subsequences of `evs`
that complete it -/
def W : Nat → Query → List Nat → List Ty → Nat
  | prev, s :: ss, w :: ws, evs => (prev + if s.kleene then w else 0) * cnt (s :: ss) evs + W w ss ws evs
  | prev, _, _, _ => prev

theorem W_lin (b : Nat) (evs : List Ty) : ∀ (ss : Query) (ws : List Nat) (a : Nat), ws.length = ss.length →
    W (a + b) ss ws evs = W a ss ws evs + b * cnt ss evs := by
  intro ss
  induction ss with
  | nil => intro ws a h; cases ws <;> simp_all [W, cnt_nil]
  | cons s ss ih =>
    intro ws a h
    cases ws with
    | nil => simp at h
    | cons w ws =>
      simp only [W]
      generalize cnt (s :: ss) evs = C
      generalize W w ss ws evs = R
      cases s.kleene <;> simp [Nat.add_mul] <;> omega

theorem stepW_length (t : Ty) : ∀ (ss : Query) (ws : List Nat) (prev : Nat), ws.length = ss.length →
    (stepW t prev ss ws).length = ss.length := by
  intro ss
  induction ss with
  | nil => intro ws prev h; cases ws <;> simp_all [stepW]
  | cons s ss ih =>
    intro ws prev h
    cases ws with
    | nil => simp at h
    | cons w ws => simp [stepW, ih ws w (by simpa using h)]

theorem W_step (e : Ty) (evs : List Ty) : ∀ (ss : Query) (ws : List Nat) (prev : Nat), AdjChain ss →
    ws.length = ss.length → W prev ss ws (e :: evs) = W prev ss (stepW e prev ss ws) evs := by
  intro ss
  induction ss with
  | nil => intro ws prev _ h; cases ws <;> simp_all [W]
  | cons s ss ih =>
    intro ws prev hc h
    cases ws with
    | nil => simp at h
    | cons w ws =>
      have hl : ws.length = ss.length := by simpa using h
      simp only [W, stepW]
      rw [ih ws w hc.2 hl, cnt_cons_cons s ss hc.1]
      have hl' := stepW_length e ss ws w hl
      by_cases he : e = s.ty
      · subst he
        simp only [if_true]
        rw [W_lin _ evs ss _ w hl']
        generalize cnt (s :: ss) evs = C
        generalize cnt ss evs = C'
        generalize W w ss (stepW s.ty w ss ws) evs = R
        cases s.kleene <;> simp [Nat.add_mul, Nat.mul_add] <;> omega
      · simp [he]

theorem W_zero (evs : List Ty) : ∀ (ss : Query), W 0 ss (ss.map fun _ => 0) evs = 0 := by
  intro ss
  induction ss with
  | nil => simp [W]
  | cons s ss ih => simp [W, ih]

theorem getLast?_getD_cons (x : Nat) (xs : List Nat) (a b : Nat) :
    ((x :: xs).getLast?).getD a = ((x :: xs).getLast?).getD b := by
  induction xs generalizing x with
  | nil => simp
  | cons y ys ih => simp only [List.getLast?_cons_cons]; exact ih y

theorem W_nil : ∀ (ss : Query) (ws : List Nat) (prev : Nat), ws.length = ss.length →
    W prev ss ws [] = (ws.getLast?).getD prev := by
  intro ss
  induction ss with
  | nil => intro ws prev h; cases ws <;> simp_all [W]
  | cons s ss ih =>
    intro ws prev h
    cases ws with
    | nil => simp at h
    | cons w ws =>
      simp only [W, cnt_cons_nil, Nat.mul_zero, Nat.zero_add]
      rw [ih ws w (by simpa using h)]
      cases ws with
      | nil => simp
      | cons x xs => simp only [List.getLast?_cons_cons]; exact getLast?_getD_cons x xs w prev

theorem runW_length (q : Query) : ∀ (evs : List Ty) (ws : List Nat), ws.length = q.length →
    (runW q ws evs).length = q.length := by
  intro evs
  induction evs with
  | nil => intro ws h; simpa [runW] using h
  | cons e evs ih =>
    intro ws h
    simp only [runW, List.foldl_cons]
    exact ih _ (stepW_length e q ws 1 h)

theorem W_run (q : Query) (hc : AdjChain q) : ∀ (evs : List Ty) (ws : List Nat), ws.length = q.length →
    W 1 q ws evs = ((runW q ws evs).getLast?).getD 1 := by
  intro evs
  induction evs with
  | nil => intro ws h; simpa [runW] using W_nil q ws 1 h
  | cons e evs ih =>
    intro ws h
    rw [W_step e evs q ws 1 hc h, ih _ (stepW_length e q ws 1 h)]
    simp [runW]

theorem adjChain_of_nodup : ∀ (q : Query), (q.map (·.ty)).Nodup → AdjChain q := by
  intro q
  induction q with
  | nil => intro _; trivial
  | cons s ss ih =>
    intro h
    simp only [List.map_cons, List.nodup_cons] at h
    refine ⟨?_, ih h.2⟩
    intro s' hs' heq
    cases ss with
    | nil => simp at hs'
    | cons x xs =>
      simp at hs'
      subst hs'
      exact h.1 (by simp [heq])

/-- the running-sum recurrence counts the subsequences that match -/
theorem dpCount_eq_cnt (q : Query) (hne : q ≠ []) (hc : AdjChain q) (evs : List Ty) :
    dpCount q evs = cnt q evs := by
  have hz : (q.map fun _ => 0).length = q.length := by simp
  have h1 := W_run q hc evs (q.map fun _ => 0) hz
  have hl := runW_length q evs (q.map fun _ => 0) hz
  cases q with
  | nil => exact absurd rfl hne
  | cons s ss =>
    have h2 : W 1 (s :: ss) ((s :: ss).map fun _ => 0) evs = cnt (s :: ss) evs := by
      simp [W, W_zero]
    unfold dpCount
    rw [← h2, h1]
    generalize runW (s :: ss) ((s :: ss).map fun _ => 0) evs = r at hl ⊢
    cases r with
    | nil => simp at hl
    | cons x xs => exact getLast?_getD_cons x xs 0 1

theorem subseqs_map {α β : Type} (f : α → β) : ∀ (l : List α), (subseqs l).map (List.map f) = subseqs (l.map f) := by
  intro l
  induction l with
  | nil => simp [subseqs]
  | cons x xs ih => simp [subseqs, ← ih, Function.comp_def]

theorem trends_length (q : Query) (evs : List Ty) : (trends q evs).length = cnt q evs := by
  unfold trends cnt
  have h : evs = (evs.zipIdx).map (·.1) := by simp
  conv => rhs; rw [h, ← subseqs_map, List.filter_map, List.length_map]
  rfl

theorem sumTy_append (nodes : List (Ty × Nat)) (t x c : Nat) :
    sumTy (nodes ++ [(t, c)]) x = sumTy nodes x + if t = x then c else 0 := by
  unfold sumTy
  by_cases h : t = x <;> simp [List.filter_append, h]

/-- weight in front of a suffix of the pattern: 1 at the start, else Σ counts of the previous step's type -/
def pw (nodes : List (Ty × Nat)) : Option Ty → Nat
  | none => 1
  | some p => sumTy nodes p

theorem stepW_sumTy (nodes : List (Ty × Nat)) (t : Ty) : ∀ (ss : Query) (prev? : Option Ty),
    (ss.map (·.ty)).Nodup →
    stepW t (pw nodes prev?) ss (ss.map fun s => sumTy nodes s.ty) =
      ss.map fun s => sumTy nodes s.ty + if t = s.ty then countFor nodes t prev? ss else 0 := by
  intro ss
  induction ss with
  | nil => intro _ _; simp [stepW]
  | cons s ss ih =>
    intro prev? hnd
    simp only [List.map_cons, List.nodup_cons] at hnd
    have ih' := ih (some s.ty) hnd.2
    simp only [pw] at ih'
    simp only [List.map_cons, stepW, ih']
    congr 1
    · by_cases he : t = s.ty
      · cases prev? <;> simp [countFor, he, pw]
      · simp [he]
    · apply List.map_congr_left
      intro s' hs'
      by_cases he' : t = s'.ty
      · have hne : t ≠ s.ty := by
          intro h
          apply hnd.1
          rw [← h, he']
          exact List.mem_map_of_mem hs'
        subst he'
        simp [countFor, hne]
      · simp [he']

theorem runW_eq_sumTy (q : Query) (hnd : (q.map (·.ty)).Nodup) : ∀ (evs : List Ty) (nodes : List (Ty × Nat)),
    runW q (q.map fun s => sumTy nodes s.ty) evs = q.map fun s => sumTy (evs.foldl (gretaStep q) nodes) s.ty := by
  intro evs
  induction evs with
  | nil => intro nodes; simp [runW]
  | cons e evs ih =>
    intro nodes
    simp only [runW, List.foldl_cons]
    have h := stepW_sumTy nodes e q none hnd
    simp only [pw] at h
    rw [h]
    have : (q.map fun s => sumTy nodes s.ty + if e = s.ty then countFor nodes e none q else 0) =
        q.map fun s => sumTy (gretaStep q nodes e) s.ty := by
      apply List.map_congr_left
      intro s _
      simp [gretaStep, sumTy_append]
    rw [this]
    exact ih (gretaStep q nodes e)

/-- Σ_{e final} count(e) of the per-event recurrence = the running-sum form -/
theorem gretaFinal_eq_dpCount (q : Query) (hnd : (q.map (·.ty)).Nodup) (evs : List Ty) :
    gretaFinal q evs = dpCount q evs := by
  unfold gretaFinal dpCount gretaCounts
  have h := runW_eq_sumTy q hnd evs []
  have hz : (q.map fun s => sumTy [] s.ty) = q.map fun _ => 0 := by simp [sumTy]
  rw [hz] at h
  rw [h, List.getLast?_map]
  cases q.getLast? <;> simp

end Varpulis.Trend
