import Varpulis.Model.Coord
/-! Lemmas about the coordinator model: placement and failure detection (C33), bookkeeping (C32). -/
namespace Varpulis.Coord

/-! ### lookups -/

theorem getW_some {s : St} {id : WId} {w : Worker} (h : s.getW id = some w) : w ∈ s.workers ∧ w.id = id := by
  unfold St.getW at h
  exact ⟨List.mem_of_find?_eq_some h, by simpa using List.find?_some h⟩

theorem mem_available {s : St} {w : Worker} : w ∈ s.available ↔ w ∈ s.workers ∧ w.isAvailable = true := by
  simp [St.available, List.mem_filter]

/-! ### placement -/

/-- a worker id is a legitimate placement target in `s` -/
def AvailId (s : St) (id : WId) : Prop := ∃ w ∈ s.workers, w.id = id ∧ w.isAvailable = true

theorem selectWorker_avail (ch : Chooser) (hv : ch.Valid) (i : Nat) (s : St) (p : PSpec) (id : WId)
    (h : selectWorker ch i s p = some id) : AvailId s id := by
  have hch : ∀ id, ch i s.available = some id → AvailId s id := by
    intro id hc
    obtain ⟨x, hx, hid⟩ := (hv i s.available).1 id hc
    exact ⟨x, (mem_available.1 hx).1, hid, (mem_available.1 hx).2⟩
  unfold selectWorker at h
  cases ha : p.affinity with
  | none => simp only [ha] at h; exact hch id h
  | some a =>
    simp only [ha] at h
    cases hg : s.getW a with
    | none => simp only [hg] at h; exact hch id h
    | some w =>
      simp only [hg] at h
      by_cases hav : w.isAvailable = true
      · simp only [hav, if_true, Option.some.injEq] at h
        subst h
        exact ⟨w, (getW_some hg).1, (getW_some hg).2, hav⟩
      · simp only [hav] at h; exact hch id h

theorem selectWorker_pinned (ch : Chooser) (i : Nat) (s : St) (p : PSpec) (a : WId) (w : Worker)
    (ha : p.affinity = some a) (hg : s.getW a = some w) (hav : w.isAvailable = true) :
    selectWorker ch i s p = some a := by
  simp [selectWorker, ha, hg, hav]

/-- a task is justified by a pipeline spec of the request -/
def TaskOk (s : St) (p : PSpec) (t : Task) : Prop :=
  t.pipeline = p.name ∧ t.replica ∈ replicaNames p ∧ AvailId s t.worker ∧
  (∀ a w, p.affinity = some a → s.getW a = some w → w.isAvailable = true → t.worker = a)

theorem planReplicas_ok (ch : Chooser) (hv : ch.Valid) (s : St) (p : PSpec) :
    ∀ (names : List Name) (i : Nat) (ts : List Task), (∀ n ∈ names, n ∈ replicaNames p) →
      planReplicas ch s p i names = some ts → ∀ t ∈ ts, TaskOk s p t := by
  intro names
  induction names with
  | nil => intro i ts _ h t ht; simp [planReplicas] at h; subst h; cases ht
  | cons r rs ih =>
    intro i ts hn h t ht
    simp only [planReplicas] at h
    cases hs : selectWorker ch i s p with
    | none => simp [hs] at h
    | some w =>
      simp only [hs] at h
      cases hr : planReplicas ch s p (i + 1) rs with
      | none => simp [hr] at h
      | some ts' =>
        simp only [hr, Option.some.injEq] at h
        subst h
        rcases List.mem_cons.1 ht with rfl | ht'
        · refine ⟨rfl, hn r (List.mem_cons_self), selectWorker_avail ch hv i s p w hs, ?_⟩
          intro a w' ha hg hav
          have := selectWorker_pinned ch i s p a w' ha hg hav
          rw [hs] at this; exact Option.some.inj this
        · exact ih (i + 1) ts' (fun n h' => hn n (List.mem_cons_of_mem _ h')) hr t ht'

theorem planPipes_ok (ch : Chooser) (hv : ch.Valid) (s : St) :
    ∀ (specs : List PSpec) (i : Nat) (ts : List Task),
      planPipes ch s i specs = some ts → ∀ t ∈ ts, ∃ p ∈ specs, TaskOk s p t := by
  intro specs
  induction specs with
  | nil => intro i ts h t ht; simp [planPipes] at h; subst h; cases ht
  | cons p ps ih =>
    intro i ts h t ht
    simp only [planPipes] at h
    cases h1 : planReplicas ch s p i (replicaNames p) with
    | none => simp [h1] at h
    | some t1 =>
      simp only [h1] at h
      cases h2 : planPipes ch s (i + (replicaNames p).length) ps with
      | none => simp [h2] at h
      | some t2 =>
        simp only [h2, Option.some.injEq] at h
        subst h
        rcases List.mem_append.1 ht with h' | h'
        · exact ⟨p, List.mem_cons_self, planReplicas_ok ch hv s p _ i t1 (fun _ h => h) h1 t h'⟩
        · obtain ⟨q, hq, hok⟩ := ih _ t2 h2 t h'
          exact ⟨q, List.mem_cons_of_mem _ hq, hok⟩

theorem planReplicas_some (ch : Chooser) (hv : ch.Valid) (s : St) (p : PSpec) (hne : s.available ≠ []) :
    ∀ (names : List Name) (i : Nat), (planReplicas ch s p i names).isSome = true := by
  have hsel : ∀ i, (selectWorker ch i s p).isSome = true := by
    intro i
    unfold selectWorker
    have hc := (hv i s.available).2 hne
    cases ha : p.affinity with
    | none => simpa using hc
    | some a =>
      cases hg : s.getW a with
      | none => simpa [hg] using hc
      | some w => by_cases hav : w.isAvailable = true <;> simp [hg, hav, hc]
  intro names
  induction names with
  | nil => intro i; rfl
  | cons r rs ih =>
    intro i
    simp only [planReplicas]
    cases hs : selectWorker ch i s p with
    | none => have := hsel i; rw [hs] at this; cases this
    | some w =>
      cases hr : planReplicas ch s p (i + 1) rs with
      | none => have := ih (i + 1); rw [hr] at this; cases this
      | some ts => rfl

theorem planPipes_some (ch : Chooser) (hv : ch.Valid) (s : St) (hne : s.available ≠ []) :
    ∀ (specs : List PSpec) (i : Nat), (planPipes ch s i specs).isSome = true := by
  intro specs
  induction specs with
  | nil => intro i; rfl
  | cons p ps ih =>
    intro i
    simp only [planPipes]
    cases h1 : planReplicas ch s p i (replicaNames p) with
    | none => have := planReplicas_some ch hv s p hne (replicaNames p) i; rw [h1] at this; cases this
    | some t1 =>
      cases h2 : planPipes ch s (i + (replicaNames p).length) ps with
      | none => have := ih (i + (replicaNames p).length); rw [h2] at this; cases this
      | some t2 => rfl

theorem isLeastLoaded_mem {ws : List Worker} {id : WId} (h : isLeastLoaded ws id = true) :
    ∃ x ∈ ws, x.id = id ∧ ∀ y ∈ ws, loadLe x y = true := by
  simp only [isLeastLoaded, List.any_eq_true, Bool.and_eq_true, beq_iff_eq, List.all_eq_true] at h
  obtain ⟨x, hx, hid, hall⟩ := h
  exact ⟨x, hx, hid, hall⟩

/-! ### heartbeat view of one worker under the steps -/

theorem find?_map_upd (ws : List Worker) (id j : WId) (f : Worker → Worker) (hf : ∀ w, (f w).id = w.id) :
    (ws.map fun w => if w.id = j then f w else w).find? (fun w => w.id == id) =
      (ws.find? (fun w => w.id == id)).map (fun w => if w.id = j then f w else w) := by
  induction ws with
  | nil => rfl
  | cons w ws ih =>
    simp only [List.map_cons, List.find?_cons]
    have hid : (if w.id = j then f w else w).id = w.id := by split <;> simp [hf]
    rw [hid]
    cases h : (w.id == id) <;> simp [ih]

theorem getW_updW (s : St) (id j : WId) (f : Worker → Worker) (hf : ∀ w, (f w).id = w.id) :
    (s.updW j f).getW id = (s.getW id).map (fun w => if w.id = j then f w else w) :=
  find?_map_upd s.workers id j f hf

theorem find?_filter_ne (ws : List Worker) (id j : WId) (h : id ≠ j) :
    (ws.filter (fun w => w.id != j)).find? (fun w => w.id == id) = ws.find? (fun w => w.id == id) := by
  induction ws with
  | nil => rfl
  | cons w ws ih =>
    by_cases hj : w.id = j
    · have : (w.id == id) = false := by simp [hj]; exact fun e => h e.symm
      rw [List.find?_cons, this]
      simp [List.filter_cons, hj, ih]
    · simp [List.filter_cons, hj, List.find?_cons, ih]

/-- what failure detection knows about a worker: status and last heartbeat stamp -/
def hbView (s : St) (id : WId) : Option (WStatus × Nat) := (s.getW id).map fun w => (w.status, w.lastHb)

/-- steps that may change the liveness view of worker `id` (sweeps are treated separately) -/
def Step.touches (id : WId) : Step → Bool
  | .register j _ _ _ _ => j == id
  | .heartbeat j _ _ => j == id
  | .deregister j => j == id
  | .markDraining j => j == id
  | .sweep _ => true
  | _ => false

/-- a bookkeeping update: leaves id, status and heartbeat stamp alone -/
def Bk (f : Worker → Worker) : Prop := ∀ w, (f w).id = w.id ∧ (f w).status = w.status ∧ (f w).lastHb = w.lastHb

theorem hbView_updW (s : St) (id j : WId) (f : Worker → Worker) (hf : Bk f) :
    hbView (s.updW j f) id = hbView s id := by
  unfold hbView
  rw [getW_updW s id j f (fun w => (hf w).1)]
  cases s.getW id with
  | none => rfl
  | some w =>
    simp only [Option.map_some]
    by_cases h : w.id = j <;> simp [h, (hf w).2.1, (hf w).2.2]

theorem hbView_updW_other (s : St) (id j : WId) (f : Worker → Worker) (hf : ∀ w, (f w).id = w.id) (hne : j ≠ id) :
    hbView (s.updW j f) id = hbView s id := by
  unfold hbView
  rw [getW_updW s id j f hf]
  cases hi : s.getW id with
  | none => rfl
  | some x =>
    have hx : x.id ≠ j := by rw [(getW_some hi).2]; exact fun e => hne e.symm
    simp [hx]

theorem hbView_workers_eq (s s' : St) (id : WId) (h : s'.workers = s.workers) : hbView s' id = hbView s id := by
  simp [hbView, St.getW, h]

theorem hbView_commitResult (g : GId) (s : St) (r : DeployResult) (id : WId) :
    hbView (commitResult g s r) id = hbView s id := by
  unfold commitResult
  split
  · refine (hbView_updW _ _ _ _ ?_).trans (hbView_workers_eq _ _ _ rfl)
    intro w; exact ⟨rfl, rfl, rfl⟩
  · exact hbView_workers_eq _ _ _ rfl

theorem hbView_foldl_commitResult (g : GId) (rs : List DeployResult) (id : WId) :
    ∀ s, hbView (rs.foldl (commitResult g) s) id = hbView s id := by
  induction rs with
  | nil => intro s; rfl
  | cons r rs ih => intro s; simp only [List.foldl_cons]; rw [ih, hbView_commitResult]

theorem hbView_teardownTask (g : GId) (s : St) (t : Name × WId) (id : WId) :
    hbView (teardownTask g s t) id = hbView s id := by
  unfold teardownTask
  dsimp only
  refine (hbView_workers_eq _ (s.updW t.2 _) _ rfl).trans (hbView_updW _ _ _ _ ?_)
  intro w; exact ⟨rfl, rfl, rfl⟩

theorem hbView_foldl_teardown (g : GId) (ts : List (Name × WId)) (id : WId) :
    ∀ s, hbView (ts.foldl (teardownTask g) s) id = hbView s id := by
  induction ts with
  | nil => intro s; rfl
  | cons t ts ih => intro s; simp only [List.foldl_cons]; rw [ih, hbView_teardownTask]

theorem hbView_applyMigration (s : St) (p : MigPlan) (id : WId) : hbView (applyMigration s p) id = hbView s id := by
  unfold applyMigration
  dsimp only
  refine (hbView_updW _ _ _ _ ?_).trans ((hbView_updW _ _ _ _ ?_).trans (hbView_workers_eq _ _ _ rfl))
  · intro w; exact ⟨rfl, rfl, rfl⟩
  · intro w; exact ⟨rfl, rfl, rfl⟩

/-- **frame**: a step that is neither a sweep nor a registration / heartbeat / deregistration / drain of the
worker leaves its status and heartbeat stamp alone -/
theorem hbView_step_frame (s : St) (st : Step) (id : WId) (h : st.touches id = false) :
    hbView (step s st) id = hbView s id := by
  cases st with
  | register j m c r now =>
    simp only [Step.touches, beq_eq_false_iff_ne, ne_eq] at h
    simp only [step, register, hbView, St.getW, List.find?_cons]
    have : (j == id) = false := by simpa using h
    simp only [this]
    rw [find?_filter_ne _ _ _ (fun e => h e.symm)]
  | heartbeat j n now =>
    simp only [Step.touches, beq_eq_false_iff_ne, ne_eq] at h
    simp only [step, heartbeat]
    cases hg : s.getW j with
    | none => rfl
    | some w =>
      simp only [Option.getD_some]
      exact hbView_updW_other _ _ _ _ (fun _ => rfl) h
  | deregister j =>
    simp only [Step.touches, beq_eq_false_iff_ne, ne_eq] at h
    simp only [step, deregister]
    cases hg : s.getW j with
    | none => rfl
    | some w =>
      simp only [Option.getD_some, hbView, St.getW]
      rw [find?_filter_ne _ _ _ (fun e => h e.symm)]
  | sweep now => simp [Step.touches] at h
  | markDraining j =>
    simp only [Step.touches, beq_eq_false_iff_ne, ne_eq] at h
    simp only [step, markDraining]
    exact hbView_updW_other _ _ _ _ (fun _ => rfl) h
  | commitDeploy g specs rs =>
    simp only [step, commitDeploy]
    rw [hbView_foldl_commitResult]; exact hbView_workers_eq _ _ _ rfl
  | commitTeardown g ts =>
    simp only [step, commitTeardown]
    exact (hbView_workers_eq _ (ts.foldl (teardownTask g) s) _ rfl).trans (hbView_foldl_teardown _ _ _ _)
  | commitMigrate p ok =>
    simp only [step, commitMigrate]
    split
    · exact hbView_applyMigration _ _ _
    · rfl
  | migrateAtomic g n t ok =>
    simp only [step, migrateAtomic]
    split
    · split
      · exact hbView_applyMigration _ _ _
      · rfl
    · rfl

theorem hbView_sweep (s : St) (now : Nat) (id : WId) :
    hbView (sweep s now) id =
      (hbView s id).map fun v => (if v.1 = .ready ∧ now - v.2 > s.timeout then WStatus.unhealthy else v.1, v.2) := by
  unfold hbView sweep St.getW
  simp only
  have : ∀ ws : List Worker, (ws.map (sweepWorker s.timeout now)).find? (fun w => w.id == id) =
      (ws.find? (fun w => w.id == id)).map (sweepWorker s.timeout now) := by
    intro ws
    induction ws with
    | nil => rfl
    | cons w ws ih =>
      have hid : (sweepWorker s.timeout now w).id = w.id := by unfold sweepWorker; split <;> rfl
      simp only [List.map_cons, List.find?_cons, hid]
      cases (w.id == id) <;> simp [ih]
  rw [this]
  cases s.workers.find? (fun w => w.id == id) with
  | none => rfl
  | some w =>
    simp only [Option.map_some, sweepWorker]
    split <;> simp_all

theorem timeout_step (s : St) (st : Step) : (step s st).timeout = s.timeout := by
  have hfold1 : ∀ g (rs : List DeployResult) s, (rs.foldl (commitResult g) s).timeout = s.timeout := by
    intro g rs
    induction rs with
    | nil => intro s; rfl
    | cons r rs ih => intro s; simp only [List.foldl_cons]; rw [ih]; unfold commitResult; split <;> rfl
  have hfold2 : ∀ g (ts : List (Name × WId)) s, (ts.foldl (teardownTask g) s).timeout = s.timeout := by
    intro g ts
    induction ts with
    | nil => intro s; rfl
    | cons t ts ih => intro s; simp only [List.foldl_cons]; rw [ih]; rfl
  cases st with
  | register => rfl
  | heartbeat j n now => simp only [step, heartbeat]; cases s.getW j <;> rfl
  | deregister j => simp only [step, deregister]; cases s.getW j <;> rfl
  | sweep => rfl
  | markDraining => rfl
  | commitDeploy g specs rs => simp only [step, commitDeploy]; rw [hfold1]
  | commitTeardown g ts => simp only [step, commitTeardown]; rw [hfold2]
  | commitMigrate p ok => simp only [step, commitMigrate]; split <;> rfl
  | migrateAtomic g n t ok => simp only [step, migrateAtomic]; split <;> (try split) <;> rfl

end Varpulis.Coord
