import Varpulis.Model.EventFile
import Varpulis.Model.EventPayload
/-! Line-classification lemma for C46: on a line of admissible length `parse_line` and one iteration
of `parse` take the same decision (skip / event / error / panic), whatever the batch time is. -/
namespace Varpulis.EventFile

variable {Ev : Type} (parseEvent : String → Option Ev)

theorem Outcome.map_cons {α β : Type} (f : α → β) (a : α) (o : Outcome (List α)) :
    (o.cons a).map (List.map f) = (o.map (List.map f)).cons (f a) := by
  cases o <;> rfl

/-- both readers, started anywhere in the file with any current batch time -/
theorem stream_eq_preload (lines : List RawLine) (h : ∀ l ∈ lines, l.rawLen ≤ maxLineLength) (batch : Nat) :
    streamWith (parseLine parseEvent) lines
      = (preloadFrom parseEvent batch lines).map (List.map Prod.fst) := by
  induction lines generalizing batch with
  | nil => rfl
  | cons l ls ih =>
    have hl : ¬ maxLineLength < l.rawLen := Nat.not_lt.mpr (h l List.mem_cons_self)
    have ih' := fun b => ih (fun x hx => h x (List.mem_cons_of_mem _ hx)) b
    simp only [streamWith, hl, if_false, parseLine, preloadFrom]
    by_cases hskip : ((trimL l.text.toList).isEmpty || starts (trimL l.text.toList) "#" || starts (trimL l.text.toList) "//") = true
    · simp only [hskip, if_true]; exact ih' batch
    · simp only [hskip, if_false, Bool.false_eq_true]
      by_cases hb : starts (trimL l.text.toList) "BATCH" = true
      · simp only [hb, if_true]
        cases hbt : batchTime (trimL l.text.toList) with
        | none => rfl
        | some o => cases o with
          | none => exact ih' batch
          | some n => exact ih' n
      · simp only [hb, if_false, Bool.false_eq_true]
        by_cases hat : starts (trimL l.text.toList) "@" = true
        · simp only [hat, if_true]
          cases parseTimingPrefix (trimL l.text.toList) with
          | reject => rfl
          | panic => rfl
          | ok p =>
            cases hp : parseEvent (String.ofList p.2) with
            | none => simp [hp]; rfl
            | some e => simp only [hp]; rw [ih' batch, Outcome.map_cons]
        · simp only [hat, if_false, Bool.false_eq_true]
          cases hp : parseEvent (String.ofList (trimL l.text.toList)) with
          | none => simp [hp]; rfl
          | some e => simp only [hp]; rw [ih' batch, Outcome.map_cons]

/-! ### the text handed to the payload parser -/

/-- what a reader hands to the payload parser for one (trimmed) line, independent of the parser:
`ok none` = the line is skipped, `ok (some text)` = exactly this text is parsed, `reject` = the
line is rejected before any payload is parsed. Mirrors the common prefix of one iteration of
`parse` and of `parse_stream_line`. -/
def linePayload (line0 : String) : Outcome (Option (List Char)) :=
  let line := trimL line0.toList
  if line.isEmpty || starts line "#" || starts line "//" then .ok none
  else if starts line "BATCH" then
    match batchTime line with
    | some _ => .ok none
    | none => .reject
  else
    match (if starts line "@" then parseTimingPrefix line else .ok (0, line)) with
    | .ok (_, evl) => .ok (some evl)
    | .reject => .reject
    | .panic => .panic

/-- the batch time after a line (only `BATCH n` changes it) -/
def nextBatch (batch : Nat) (line0 : String) : Nat :=
  let line := trimL line0.toList
  if line.isEmpty || starts line "#" || starts line "//" then batch
  else if starts line "BATCH" then
    match batchTime line with
    | some (some n) => n
    | _ => batch
  else batch

/-- the time offset the preloading reader attaches to the event of a line -/
def lineOffset (batch : Nat) (line0 : String) : Nat :=
  let line := trimL line0.toList
  if starts line "@" then
    match parseTimingPrefix line with
    | .ok (off, _) => off
    | _ => batch
  else batch

/-- `parse_stream_line` consults the payload parser only on `linePayload` -/
theorem parseLine_factors (t : String) :
    parseLine parseEvent t = match linePayload t with
      | .ok none => .ok none
      | .ok (some evl) => (match parseEvent (String.ofList evl) with | some e => .ok (some e) | none => .reject)
      | .reject => .reject
      | .panic => .panic := by
  simp only [parseLine, linePayload]
  split
  · rfl
  · split
    · cases batchTime (trimL t.toList) <;> rfl
    · by_cases hat : starts (trimL t.toList) "@" = true
      · simp only [hat, if_true]
        cases parseTimingPrefix (trimL t.toList) with
        | ok p => rfl
        | reject => rfl
        | panic => rfl
      · simp only [hat, if_false, Bool.false_eq_true]
        cases parseEvent (String.ofList (trimL t.toList)) <;> rfl

/-- one iteration of `parse` consults the payload parser only on the same `linePayload` -/
theorem preloadFrom_factors (batch : Nat) (l : RawLine) (ls : List RawLine) :
    preloadFrom parseEvent batch (l :: ls) = match linePayload l.text with
      | .ok none => preloadFrom parseEvent (nextBatch batch l.text) ls
      | .ok (some evl) => (match parseEvent (String.ofList evl) with
          | some e => (preloadFrom parseEvent batch ls).cons (e, lineOffset batch l.text)
          | none => .reject)
      | .reject => .reject
      | .panic => .panic := by
  simp only [preloadFrom, linePayload, nextBatch, lineOffset]
  split
  · rfl
  · split
    · rename_i hb
      cases hbt : batchTime (trimL l.text.toList) with
      | none => rfl
      | some o => cases o <;> rfl
    · by_cases hat : starts (trimL l.text.toList) "@" = true
      · simp only [hat, if_true]
        cases parseTimingPrefix (trimL l.text.toList) with
        | ok p => rfl
        | reject => rfl
        | panic => rfl
      · simp only [hat, if_false, Bool.false_eq_true]
        cases parseEvent (String.ofList (trimL l.text.toList)) <;> rfl
end Varpulis.EventFile
