import Varpulis.Model.EventFile
/-! Line-classification lemma for C46: on a line of admissible length `parse_line` and one iteration
of `parse` take the same decision (skip / event / error / panic), whatever the batch time is. -/
namespace Varpulis.EventFile

variable {Ev : Type} (parseEvent : String → Option Ev)

theorem Outcome.map_cons {α β : Type} (f : α → β) (a : α) (o : Outcome (List α)) :
    (o.cons a).map (List.map f) = (o.map (List.map f)).cons (f a) := by
  cases o <;> rfl

/-- both readers, started anywhere in the file with any current batch time -/
theorem stream_eq_preload (lines : List RawLine) (h : ∀ l ∈ lines, l.rawLen ≤ maxLineLength) (batch : Nat) :
    streamWith (parseLine parseEvent) lines
      = (preloadFrom parseEvent batch lines).map (List.map Prod.fst) := by
  induction lines generalizing batch with
  | nil => rfl
  | cons l ls ih =>
    have hl : ¬ maxLineLength < l.rawLen := Nat.not_lt.mpr (h l List.mem_cons_self)
    have ih' := fun b => ih (fun x hx => h x (List.mem_cons_of_mem _ hx)) b
    simp only [streamWith, hl, if_false, parseLine, preloadFrom]
    by_cases hskip : ((trimL l.text.toList).isEmpty || starts (trimL l.text.toList) "#" || starts (trimL l.text.toList) "//") = true
    · simp only [hskip, if_true]; exact ih' batch
    · simp only [hskip, if_false, Bool.false_eq_true]
      by_cases hb : starts (trimL l.text.toList) "BATCH" = true
      · simp only [hb, if_true]
        cases hbt : batchTime (trimL l.text.toList) with
        | none => rfl
        | some o => cases o with
          | none => exact ih' batch
          | some n => exact ih' n
      · simp only [hb, if_false, Bool.false_eq_true]
        by_cases hat : starts (trimL l.text.toList) "@" = true
        · simp only [hat, if_true]
          cases parseTimingPrefix (trimL l.text.toList) with
          | reject => rfl
          | panic => rfl
          | ok p =>
            cases hp : parseEvent (String.ofList p.2) with
            | none => simp [hp]; rfl
            | some e => simp only [hp]; rw [ih' batch, Outcome.map_cons]
        · simp only [hat, if_false, Bool.false_eq_true]
          cases hp : parseEvent (String.ofList (trimL l.text.toList)) with
          | none => simp [hp]; rfl
          | some e => simp only [hp]; rw [ih' batch, Outcome.map_cons]

end Varpulis.EventFile
