import Varpulis.Model.Ctx
/-! Lemmas about M-CTX (Model/Ctx.lean): per-edge delivery invariant, blocking vs try_send,
completeness of the successor function, the quiescent-checkpoint invariant. -/
namespace Varpulis.Ctx
variable {σ ε τ : Type}


theorem enq_snoc (l : List (Obs ε)) (o : Obs ε) (p : Src) (q : Nat) : enq (l ++ [o]) p q = enq l p q ++ (enqOf p q o).toList := by
  simp only [enq, List.filterMap_append, List.filterMap_cons, List.filterMap_nil]; cases enqOf p q o <;> rfl
theorem cons_snoc (l : List (Obs ε)) (o : Obs ε) (p : Src) (q : Nat) : cons (l ++ [o]) p q = cons l p q ++ (consOf p q o).toList := by
  simp only [cons, List.filterMap_append, List.filterMap_cons, List.filterMap_nil]; cases consOf p q o <;> rfl
theorem proj_snoc (p : Src) (l : List (Msg ε)) (m : Msg ε) : proj p (l ++ [m]) = proj p l ++ (projOf p m).toList := by
  simp only [proj, List.filterMap_append, List.filterMap_cons, List.filterMap_nil]; cases projOf p m <;> rfl
theorem proj_cons (p : Src) (l : List (Msg ε)) (m : Msg ε) : proj p (m :: l) = (projOf p m).toList ++ proj p l := by
  simp only [proj, List.filterMap_cons]; cases projOf p m <;> rfl

def EdgeInv (s : St σ ε) : Prop := ∀ p q, cons s.log p q ++ proj p (s.inbox q) = enq s.log p q

theorem edgeInv_step (net : Net σ ε) (s s' : St σ ε) (l : Label) (h : EdgeInv s) (hs : step net s l = some s') : EdgeInv s' := by
  intro p q
  have hpq := h p q
  cases l with
  | feed =>
    simp only [step] at hs
    split at hs
    · simp at hs
    · rename_i e rest hto
      split at hs
      · injection hs with hs; subst hs
        simp only [enq_snoc, cons_snoc, consOf, enqOf]
        by_cases hq : q = (tgt net e).getD net.dflt
        · subst hq
          simp only [upd_same, proj_snoc, projOf]
          by_cases hp : p = .ingress
          · subst hp; simp [← hpq]
          · have : ¬ (Src.ingress = p) := fun h => hp h.symm
            simp [hp, this, hpq]
        · rw [upd_other _ _ _ _ hq]
          have : ¬ ((tgt net e).getD net.dflt = q) := fun h => hq h.symm
          simp [this, hpq]
      · injection hs with hs; subst hs
        simp [enq_snoc, cons_snoc, enqOf, consOf, hpq]
  | recv c =>
    simp only [step] at hs
    split at hs
    · rename_i hc
      split at hs
      · simp at hs
      · rename_i src e rest hin
        injection hs with hs; subst hs
        simp only [enq_snoc, cons_snoc, consOf, enqOf]
        by_cases hq : q = c
        · subst hq
          rw [hin, proj_cons] at hpq
          simp only [upd_same, projOf] at *
          by_cases hp : src = p
          · subst hp; simpa using hpq
          · simpa [hp] using hpq
        · rw [upd_other _ _ _ _ hq]
          have : ¬ (c = q) := fun h => hq h.symm
          simp [this, hpq]
      · rename_i k rest hin
        injection hs with hs; subst hs
        simp only [enq_snoc, cons_snoc, consOf, enqOf]
        by_cases hq : q = c
        · subst hq
          rw [hin, proj_cons] at hpq
          simpa [projOf] using hpq
        · rw [upd_other _ _ _ _ hq]; simpa using hpq
    · simp at hs
  | fwd c =>
    simp only [step] at hs
    split at hs
    · split at hs
      · simp at hs
      · rename_i e rest hpe
        split at hs
        · injection hs with hs; subst hs
          simp [enq_snoc, cons_snoc, consOf, enqOf, hpq]
        · rename_i q' htg
          split at hs
          · injection hs with hs; subst hs
            simp only [enq_snoc, cons_snoc, consOf, enqOf]
            by_cases hq : q = q'
            · subst hq
              simp only [upd_same, proj_snoc, projOf]
              by_cases hp : p = .ctx c
              · subst hp; simp [← hpq]
              · have : ¬ (Src.ctx c = p) := fun h => hp h.symm
                simp [hp, this, hpq]
            · rw [upd_other _ _ _ _ hq]
              have : ¬ (q' = q) := fun h => hq h.symm
              simp [this, hpq]
          · split at hs
            · simp at hs
            · injection hs with hs; subst hs
              simp [enq_snoc, cons_snoc, consOf, enqOf, hpq]
    · simp at hs
  | start =>
    simp only [step] at hs
    split at hs
    · simp at hs
    · injection hs with hs; subst hs
      simp [enq_snoc, cons_snoc, consOf, enqOf, hpq]
  | inject c =>
    simp only [step] at hs
    split at hs
    · simp at hs
    · rename_i pd hpd
      split at hs
      · split at hs
        · injection hs with hs; subst hs
          simp only [enq_snoc, cons_snoc, consOf, enqOf]
          by_cases hq : q = c
          · subst hq
            simp [proj_snoc, projOf, hpq]
          · rw [upd_other _ _ _ _ hq]; simp [hpq]
        · injection hs with hs; subst hs
          simp [enq_snoc, cons_snoc, consOf, enqOf, hpq]
      · simp at hs
  | collect =>
    simp only [step] at hs
    split at hs
    · simp at hs
    · split at hs
      · injection hs with hs; subst hs
        simp [enq_snoc, cons_snoc, consOf, enqOf, hpq]
      · split at hs
        · split at hs
          · injection hs with hs; subst hs
            simp [enq_snoc, cons_snoc, consOf, enqOf, hpq]
          · injection hs with hs; subst hs
            simp [enq_snoc, cons_snoc, consOf, enqOf, hpq]
        · injection hs with hs; subst hs
          simp [enq_snoc, cons_snoc, consOf, enqOf, hpq]


theorem sent_snoc (l : List (Obs ε)) (o : Obs ε) (c q : Nat) : sent (l ++ [o]) c q = sent l c q ++ (sentOf c q o).toList := by
  simp only [sent, List.filterMap_append, List.filterMap_cons, List.filterMap_nil]; cases sentOf c q o <;> rfl
theorem drops_snoc (l : List (Obs ε)) (o : Obs ε) (c q : Nat) : drops (l ++ [o]) c q = drops l c q ++ (dropOf c q o).toList := by
  simp only [drops, List.filterMap_append, List.filterMap_cons, List.filterMap_nil]; cases dropOf c q o <;> rfl

/-- every step appends exactly one observation -/
theorem step_log (net : Net σ ε) (s s' : St σ ε) (l : Label) (hs : step net s l = some s') :
    ∃ o, s'.log = s.log ++ [o] := by
  cases l <;> simp only [step] at hs <;> (repeat' split at hs) <;>
    first | (simp at hs; done) | (injection hs with hs; subst hs; exact ⟨_, rfl⟩)

/-- a failed forward happens only in try_send mode -/
theorem step_obs_blocking (net : Net σ ε) (s s' : St σ ε) (l : Label) (hb : net.blocking = true)
    (hs : step net s l = some s') : ∀ c e q, s'.log ≠ s.log ++ [Obs.fwd c e (some q) false] := by
  intro c e q
  cases l <;> simp only [step] at hs <;> (repeat' split at hs) <;>
    first | (simp at hs; done) | (injection hs with hs; subst hs; simp) | (simp_all)

/-- what one observation contributes: an attempted forward is either enqueued or dropped -/
theorem sentOf_split (c q : Nat) (o : Obs ε) :
    ((sentOf c q o).toList).Perm ((enqOf (.ctx c) q o).toList ++ (dropOf c q o).toList) := by
  cases o with
  | fwd c' e dst ok =>
    cases dst with
    | none => simp [sentOf, enqOf, dropOf]
    | some q' =>
      by_cases h : c' = c ∧ q' = q
      · obtain ⟨h1, h2⟩ := h; subst h1; subst h2
        cases ok <;> simp [sentOf, enqOf, dropOf]
      · have h' : ¬ (c = c' ∧ q' = q) := fun h' => h ⟨h'.1.symm, h'.2⟩
        cases ok <;> simp [sentOf, enqOf, dropOf, h, h']
  | fed e q' ok => cases ok <;> simp [sentOf, enqOf, dropOf]
  | _ => simp [sentOf, enqOf, dropOf]

theorem sent_perm (log : List (Obs ε)) (c q : Nat) :
    (sent log c q).Perm (enq log (.ctx c) q ++ drops log c q) := by
  induction log with
  | nil => simp [sent, enq, drops]
  | cons o l ih =>
    have hs : sent (o :: l) c q = (sentOf c q o).toList ++ sent l c q := by
      simp only [sent, List.filterMap_cons]; cases sentOf c q o <;> rfl
    have he : enq (o :: l) (.ctx c) q = (enqOf (.ctx c) q o).toList ++ enq l (.ctx c) q := by
      simp only [enq, List.filterMap_cons]; cases enqOf (.ctx c) q o <;> rfl
    have hd : drops (o :: l) c q = (dropOf c q o).toList ++ drops l c q := by
      simp only [drops, List.filterMap_cons]; cases dropOf c q o <;> rfl
    rw [hs, he, hd]
    refine (List.Perm.append (sentOf_split c q o) ih).trans ?_
    simp only [List.append_assoc]
    apply List.Perm.append_left
    rw [← List.append_assoc, ← List.append_assoc]
    apply List.Perm.append_right
    exact List.perm_append_comm

theorem reach_edgeInv (net : Net σ ε) (s0 s : St σ ε) (h0 : EdgeInv s0) (h : Reach net s0 s) : EdgeInv s := by
  induction h with
  | refl => exact h0
  | tail l _ hs ih => exact edgeInv_step net _ _ l ih hs

theorem edgeInv_init (inputs : List ε) (σ0 : Nat → σ) : EdgeInv (init inputs σ0) := by
  intro p q; simp [init, cons, enq, proj]

/-- no forwarding attempt ever failed -/
def NoDrop (log : List (Obs ε)) : Prop := ∀ o ∈ log, ∀ c e q, o ≠ Obs.fwd c e (some q) false

theorem reach_noDrop (net : Net σ ε) (hb : net.blocking = true) (s0 s : St σ ε) (h0 : NoDrop s0.log)
    (h : Reach net s0 s) : NoDrop s.log := by
  induction h with
  | refl => exact h0
  | tail l _ hs ih =>
    obtain ⟨o, ho⟩ := step_log net _ _ l hs
    intro o' hmem c e q
    rw [ho] at hmem
    rcases List.mem_append.1 hmem with hm | hm
    · exact ih o' hm c e q
    · simp at hm; subst hm
      intro heq; subst heq
      exact step_obs_blocking net _ _ l hb hs c e q ho

theorem sent_eq_enq_of_noDrop (log : List (Obs ε)) (c q : Nat) (h : NoDrop log) :
    sent log c q = enq log (.ctx c) q := by
  induction log with
  | nil => rfl
  | cons o l ih =>
    have hl : NoDrop l := fun o' hm => h o' (List.mem_cons_of_mem _ hm)
    have ho := h o (List.mem_cons_self ..)
    simp only [sent, enq, List.filterMap_cons] at ih ⊢
    have : sentOf c q o = enqOf (.ctx c) q o := by
      cases o with
      | fwd c' e dst ok =>
        cases dst with
        | none => rfl
        | some q' =>
          cases ok with
          | false => exact absurd rfl (ho c' e q')
          | true =>
            by_cases h1 : c' = c ∧ q' = q
            · obtain ⟨h1, h2⟩ := h1; subst h1; subst h2; simp [sentOf, enqOf]
            · have h' : ¬ (c = c' ∧ q' = q) := fun h' => h1 ⟨h'.1.symm, h'.2⟩
              simp [sentOf, enqOf, h1, h']
      | fed e q' ok => cases ok <;> simp [sentOf, enqOf]
      | _ => simp [sentOf, enqOf]
    rw [this, ih hl]

theorem drops_nil_of_noDrop (log : List (Obs ε)) (c q : Nat) (h : NoDrop log) : drops log c q = [] := by
  induction log with
  | nil => rfl
  | cons o l ih =>
    have hl : NoDrop l := fun o' hm => h o' (List.mem_cons_of_mem _ hm)
    have ho := h o (List.mem_cons_self ..)
    simp only [drops, List.filterMap_cons] at ih ⊢
    have : dropOf c q o = none := by
      cases o with
      | fwd c' e dst ok =>
        cases dst with
        | none => rfl
        | some q' =>
          cases ok with
          | false => exact absurd rfl (ho c' e q')
          | true => rfl
      | _ => rfl
    rw [this]; exact ih hl

theorem next_sound (net : Net σ ε) (s s' : St σ ε) (l : Label) (h : (l, s') ∈ next net s) : Step net s l s' := by
  simp only [next, List.mem_filterMap] at h
  obtain ⟨l', _, hl⟩ := h
  cases hst : step net s l' with
  | none => simp [hst] at hl
  | some s'' =>
    simp [hst] at hl
    obtain ⟨h1, h2⟩ := hl; subst h1; subst h2; exact hst

theorem next_complete (net : Net σ ε) (s s' : St σ ε) (l : Label) (h : Step net s l s') : (l, s') ∈ next net s := by
  unfold Step at h
  simp only [next, List.mem_filterMap]
  refine ⟨l, ?_, by simp [h]⟩
  simp only [candidates, List.mem_append, List.mem_flatMap, List.mem_range]
  cases l with
  | feed => simp
  | start => simp
  | collect => simp
  | recv c =>
    left; right
    simp only [step] at h
    split at h
    · rename_i hc; exact ⟨c, hc.1, by simp⟩
    · simp at h
  | fwd c =>
    left; right
    simp only [step] at h
    split at h
    · rename_i hc; exact ⟨c, hc, by simp⟩
    · simp at h
  | inject c =>
    right
    simp only [step] at h
    split at h
    · simp at h
    · rename_i p hp
      split at h
      · rename_i hc; simp [hp, hc]
      · simp at h

/-- a snapshot taken while nothing has moved since `s1` -/
def GoodSnap (net : Net σ ε) (s1 : St σ ε) (sn : Snap σ ε) : Prop :=
  sn.ctx < net.n ∧ sn.eng = s1.eng sn.ctx ∧
  (∀ p q, enq sn.hist p q = enq s1.log p q) ∧ (∀ p q, cons sn.hist p q = cons s1.log p q)

structure PhaseInv (net : Net σ ε) (s1 s : St σ ε) : Prop where
  todo : s.todo = s1.todo
  out : s.out = s1.out
  eng : ∀ c, s.eng c = s1.eng c
  pend : ∀ c, c < net.n → s.pend c = []
  bars : ∀ c, c < net.n → ∀ m ∈ s.inbox c, ∃ k, m = Msg.bar k
  enq : ∀ p q, enq s.log p q = enq s1.log p q
  cons : ∀ p q, cons s.log p q = cons s1.log p q
  acks : ∀ a ∈ s.acks, GoodSnap net s1 a.2
  got : ∀ p, s.pending = some p → ∀ sn ∈ p.got, GoodSnap net s1 sn
  done : ∃ new, s.done = s1.done ++ new ∧ ∀ ck ∈ new, ∀ sn ∈ ck.2, GoodSnap net s1 sn

theorem phaseInv_refl (net : Net σ ε) (s1 : St σ ε) (hq : Quiescent net s1) (hp : s1.pending = none)
    (ha : s1.acks = []) : PhaseInv net s1 s1 where
  todo := rfl
  out := rfl
  eng := fun _ => rfl
  pend := fun c hc => (hq c hc).2
  bars := fun c hc m hm => by rw [(hq c hc).1] at hm; simp at hm
  enq := fun _ _ => rfl
  cons := fun _ _ => rfl
  acks := fun a h => by rw [ha] at h; simp at h
  got := fun p h => by rw [hp] at h; simp at h
  done := ⟨[], by simp, by simp⟩

theorem phaseInv_step (net : Net σ ε) (s1 s s' : St σ ε) (l : Label) (hl : l ≠ .feed ∨ s1.todo = [])
    (h : PhaseInv net s1 s) (hs : step net s l = some s') : PhaseInv net s1 s' := by
  obtain ⟨htodo, hout, heng, hpend, hbars, henq, hcons, hacks, hgot, hdone⟩ := h
  cases l with
  | feed =>
    rcases hl with hl | hl
    · exact absurd rfl hl
    · simp only [step] at hs
      rw [htodo, hl] at hs; simp at hs
  | recv c =>
    simp only [step] at hs
    split at hs
    · rename_i hc
      split at hs
      · simp at hs
      · rename_i src e rest hin
        have := hbars c hc.1 (Msg.ev src e) (by rw [hin]; simp)
        obtain ⟨k, hk⟩ := this; cases hk
      · rename_i k rest hin
        injection hs with hs; subst hs
        refine ⟨htodo, hout, heng, hpend, ?_, ?_, ?_, ?_, hgot, hdone⟩
        · intro c' hc' m hm
          by_cases hcc : c' = c
          · subst hcc; simp only [upd_same] at hm
            exact hbars c' hc' m (by rw [hin]; exact List.mem_cons_of_mem _ hm)
          · simp only [upd_other _ _ _ _ hcc] at hm; exact hbars c' hc' m hm
        · intro p q; simp [enq_snoc, enqOf, henq]
        · intro p q; simp [cons_snoc, consOf, hcons]
        · intro a ha
          rcases List.mem_append.1 ha with ha | ha
          · exact hacks a ha
          · simp at ha; subst ha
            exact ⟨hc.1, heng c, henq, hcons⟩
    · simp at hs
  | fwd c =>
    simp only [step] at hs
    split at hs
    · rename_i hc
      rw [hpend c hc] at hs; simp at hs
    · simp at hs
  | start =>
    simp only [step] at hs
    split at hs
    · simp at hs
    · injection hs with hs; subst hs
      refine ⟨htodo, hout, heng, hpend, hbars, ?_, ?_, hacks, ?_, hdone⟩
      · intro p q; simp [enq_snoc, enqOf, henq]
      · intro p q; simp [cons_snoc, consOf, hcons]
      · intro p hp sn hsn; simp at hp; subst hp; simp at hsn
  | inject c =>
    simp only [step] at hs
    split at hs
    · simp at hs
    · rename_i pd hpd
      split at hs
      · split at hs
        · injection hs with hs; subst hs
          refine ⟨htodo, hout, heng, hpend, ?_, ?_, ?_, hacks, ?_, hdone⟩
          · intro c' hc' m hm
            by_cases hcc : c' = c
            · subst hcc; simp only [upd_same] at hm
              rcases List.mem_append.1 hm with hm | hm
              · exact hbars c' hc' m hm
              · simp at hm; exact ⟨_, hm⟩
            · simp only [upd_other _ _ _ _ hcc] at hm; exact hbars c' hc' m hm
          · intro p q; simp [enq_snoc, enqOf, henq]
          · intro p q; simp [cons_snoc, consOf, hcons]
          · intro p hp sn hsn; simp at hp; subst hp; exact hgot pd hpd sn hsn
        · injection hs with hs; subst hs
          refine ⟨htodo, hout, heng, hpend, hbars, ?_, ?_, hacks, ?_, hdone⟩
          · intro p q; simp [enq_snoc, enqOf, henq]
          · intro p q; simp [cons_snoc, consOf, hcons]
          · intro p hp sn hsn; simp at hp; subst hp; exact hgot pd hpd sn hsn
      · simp at hs
  | collect =>
    simp only [step] at hs
    split at hs
    · simp at hs
    · rename_i k sn rest hak
      have hsn : GoodSnap net s1 sn := hacks (k, sn) (by rw [hak]; simp)
      have hrest : ∀ a ∈ rest, GoodSnap net s1 a.2 := fun a ha => hacks a (by rw [hak]; exact List.mem_cons_of_mem _ ha)
      split at hs
      · injection hs with hs; subst hs
        refine ⟨htodo, hout, heng, hpend, hbars, ?_, ?_, hrest, ?_, hdone⟩
        · intro p q; simp [enq_snoc, enqOf, henq]
        · intro p q; simp [cons_snoc, consOf, hcons]
        · intro p hp; rename_i hnone; simp [hnone] at hp
      · rename_i pd hpd
        have hgot' : ∀ x ∈ pd.got.filter (fun x => x.ctx != sn.ctx) ++ [sn], GoodSnap net s1 x := by
          intro x hx
          rcases List.mem_append.1 hx with hx | hx
          · exact hgot pd hpd x (List.mem_filter.1 hx).1
          · simp at hx; subst hx; exact hsn
        split at hs
        · split at hs
          · injection hs with hs; subst hs
            refine ⟨htodo, hout, heng, hpend, hbars, ?_, ?_, hrest, ?_, ?_⟩
            · intro p q; simp [enq_snoc, enqOf, henq]
            · intro p q; simp [cons_snoc, consOf, hcons]
            · intro p hp; simp at hp
            · obtain ⟨new, hn1, hn2⟩ := hdone
              refine ⟨new ++ [(k, pd.got.filter (fun x => x.ctx != sn.ctx) ++ [sn])], by simp [hn1], ?_⟩
              intro ck hck
              rcases List.mem_append.1 hck with hck | hck
              · exact hn2 ck hck
              · simp at hck; subst hck; exact hgot'
          · injection hs with hs; subst hs
            refine ⟨htodo, hout, heng, hpend, hbars, ?_, ?_, hrest, ?_, hdone⟩
            · intro p q; simp [enq_snoc, enqOf, henq]
            · intro p q; simp [cons_snoc, consOf, hcons]
            · intro p hp sn' hsn'; simp at hp; subst hp; exact hgot' sn' hsn'
        · injection hs with hs; subst hs
          refine ⟨htodo, hout, heng, hpend, hbars, ?_, ?_, hrest, ?_, hdone⟩
          · intro p q; simp [enq_snoc, enqOf, henq]
          · intro p q; simp [cons_snoc, consOf, hcons]
          · intro p hp sn' hsn'; exact hgot p hp sn' hsn'

theorem phaseInv_run (net : Net σ ε) (s1 : St σ ε) (labels : List Label)
    (hnf : Label.feed ∉ labels ∨ s1.todo = []) :
    ∀ s s', PhaseInv net s1 s → runL net s labels = some s' → PhaseInv net s1 s' := by
  induction labels with
  | nil => intro s s' h hr; simp [runL] at hr; subst hr; exact h
  | cons l ls ih =>
    intro s s' h hr
    simp only [runL] at hr
    split at hr
    · rename_i s'' hst
      have hl : l ≠ .feed ∨ s1.todo = [] := hnf.imp (fun hnf hh => hnf (by simp [hh])) id
      exact ih (hnf.imp (fun hnf hh => hnf (List.mem_cons_of_mem _ hh)) id) s'' s'
        (phaseInv_step net s1 s s'' l hl h hst) hr
    · simp at hr

theorem goodSnaps_consistent (net : Net σ ε) (s1 : St σ ε) (he : EdgeInv s1) (hq : Quiescent net s1)
    (parts : List (Snap σ ε)) (h : ∀ sn ∈ parts, GoodSnap net s1 sn) : CutConsistent parts := by
  intro a ha b hb
  obtain ⟨_, _, hea, _⟩ := h a ha
  obtain ⟨hbn, _, _, hcb⟩ := h b hb
  rw [hea, hcb, ← he (.ctx a.ctx) b.ctx, (hq b.ctx hbn).1]
  simp [proj]

theorem phaseInv_reach (net : Net σ ε) (s1 s : St σ ε) (ht : s1.todo = []) (h1 : PhaseInv net s1 s1)
    (h : Reach net s1 s) : PhaseInv net s1 s := by
  induction h with
  | refl => exact h1
  | tail l _ hs ih => exact phaseInv_step net s1 _ _ l (Or.inr ht) ih hs

theorem runL_reach (net : Net σ ε) (s0 : St σ ε) (ls : List Label) :
    ∀ s s', Reach net s0 s → runL net s ls = some s' → Reach net s0 s' := by
  induction ls with
  | nil => intro s s' h hr; simp [runL] at hr; subst hr; exact h
  | cons l ls ih =>
    intro s s' h hr
    simp only [runL] at hr
    split at hr
    · rename_i s'' hst; exact ih s'' s' (Reach.tail l h hst) hr
    · simp at hr

def chk (o : Option (St σ ε)) (p : St σ ε → Bool) : Bool :=
  match o with
  | some s => p s
  | none => false

theorem witness (net : Net σ ε) (s0 : St σ ε) (ls : List Label) (p : St σ ε → Bool)
    (h : chk (runL net s0 ls) p = true) : ∃ s, Reach net s0 s ∧ p s = true := by
  unfold chk at h
  split at h
  · rename_i s hs; exact ⟨s, runL_reach net s0 ls s0 s Reach.refl hs, h⟩
  · simp at h

instance [DecidableEq ε] (parts : List (Snap σ ε)) : Decidable (CutConsistent parts) := by
  unfold CutConsistent; infer_instance

/-! ## concrete networks for the witnesses (events are numbers; the tens digit is the type) -/

/-- two contexts in a row: inputs `1..9` go to context 0, whose stream emits `e+10`; that is
consumed by a stream of context 1, which emits `e+10` again (not routed further) -/
def chain2 (cap : Nat) (blocking : Bool) : Net Unit Nat :=
  { n := 2, cap := cap, blocking := blocking, dflt := 0,
    route := fun e => if e < 10 then some 0 else if e < 20 then some 1 else none,
    proc := fun _ _ e => ((), [e + 10]) }

/-- two contexts in a cycle: inputs and the stream of context 1 are consumed in context 0
(which reacts only to inputs), the stream of context 0 in context 1 -/
def cycle2 (cap : Nat) (blocking : Bool) : Net Unit Nat :=
  { n := 2, cap := cap, blocking := blocking, dflt := 0,
    route := fun e => if e < 10 then some 0 else if e < 20 then some 1 else if e < 30 then some 0 else none,
    proc := fun c _ e => ((), if c = 0 then (if e < 10 then [e + 10] else []) else [e + 10]) }

/-! ## stream programs: the network computes the Kahn meaning -/

theorem kahn_unique (P : Prog τ ε) (hacyc : ∀ s ∈ P.streams, s.src < s.name) (inputs : List ε)
    (O O' : Nat → List ε) (h : Kahn P inputs O) (h' : Kahn P inputs O') : ∀ t, O t = O' t := by
  intro t
  induction t using Nat.strongRecOn with
  | _ t ih =>
    by_cases hs : ∃ s ∈ P.streams, s.name = t
    · obtain ⟨s, hs, hn⟩ := hs
      subst hn
      rw [h.2 s hs, h'.2 s hs, ih s.src (hacyc s hs)]
    · have hno : ∀ s ∈ P.streams, s.name ≠ t := fun s hs' hn => hs ⟨s, hs', hn⟩
      rw [h.1 t hno, h'.1 t hno]

theorem engSt_snoc (net : Net σ ε) (c : Nat) (s0 : σ) (xs : List ε) (x : ε) :
    engSt net c s0 (xs ++ [x]) = (net.proc c (engSt net c s0 xs) x).1 := by
  simp [engSt, List.foldl_append]

theorem engRun_snoc (net : Net σ ε) (c : Nat) (xs : List ε) (x : ε) : ∀ s0 : σ,
    engRun net c s0 (xs ++ [x]) = engRun net c s0 xs ++ (net.proc c (engSt net c s0 xs) x).2 := by
  induction xs with
  | nil => intro s0; simp [engRun, engSt]
  | cons y ys ih => intro s0; simp [engRun, engSt, ih, List.append_assoc]

def rcvdOf (c : Nat) : Obs ε → Option ε
  | .got q _ e => if q = c then some e else none
  | _ => none
def allOutOf : Obs ε → Option ε
  | .fwd _ e _ _ => some e
  | _ => none
def fedOkOf : Obs ε → Option ε
  | .fed e _ true => some e
  | _ => none

/-- everything context `c` took from its inbox, in order -/
def rcvd (log : List (Obs ε)) (c : Nat) : List ε := log.filterMap (rcvdOf c)
def allOut (log : List (Obs ε)) : List ε := log.filterMap allOutOf
def fedOk (log : List (Obs ε)) : List ε := log.filterMap fedOkOf

theorem fm_snoc {α β : Type} (f : α → Option β) (l : List α) (o : α) :
    (l ++ [o]).filterMap f = l.filterMap f ++ (f o).toList := by
  simp only [List.filterMap_append, List.filterMap_cons, List.filterMap_nil]; cases f o <;> rfl

def WfObs (net : Net σ ε) : Obs ε → Prop
  | .fed e q _ => q = (tgt net e).getD net.dflt
  | .fwd c e dst _ => dst = tgt net e ∧ c < net.n
  | _ => True

structure FInv (net : Net σ ε) (inputs : List ε) (σ0 : Nat → σ) (s : St σ ε) : Prop where
  todo : fedOk s.log ++ s.todo = inputs
  out : s.out = allOut s.log
  eng : ∀ c, outOf s.log c ++ s.pend c = engRun net c (σ0 c) (rcvd s.log c) ∧
             s.eng c = engSt net c (σ0 c) (rcvd s.log c)
  wf : ∀ o ∈ s.log, WfObs net o

theorem finv_init (net : Net σ ε) (inputs : List ε) (σ0 : Nat → σ) : FInv net inputs σ0 (init inputs σ0) where
  todo := by simp [init, fedOk]
  out := by simp [init, allOut]
  eng := by intro c; simp [init, outOf, rcvd, engRun, engSt]
  wf := by intro o ho; simp [init] at ho

theorem finv_step (net : Net σ ε) (inputs : List ε) (σ0 : Nat → σ) (s s' : St σ ε) (l : Label)
    (h : FInv net inputs σ0 s) (hs : step net s l = some s') : FInv net inputs σ0 s' := by
  obtain ⟨htodo, hout, heng, hwf⟩ := h
  have wf_snoc : ∀ o, WfObs net o → ∀ o' ∈ s.log ++ [o], WfObs net o' := by
    intro o ho o' ho'
    rcases List.mem_append.1 ho' with h1 | h1
    · exact hwf o' h1
    · simp at h1; subst h1; exact ho
  cases l with
  | feed =>
    simp only [step] at hs
    split at hs
    · simp at hs
    · rename_i e rest hto
      split at hs
      · injection hs with hs; subst hs
        refine ⟨?_, ?_, ?_, wf_snoc _ (by simp [WfObs])⟩
        · simp only [fedOk, fm_snoc, fedOkOf] at *; rw [hto] at htodo; simpa using htodo
        · simp only [allOut, fm_snoc, allOutOf] at *; simpa using hout
        · intro c; simp only [outOf, rcvd, fm_snoc, outOfOf, rcvdOf] at *; simpa using heng c
      · injection hs with hs; subst hs
        refine ⟨?_, ?_, ?_, wf_snoc _ (by simp [WfObs])⟩
        · simp only [fedOk, fm_snoc, fedOkOf] at *; simpa using htodo
        · simp only [allOut, fm_snoc, allOutOf] at *; simpa using hout
        · intro c; simp only [outOf, rcvd, fm_snoc, outOfOf, rcvdOf] at *; simpa using heng c
  | recv c =>
    simp only [step] at hs
    split at hs
    · rename_i hc
      have hpe : s.pend c = [] := by simpa using hc.2
      split at hs
      · simp at hs
      · rename_i src e rest hin
        injection hs with hs; subst hs
        refine ⟨?_, ?_, ?_, wf_snoc _ (by simp [WfObs])⟩
        · simp only [fedOk, fm_snoc, fedOkOf] at *; simpa using htodo
        · simp only [allOut, fm_snoc, allOutOf] at *; simpa using hout
        · intro c'
          by_cases hcc : c' = c
          · subst hcc
            have h1 := (heng c').1; have h2 := (heng c').2
            rw [hpe] at h1
            simp only [outOf, rcvd, fm_snoc, outOfOf, rcvdOf, upd_same, if_true, Option.toList,
              List.append_nil] at *
            rw [engRun_snoc, engSt_snoc, ← h2, ← h1]
            simp
          · have hne : ¬ (c = c') := fun h => hcc h.symm
            simp only [outOf, rcvd, fm_snoc, outOfOf, rcvdOf, upd_other _ _ _ _ hcc, hne, if_false,
              Option.toList, List.append_nil] at *
            exact heng c'
      · rename_i k rest hin
        injection hs with hs; subst hs
        refine ⟨?_, ?_, ?_, wf_snoc _ (by simp [WfObs])⟩
        · simp only [fedOk, fm_snoc, fedOkOf] at *; simpa using htodo
        · simp only [allOut, fm_snoc, allOutOf] at *; simpa using hout
        · intro c'; simp only [outOf, rcvd, fm_snoc, outOfOf, rcvdOf] at *; simpa using heng c'
    · simp at hs
  | fwd c =>
    simp only [step] at hs
    split at hs
    · rename_i hcn
      split at hs
      · simp at hs
      · rename_i e rest hpe
        have key : ∀ (dst : Option Nat) (ok : Bool) (c' : Nat),
            outOf (s.log ++ [Obs.fwd c e dst ok]) c' ++ upd s.pend c rest c' =
              engRun net c' (σ0 c') (rcvd (s.log ++ [Obs.fwd c e dst ok]) c') ∧
            s.eng c' = engSt net c' (σ0 c') (rcvd (s.log ++ [Obs.fwd c e dst ok]) c') := by
          intro dst ok c'
          by_cases hcc : c' = c
          · subst hcc
            have h1 := (heng c').1; have h2 := (heng c').2
            rw [hpe] at h1
            simp only [outOf, rcvd, fm_snoc, outOfOf, rcvdOf, upd_same, if_true, Option.toList,
              List.append_nil] at *
            exact ⟨by rw [← h1]; simp, h2⟩
          · have hne : ¬ (c = c') := fun h => hcc h.symm
            simp only [outOf, rcvd, fm_snoc, outOfOf, rcvdOf, upd_other _ _ _ _ hcc, hne, if_false,
              Option.toList, List.append_nil] at *
            exact heng c'
        split at hs
        · rename_i htg
          injection hs with hs; subst hs
          refine ⟨?_, ?_, key none true, wf_snoc _ (by simp [WfObs, htg, hcn])⟩
          · simp only [fedOk, fm_snoc, fedOkOf] at *; simpa using htodo
          · simp only [allOut, fm_snoc, allOutOf] at *; simp [hout]
        · rename_i q htg
          split at hs
          · injection hs with hs; subst hs
            refine ⟨?_, ?_, key (some q) true, wf_snoc _ (by simp [WfObs, htg, hcn])⟩
            · simp only [fedOk, fm_snoc, fedOkOf] at *; simpa using htodo
            · simp only [allOut, fm_snoc, allOutOf] at *; simp [hout]
          · split at hs
            · simp at hs
            · injection hs with hs; subst hs
              refine ⟨?_, ?_, key (some q) false, wf_snoc _ (by simp [WfObs, htg, hcn])⟩
              · simp only [fedOk, fm_snoc, fedOkOf] at *; simpa using htodo
              · simp only [allOut, fm_snoc, allOutOf] at *; simp [hout]
    · simp at hs
  | start =>
    simp only [step] at hs
    split at hs
    · simp at hs
    · injection hs with hs; subst hs
      refine ⟨?_, ?_, ?_, wf_snoc _ (by simp [WfObs])⟩
      · simp only [fedOk, fm_snoc, fedOkOf] at *; simpa using htodo
      · simp only [allOut, fm_snoc, allOutOf] at *; simpa using hout
      · intro c'; simp only [outOf, rcvd, fm_snoc, outOfOf, rcvdOf] at *; simpa using heng c'
  | inject c =>
    simp only [step] at hs
    split at hs
    · simp at hs
    · split at hs
      · split at hs <;>
        · injection hs with hs; subst hs
          refine ⟨?_, ?_, ?_, wf_snoc _ (by simp [WfObs])⟩
          · simp only [fedOk, fm_snoc, fedOkOf] at *; simpa using htodo
          · simp only [allOut, fm_snoc, allOutOf] at *; simpa using hout
          · intro c'; simp only [outOf, rcvd, fm_snoc, outOfOf, rcvdOf] at *; simpa using heng c'
      · simp at hs
  | collect =>
    simp only [step] at hs
    split at hs
    · simp at hs
    · (repeat' split at hs) <;>
      · injection hs with hs; subst hs
        refine ⟨?_, ?_, ?_, wf_snoc _ (by simp [WfObs])⟩
        · simp only [fedOk, fm_snoc, fedOkOf] at *; simpa using htodo
        · simp only [allOut, fm_snoc, allOutOf] at *; simpa using hout
        · intro c'; simp only [outOf, rcvd, fm_snoc, outOfOf, rcvdOf] at *; simpa using heng c'

theorem finv_reach (net : Net σ ε) (inputs : List ε) (σ0 : Nat → σ) (s : St σ ε)
    (h : Reach net (init inputs σ0) s) : FInv net inputs σ0 s := by
  induction h with
  | refl => exact finv_init net inputs σ0
  | tail l _ hs ih => exact finv_step net inputs σ0 _ _ l ih hs

theorem fm_filter_congr {α β : Type} (f g : α → Option β) (p : β → Bool) (l : List α)
    (h : ∀ o ∈ l, (f o).filter p = (g o).filter p) :
    (l.filterMap f).filter p = (l.filterMap g).filter p := by
  induction l with
  | nil => rfl
  | cons o l ih =>
    have ho := h o (List.mem_cons_self ..)
    have hl := ih (fun o' ho' => h o' (List.mem_cons_of_mem _ ho'))
    simp only [List.filterMap_cons]
    cases hf : f o <;> cases hg : g o <;> simp only [hf, hg, Option.filter] at ho ⊢
    · exact hl
    · rename_i b
      by_cases hb : p b = true
      · simp [hb] at ho
      · simp [hb, hl]
    · rename_i a
      by_cases ha : p a = true
      · simp [ha] at ho
      · simp [ha, hl]
    · rename_i a b
      by_cases ha : p a = true <;> by_cases hb : p b = true <;> simp [ha, hb] at ho ⊢
      · simp [ho, hl]
      · simp [hl]

/-- the program and the network fit together -/
structure ProgNet (P : Prog τ ε) (net : Net σ ε) : Prop where
  route : ∀ e, net.route e = routeTy P.streams (P.ty e)
  ctxs : ∀ s ∈ P.streams, s.ctx < net.n
  names : ∀ s1 ∈ P.streams, ∀ s2 ∈ P.streams, s1.name = s2.name → s1 = s2

theorem ownerOf_of_mem (P : Prog τ ε) (net : Net σ ε) (hpn : ProgNet P net) (s : SDecl Nat)
    (hs : s ∈ P.streams) : ownerOf P.streams s.name = some s.ctx := by
  unfold ownerOf
  cases hf : P.streams.find? (fun s' => decide (s'.name = s.name)) with
  | none =>
    have := List.find?_eq_none.1 hf s hs
    simp at this
  | some s' =>
    have h1 := List.mem_of_find?_eq_some hf
    have h2 := List.find?_some hf
    simp at h2
    rw [hpn.names s' h1 s hs h2]; rfl

theorem mem_of_ownerOf (P : Prog τ ε) (u c : Nat) (h : ownerOf P.streams u = some c) :
    ∃ s ∈ P.streams, s.name = u ∧ s.ctx = c := by
  unfold ownerOf at h
  cases hf : P.streams.find? (fun s' => decide (s'.name = u)) with
  | none => simp [hf] at h
  | some s' =>
    simp [hf] at h
    have h1 := List.mem_of_find?_eq_some hf
    have h2 := List.find?_some hf
    simp at h2
    exact ⟨s', h1, h2, h⟩

theorem ownerOf_none (P : Prog τ ε) (u : Nat) (h : ∀ s ∈ P.streams, s.name ≠ u) : ownerOf P.streams u = none := by
  unfold ownerOf
  cases hf : P.streams.find? (fun s' => decide (s'.name = u)) with
  | none => rfl
  | some s' =>
    have h1 := List.mem_of_find?_eq_some hf
    have h2 := List.find?_some hf
    simp at h2
    exact absurd h2 (h s' h1)


theorem routeTy_some {κ : Type} [DecidableEq κ] (streams : List (SDecl κ)) (t : κ) (q : Nat)
    (h : routeTy streams t = some q) :
    ∃ sd ∈ streams, sd.src = t ∧ ownerOf streams t ≠ some sd.ctx ∧ sd.ctx = q := by
  unfold routeTy at h
  rw [Option.map_eq_some_iff] at h
  obtain ⟨sd, hl, hq⟩ := h
  have hm := List.mem_of_getLast? hl
  rw [List.mem_filter] at hm
  have h2 := of_decide_eq_true hm.2
  exact ⟨sd, hm.1, h2.1, h2.2, hq⟩

section final
variable (P : Prog τ ε) (net : Net σ ε) (hpn : ProgNet P net) (inputs : List ε) (σ0 : Nat → σ)
  (heng : ∀ c, c < net.n → EngineOK P net (σ0 c) c)
  (hraw : ∀ e ∈ inputs, ∀ sd ∈ P.streams, P.ty e ≠ sd.name)
  (s : St σ ε) (hr : Reach net (init inputs σ0) s)

include hr in
theorem got_src (q : Nat) (src : Src) (e : ε) (h : Obs.got q src e ∈ s.log) :
    (src = .ingress ∧ e ∈ inputs) ∨ (∃ c', src = .ctx c' ∧ Obs.fwd c' e (some q) true ∈ s.log) := by
  have hinv := finv_reach net inputs σ0 s hr
  have hedge := reach_edgeInv net _ s (edgeInv_init inputs σ0) hr src q
  have hm : e ∈ cons s.log src q := by
    simp only [cons, List.mem_filterMap]; exact ⟨_, h, by simp [consOf]⟩
  have hm2 : e ∈ enq s.log src q := by rw [← hedge]; exact List.mem_append_left _ hm
  simp only [enq, List.mem_filterMap] at hm2
  obtain ⟨o, ho, hoe⟩ := hm2
  cases o with
  | fed e' q' ok =>
    cases ok with
    | false => simp [enqOf] at hoe
    | true =>
      simp only [enqOf] at hoe
      split at hoe
      · rename_i hc; injection hoe with hoe; subst hoe
        left; refine ⟨hc.1, ?_⟩
        rw [← hinv.todo]; apply List.mem_append_left
        simp only [fedOk, List.mem_filterMap]; exact ⟨_, ho, by simp [fedOkOf]⟩
      · simp at hoe
  | fwd c' e' dst ok =>
    cases dst with
    | none => simp [enqOf] at hoe
    | some q' =>
      cases ok with
      | false => simp [enqOf] at hoe
      | true =>
        simp only [enqOf] at hoe
        split at hoe
        · rename_i hc; injection hoe with hoe; subst hoe
          right; exact ⟨c', hc.1, by rw [← hc.2]; exact ho⟩
        · simp at hoe
  | _ => simp [enqOf] at hoe

include hpn hraw hr in
theorem rcvd_not_owned (c : Nat) : ∀ x ∈ rcvd s.log c, ownerOf P.streams (P.ty x) ≠ some c := by
  intro x hx
  have hinv := finv_reach net inputs σ0 s hr
  simp only [rcvd, List.mem_filterMap] at hx
  obtain ⟨o, ho, hox⟩ := hx
  cases o with
  | got q src e =>
    simp only [rcvdOf] at hox
    split at hox
    · rename_i hqc; injection hox with hox; subst hox; subst hqc
      rcases got_src net inputs σ0 s hr q src e ho with ⟨_, hin⟩ | ⟨c'', _, hf⟩
      · rw [ownerOf_none P (P.ty e) (fun sd hsd hn => hraw e hin sd hsd hn.symm)]; simp
      · have hw := (hinv.wf _ hf).1
        simp only [tgt, hpn.route e] at hw
        cases hrt : routeTy P.streams (P.ty e) with
        | none => simp [hrt] at hw
        | some q' =>
          simp only [hrt] at hw
          split at hw
          · injection hw with hw; subst hw
            obtain ⟨sd, _, _, hne, hq'⟩ := routeTy_some P.streams (P.ty e) _ hrt
            rw [← hq']; exact hne
          · simp at hw
    · simp at hox
  | _ => simp [rcvdOf] at hox

include hpn heng hraw hr in
theorem fwd_owner (c : Nat) (e : ε) (d : Option Nat) (k : Bool) (h : Obs.fwd c e d k ∈ s.log) :
    ∃ sd ∈ P.streams, sd.ctx = c ∧ P.ty e = sd.name := by
  have hinv := finv_reach net inputs σ0 s hr
  have hc : c < net.n := (hinv.wf _ h).2
  have hm : e ∈ outOf s.log c := by
    simp only [outOf, List.mem_filterMap]; exact ⟨_, h, by simp [outOfOf]⟩
  have : e ∈ engRun net c (σ0 c) (rcvd s.log c) := by
    rw [← (hinv.eng c).1]; exact List.mem_append_left _ hm
  exact (heng c hc (rcvd s.log c) (rcvd_not_owned P net hpn inputs σ0 hraw s hr c)).1 e this

include hpn heng hraw hr in
theorem out_filter_stream (sd : SDecl Nat) (hsd : sd ∈ P.streams) :
    s.out.filter (fun e => P.ty e = sd.name) = (outOf s.log sd.ctx).filter (fun e => P.ty e = sd.name) := by
  have hinv := finv_reach net inputs σ0 s hr
  rw [hinv.out]
  apply fm_filter_congr
  intro o ho
  cases o with
  | fwd c' e d k =>
    by_cases hc : c' = sd.ctx
    · simp [allOutOf, outOfOf, hc]
    · have hty : P.ty e ≠ sd.name := by
        intro hty
        obtain ⟨sd', hsd', hc', hn'⟩ := fwd_owner P net hpn inputs σ0 heng hraw s hr c' e d k ho
        have := hpn.names sd' hsd' sd hsd (by rw [← hn', hty])
        subst this; exact hc hc'.symm
      simp [allOutOf, outOfOf, hc, Option.filter, hty]
  | _ => simp [allOutOf, outOfOf]

include hpn in
theorem tgt_of_route (e : ε) (c : Nat) (hc : c < net.n) (h : routeTy P.streams (P.ty e) = some c) :
    tgt net e = some c := by
  simp [tgt, hpn.route e, h, hc]

include hpn heng hraw hr in
theorem network_kahn (hns : ∀ sd ∈ P.streams, starved P.streams sd = false) (hnd : NoDrop s.log)
    (hq : Quiescent net s) (ht : s.todo = []) :
    Kahn P inputs (byType P inputs s.out) := by
  unfold byType
  have hinv := finv_reach net inputs σ0 s hr
  have hedge := reach_edgeInv net _ s (edgeInv_init inputs σ0) hr
  have hany : ∀ sd ∈ P.streams, P.streams.any (fun sd' => sd'.name == sd.name) = true := by
    intro sd hsd; simp only [List.any_eq_true]; exact ⟨sd, hsd, by simp⟩
  constructor
  · intro t hno
    have : P.streams.any (fun sd => sd.name == t) = false := by
      simp only [List.any_eq_false]; intro sd hsd; simpa using hno sd hsd
    simp [this]
  · intro sd hsd
    have hc : sd.ctx < net.n := hpn.ctxs sd hsd
    simp only [hany sd hsd, if_true]
    rw [out_filter_stream P net hpn inputs σ0 heng hraw s hr sd hsd]
    have hrun : outOf s.log sd.ctx = engRun net sd.ctx (σ0 sd.ctx) (rcvd s.log sd.ctx) := by
      have := (hinv.eng sd.ctx).1; rw [(hq sd.ctx hc).2] at this; simpa using this
    rw [hrun, (heng sd.ctx hc (rcvd s.log sd.ctx) (rcvd_not_owned P net hpn inputs σ0 hraw s hr sd.ctx)).2 sd hsd rfl]
    congr 1
    by_cases ho : ownerOf P.streams sd.src = some sd.ctx
    · obtain ⟨su, hsu, hun, huc⟩ := mem_of_ownerOf P sd.src sd.ctx ho
      have h1 := out_filter_stream P net hpn inputs σ0 heng hraw s hr su hsu
      rw [hun, huc, hrun] at h1
      have := hany su hsu; rw [hun] at this
      simp [ho, this, h1]
    · have hroute : routeTy P.streams sd.src = some sd.ctx := by
        have := hns sd hsd
        simp only [starved, decide_eq_false_iff_not, not_and, Decidable.not_not] at this
        exact this ho
      simp only [ho, if_false]
      have hin : s.inbox sd.ctx = [] := (hq sd.ctx hc).1
      by_cases hu : ∃ su ∈ P.streams, su.name = sd.src
      · obtain ⟨su, hsu, hun⟩ := hu
        have hanyu := hany su hsu; rw [hun] at hanyu
        simp only [hanyu, if_true]
        -- received of type u = consumed on the edge owner(u) → ctx
        have e1 : (rcvd s.log sd.ctx).filter (fun e => P.ty e = sd.src) =
            (cons s.log (.ctx su.ctx) sd.ctx).filter (fun e => P.ty e = sd.src) := by
          apply fm_filter_congr
          intro o hom
          cases o with
          | got q src e =>
            by_cases hqc : q = sd.ctx
            · by_cases hty : P.ty e = sd.src
              · have hsrc : src = .ctx su.ctx := by
                  rcases got_src net inputs σ0 s hr q src e hom with ⟨_, hin'⟩ | ⟨c'', hs'', hf''⟩
                  · exact absurd (hty.trans hun.symm) (hraw e hin' su hsu)
                  · obtain ⟨sd', hsd', hc', hn'⟩ := fwd_owner P net hpn inputs σ0 heng hraw s hr c'' e _ _ hf''
                    have := hpn.names sd' hsd' su hsu (by rw [← hn', hty, hun])
                    subst this; rw [hs'', hc']
                simp [rcvdOf, consOf, hqc, hsrc]
              · simp only [rcvdOf, consOf, hqc, Option.filter]; (repeat' split) <;> simp_all
            · simp [rcvdOf, consOf, hqc]
          | _ => simp [rcvdOf, consOf]
        have e2 : cons s.log (.ctx su.ctx) sd.ctx = enq s.log (.ctx su.ctx) sd.ctx := by
          have := hedge (.ctx su.ctx) sd.ctx; rw [hin] at this; simpa [proj] using this
        have e3 : (sent s.log su.ctx sd.ctx).filter (fun e => P.ty e = sd.src) =
            (outOf s.log su.ctx).filter (fun e => P.ty e = sd.src) := by
          apply fm_filter_congr
          intro o hom
          cases o with
          | fwd c'' e dst k =>
            by_cases hcc : c'' = su.ctx
            · by_cases hty : P.ty e = sd.src
              · have hd : dst = some sd.ctx := by
                  rw [(hinv.wf _ hom).1]
                  exact tgt_of_route P net hpn e sd.ctx hc (by rw [hty]; exact hroute)
                simp [sentOf, outOfOf, hcc, hd]
              · cases dst <;> simp only [sentOf, outOfOf, hcc, Option.filter] <;> (repeat' split) <;> simp_all
            · cases dst <;> simp [sentOf, outOfOf, hcc]
          | _ => simp [sentOf, outOfOf]
        rw [e1, e2, ← sent_eq_enq_of_noDrop _ _ _ hnd, e3]
        have h1 := out_filter_stream P net hpn inputs σ0 heng hraw s hr su hsu
        rw [hun] at h1; exact h1.symm
      · have hno : ∀ su ∈ P.streams, su.name ≠ sd.src := fun su hsu hn => hu ⟨su, hsu, hn⟩
        have hanyu : P.streams.any (fun sd' => sd'.name == sd.src) = false := by
          simp only [List.any_eq_false]; intro su hsu; simpa using hno su hsu
        simp only [hanyu]
        have e1 : (rcvd s.log sd.ctx).filter (fun e => P.ty e = sd.src) =
            (cons s.log .ingress sd.ctx).filter (fun e => P.ty e = sd.src) := by
          apply fm_filter_congr
          intro o hom
          cases o with
          | got q src e =>
            by_cases hqc : q = sd.ctx
            · by_cases hty : P.ty e = sd.src
              · have hsrc : src = .ingress := by
                  rcases got_src net inputs σ0 s hr q src e hom with ⟨hs', _⟩ | ⟨c'', hs'', hf''⟩
                  · exact hs'
                  · obtain ⟨sd', hsd', _, hn'⟩ := fwd_owner P net hpn inputs σ0 heng hraw s hr c'' e _ _ hf''
                    exact absurd (hn'.symm.trans hty) (hno sd' hsd')
                simp [rcvdOf, consOf, hqc, hsrc]
              · simp only [rcvdOf, consOf, hqc, Option.filter]; (repeat' split) <;> simp_all
            · simp [rcvdOf, consOf, hqc]
          | _ => simp [rcvdOf, consOf]
        have e2 : cons s.log .ingress sd.ctx = enq s.log .ingress sd.ctx := by
          have := hedge .ingress sd.ctx; rw [hin] at this; simpa [proj] using this
        have e3 : (enq s.log .ingress sd.ctx).filter (fun e => P.ty e = sd.src) =
            (fedOk s.log).filter (fun e => P.ty e = sd.src) := by
          apply fm_filter_congr
          intro o hom
          cases o with
          | fed e q ok =>
            cases ok with
            | false => simp [enqOf, fedOkOf]
            | true =>
              by_cases hty : P.ty e = sd.src
              · have hqq : q = sd.ctx := by
                  have := hinv.wf _ hom
                  simp only [WfObs] at this
                  rw [this, tgt_of_route P net hpn e sd.ctx hc (by rw [hty]; exact hroute)]; rfl
                simp [enqOf, fedOkOf, hqq]
              · simp only [enqOf, fedOkOf, Option.filter]; (repeat' split) <;> simp_all
          | fwd c'' e dst k => cases dst <;> cases k <;> simp [enqOf, fedOkOf]
          | _ => simp [enqOf, fedOkOf]
        have e4 : fedOk s.log = inputs := by have := hinv.todo; rw [ht] at this; simpa using this
        rw [e1, e2, e3, e4]; simp

end final

/-! ## the engine (`process_inner`) meets the engine specification -/

theorem run_append (f : SFun τ ε) (xs ys : List ε) : ∀ t,
    f.run t (xs ++ ys) = f.run t xs ++ f.run (f.runSt t xs) ys := by
  induction xs with
  | nil => intro t; simp [SFun.run, SFun.runSt]
  | cons x xs ih => intro t; simp [SFun.run, SFun.runSt, ih, List.append_assoc]

theorem runSt_append (f : SFun τ ε) (xs ys : List ε) : ∀ t,
    f.runSt t (xs ++ ys) = f.runSt (f.runSt t xs) ys := by
  induction xs with
  | nil => intro t; simp [SFun.runSt]
  | cons x xs ih => intro t; simp [SFun.runSt, ih]

theorem flatMap_congr' {α β : Type} (l : List α) (f g : α → List β) (h : ∀ a ∈ l, f a = g a) :
    l.flatMap f = l.flatMap g := by
  induction l with
  | nil => rfl
  | cons a l ih =>
    simp only [List.flatMap_cons]
    rw [h a (List.mem_cons_self ..), ih (fun b hb => h b (List.mem_cons_of_mem _ hb))]

/-- well-formed program: distinct stream names, every stream emits events of its own type -/
structure ProgWF (P : Prog τ ε) : Prop where
  names : P.streams.Pairwise (fun a b => a.name ≠ b.name)
  typed : ∀ sd ∈ P.streams, ∀ t x, ∀ o ∈ ((P.fn sd.name).step t x).2, P.ty o = sd.name

/-- the fold of `applyEv` over a list of streams with distinct names -/
theorem applyEv_fold (P : Prog τ ε) (x : ε) (L : List (SDecl Nat))
    (hd : L.Pairwise (fun a b => a.name ≠ b.name)) : ∀ (st : Nat → τ) (acc : List ε),
    let r := L.foldl (fun (acc : (Nat → τ) × List ε) sd =>
      let r := (P.fn sd.name).step (acc.1 sd.name) x
      (upd acc.1 sd.name r.1, acc.2 ++ r.2)) (st, acc)
    r.2 = acc ++ L.flatMap (fun sd => ((P.fn sd.name).step (st sd.name) x).2) ∧
    ∀ n, r.1 n = if (∃ sd ∈ L, sd.name = n) then ((P.fn n).step (st n) x).1 else st n := by
  induction L with
  | nil => intro st acc; simp
  | cons sd L ih =>
    intro st acc
    have hd' := (List.pairwise_cons.1 hd)
    have := ih hd'.2 (upd st sd.name ((P.fn sd.name).step (st sd.name) x).1) (acc ++ ((P.fn sd.name).step (st sd.name) x).2)
    simp only [List.foldl_cons]
    obtain ⟨h1, h2⟩ := this
    constructor
    · rw [h1]
      simp only [List.flatMap_cons, List.append_assoc]
      congr 2
      apply flatMap_congr'
      intro sd' hsd'
      have hne : sd'.name ≠ sd.name := fun h => hd'.1 sd' hsd' h.symm
      rw [upd_other _ _ _ _ hne]
    · intro n
      rw [h2 n]
      by_cases hn : n = sd.name
      · subst hn
        have hnot : ¬ ∃ sd' ∈ L, sd'.name = sd.name := fun ⟨sd', hm, he⟩ => hd'.1 sd' hm he.symm
        simp [hnot]
      · rw [upd_other _ _ _ _ hn]
        have : (∃ sd' ∈ sd :: L, sd'.name = n) ↔ (∃ sd' ∈ L, sd'.name = n) := by
          constructor
          · rintro ⟨sd', hm, he⟩
            rcases List.mem_cons.1 hm with h | h
            · subst h; exact absurd he.symm hn
            · exact ⟨sd', h, he⟩
          · rintro ⟨sd', hm, he⟩; exact ⟨sd', List.mem_cons_of_mem _ hm, he⟩
        simp only [this]

theorem pairwise_names_inj (l : List (SDecl Nat)) (h : l.Pairwise (fun a b => a.name ≠ b.name)) :
    ∀ s1 ∈ l, ∀ s2 ∈ l, s1.name = s2.name → s1 = s2 := by
  induction l with
  | nil => intro s1 h1; simp at h1
  | cons a l ih =>
    intro s1 h1 s2 h2 hn
    have hp := List.pairwise_cons.1 h
    rcases List.mem_cons.1 h1 with e1 | e1 <;> rcases List.mem_cons.1 h2 with e2 | e2
    · rw [e1, e2]
    · subst e1; exact absurd hn (hp.1 s2 e2)
    · subst e2; exact absurd hn.symm (hp.1 s1 e1)
    · exact ih hp.2 s1 e1 s2 e2 hn

theorem names_inj (P : Prog τ ε) (hwf : ProgWF P) :
    ∀ s1 ∈ P.streams, ∀ s2 ∈ P.streams, s1.name = s2.name → s1 = s2 :=
  pairwise_names_inj P.streams hwf.names

/-- of the outputs of a list of streams, those typed like `sd` are `sd`'s -/
theorem filter_flatMap_stream (P : Prog τ ε) (hwf : ProgWF P) (sd : SDecl Nat) (hsd : sd ∈ P.streams)
    (g : SDecl Nat → List ε) (L : List (SDecl Nat)) (hL : ∀ a ∈ L, a ∈ P.streams)
    (hd : L.Pairwise (fun a b => a.name ≠ b.name)) (hg : ∀ a ∈ L, ∀ o ∈ g a, P.ty o = a.name) :
    (L.flatMap g).filter (fun e => P.ty e = sd.name) = if sd ∈ L then g sd else [] := by
  induction L with
  | nil => simp
  | cons a L ih =>
    have hp := List.pairwise_cons.1 hd
    have ih' := ih (fun b hb => hL b (List.mem_cons_of_mem _ hb)) hp.2 (fun b hb => hg b (List.mem_cons_of_mem _ hb))
    simp only [List.flatMap_cons, List.filter_append, ih']
    by_cases ha : a = sd
    · subst ha
      have hnot : a ∉ L := fun hm => hp.1 a hm rfl
      have hall : (g a).filter (fun e => P.ty e = a.name) = g a := by
        apply List.filter_eq_self.2
        intro o ho; simpa using hg a (List.mem_cons_self ..) o ho
      simp [hnot, hall]
    · have hne : a.name ≠ sd.name := fun hn => ha (names_inj P hwf a (hL a (List.mem_cons_self ..)) sd hsd hn)
      have hnone : (g a).filter (fun e => P.ty e = sd.name) = [] := by
        apply List.filter_eq_nil_iff.2
        intro o ho
        have := hg a (List.mem_cons_self ..) o ho
        simp [this, hne]
      have hmem : sd ∈ a :: L ↔ sd ∈ L := by
        constructor
        · intro h; rcases List.mem_cons.1 h with h | h
          · exact absurd h.symm ha
          · exact h
        · exact List.mem_cons_of_mem _
      simp [hnone, hmem]

theorem applyEv_spec (P : Prog τ ε) (hwf : ProgWF P) (c : Nat) (st : Nat → τ) (x : ε) :
    (∀ o ∈ (applyEv P c st x).2, ∃ sd ∈ P.streams, sd.ctx = c ∧ P.ty o = sd.name) ∧
    ∀ sd ∈ P.streams, sd.ctx = c →
      (applyEv P c st x).2.filter (fun e => P.ty e = sd.name) =
        (P.fn sd.name).run (st sd.name) ([x].filter (fun e => P.ty e = sd.src)) ∧
      (applyEv P c st x).1 sd.name = (P.fn sd.name).runSt (st sd.name) ([x].filter (fun e => P.ty e = sd.src)) := by
  have hLd : (P.streams.filter (fun sd => decide (sd.ctx = c ∧ sd.src = P.ty x))).Pairwise (fun a b => a.name ≠ b.name) :=
    hwf.names.sublist List.filter_sublist
  have hfold := applyEv_fold P x _ hLd st []
  simp only [List.nil_append] at hfold
  obtain ⟨h1, h2⟩ := hfold
  have hLmem : ∀ a ∈ P.streams.filter (fun sd => decide (sd.ctx = c ∧ sd.src = P.ty x)), a ∈ P.streams :=
    fun a ha => (List.mem_filter.1 ha).1
  constructor
  · intro o ho
    unfold applyEv at ho
    rw [h1] at ho
    simp only [List.mem_flatMap] at ho
    obtain ⟨sd, hsd, hos⟩ := ho
    have hm := List.mem_filter.1 hsd
    have hc := of_decide_eq_true hm.2
    exact ⟨sd, hm.1, hc.1, hwf.typed sd hm.1 _ _ o hos⟩
  · intro sd hsd hc
    unfold applyEv
    rw [h1, h2 sd.name]
    rw [filter_flatMap_stream P hwf sd hsd _ _ hLmem hLd
      (fun a ha o ho => hwf.typed a (hLmem a ha) _ _ o ho)]
    by_cases hsrc : sd.src = P.ty x
    · have hin : sd ∈ P.streams.filter (fun sd => decide (sd.ctx = c ∧ sd.src = P.ty x)) := by
        simp [List.mem_filter, hsd, hc, hsrc]
      have hex : ∃ sd' ∈ P.streams.filter (fun sd => decide (sd.ctx = c ∧ sd.src = P.ty x)), sd'.name = sd.name :=
        ⟨sd, hin, rfl⟩
      rw [if_pos hin, if_pos hex]
      have hd : decide (P.ty x = sd.src) = true := by simp [hsrc]
      simp [List.filter_cons, hd, SFun.run, SFun.runSt]
    · have hin : sd ∉ P.streams.filter (fun sd => decide (sd.ctx = c ∧ sd.src = P.ty x)) := by
        simp [List.mem_filter, hsrc]
      have hex : ¬ ∃ sd' ∈ P.streams.filter (fun sd => decide (sd.ctx = c ∧ sd.src = P.ty x)), sd'.name = sd.name := by
        rintro ⟨sd', hm, hn⟩
        have := names_inj P hwf sd' (hLmem sd' hm) sd hsd hn
        subst this; exact hin hm
      have hne : ¬ (P.ty x = sd.src) := fun h => hsrc h.symm
      rw [if_neg hin, if_neg hex]
      have hd : decide (P.ty x = sd.src) = false := by simp [hne]
      simp [List.filter_cons, hd, SFun.run, SFun.runSt]

/-- what a piece of engine work (`applyList`, `levels`) must satisfy: it emits only events of the
context's streams, and each stream of the context transduces the events of its source type among
`handled`, continuing from its current state -/
def WorkSpec (P : Prog τ ε) (c : Nat) (st : Nat → τ) (handled : List ε) (r : (Nat → τ) × List ε) : Prop :=
  (∀ o ∈ r.2, ∃ sd ∈ P.streams, sd.ctx = c ∧ P.ty o = sd.name) ∧
  ∀ sd ∈ P.streams, sd.ctx = c →
    r.2.filter (fun e => P.ty e = sd.name) =
      (P.fn sd.name).run (st sd.name) (handled.filter (fun e => P.ty e = sd.src)) ∧
    r.1 sd.name = (P.fn sd.name).runSt (st sd.name) (handled.filter (fun e => P.ty e = sd.src))

theorem applyList_spec (P : Prog τ ε) (hwf : ProgWF P) (c : Nat) (xs : List ε) : ∀ st : Nat → τ,
    WorkSpec P c st xs (applyList P c st xs) := by
  induction xs with
  | nil =>
    intro st
    refine ⟨by simp [applyList], fun sd _ _ => by simp [applyList, SFun.run, SFun.runSt]⟩
  | cons x xs ih =>
    intro st
    have h1 := applyEv_spec P hwf c st x
    have h2 := ih (applyEv P c st x).1
    refine ⟨?_, ?_⟩
    · intro o ho
      simp only [applyList, List.mem_append] at ho
      rcases ho with ho | ho
      · exact h1.1 o ho
      · exact h2.1 o ho
    · intro sd hsd hc
      obtain ⟨a1, a2⟩ := h1.2 sd hsd hc
      obtain ⟨b1, b2⟩ := h2.2 sd hsd hc
      have hsplit : (x :: xs).filter (fun e => P.ty e = sd.src) =
          [x].filter (fun e => P.ty e = sd.src) ++ xs.filter (fun e => P.ty e = sd.src) := by
        rw [← List.filter_append]; rfl
      simp only [applyList, List.filter_append]
      rw [hsplit, run_append, runSt_append, a1, b1, b2, a2]
      exact ⟨rfl, rfl⟩

theorem levels_spec (P : Prog τ ε) (hwf : ProgWF P) (c : Nat) (f : Nat) : ∀ (st : Nat → τ) (xs : List ε),
    levelsDone P c f st xs = true →
    WorkSpec P c st (xs ++ (levels P c f st xs).2) (levels P c f st xs) := by
  induction f with
  | zero =>
    intro st xs hd
    simp only [levelsDone, List.isEmpty_iff] at hd
    subst hd
    refine ⟨by simp [levels], fun sd _ _ => by simp [levels, SFun.run, SFun.runSt]⟩
  | succ f ih =>
    intro st xs hd
    simp only [levelsDone] at hd
    have h1 := applyList_spec P hwf c xs st
    have h2 := ih (applyList P c st xs).1 (applyList P c st xs).2 hd
    refine ⟨?_, ?_⟩
    · intro o ho
      simp only [levels, List.mem_append] at ho
      rcases ho with ho | ho
      · exact h1.1 o ho
      · exact h2.1 o ho
    · intro sd hsd hc
      obtain ⟨a1, a2⟩ := h1.2 sd hsd hc
      obtain ⟨b1, b2⟩ := h2.2 sd hsd hc
      simp only [levels, List.filter_append] at b1 b2 ⊢
      rw [run_append, runSt_append, a1, ← a2, b1, b2]
      simp only [run_append, runSt_append]
      first | exact ⟨rfl, rfl⟩ | trivial | simp

theorem ownerOf_of_mem' (P : Prog τ ε) (hwf : ProgWF P) (s : SDecl Nat) (hs : s ∈ P.streams) :
    ownerOf P.streams s.name = some s.ctx := by
  unfold ownerOf
  cases hf : P.streams.find? (fun s' => decide (s'.name = s.name)) with
  | none =>
    have := List.find?_eq_none.1 hf s hs
    simp at this
  | some s' =>
    have h1 := List.mem_of_find?_eq_some hf
    have h2 := List.find?_some hf
    simp at h2
    rw [names_inj P hwf s' h1 s hs h2]; rfl

theorem bfs_engine_spec (P : Prog τ ε) (hwf : ProgWF P) (n cap : Nat) (blocking : Bool) (fuel c : Nat)
    (hdepth : ∀ st x, levelsDone P c fuel st [x] = true) (X : List ε) : ∀ st : Nat → τ,
    (∀ x ∈ X, ownerOf P.streams (P.ty x) ≠ some c) →
    (∀ o ∈ engRun (progNet P n cap blocking fuel) c st X, ∃ sd ∈ P.streams, sd.ctx = c ∧ P.ty o = sd.name) ∧
    ∀ sd ∈ P.streams, sd.ctx = c →
      (engRun (progNet P n cap blocking fuel) c st X).filter (fun e => P.ty e = sd.name) =
        (P.fn sd.name).run (st sd.name)
          (if ownerOf P.streams sd.src = some c
           then (engRun (progNet P n cap blocking fuel) c st X).filter (fun e => P.ty e = sd.src)
           else X.filter (fun e => P.ty e = sd.src)) := by
  induction X with
  | nil =>
    intro st _
    refine ⟨by simp [engRun], fun sd _ _ => ?_⟩
    split <;> simp [engRun, SFun.run]
  | cons x X ih =>
    intro st hX
    have hx := hX x (List.mem_cons_self ..)
    have hspec := levels_spec P hwf c fuel st [x] (hdepth st x)
    have hrest := ih (levels P c fuel st [x]).1 (fun y hy => hX y (List.mem_cons_of_mem _ hy))
    have hE : engRun (progNet P n cap blocking fuel) c st (x :: X) =
        (levels P c fuel st [x]).2 ++ engRun (progNet P n cap blocking fuel) c (levels P c fuel st [x]).1 X := rfl
    rw [hE]
    refine ⟨?_, ?_⟩
    · intro o ho
      rcases List.mem_append.1 ho with ho | ho
      · exact hspec.1 o ho
      · exact hrest.1 o ho
    · intro sd hsd hc
      obtain ⟨a1, a2⟩ := hspec.2 sd hsd hc
      have b1 := hrest.2 sd hsd hc
      rw [List.filter_append, a1, b1, a2, ← run_append]
      congr 1
      by_cases ho : ownerOf P.streams sd.src = some c
      · simp only [ho, if_true]
        have hxs : [x].filter (fun e => P.ty e = sd.src) = [] := by
          apply List.filter_eq_nil_iff.2
          intro y hy
          simp only [List.mem_singleton] at hy; subst hy
          intro hty
          have hty' : P.ty y = sd.src := by simpa using hty
          exact hx (by rw [hty']; exact ho)
        rw [List.filter_append, List.filter_append, hxs]; rfl
      · simp only [ho, if_false]
        have hes : (levels P c fuel st [x]).2.filter (fun e => P.ty e = sd.src) = [] := by
          apply List.filter_eq_nil_iff.2
          intro o hom hty
          have hty' : P.ty o = sd.src := by simpa using hty
          obtain ⟨sd', hsd', hc', hn'⟩ := hspec.1 o hom
          have := ownerOf_of_mem' P hwf sd' hsd'
          rw [← hn', hty', hc'] at this
          exact ho this
        rw [List.filter_append, hes]
        simp only [List.filter_cons, List.filter_nil, List.append_nil]
        split <;> simp

/-- `process_inner` on the context's share of a well-formed program meets the engine specification,
as long as the depth limit never cuts a chain off -/
theorem bfs_engineOK (P : Prog τ ε) (hwf : ProgWF P) (n cap : Nat) (blocking : Bool) (fuel c : Nat)
    (hdepth : ∀ st x, levelsDone P c fuel st [x] = true) :
    EngineOK P (progNet P n cap blocking fuel) (progInit P c) c := by
  intro X hX
  exact bfs_engine_spec P hwf n cap blocking fuel c hdepth X (progInit P c) hX

/-! ## with contexts = without contexts -/

theorem single_wf (P : Prog τ ε) (hwf : ProgWF P) : ProgWF P.single where
  names := by
    simp only [Prog.single, List.pairwise_map]
    exact hwf.names
  typed := by
    intro sd hsd t x o ho
    simp only [Prog.single, List.mem_map] at hsd
    obtain ⟨sd', hsd', he⟩ := hsd
    subst he
    exact hwf.typed sd' hsd' t x o ho

theorem single_kahn (P : Prog τ ε) (inputs : List ε) (O : Nat → List ε) :
    Kahn P.single inputs O ↔ Kahn P inputs O := by
  unfold Kahn
  simp only [Prog.single, List.mem_map]
  constructor
  · rintro ⟨h1, h2⟩
    refine ⟨fun t hno => h1 t ?_, fun sd hsd => ?_⟩
    · rintro sd ⟨sd', hsd', rfl⟩; exact hno sd' hsd'
    · exact h2 { sd with ctx := 0 } ⟨sd, hsd, rfl⟩
  · rintro ⟨h1, h2⟩
    refine ⟨fun t hno => h1 t ?_, ?_⟩
    · intro sd hsd; exact hno { sd with ctx := 0 } ⟨sd, hsd, rfl⟩
    · rintro sd ⟨sd', hsd', rfl⟩; exact h2 sd' hsd'

theorem single_not_starved (P : Prog τ ε) (hwf : ProgWF P) :
    ∀ sd ∈ P.single.streams, starved P.single.streams sd = false := by
  intro sd hsd
  have hctx : ∀ a ∈ P.single.streams, a.ctx = 0 := by
    intro a ha
    simp only [Prog.single, List.mem_map] at ha
    obtain ⟨a', _, rfl⟩ := ha; rfl
  simp only [starved, decide_eq_false_iff_not, not_and, Decidable.not_not]
  intro hown
  unfold routeTy
  have hmem : sd ∈ P.single.streams.filter (fun s => decide (s.src = sd.src ∧ ownerOf P.single.streams sd.src ≠ some s.ctx)) := by
    rw [List.mem_filter]; exact ⟨hsd, by simp [hown]⟩
  cases hl : (P.single.streams.filter (fun s => decide (s.src = sd.src ∧ ownerOf P.single.streams sd.src ≠ some s.ctx))).getLast? with
  | none =>
    rw [List.getLast?_eq_none_iff] at hl
    rw [hl] at hmem; simp at hmem
  | some a =>
    have ha := (List.mem_filter.1 (List.mem_of_getLast? hl)).1
    simp [hctx a ha, hctx sd hsd]

theorem perm_of_filter_eq [DecidableEq ε] (ty : ε → Nat) (l1 l2 : List ε)
    (h : ∀ t, l1.filter (fun e => ty e = t) = l2.filter (fun e => ty e = t)) : l1.Perm l2 := by
  rw [List.perm_iff_count]
  intro a
  have h1 : List.count a (l1.filter (fun e => ty e = ty a)) = List.count a l1 :=
    List.count_filter (by simp)
  have h2 : List.count a (l2.filter (fun e => ty e = ty a)) = List.count a l2 :=
    List.count_filter (by simp)
  rw [← h1, ← h2, h (ty a)]

theorem progNet_ok (P : Prog τ ε) (hwf : ProgWF P) (n cap : Nat) (blocking : Bool) (fuel : Nat)
    (hctx : ∀ sd ∈ P.streams, sd.ctx < n) : ProgNet P (progNet P n cap blocking fuel) where
  route := fun _ => rfl
  ctxs := hctx
  names := names_inj P hwf

/-- the network of `process_inner` engines computes the meaning of the program -/
theorem progNet_kahn (P : Prog τ ε) (hwf : ProgWF P) (n cap : Nat) (blocking : Bool) (fuel : Nat)
    (hctx : ∀ sd ∈ P.streams, sd.ctx < n)
    (hdepth : ∀ c st x, levelsDone P c fuel st [x] = true)
    (hns : ∀ sd ∈ P.streams, starved P.streams sd = false)
    (inputs : List ε) (hraw : ∀ e ∈ inputs, ∀ sd ∈ P.streams, P.ty e ≠ sd.name)
    (s : St (Nat → τ) ε) (hr : Reach (progNet P n cap blocking fuel) (init inputs (progInit P)) s)
    (hnd : NoDrop s.log) (hq : Quiescent (progNet P n cap blocking fuel) s) (ht : s.todo = []) :
    Kahn P inputs (byType P inputs s.out) :=
  network_kahn P _ (progNet_ok P hwf n cap blocking fuel hctx) inputs (progInit P)
    (fun c _ => bfs_engineOK P hwf n cap blocking fuel c (hdepth c)) hraw s hr hns hnd hq ht

/-- every output of a run is an event of some stream -/
theorem progNet_out_typed (P : Prog τ ε) (hwf : ProgWF P) (n cap : Nat) (blocking : Bool) (fuel : Nat)
    (hctx : ∀ sd ∈ P.streams, sd.ctx < n)
    (hdepth : ∀ c st x, levelsDone P c fuel st [x] = true)
    (inputs : List ε) (hraw : ∀ e ∈ inputs, ∀ sd ∈ P.streams, P.ty e ≠ sd.name)
    (s : St (Nat → τ) ε) (hr : Reach (progNet P n cap blocking fuel) (init inputs (progInit P)) s) :
    ∀ e ∈ s.out, ∃ sd ∈ P.streams, P.ty e = sd.name := by
  intro e he
  have hinv := finv_reach _ inputs (progInit P) s hr
  rw [hinv.out] at he
  simp only [allOut, List.mem_filterMap] at he
  obtain ⟨o, ho, hoe⟩ := he
  cases o with
  | fwd c e' d k =>
    simp only [allOutOf] at hoe; injection hoe with hoe; subst hoe
    obtain ⟨sd, hsd, _, hn⟩ := fwd_owner P _ (progNet_ok P hwf n cap blocking fuel hctx) inputs (progInit P)
      (fun c _ => bfs_engineOK P hwf n cap blocking fuel c (hdepth c)) hraw s hr c e' d k ho
    exact ⟨sd, hsd, hn⟩
  | _ => simp [allOutOf] at hoe

theorem single_any (P : Prog τ ε) (t : Nat) :
    P.single.streams.any (fun sd => sd.name == t) = P.streams.any (fun sd => sd.name == t) := by
  simp [Prog.single, List.any_map, Function.comp_def]


/-! ## concrete programs for the witnesses: events are (type, payload) -/

/-- stream `n` re-emits every event it sees under its own type, adding the number of events it has
seen so far to the payload (a stateful transducer): `1 = T0`, `2 = 1` (same context 0), `3 = 2` in
context `c3` -/
def demoProg (c3 : Nat) : Prog Nat (Nat × Nat) :=
  { ty := fun e => e.1,
    streams := [{ name := 1, src := 0, ctx := 0 }, { name := 2, src := 1, ctx := 0 }, { name := 3, src := 2, ctx := c3 }],
    fn := fun n => { init := 0, step := fun k e => (k + 1, [(n, e.2 + k)]) } }

theorem demo_wf (c3 : Nat) : ProgWF (demoProg c3) where
  names := by simp [demoProg]
  typed := by intro sd _ t x o ho; simp [demoProg] at ho; subst ho; rfl

theorem demo_depth : ∀ c st x, levelsDone (demoProg 1) c 10 st [x] = true := by
  intro c st x
  obtain ⟨t, v⟩ := x
  by_cases h0 : c = 0
  · subst h0
    rcases t with _ | _ | _ | t <;> simp [levelsDone, applyList, applyEv, demoProg]
  · by_cases h1 : c = 1
    · subst h1
      rcases t with _ | _ | _ | t <;> simp [levelsDone, applyList, applyEv, demoProg]
    · have e0 : ¬ (0 = c) := fun h => h0 h.symm
      have e1 : ¬ (1 = c) := fun h => h1 h.symm
      simp [levelsDone, applyList, applyEv, demoProg, e0, e1]

theorem demo_depth_single : ∀ c st x, levelsDone (demoProg 1).single c 10 st [x] = true := by
  intro c st x
  obtain ⟨t, v⟩ := x
  by_cases h0 : c = 0
  · subst h0
    rcases t with _ | _ | _ | _ | t <;> simp [levelsDone, applyList, applyEv, demoProg, Prog.single]
  · have e0 : ¬ (0 = c) := fun h => h0 h.symm
    simp [levelsDone, applyList, applyEv, demoProg, Prog.single, e0]

/-- fan-out of a raw type to two contexts: `1 = T0` in context 0, `2 = T0` in context 1 -/
def fanProg : Prog Nat (Nat × Nat) :=
  { ty := fun e => e.1,
    streams := [{ name := 1, src := 0, ctx := 0 }, { name := 2, src := 0, ctx := 1 }],
    fn := fun n => { init := 0, step := fun k e => (k + 1, [(n, e.2 + k)]) } }



theorem nodup_filter_snoc (l : List (Snap σ ε)) (sn : Snap σ ε) (h : (l.map (·.ctx)).Nodup) :
    ((l.filter (fun x => x.ctx != sn.ctx) ++ [sn]).map (·.ctx)).Nodup := by
  rw [List.map_append, List.nodup_append]
  refine ⟨?_, by simp, ?_⟩
  · exact h.sublist (List.filter_sublist.map _)
  · intro a ha b hb
    simp only [List.map_cons, List.map_nil, List.mem_singleton] at hb
    subst hb
    simp only [List.mem_map, List.mem_filter] at ha
    obtain ⟨x, ⟨_, hx⟩, rfl⟩ := ha
    simpa using hx

/-- the assembled checkpoints hold one snapshot per context -/
structure PhaseNd (net : Net σ ε) (s1 s : St σ ε) : Prop where
  got : ∀ p, s.pending = some p → (p.got.map (·.ctx)).Nodup
  done : ∃ new, s.done = s1.done ++ new ∧ ∀ ck ∈ new, (ck.2.map (·.ctx)).Nodup ∧ ck.2.length = net.n

theorem phaseNd_refl (net : Net σ ε) (s1 : St σ ε) (hp : s1.pending = none) : PhaseNd net s1 s1 where
  got := fun p h => by rw [hp] at h; simp at h
  done := ⟨[], by simp, by simp⟩

theorem phaseNd_step (net : Net σ ε) (s1 s s' : St σ ε) (l : Label)
    (h : PhaseNd net s1 s) (hs : step net s l = some s') : PhaseNd net s1 s' := by
  obtain ⟨hgot, hdone⟩ := h
  cases l with
  | feed =>
    simp only [step] at hs
    (repeat' split at hs) <;> first | (simp at hs; done) | (injection hs with hs; subst hs; exact ⟨hgot, hdone⟩)
  | recv c =>
    simp only [step] at hs
    (repeat' split at hs) <;> first | (simp at hs; done) | (injection hs with hs; subst hs; exact ⟨hgot, hdone⟩)
  | fwd c =>
    simp only [step] at hs
    (repeat' split at hs) <;> first | (simp at hs; done) | (injection hs with hs; subst hs; exact ⟨hgot, hdone⟩)
  | start =>
    simp only [step] at hs
    split at hs
    · simp at hs
    · injection hs with hs; subst hs
      exact ⟨fun p hp => by simp at hp; subst hp; simp, hdone⟩
  | inject c =>
    simp only [step] at hs
    split at hs
    · simp at hs
    · rename_i pd hpd
      split at hs
      · split at hs <;>
        · injection hs with hs; subst hs
          exact ⟨fun p hp => by simp at hp; subst hp; exact hgot pd hpd, hdone⟩
      · simp at hs
  | collect =>
    simp only [step] at hs
    split at hs
    · simp at hs
    · rename_i k sn rest hak
      split at hs
      · rename_i hnone
        injection hs with hs; subst hs
        exact ⟨fun p hp => by simp [hnone] at hp, hdone⟩
      · rename_i pd hpd
        have hnd := nodup_filter_snoc pd.got sn (hgot pd hpd)
        split at hs
        · split at hs
          · rename_i hlen
            injection hs with hs; subst hs
            refine ⟨fun p hp => by simp at hp, ?_⟩
            obtain ⟨new, hn1, hn2⟩ := hdone
            refine ⟨new ++ [(k, pd.got.filter (fun x => x.ctx != sn.ctx) ++ [sn])], by simp [hn1], ?_⟩
            intro ck hck
            rcases List.mem_append.1 hck with hck | hck
            · exact hn2 ck hck
            · simp at hck; subst hck; exact ⟨hnd, hlen⟩
          · injection hs with hs; subst hs
            exact ⟨fun p hp => by simp at hp; subst hp; exact hnd, hdone⟩
        · injection hs with hs; subst hs
          exact ⟨fun p hp => hgot p hp, hdone⟩

theorem phaseNd_run (net : Net σ ε) (s1 : St σ ε) (labels : List Label) :
    ∀ s s', PhaseNd net s1 s → runL net s labels = some s' → PhaseNd net s1 s' := by
  induction labels with
  | nil => intro s s' h hr; simp [runL] at hr; subst hr; exact h
  | cons l ls ih =>
    intro s s' h hr
    simp only [runL] at hr
    split at hr
    · rename_i s'' hst
      exact ih s'' s' (phaseNd_step net s1 s s'' l h hst) hr
    · simp at hr

/-- pigeonhole: n distinct contexts below n are all of them -/
theorem snaps_cover (n : Nat) (parts : List (Snap σ ε)) (hnd : (parts.map (·.ctx)).Nodup)
    (hlt : ∀ sn ∈ parts, sn.ctx < n) (hlen : parts.length = n) (c : Nat) (hc : c < n) :
    ∃ sn ∈ parts, sn.ctx = c := by
  apply Classical.byContradiction
  intro hno
  have hsub : parts.map (·.ctx) ⊆ (List.range n).erase c := by
    intro x hx
    simp only [List.mem_map] at hx
    obtain ⟨sn, hsn, rfl⟩ := hx
    have hne : sn.ctx ≠ c := fun h => hno ⟨sn, hsn, h⟩
    exact (List.mem_erase_of_ne hne).2 (List.mem_range.2 (hlt sn hsn))
  have hle := hnd.length_le_of_subset hsub
  rw [List.length_map, List.length_erase, hlen] at hle
  simp [List.mem_range.2 hc] at hle
  omega



/-- the inbox the ingress dispatches `e` to -/
def dstOf (net : Net σ ε) (e : ε) : Nat := (tgt net e).getD net.dflt

theorem dstOf_lt (net : Net σ ε) (hd : net.dflt < net.n) (e : ε) : dstOf net e < net.n := by
  unfold dstOf tgt
  cases net.route e with
  | none => simpa using hd
  | some q =>
    by_cases hq : q < net.n
    · simp [hq]
    · simpa [hq] using hd

theorem unconsumed_zero (net : Net σ ε) (l : List ε) : ∀ cnt : Nat → Nat, (∀ q, cnt q = 0) →
    unconsumed net cnt l = l := by
  induction l with
  | nil => intro cnt _; rfl
  | cons e l ih => intro cnt h; simp only [unconsumed, h, if_true]; rw [ih cnt h]

theorem unconsumed_prefix (net : Net σ ε) (l rest : List ε) : ∀ cnt : Nat → Nat,
    (∀ q, cnt q = (l.filter (fun e => dstOf net e = q)).length) →
    unconsumed net cnt (l ++ rest) = rest := by
  induction l with
  | nil => intro cnt h; exact unconsumed_zero net rest cnt (by simpa using h)
  | cons e l ih =>
    intro cnt h
    have h0 : cnt (dstOf net e) ≠ 0 := by rw [h (dstOf net e)]; simp [List.filter_cons]
    simp only [List.cons_append, unconsumed]
    have h0' : ¬ cnt ((tgt net e).getD net.dflt) = 0 := h0
    rw [if_neg h0']
    apply ih
    intro q
    by_cases hq : q = dstOf net e
    · subst hq
      have := h (dstOf net e)
      simp only [List.filter_cons, decide_true, if_true, List.length_cons] at this
      show upd cnt (dstOf net e) (cnt (dstOf net e) - 1) (dstOf net e) = _
      rw [upd_same]; omega
    · have := h q
      have hne : ¬ (dstOf net e = q) := fun h => hq h.symm
      simp only [List.filter_cons, hne, decide_false] at this
      show upd cnt (dstOf net e) (cnt (dstOf net e) - 1) q = _
      rw [upd_other _ _ _ _ hq]; simpa using this

theorem enq_ingress_eq (net : Net σ ε) (log : List (Obs ε)) (h : ∀ o ∈ log, WfObs net o) (q : Nat) :
    enq log .ingress q = (fedOk log).filter (fun e => dstOf net e = q) := by
  induction log with
  | nil => rfl
  | cons o l ih =>
    have ih' := ih (fun o' ho' => h o' (List.mem_cons_of_mem _ ho'))
    have ho := h o (List.mem_cons_self ..)
    simp only [enq, fedOk, List.filterMap_cons] at ih' ⊢
    cases o with
    | fed e q' ok =>
      simp only [WfObs] at ho
      cases ok with
      | false => simpa [enqOf, fedOkOf] using ih'
      | true =>
        by_cases hq : q' = q
        · have : dstOf net e = q := by unfold dstOf; rw [← ho]; exact hq
          simp [enqOf, fedOkOf, hq, List.filter_cons, this, ih']
        · have : ¬ dstOf net e = q := by unfold dstOf; rw [← ho]; exact hq
          simp [enqOf, fedOkOf, hq, List.filter_cons, this, ih']
    | fwd c e dst ok => cases dst <;> cases ok <;> simpa [enqOf, fedOkOf] using ih'
    | _ => simpa [enqOf, fedOkOf] using ih'

theorem snapOf_some (parts : List (Snap σ ε)) (c : Nat) (sn : Snap σ ε) (h : snapOf parts c = some sn) :
    sn ∈ parts ∧ sn.ctx = c := by
  unfold snapOf at h
  exact ⟨List.mem_of_find?_eq_some h, by simpa using List.find?_some h⟩

theorem snapOf_of_mem (parts : List (Snap σ ε)) (c : Nat) (h : ∃ sn ∈ parts, sn.ctx = c) :
    ∃ sn, snapOf parts c = some sn := by
  unfold snapOf
  cases hf : parts.find? (fun x => x.ctx == c) with
  | some sn => exact ⟨sn, rfl⟩
  | none =>
    obtain ⟨sn, hsn, hc⟩ := h
    have := List.find?_eq_none.1 hf sn hsn
    simp [hc] at this

theorem quiet_restore (net : Net σ ε) (hd : net.dflt < net.n) (inputs : List ε) (σ0 : Nat → σ)
    (s1 s2 : St σ ε) (h1 : Reach net (init inputs σ0) s1) (hq : Quiescent net s1)
    (hp : s1.pending = none) (ha : s1.acks = []) (labels : List Label) (hnf : Label.feed ∉ labels)
    (hrun : runL net s1 labels = some s2) :
    ∃ new, s2.done = s1.done ++ new ∧ ∀ ck ∈ new,
      (restore net inputs σ0 ck.2).todo = s1.todo ∧
      ∀ c, c < net.n → (restore net inputs σ0 ck.2).eng c = s1.eng c ∧
        (restore net inputs σ0 ck.2).inbox c = s1.inbox c ∧ (restore net inputs σ0 ck.2).pend c = s1.pend c := by
  have hinv := phaseInv_run net s1 labels (Or.inl hnf) s1 s2 (phaseInv_refl net s1 hq hp ha) hrun
  have hnd := phaseNd_run net s1 labels s1 s2 (phaseNd_refl net s1 hp) hrun
  obtain ⟨new, hn, hg⟩ := hinv.done
  obtain ⟨new', hn', hg'⟩ := hnd.done
  have hnew : new' = new := List.append_cancel_left (hn'.symm.trans hn)
  subst hnew
  have hfinv := finv_reach net inputs σ0 s1 h1
  have hedge := reach_edgeInv net _ s1 (edgeInv_init inputs σ0) h1
  refine ⟨new', hn, ?_⟩
  intro ck hck
  have hgood := hg ck hck
  obtain ⟨hnodup, hlen⟩ := hg' ck hck
  have hcover := snaps_cover net.n ck.2 hnodup (fun sn hsn => (hgood sn hsn).1) hlen
  constructor
  · -- the replayed inputs are exactly the not yet dispatched ones
    show unconsumed net _ inputs = s1.todo
    rw [← hfinv.todo]
    apply unconsumed_prefix
    intro q
    by_cases hqn : q < net.n
    · obtain ⟨sn, hsn⟩ := snapOf_of_mem ck.2 q (hcover q hqn)
      obtain ⟨hmem, hctx⟩ := snapOf_some ck.2 q sn hsn
      simp only [hsn]
      rw [(hgood sn hmem).2.2.2 .ingress q, ← enq_ingress_eq net s1.log hfinv.wf q, ← hedge .ingress q,
        (hq q hqn).1]
      simp [proj]
    · have hnone : snapOf ck.2 q = none := by
        cases hs : snapOf ck.2 q with
        | none => rfl
        | some sn =>
          obtain ⟨hmem, hctx⟩ := snapOf_some ck.2 q sn hs
          exact absurd (hctx ▸ (hgood sn hmem).1) hqn
      simp only [hnone]
      symm
      rw [List.length_eq_zero_iff, List.filter_eq_nil_iff]
      intro e _ he
      have : dstOf net e = q := by simpa using he
      exact hqn (this ▸ dstOf_lt net hd e)
  · intro c hc
    obtain ⟨sn, hsn⟩ := snapOf_of_mem ck.2 c (hcover c hc)
    obtain ⟨hmem, hctx⟩ := snapOf_some ck.2 c sn hsn
    refine ⟨?_, ?_, ?_⟩
    · show (match snapOf ck.2 c with | some sn => sn.eng | none => σ0 c) = s1.eng c
      rw [hsn]; simp only; rw [(hgood sn hmem).2.1, hctx]
    · simp [restore, init, (hq c hc).1]
    · simp [restore, init, (hq c hc).2]

end Varpulis.Ctx
