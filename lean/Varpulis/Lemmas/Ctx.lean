import Varpulis.Model.Ctx
/-! Lemmas about M-CTX (Model/Ctx.lean): per-edge delivery invariant, blocking vs try_send,
completeness of the successor function, the quiescent-checkpoint invariant. -/
namespace Varpulis.Ctx
variable {σ ε : Type}


theorem enq_snoc (l : List (Obs ε)) (o : Obs ε) (p : Src) (q : Nat) : enq (l ++ [o]) p q = enq l p q ++ (enqOf p q o).toList := by
  simp only [enq, List.filterMap_append, List.filterMap_cons, List.filterMap_nil]; cases enqOf p q o <;> rfl
theorem cons_snoc (l : List (Obs ε)) (o : Obs ε) (p : Src) (q : Nat) : cons (l ++ [o]) p q = cons l p q ++ (consOf p q o).toList := by
  simp only [cons, List.filterMap_append, List.filterMap_cons, List.filterMap_nil]; cases consOf p q o <;> rfl
theorem proj_snoc (p : Src) (l : List (Msg ε)) (m : Msg ε) : proj p (l ++ [m]) = proj p l ++ (projOf p m).toList := by
  simp only [proj, List.filterMap_append, List.filterMap_cons, List.filterMap_nil]; cases projOf p m <;> rfl
theorem proj_cons (p : Src) (l : List (Msg ε)) (m : Msg ε) : proj p (m :: l) = (projOf p m).toList ++ proj p l := by
  simp only [proj, List.filterMap_cons]; cases projOf p m <;> rfl

def EdgeInv (s : St σ ε) : Prop := ∀ p q, cons s.log p q ++ proj p (s.inbox q) = enq s.log p q

theorem edgeInv_step (net : Net σ ε) (s s' : St σ ε) (l : Label) (h : EdgeInv s) (hs : step net s l = some s') : EdgeInv s' := by
  intro p q
  have hpq := h p q
  cases l with
  | feed =>
    simp only [step] at hs
    split at hs
    · simp at hs
    · rename_i e rest hto
      split at hs
      · injection hs with hs; subst hs
        simp only [enq_snoc, cons_snoc, consOf, enqOf]
        by_cases hq : q = (tgt net e).getD net.dflt
        · subst hq
          simp only [upd_same, proj_snoc, projOf]
          by_cases hp : p = .ingress
          · subst hp; simp [← hpq]
          · have : ¬ (Src.ingress = p) := fun h => hp h.symm
            simp [hp, this, hpq]
        · rw [upd_other _ _ _ _ hq]
          have : ¬ ((tgt net e).getD net.dflt = q) := fun h => hq h.symm
          simp [this, hpq]
      · injection hs with hs; subst hs
        simp [enq_snoc, cons_snoc, enqOf, consOf, hpq]
  | recv c =>
    simp only [step] at hs
    split at hs
    · rename_i hc
      split at hs
      · simp at hs
      · rename_i src e rest hin
        injection hs with hs; subst hs
        simp only [enq_snoc, cons_snoc, consOf, enqOf]
        by_cases hq : q = c
        · subst hq
          rw [hin, proj_cons] at hpq
          simp only [upd_same, projOf] at *
          by_cases hp : src = p
          · subst hp; simpa using hpq
          · simpa [hp] using hpq
        · rw [upd_other _ _ _ _ hq]
          have : ¬ (c = q) := fun h => hq h.symm
          simp [this, hpq]
      · rename_i k rest hin
        injection hs with hs; subst hs
        simp only [enq_snoc, cons_snoc, consOf, enqOf]
        by_cases hq : q = c
        · subst hq
          rw [hin, proj_cons] at hpq
          simpa [projOf] using hpq
        · rw [upd_other _ _ _ _ hq]; simpa using hpq
    · simp at hs
  | fwd c =>
    simp only [step] at hs
    split at hs
    · split at hs
      · simp at hs
      · rename_i e rest hpe
        split at hs
        · injection hs with hs; subst hs
          simp [enq_snoc, cons_snoc, consOf, enqOf, hpq]
        · rename_i q' htg
          split at hs
          · injection hs with hs; subst hs
            simp only [enq_snoc, cons_snoc, consOf, enqOf]
            by_cases hq : q = q'
            · subst hq
              simp only [upd_same, proj_snoc, projOf]
              by_cases hp : p = .ctx c
              · subst hp; simp [← hpq]
              · have : ¬ (Src.ctx c = p) := fun h => hp h.symm
                simp [hp, this, hpq]
            · rw [upd_other _ _ _ _ hq]
              have : ¬ (q' = q) := fun h => hq h.symm
              simp [this, hpq]
          · split at hs
            · simp at hs
            · injection hs with hs; subst hs
              simp [enq_snoc, cons_snoc, consOf, enqOf, hpq]
    · simp at hs
  | start =>
    simp only [step] at hs
    split at hs
    · simp at hs
    · injection hs with hs; subst hs
      simp [enq_snoc, cons_snoc, consOf, enqOf, hpq]
  | inject c =>
    simp only [step] at hs
    split at hs
    · simp at hs
    · rename_i pd hpd
      split at hs
      · split at hs
        · injection hs with hs; subst hs
          simp only [enq_snoc, cons_snoc, consOf, enqOf]
          by_cases hq : q = c
          · subst hq
            simp [proj_snoc, projOf, hpq]
          · rw [upd_other _ _ _ _ hq]; simp [hpq]
        · injection hs with hs; subst hs
          simp [enq_snoc, cons_snoc, consOf, enqOf, hpq]
      · simp at hs
  | collect =>
    simp only [step] at hs
    split at hs
    · simp at hs
    · split at hs
      · injection hs with hs; subst hs
        simp [enq_snoc, cons_snoc, consOf, enqOf, hpq]
      · split at hs
        · split at hs
          · injection hs with hs; subst hs
            simp [enq_snoc, cons_snoc, consOf, enqOf, hpq]
          · injection hs with hs; subst hs
            simp [enq_snoc, cons_snoc, consOf, enqOf, hpq]
        · injection hs with hs; subst hs
          simp [enq_snoc, cons_snoc, consOf, enqOf, hpq]


theorem sent_snoc (l : List (Obs ε)) (o : Obs ε) (c q : Nat) : sent (l ++ [o]) c q = sent l c q ++ (sentOf c q o).toList := by
  simp only [sent, List.filterMap_append, List.filterMap_cons, List.filterMap_nil]; cases sentOf c q o <;> rfl
theorem drops_snoc (l : List (Obs ε)) (o : Obs ε) (c q : Nat) : drops (l ++ [o]) c q = drops l c q ++ (dropOf c q o).toList := by
  simp only [drops, List.filterMap_append, List.filterMap_cons, List.filterMap_nil]; cases dropOf c q o <;> rfl

/-- every step appends exactly one observation -/
theorem step_log (net : Net σ ε) (s s' : St σ ε) (l : Label) (hs : step net s l = some s') :
    ∃ o, s'.log = s.log ++ [o] := by
  cases l <;> simp only [step] at hs <;> (repeat' split at hs) <;>
    first | (simp at hs; done) | (injection hs with hs; subst hs; exact ⟨_, rfl⟩)

/-- a failed forward happens only in try_send mode -/
theorem step_obs_blocking (net : Net σ ε) (s s' : St σ ε) (l : Label) (hb : net.blocking = true)
    (hs : step net s l = some s') : ∀ c e q, s'.log ≠ s.log ++ [Obs.fwd c e (some q) false] := by
  intro c e q
  cases l <;> simp only [step] at hs <;> (repeat' split at hs) <;>
    first | (simp at hs; done) | (injection hs with hs; subst hs; simp) | (simp_all)

/-- what one observation contributes: an attempted forward is either enqueued or dropped -/
theorem sentOf_split (c q : Nat) (o : Obs ε) :
    ((sentOf c q o).toList).Perm ((enqOf (.ctx c) q o).toList ++ (dropOf c q o).toList) := by
  cases o with
  | fwd c' e dst ok =>
    cases dst with
    | none => simp [sentOf, enqOf, dropOf]
    | some q' =>
      by_cases h : c' = c ∧ q' = q
      · obtain ⟨h1, h2⟩ := h; subst h1; subst h2
        cases ok <;> simp [sentOf, enqOf, dropOf]
      · have h' : ¬ (c = c' ∧ q' = q) := fun h' => h ⟨h'.1.symm, h'.2⟩
        cases ok <;> simp [sentOf, enqOf, dropOf, h, h']
  | fed e q' ok => cases ok <;> simp [sentOf, enqOf, dropOf]
  | _ => simp [sentOf, enqOf, dropOf]

theorem sent_perm (log : List (Obs ε)) (c q : Nat) :
    (sent log c q).Perm (enq log (.ctx c) q ++ drops log c q) := by
  induction log with
  | nil => simp [sent, enq, drops]
  | cons o l ih =>
    have hs : sent (o :: l) c q = (sentOf c q o).toList ++ sent l c q := by
      simp only [sent, List.filterMap_cons]; cases sentOf c q o <;> rfl
    have he : enq (o :: l) (.ctx c) q = (enqOf (.ctx c) q o).toList ++ enq l (.ctx c) q := by
      simp only [enq, List.filterMap_cons]; cases enqOf (.ctx c) q o <;> rfl
    have hd : drops (o :: l) c q = (dropOf c q o).toList ++ drops l c q := by
      simp only [drops, List.filterMap_cons]; cases dropOf c q o <;> rfl
    rw [hs, he, hd]
    refine (List.Perm.append (sentOf_split c q o) ih).trans ?_
    simp only [List.append_assoc]
    apply List.Perm.append_left
    rw [← List.append_assoc, ← List.append_assoc]
    apply List.Perm.append_right
    exact List.perm_append_comm

theorem reach_edgeInv (net : Net σ ε) (s0 s : St σ ε) (h0 : EdgeInv s0) (h : Reach net s0 s) : EdgeInv s := by
  induction h with
  | refl => exact h0
  | tail l _ hs ih => exact edgeInv_step net _ _ l ih hs

theorem edgeInv_init (inputs : List ε) (σ0 : Nat → σ) : EdgeInv (init inputs σ0) := by
  intro p q; simp [init, cons, enq, proj]

/-- no forwarding attempt ever failed -/
def NoDrop (log : List (Obs ε)) : Prop := ∀ o ∈ log, ∀ c e q, o ≠ Obs.fwd c e (some q) false

theorem reach_noDrop (net : Net σ ε) (hb : net.blocking = true) (s0 s : St σ ε) (h0 : NoDrop s0.log)
    (h : Reach net s0 s) : NoDrop s.log := by
  induction h with
  | refl => exact h0
  | tail l _ hs ih =>
    obtain ⟨o, ho⟩ := step_log net _ _ l hs
    intro o' hmem c e q
    rw [ho] at hmem
    rcases List.mem_append.1 hmem with hm | hm
    · exact ih o' hm c e q
    · simp at hm; subst hm
      intro heq; subst heq
      exact step_obs_blocking net _ _ l hb hs c e q ho

theorem sent_eq_enq_of_noDrop (log : List (Obs ε)) (c q : Nat) (h : NoDrop log) :
    sent log c q = enq log (.ctx c) q := by
  induction log with
  | nil => rfl
  | cons o l ih =>
    have hl : NoDrop l := fun o' hm => h o' (List.mem_cons_of_mem _ hm)
    have ho := h o (List.mem_cons_self ..)
    simp only [sent, enq, List.filterMap_cons] at ih ⊢
    have : sentOf c q o = enqOf (.ctx c) q o := by
      cases o with
      | fwd c' e dst ok =>
        cases dst with
        | none => rfl
        | some q' =>
          cases ok with
          | false => exact absurd rfl (ho c' e q')
          | true =>
            by_cases h1 : c' = c ∧ q' = q
            · obtain ⟨h1, h2⟩ := h1; subst h1; subst h2; simp [sentOf, enqOf]
            · have h' : ¬ (c = c' ∧ q' = q) := fun h' => h1 ⟨h'.1.symm, h'.2⟩
              simp [sentOf, enqOf, h1, h']
      | fed e q' ok => cases ok <;> simp [sentOf, enqOf]
      | _ => simp [sentOf, enqOf]
    rw [this, ih hl]

theorem drops_nil_of_noDrop (log : List (Obs ε)) (c q : Nat) (h : NoDrop log) : drops log c q = [] := by
  induction log with
  | nil => rfl
  | cons o l ih =>
    have hl : NoDrop l := fun o' hm => h o' (List.mem_cons_of_mem _ hm)
    have ho := h o (List.mem_cons_self ..)
    simp only [drops, List.filterMap_cons] at ih ⊢
    have : dropOf c q o = none := by
      cases o with
      | fwd c' e dst ok =>
        cases dst with
        | none => rfl
        | some q' =>
          cases ok with
          | false => exact absurd rfl (ho c' e q')
          | true => rfl
      | _ => rfl
    rw [this]; exact ih hl

end Varpulis.Ctx
