import Varpulis.Model.Ctx
/-! Lemmas about M-CTX (Model/Ctx.lean): per-edge delivery invariant, blocking vs try_send,
completeness of the successor function, the quiescent-checkpoint invariant. -/
namespace Varpulis.Ctx
variable {σ ε : Type}


theorem enq_snoc (l : List (Obs ε)) (o : Obs ε) (p : Src) (q : Nat) : enq (l ++ [o]) p q = enq l p q ++ (enqOf p q o).toList := by
  simp only [enq, List.filterMap_append, List.filterMap_cons, List.filterMap_nil]; cases enqOf p q o <;> rfl
theorem cons_snoc (l : List (Obs ε)) (o : Obs ε) (p : Src) (q : Nat) : cons (l ++ [o]) p q = cons l p q ++ (consOf p q o).toList := by
  simp only [cons, List.filterMap_append, List.filterMap_cons, List.filterMap_nil]; cases consOf p q o <;> rfl
theorem proj_snoc (p : Src) (l : List (Msg ε)) (m : Msg ε) : proj p (l ++ [m]) = proj p l ++ (projOf p m).toList := by
  simp only [proj, List.filterMap_append, List.filterMap_cons, List.filterMap_nil]; cases projOf p m <;> rfl
theorem proj_cons (p : Src) (l : List (Msg ε)) (m : Msg ε) : proj p (m :: l) = (projOf p m).toList ++ proj p l := by
  simp only [proj, List.filterMap_cons]; cases projOf p m <;> rfl

def EdgeInv (s : St σ ε) : Prop := ∀ p q, cons s.log p q ++ proj p (s.inbox q) = enq s.log p q

theorem edgeInv_step (net : Net σ ε) (s s' : St σ ε) (l : Label) (h : EdgeInv s) (hs : step net s l = some s') : EdgeInv s' := by
  intro p q
  have hpq := h p q
  cases l with
  | feed =>
    simp only [step] at hs
    split at hs
    · simp at hs
    · rename_i e rest hto
      split at hs
      · injection hs with hs; subst hs
        simp only [enq_snoc, cons_snoc, consOf, enqOf]
        by_cases hq : q = (tgt net e).getD net.dflt
        · subst hq
          simp only [upd_same, proj_snoc, projOf]
          by_cases hp : p = .ingress
          · subst hp; simp [← hpq]
          · have : ¬ (Src.ingress = p) := fun h => hp h.symm
            simp [hp, this, hpq]
        · rw [upd_other _ _ _ _ hq]
          have : ¬ ((tgt net e).getD net.dflt = q) := fun h => hq h.symm
          simp [this, hpq]
      · injection hs with hs; subst hs
        simp [enq_snoc, cons_snoc, enqOf, consOf, hpq]
  | recv c =>
    simp only [step] at hs
    split at hs
    · rename_i hc
      split at hs
      · simp at hs
      · rename_i src e rest hin
        injection hs with hs; subst hs
        simp only [enq_snoc, cons_snoc, consOf, enqOf]
        by_cases hq : q = c
        · subst hq
          rw [hin, proj_cons] at hpq
          simp only [upd_same, projOf] at *
          by_cases hp : src = p
          · subst hp; simpa using hpq
          · simpa [hp] using hpq
        · rw [upd_other _ _ _ _ hq]
          have : ¬ (c = q) := fun h => hq h.symm
          simp [this, hpq]
      · rename_i k rest hin
        injection hs with hs; subst hs
        simp only [enq_snoc, cons_snoc, consOf, enqOf]
        by_cases hq : q = c
        · subst hq
          rw [hin, proj_cons] at hpq
          simpa [projOf] using hpq
        · rw [upd_other _ _ _ _ hq]; simpa using hpq
    · simp at hs
  | fwd c =>
    simp only [step] at hs
    split at hs
    · split at hs
      · simp at hs
      · rename_i e rest hpe
        split at hs
        · injection hs with hs; subst hs
          simp [enq_snoc, cons_snoc, consOf, enqOf, hpq]
        · rename_i q' htg
          split at hs
          · injection hs with hs; subst hs
            simp only [enq_snoc, cons_snoc, consOf, enqOf]
            by_cases hq : q = q'
            · subst hq
              simp only [upd_same, proj_snoc, projOf]
              by_cases hp : p = .ctx c
              · subst hp; simp [← hpq]
              · have : ¬ (Src.ctx c = p) := fun h => hp h.symm
                simp [hp, this, hpq]
            · rw [upd_other _ _ _ _ hq]
              have : ¬ (q' = q) := fun h => hq h.symm
              simp [this, hpq]
          · split at hs
            · simp at hs
            · injection hs with hs; subst hs
              simp [enq_snoc, cons_snoc, consOf, enqOf, hpq]
    · simp at hs
  | start =>
    simp only [step] at hs
    split at hs
    · simp at hs
    · injection hs with hs; subst hs
      simp [enq_snoc, cons_snoc, consOf, enqOf, hpq]
  | inject c =>
    simp only [step] at hs
    split at hs
    · simp at hs
    · rename_i pd hpd
      split at hs
      · split at hs
        · injection hs with hs; subst hs
          simp only [enq_snoc, cons_snoc, consOf, enqOf]
          by_cases hq : q = c
          · subst hq
            simp [proj_snoc, projOf, hpq]
          · rw [upd_other _ _ _ _ hq]; simp [hpq]
        · injection hs with hs; subst hs
          simp [enq_snoc, cons_snoc, consOf, enqOf, hpq]
      · simp at hs
  | collect =>
    simp only [step] at hs
    split at hs
    · simp at hs
    · split at hs
      · injection hs with hs; subst hs
        simp [enq_snoc, cons_snoc, consOf, enqOf, hpq]
      · split at hs
        · split at hs
          · injection hs with hs; subst hs
            simp [enq_snoc, cons_snoc, consOf, enqOf, hpq]
          · injection hs with hs; subst hs
            simp [enq_snoc, cons_snoc, consOf, enqOf, hpq]
        · injection hs with hs; subst hs
          simp [enq_snoc, cons_snoc, consOf, enqOf, hpq]


theorem sent_snoc (l : List (Obs ε)) (o : Obs ε) (c q : Nat) : sent (l ++ [o]) c q = sent l c q ++ (sentOf c q o).toList := by
  simp only [sent, List.filterMap_append, List.filterMap_cons, List.filterMap_nil]; cases sentOf c q o <;> rfl
theorem drops_snoc (l : List (Obs ε)) (o : Obs ε) (c q : Nat) : drops (l ++ [o]) c q = drops l c q ++ (dropOf c q o).toList := by
  simp only [drops, List.filterMap_append, List.filterMap_cons, List.filterMap_nil]; cases dropOf c q o <;> rfl

/-- every step appends exactly one observation -/
theorem step_log (net : Net σ ε) (s s' : St σ ε) (l : Label) (hs : step net s l = some s') :
    ∃ o, s'.log = s.log ++ [o] := by
  cases l <;> simp only [step] at hs <;> (repeat' split at hs) <;>
    first | (simp at hs; done) | (injection hs with hs; subst hs; exact ⟨_, rfl⟩)

/-- a failed forward happens only in try_send mode -/
theorem step_obs_blocking (net : Net σ ε) (s s' : St σ ε) (l : Label) (hb : net.blocking = true)
    (hs : step net s l = some s') : ∀ c e q, s'.log ≠ s.log ++ [Obs.fwd c e (some q) false] := by
  intro c e q
  cases l <;> simp only [step] at hs <;> (repeat' split at hs) <;>
    first | (simp at hs; done) | (injection hs with hs; subst hs; simp) | (simp_all)

/-- what one observation contributes: an attempted forward is either enqueued or dropped -/
theorem sentOf_split (c q : Nat) (o : Obs ε) :
    ((sentOf c q o).toList).Perm ((enqOf (.ctx c) q o).toList ++ (dropOf c q o).toList) := by
  cases o with
  | fwd c' e dst ok =>
    cases dst with
    | none => simp [sentOf, enqOf, dropOf]
    | some q' =>
      by_cases h : c' = c ∧ q' = q
      · obtain ⟨h1, h2⟩ := h; subst h1; subst h2
        cases ok <;> simp [sentOf, enqOf, dropOf]
      · have h' : ¬ (c = c' ∧ q' = q) := fun h' => h ⟨h'.1.symm, h'.2⟩
        cases ok <;> simp [sentOf, enqOf, dropOf, h, h']
  | fed e q' ok => cases ok <;> simp [sentOf, enqOf, dropOf]
  | _ => simp [sentOf, enqOf, dropOf]

theorem sent_perm (log : List (Obs ε)) (c q : Nat) :
    (sent log c q).Perm (enq log (.ctx c) q ++ drops log c q) := by
  induction log with
  | nil => simp [sent, enq, drops]
  | cons o l ih =>
    have hs : sent (o :: l) c q = (sentOf c q o).toList ++ sent l c q := by
      simp only [sent, List.filterMap_cons]; cases sentOf c q o <;> rfl
    have he : enq (o :: l) (.ctx c) q = (enqOf (.ctx c) q o).toList ++ enq l (.ctx c) q := by
      simp only [enq, List.filterMap_cons]; cases enqOf (.ctx c) q o <;> rfl
    have hd : drops (o :: l) c q = (dropOf c q o).toList ++ drops l c q := by
      simp only [drops, List.filterMap_cons]; cases dropOf c q o <;> rfl
    rw [hs, he, hd]
    refine (List.Perm.append (sentOf_split c q o) ih).trans ?_
    simp only [List.append_assoc]
    apply List.Perm.append_left
    rw [← List.append_assoc, ← List.append_assoc]
    apply List.Perm.append_right
    exact List.perm_append_comm

theorem reach_edgeInv (net : Net σ ε) (s0 s : St σ ε) (h0 : EdgeInv s0) (h : Reach net s0 s) : EdgeInv s := by
  induction h with
  | refl => exact h0
  | tail l _ hs ih => exact edgeInv_step net _ _ l ih hs

theorem edgeInv_init (inputs : List ε) (σ0 : Nat → σ) : EdgeInv (init inputs σ0) := by
  intro p q; simp [init, cons, enq, proj]

/-- no forwarding attempt ever failed -/
def NoDrop (log : List (Obs ε)) : Prop := ∀ o ∈ log, ∀ c e q, o ≠ Obs.fwd c e (some q) false

theorem reach_noDrop (net : Net σ ε) (hb : net.blocking = true) (s0 s : St σ ε) (h0 : NoDrop s0.log)
    (h : Reach net s0 s) : NoDrop s.log := by
  induction h with
  | refl => exact h0
  | tail l _ hs ih =>
    obtain ⟨o, ho⟩ := step_log net _ _ l hs
    intro o' hmem c e q
    rw [ho] at hmem
    rcases List.mem_append.1 hmem with hm | hm
    · exact ih o' hm c e q
    · simp at hm; subst hm
      intro heq; subst heq
      exact step_obs_blocking net _ _ l hb hs c e q ho

theorem sent_eq_enq_of_noDrop (log : List (Obs ε)) (c q : Nat) (h : NoDrop log) :
    sent log c q = enq log (.ctx c) q := by
  induction log with
  | nil => rfl
  | cons o l ih =>
    have hl : NoDrop l := fun o' hm => h o' (List.mem_cons_of_mem _ hm)
    have ho := h o (List.mem_cons_self ..)
    simp only [sent, enq, List.filterMap_cons] at ih ⊢
    have : sentOf c q o = enqOf (.ctx c) q o := by
      cases o with
      | fwd c' e dst ok =>
        cases dst with
        | none => rfl
        | some q' =>
          cases ok with
          | false => exact absurd rfl (ho c' e q')
          | true =>
            by_cases h1 : c' = c ∧ q' = q
            · obtain ⟨h1, h2⟩ := h1; subst h1; subst h2; simp [sentOf, enqOf]
            · have h' : ¬ (c = c' ∧ q' = q) := fun h' => h1 ⟨h'.1.symm, h'.2⟩
              simp [sentOf, enqOf, h1, h']
      | fed e q' ok => cases ok <;> simp [sentOf, enqOf]
      | _ => simp [sentOf, enqOf]
    rw [this, ih hl]

theorem drops_nil_of_noDrop (log : List (Obs ε)) (c q : Nat) (h : NoDrop log) : drops log c q = [] := by
  induction log with
  | nil => rfl
  | cons o l ih =>
    have hl : NoDrop l := fun o' hm => h o' (List.mem_cons_of_mem _ hm)
    have ho := h o (List.mem_cons_self ..)
    simp only [drops, List.filterMap_cons] at ih ⊢
    have : dropOf c q o = none := by
      cases o with
      | fwd c' e dst ok =>
        cases dst with
        | none => rfl
        | some q' =>
          cases ok with
          | false => exact absurd rfl (ho c' e q')
          | true => rfl
      | _ => rfl
    rw [this]; exact ih hl

theorem next_sound (net : Net σ ε) (s s' : St σ ε) (l : Label) (h : (l, s') ∈ next net s) : Step net s l s' := by
  simp only [next, List.mem_filterMap] at h
  obtain ⟨l', _, hl⟩ := h
  cases hst : step net s l' with
  | none => simp [hst] at hl
  | some s'' =>
    simp [hst] at hl
    obtain ⟨h1, h2⟩ := hl; subst h1; subst h2; exact hst

theorem next_complete (net : Net σ ε) (s s' : St σ ε) (l : Label) (h : Step net s l s') : (l, s') ∈ next net s := by
  unfold Step at h
  simp only [next, List.mem_filterMap]
  refine ⟨l, ?_, by simp [h]⟩
  simp only [candidates, List.mem_append, List.mem_flatMap, List.mem_range]
  cases l with
  | feed => simp
  | start => simp
  | collect => simp
  | recv c =>
    left; right
    simp only [step] at h
    split at h
    · rename_i hc; exact ⟨c, hc.1, by simp⟩
    · simp at h
  | fwd c =>
    left; right
    simp only [step] at h
    split at h
    · rename_i hc; exact ⟨c, hc, by simp⟩
    · simp at h
  | inject c =>
    right
    simp only [step] at h
    split at h
    · simp at h
    · rename_i p hp
      split at h
      · rename_i hc; simp [hp, hc]
      · simp at h

/-- a snapshot taken while nothing has moved since `s1` -/
def GoodSnap (net : Net σ ε) (s1 : St σ ε) (sn : Snap σ ε) : Prop :=
  sn.ctx < net.n ∧ sn.eng = s1.eng sn.ctx ∧
  (∀ p q, enq sn.hist p q = enq s1.log p q) ∧ (∀ p q, cons sn.hist p q = cons s1.log p q)

structure PhaseInv (net : Net σ ε) (s1 s : St σ ε) : Prop where
  todo : s.todo = s1.todo
  out : s.out = s1.out
  eng : ∀ c, s.eng c = s1.eng c
  pend : ∀ c, c < net.n → s.pend c = []
  bars : ∀ c, c < net.n → ∀ m ∈ s.inbox c, ∃ k, m = Msg.bar k
  enq : ∀ p q, enq s.log p q = enq s1.log p q
  cons : ∀ p q, cons s.log p q = cons s1.log p q
  acks : ∀ a ∈ s.acks, GoodSnap net s1 a.2
  got : ∀ p, s.pending = some p → ∀ sn ∈ p.got, GoodSnap net s1 sn
  done : ∃ new, s.done = s1.done ++ new ∧ ∀ ck ∈ new, ∀ sn ∈ ck.2, GoodSnap net s1 sn

theorem phaseInv_refl (net : Net σ ε) (s1 : St σ ε) (hq : Quiescent net s1) (hp : s1.pending = none)
    (ha : s1.acks = []) : PhaseInv net s1 s1 where
  todo := rfl
  out := rfl
  eng := fun _ => rfl
  pend := fun c hc => (hq c hc).2
  bars := fun c hc m hm => by rw [(hq c hc).1] at hm; simp at hm
  enq := fun _ _ => rfl
  cons := fun _ _ => rfl
  acks := fun a h => by rw [ha] at h; simp at h
  got := fun p h => by rw [hp] at h; simp at h
  done := ⟨[], by simp, by simp⟩

theorem phaseInv_step (net : Net σ ε) (s1 s s' : St σ ε) (l : Label) (hl : l ≠ .feed ∨ s1.todo = [])
    (h : PhaseInv net s1 s) (hs : step net s l = some s') : PhaseInv net s1 s' := by
  obtain ⟨htodo, hout, heng, hpend, hbars, henq, hcons, hacks, hgot, hdone⟩ := h
  cases l with
  | feed =>
    rcases hl with hl | hl
    · exact absurd rfl hl
    · simp only [step] at hs
      rw [htodo, hl] at hs; simp at hs
  | recv c =>
    simp only [step] at hs
    split at hs
    · rename_i hc
      split at hs
      · simp at hs
      · rename_i src e rest hin
        have := hbars c hc.1 (Msg.ev src e) (by rw [hin]; simp)
        obtain ⟨k, hk⟩ := this; cases hk
      · rename_i k rest hin
        injection hs with hs; subst hs
        refine ⟨htodo, hout, heng, hpend, ?_, ?_, ?_, ?_, hgot, hdone⟩
        · intro c' hc' m hm
          by_cases hcc : c' = c
          · subst hcc; simp only [upd_same] at hm
            exact hbars c' hc' m (by rw [hin]; exact List.mem_cons_of_mem _ hm)
          · simp only [upd_other _ _ _ _ hcc] at hm; exact hbars c' hc' m hm
        · intro p q; simp [enq_snoc, enqOf, henq]
        · intro p q; simp [cons_snoc, consOf, hcons]
        · intro a ha
          rcases List.mem_append.1 ha with ha | ha
          · exact hacks a ha
          · simp at ha; subst ha
            exact ⟨hc.1, heng c, henq, hcons⟩
    · simp at hs
  | fwd c =>
    simp only [step] at hs
    split at hs
    · rename_i hc
      rw [hpend c hc] at hs; simp at hs
    · simp at hs
  | start =>
    simp only [step] at hs
    split at hs
    · simp at hs
    · injection hs with hs; subst hs
      refine ⟨htodo, hout, heng, hpend, hbars, ?_, ?_, hacks, ?_, hdone⟩
      · intro p q; simp [enq_snoc, enqOf, henq]
      · intro p q; simp [cons_snoc, consOf, hcons]
      · intro p hp sn hsn; simp at hp; subst hp; simp at hsn
  | inject c =>
    simp only [step] at hs
    split at hs
    · simp at hs
    · rename_i pd hpd
      split at hs
      · split at hs
        · injection hs with hs; subst hs
          refine ⟨htodo, hout, heng, hpend, ?_, ?_, ?_, hacks, ?_, hdone⟩
          · intro c' hc' m hm
            by_cases hcc : c' = c
            · subst hcc; simp only [upd_same] at hm
              rcases List.mem_append.1 hm with hm | hm
              · exact hbars c' hc' m hm
              · simp at hm; exact ⟨_, hm⟩
            · simp only [upd_other _ _ _ _ hcc] at hm; exact hbars c' hc' m hm
          · intro p q; simp [enq_snoc, enqOf, henq]
          · intro p q; simp [cons_snoc, consOf, hcons]
          · intro p hp sn hsn; simp at hp; subst hp; exact hgot pd hpd sn hsn
        · injection hs with hs; subst hs
          refine ⟨htodo, hout, heng, hpend, hbars, ?_, ?_, hacks, ?_, hdone⟩
          · intro p q; simp [enq_snoc, enqOf, henq]
          · intro p q; simp [cons_snoc, consOf, hcons]
          · intro p hp sn hsn; simp at hp; subst hp; exact hgot pd hpd sn hsn
      · simp at hs
  | collect =>
    simp only [step] at hs
    split at hs
    · simp at hs
    · rename_i k sn rest hak
      have hsn : GoodSnap net s1 sn := hacks (k, sn) (by rw [hak]; simp)
      have hrest : ∀ a ∈ rest, GoodSnap net s1 a.2 := fun a ha => hacks a (by rw [hak]; exact List.mem_cons_of_mem _ ha)
      split at hs
      · injection hs with hs; subst hs
        refine ⟨htodo, hout, heng, hpend, hbars, ?_, ?_, hrest, ?_, hdone⟩
        · intro p q; simp [enq_snoc, enqOf, henq]
        · intro p q; simp [cons_snoc, consOf, hcons]
        · intro p hp; rename_i hnone; simp [hnone] at hp
      · rename_i pd hpd
        have hgot' : ∀ x ∈ pd.got.filter (fun x => x.ctx != sn.ctx) ++ [sn], GoodSnap net s1 x := by
          intro x hx
          rcases List.mem_append.1 hx with hx | hx
          · exact hgot pd hpd x (List.mem_filter.1 hx).1
          · simp at hx; subst hx; exact hsn
        split at hs
        · split at hs
          · injection hs with hs; subst hs
            refine ⟨htodo, hout, heng, hpend, hbars, ?_, ?_, hrest, ?_, ?_⟩
            · intro p q; simp [enq_snoc, enqOf, henq]
            · intro p q; simp [cons_snoc, consOf, hcons]
            · intro p hp; simp at hp
            · obtain ⟨new, hn1, hn2⟩ := hdone
              refine ⟨new ++ [(k, pd.got.filter (fun x => x.ctx != sn.ctx) ++ [sn])], by simp [hn1], ?_⟩
              intro ck hck
              rcases List.mem_append.1 hck with hck | hck
              · exact hn2 ck hck
              · simp at hck; subst hck; exact hgot'
          · injection hs with hs; subst hs
            refine ⟨htodo, hout, heng, hpend, hbars, ?_, ?_, hrest, ?_, hdone⟩
            · intro p q; simp [enq_snoc, enqOf, henq]
            · intro p q; simp [cons_snoc, consOf, hcons]
            · intro p hp sn' hsn'; simp at hp; subst hp; exact hgot' sn' hsn'
        · injection hs with hs; subst hs
          refine ⟨htodo, hout, heng, hpend, hbars, ?_, ?_, hrest, ?_, hdone⟩
          · intro p q; simp [enq_snoc, enqOf, henq]
          · intro p q; simp [cons_snoc, consOf, hcons]
          · intro p hp sn' hsn'; exact hgot p hp sn' hsn'

theorem phaseInv_run (net : Net σ ε) (s1 : St σ ε) (labels : List Label)
    (hnf : Label.feed ∉ labels ∨ s1.todo = []) :
    ∀ s s', PhaseInv net s1 s → runL net s labels = some s' → PhaseInv net s1 s' := by
  induction labels with
  | nil => intro s s' h hr; simp [runL] at hr; subst hr; exact h
  | cons l ls ih =>
    intro s s' h hr
    simp only [runL] at hr
    split at hr
    · rename_i s'' hst
      have hl : l ≠ .feed ∨ s1.todo = [] := hnf.imp (fun hnf hh => hnf (by simp [hh])) id
      exact ih (hnf.imp (fun hnf hh => hnf (List.mem_cons_of_mem _ hh)) id) s'' s'
        (phaseInv_step net s1 s s'' l hl h hst) hr
    · simp at hr

theorem goodSnaps_consistent (net : Net σ ε) (s1 : St σ ε) (he : EdgeInv s1) (hq : Quiescent net s1)
    (parts : List (Snap σ ε)) (h : ∀ sn ∈ parts, GoodSnap net s1 sn) : CutConsistent parts := by
  intro a ha b hb
  obtain ⟨_, _, hea, _⟩ := h a ha
  obtain ⟨hbn, _, _, hcb⟩ := h b hb
  rw [hea, hcb, ← he (.ctx a.ctx) b.ctx, (hq b.ctx hbn).1]
  simp [proj]

theorem phaseInv_reach (net : Net σ ε) (s1 s : St σ ε) (ht : s1.todo = []) (h1 : PhaseInv net s1 s1)
    (h : Reach net s1 s) : PhaseInv net s1 s := by
  induction h with
  | refl => exact h1
  | tail l _ hs ih => exact phaseInv_step net s1 _ _ l (Or.inr ht) ih hs

theorem runL_reach (net : Net σ ε) (s0 : St σ ε) (ls : List Label) :
    ∀ s s', Reach net s0 s → runL net s ls = some s' → Reach net s0 s' := by
  induction ls with
  | nil => intro s s' h hr; simp [runL] at hr; subst hr; exact h
  | cons l ls ih =>
    intro s s' h hr
    simp only [runL] at hr
    split at hr
    · rename_i s'' hst; exact ih s'' s' (Reach.tail l h hst) hr
    · simp at hr

def chk (o : Option (St σ ε)) (p : St σ ε → Bool) : Bool :=
  match o with
  | some s => p s
  | none => false

theorem witness (net : Net σ ε) (s0 : St σ ε) (ls : List Label) (p : St σ ε → Bool)
    (h : chk (runL net s0 ls) p = true) : ∃ s, Reach net s0 s ∧ p s = true := by
  unfold chk at h
  split at h
  · rename_i s hs; exact ⟨s, runL_reach net s0 ls s0 s Reach.refl hs, h⟩
  · simp at h

instance [DecidableEq ε] (parts : List (Snap σ ε)) : Decidable (CutConsistent parts) := by
  unfold CutConsistent; infer_instance

/-! ## concrete networks for the witnesses (events are numbers; the tens digit is the type) -/

/-- two contexts in a row: inputs `1..9` go to context 0, whose stream emits `e+10`; that is
consumed by a stream of context 1, which emits `e+10` again (not routed further) -/
def chain2 (cap : Nat) (blocking : Bool) : Net Unit Nat :=
  { n := 2, cap := cap, blocking := blocking, dflt := 0,
    route := fun e => if e < 10 then some 0 else if e < 20 then some 1 else none,
    proc := fun _ _ e => ((), [e + 10]) }

/-- two contexts in a cycle: inputs and the stream of context 1 are consumed in context 0
(which reacts only to inputs), the stream of context 0 in context 1 -/
def cycle2 (cap : Nat) (blocking : Bool) : Net Unit Nat :=
  { n := 2, cap := cap, blocking := blocking, dflt := 0,
    route := fun e => if e < 10 then some 0 else if e < 20 then some 1 else if e < 30 then some 0 else none,
    proc := fun c _ e => ((), if c = 0 then (if e < 10 then [e + 10] else []) else [e + 10]) }

end Varpulis.Ctx
