import Varpulis.Model.RaftSM
import Varpulis.Generated.RaftCommands
/-! Lemmas about M-RAFTSM: batching, well-formedness (no panic), total versions, snapshots. -/
namespace Varpulis.RaftSM

@[simp] theorem Outcome.bind_ok {α β : Type} (a : α) (f : α → Outcome β) : (Outcome.ok a).bind f = f a := rfl
@[simp] theorem Outcome.bind_panic {α β : Type} (f : α → Outcome β) : (Outcome.panic : Outcome α).bind f = .panic := rfl

theorem Outcome.bind_assoc {α β γ : Type} (o : Outcome α) (f : α → Outcome β) (g : β → Outcome γ) :
    (o.bind f).bind g = o.bind (fun a => (f a).bind g) := by
  cases o <;> rfl

/-! ### batching -/

theorem applyEntries_append (sm : SM) (xs ys : List Entry) :
    applyEntries sm (xs ++ ys) = (applyEntries sm xs).bind (fun sm' => applyEntries sm' ys) := by
  induction xs generalizing sm with
  | nil => rfl
  | cons e es ih =>
    simp only [List.cons_append, applyEntries]
    cases h : applyEntry sm e with
    | ok sm' => simp [ih]
    | panic => simp

theorem applyBatches_flatten (sm : SM) (bs : List (List Entry)) :
    applyBatches sm bs = applyEntries sm bs.flatten := by
  induction bs generalizing sm with
  | nil => rfl
  | cons b bs ih =>
    simp only [applyBatches, List.flatten_cons, applyEntries_append]
    cases applyEntries sm b with
    | ok sm' => simp [ih]
    | panic => simp

theorem applyEntriesT_append (sm : SM) (xs ys : List Entry) :
    applyEntriesT sm (xs ++ ys) = applyEntriesT (applyEntriesT sm xs) ys := by
  simp [applyEntriesT, List.foldl_append]

@[simp] theorem applyEntriesT_nil (sm : SM) : applyEntriesT sm [] = sm := rfl
@[simp] theorem applyEntriesT_cons (sm : SM) (e : Entry) (es : List Entry) :
    applyEntriesT sm (e :: es) = applyEntriesT (applyEntryT sm e) es := rfl

/-! ### association-list facts -/

theorem mem_mErase {α : Type} {m : List (String × α)} {k : String} {p : String × α} :
    p ∈ mErase m k → p ∈ m := by
  simp only [mErase, List.mem_filter]; exact fun h => h.1

theorem mem_mInsert {α : Type} {m : List (String × α)} {k : String} {v : α} {p : String × α} :
    p ∈ mInsert m k v → p = (k, v) ∨ p ∈ m := by
  simp only [mInsert, List.mem_cons]
  rintro (h | h)
  · exact .inl h
  · exact .inr (mem_mErase h)

theorem mem_mModify {α : Type} {m : List (String × α)} {k : String} {f : α → α} {p : String × α} :
    p ∈ mModify m k f → p ∈ m ∨ ∃ q ∈ m, p = (q.1, f q.2) := by
  simp only [mModify, List.mem_map]
  rintro ⟨q, hq, rfl⟩
  by_cases h : q.1 = k
  · simp only [h, if_true]; exact .inr ⟨q, hq, by simp [h]⟩
  · simp only [h, if_false]; exact .inl hq

theorem mFind_mem {α : Type} {m : List (String × α)} {k : String} {v : α} (h : mFind m k = some v) :
    ∃ p ∈ m, p.2 = v := by
  simp only [mFind, Option.map_eq_some_iff] at h
  obtain ⟨p, hp, rfl⟩ := h
  exact ⟨p, List.mem_of_find?_eq_some hp, rfl⟩

/-! ### well-formed states never panic -/

theorem Task.idStr_obj {t : Task} {id : String} (h : t.idStr = some id) : ∃ fs, t = .obj fs := by
  cases t with
  | obj fs => exact ⟨fs, rfl⟩
  | null => simp [Task.idStr] at h
  | other t => simp [Task.idStr] at h

theorem Task.setStatusT_obj (status : String) {t : Task} (h : ∃ fs, t = .obj fs) :
    ∃ fs, Task.setStatusT status t = .obj fs := by
  obtain ⟨fs, rfl⟩ := h
  exact ⟨_, rfl⟩

theorem statusPanics_false {s : State} (h : s.WF) (id : String) : statusPanics s id = false := by
  unfold statusPanics
  split
  · rename_i t heq
    obtain ⟨p, hp, hv⟩ := mFind_mem heq
    obtain ⟨fs, hfs⟩ := h p hp
    rw [hfs] at hv; cases hv
  · rfl

theorem State.WF_init : (({} : State)).WF := by
  intro p hp; cases hp

theorem applyCmd_wf {s : State} (h : s.WF) (c : Cmd) : ∃ s', applyCmd s c = .ok s' ∧ s'.WF := by
  cases c with
  | migrationStarted task =>
    simp only [applyCmd]
    split
    · rename_i id hid
      refine ⟨_, rfl, ?_⟩
      intro p hp
      rcases mem_mInsert hp with rfl | hp
      · exact Task.idStr_obj hid
      · exact h p hp
    · exact ⟨s, rfl, h⟩
  | migrationUpdated id status =>
    simp only [applyCmd, statusPanics_false h id]
    refine ⟨_, rfl, ?_⟩
    intro p hp
    rcases mem_mModify hp with hp | ⟨q, hq, rfl⟩
    · exact h p hp
    · exact Task.setStatusT_obj status (h q hq)
  | migrationRemoved id =>
    exact ⟨_, rfl, fun p hp => h p (mem_mErase hp)⟩
  | registerWorker _ _ _ _ _ _ => exact ⟨_, rfl, h⟩
  | deregisterWorker _ => exact ⟨_, rfl, h⟩
  | workerStatusChanged _ _ => exact ⟨_, rfl, h⟩
  | workerPipelinesUpdated _ _ => exact ⟨_, rfl, h⟩
  | groupDeployed _ _ => exact ⟨_, rfl, h⟩
  | groupUpdated _ _ => exact ⟨_, rfl, h⟩
  | groupRemoved _ => exact ⟨_, rfl, h⟩
  | connectorCreated _ _ => exact ⟨_, rfl, h⟩
  | connectorUpdated _ _ => exact ⟨_, rfl, h⟩
  | connectorRemoved _ => exact ⟨_, rfl, h⟩
  | scalingPolicySet _ => exact ⟨_, rfl, h⟩
  | modelRegistered _ _ => exact ⟨_, rfl, h⟩
  | modelRemoved _ => exact ⟨_, rfl, h⟩

theorem applyCmd_eq_T {s : State} (h : s.WF) (c : Cmd) :
    applyCmd s c = .ok (applyCmdT s c) ∧ (applyCmdT s c).WF := by
  obtain ⟨s', h1, h2⟩ := applyCmd_wf h c
  simp [applyCmdT, h1, h2]

theorem applyEntry_eq_T {sm : SM} (h : sm.state.WF) (e : Entry) :
    applyEntry sm e = .ok (applyEntryT sm e) ∧ (applyEntryT sm e).state.WF := by
  unfold applyEntry applyEntryT
  cases e.payload with
  | blank => exact ⟨rfl, h⟩
  | membership cfg => exact ⟨rfl, h⟩
  | normal c =>
    have := applyCmd_eq_T h c
    simp [this.1, this.2]

theorem applyEntries_eq_T {sm : SM} (h : sm.state.WF) (es : List Entry) :
    applyEntries sm es = .ok (applyEntriesT sm es) ∧ (applyEntriesT sm es).state.WF := by
  induction es generalizing sm with
  | nil => exact ⟨rfl, h⟩
  | cons e es ih =>
    have h1 := applyEntry_eq_T h e
    simp only [applyEntries, h1.1, Outcome.bind_ok, applyEntriesT_cons]
    exact ih h1.2

theorem applyEntriesT_wf {sm : SM} (h : sm.state.WF) (es : List Entry) : (applyEntriesT sm es).state.WF :=
  (applyEntries_eq_T h es).2

/-! ### snapshots -/

theorem install_build (old sm : SM) : installSnapshot old (buildSnapshot sm) = sm := rfl

/-! ### shape of the total state machine after a list of entries -/

/-- the applied position after a batch: the id of its last entry (unchanged by an empty batch) -/
theorem applyEntriesT_lastApplied (sm : SM) (es : List Entry) :
    (applyEntriesT sm es).lastApplied = match es.getLast? with
      | some e => some e.id
      | none => sm.lastApplied := by
  induction es generalizing sm with
  | nil => rfl
  | cons e es ih =>
    rw [applyEntriesT_cons, ih]
    cases es with
    | nil =>
      simp only [List.getLast?_nil, List.getLast?_singleton]
      unfold applyEntryT; cases e.payload <;> rfl
    | cons e' es' =>
      simp only [List.getLast?_cons_cons]
      cases h : (e' :: es').getLast? with
      | some x => rfl
      | none => simp at h

/-! ### extracted tables -/
section Extracted
open Varpulis.Generated.RaftCommands

/-- the single state field the source arm of a variant touches (from the extracted table) -/
def armField (tag : String) : Option String :=
  match arms.find? (fun a => a.1 == tag) with
  | some (_, [f], _, _) => some f
  | _ => none

theorem tag_mem (c : Cmd) : c.tag ∈ Cmd.tags := by cases c <;> simp [Cmd.tag, Cmd.tags]


theorem arm_frame (c : Cmd) (s : State) : ∃ f, armField c.tag = some f ∧ frame f s (applyCmdT s c) := by
  cases c with
  | registerWorker => exact ⟨"workers", by simp only [Cmd.tag]; decide, by simp [frame, applyCmdT, applyCmd]⟩
  | deregisterWorker => exact ⟨"workers", by simp only [Cmd.tag]; decide, by simp [frame, applyCmdT, applyCmd]⟩
  | workerStatusChanged => exact ⟨"workers", by simp only [Cmd.tag]; decide, by simp [frame, applyCmdT, applyCmd]⟩
  | workerPipelinesUpdated => exact ⟨"workers", by simp only [Cmd.tag]; decide, by simp [frame, applyCmdT, applyCmd]⟩
  | groupDeployed => exact ⟨"pipeline_groups", by simp only [Cmd.tag]; decide, by simp [frame, applyCmdT, applyCmd]⟩
  | groupUpdated => exact ⟨"pipeline_groups", by simp only [Cmd.tag]; decide, by simp [frame, applyCmdT, applyCmd]⟩
  | groupRemoved => exact ⟨"pipeline_groups", by simp only [Cmd.tag]; decide, by simp [frame, applyCmdT, applyCmd]⟩
  | migrationStarted t =>
    refine ⟨"active_migrations", by simp only [Cmd.tag]; decide, ?_⟩
    cases h : t.idStr <;> simp [frame, applyCmdT, applyCmd, h]
  | migrationUpdated id st =>
    refine ⟨"active_migrations", by simp only [Cmd.tag]; decide, ?_⟩
    by_cases h : statusPanics s id = true <;> simp [frame, applyCmdT, applyCmd, h]
  | migrationRemoved => exact ⟨"active_migrations", by simp only [Cmd.tag]; decide, by simp [frame, applyCmdT, applyCmd]⟩
  | connectorCreated => exact ⟨"connectors", by simp only [Cmd.tag]; decide, by simp [frame, applyCmdT, applyCmd]⟩
  | connectorUpdated => exact ⟨"connectors", by simp only [Cmd.tag]; decide, by simp [frame, applyCmdT, applyCmd]⟩
  | connectorRemoved => exact ⟨"connectors", by simp only [Cmd.tag]; decide, by simp [frame, applyCmdT, applyCmd]⟩
  | scalingPolicySet => exact ⟨"scaling_policy", by simp only [Cmd.tag]; decide, by simp [frame, applyCmdT, applyCmd]⟩
  | modelRegistered => exact ⟨"models", by simp only [Cmd.tag]; decide, by simp [frame, applyCmdT, applyCmd]⟩
  | modelRemoved => exact ⟨"models", by simp only [Cmd.tag]; decide, by simp [frame, applyCmdT, applyCmd]⟩

end Extracted

end Varpulis.RaftSM
