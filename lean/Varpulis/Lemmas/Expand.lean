import Varpulis.Model.Expand
/-! Lemmas about the text primitives and the expander model (C42, shared with C39/C41). -/
namespace Varpulis.Expand

/-! ### decimal digits -/

theorem digitVal_digitChar (d : Nat) (h : d < 10) : digitVal (digitChar d) = d := by
  have : d = 0 ∨ d = 1 ∨ d = 2 ∨ d = 3 ∨ d = 4 ∨ d = 5 ∨ d = 6 ∨ d = 7 ∨ d = 8 ∨ d = 9 := by omega
  rcases this with h|h|h|h|h|h|h|h|h|h <;> subst h <;> decide

theorem isDigit_digitChar (d : Nat) (h : d < 10) : isDigit (digitChar d) = true := by
  have : d = 0 ∨ d = 1 ∨ d = 2 ∨ d = 3 ∨ d = 4 ∨ d = 5 ∨ d = 6 ∨ d = 7 ∨ d = 8 ∨ d = 9 := by omega
  rcases this with h|h|h|h|h|h|h|h|h|h <;> subst h <;> decide

theorem digitChar_digitVal (c : Char) (h : isDigit c = true) : digitChar (digitVal c) = c := by
  simp only [isDigit, Bool.and_eq_true, decide_eq_true_eq] at h
  simp only [digitChar, digitVal]
  have : 48 + (c.toNat - 48) = c.toNat := by omega
  rw [this]
  exact Char.ofNat_toNat c

theorem digitVal_lt (c : Char) (h : isDigit c = true) : digitVal c < 10 := by
  simp only [isDigit, Bool.and_eq_true, decide_eq_true_eq] at h
  simp only [digitVal]; omega

theorem digitsVal_snoc (ds : List Char) (c : Char) : digitsVal (ds ++ [c]) = digitsVal ds * 10 + digitVal c := by
  simp [digitsVal, List.foldl_append]

theorem natDigits_fuel (f n : Nat) (h : n < f) : natDigits (f + 1) n = natDigits f n := by
  induction f generalizing n with
  | zero => omega
  | succ f ih =>
    by_cases hn : n < 10
    · simp [natDigits, hn]
    · have h1 : n / 10 < f := by omega
      conv => lhs; rw [natDigits]
      conv => rhs; rw [natDigits]
      simp only [hn, if_false]
      rw [ih (n / 10) h1]

theorem natDigits_fuel' (f n : Nat) (h : n < f) : natDigits f n = natDigits (n + 1) n := by
  induction f with
  | zero => omega
  | succ f ih =>
    by_cases hf : n < f
    · rw [natDigits_fuel f n hf, ih hf]
    · have : f = n := by omega
      subst this; rfl

theorem fmtNat_lt10 (n : Nat) (h : n < 10) : fmtNat n = [digitChar n] := by
  simp [fmtNat, natDigits, h]

theorem fmtNat_ge10 (n : Nat) (h : ¬ n < 10) : fmtNat n = fmtNat (n / 10) ++ [digitChar (n % 10)] := by
  simp only [fmtNat]
  conv => lhs; rw [natDigits]
  simp only [h, if_false]
  rw [natDigits_fuel' n (n / 10) (by omega)]

theorem digitsVal_fmtNat (n : Nat) : digitsVal (fmtNat n) = n := by
  induction n using Nat.strongRecOn with
  | _ n ih =>
    by_cases h : n < 10
    · rw [fmtNat_lt10 n h]; simp [digitsVal, digitVal_digitChar n h]
    · rw [fmtNat_ge10 n h, digitsVal_snoc, ih (n / 10) (by omega), digitVal_digitChar _ (by omega)]
      omega

theorem fmtNat_all_digits (n : Nat) : (fmtNat n).all isDigit = true := by
  induction n using Nat.strongRecOn with
  | _ n ih =>
    by_cases h : n < 10
    · rw [fmtNat_lt10 n h]; simp [isDigit_digitChar n h]
    · rw [fmtNat_ge10 n h]; simp [ih (n / 10) (by omega), isDigit_digitChar (n % 10) (by omega)]

theorem fmtNat_ne_nil (n : Nat) : fmtNat n ≠ [] := by
  by_cases h : n < 10
  · rw [fmtNat_lt10 n h]; simp
  · rw [fmtNat_ge10 n h]; simp

theorem fmtNat_foldl (ds : List Char) (acc : Nat) (hall : ds.all isDigit = true) (hacc : 0 < acc) :
    fmtNat (ds.foldl (fun a c => a * 10 + digitVal c) acc) = fmtNat acc ++ ds := by
  induction ds generalizing acc with
  | nil => simp
  | cons c cs ih =>
    simp only [List.all_cons, Bool.and_eq_true] at hall
    have hlt := digitVal_lt c hall.1
    simp only [List.foldl_cons]
    rw [ih (acc * 10 + digitVal c) hall.2 (by omega)]
    have hge : ¬ (acc * 10 + digitVal c < 10) := by omega
    rw [fmtNat_ge10 _ hge]
    have h1 : (acc * 10 + digitVal c) / 10 = acc := by omega
    have h2 : (acc * 10 + digitVal c) % 10 = digitVal c := by omega
    rw [h1, h2, digitChar_digitVal c hall.1]
    simp

theorem fmtNat_digitsVal (ds : List Char) (h : canonDigits ds = true) : fmtNat (digitsVal ds) = ds := by
  simp only [canonDigits, Bool.and_eq_true, Bool.or_eq_true, Bool.not_eq_true', bne_iff_ne, ne_eq, beq_iff_eq] at h
  obtain ⟨⟨hne, hall⟩, hz⟩ := h
  cases ds with
  | nil => simp at hne
  | cons c cs =>
    simp only [List.all_cons, Bool.and_eq_true] at hall
    rcases hz with hz | hz
    · cases hz; decide
    · have hc0 : 0 < digitVal c := by
        have := hall.1
        simp only [isDigit, Bool.and_eq_true, decide_eq_true_eq] at this
        simp only [digitVal]
        have hc : c.toNat ≠ 48 := by
          intro hc
          apply hz
          have : c = Char.ofNat 48 := by rw [← hc, Char.ofNat_toNat]
          rw [this]; rfl
        omega
      have hstart : digitsVal (c :: cs) = cs.foldl (fun a c => a * 10 + digitVal c) (digitVal c) := by
        simp [digitsVal]
      rw [hstart, fmtNat_foldl cs (digitVal c) hall.2 hc0, fmtNat_lt10 _ (digitVal_lt c hall.1),
        digitChar_digitVal c hall.1]
      rfl

end Varpulis.Expand
