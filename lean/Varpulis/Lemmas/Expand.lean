import Varpulis.Model.Expand
/-! Lemmas about the text primitives and the expander model (C42, shared with C39/C41). -/
namespace Varpulis.Expand

/-! ### decimal digits -/

theorem digitVal_digitChar (d : Nat) (h : d < 10) : digitVal (digitChar d) = d := by
  have : d = 0 ∨ d = 1 ∨ d = 2 ∨ d = 3 ∨ d = 4 ∨ d = 5 ∨ d = 6 ∨ d = 7 ∨ d = 8 ∨ d = 9 := by omega
  rcases this with h|h|h|h|h|h|h|h|h|h <;> subst h <;> decide

theorem isDigit_digitChar (d : Nat) (h : d < 10) : isDigit (digitChar d) = true := by
  have : d = 0 ∨ d = 1 ∨ d = 2 ∨ d = 3 ∨ d = 4 ∨ d = 5 ∨ d = 6 ∨ d = 7 ∨ d = 8 ∨ d = 9 := by omega
  rcases this with h|h|h|h|h|h|h|h|h|h <;> subst h <;> decide

theorem digitChar_digitVal (c : Char) (h : isDigit c = true) : digitChar (digitVal c) = c := by
  simp only [isDigit, Bool.and_eq_true, decide_eq_true_eq] at h
  simp only [digitChar, digitVal]
  have : 48 + (c.toNat - 48) = c.toNat := by omega
  rw [this]
  exact Char.ofNat_toNat c

theorem digitVal_lt (c : Char) (h : isDigit c = true) : digitVal c < 10 := by
  simp only [isDigit, Bool.and_eq_true, decide_eq_true_eq] at h
  simp only [digitVal]; omega

theorem digitsVal_snoc (ds : List Char) (c : Char) : digitsVal (ds ++ [c]) = digitsVal ds * 10 + digitVal c := by
  simp [digitsVal, List.foldl_append]

theorem natDigits_fuel (f n : Nat) (h : n < f) : natDigits (f + 1) n = natDigits f n := by
  induction f generalizing n with
  | zero => omega
  | succ f ih =>
    by_cases hn : n < 10
    · simp [natDigits, hn]
    · have h1 : n / 10 < f := by omega
      conv => lhs; rw [natDigits]
      conv => rhs; rw [natDigits]
      simp only [hn, if_false]
      rw [ih (n / 10) h1]

theorem natDigits_fuel' (f n : Nat) (h : n < f) : natDigits f n = natDigits (n + 1) n := by
  induction f with
  | zero => omega
  | succ f ih =>
    by_cases hf : n < f
    · rw [natDigits_fuel f n hf, ih hf]
    · have : f = n := by omega
      subst this; rfl

theorem fmtNat_lt10 (n : Nat) (h : n < 10) : fmtNat n = [digitChar n] := by
  simp [fmtNat, natDigits, h]

theorem fmtNat_ge10 (n : Nat) (h : ¬ n < 10) : fmtNat n = fmtNat (n / 10) ++ [digitChar (n % 10)] := by
  simp only [fmtNat]
  conv => lhs; rw [natDigits]
  simp only [h, if_false]
  rw [natDigits_fuel' n (n / 10) (by omega)]

theorem digitsVal_fmtNat (n : Nat) : digitsVal (fmtNat n) = n := by
  induction n using Nat.strongRecOn with
  | _ n ih =>
    by_cases h : n < 10
    · rw [fmtNat_lt10 n h]; simp [digitsVal, digitVal_digitChar n h]
    · rw [fmtNat_ge10 n h, digitsVal_snoc, ih (n / 10) (by omega), digitVal_digitChar _ (by omega)]
      omega

theorem fmtNat_all_digits (n : Nat) : (fmtNat n).all isDigit = true := by
  induction n using Nat.strongRecOn with
  | _ n ih =>
    by_cases h : n < 10
    · rw [fmtNat_lt10 n h]; simp [isDigit_digitChar n h]
    · rw [fmtNat_ge10 n h]; simp [ih (n / 10) (by omega), isDigit_digitChar (n % 10) (by omega)]

theorem fmtNat_ne_nil (n : Nat) : fmtNat n ≠ [] := by
  by_cases h : n < 10
  · rw [fmtNat_lt10 n h]; simp
  · rw [fmtNat_ge10 n h]; simp

theorem fmtNat_foldl (ds : List Char) (acc : Nat) (hall : ds.all isDigit = true) (hacc : 0 < acc) :
    fmtNat (ds.foldl (fun a c => a * 10 + digitVal c) acc) = fmtNat acc ++ ds := by
  induction ds generalizing acc with
  | nil => simp
  | cons c cs ih =>
    simp only [List.all_cons, Bool.and_eq_true] at hall
    have hlt := digitVal_lt c hall.1
    simp only [List.foldl_cons]
    rw [ih (acc * 10 + digitVal c) hall.2 (by omega)]
    have hge : ¬ (acc * 10 + digitVal c < 10) := by omega
    rw [fmtNat_ge10 _ hge]
    have h1 : (acc * 10 + digitVal c) / 10 = acc := by omega
    have h2 : (acc * 10 + digitVal c) % 10 = digitVal c := by omega
    rw [h1, h2, digitChar_digitVal c hall.1]
    simp

theorem fmtNat_digitsVal (ds : List Char) (h : canonDigits ds = true) : fmtNat (digitsVal ds) = ds := by
  simp only [canonDigits, Bool.and_eq_true, Bool.or_eq_true, Bool.not_eq_true', bne_iff_ne, ne_eq, beq_iff_eq] at h
  obtain ⟨⟨hne, hall⟩, hz⟩ := h
  cases ds with
  | nil => simp at hne
  | cons c cs =>
    simp only [List.all_cons, Bool.and_eq_true] at hall
    rcases hz with hz | hz
    · cases hz; decide
    · have hc0 : 0 < digitVal c := by
        have := hall.1
        simp only [isDigit, Bool.and_eq_true, decide_eq_true_eq] at this
        simp only [digitVal]
        have hc : c.toNat ≠ 48 := by
          intro hc
          apply hz
          have : c = Char.ofNat 48 := by rw [← hc, Char.ofNat_toNat]
          rw [this]; rfl
        omega
      have hstart : digitsVal (c :: cs) = cs.foldl (fun a c => a * 10 + digitVal c) (digitVal c) := by
        simp [digitsVal]
      rw [hstart, fmtNat_foldl cs (digitVal c) hall.2 hc0, fmtNat_lt10 _ (digitVal_lt c hall.1),
        digitChar_digitVal c hall.1]
      rfl

/-! ### text primitives -/

/-- no line-break character -/
def noBreak (l : Text) : Prop := ∀ c ∈ l, c ≠ '\n' ∧ c ≠ '\r'

theorem stripCR_reverse (l : Text) (h : noBreak l) : stripCR l.reverse = l := by
  unfold stripCR
  split
  · rename_i r heq
    have : '\r' ∈ l := by
      have : '\r' ∈ l.reverse := by rw [heq]; simp
      simpa using this
    exact absurd rfl (h _ this).2
  · simp

theorem linesGo_line (l rest : Text) (acc : List Char) (h : noBreak l) :
    linesGo (l ++ '\n' :: rest) acc = stripCR (l.reverse ++ acc) :: linesGo rest [] := by
  induction l generalizing acc with
  | nil => simp [linesGo]
  | cons c l ih =>
    have hc : c ≠ '\n' := (h c (by simp)).1
    simp only [List.cons_append, linesGo, hc, if_false]
    rw [ih (c :: acc) (fun x hx => h x (by simp [hx]))]
    simp

theorem rustLines_joinLines (ls : List Line) (h : ∀ l ∈ ls, noBreak l) : rustLines (joinLines ls) = ls := by
  induction ls with
  | nil => simp [joinLines, rustLines, linesGo]
  | cons l ls ih =>
    simp only [joinLines, rustLines] at ih ⊢
    rw [linesGo_line l _ [] (h l (by simp)), ih (fun x hx => h x (by simp [hx]))]
    simp [stripCR_reverse l (h l (by simp))]


theorem all_iff_forall_isDigit (l : List Char) : l.all isDigit = true ↔ ∀ c ∈ l, isDigit c = true := by
  simp

theorem fmtInt_chars (k : Int) : ∀ c ∈ fmtInt k, c = '-' ∨ isDigit c = true := by
  intro c hc
  unfold fmtInt at hc
  split at hc
  · simp only [List.mem_cons] at hc
    rcases hc with h | h
    · exact Or.inl h
    · exact Or.inr ((all_iff_forall_isDigit _).mp (fmtNat_all_digits _) c h)
  · exact Or.inr ((all_iff_forall_isDigit _).mp (fmtNat_all_digits _) c hc)

theorem fmtInt_ne_nil (k : Int) : fmtInt k ≠ [] := by
  unfold fmtInt
  split
  · simp
  · exact fmtNat_ne_nil _

/-- a character that a formatted integer can consist of -/
def isNumChar (c : Char) : Bool := c == '-' || isDigit c

theorem fmtInt_numChars (k : Int) : ∀ c ∈ fmtInt k, isNumChar c = true := by
  intro c hc
  rcases fmtInt_chars k c hc with h | h
  · subst h; decide
  · simp [isNumChar, h]

theorem isNumChar_not_ws (c : Char) (h : isNumChar c = true) : isWs c = false := by
  simp only [isNumChar, Bool.or_eq_true, beq_iff_eq] at h
  rcases h with h | h
  · subst h; decide
  · simp only [isDigit, Bool.and_eq_true, decide_eq_true_eq] at h
    simp only [isWs]
    have : c.toNat ≠ 0x20 ∧ ¬ (0x09 ≤ c.toNat ∧ c.toNat ≤ 0x0D) := by omega
    simp
    omega

/-! ### `str::replace` -/

theorem replaceGo_nomatch (pat to : Text) (c : Char) (cs : Text) (h : pat.isPrefixOf (c :: cs) = false) :
    replaceGo pat to 0 (c :: cs) = c :: replaceGo pat to 0 cs := by
  simp [replaceGo, h]

theorem isPrefixOf_cons_ne (p : Text) (b c : Char) (cs : Text) (h : c ≠ b) : (b :: p).isPrefixOf (c :: cs) = false := by
  simp [List.isPrefixOf, Ne.symm h]

theorem replaceAll_spaces (p val : Text) (n : Nat) (t : Text) :
    replaceAll ('{' :: p) val (spaces n ++ t) = spaces n ++ replaceAll ('{' :: p) val t := by
  induction n with
  | zero => simp [spaces]
  | succ n ih =>
    simp only [spaces, List.replicate_succ, List.cons_append, replaceAll] at ih ⊢
    rw [replaceGo_nomatch _ _ _ _ (isPrefixOf_cons_ne p '{' ' ' _ (by decide)), ih]

theorem replaceAll_noBrace (p val : Text) (t : Text) (h : ∀ c ∈ t, c ≠ '{') :
    replaceAll ('{' :: p) val t = t := by
  induction t with
  | nil => simp [replaceAll, replaceGo]
  | cons c cs ih =>
    simp only [replaceAll] at ih ⊢
    rw [replaceGo_nomatch _ _ _ _ (isPrefixOf_cons_ne p '{' c cs (h c (by simp))), ih (fun x hx => h x (by simp [hx]))]

theorem replaceGo_forall (P : Char → Prop) (pat val : Text) (t : Text) (skip : Nat)
    (ht : ∀ c ∈ t, P c) (hv : ∀ c ∈ val, P c) : ∀ c ∈ replaceGo pat val skip t, P c := by
  induction t generalizing skip with
  | nil => simp [replaceGo]
  | cons a as ih =>
    have has : ∀ c ∈ as, P c := fun x hx => ht x (by simp [hx])
    cases skip with
    | succ n => simp only [replaceGo]; exact ih n has
    | zero =>
      simp only [replaceGo]
      split
      · intro c hc
        simp only [List.mem_append] at hc
        rcases hc with hc | hc
        · exact hv c hc
        · exact ih _ has c hc
      · intro c hc
        simp only [List.mem_cons] at hc
        rcases hc with hc | hc
        · subst hc; exact ht _ (by simp)
        · exact ih 0 has c hc

theorem replaceAll_forall (P : Char → Prop) (pat val t : Text) (ht : ∀ c ∈ t, P c) (hv : ∀ c ∈ val, P c) :
    ∀ c ∈ replaceAll pat val t, P c := replaceGo_forall P pat val t 0 ht hv

/-- a word none of whose characters can come from the replacement text: if the result starts with it,
so did the original -/
theorem prefix_replaceAll (w pat val t : Text) (hw : ∀ c ∈ w, c ∉ val) (hv : val ≠ []) :
    w.isPrefixOf (replaceAll pat val t) = true → w.isPrefixOf t = true := by
  induction w generalizing t with
  | nil => simp
  | cons c w ih =>
    intro h
    cases t with
    | nil => simp [replaceAll, replaceGo] at h
    | cons a as =>
      simp only [replaceAll, replaceGo] at h
      split at h
      · exfalso
        cases hval : val with
        | nil => exact hv hval
        | cons v0 vs =>
          rw [hval] at h
          simp only [List.cons_append, List.isPrefixOf, Bool.and_eq_true, beq_iff_eq] at h
          exact hw c (by simp) (by rw [hval, h.1]; simp)
      · simp only [List.isPrefixOf, Bool.and_eq_true, beq_iff_eq] at h ⊢
        exact ⟨h.1, ih as (fun x hx => hw x (by simp [hx])) h.2⟩

theorem allWs_of_replaceAll (pat val t : Text) (hv : ∃ v0 vs, val = v0 :: vs ∧ isWs v0 = false)
    (h : ∀ c ∈ replaceAll pat val t, isWs c = true) : ∀ c ∈ t, isWs c = true := by
  induction t with
  | nil => simp
  | cons a as ih =>
    simp only [replaceAll, replaceGo] at h ih
    split at h
    · exfalso
      obtain ⟨v0, vs, hval, hws⟩ := hv
      have := h v0 (by rw [hval]; simp)
      rw [hws] at this; cases this
    · intro c hc
      simp only [List.mem_cons] at hc
      rcases hc with hc | hc
      · subst hc; exact h _ (by simp)
      · exact ih (fun x hx => h x (by simp [hx])) c hc

theorem headOk_replaceAll (pat val t : Text) (hv : ∃ v0 vs, val = v0 :: vs ∧ isWs v0 = false)
    (h : headOk t = true) : headOk (replaceAll pat val t) = true := by
  cases t with
  | nil => simp [headOk] at h
  | cons a as =>
    simp only [replaceAll, replaceGo]
    split
    · obtain ⟨v0, vs, hval, hws⟩ := hv
      rw [hval]; simp [headOk, hws]
    · simpa [headOk] using h

theorem fmtInt_head (k : Int) : ∃ v0 vs, fmtInt k = v0 :: vs ∧ isWs v0 = false := by
  cases h : fmtInt k with
  | nil => exact absurd h (fmtInt_ne_nil k)
  | cons v0 vs => exact ⟨v0, vs, rfl, isNumChar_not_ws v0 (fmtInt_numChars k v0 (by rw [h]; simp))⟩


theorem dropWhile_eq_nil_iff' {α : Type} (p : α → Bool) (l : List α) : l.dropWhile p = [] ↔ ∀ x ∈ l, p x = true := by
  induction l with
  | nil => simp
  | cons a l ih =>
    by_cases h : p a
    · simp [List.dropWhile, h, ih]
    · simp [List.dropWhile, h]

theorem dropWhile_head_not {α : Type} (p : α → Bool) (l : List α) (a : α) (r : List α)
    (h : l.dropWhile p = a :: r) : p a = false := by
  induction l with
  | nil => simp at h
  | cons b l ih =>
    by_cases hb : p b
    · simp only [List.dropWhile, hb] at h; exact ih h
    · simp only [List.dropWhile, hb] at h; cases h; simpa using hb

theorem isBlank_iff (t : Text) : isBlank t = true ↔ ∀ c ∈ t, isWs c = true := by
  simp only [isBlank, trim, trimEnd, trimStart, List.isEmpty_iff, List.reverse_eq_nil_iff]
  rw [dropWhile_eq_nil_iff']
  constructor
  · intro h
    -- the suffix left by `dropWhile` consists of white space only, hence it is empty
    have hd : t.dropWhile isWs = [] := by
      cases hdw : t.dropWhile isWs with
      | nil => rfl
      | cons a r =>
        have ha : isWs a = true := h a (by rw [hdw]; simp)
        have := dropWhile_head_not isWs t a r hdw
        rw [ha] at this; cases this
    exact (dropWhile_eq_nil_iff' isWs t).mp hd
  · intro h
    have hd : t.dropWhile isWs = [] := (dropWhile_eq_nil_iff' isWs t).mpr h
    simp [hd]

theorem byteLen_spaces (n : Nat) : byteLen (spaces n) = n := by
  induction n with
  | zero => rfl
  | succ n ih =>
    simp only [spaces, List.replicate_succ, byteLen] at ih ⊢
    rw [ih]
    have : ' '.utf8Size = 1 := by decide
    omega

theorem byteLen_app (a b : Text) : byteLen (a ++ b) = byteLen a + byteLen b := by
  induction a with
  | nil => simp [byteLen]
  | cons c cs ih => simp [byteLen, ih]; omega

theorem trimStart_spaces (n : Nat) (t : Text) : trimStart (spaces n ++ t) = trimStart t := by
  induction n with
  | zero => rfl
  | succ n ih =>
    simp only [spaces, List.replicate_succ, List.cons_append, trimStart, List.dropWhile] at ih ⊢
    rw [show isWs ' ' = true by decide]
    exact ih

theorem trimStart_headOk (t : Text) (h : headOk t = true) : trimStart t = t := by
  cases t with
  | nil => rfl
  | cons c cs =>
    simp only [headOk, Bool.not_eq_true'] at h
    simp [trimStart, List.dropWhile, h]

theorem byteLen_trimStart_le (t : Text) : byteLen (trimStart t) ≤ byteLen t := by
  induction t with
  | nil => simp [trimStart]
  | cons c cs ih =>
    simp only [trimStart, List.dropWhile] at ih ⊢
    split
    · simp only [byteLen]; omega
    · exact Nat.le_refl _

theorem indentOf_spaces (n : Nat) (t : Text) : indentOf (spaces n ++ t) = n + indentOf t := by
  have := byteLen_trimStart_le t
  simp only [indentOf, trimStart_spaces, byteLen_app, byteLen_spaces]
  omega

theorem indentOf_headOk (t : Text) (h : headOk t = true) : indentOf t = 0 := by
  simp [indentOf, trimStart_headOk t h]

theorem isBlank_spaces (n : Nat) (t : Text) : isBlank (spaces n ++ t) = isBlank t := by
  have h1 := isBlank_iff (spaces n ++ t)
  have h2 := isBlank_iff t
  have : (∀ c ∈ spaces n ++ t, isWs c = true) ↔ (∀ c ∈ t, isWs c = true) := by
    constructor
    · intro h c hc; exact h c (by simp [hc])
    · intro h c hc
      simp only [List.mem_append] at hc
      rcases hc with hc | hc
      · simp only [spaces, List.mem_replicate] at hc
        rw [hc.2]; decide
      · exact h c hc
  rw [Bool.eq_iff_iff, h1, h2]; exact this

theorem byteDrop_spaces (n : Nat) (t : Text) : byteDrop n (spaces n ++ t) = some t := by
  induction n with
  | zero => simp [spaces, byteDrop]
  | succ n ih =>
    simp only [spaces, List.replicate_succ, List.cons_append] at ih ⊢
    rw [byteDrop]
    have : ' '.utf8Size = 1 := by decide
    simp [this, ih]

theorem bodyLine_spaces (n : Nat) (t : Text) (hn : 0 < n) : bodyLine (spaces n ++ t) = true := by
  simp only [bodyLine, indentOf_spaces, Bool.or_eq_true, bne_iff_ne, ne_eq]
  right; omega

theorem not_bodyLine_headOk (t : Text) (h : headOk t = true) (hb : isBlank t = false) : bodyLine t = false := by
  simp [bodyLine, hb, indentOf_headOk t h]

theorem spaces_add (a b : Nat) : spaces (a + b) = spaces a ++ spaces b := by
  induction a with
  | zero => simp [spaces]
  | succ a ih =>
    have : a + 1 + b = (a + b) + 1 := by omega
    simp only [spaces, this, List.replicate_succ, List.cons_append] at ih ⊢
    rw [ih]


theorem parseI64_fmtInt (k : Int) (h : inI64 k = true) : parseI64 (fmtInt k) = some k := by
  unfold fmtInt
  by_cases hk : k < 0
  · simp only [hk, if_true, parseI64]
    have hne : (fmtNat k.natAbs).isEmpty = false := by
      cases hf : fmtNat k.natAbs with
      | nil => exact absurd hf (fmtNat_ne_nil _)
      | cons a b => rfl
    have hv : -((digitsVal (fmtNat k.natAbs) : Nat) : Int) = k := by
      rw [digitsVal_fmtNat]; omega
    simp [hne, fmtNat_all_digits, hv, h]
  · simp only [hk, if_false]
    cases hf : fmtNat k.toNat with
    | nil => exact absurd hf (fmtNat_ne_nil _)
    | cons a b =>
      have hall := fmtNat_all_digits k.toNat
      rw [hf] at hall
      have ha : isDigit a = true := by simp at hall; exact hall.1
      have ha1 : a ≠ '-' := by intro hc; subst hc; revert ha; decide
      have ha2 : a ≠ '+' := by intro hc; subst hc; revert ha; decide
      have hv : ((digitsVal (a :: b) : Nat) : Int) = k := by
        rw [← hf, digitsVal_fmtNat]; omega
      unfold parseI64
      split
      · rename_i heq; cases heq; exact absurd rfl ha1
      · rename_i heq; cases heq; exact absurd rfl ha2
      · simp [hall, hv, h]


theorem isPrefixOf_append_self (p r : Text) : p.isPrefixOf (p ++ r) = true := by
  simp [List.isPrefixOf_iff_prefix]

/-- the pattern's first character does not occur before its first occurrence -/
theorem splitOnce_first (p0 : Char) (ps a b : Text) (h : ∀ c ∈ a, c ≠ p0) :
    splitOnce (p0 :: ps) (a ++ (p0 :: ps) ++ b) = some (a, b) := by
  induction a with
  | nil =>
    cases hps : ps ++ b with
    | nil =>
      have : ps = [] ∧ b = [] := by simpa using hps
      simp [splitOnce, this.1, this.2, List.isPrefixOf]
    | cons x xs =>
      simp only [List.nil_append, List.cons_append, splitOnce]
      have hp : (p0 :: ps).isPrefixOf (p0 :: (ps ++ b)) = true := by
        simpa using isPrefixOf_append_self (p0 :: ps) b
      simp [hp]
  | cons c cs ih =>
    have hc : c ≠ p0 := h c (by simp)
    simp only [List.cons_append, splitOnce]
    have : (p0 :: ps).isPrefixOf (c :: (cs ++ p0 :: (ps ++ b))) = false := by
      simp [List.isPrefixOf, Ne.symm hc]
    simp only [List.append_assoc, List.cons_append] at ih
    simp [this, ih (fun x hx => h x (by simp [hx]))]

/-- a pattern with a character that the text does not contain does not occur -/
theorem splitOnce_none (pat t : Text) (x : Char) (hx : x ∈ pat) (ht : x ∉ t) : splitOnce pat t = none := by
  induction t with
  | nil =>
    cases pat with
    | nil => simp at hx
    | cons p ps => simp [splitOnce]
  | cons c cs ih =>
    simp only [splitOnce]
    have hnp : pat.isPrefixOf (c :: cs) = false := by
      cases hp : pat.isPrefixOf (c :: cs) with
      | false => rfl
      | true =>
        exfalso
        obtain ⟨r, hr⟩ := List.isPrefixOf_iff_prefix.mp hp
        exact ht (by rw [← hr]; simp [hx])
    simp [hnp, ih (fun h => ht (by simp [h]))]

theorem containsSub_mid (pat a b : Text) : containsSub pat (a ++ pat ++ b) = true := by
  induction a with
  | nil =>
    cases hp : pat ++ b with
    | nil =>
      have hpb : pat = [] ∧ b = [] := by simpa using hp
      simp [containsSub, hpb.1, hpb.2]
    | cons x xs =>
      simp only [List.nil_append, hp, containsSub]
      rw [← hp, isPrefixOf_append_self]; rfl
  | cons c cs ih =>
    simp only [List.cons_append, containsSub]
    simp only [List.append_assoc] at ih
    simp [ih]

theorem stripColon_snoc (x : Text) : stripColon (x ++ [':']) = some x := by
  simp [stripColon]

theorem trim_noWs (t : Text) (h : ∀ c ∈ t, isWs c = false) : trim t = t := by
  cases t with
  | nil => rfl
  | cons c cs =>
    have h1 : trimStart (c :: cs) = c :: cs := by simp [trimStart, List.dropWhile, h c (by simp)]
    simp only [trim, h1, trimEnd]
    cases hr : (c :: cs).reverse with
    | nil => simp at hr
    | cons l r =>
      have hl : l ∈ (c :: cs).reverse := by rw [hr]; simp
      have hl' : l ∈ c :: cs := List.mem_reverse.mp hl
      have : isWs l = false := h l hl'
      simp only [List.dropWhile, this]
      rw [← hr]; simp

/-- `trim` leaves a text alone that starts and ends with visible characters -/
theorem trim_ends (t : Text) (a z : Char) (m : Text) (ht : t = a :: (m ++ [z])) (ha : isWs a = false) (hz : isWs z = false) :
    trim t = t := by
  subst ht
  have h1 : trimStart (a :: (m ++ [z])) = a :: (m ++ [z]) := by simp [trimStart, List.dropWhile, ha]
  simp only [trim, h1, trimEnd]
  have : (a :: (m ++ [z])).reverse = z :: (m.reverse ++ [a]) := by simp
  rw [this]
  simp [List.dropWhile, hz]


/-! ### loop headers -/

theorem isIdentChar_facts (c : Char) (h : isIdentChar c = true) : isWs c = false ∧ c ≠ ' ' ∧ c ≠ '{' := by
  simp only [isIdentChar, Bool.or_eq_true, Bool.and_eq_true, decide_eq_true_eq, beq_iff_eq] at h
  refine ⟨?_, ?_, ?_⟩
  · simp only [isWs]
    simp
    omega
  · intro hc; subst hc; simp at h
  · intro hc; subst hc; simp at h

theorem isNumChar_facts (c : Char) (h : isNumChar c = true) : c ≠ '.' ∧ c ≠ '=' ∧ c ≠ ' ' ∧ c ≠ '{' := by
  refine ⟨?_, ?_, ?_, ?_⟩ <;> (intro hc; subst hc; revert h; decide)

theorem noWs_of_num (k : Int) : ∀ c ∈ fmtInt k, isWs c = false :=
  fun c hc => isNumChar_not_ws c (fmtInt_numChars k c hc)

theorem getLast?_snoc {α : Type} (x : List α) (c : α) : (x ++ [c]).getLast? = some c := by simp

/-- every character of a header is a literal of `for  in ..=:`, a variable character or a number character -/
theorem mem_lit (c : Char) (l big : List Char) (h : c ∈ l) (hsub : ∀ x ∈ l, x ∈ big) : c ∈ big := hsub c h

theorem headerText_chars (v : Text) (s e : Int) (incl : Bool) (c : Char) (hc : c ∈ headerText v s e incl) :
    c ∈ "for in.=:".toList ∨ c ∈ v ∨ isNumChar c = true := by
  cases incl <;>
  · simp only [headerText, Bool.false_eq_true, if_false, if_true, List.mem_append, List.mem_singleton] at hc
    rcases hc with ((((hc | hc) | hc) | hc) | (hc | hc)) | hc
    · exact Or.inl (mem_lit c _ _ hc (by decide))
    · exact Or.inr (Or.inl hc)
    · exact Or.inl (mem_lit c _ _ hc (by decide))
    · exact Or.inr (Or.inr (fmtInt_numChars _ c hc))
    · exact Or.inl (mem_lit c _ _ hc (by decide))
    · exact Or.inr (Or.inr (fmtInt_numChars _ c hc))
    · exact Or.inl (by rw [hc]; decide)

theorem headerText_noBrace (v : Text) (s e : Int) (incl : Bool) (hv : varOk v = true) :
    ∀ c ∈ headerText v s e incl, c ≠ '{' := by
  simp only [varOk, Bool.and_eq_true, List.all_eq_true] at hv
  intro c hc
  rcases headerText_chars v s e incl c hc with h | h | h
  · intro hb; subst hb; revert h; decide
  · exact (isIdentChar_facts c (hv.2 c h)).2.2
  · exact (isNumChar_facts c h).2.2.2

theorem loopHeader_headerText (v : Text) (s e : Int) (incl : Bool) (hv : varOk v = true) (hs : inI64 s = true)
    (he : inI64 e = true) (hi : incl = true → inI64 (e - 1) = true) :
    loopHeader (headerText v s e incl) = some (v, s, e) := by
  have hv' := hv
  simp only [varOk, Bool.and_eq_true, List.all_eq_true] at hv'
  obtain ⟨_, hvc⟩ := hv'
  have hsplit : ∀ R, splitOnce " in ".toList (v ++ " in ".toList ++ R) = some (v, R) :=
    fun R => splitOnce_first ' ' _ v _ (fun c hc => (isIdentChar_facts c (hvc c hc)).2.1)
  have htv : trim v = v := trim_noWs v (fun c hc => (isIdentChar_facts c (hvc c hc)).1)
  have hts : trim (fmtInt s) = fmtInt s := trim_noWs _ (noWs_of_num s)
  cases incl with
  | true =>
    have hH : headerText v s e true = 'f' :: (('o' :: 'r' :: ' ' :: (v ++ " in ".toList ++ (fmtInt s ++ "..=".toList ++ fmtInt (e - 1)))) ++ [':']) := by
      simp [headerText]
    have htrim : trim (headerText v s e true) = headerText v s e true := trim_ends _ 'f' ':' _ hH (by decide) (by decide)
    have hind : indentOf (headerText v s e true) = 0 := indentOf_headOk _ (by rw [hH]; rfl)
    have hpre : "for ".toList.isPrefixOf (headerText v s e true) = true := by rw [hH]; rfl
    have hlast : (headerText v s e true).getLast? = some ':' := by
      rw [hH, ← List.cons_append]; exact getLast?_snoc _ _
    have hdots : containsSub "..".toList (headerText v s e true) = true := by
      have : headerText v s e true = ("for ".toList ++ v ++ " in ".toList ++ fmtInt s) ++ "..".toList ++ ('=' :: fmtInt (e - 1) ++ [':']) := by
        simp [headerText]
      rw [this]; exact containsSub_mid _ _ _
    have hdrop : (headerText v s e true).drop 4 = (v ++ " in ".toList ++ (fmtInt s ++ "..=".toList ++ fmtInt (e - 1))) ++ [':'] := by
      simp [headerText]
    have hRws : ∀ c ∈ fmtInt s ++ "..=".toList ++ fmtInt (e - 1), isWs c = false := by
      intro c hc
      simp only [List.mem_append] at hc
      rcases hc with (hc | hc) | hc
      · exact noWs_of_num s c hc
      · revert hc; simp; intro hc; rcases hc with h | h <;> subst h <;> decide
      · exact noWs_of_num _ c hc
    have h1 : splitOnce "..=".toList (fmtInt s ++ "..=".toList ++ fmtInt (e - 1)) = some (fmtInt s, fmtInt (e - 1)) :=
      splitOnce_first '.' ".=".toList (fmtInt s) (fmtInt (e - 1))
        (fun c hc => (isNumChar_facts c (fmtInt_numChars s c hc)).1)
    have hte : trim (fmtInt (e - 1)) = fmtInt (e - 1) := trim_noWs _ (noWs_of_num _)
    have he1 : e - 1 + 1 = e := by omega
    simp only [loopHeader, hind, htrim, isDeclFor, hpre, hlast, hdots, beq_self_eq_true, Bool.and_self, if_true,
      parseForRange, hdrop, stripColon_snoc, hsplit, htv, trim_noWs _ hRws, h1, hts, hte,
      parseI64_fmtInt s hs, parseI64_fmtInt (e - 1) (hi rfl), he1, he]
  | false =>
    have hH : headerText v s e false = 'f' :: (('o' :: 'r' :: ' ' :: (v ++ " in ".toList ++ (fmtInt s ++ "..".toList ++ fmtInt e))) ++ [':']) := by
      simp [headerText]
    have htrim : trim (headerText v s e false) = headerText v s e false := trim_ends _ 'f' ':' _ hH (by decide) (by decide)
    have hind : indentOf (headerText v s e false) = 0 := indentOf_headOk _ (by rw [hH]; rfl)
    have hpre : "for ".toList.isPrefixOf (headerText v s e false) = true := by rw [hH]; rfl
    have hlast : (headerText v s e false).getLast? = some ':' := by
      rw [hH, ← List.cons_append]; exact getLast?_snoc _ _
    have hdots : containsSub "..".toList (headerText v s e false) = true := by
      have : headerText v s e false = ("for ".toList ++ v ++ " in ".toList ++ fmtInt s) ++ "..".toList ++ (fmtInt e ++ [':']) := by
        simp [headerText]
      rw [this]; exact containsSub_mid _ _ _
    have hdrop : (headerText v s e false).drop 4 = (v ++ " in ".toList ++ (fmtInt s ++ "..".toList ++ fmtInt e)) ++ [':'] := by
      simp [headerText]
    have hRws : ∀ c ∈ fmtInt s ++ "..".toList ++ fmtInt e, isWs c = false := by
      intro c hc
      simp only [List.mem_append] at hc
      rcases hc with (hc | hc) | hc
      · exact noWs_of_num s c hc
      · revert hc; simp; intro hc; subst hc; decide
      · exact noWs_of_num _ c hc
    have h0 : splitOnce "..=".toList (fmtInt s ++ "..".toList ++ fmtInt e) = none := by
      apply splitOnce_none _ _ '=' (by decide)
      intro hc
      simp only [List.mem_append] at hc
      rcases hc with (hc | hc) | hc
      · exact (isNumChar_facts _ (fmtInt_numChars s _ hc)).2.1 rfl
      · revert hc; decide
      · exact (isNumChar_facts _ (fmtInt_numChars e _ hc)).2.1 rfl
    have h1 : splitOnce "..".toList (fmtInt s ++ "..".toList ++ fmtInt e) = some (fmtInt s, fmtInt e) :=
      splitOnce_first '.' ".".toList (fmtInt s) (fmtInt e)
        (fun c hc => (isNumChar_facts c (fmtInt_numChars s c hc)).1)
    have hte : trim (fmtInt e) = fmtInt e := trim_noWs _ (noWs_of_num _)
    simp only [loopHeader, hind, htrim, isDeclFor, hpre, hlast, hdots, beq_self_eq_true, Bool.and_self, if_true,
      parseForRange, hdrop, stripColon_snoc, hsplit, htv, trim_noWs _ hRws, h0, h1, hts, hte,
      parseI64_fmtInt s hs, parseI64_fmtInt e he]



/-! ## loop programs: rendering, one pass, the pass loop, the hand expansion -/

theorem spaces_succ_mul (u d : Nat) : spaces (u * (d + 1)) = spaces u ++ spaces (u * d) := by
  rw [Nat.mul_succ, Nat.add_comm, spaces_add]

mutual
theorem render_succ (u d : Nat) : ∀ b : Block, render u (d + 1) b = (render u d b).map (spaces u ++ ·)
  | .decl f cs => by
    simp only [render, List.map_map]
    apply List.map_congr_left
    intro x _
    simp [spaces_succ_mul]
  | .loop v s e incl body => by
    simp only [render, List.map_cons, renderList_succ u (d + 1) body]
    simp [spaces_succ_mul]
theorem renderList_succ (u d : Nat) : ∀ bs : List Block, renderList u (d + 1) bs = (renderList u d bs).map (spaces u ++ ·)
  | [] => by simp [renderList]
  | b :: bs => by simp [renderList, render_succ u d b, renderList_succ u d bs]
end

theorem renderList_append (u d : Nat) (a b : List Block) : renderList u d (a ++ b) = renderList u d a ++ renderList u d b := by
  induction a with
  | nil => simp [renderList]
  | cons x a ih => simp [renderList, ih]

theorem renderList_flatMap {α : Type} (u d : Nat) (l : List α) (f : α → List Block) :
    renderList u d (l.flatMap f) = l.flatMap fun x => renderList u d (f x) := by
  induction l with
  | nil => simp [renderList]
  | cons x l ih => simp [List.flatMap_cons, renderList_append, ih]

mutual
theorem render_length (u d u' d' : Nat) : ∀ b : Block, (render u d b).length = (render u' d' b).length
  | .decl f cs => by simp [render]
  | .loop v s e incl body => by simp [render, renderList_length u (d + 1) u' (d' + 1) body]
theorem renderList_length (u d u' d' : Nat) : ∀ bs : List Block, (renderList u d bs).length = (renderList u' d' bs).length
  | [] => by simp [renderList]
  | b :: bs => by simp [renderList, render_length u d u' d' b, renderList_length u d u' d' bs]
end

theorem pattern_eq (v : Text) : pattern v = '{' :: (v ++ ['}']) := rfl

-- substitution acts line by line on the rendered text
mutual
theorem render_subst1 (u d : Nat) (v : Text) (k : Int) : ∀ b : Block, syn b = true →
    render u d (subst1 v k b) = (render u d b).map (replaceAll (pattern v) (fmtInt k))
  | .decl f cs, _ => by
    simp only [subst1, render, List.map_cons, List.map_map, pattern_eq, replaceAll_spaces]
    congr 1
    apply List.map_congr_left
    intro x _
    simp [replaceAll_spaces]
  | .loop v' s e incl body, h => by
    simp only [syn, Bool.and_eq_true] at h
    simp only [subst1, render, List.map_cons, pattern_eq, replaceAll_spaces,
      replaceAll_noBrace _ _ _ (headerText_noBrace v' s e incl h.1.1.1.1.1)]
    rw [← pattern_eq, renderList_subst1 u (d + 1) v k body h.2]
theorem renderList_subst1 (u d : Nat) (v : Text) (k : Int) : ∀ bs : List Block, synList bs = true →
    renderList u d (subst1List v k bs) = (renderList u d bs).map (replaceAll (pattern v) (fmtInt k))
  | [], _ => by simp [subst1List, renderList]
  | b :: bs, h => by
    simp only [synList, Bool.and_eq_true] at h
    simp [subst1List, renderList, render_subst1 u d v k b h.1, renderList_subst1 u d v k bs h.2]
end

theorem lineOk_nonblank (t : Text) (h : lineOk t = true) : isBlank t = false := by
  simp only [lineOk, Bool.and_eq_true, Bool.not_eq_true'] at h
  exact h.1.2

theorem headerText_nonblank (v : Text) (s e : Int) (incl : Bool) : isBlank (headerText v s e incl) = false := by
  cases hb : isBlank (headerText v s e incl) with
  | false => rfl
  | true =>
    have := (isBlank_iff _).mp hb 'f' (by simp [headerText])
    revert this; decide

mutual
theorem render_nonblank (u d : Nat) : ∀ b : Block, syn b = true → ∀ l ∈ render u d b, isBlank l = false
  | .decl f cs, h => by
    simp only [syn, Bool.and_eq_true, List.all_eq_true] at h
    intro l hl
    simp only [render, List.mem_map] at hl
    obtain ⟨t, ht, rfl⟩ := hl
    rw [isBlank_spaces]
    simp only [List.mem_cons] at ht
    rcases ht with ht | ht
    · subst ht; exact lineOk_nonblank _ h.1.2
    · exact lineOk_nonblank _ (h.2 t ht)
  | .loop v s e incl body, h => by
    simp only [syn, Bool.and_eq_true] at h
    intro l hl
    simp only [render, List.mem_cons] at hl
    rcases hl with hl | hl
    · subst hl; rw [isBlank_spaces]; exact headerText_nonblank _ _ _ _
    · exact renderList_nonblank u (d + 1) body h.2 l hl
theorem renderList_nonblank (u d : Nat) : ∀ bs : List Block, synList bs = true → ∀ l ∈ renderList u d bs, isBlank l = false
  | [], _ => by simp [renderList]
  | b :: bs, h => by
    simp only [synList, Bool.and_eq_true] at h
    intro l hl
    simp only [renderList, List.mem_append] at hl
    rcases hl with hl | hl
    · exact render_nonblank u d b h.1 l hl
    · exact renderList_nonblank u d bs h.2 l hl
end

/-- at depth 0 a block starts with a line whose first character is visible -/
theorem render_head (u : Nat) (b : Block) (h : syn b = true) : ∃ y r, render u 0 b = y :: r ∧ headOk y = true := by
  cases b with
  | decl f cs =>
    simp only [syn, Bool.and_eq_true] at h
    exact ⟨f, cs, by simp [render, spaces], h.1.1⟩
  | loop v s e incl body =>
    exact ⟨headerText v s e incl, renderList u 1 body, by simp [render, spaces], by simp [headerText, headOk]; decide⟩


/-! ### one pass of the expander on a rendered program -/

theorem copyLine_spaces (u : Nat) (v : Text) (k : Int) (y : Line) (hy : isBlank y = false) :
    copyLine u v k (spaces u ++ y) = replaceAll (pattern v) (fmtInt k) y := by
  simp [copyLine, isBlank_spaces, hy, stripLine, byteDrop_spaces]

theorem stripOf_indented (u : Nat) (ys : List Line) (y0 : Line) (r : List Line) (hys : ys = y0 :: r)
    (hb : isBlank y0 = false) (hh : headOk y0 = true) : stripOf (ys.map (spaces u ++ ·)) = u := by
  subst hys
  simp [stripOf, List.find?, isBlank_spaces, hb, indentOf_spaces, indentOf_headOk y0 hh]

theorem flatMap_congr' {α β : Type} (l : List α) (f g : α → List β) (h : ∀ x ∈ l, f x = g x) :
    l.flatMap f = l.flatMap g := by
  induction l with
  | nil => rfl
  | cons x l ih => simp [List.flatMap_cons, h x (by simp), ih (fun y hy => h y (by simp [hy]))]

theorem copies_rendered (u : Nat) (v : Text) (s e : Int) (body : List Block) (hs : synList body = true) :
    copies v s e (renderList u 1 body) = (intRange s e).flatMap fun k => renderList u 0 (subst1List v k body) := by
  rw [renderList_succ u 0 body]
  cases hb : body with
  | nil => simp [copies, renderList, subst1List]
  | cons b bs =>
    have hsb : syn b = true := by rw [hb] at hs; simp only [synList, Bool.and_eq_true] at hs; exact hs.1
    obtain ⟨y0, r, hy, hh⟩ := render_head u b hsb
    have hys : renderList u 0 (b :: bs) = y0 :: (r ++ renderList u 0 bs) := by simp [renderList, hy]
    have hnb := renderList_nonblank u 0 (b :: bs) (by rw [← hb]; exact hs)
    have hstrip := stripOf_indented u _ y0 _ hys (hnb y0 (by rw [hys]; simp)) hh
    simp only [copies, hstrip]
    apply flatMap_congr'
    intro k _
    rw [renderList_subst1 u 0 v k (b :: bs) (by rw [← hb]; exact hs), List.map_map]
    apply List.map_congr_left
    intro y hy'
    exact copyLine_spaces u v k y (hnb y hy')

theorem trimEnd_prefix (x : Text) : trimEnd x <+: x := by
  unfold trimEnd
  have h := List.dropWhile_suffix (l := x.reverse) isWs
  obtain ⟨t, ht⟩ := h
  refine ⟨t.reverse, ?_⟩
  have := congrArg List.reverse ht
  simp only [List.reverse_append, List.reverse_reverse] at this
  exact this

theorem notFor_loopHeader (t : Text) (h : notFor t = true) : loopHeader t = none := by
  simp only [loopHeader]
  split
  · rename_i hc
    exfalso
    simp only [Bool.and_eq_true, isDeclFor] at hc
    have hp := hc.2.1.1
    have hp2 : "for ".toList <+: trimStart t :=
      (List.isPrefixOf_iff_prefix.mp hp).trans (trimEnd_prefix _)
    simp only [notFor, Bool.not_eq_true'] at h
    rw [List.isPrefixOf_iff_prefix.mpr hp2] at h
    cases h
  · rfl

theorem onePass_plain (ls : List Line) (R : List Line) (b : Nat) (h : ∀ l ∈ ls, loopHeader l = none) :
    onePass b (ls ++ R) = (onePass b R).map fun r => (ls ++ r.1, r.2) := by
  induction ls with
  | nil => cases hr : onePass b R <;> simp [Outcome.map, hr]
  | cons l ls ih =>
    rw [List.cons_append, onePass]
    simp only [h l (by simp)]
    rw [ih (fun x hx => h x (by simp [hx]))]
    cases hr : onePass b R <;> simp [Outcome.map, hr]

theorem takeWhile_append_of_all {α : Type} (p : α → Bool) (a b : List α) (ha : ∀ x ∈ a, p x = true)
    (hb : b = [] ∨ ∃ y r, b = y :: r ∧ p y = false) : (a ++ b).takeWhile p = a ∧ (a ++ b).dropWhile p = b := by
  induction a with
  | nil =>
    rcases hb with hb | ⟨y, r, hb, hy⟩
    · subst hb; simp
    · subst hb; simp [List.takeWhile, List.dropWhile, hy]
  | cons x a ih =>
    have := ih (fun z hz => ha z (by simp [hz]))
    simp [List.takeWhile, List.dropWhile, ha x (by simp), this.1, this.2]

theorem renderList_head (u : Nat) (bs : List Block) (h : synList bs = true) :
    renderList u 0 bs = [] ∨ ∃ y r, renderList u 0 bs = y :: r ∧ bodyLine y = false := by
  cases bs with
  | nil => left; rfl
  | cons b bs =>
    right
    simp only [synList, Bool.and_eq_true] at h
    obtain ⟨y, r, hy, hh⟩ := render_head u b h.1
    refine ⟨y, r ++ renderList u 0 bs, by simp [renderList, hy], ?_⟩
    exact not_bodyLine_headOk y hh (render_nonblank u 0 b h.1 y (by rw [hy]; simp))

theorem onePass_rendered (u : Nat) (hu : 0 < u) (bs : List Block) (b : Nat) (hs : synList bs = true)
    (hc : cost1 bs ≤ b) :
    onePass b (renderList u 0 bs) = .ok (renderList u 0 (unroll1 bs), b - cost1 bs) := by
  induction bs generalizing b with
  | nil => simp [renderList, unroll1, cost1, onePass]
  | cons x bs ih =>
    simp only [synList, Bool.and_eq_true] at hs
    cases x with
    | decl f cs =>
      have hsx := hs.1
      simp only [syn, Bool.and_eq_true, List.all_eq_true] at hsx
      have hr : render u 0 (.decl f cs) = f :: cs := by simp [render, spaces]
      simp only [renderList, hr, unroll1, cost1] at hc ⊢
      have hnone : ∀ l ∈ f :: cs, loopHeader l = none := by
        intro l hl
        simp only [List.mem_cons] at hl
        rcases hl with hl | hl
        · subst hl
          have := hsx.1.2
          simp only [lineOk, Bool.and_eq_true] at this
          exact notFor_loopHeader _ this.2
        · have := hsx.2 l hl
          simp only [lineOk, Bool.and_eq_true] at this
          exact notFor_loopHeader _ this.2
      rw [onePass_plain (f :: cs) _ b hnone, ih b hs.2 hc]
      simp [Outcome.map, renderList, hr]
    | loop v s e incl body =>
      have hsx := hs.1
      simp only [syn, Bool.and_eq_true, Bool.or_eq_true, Bool.not_eq_true'] at hsx
      obtain ⟨⟨⟨⟨⟨hv, hs1⟩, he1⟩, hi⟩, hl⟩, hbody⟩ := hsx
      have hr : render u 0 (.loop v s e incl body) = headerText v s e incl :: renderList u 1 body := by
        simp [render, spaces]
      have hhdr := loopHeader_headerText v s e incl hv hs1 he1 (by
        intro hincl; rcases hi with hi | hi
        · rw [hincl] at hi; cases hi
        · exact hi)
      simp only [renderList, hr, List.cons_append, unroll1, cost1] at hc ⊢
      rw [onePass]
      simp only [hhdr, hl, Bool.false_eq_true, if_false]
      have hall : ∀ l ∈ renderList u 1 body, bodyLine l = true := by
        intro l hl'
        rw [renderList_succ u 0 body] at hl'
        simp only [List.mem_map] at hl'
        obtain ⟨y, _, rfl⟩ := hl'
        exact bodyLine_spaces u y hu
      obtain ⟨htw, hdw⟩ := takeWhile_append_of_all bodyLine (renderList u 1 body) (renderList u 0 bs) hall
        (renderList_head u bs hs.2)
      simp only [htw, hdw]
      have hprod : produced s e (renderList u 1 body) = (e - s).toNat * (renderList 1 1 body).length := by
        simp [produced, renderList_length u 1 1 1 body]
      rw [hprod]
      have hle : ¬ ((e - s).toNat * (renderList 1 1 body).length > b) := by omega
      simp only [hle, if_false]
      rw [ih _ hs.2 (by omega)]
      simp only [Outcome.map, copies_rendered u v s e body hbody, renderList_append, renderList_flatMap]
      congr 2
      omega


/-! ### well-formedness is preserved by unrolling -/

theorem replaceAll_ws_prefix (p val : Text) (t : Text) :
    replaceAll ('{' :: p) val t = t.takeWhile isWs ++ replaceAll ('{' :: p) val (t.dropWhile isWs) := by
  induction t with
  | nil => simp [replaceAll, replaceGo]
  | cons c cs ih =>
    by_cases hc : isWs c = true
    · have hne : c ≠ '{' := by intro h; subst h; revert hc; decide
      simp only [replaceAll] at ih ⊢
      rw [replaceGo_nomatch _ _ _ _ (isPrefixOf_cons_ne p '{' c cs hne), ih]
      simp [List.takeWhile, List.dropWhile, hc]
    · simp [List.takeWhile, List.dropWhile, hc]

theorem trimStart_takeWhile_append (t r : Text) : trimStart (t.takeWhile isWs ++ r) = trimStart r := by
  induction t with
  | nil => simp [List.takeWhile]
  | cons c cs ih =>
    by_cases hc : isWs c = true
    · simp [List.takeWhile, hc, trimStart, List.dropWhile] at ih ⊢; exact ih
    · simp [List.takeWhile, hc]

theorem for_chars_not_num {k : Int} : ∀ c ∈ "for ".toList, c ∉ fmtInt k := by
  intro c hc hk
  have hn := fmtInt_numChars k c hk
  have hc' : c = 'f' ∨ c = 'o' ∨ c = 'r' ∨ c = ' ' := by
    have : "for ".toList = ['f', 'o', 'r', ' '] := rfl
    rw [this] at hc
    simpa using hc
  rcases hc' with h | h | h | h <;> (subst h; revert hn; decide)

theorem notFor_replaceAll (v : Text) (k : Int) (t : Text) (h : notFor t = true) :
    notFor (replaceAll (pattern v) (fmtInt k) t) = true := by
  simp only [notFor, Bool.not_eq_true'] at h ⊢
  rw [pattern_eq, replaceAll_ws_prefix, trimStart_takeWhile_append]
  -- `t' = trimStart t` is empty or starts with a visible character
  have ht' : trimStart t = t.dropWhile isWs := rfl
  cases hd : t.dropWhile isWs with
  | nil => simp [replaceAll, replaceGo, trimStart]
  | cons a r =>
    have ha : isWs a = false := dropWhile_head_not isWs t a r hd
    have hh : headOk (replaceAll ('{' :: (v ++ ['}'])) (fmtInt k) (a :: r)) = true :=
      headOk_replaceAll _ _ _ (fmtInt_head k) (by simp [headOk, ha])
    rw [trimStart_headOk _ hh]
    cases hp : "for ".toList.isPrefixOf (replaceAll ('{' :: (v ++ ['}'])) (fmtInt k) (a :: r)) with
    | false => rfl
    | true =>
      have := prefix_replaceAll _ _ _ _ (for_chars_not_num (k := k)) (fmtInt_ne_nil k) hp
      rw [ht', hd] at h
      rw [h] at this; cases this

theorem lineOk_replaceAll (v : Text) (k : Int) (t : Text) (h : lineOk t = true) :
    lineOk (replaceAll (pattern v) (fmtInt k) t) = true := by
  simp only [lineOk, Bool.and_eq_true, List.all_eq_true, Bool.not_eq_true', bne_iff_ne, ne_eq] at h ⊢
  obtain ⟨⟨h1, h2⟩, h3⟩ := h
  refine ⟨⟨?_, ?_⟩, notFor_replaceAll v k t h3⟩
  · apply replaceAll_forall (fun c => c ≠ '\n' ∧ c ≠ '\r') _ _ _ h1
    intro c hc
    have := fmtInt_numChars k c hc
    constructor <;> (intro hx; subst hx; revert this; decide)
  · cases hb : isBlank (replaceAll (pattern v) (fmtInt k) t) with
    | false => rfl
    | true =>
      have := allWs_of_replaceAll _ _ _ (fmtInt_head k) ((isBlank_iff _).mp hb)
      rw [(isBlank_iff t).mpr this] at h2; cases h2

mutual
theorem syn_subst1 (v : Text) (k : Int) : ∀ b : Block, syn b = true → syn (subst1 v k b) = true
  | .decl f cs, h => by
    simp only [syn, Bool.and_eq_true, List.all_eq_true] at h
    simp only [subst1, syn, Bool.and_eq_true, List.all_eq_true, List.mem_map]
    refine ⟨⟨headOk_replaceAll _ _ _ (fmtInt_head k) h.1.1, lineOk_replaceAll v k f h.1.2⟩, ?_⟩
    rintro x ⟨t, ht, rfl⟩
    exact lineOk_replaceAll v k t (h.2 t ht)
  | .loop v' s e incl body, h => by
    simp only [syn, Bool.and_eq_true] at h
    simp only [subst1, syn, Bool.and_eq_true]
    exact ⟨h.1, synList_subst1 v k body h.2⟩
theorem synList_subst1 (v : Text) (k : Int) : ∀ bs : List Block, synList bs = true → synList (subst1List v k bs) = true
  | [], _ => by simp [subst1List, synList]
  | b :: bs, h => by
    simp only [synList, Bool.and_eq_true] at h
    simp [subst1List, synList, syn_subst1 v k b h.1, synList_subst1 v k bs h.2]
end

theorem synList_append (a b : List Block) : synList (a ++ b) = (synList a && synList b) := by
  induction a with
  | nil => simp [synList]
  | cons x a ih => simp [synList, ih, Bool.and_assoc]

theorem synList_flatMap {α : Type} (l : List α) (f : α → List Block) (h : ∀ x ∈ l, synList (f x) = true) :
    synList (l.flatMap f) = true := by
  induction l with
  | nil => simp [synList]
  | cons x l ih =>
    simp [List.flatMap_cons, synList_append, h x (by simp), ih (fun y hy => h y (by simp [hy]))]

theorem synList_unroll1 (bs : List Block) (h : synList bs = true) : synList (unroll1 bs) = true := by
  induction bs with
  | nil => simp [unroll1, synList]
  | cons x bs ih =>
    simp only [synList, Bool.and_eq_true] at h
    cases x with
    | decl f cs => simp [unroll1, synList, h.1, ih h.2]
    | loop v s e incl body =>
      have hb : synList body = true := by
        have := h.1; simp only [syn, Bool.and_eq_true] at this; exact this.2
      simp only [unroll1, synList_append, Bool.and_eq_true]
      exact ⟨synList_flatMap _ _ (fun k _ => synList_subst1 v k body hb), ih h.2⟩

/-! ### nesting depth -/

mutual
theorem depth_subst1 (v : Text) (k : Int) : ∀ b : Block, depth (subst1 v k b) = depth b
  | .decl f cs => by simp [subst1, depth]
  | .loop v' s e incl body => by simp [subst1, depth, depthList_subst1 v k body]
theorem depthList_subst1 (v : Text) (k : Int) : ∀ bs : List Block, depthList (subst1List v k bs) = depthList bs
  | [] => by simp [subst1List, depthList]
  | b :: bs => by simp [subst1List, depthList, depth_subst1 v k b, depthList_subst1 v k bs]
end

theorem depthList_append (a b : List Block) : depthList (a ++ b) = max (depthList a) (depthList b) := by
  induction a with
  | nil => simp [depthList]
  | cons x a ih => simp [depthList, ih, Nat.max_assoc]

theorem depthList_flatMap_le {α : Type} (l : List α) (f : α → List Block) (n : Nat) (h : ∀ x ∈ l, depthList (f x) ≤ n) :
    depthList (l.flatMap f) ≤ n := by
  induction l with
  | nil => simp [depthList]
  | cons x l ih =>
    simp only [List.flatMap_cons, depthList_append]
    have := h x (by simp)
    have := ih (fun y hy => h y (by simp [hy]))
    omega

theorem depthList_unroll1 (bs : List Block) : depthList (unroll1 bs) ≤ depthList bs - 1 := by
  induction bs with
  | nil => simp [unroll1, depthList]
  | cons x bs ih =>
    cases x with
    | decl f cs => simp only [unroll1, depthList, depth]; omega
    | loop v s e incl body =>
      simp only [unroll1, depthList_append, depthList, depth]
      have := depthList_flatMap_le (intRange s e) (fun k => subst1List v k body) (depthList body)
        (fun k _ => by rw [depthList_subst1]; exact Nat.le_refl _)
      omega

theorem unroll1_depth0 (bs : List Block) (h : depthList bs = 0) : unroll1 bs = bs := by
  induction bs with
  | nil => rfl
  | cons x bs ih =>
    cases x with
    | decl f cs =>
      simp only [depthList, depth] at h
      simp [unroll1, ih (by omega)]
    | loop v s e incl body => simp only [depthList, depth] at h; omega

theorem cost1_depth0 (bs : List Block) (h : depthList bs = 0) : cost1 bs = 0 := by
  induction bs with
  | nil => rfl
  | cons x bs ih =>
    cases x with
    | decl f cs => simp only [depthList, depth] at h; simp [cost1, ih (by omega)]
    | loop v s e incl body => simp only [depthList, depth] at h; omega


/-! ### progress: a pass that expands something changes the text -/

/-- starts (after leading white space) with `for ` -/
def isForLine (l : Line) : Bool := "for ".toList.isPrefixOf (trimStart l)

theorem isForLine_spaces (n : Nat) (t : Text) : isForLine (spaces n ++ t) = isForLine t := by
  simp [isForLine, trimStart_spaces]

theorem isForLine_lineOk (t : Text) (h : lineOk t = true) : isForLine t = false := by
  simp only [lineOk, Bool.and_eq_true, notFor, Bool.not_eq_true'] at h
  exact h.2

theorem indentOf_header (n : Nat) (v : Text) (s e : Int) (incl : Bool) :
    indentOf (spaces n ++ headerText v s e incl) = n := by
  rw [indentOf_spaces, indentOf_headOk _ (by simp [headerText, headOk]; decide)]; rfl

-- every `for` line of a rendered program is a loop header, at an indentation below the nesting depth
mutual
theorem for_lines_bound (u d : Nat) : ∀ b : Block, syn b = true → ∀ l ∈ render u d b, isForLine l = true →
    ∃ j, indentOf l = u * (d + j) ∧ j + 1 ≤ depth b
  | .decl f cs, h => by
    simp only [syn, Bool.and_eq_true, List.all_eq_true] at h
    intro l hl hf
    simp only [render, List.mem_map] at hl
    obtain ⟨t, ht, rfl⟩ := hl
    rw [isForLine_spaces] at hf
    simp only [List.mem_cons] at ht
    rcases ht with ht | ht
    · subst ht; rw [isForLine_lineOk _ h.1.2] at hf; cases hf
    · rw [isForLine_lineOk _ (h.2 t ht)] at hf; cases hf
  | .loop v s e incl body, h => by
    simp only [syn, Bool.and_eq_true] at h
    intro l hl hf
    simp only [render, List.mem_cons] at hl
    rcases hl with hl | hl
    · subst hl
      exact ⟨0, by rw [indentOf_header]; rfl, by simp [depth]⟩
    · obtain ⟨j, h1, h2⟩ := for_lines_boundList u (d + 1) body h.2 l hl hf
      exact ⟨j + 1, by rw [h1]; congr 1; omega, by simp only [depth]; omega⟩
theorem for_lines_boundList (u d : Nat) : ∀ bs : List Block, synList bs = true → ∀ l ∈ renderList u d bs, isForLine l = true →
    ∃ j, indentOf l = u * (d + j) ∧ j + 1 ≤ depthList bs
  | [], _ => by simp [renderList]
  | b :: bs, h => by
    simp only [synList, Bool.and_eq_true] at h
    intro l hl hf
    simp only [renderList, List.mem_append] at hl
    rcases hl with hl | hl
    · obtain ⟨j, h1, h2⟩ := for_lines_bound u d b h.1 l hl hf
      exact ⟨j, h1, by simp only [depthList]; omega⟩
    · obtain ⟨j, h1, h2⟩ := for_lines_boundList u d bs h.2 l hl hf
      exact ⟨j, h1, by simp only [depthList]; omega⟩
end

theorem isForLine_header (n : Nat) (v : Text) (s e : Int) (incl : Bool) :
    isForLine (spaces n ++ headerText v s e incl) = true := by
  rw [isForLine_spaces, isForLine, trimStart_headOk _ (by simp [headerText, headOk]; decide)]
  simp [headerText, List.isPrefixOf]

-- a program with loops has a `for` line at the deepest header indentation
mutual
theorem deepest_for (u d : Nat) : ∀ b : Block, 1 ≤ depth b →
    ∃ l ∈ render u d b, isForLine l = true ∧ indentOf l = u * (d + depth b - 1)
  | .decl f cs, h => by simp [depth] at h
  | .loop v s e incl body, _ => by
    by_cases hb : 1 ≤ depthList body
    · obtain ⟨l, hl, hf, hi⟩ := deepest_forList u (d + 1) body hb
      refine ⟨l, by simp [render, hl], hf, ?_⟩
      rw [hi]; simp only [depth]; congr 1; omega
    · refine ⟨spaces (u * d) ++ headerText v s e incl, by simp [render], isForLine_header _ _ _ _ _, ?_⟩
      rw [indentOf_header]; simp only [depth]; congr 1; omega
theorem deepest_forList (u d : Nat) : ∀ bs : List Block, 1 ≤ depthList bs →
    ∃ l ∈ renderList u d bs, isForLine l = true ∧ indentOf l = u * (d + depthList bs - 1)
  | [], h => by simp [depthList] at h
  | b :: bs, h => by
    simp only [depthList] at h ⊢
    by_cases hm : depthList bs ≤ depth b
    · have hb : 1 ≤ depth b := by omega
      obtain ⟨l, hl, hf, hi⟩ := deepest_for u d b hb
      refine ⟨l, by simp [renderList, hl], hf, ?_⟩
      rw [hi]; congr 1; omega
    · have hb : 1 ≤ depthList bs := by omega
      obtain ⟨l, hl, hf, hi⟩ := deepest_forList u d bs hb
      refine ⟨l, by simp [renderList, hl], hf, ?_⟩
      rw [hi]; congr 1; omega
end

theorem render_progress (u : Nat) (hu : 0 < u) (bs : List Block) (hs : synList bs = true) (hd : 1 ≤ depthList bs) :
    renderList u 0 bs ≠ renderList u 0 (unroll1 bs) := by
  intro heq
  obtain ⟨l, hl, hf, hi⟩ := deepest_forList u 0 bs hd
  rw [heq] at hl
  obtain ⟨j, h1, h2⟩ := for_lines_boundList u 0 (unroll1 bs) (synList_unroll1 bs hs) l hl hf
  have h3 := depthList_unroll1 bs
  rw [hi] at h1
  have : 0 + depthList bs - 1 = 0 + j := Nat.eq_of_mul_eq_mul_left hu h1
  omega


/-! ### the pass loop on a rendered program -/

theorem noBreak_spaces_append (n : Nat) (t : Text) (h : noBreak t) : noBreak (spaces n ++ t) := by
  intro c hc
  simp only [List.mem_append] at hc
  rcases hc with hc | hc
  · simp only [spaces, List.mem_replicate] at hc
    rw [hc.2]; exact ⟨by decide, by decide⟩
  · exact h c hc

theorem lineOk_noBreak (t : Text) (h : lineOk t = true) : noBreak t := by
  simp only [lineOk, Bool.and_eq_true, List.all_eq_true, bne_iff_ne, ne_eq] at h
  exact h.1.1

theorem headerText_noBreak (v : Text) (s e : Int) (incl : Bool) (hv : varOk v = true) :
    noBreak (headerText v s e incl) := by
  simp only [varOk, Bool.and_eq_true, List.all_eq_true] at hv
  intro c hc
  rcases headerText_chars v s e incl c hc with h | h | h
  · constructor <;> (intro hb; subst hb; revert h; decide)
  · have := hv.2 c h
    constructor <;> (intro hb; subst hb; revert this; decide)
  · constructor <;> (intro hb; subst hb; revert h; decide)

mutual
theorem render_noBreak (u d : Nat) : ∀ b : Block, syn b = true → ∀ l ∈ render u d b, noBreak l
  | .decl f cs, h => by
    simp only [syn, Bool.and_eq_true, List.all_eq_true] at h
    intro l hl
    simp only [render, List.mem_map] at hl
    obtain ⟨t, ht, rfl⟩ := hl
    apply noBreak_spaces_append
    simp only [List.mem_cons] at ht
    rcases ht with ht | ht
    · subst ht; exact lineOk_noBreak _ h.1.2
    · exact lineOk_noBreak _ (h.2 t ht)
  | .loop v s e incl body, h => by
    simp only [syn, Bool.and_eq_true] at h
    intro l hl
    simp only [render, List.mem_cons] at hl
    rcases hl with hl | hl
    · subst hl; exact noBreak_spaces_append _ _ (headerText_noBreak v s e incl h.1.1.1.1.1)
    · exact renderList_noBreak u (d + 1) body h.2 l hl
theorem renderList_noBreak (u d : Nat) : ∀ bs : List Block, synList bs = true → ∀ l ∈ renderList u d bs, noBreak l
  | [], _ => by simp [renderList]
  | b :: bs, h => by
    simp only [synList, Bool.and_eq_true] at h
    intro l hl
    simp only [renderList, List.mem_append] at hl
    rcases hl with hl | hl
    · exact render_noBreak u d b h.1 l hl
    · exact renderList_noBreak u d bs h.2 l hl
end

/-- `n` rounds of unrolling -/
def unrollN : Nat → List Block → List Block
  | 0, bs => bs
  | n + 1, bs => unrollN n (unroll1 bs)

theorem unrollN_depth0 (n : Nat) (bs : List Block) (h : depthList bs = 0) : unrollN n bs = bs := by
  induction n with
  | zero => rfl
  | succ n ih => simp [unrollN, unroll1_depth0 bs h, ih]

theorem passes_rendered (u : Nat) (hu : 0 < u) (n : Nat) : ∀ (bs : List Block) (b : Nat), synList bs = true →
    depthList bs < n → costIter n bs ≤ b →
    passes n b (joinLines (renderList u 0 bs)) = .ok (joinLines (renderList u 0 (unrollN n bs))) := by
  induction n with
  | zero => intro bs b _ hd _; omega
  | succ n ih =>
    intro bs b hs hd hc
    simp only [costIter] at hc
    have hnb := renderList_noBreak u 0 bs hs
    have hpass : onePassText b (joinLines (renderList u 0 bs)) =
        .ok (joinLines (renderList u 0 (unroll1 bs)), b - cost1 bs) := by
      simp only [onePassText, rustLines_joinLines _ hnb, onePass_rendered u hu bs b hs (by omega), Outcome.map]
    simp only [passes, hpass]
    by_cases hd0 : depthList bs = 0
    · simp [unroll1_depth0 bs hd0, unrollN_depth0 _ bs hd0]
    · have hne : joinLines (renderList u 0 (unroll1 bs)) ≠ joinLines (renderList u 0 bs) := by
        intro heq
        have h1 := rustLines_joinLines _ (renderList_noBreak u 0 (unroll1 bs) (synList_unroll1 bs hs))
        rw [heq, rustLines_joinLines _ hnb] at h1
        exact render_progress u hu bs hs (by omega) h1
      have hn0 : n ≠ 0 := by omega
      simp only [hne, if_false, hn0]
      have hdu := depthList_unroll1 bs
      rw [ih (unroll1 bs) (b - cost1 bs) (synList_unroll1 bs hs) (by omega) (by omega)]
      rfl

/-! ### the hand expansion is the complete unrolling -/

theorem substEnv_cons (v : Text) (k : Int) (env : List (Text × Int)) (t : Text) :
    substEnv ((v, k) :: env) t = substEnv env (replaceAll (pattern v) (fmtInt k) t) := rfl

mutual
theorem hand_cons (v : Text) (k : Int) : ∀ (b : Block) (env : List (Text × Int)),
    hand ((v, k) :: env) b = hand env (subst1 v k b)
  | .decl f cs, env => by
    simp only [hand, subst1, List.map_cons, substEnv_cons, List.map_map]
    congr 1
  | .loop v' s e incl body, env => by
    simp only [hand, subst1, List.cons_append]
    apply flatMap_congr'
    intro k' _
    exact handList_cons v k body _
theorem handList_cons (v : Text) (k : Int) : ∀ (bs : List Block) (env : List (Text × Int)),
    handList ((v, k) :: env) bs = handList env (subst1List v k bs)
  | [], env => by simp [handList, subst1List]
  | b :: bs, env => by simp [handList, subst1List, hand_cons v k b env, handList_cons v k bs env]
end

theorem handList_append (env : List (Text × Int)) (a b : List Block) :
    handList env (a ++ b) = handList env a ++ handList env b := by
  induction a with
  | nil => simp [handList]
  | cons x a ih => simp [handList, ih]

theorem handList_flatMap {α : Type} (env : List (Text × Int)) (l : List α) (f : α → List Block) :
    handList env (l.flatMap f) = l.flatMap fun x => handList env (f x) := by
  induction l with
  | nil => simp [handList]
  | cons x l ih => simp [List.flatMap_cons, handList_append, ih]

theorem handList_unroll1 (bs : List Block) : handList [] (unroll1 bs) = handList [] bs := by
  induction bs with
  | nil => rfl
  | cons x bs ih =>
    cases x with
    | decl f cs => simp [unroll1, handList, ih]
    | loop v s e incl body =>
      simp only [unroll1, handList_append, handList_flatMap, handList, hand, ih, List.nil_append]
      congr 1
      apply flatMap_congr'
      intro k _
      exact (handList_cons v k body []).symm

theorem handList_depth0 (u : Nat) (bs : List Block) (h : depthList bs = 0) : handList [] bs = renderList u 0 bs := by
  induction bs with
  | nil => rfl
  | cons x bs ih =>
    cases x with
    | decl f cs =>
      simp only [depthList, depth] at h
      have hid : substEnv [] = id := by funext t; rfl
      simp [handList, hand, renderList, render, spaces, hid, ih (by omega)]
    | loop v s e incl body => simp only [depthList, depth] at h; omega

theorem handList_unrollN (u n : Nat) : ∀ bs : List Block, depthList bs ≤ n →
    handList [] bs = renderList u 0 (unrollN n bs) := by
  induction n with
  | zero => intro bs h; exact handList_depth0 u bs (by omega)
  | succ n ih =>
    intro bs h
    have := depthList_unroll1 bs
    rw [← handList_unroll1 bs, ih (unroll1 bs) (by omega)]
    rfl

/-- **C42**: the expander turns the text of a well-formed loop program into the text of its hand expansion -/
theorem expand_eq_hand (u : Nat) (bs : List Block) (h : wellFormed u bs = true) :
    expand (joinLines (renderList u 0 bs)) = .ok (joinLines (handList [] bs)) := by
  simp only [wellFormed, Bool.and_eq_true, decide_eq_true_eq] at h
  obtain ⟨⟨⟨hu, hs⟩, hd⟩, hc⟩ := h
  unfold expand
  rw [passes_rendered u hu MAX_EXPANSION_PASSES bs MAX_EXPANDED_LINES hs hd hc,
    handList_unrollN u MAX_EXPANSION_PASSES bs (by omega)]


/-! ### the expansion cost in closed form -/

mutual
theorem render_len_lines (u d : Nat) : ∀ b : Block, (render u d b).length = linesB b
  | .decl f cs => by simp [render, linesB]; omega
  | .loop v s e incl body => by simp [render, linesB, renderList_len_lines u (d + 1) body]; omega
theorem renderList_len_lines (u d : Nat) : ∀ bs : List Block, (renderList u d bs).length = linesL bs
  | [] => by simp [renderList, linesL]
  | b :: bs => by simp [renderList, linesL, render_len_lines u d b, renderList_len_lines u d bs]
end

mutual
theorem linesB_subst1 (v : Text) (k : Int) : ∀ b : Block, linesB (subst1 v k b) = linesB b
  | .decl f cs => by simp [subst1, linesB]
  | .loop v' s e incl body => by simp [subst1, linesB, linesL_subst1 v k body]
theorem linesL_subst1 (v : Text) (k : Int) : ∀ bs : List Block, linesL (subst1List v k bs) = linesL bs
  | [] => by simp [subst1List, linesL]
  | b :: bs => by simp [subst1List, linesL, linesB_subst1 v k b, linesL_subst1 v k bs]
end

mutual
theorem costB_subst1 (v : Text) (k : Int) : ∀ b : Block, costB (subst1 v k b) = costB b
  | .decl f cs => by simp [subst1, costB]
  | .loop v' s e incl body => by simp [subst1, costB, linesL_subst1 v k body, costL_subst1 v k body]
theorem costL_subst1 (v : Text) (k : Int) : ∀ bs : List Block, costL (subst1List v k bs) = costL bs
  | [] => by simp [subst1List, costL]
  | b :: bs => by simp [subst1List, costL, costB_subst1 v k b, costL_subst1 v k bs]
end

theorem intRange_length' (s e : Int) : (intRange s e).length = (e - s).toNat := by simp [intRange]

theorem costL_append (a b : List Block) : costL (a ++ b) = costL a + costL b := by
  induction a with
  | nil => simp [costL]
  | cons x a ih => simp [costL, ih]; omega

theorem costL_flatMap_const {α : Type} (l : List α) (f : α → List Block) (c : Nat) (h : ∀ x ∈ l, costL (f x) = c) :
    costL (l.flatMap f) = l.length * c := by
  induction l with
  | nil => simp [costL]
  | cons x l ih =>
    simp only [List.flatMap_cons, costL_append, h x (by simp), ih (fun y hy => h y (by simp [hy])), List.length_cons]
    rw [Nat.succ_mul]; omega

theorem cost1_add_unroll1 (bs : List Block) : cost1 bs + costL (unroll1 bs) = costL bs := by
  induction bs with
  | nil => rfl
  | cons x bs ih =>
    cases x with
    | decl f cs => simp only [cost1, unroll1, costL, costB]; omega
    | loop v s e incl body =>
      simp only [cost1, unroll1, costL_append, costL, costB, renderList_len_lines]
      rw [costL_flatMap_const (intRange s e) _ (costL body) (fun k _ => costL_subst1 v k body), intRange_length',
        Nat.mul_add]
      omega

theorem costL_depth0 (bs : List Block) (h : depthList bs = 0) : costL bs = 0 := by
  induction bs with
  | nil => rfl
  | cons x bs ih =>
    cases x with
    | decl f cs => simp only [depthList, depth] at h; simp [costL, costB, ih (by omega)]
    | loop v s e incl body => simp only [depthList, depth] at h; omega

theorem costIter_eq_costL (n : Nat) : ∀ bs : List Block, depthList bs ≤ n → costIter n bs = costL bs := by
  induction n with
  | zero => intro bs h; simp [costIter, costL_depth0 bs (by omega)]
  | succ n ih =>
    intro bs h
    have := depthList_unroll1 bs
    rw [costIter, ih (unroll1 bs) (by omega), cost1_add_unroll1]


/-! ### the extended specification agrees with the literal one -/

theorem xheaderText_lit (v : Text) (s e : Int) (incl : Bool) :
    xheaderText v (.lit s) (.lit e) incl = headerText v s e incl := by
  cases incl <;> simp [xheaderText, headerText, Bound.text]

mutual
theorem xrender_toX (u d : Nat) : ∀ b : Block, xrender u d b.toX = render u d b
  | .decl f cs => by simp [Block.toX, xrender, render]
  | .loop v s e incl body => by simp [Block.toX, xrender, render, xheaderText_lit, xrenderList_toX u (d + 1) body]
theorem xrenderList_toX (u d : Nat) : ∀ bs : List Block, xrenderList u d (Block.toXList bs) = renderList u d bs
  | [] => by simp [Block.toXList, xrenderList, renderList]
  | b :: bs => by simp [Block.toXList, xrenderList, renderList, xrender_toX u d b, xrenderList_toX u d bs]
end

mutual
theorem xhand_toX : ∀ (b : Block) (env : List (Text × Int)), xhand env b.toX = hand env b
  | .decl f cs, env => by simp [Block.toX, xhand, hand]
  | .loop v s e incl body, env => by
    simp only [Block.toX, xhand, hand, Bound.val, xend]
    apply flatMap_congr'
    intro k _
    exact xhandList_toX body _
theorem xhandList_toX : ∀ (bs : List Block) (env : List (Text × Int)), xhandList env (Block.toXList bs) = handList env bs
  | [], env => by simp [Block.toXList, xhandList, handList]
  | b :: bs, env => by simp [Block.toXList, xhandList, handList, xhand_toX b env, xhandList_toX bs env]
end

mutual
theorem toBlock_toX : ∀ b : Block, b.toX.toBlock? = some b
  | .decl f cs => by simp [Block.toX, XBlock.toBlock?]
  | .loop v s e incl body => by simp [Block.toX, XBlock.toBlock?, toBlockList_toX body]
theorem toBlockList_toX : ∀ bs : List Block, XBlock.toBlockList? (Block.toXList bs) = some bs
  | [] => by simp [Block.toXList, XBlock.toBlockList?]
  | b :: bs => by simp [Block.toXList, XBlock.toBlockList?, toBlock_toX b, toBlockList_toX bs]
end


/-! ### sample programs (used as non-vacuity witnesses in `Props/C42.lean`) -/

def demo1 : List Block :=
  [.loop "i".toList 0 3 false [.decl "stream S{i} = T .where(x == {i}) .emit(v: x)".toList []]]

def demo2 : List Block :=
  [.loop "r".toList (-1) 1 true
    [.loop "c".toList 0 2 false [.decl "stream T{r}x{c} = E{c}".toList ["    .where(x > {r})".toList]],
     .loop "r".toList 5 6 false [.decl "context k{r}".toList []]],
   .decl "stream Z = T".toList []]

end Varpulis.Expand
