import Varpulis.Lemmas.Coord
/-! Bookkeeping invariant of the coordinator model (C32): definitions, list lemmas, one lemma per primitive. -/
namespace Varpulis.Coord

/-- names of the running records on worker `id` -/
def ron (P : List PRec) (id : WId) : List Name :=
  (P.filter fun r => decide (r.status = .running) && r.worker == id).map (·.name)

theorem runningOn_eq (s : St) (id : WId) : s.runningOn id = ron s.placements id := rfl

def PRec.runsOn (r : PRec) (id : WId) : Bool := decide (r.status = .running) && r.worker == id

theorem ron_append (P Q : List PRec) (id : WId) : ron (P ++ Q) id = ron P id ++ ron Q id := by
  simp [ron, List.filter_append]

theorem ron_single (r : PRec) (id : WId) : ron [r] id = if r.runsOn id then [r.name] else [] := by
  by_cases h : (decide (r.status = .running) && r.worker == id) = true <;> simp [ron, PRec.runsOn, h]

theorem ron_cons (r : PRec) (P : List PRec) (id : WId) :
    ron (r :: P) id = (if r.runsOn id then [r.name] else []) ++ ron P id := by
  rw [← ron_single]; exact ron_append [r] P id

/-- erasing the first record with a key: a running record on `id` disappears from `ron`, nothing else changes -/
theorem ron_eraseP (P : List PRec) (k : PRec → Bool) (id : WId) :
    (∀ r, P.find? k = some r → r.runsOn id = true → (ron P id).Perm (r.name :: ron (P.eraseP k) id)) ∧
    ((∀ r, P.find? k = some r → r.runsOn id = false) → ron (P.eraseP k) id = ron P id) := by
  cases hf : P.find? k with
  | none =>
    have hnone := List.find?_eq_none.1 hf
    rw [List.eraseP_of_forall_not hnone]
    exact ⟨fun r h => (by cases h), fun _ => rfl⟩
  | some r =>
    obtain ⟨hk, pre, post, hsplit, hpre⟩ := List.find?_eq_some_iff_append.1 hf
    have he : P.eraseP k = pre ++ post := by
      rw [hsplit, List.eraseP_append_right _ (fun b hb => by simpa using hpre b hb)]
      simp [List.eraseP_cons, hk]
    rw [he, hsplit]
    constructor
    · intro r' hr' hrun
      cases hr'
      simp only [ron_append, ron_cons, hrun, if_true, List.singleton_append]
      exact List.perm_middle
    · intro h
      have := h r rfl
      simp [ron_append, ron_cons, this]

theorem ron_filter_keep (P : List PRec) (q : PRec → Bool) (id : WId)
    (h : ∀ r ∈ P, q r = false → r.status ≠ .running) : ron (P.filter q) id = ron P id := by
  induction P with
  | nil => rfl
  | cons r P ih =>
    have ih' := ih (fun x hx => h x (List.mem_cons_of_mem _ hx))
    by_cases hq : q r = true
    · simp only [List.filter_cons, hq, if_true, ron_cons, ih']
    · have hq' : q r = false := by simpa using hq
      have hns := h r (List.mem_cons_self) hq'
      have : r.runsOn id = false := by simp [PRec.runsOn, hns]
      simp [List.filter_cons, hq', ron_cons, this, ih']

theorem mem_ron {P : List PRec} {id : WId} {n : Name} :
    n ∈ ron P id ↔ ∃ r ∈ P, r.runsOn id = true ∧ r.name = n := by
  simp [ron, PRec.runsOn, List.mem_map, List.mem_filter, and_assoc]

/-! ### the invariant -/

/-- **BookInv**: every running placement has a pipeline id and sits on a registered worker; every worker's
assigned list is (a permutation of) the running placements on it and its running count is their number -/
def BookInv (s : St) : Prop :=
  (∀ r ∈ s.placements, r.status = .running → r.hasId = true ∧ ∃ w ∈ s.workers, w.id = r.worker) ∧
  (∀ w ∈ s.workers, w.assigned.Perm (s.runningOn w.id) ∧ w.running = w.assigned.length)

theorem bookInvB_iff (s : St) : bookInvB s = true ↔ BookInv s := by
  simp only [bookInvB, BookInv, Bool.and_eq_true, List.all_eq_true, Bool.or_eq_true, bne_iff_ne, ne_eq,
    List.any_eq_true, beq_iff_eq, List.isPerm_iff]
  constructor
  · rintro ⟨h1, h2⟩
    refine ⟨fun r hr hs => ?_, fun w hw => h2 w hw⟩
    rcases h1 r hr with h | h
    · exact absurd hs h
    · exact h
  · rintro ⟨h1, h2⟩
    refine ⟨fun r hr => ?_, fun w hw => h2 w hw⟩
    by_cases hs : r.status = .running
    · exact Or.inr (h1 r hr hs)
    · exact Or.inl hs

theorem mem_updW {s : St} {j : WId} {f : Worker → Worker} {w' : Worker} :
    w' ∈ (s.updW j f).workers ↔ ∃ w ∈ s.workers, w' = if w.id = j then f w else w := by
  simp only [St.updW, List.mem_map]
  constructor
  · rintro ⟨w, hw, rfl⟩; exact ⟨w, hw, rfl⟩
  · rintro ⟨w, hw, rfl⟩; exact ⟨w, hw, rfl⟩

/-- registered ids are unchanged by an id-preserving update -/
theorem reg_updW {s : St} {j : WId} {f : Worker → Worker} (hf : ∀ w, (f w).id = w.id) (id : WId) :
    (∃ w ∈ (s.updW j f).workers, w.id = id) ↔ ∃ w ∈ s.workers, w.id = id := by
  have hid : ∀ w : Worker, (if w.id = j then f w else w).id = w.id := by
    intro w; split <;> simp [hf]
  constructor
  · rintro ⟨w', hw', h⟩
    obtain ⟨w, hw, rfl⟩ := mem_updW.1 hw'
    exact ⟨w, hw, (hid w).symm.trans h⟩
  · rintro ⟨w, hw, h⟩
    exact ⟨_, mem_updW.2 ⟨w, hw, rfl⟩, (hid w).trans h⟩

theorem getP_some {s : St} {g : GId} {n : Name} {r : PRec} (h : s.getP g n = some r) :
    r ∈ s.placements ∧ r.gid = g ∧ r.name = n := by
  unfold St.getP at h
  have := List.find?_some h
  simp only [PRec.hasKey, Bool.and_eq_true, beq_iff_eq] at this
  exact ⟨List.mem_of_find?_eq_some h, this.1, this.2⟩

/-- the old record under a key does not run anywhere -/
def OldIdle (s : St) (g : GId) (n : Name) : Prop := ∀ r, s.getP g n = some r → r.status = .failed

theorem ron_insertP_idle (s : St) (r0 : PRec) (id : WId) (hold : OldIdle s r0.gid r0.name) :
    ron (s.insertP r0).placements id = ron s.placements id ++ (if r0.runsOn id then [r0.name] else []) := by
  simp only [St.insertP, ron_append, ron_single]
  congr 1
  apply (ron_eraseP s.placements _ id).2
  intro r hr
  have := hold r hr
  simp [PRec.runsOn, this]

/-- status-only / consistent-count updates of workers -/
theorem bookInv_map_workers (s : St) (g : Worker → Worker)
    (hg : ∀ w ∈ s.workers, (g w).id = w.id ∧ (g w).assigned = w.assigned ∧
      (w.running = w.assigned.length → (g w).running = w.assigned.length))
    (h : BookInv s) : BookInv { s with workers := s.workers.map g } := by
  obtain ⟨h1, h2⟩ := h
  constructor
  · intro r hr hs
    obtain ⟨hid, w, hw, hwid⟩ := h1 r hr hs
    exact ⟨hid, g w, List.mem_map.2 ⟨w, hw, rfl⟩, (hg w hw).1.trans hwid⟩
  · intro w' hw'
    obtain ⟨w, hw, rfl⟩ := List.mem_map.1 hw'
    obtain ⟨e1, e2, e3⟩ := hg w hw
    obtain ⟨p1, p2⟩ := h2 w hw
    show (g w).assigned.Perm (ron s.placements (g w).id) ∧ _
    rw [e1, e2]
    exact ⟨p1, e3 p2⟩

/-- insert a running record on a registered worker and book it there -/
theorem bookInv_insert_running (s : St) (g : GId) (n : Name) (t : WId) (e : Nat)
    (h : BookInv s) (hreg : ∃ w ∈ s.workers, w.id = t) (hold : OldIdle s g n) :
    BookInv ((s.insertP { gid := g, name := n, worker := t, status := .running, hasId := true, epoch := e }).updW t
      (Worker.push n)) := by
  obtain ⟨h1, h2⟩ := h
  constructor
  · intro r hr hs
    have hr' : r ∈ s.placements.eraseP (PRec.hasKey g n) ++
        [{ gid := g, name := n, worker := t, status := .running, hasId := true, epoch := e }] := hr
    have key : r.hasId = true ∧ ∃ w ∈ s.workers, w.id = r.worker := by
      rcases List.mem_append.1 hr' with hm | hm
      · exact h1 r (List.mem_of_mem_eraseP hm) hs
      · simp only [List.mem_singleton] at hm; subst hm; exact ⟨rfl, hreg⟩
    exact ⟨key.1, (reg_updW (s := s.insertP _) (j := t) (f := Worker.push n) (fun _ => rfl) r.worker).2 key.2⟩
  · intro w' hw'
    obtain ⟨w, hw, rfl⟩ := mem_updW.1 hw'
    obtain ⟨p1, p2⟩ := h2 w hw
    have hron := ron_insertP_idle s { gid := g, name := n, worker := t, status := .running, hasId := true, epoch := e }
      w.id hold
    by_cases hwt : w.id = t
    · subst hwt
      have hr : (PRec.runsOn { gid := g, name := n, worker := w.id, status := .running, hasId := true, epoch := e } w.id) = true := by
        simp [PRec.runsOn]
      rw [hr] at hron
      simp only [if_true]
      show (w.assigned ++ [n]).Perm (ron (s.insertP _).placements w.id) ∧ w.running + 1 = (w.assigned ++ [n]).length
      rw [hron]
      exact ⟨List.Perm.append_right _ p1, by simp [p2]⟩
    · have hr : (PRec.runsOn { gid := g, name := n, worker := t, status := .running, hasId := true, epoch := e } w.id) = false := by
        simp [PRec.runsOn]; exact fun e => hwt e.symm
      rw [hr] at hron
      simp only [hwt, if_false]
      show w.assigned.Perm (ron (s.insertP _).placements w.id) ∧ _
      rw [hron]
      simpa using ⟨p1, p2⟩

/-- insert a failed record over an idle key -/
theorem bookInv_insert_failed (s : St) (g : GId) (n : Name) (t : WId)
    (h : BookInv s) (hold : OldIdle s g n) :
    BookInv (s.insertP { gid := g, name := n, worker := t, status := .failed, hasId := false, epoch := 0 }) := by
  obtain ⟨h1, h2⟩ := h
  constructor
  · intro r hr hs
    have hr' : r ∈ s.placements.eraseP (PRec.hasKey g n) ++
        [{ gid := g, name := n, worker := t, status := .failed, hasId := false, epoch := 0 }] := hr
    rcases List.mem_append.1 hr' with hm | hm
    · exact h1 r (List.mem_of_mem_eraseP hm) hs
    · simp only [List.mem_singleton] at hm; subst hm; cases hs
  · intro w hw
    obtain ⟨p1, p2⟩ := h2 w hw
    have hron := ron_insertP_idle s { gid := g, name := n, worker := t, status := .failed, hasId := false, epoch := 0 }
      w.id hold
    have hr : (PRec.runsOn { gid := g, name := n, worker := t, status := .failed, hasId := false, epoch := 0 } w.id) = false := by
      simp [PRec.runsOn]
    rw [runningOn_eq, hron, hr]
    simpa using ⟨p1, p2⟩

theorem bookInv_congr (s s' : St) (hw : s'.workers = s.workers) (hp : s'.placements = s.placements)
    (h : BookInv s) : BookInv s' := by
  unfold BookInv St.runningOn at *
  rw [hw, hp]; exact h

/-- dropping records that do not run -/
theorem bookInv_filterP (s : St) (q : PRec → Bool) (hq : ∀ r ∈ s.placements, q r = false → r.status ≠ .running)
    (h : BookInv s) : BookInv { s with placements := s.placements.filter q } := by
  obtain ⟨h1, h2⟩ := h
  constructor
  · intro r hr hs
    exact h1 r (List.mem_filter.1 hr).1 hs
  · intro w hw
    show w.assigned.Perm (ron (s.placements.filter q) w.id) ∧ _
    rw [ron_filter_keep _ _ _ hq]
    exact h2 w hw

/-- one teardown task on a matching running record -/
theorem bookInv_teardownTask (s : St) (g : GId) (n : Name) (w0 : WId) (r : PRec)
    (h : BookInv s) (hr : s.getP g n = some r) (hrun : r.status = .running) (hw0 : r.worker = w0) :
    BookInv (teardownTask g s (n, w0)) := by
  obtain ⟨h1, h2⟩ := h
  have hfind : s.placements.find? (PRec.hasKey g n) = some r := hr
  constructor
  · intro r' hr' hs
    have hm : r' ∈ s.placements.eraseP (PRec.hasKey g n) := hr'
    have key := h1 r' (List.mem_of_mem_eraseP hm) hs
    exact ⟨key.1, (reg_updW (s := s) (j := w0) (f := Worker.pop n) (fun _ => rfl) r'.worker).2 key.2⟩
  · intro w' hw'
    have hw'' : w' ∈ (s.updW w0 (Worker.pop n)).workers := hw'
    obtain ⟨w, hw, rfl⟩ := mem_updW.1 hw''
    obtain ⟨p1, p2⟩ := h2 w hw
    by_cases hwt : w.id = w0
    · subst hwt
      simp only [if_true]
      have hro : r.runsOn w.id = true := by simp [PRec.runsOn, hrun, hw0]
      have hperm := (ron_eraseP s.placements (PRec.hasKey g n) w.id).1 r hfind hro
      have hn : r.name = n := (getP_some hr).2.2
      rw [hn] at hperm
      have hpa : w.assigned.Perm (n :: ron (s.placements.eraseP (PRec.hasKey g n)) w.id) := p1.trans hperm
      have hmem : n ∈ w.assigned := (hpa.mem_iff).2 (List.mem_cons_self)
      show (w.assigned.erase n).Perm (ron (s.placements.eraseP (PRec.hasKey g n)) w.id) ∧
        w.running - 1 = (w.assigned.erase n).length
      refine ⟨?_, ?_⟩
      · have := hpa.erase n
        rwa [List.erase_cons_head] at this
      · rw [List.length_erase_of_mem hmem, p2]
    · simp only [hwt, if_false]
      have hro : ∀ r', s.placements.find? (PRec.hasKey g n) = some r' → r'.runsOn w.id = false := by
        intro r' h'
        rw [hfind] at h'; cases h'
        simp [PRec.runsOn, hw0]; exact fun _ e => hwt e.symm
      show w.assigned.Perm (ron (s.placements.eraseP (PRec.hasKey g n)) w.id) ∧ _
      rw [(ron_eraseP s.placements (PRec.hasKey g n) w.id).2 hro]
      exact ⟨p1, p2⟩

theorem mig_worker (n : Name) (T S : WId) (w : Worker) :
    let w1 := if w.id = T then Worker.push n w else w
    let w2 := if w1.id = S then Worker.pop n w1 else w1
    w2.id = w.id ∧
    w2.assigned = (if w.id = S then (if w.id = T then w.assigned ++ [n] else w.assigned).erase n
                   else (if w.id = T then w.assigned ++ [n] else w.assigned)) ∧
    w2.running = (if w.id = S then (if w.id = T then w.running + 1 else w.running) - 1
                  else (if w.id = T then w.running + 1 else w.running)) := by
  by_cases ht : w.id = T
  · subst ht
    by_cases hs : w.id = S
    · subst hs; simp [Worker.push, Worker.pop]
    · simp [Worker.push, Worker.pop, hs]
  · by_cases hs : w.id = S
    · subst hs; simp [Worker.push, Worker.pop, ht]
    · simp [Worker.push, Worker.pop, ht, hs]

/-- bookkeeping of a migration of a running record to a registered target -/
theorem bookInv_applyMigration (s : St) (p : MigPlan) (r : PRec)
    (h : BookInv s) (hr : s.getP p.gid p.name = some r) (hrun : r.status = .running) (hsrc : r.worker = p.source)
    (hreg : ∃ w ∈ s.workers, w.id = p.target) : BookInv (applyMigration s p) := by
  obtain ⟨h1, h2⟩ := h
  have hfind : s.placements.find? (PRec.hasKey p.gid p.name) = some r := hr
  have hn : r.name = p.name := (getP_some hr).2.2
  have hP : (applyMigration s p).placements = s.placements.eraseP (PRec.hasKey p.gid p.name) ++
      [{ gid := p.gid, name := p.name, worker := p.target, status := .running, hasId := true, epoch := p.epoch + 1 }] := rfl
  have hW : (applyMigration s p).workers =
      ((s.updW p.target (Worker.push p.name)).updW p.source (Worker.pop p.name)).workers := rfl
  constructor
  · intro r' hr' hs
    rw [hP] at hr'
    have key : r'.hasId = true ∧ ∃ w ∈ s.workers, w.id = r'.worker := by
      rcases List.mem_append.1 hr' with hm | hm
      · exact h1 r' (List.mem_of_mem_eraseP hm) hs
      · simp only [List.mem_singleton] at hm; subst hm; exact ⟨rfl, hreg⟩
    refine ⟨key.1, ?_⟩
    rw [hW]
    exact (reg_updW (s := s.updW p.target (Worker.push p.name)) (j := p.source) (f := Worker.pop p.name) (fun _ => rfl) _).2
      ((reg_updW (s := s) (j := p.target) (f := Worker.push p.name) (fun _ => rfl) _).2 key.2)
  · intro w' hw'
    rw [hW] at hw'
    obtain ⟨w1, hw1, rfl⟩ := mem_updW.1 hw'
    obtain ⟨w, hw, rfl⟩ := mem_updW.1 hw1
    obtain ⟨p1, p2⟩ := h2 w hw
    have hron : ∀ id, ron (applyMigration s p).placements id =
        ron (s.placements.eraseP (PRec.hasKey p.gid p.name)) id ++ (if id = p.target then [p.name] else []) := by
      intro id
      rw [hP, ron_append, ron_single]
      by_cases e : id = p.target
      · simp [PRec.runsOn, e]
      · have : ¬ p.target = id := fun e' => e e'.symm
        simp [PRec.runsOn, e, this]
    obtain ⟨e1, e2, e3⟩ := mig_worker p.name p.target p.source w
    show _ ∧ _
    rw [runningOn_eq, e1, e2, e3, hron]
    by_cases hs : w.id = p.source
    · have hro : r.runsOn w.id = true := by simp [PRec.runsOn, hrun, hsrc, hs]
      have hperm := (ron_eraseP s.placements (PRec.hasKey p.gid p.name) w.id).1 r hfind hro
      rw [hn] at hperm
      have hpa : w.assigned.Perm (p.name :: ron (s.placements.eraseP (PRec.hasKey p.gid p.name)) w.id) := p1.trans hperm
      have hmem : p.name ∈ w.assigned := (hpa.mem_iff).2 (List.mem_cons_self)
      have hpos : 0 < w.assigned.length := List.length_pos_of_mem hmem
      by_cases ht : w.id = p.target
      · simp only [if_pos hs, if_pos ht]
        refine ⟨?_, ?_⟩
        · have := (List.Perm.append_right [p.name] hpa).erase p.name
          simpa [List.erase_cons_head] using this
        · rw [List.erase_append_left _ hmem]
          simp [List.length_erase_of_mem hmem, p2]
          omega
      · simp only [if_pos hs, if_neg ht, List.append_nil]
        refine ⟨?_, ?_⟩
        · have := hpa.erase p.name
          rwa [List.erase_cons_head] at this
        · rw [List.length_erase_of_mem hmem, p2]
    · have hro : ∀ r', s.placements.find? (PRec.hasKey p.gid p.name) = some r' → r'.runsOn w.id = false := by
        intro r' h'
        rw [hfind] at h'; cases h'
        simp [PRec.runsOn, hsrc]; exact fun _ e => hs e.symm
      have heq := (ron_eraseP s.placements (PRec.hasKey p.gid p.name) w.id).2 hro
      rw [heq]
      by_cases ht : w.id = p.target
      · simp only [if_neg hs, if_pos ht]
        exact ⟨List.Perm.append_right _ p1, by simp [p2]⟩
      · simp only [if_neg hs, if_neg ht, List.append_nil]
        exact ⟨p1, p2⟩

theorem bookInv_register (s : St) (id m c now : Nat) (h : BookInv s) (hg : s.runningOn id = []) :
    BookInv (register s id m c 0 now) := by
  obtain ⟨h1, h2⟩ := h
  constructor
  · intro r hr hs
    obtain ⟨hid, w, hw, hwid⟩ := h1 r hr hs
    refine ⟨hid, ?_⟩
    by_cases he : r.worker = id
    · exact ⟨_, List.mem_cons_self, he.symm⟩
    · refine ⟨w, List.mem_cons_of_mem _ (List.mem_filter.2 ⟨hw, ?_⟩), hwid⟩
      simp [hwid, he]
  · intro w hw
    simp only [register, List.mem_cons] at hw
    rcases hw with rfl | hw
    · show ([] : List Name).Perm (s.runningOn id) ∧ 0 = 0
      rw [hg]; exact ⟨List.Perm.refl _, rfl⟩
    · exact h2 w (List.mem_filter.1 hw).1

theorem bookInv_deregister (s s' : St) (id : WId) (h : BookInv s) (hg : s.runningOn id = [])
    (hd : deregister s id = some s') : BookInv s' := by
  obtain ⟨h1, h2⟩ := h
  unfold deregister at hd
  cases hgw : s.getW id with
  | none => simp [hgw] at hd
  | some w0 =>
    simp only [hgw, Option.some.injEq] at hd
    subst hd
    constructor
    · intro r hr hs
      obtain ⟨hid, w, hw, hwid⟩ := h1 r hr hs
      refine ⟨hid, w, List.mem_filter.2 ⟨hw, ?_⟩, hwid⟩
      have : r.worker ≠ id := by
        intro he
        have : r.name ∈ s.runningOn id := mem_ron.2 ⟨r, hr, by simp [PRec.runsOn, hs, he], rfl⟩
        rw [hg] at this; cases this
      simp [hwid, this]
    · intro w hw
      exact h2 w (List.mem_filter.1 hw).1

end Varpulis.Coord
