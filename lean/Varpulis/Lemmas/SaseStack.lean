import Varpulis.Lemmas.SaseBounds
/-!
# Stack accounting for patterns that do not end in `all` (C05, partial statement next to the known finding)
-/
namespace Varpulis.SaseK
open Varpulis.Zdd

/-- transitions lead to later states, epsilon edges never lead back -/
def NfaFwd (nfa : Nfa) : Prop :=
  ∀ (i : Nat) (st : State), nfa.states[i]? = some st → (∀ t ∈ st.trans, i < t) ∧ (∀ e ∈ st.eps, i ≤ e)

/-- no Kleene state can reach `Accept` by an epsilon edge: the pattern does not end in `all` -/
def NoTrailingAll (nfa : Nfa) : Prop := ∀ st ∈ nfa.states, st.epsAccept = false

def kcN (r : Run) : Nat := match r.kc with | some k => k.nextVar | none => 0

/-- every stack entry is paid for by a forward move or by a capture extension -/
def StackInv (r : Run) : Prop := r.stack.length ≤ r.cur + kcN r

def AdvStack : Adv → Prop
  | .cont r => StackInv r
  | .noMatch r => StackInv r
  | .completeCont r _ => StackInv r
  | _ => True

theorem stackInv_forward {r : Run} (h : StackInv r) (next : Nat) (hn : r.cur < next) (e : Ev) (al : Option Nat) :
    StackInv ({ r with cur := next }.push e al) := by
  simp only [StackInv, Run.push, kcN, List.length_append, List.length_cons, List.length_nil] at h ⊢
  omega

theorem enterKleene_stack (r : Run) (st : State) (e : Ev) (lim : Limits) (h : StackInv r) :
    AdvStack (enterKleene r st e lim) := by
  unfold enterKleene
  by_cases hacc : st.epsAccept = true
  · simp only [hacc, if_true, AdvStack]; exact h
  · have hacc' : st.epsAccept = false := by simpa using hacc
    simp only [hacc', Bool.false_eq_true, if_false]
    cases hkc : r.kc with
    | none =>
      simp only [StackInv, kcN, hkc] at h
      by_cases hge : (KCap.init st.postponed).nextVar ≥ lim.maxEvents
      · simp only [hge, if_true, AdvStack, StackInv, kcN]; omega
      · simp only [hge, if_false, AdvStack, StackInv, kcN, add_nextVar]; omega
    | some k' =>
      simp only [StackInv, kcN, hkc] at h
      by_cases hge : k'.nextVar ≥ lim.maxEvents
      · simp only [hge, if_true, AdvStack, StackInv, kcN]; omega
      · simp only [hge, if_false, AdvStack, StackInv, kcN, add_nextVar]; omega

theorem completeRun_stack (r : Run) (lim : Limits) : AdvStack (completeRun r lim) := by
  unfold completeRun
  split
  · split
    · split <;> trivial
    · trivial
  · trivial

theorem tryTransitions_stack (nfa : Nfa) (lim : Limits) (r : Run) (e : Ev) (h : StackInv r) :
    ∀ (l : List Nat), (∀ t ∈ l, r.cur < t) → ∀ a, tryTransitions nfa lim r e l = some a → AdvStack a := by
  intro l
  induction l with
  | nil => intro _ a ha; simp [tryTransitions] at ha
  | cons next rest ih =>
    intro hl a ha
    have hn : r.cur < next := hl next (by simp)
    simp only [tryTransitions] at ha
    split at ha
    · cases ha; trivial
    · rename_i ns hns
      split at ha
      · have hr := stackInv_forward h next hn e ns.alias
        split at ha
        · cases ha; exact completeRun_stack _ _
        · split at ha
          · cases ha; exact enterKleene_stack _ _ e lim hr
          · cases ha; exact hr
      · exact ih (fun t ht => hl t (List.mem_cons_of_mem _ ht)) a ha

theorem tryEpsTargets_stack (nfa : Nfa) (lim : Limits) (r : Run) (e : Ev) (h : StackInv r) :
    ∀ (l : List Nat), (∀ t ∈ l, r.cur < t) → ∀ a, tryEpsTargets nfa lim r e l = some a → AdvStack a := by
  intro l
  induction l with
  | nil => intro _ a ha; simp [tryEpsTargets] at ha
  | cons next rest ih =>
    intro hl a ha
    have hn : r.cur < next := hl next (by simp)
    simp only [tryEpsTargets] at ha
    split at ha
    · cases ha; trivial
    · rename_i ns hns
      split at ha
      · have hr := stackInv_forward h next hn e ns.alias
        split at ha
        · cases ha; exact completeRun_stack _ _
        · cases ha; exact hr
      · exact ih (fun t ht => hl t (List.mem_cons_of_mem _ ht)) a ha

theorem tryEps_stack (nfa : Nfa) (lim : Limits) (r : Run) (e : Ev) (skip : Bool) (hf : NfaFwd nfa) (h : StackInv r) :
    ∀ (l : List Nat), (∀ t ∈ l, r.cur ≤ t) → ∀ a, tryEps nfa lim r e skip l = some a → AdvStack a := by
  intro l
  induction l with
  | nil => intro _ a ha; simp [tryEps] at ha
  | cons ep rest ih =>
    intro hl a ha
    have hn : r.cur ≤ ep := hl ep (by simp)
    have hrest := ih (fun t ht => hl t (List.mem_cons_of_mem _ ht))
    simp only [tryEps] at ha
    split at ha
    · cases ha; trivial
    · rename_i es hes
      split at ha
      · split at ha
        · exact hrest a ha
        · cases ha; exact completeRun_stack _ _
      · split at ha
        · rename_i a' ha'
          cases ha
          exact tryEpsTargets_stack nfa lim r e h _ (fun t ht => Nat.lt_of_le_of_lt hn ((hf ep es hes).1 t ht)) _ ha'
        · exact hrest a ha

/-- without a trailing `all`, `advance` keeps the stack accounted for -/
theorem advance_stack (nfa : Nfa) (lim : Limits) (r : Run) (e : Ev) (hf : NfaFwd nfa) (hnt : NoTrailingAll nfa)
    (h : StackInv r) : AdvStack (advance nfa lim r e) := by
  unfold advance
  cases hst : nfa.states[r.cur]? with
  | none => trivial
  | some st =>
    have hfw := hf r.cur st hst
    have hea : st.epsAccept = false := hnt st (List.mem_of_getElem? hst)
    simp only
    by_cases hacc : st.ty = .accept
    · simp only [hacc, if_true]; exact completeRun_stack _ _
    · simp only [hacc, if_false]
      by_cases hloop : (decide (st.ty = STy.kleene) && st.selfLoop && matchesState st e r.captured) = true
      · simp only [hloop, if_true, hea]
        cases hkc : r.kc with
        | none =>
          simp only [StackInv, kcN, hkc] at h
          simp only [Bool.false_eq_true, if_false, Bool.false_and, AdvStack, StackInv, kcN, Run.push, hkc, add_nextVar,
            List.length_append, List.length_cons, List.length_nil, KCap.init]
          omega
        | some k' =>
          simp only [StackInv, kcN, hkc] at h
          by_cases hcap : k'.nextVar ≥ lim.maxEvents
          · simp only [hcap, decide_true, if_true, AdvStack, StackInv, kcN, hkc]; omega
          · simp only [hcap, decide_false, Bool.false_eq_true, if_false, Bool.false_and, AdvStack, StackInv, kcN, Run.push, hkc,
              add_nextVar, List.length_append, List.length_cons, List.length_nil]
            omega
      · simp only [hloop]
        cases ht : tryTransitions nfa lim r e st.trans with
        | some a => exact tryTransitions_stack nfa lim r e h _ hfw.1 a ht
        | none =>
          cases he : tryEps nfa lim r e (decide (st.ty = STy.kleene) && st.selfLoop && st.epsAccept) st.eps with
          | some a => exact tryEps_stack nfa lim r e _ hf h _ hfw.2 a he
          | none => exact h

/-! ### `compile_fwd` -/

def SFwd (i : Nat) (st : State) : Prop := (∀ t ∈ st.trans, i < t) ∧ (∀ e ∈ st.eps, i ≤ e)

theorem fwd_append {l : List State} (h : ∀ (i : Nat) (st : State), l[i]? = some st → SFwd i st) (s : State)
    (hs : SFwd l.length s) : ∀ (i : Nat) (st : State), (l ++ [s])[i]? = some st → SFwd i st := by
  intro i st hst
  by_cases hi : i < l.length
  · rw [List.getElem?_append_left hi] at hst; exact h i st hst
  · have hge : l.length ≤ i := by omega
    rw [List.getElem?_append_right hge] at hst
    by_cases h0 : i - l.length = 0
    · have : i = l.length := by omega
      subst this
      simp at hst; subst hst; exact hs
    · have : ∃ k, i - l.length = k + 1 := ⟨i - l.length - 1, by omega⟩
      obtain ⟨k, hk⟩ := this
      rw [hk] at hst; simp at hst

theorem fwd_modify {l : List State} (h : ∀ (i : Nat) (st : State), l[i]? = some st → SFwd i st) (j : Nat)
    (f : State → State) (hf : ∀ st, SFwd j st → SFwd j (f st)) :
    ∀ (i : Nat) (st : State), (modifyAt l j f)[i]? = some st → SFwd i st := by
  intro i st hst
  simp only [modifyAt, List.getElem?_modify] at hst
  cases hl : l[i]? with
  | none => simp [hl] at hst
  | some s0 =>
    simp only [hl, Option.map_some, Option.some.injEq] at hst
    by_cases hji : j = i
    · subst hji; simp at hst; subst hst; exact hf s0 (h j s0 hl)
    · simp [hji] at hst; subst hst; exact h i s0 hl

structure CFwd (n : Nfa) (last : Nat) : Prop where
  last : last < n.states.length
  fwd : ∀ (i : Nat) (st : State), n.states[i]? = some st → SFwd i st

theorem cfwd_init : CFwd ({} : Nfa) 0 := by
  constructor
  · simp
  · intro i st hst
    cases i with
    | zero => simp at hst; subst hst; exact ⟨by simp, by simp⟩
    | succ i => simp at hst

theorem cfwd_compileStep {n : Nfa} {prev : Nat} (h : CFwd n prev) (s : Step) :
    CFwd (compileStep n prev s).1 (compileStep n prev s).2 := by
  have h2 : ∀ (i : Nat) (st : State), (modifyAt (n.states ++ [{ ty := .normal, evTy := some s.ty, pred := s.pred, alias := s.alias }]) prev
      (fun st => { st with trans := st.trans ++ [n.states.length] }))[i]? = some st → SFwd i st := by
    apply fwd_modify
    · exact fwd_append h.fwd _ ⟨by simp, by simp⟩
    · intro st hst
      refine ⟨?_, hst.2⟩
      intro t ht
      simp at ht
      rcases ht with ht | rfl
      · exact hst.1 t ht
      · exact h.last
  unfold compileStep
  simp only [Nfa.addState, Nfa.addTransition, Nfa.addEpsilon]
  by_cases hk : s.kleene = true
  · simp only [hk, Bool.not_true, Bool.false_eq_true, if_false]
    constructor
    · simp [length_modifyAt]
    · simp only [length_modifyAt, List.length_append, List.length_cons, List.length_nil]
      apply fwd_modify
      · apply fwd_append
        · apply fwd_modify
          · apply fwd_modify h2
            intro st hst
            split
            · split <;> exact hst
            · exact hst
          · intro st hst
            refine ⟨hst.1, ?_⟩
            intro e he
            simp at he
            rcases he with he | rfl
            · exact hst.2 e he
            · exact Nat.le_refl _
        · exact ⟨by simp, by simp⟩
      · intro st hst
        refine ⟨hst.1, ?_⟩
        intro e he
        simp at he
        rcases he with he | rfl
        · exact hst.2 e he
        · omega
  · simp only [hk, Bool.not_false, if_true]
    exact ⟨by simp [length_modifyAt], h2⟩

theorem cfwd_foldl (steps : List Step) : ∀ (n : Nfa) (prev : Nat), CFwd n prev →
    CFwd (steps.foldl (fun (acc : Nfa × Nat) s => compileStep acc.1 acc.2 s) (n, prev)).1
         (steps.foldl (fun (acc : Nfa × Nat) s => compileStep acc.1 acc.2 s) (n, prev)).2 := by
  induction steps with
  | nil => intro n prev h; exact h
  | cons s rest ih =>
    intro n prev h
    simp only [List.foldl_cons]
    exact ih _ _ (cfwd_compileStep h s)

/-- compiled automata only move forward -/
theorem compile_fwd (steps : List Step) : NfaFwd (compile steps) := by
  have h := cfwd_foldl steps ({} : Nfa) 0 cfwd_init
  unfold compile
  generalize (steps.foldl (fun (acc : Nfa × Nat) s => compileStep acc.1 acc.2 s) (({} : Nfa), 0)) = res at h
  obtain ⟨n, last⟩ := res
  simp only at h ⊢
  have hacc : ∀ (i : Nat) (st : State), (n.setAccept last).states[i]? = some st → SFwd i st := by
    simp only [Nfa.setAccept]
    apply fwd_modify h.fwd
    intro st hst; exact hst
  intro i st hst
  simp only [List.getElem?_map] at hst
  cases hl : (n.setAccept last).states[i]? with
  | none => simp [hl] at hst
  | some s0 =>
    simp only [hl, Option.map_some, Option.some.injEq] at hst
    subst hst
    exact hacc i s0 hl

end Varpulis.SaseK

namespace Varpulis.SaseB
open Varpulis.SaseK Varpulis.Zdd

def StartStack : Start → Prop
  | .run r => StackInv r
  | _ => True

theorem startTargets_stack (nfa : Nfa) (e : Ev) (seq : Nat) :
    ∀ (l : List Nat), (∀ t ∈ l, 0 < t) → ∀ s, startTargets nfa e seq l = some s → StartStack s := by
  intro l
  induction l with
  | nil => intro _ s hs; simp [startTargets] at hs
  | cons next rest ih =>
    intro hl s hs
    have hn : 0 < next := hl next (by simp)
    simp only [startTargets] at hs
    split at hs
    · cases hs; trivial
    · split at hs
      · cases hs
        simp only [StartStack, StackInv, Run.push, kcN, List.length_append, List.length_cons, List.length_nil]
        omega
      · exact ih (fun t ht => hl t (List.mem_cons_of_mem _ ht)) s hs

theorem startEps_stack (nfa : Nfa) (e : Ev) (seq : Nat) (hf : NfaFwd nfa) :
    ∀ (l : List Nat), ∀ s, startEps nfa e seq l = some s → StartStack s := by
  intro l
  induction l with
  | nil => intro s hs; simp [startEps] at hs
  | cons ep rest ih =>
    intro s hs
    simp only [startEps] at hs
    split at hs
    · cases hs; trivial
    · rename_i es hes
      split at hs
      · rename_i s' hs'
        cases hs
        exact startTargets_stack nfa e seq _ (fun t ht => Nat.lt_of_le_of_lt (Nat.zero_le _) ((hf ep es hes).1 t ht)) _ hs'
      · exact ih s hs

theorem tryStart_stack (nfa : Nfa) (e : Ev) (seq : Nat) (hf : NfaFwd nfa) : StartStack (tryStart nfa e seq) := by
  unfold tryStart
  split
  · trivial
  · rename_i st hst
    split
    · rename_i s hs
      exact startTargets_stack nfa e seq _ (fun t ht => Nat.lt_of_le_of_lt (Nat.zero_le _) ((hf _ st hst).1 t ht)) _ hs
    · split
      · rename_i s hs; exact startEps_stack nfa e seq hf _ _ hs
      · trivial

theorem processRuns_stack (nfa : Nfa) (lim : Limits) (e : Ev) (hf : NfaFwd nfa) (hnt : NoTrailingAll nfa) :
    ∀ (fuel : Nat) (runs : List Run) (i : Nat) (acc : List (List Match)) (runs' : List Run) (ms : List (List Match)),
      (∀ r ∈ runs, StackInv r) → processRuns nfa lim e fuel runs i acc = some (runs', ms) → ∀ r ∈ runs', StackInv r := by
  intro fuel
  induction fuel with
  | zero => intro runs i acc runs' ms hr h; simp [processRuns] at h; rw [← h.1]; exact hr
  | succ fuel ih =>
    intro runs i acc runs' ms hr h
    simp only [processRuns] at h
    cases hi : runs[i]? with
    | none => simp [hi] at h; rw [← h.1]; exact hr
    | some r =>
      have hrin : r ∈ runs := List.mem_of_getElem? hi
      have hadv := advance_stack nfa lim r e hf hnt (hr r hrin)
      have hset : ∀ r', StackInv r' → ∀ x ∈ runs.set i r', StackInv x := by
        intro r' hr' x hx
        rcases List.mem_or_eq_of_mem_set hx with h | rfl
        · exact hr x h
        · exact hr'
      have hsw : ∀ x ∈ swapRemove runs i, StackInv x := fun x hx => hr x (mem_swapRemove _ _ _ hx)
      simp only [hi] at h
      cases hadvr : advance nfa lim r e with
      | cont r' => rw [hadvr] at hadv h; exact ih _ _ _ _ _ (hset r' hadv) h
      | noMatch r' => rw [hadvr] at hadv h; exact ih _ _ _ _ _ (hset r' hadv) h
      | complete m => rw [hadvr] at h; exact ih _ _ _ _ _ hsw h
      | completeCont r' m => rw [hadvr] at hadv h; exact ih _ _ _ _ _ (hset r' hadv) h
      | multi ms0 => rw [hadvr] at h; exact ih _ _ _ _ _ hsw h
      | panic => rw [hadvr] at h; simp at h

theorem handleBp_mem (cfg : Cfg) (created dropped : Nat) (runs : List Run) (r x : Run)
    (hx : x ∈ (handleBp cfg created dropped runs r).1) : x ∈ runs ∨ x = r := by
  have hev : ∀ (key : Run → Nat), x ∈ (match minIdxBy key runs with
        | some i => (swapRemove runs i ++ [r], BpOutcome.addedEvicting)
        | none => (runs ++ [r], BpOutcome.added)).1 → x ∈ runs ∨ x = r := by
    intro key hx
    split at hx
    · rcases List.mem_append.mp hx with h | h
      · exact Or.inl (mem_swapRemove _ _ _ h)
      · exact Or.inr (by simpa using h)
    · rcases List.mem_append.mp hx with h | h
      · exact Or.inl h
      · exact Or.inr (by simpa using h)
  unfold handleBp at hx
  split at hx
  · rcases List.mem_append.mp hx with h | h
    · exact Or.inl h
    · exact Or.inr (by simpa using h)
  · cases hs : cfg.strat with
    | drop => simp only [hs] at hx; exact Or.inl hx
    | error => simp only [hs] at hx; exact Or.inl hx
    | evictOldest => simp only [hs] at hx; exact hev _ hx
    | evictLeastProgress => simp only [hs] at hx; exact hev _ hx
    | sample num den =>
      simp only [hs] at hx
      split at hx
      · split at hx
        · rcases List.mem_append.mp hx with h | h
          · exact Or.inl (mem_swapRemove _ _ _ h)
          · exact Or.inr (by simpa using h)
        · exact Or.inl hx
      · exact Or.inl hx

/-- all runs of an engine satisfy the stack accounting -/
def EngStack (s : Eng) : Prop := (∀ r ∈ s.runs, StackInv r) ∧ ∀ p ∈ s.parts, ∀ r ∈ p.2, StackInv r

theorem step_stack (nfa : Nfa) (cfg : Cfg) (s s' : Eng) (e : Ev) (o : Out) (hf : NfaFwd nfa) (hnt : NoTrailingAll nfa)
    (h : EngStack s) (hstep : step nfa cfg s e = some (s', o)) : EngStack s' := by
  have hcur : ∀ r ∈ (if cfg.partitioned then (partGet s.parts e.key).getD [] else s.runs), StackInv r := by
    split
    · cases hg : partGet s.parts e.key with
      | none => simp
      | some v => exact h.2 _ (lookup_mem _ _ _ hg)
    · exact h.1
  generalize hcv : (if cfg.partitioned then (partGet s.parts e.key).getD [] else s.runs) = cur at hcur
  simp only [step, hcv] at hstep
  cases hpr : processRuns nfa cfg.lim e cur.length cur 0 [] with
  | none => simp [hpr] at hstep
  | some res =>
    obtain ⟨runs1, ms⟩ := res
    have hv1 := processRuns_stack nfa cfg.lim e hf hnt _ _ _ _ _ _ hcur hpr
    have hput : ∀ (s0 : Eng) (rs : List Run), EngStack s0 → (∀ r ∈ rs, StackInv r) →
        EngStack (if cfg.partitioned then { s0 with parts := partSet s0.parts e.key rs } else { s0 with runs := rs }) := by
      intro s0 rs h0 hrs
      split
      · refine ⟨h0.1, ?_⟩
        intro p hp
        rcases mem_partSet _ _ _ _ hp with h' | rfl
        · exact h0.2 p h'
        · exact hrs
      · exact ⟨hrs, h0.2⟩
    have hs1 : EngStack (if (cfg.partitioned && (partGet s.parts e.key).isNone) = true then s
        else (if cfg.partitioned then { s with parts := partSet s.parts e.key runs1 } else { s with runs := runs1 })) := by
      split
      · exact h
      · exact hput s runs1 h hv1
    simp only [hpr] at hstep
    generalize (if (cfg.partitioned && (partGet s.parts e.key).isNone) = true then s
        else (if cfg.partitioned then { s with parts := partSet s.parts e.key runs1 } else { s with runs := runs1 })) = s1 at hs1 hstep
    have hstart := tryStart_stack nfa e s.nextSeq hf
    cases hts : tryStart nfa e s.nextSeq with
    | panic => simp [hts] at hstep
    | none =>
      simp only [hts, Option.some.injEq, Prod.mk.injEq] at hstep
      rw [← hstep.1]; exact hs1
    | run r =>
      rw [hts] at hstart
      simp only [hts] at hstep
      have hbp : ∀ x ∈ (handleBp cfg s1.created s1.dropped runs1 r).1, StackInv x := by
        intro x hx
        rcases handleBp_mem _ _ _ _ _ _ hx with h' | rfl
        · exact hv1 x h'
        · exact hstart
      have hs2 := hput s1 _ hs1 hbp
      cases hst : nfa.states[r.cur]? with
      | none => simp [hst] at hstep
      | some st =>
        simp only [hst] at hstep
        by_cases hacc : st.ty = .accept
        · rw [if_pos hacc] at hstep
          simp only [Option.some.injEq, Prod.mk.injEq] at hstep
          rw [← hstep.1]; exact hs1
        · rw [if_neg hacc] at hstep
          simp only [Option.some.injEq, Prod.mk.injEq] at hstep
          rw [← hstep.1]
          generalize (if cfg.partitioned then { s1 with parts := partSet s1.parts e.key (handleBp cfg s1.created s1.dropped runs1 r).1 }
            else { s1 with runs := (handleBp cfg s1.created s1.dropped runs1 r).1 }) = s2 at hs2
          cases (handleBp cfg s1.created s1.dropped runs1 r).2 <;> exact hs2

theorem runAll_stack (nfa : Nfa) (cfg : Cfg) (hf : NfaFwd nfa) (hnt : NoTrailingAll nfa) :
    ∀ (evs : List Ev) (s s' : Eng) (outs : List Out), EngStack s → runAll nfa cfg s evs = some (s', outs) → EngStack s' := by
  intro evs
  induction evs with
  | nil => intro s s' outs h hr; simp [runAll] at hr; rw [← hr.1]; exact h
  | cons e es ih =>
    intro s s' outs h hr
    simp only [runAll] at hr
    cases hst : step nfa cfg s e with
    | none => simp [hst] at hr
    | some so =>
      obtain ⟨s1, o⟩ := so
      simp only [hst] at hr
      cases hra : runAll nfa cfg s1 es with
      | none => simp [hra] at hr
      | some r2 =>
        obtain ⟨s2, os⟩ := r2
        simp only [hra, Option.map_some, Option.some.injEq, Prod.mk.injEq] at hr
        rw [← hr.1]
        exact ih s1 s2 os (step_stack nfa cfg s s1 e o hf hnt h hst) hra

end Varpulis.SaseB

namespace Varpulis.SaseK
open Varpulis.Zdd

/-! ### guard equivalence: `NoTrailingAll` of the compiled automaton ⇔ the last step is not `all` -/

theorem all_modify {P : State → Prop} {l : List State} (h : ∀ st ∈ l, P st) (i : Nat) (f : State → State)
    (hf : ∀ st, P st → P (f st)) : ∀ st ∈ modifyAt l i f, P st := by
  intro st hst
  rcases mem_modify f l i st hst with h' | ⟨y, hy, rfl⟩
  · exact h st h'
  · exact hf y (h y hy)

theorem getElem?_modifyAt_self (l : List State) (i : Nat) (f : State → State) (h : i < l.length) :
    ∃ st0, (modifyAt l i f)[i]? = some (f st0) := by
  refine ⟨l[i], ?_⟩
  simp [modifyAt, List.getElem?_modify, List.getElem?_eq_getElem h]

/-- invariant of the compilation loop about epsilon edges: no accept state yet, every epsilon target is an existing
state, and the current end state is an epsilon target exactly when the step just compiled was an `all` step -/
structure KInvC (n : Nfa) (last : Nat) (b : Bool) : Prop where
  lastLt : last < n.states.length
  noAcc : ∀ st ∈ n.states, st.ty ≠ .accept
  epsLt : ∀ st ∈ n.states, ∀ e ∈ st.eps, e < n.states.length
  notLast : b = false → ∀ st ∈ n.states, last ∉ st.eps
  isLast : b = true → ∃ st ∈ n.states, last ∈ st.eps

theorem kinvc_init : KInvC ({} : Nfa) 0 false := by
  refine ⟨by simp, ?_, ?_, ?_, by simp⟩
  · intro st hst; simp at hst; subst hst; simp
  · intro st hst; simp at hst; subst hst; simp
  · intro _ st hst; simp at hst; subst hst; simp

theorem exists_mem_modifyAt {Q : State → Prop} (l : List State) (i : Nat) (f : State → State) (h : i < l.length)
    (hq : ∀ st0, Q (f st0)) : ∃ st, st ∈ modifyAt l i f ∧ Q st := by
  obtain ⟨st0, h0⟩ := getElem?_modifyAt_self l i f h
  exact ⟨_, List.mem_of_getElem? h0, hq st0⟩

theorem kinvc_compileStep {n : Nfa} {prev : Nat} {b : Bool} (h : KInvC n prev b) (s : Step) :
    KInvC (compileStep n prev s).1 (compileStep n prev s).2 s.kleene := by
  -- facts about the list after add_state + add_transition
  have hA : ∀ st ∈ modifyAt (n.states ++ [{ ty := .normal, evTy := some s.ty, pred := s.pred, alias := s.alias }]) prev
      (fun st => { st with trans := st.trans ++ [n.states.length] }),
      st.ty ≠ .accept ∧ ∀ e ∈ st.eps, e < n.states.length := by
    apply all_modify (P := fun st => st.ty ≠ .accept ∧ ∀ e ∈ st.eps, e < n.states.length)
    · intro st hst
      rcases List.mem_append.mp hst with h' | h'
      · exact ⟨h.noAcc st h', h.epsLt st h'⟩
      · simp at h'; subst h'; simp
    · intro st hst; exact hst
  by_cases hk : s.kleene = true
  · have hAll : ∀ st ∈ (compileStep n prev s).1.states, st.ty ≠ .accept ∧ ∀ e ∈ st.eps, e < n.states.length + 2 := by
      unfold compileStep
      simp only [Nfa.addState, Nfa.addTransition, Nfa.addEpsilon, hk, Bool.not_true, Bool.false_eq_true, if_false]
      refine all_modify (P := fun st => st.ty ≠ .accept ∧ ∀ e ∈ st.eps, e < n.states.length + 2) ?_ _ _ ?_
      · intro st hst
        rcases List.mem_append.mp hst with h' | h'
        · refine all_modify (P := fun st => st.ty ≠ .accept ∧ ∀ e ∈ st.eps, e < n.states.length + 2)
            (all_modify (P := fun st => st.ty ≠ .accept ∧ ∀ e ∈ st.eps, e < n.states.length + 2)
              (fun st hst => ⟨(hA st hst).1, fun e he => by have := (hA st hst).2 e he; omega⟩) _ _ ?_) _ _ ?_ st h'
          · intro st hst
            split
            · split <;> exact ⟨by simp, hst.2⟩
            · exact ⟨by simp, hst.2⟩
          · intro st hst
            refine ⟨hst.1, ?_⟩
            intro e he
            simp at he
            rcases he with he | rfl
            · exact hst.2 e he
            · omega
        · simp at h'; subst h'; simp
      · intro st hst
        refine ⟨hst.1, ?_⟩
        intro e he
        simp [length_modifyAt] at he
        rcases he with he | rfl
        · exact hst.2 e he
        · omega
    have hlen : (compileStep n prev s).1.states.length = n.states.length + 2 ∧ (compileStep n prev s).2 = n.states.length + 1 := by
      unfold compileStep
      simp [Nfa.addState, Nfa.addTransition, Nfa.addEpsilon, hk, length_modifyAt]
    have hex : ∃ st, st ∈ (compileStep n prev s).1.states ∧ (compileStep n prev s).2 ∈ st.eps := by
      unfold compileStep
      simp only [Nfa.addState, Nfa.addTransition, Nfa.addEpsilon, hk, Bool.not_true, Bool.false_eq_true, if_false]
      apply exists_mem_modifyAt
      · simp [length_modifyAt]; omega
      · intro st0; simp
    rw [hk]
    exact ⟨by rw [hlen.1, hlen.2]; omega, fun st hst => (hAll st hst).1,
      fun st hst e he => by rw [hlen.1]; exact (hAll st hst).2 e he, fun hc => by simp at hc, fun _ => hex⟩
  · have hk' : s.kleene = false := by simpa using hk
    rw [hk']
    unfold compileStep
    simp only [Nfa.addState, Nfa.addTransition, hk', Bool.not_false, if_true]
    constructor
    · simp [length_modifyAt]
    · exact fun st hst => (hA st hst).1
    · intro st hst e he
      simp only [length_modifyAt, List.length_append, List.length_cons, List.length_nil]
      exact Nat.lt_succ_of_lt ((hA st hst).2 e he)
    · intro _ st hst hmem
      have := (hA st hst).2 _ hmem
      omega
    · intro hc; simp at hc

/-- whether the last step of the pattern is an `all` step (`b` for the empty pattern) -/
def lastIsAll (steps : List Step) (b : Bool) : Bool := (steps.getLast?.map (·.kleene)).getD b

theorem lastIsAll_cons (s : Step) (rest : List Step) (b : Bool) : lastIsAll (s :: rest) b = lastIsAll rest s.kleene := by
  cases rest with
  | nil => simp [lastIsAll]
  | cons r rest =>
    simp only [lastIsAll, List.getLast?_cons_cons]
    have : (r :: rest).getLast? = some ((r :: rest).getLast (by simp)) := List.getLast?_eq_some_getLast (by simp)
    rw [this]; rfl

theorem kinvc_foldl (steps : List Step) : ∀ (n : Nfa) (prev : Nat) (b : Bool), KInvC n prev b →
    KInvC (steps.foldl (fun (acc : Nfa × Nat) s => compileStep acc.1 acc.2 s) (n, prev)).1
          (steps.foldl (fun (acc : Nfa × Nat) s => compileStep acc.1 acc.2 s) (n, prev)).2 (lastIsAll steps b) := by
  induction steps with
  | nil => intro n prev b h; simpa [lastIsAll] using h
  | cons s rest ih =>
    intro n prev b h
    simp only [List.foldl_cons, lastIsAll_cons]
    exact ih _ _ _ (kinvc_compileStep h s)

theorem mem_modifyAt_of_mem (f : State → State) : ∀ (l : List State) (i : Nat) (st0 : State), st0 ∈ l →
    st0 ∈ modifyAt l i f ∨ f st0 ∈ modifyAt l i f := by
  intro l
  induction l with
  | nil => intro i st0 h; simp at h
  | cons a l ih =>
    intro i st0 h
    cases i with
    | zero =>
      simp only [modifyAt, List.modify_zero_cons, List.mem_cons] at h ⊢
      rcases h with rfl | h
      · right; left; rfl
      · left; right; exact h
    | succ i =>
      simp only [modifyAt, List.modify_succ_cons, List.mem_cons] at h ⊢
      rcases h with rfl | h
      · left; left; rfl
      · rcases ih i st0 h with h' | h'
        · left; right; exact h'
        · right; right; exact h'

/-- in the automaton whose end state was just marked `Accept`, a state id is an accept state iff it is the end state -/
theorem accept_at_iff {n : Nfa} {last : Nat} {b : Bool} (h : KInvC n last b) (e : Nat) (he : e < n.states.length) :
    (match (n.setAccept last).states[e]? with | some t => t.ty == STy.accept | none => false) = decide (e = last) := by
  simp only [Nfa.setAccept, modifyAt, List.getElem?_modify, List.getElem?_eq_getElem he, Option.map_some]
  by_cases hl : last = e
  · subst hl; simp
  · have hne : (n.states[e]).ty ≠ .accept := h.noAcc _ (List.getElem_mem he)
    have : ¬ e = last := fun hc => hl hc.symm
    simp [hl, this, hne]

/-- **guard equivalence**: the compiled automaton has a state with an epsilon edge to `Accept` exactly when the
pattern's last step is `all` -/
theorem noTrailingAll_iff (steps : List Step) : NoTrailingAll (compile steps) ↔ lastIsAll steps false = false := by
  have h := kinvc_foldl steps ({} : Nfa) 0 false kinvc_init
  unfold compile NoTrailingAll
  generalize (steps.foldl (fun (acc : Nfa × Nat) s => compileStep acc.1 acc.2 s) (({} : Nfa), 0)) = res at h
  obtain ⟨n, last⟩ := res
  simp only at h ⊢
  -- per-state reading of the flag
  have hflag : ∀ st ∈ (n.setAccept last).states,
      (st.eps.any fun e => match (n.setAccept last).states[e]? with | some t => t.ty == STy.accept | none => false) = decide (last ∈ st.eps) := by
    intro st hst
    have hst' : st ∈ modifyAt n.states last (fun s => { s with ty := .accept }) := hst
    have heps : ∀ e ∈ st.eps, e < n.states.length :=
      all_modify (P := fun st => ∀ e ∈ st.eps, e < n.states.length) h.epsLt last
        (fun s => { s with ty := .accept }) (fun st hst => hst) st hst'
    by_cases hm : last ∈ st.eps
    · simp only [hm, decide_true, List.any_eq_true]
      exact ⟨last, hm, by rw [accept_at_iff h last (heps last hm)]; simp⟩
    · simp only [hm, decide_false, List.any_eq_false]
      intro e he
      rw [accept_at_iff h e (heps e he)]
      have : e ≠ last := fun hc => hm (hc ▸ he)
      simp [this]
  constructor
  · intro hnt
    cases hb : lastIsAll steps false with
    | false => rfl
    | true =>
      exfalso
      obtain ⟨st0, hst0, hlast⟩ := h.isLast hb
      have : ∃ st1 ∈ (n.setAccept last).states, last ∈ st1.eps := by
        rcases mem_modifyAt_of_mem (fun s => { s with ty := .accept }) n.states last st0 hst0 with h' | h'
        · exact ⟨st0, h', hlast⟩
        · exact ⟨_, h', hlast⟩
      obtain ⟨st1, hst1, hl1⟩ := this
      have h2 : (st1.eps.any fun e => match (n.setAccept last).states[e]? with | some t => t.ty == STy.accept | none => false) = false :=
        hnt _ (List.mem_map.mpr ⟨st1, hst1, rfl⟩)
      rw [hflag st1 hst1] at h2
      simp [hl1] at h2
  · intro hb st hst
    rcases List.mem_map.mp hst with ⟨st1, hst1, rfl⟩
    have hst1' : st1 ∈ modifyAt n.states last (fun s => { s with ty := .accept }) := hst1
    have hnot : last ∉ st1.eps :=
      all_modify (P := fun st => last ∉ st.eps) (h.notLast hb) last (fun s => { s with ty := .accept })
        (fun st hst => hst) st1 hst1'
    show (st1.eps.any fun e => match (n.setAccept last).states[e]? with | some t => t.ty == STy.accept | none => false) = false
    rw [hflag st1 hst1]
    simp [hnot]

end Varpulis.SaseK
