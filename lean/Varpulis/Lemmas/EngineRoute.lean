import Varpulis.Model.EngineRoute
/-! Lemmas about the routing / queue model (C16, C17, C23). No Mathlib. -/
namespace Varpulis.EngineRoute

/-! ## Specification vocabulary -/

/-- stream `s` consumes event `e`: it is loaded and registered for `e`'s type / stream name -/
def consumes (E : Eng) (s : Ty) (e : Ev) : Bool := (routesOf E.router e.ty).contains s && (E.find s).isSome

/-- no stream is listed twice for an event type -/
def RouterNodup (r : Router) : Prop := ∀ t, (routesOf r t).Nodup

/-- the event has at least one route -/
def routed (r : Router) (e : Ev) : Bool := !(routesOf r e.ty).isEmpty

/-! ## Router -/

theorem routesOf_addRoute_same (r : Router) (t s : Ty) :
    routesOf (addRoute r t s) t = if (routesOf r t).contains s then routesOf r t else routesOf r t ++ [s] := by
  simp only [routesOf, getRoutes, addRoute, List.lookup, beq_self_eq_true, Option.getD_some]

theorem lookup_filter_ne (r : Router) (t u : Ty) (h : u ≠ t) :
    (r.filter (fun p => p.1 != t)).lookup u = r.lookup u := by
  induction r with
  | nil => rfl
  | cons p r ih =>
    obtain ⟨a, b⟩ := p
    by_cases hat : a = t
    · subst hat
      have : (u == a) = false := by simp [h]
      simp [List.filter, List.lookup, this, ih]
    · have h1 : (a != t) = true := by simp [hat]
      simp only [List.filter, h1, List.lookup]
      by_cases hua : u = a
      · subst hua; simp
      · have : (u == a) = false := by simp [hua]
        simp [this, ih]

theorem routesOf_addRoute_other (r : Router) (t s u : Ty) (h : u ≠ t) :
    routesOf (addRoute r t s) u = routesOf r u := by
  have h2 : (u == t) = false := by simp [h]
  simp only [routesOf, getRoutes, addRoute, List.lookup, h2]
  rw [lookup_filter_ne r t u h]

/-- `add_route` is idempotent: registering the same stream twice for a type changes nothing -/
theorem routesOf_addRoute_idem (r : Router) (t s u : Ty) :
    routesOf (addRoute (addRoute r t s) t s) u = routesOf (addRoute r t s) u := by
  by_cases h : u = t
  · subst h
    rw [routesOf_addRoute_same (addRoute r u s), routesOf_addRoute_same]
    by_cases hc : (routesOf r u).contains s = true
    · simp only [hc, if_true]
    · simp only [hc, Bool.false_eq_true, if_false]
      have : (routesOf r u ++ [s]).contains s = true := by simp
      simp only [this, if_true]
  · rw [routesOf_addRoute_other _ _ _ _ h]

theorem addRoute_nodup (r : Router) (t s : Ty) (h : RouterNodup r) : RouterNodup (addRoute r t s) := by
  intro u
  by_cases hu : u = t
  · subst hu
    rw [routesOf_addRoute_same]
    by_cases hc : (routesOf r u).contains s = true
    · simp only [hc, if_true]; exact h u
    · simp only [hc, Bool.false_eq_true, if_false]
      have hn : s ∉ routesOf r u := by simpa using hc
      exact List.nodup_append.mpr ⟨h u, by simp, by intro a ha b hb; simp at hb; subst hb; intro hab; exact hn (hab ▸ ha)⟩
  · rw [routesOf_addRoute_other _ _ _ _ hu]; exact h u

theorem registerRoutes_nodup (d : SDef) (r : Router) (h : RouterNodup r) : RouterNodup (registerRoutes r d) := by
  unfold registerRoutes
  generalize d.subs = l
  induction l generalizing r with
  | nil => exact h
  | cons t ts ih => exact ih _ (addRoute_nodup r t d.name h)

theorem nil_nodup : RouterNodup [] := by intro t; simp [routesOf, getRoutes]

theorem foldl_register_router_nodup (P : List SDef) (E : Eng) (h : RouterNodup E.router) :
    RouterNodup (P.foldl register E).router := by
  induction P generalizing E with
  | nil => exact h
  | cons d ds ih => exact ih _ (registerRoutes_nodup d E.router h)

/-- the router built by `Engine::load` lists every stream at most once per event type -/
theorem load_router_nodup (P : List SDef) : RouterNodup (load P).router :=
  foldl_register_router_nodup P emptyEng nil_nodup

/-! ## Frame facts: processing changes only `hist` -/

@[simp] theorem find_hist_irrel (E : Eng) (h : Ty → List Ev) (s : Ty) :
    ({ E with hist := h } : Eng).find s = E.find s := rfl

theorem dispatch_frame (sync : Bool) (e : Ev) (ns : List Ty) (E : Eng) :
    (dispatch sync E e ns).eng.streams = E.streams ∧ (dispatch sync E e ns).eng.router = E.router := by
  induction ns generalizing E with
  | nil => simp [dispatch]
  | cons s rest ih =>
    unfold dispatch
    cases hf : E.find s with
    | none => simpa using ih E
    | some d => simpa using ih { E with hist := setHist E.hist s (E.hist s ++ [e]) }

theorem level_frame (sync : Bool) (q : List Ev) (E : Eng) :
    (level sync E q).eng.streams = E.streams ∧ (level sync E q).eng.router = E.router := by
  induction q generalizing E with
  | nil => simp [level]
  | cons e es ih =>
    simp only [level]
    have h1 := dispatch_frame sync e (routesOf E.router e.ty) E
    have h2 := ih (dispatch sync E e (routesOf E.router e.ty)).eng
    exact ⟨h2.1.trans h1.1, h2.2.trans h1.2⟩

theorem drain_frame (sync : Bool) (n : Nat) (E : Eng) (q : List Ev) :
    (drain sync n E q).eng.streams = E.streams ∧ (drain sync n E q).eng.router = E.router := by
  induction n generalizing E q with
  | zero => simp [drain]
  | succ n ih =>
    simp only [drain]
    have h1 := level_frame sync q E
    have h2 := ih (level sync E q).eng (level sync E q).next
    exact ⟨h2.1.trans h1.1, h2.2.trans h1.2⟩

theorem processSeq_frame (sync : Bool) (evs : List Ev) (E : Eng) :
    (processSeq sync E evs).eng.streams = E.streams ∧ (processSeq sync E evs).eng.router = E.router := by
  induction evs generalizing E with
  | nil => simp [processSeq]
  | cons e es ih =>
    simp only [processSeq]
    have h1 := drain_frame sync maxChainDepth E [e]
    have h2 := ih (processOne sync E e).eng
    exact ⟨h2.1.trans h1.1, h2.2.trans h1.2⟩

theorem find_congr {E E' : Eng} (h : E'.streams = E.streams) (s : Ty) : E'.find s = E.find s := by
  simp [Eng.find, h]

theorem consumes_congr {E E' : Eng} (h1 : E'.streams = E.streams) (h2 : E'.router = E.router) (s : Ty) (e : Ev) :
    consumes E' s e = consumes E s e := by
  simp [consumes, h2, find_congr h1]

/-! ## C17: hand-off -/

/-- one popped event is handed to `s` once if `s` is among the routed names and loaded, else not at all -/
theorem dispatch_hist (sync : Bool) (e : Ev) (ns : List Ty) (hn : ns.Nodup) (E : Eng) (s : Ty) :
    (dispatch sync E e ns).eng.hist s =
      E.hist s ++ (if ns.contains s && (E.find s).isSome then [e] else []) := by
  induction ns generalizing E with
  | nil => simp [dispatch]
  | cons n rest ih =>
    have hn' : rest.Nodup := (List.nodup_cons.mp hn).2
    have hnot : n ∉ rest := (List.nodup_cons.mp hn).1
    unfold dispatch
    cases hf : E.find n with
    | none =>
      simp only
      rw [ih hn' E]
      by_cases hs : s = n
      · subst hs; simp [hf]
      · simp [hs]
    | some d =>
      simp only
      rw [ih hn' _]
      simp only [find_hist_irrel]
      by_cases hs : s = n
      · subst hs
        simp [setHist, hf, hnot]
      · simp [setHist, hs]

theorem level_hist (sync : Bool) (q : List Ev) (E : Eng) (hN : RouterNodup E.router) (s : Ty) :
    (level sync E q).eng.hist s = E.hist s ++ q.filter (consumes E s) := by
  induction q generalizing E with
  | nil => simp [level]
  | cons e es ih =>
    simp only [level]
    have fr := dispatch_frame sync e (routesOf E.router e.ty) E
    rw [ih _ (by rw [fr.2]; exact hN)]
    rw [dispatch_hist sync e _ (hN e.ty) E s]
    have hc : consumes (dispatch sync E e (routesOf E.router e.ty)).eng s = consumes E s :=
      funext fun x => consumes_congr fr.1 fr.2 s x
    rw [hc]
    by_cases h : ((routesOf E.router e.ty).contains s && (E.find s).isSome) = true
    · have h' : consumes E s e = true := h
      simp only [h, if_true, List.filter_cons, h', List.append_assoc, List.singleton_append]
    · have h' : consumes E s e = false := by simpa [consumes] using h
      simp only [h, Bool.false_eq_true, if_false, List.filter_cons, h', List.append_nil]

theorem drain_hist (sync : Bool) (n : Nat) (E : Eng) (hN : RouterNodup E.router) (q : List Ev) (s : Ty) :
    (drain sync n E q).eng.hist s = E.hist s ++ (drain sync n E q).popped.filter (consumes E s) := by
  induction n generalizing E q with
  | zero => simp [drain]
  | succ n ih =>
    simp only [drain]
    have fr := level_frame sync q E
    rw [ih _ (by rw [fr.2]; exact hN)]
    rw [level_hist sync q E hN s]
    have hc : consumes (level sync E q).eng s = consumes E s := funext fun x => consumes_congr fr.1 fr.2 s x
    simp [hc, List.filter_append]

theorem processSeq_hist (sync : Bool) (evs : List Ev) (E : Eng) (hN : RouterNodup E.router) (s : Ty) :
    (processSeq sync E evs).eng.hist s = E.hist s ++ (processSeq sync E evs).popped.filter (consumes E s) := by
  induction evs generalizing E with
  | nil => simp [processSeq]
  | cons e es ih =>
    simp only [processSeq]
    simp only [processOne]
    have fr := drain_frame sync maxChainDepth E [e]
    rw [ih _ (by rw [fr.2]; exact hN)]
    rw [drain_hist sync maxChainDepth E hN [e] s]
    have hc : consumes (drain sync maxChainDepth E [e]).eng s = consumes E s :=
      funext fun x => consumes_congr fr.1 fr.2 s x
    simp [hc, List.filter_append]

/-! ## C16: batch splits and the sync path -/

theorem processSeq_append (sync : Bool) (xs ys : List Ev) (E : Eng) :
    processSeq sync E (xs ++ ys) =
      { eng := (processSeq sync (processSeq sync E xs).eng ys).eng
        sent := (processSeq sync E xs).sent ++ (processSeq sync (processSeq sync E xs).eng ys).sent
        popped := (processSeq sync E xs).popped ++ (processSeq sync (processSeq sync E xs).eng ys).popped } := by
  induction xs generalizing E with
  | nil => simp [processSeq]
  | cons x xs ih =>
    simp only [List.cons_append, processSeq]
    rw [ih]
    simp [List.append_assoc]

/-- successive batch calls over any split = one event at a time over the concatenation -/
theorem calls_processSeq (sync : Bool) (split : List (List Ev)) (E : Eng) :
    calls (processSeq sync) E split = processSeq sync E split.flatten := by
  induction split generalizing E with
  | nil => simp [calls, processSeq]
  | cons c cs ih =>
    simp only [calls, List.flatten_cons]
    rw [processSeq_append, ih]

/-- sync and async loop bodies: same engine state and channel output; the queued events differ only
by events nobody consumes -/
theorem dispatch_sync_async (e : Ev) (ns : List Ty) (E : Eng) :
    (dispatch true E e ns).eng = (dispatch false E e ns).eng ∧
    (dispatch true E e ns).sent = (dispatch false E e ns).sent ∧
    (dispatch true E e ns).next.filter (routed E.router) = (dispatch false E e ns).next.filter (routed E.router) := by
  induction ns generalizing E with
  | nil => simp [dispatch]
  | cons s rest ih =>
    unfold dispatch
    cases hf : E.find s with
    | none => simpa using ih E
    | some d =>
      have h := ih { E with hist := setHist E.hist s (E.hist s ++ [e]) }
      simp only at h ⊢
      refine ⟨h.1, by rw [h.2.1], ?_⟩
      simp only [List.filter_append, Bool.true_and, Bool.false_and]
      rw [h.2.2]
      congr 1
      by_cases hs : skipRename E d = true
      · simp only [hs, if_true, Bool.false_eq_true, if_false, List.filter_nil]
        have hnone : getRoutes E.router d.name = none := by
          simp only [skipRename, Bool.and_eq_true, Option.isNone_iff_eq_none] at hs; exact hs.1
        symm
        apply List.filter_eq_nil_iff.mpr
        intro a ha
        obtain ⟨b, _, hb⟩ := List.mem_map.mp ha
        subst hb
        simp [routed, routesOf, rename, hnone]
      · simp [hs]

theorem level_filter_routed (sync : Bool) (q : List Ev) (E : Eng) :
    level sync E (q.filter (routed E.router)) = level sync E q := by
  induction q generalizing E with
  | nil => rfl
  | cons e es ih =>
    by_cases hr : routed E.router e = true
    · simp only [List.filter_cons, hr, if_true, level]
      have fr := dispatch_frame sync e (routesOf E.router e.ty) E
      have := ih (dispatch sync E e (routesOf E.router e.ty)).eng
      rw [fr.2] at this
      rw [this]
    · simp only [List.filter_cons, hr, level]
      have he : routesOf E.router e.ty = [] := by
        simp only [routed, Bool.not_eq_true', Bool.not_eq_false', List.isEmpty_iff] at hr; simpa using hr
      rw [he]
      simp only [dispatch, List.nil_append, Bool.false_eq_true, if_false]
      exact ih E

theorem level_sync_async (q : List Ev) (E : Eng) :
    (level true E q).eng = (level false E q).eng ∧
    (level true E q).sent = (level false E q).sent ∧
    (level true E q).next.filter (routed E.router) = (level false E q).next.filter (routed E.router) := by
  induction q generalizing E with
  | nil => simp [level]
  | cons e es ih =>
    simp only [level]
    have hd := dispatch_sync_async e (routesOf E.router e.ty) E
    have fr := dispatch_frame false e (routesOf E.router e.ty) E
    have h := ih (dispatch false E e (routesOf E.router e.ty)).eng
    rw [fr.2] at h
    rw [hd.1]
    refine ⟨h.1, by rw [hd.2.1, h.2.1], ?_⟩
    simp only [List.filter_append]
    rw [hd.2.2, h.2.2]

theorem drain_sync_async (n : Nat) (E : Eng) (q q' : List Ev)
    (hq : q.filter (routed E.router) = q'.filter (routed E.router)) :
    (drain true n E q).eng = (drain false n E q').eng ∧ (drain true n E q).sent = (drain false n E q').sent := by
  induction n generalizing E q q' with
  | zero => simp [drain]
  | succ n ih =>
    simp only [drain]
    have e1 : level true E q = level true E q' := by
      rw [← level_filter_routed true q E, hq, level_filter_routed true q' E]
    have hl := level_sync_async q' E
    have fr := level_frame false q' E
    rw [e1]
    have h := ih (level false E q').eng (level true E q').next (level false E q').next (by rw [fr.2]; exact hl.2.2)
    rw [hl.1]
    exact ⟨h.1, by rw [hl.2.1, h.2]⟩

theorem processSeq_sync_async (evs : List Ev) (E : Eng) :
    (processSeq true E evs).eng = (processSeq false E evs).eng ∧
    (processSeq true E evs).sent = (processSeq false E evs).sent := by
  induction evs generalizing E with
  | nil => simp [processSeq]
  | cons e es ih =>
    simp only [processSeq, processOne]
    have h1 := drain_sync_async maxChainDepth E [e] [e] rfl
    rw [h1.1, h1.2]
    have h2 := ih (drain false maxChainDepth E [e]).eng
    exact ⟨h2.1, by rw [h2.2]⟩

/-! ## The FIFO loop with depth tags is the level-wise `drain` -/

theorem fifo_nil (sync : Bool) (fuel : Nat) (E : Eng) : fifo sync fuel E [] = { eng := E, sent := [], popped := [] } := by
  cases fuel <;> rfl

/-- entries at the depth limit are popped and dropped -/
theorem fifo_dropped (sync : Bool) (q : List Ev) (fuel : Nat) (E : Eng) (d : Nat) (hd : d ≥ maxChainDepth) :
    fifo sync (q.length + fuel) E (tag d q) = fifo sync fuel E [] := by
  induction q with
  | nil => simp [tag]
  | cons e es ih =>
    have : (e :: es).length + fuel = (es.length + fuel) + 1 := by simp; omega
    rw [this]
    simp only [tag, List.map_cons, fifo, hd, if_true]
    exact ih

/-- one level: popping the `cur.length` entries of the current level is `level`, and leaves the rest of
the queue followed by what the level pushed -/
theorem fifo_level (sync : Bool) (cur : List Ev) (d : Nat) (hd : d < maxChainDepth) (fuel : Nat) (E : Eng)
    (rest : List (Ev × Nat)) :
    fifo sync (cur.length + fuel) E (tag d cur ++ rest) =
      { eng := (fifo sync fuel (level sync E cur).eng (rest ++ tag (d + 1) (level sync E cur).next)).eng
        sent := (level sync E cur).sent ++ (fifo sync fuel (level sync E cur).eng (rest ++ tag (d + 1) (level sync E cur).next)).sent
        popped := cur ++ (fifo sync fuel (level sync E cur).eng (rest ++ tag (d + 1) (level sync E cur).next)).popped } := by
  induction cur generalizing E rest with
  | nil => simp [tag, level]
  | cons e es ih =>
    have h1 : (e :: es).length + fuel = (es.length + fuel) + 1 := by simp; omega
    have hnd : ¬ d ≥ maxChainDepth := by omega
    rw [h1]
    simp only [tag, List.map_cons, List.cons_append, fifo, hnd, if_false, level, List.append_assoc]
    have := ih (dispatch sync E e (routesOf E.router e.ty)).eng (rest ++ tag (d + 1) (dispatch sync E e (routesOf E.router e.ty)).next)
    simp only [tag, List.append_assoc] at this
    rw [this]
    simp [tag, List.append_assoc, List.map_append]

/-- the FIFO loop with `(event, depth)` entries computes `drain`: for a queue holding the events of one
depth level `10 - budget`, with any fuel ≥ the number of pops -/
theorem fifo_eq_drain (sync : Bool) (b : Nat) (hb : b ≤ maxChainDepth) (E : Eng) (q : List Ev) (fuel : Nat) :
    fifo sync (pops sync b E q + fuel) E (tag (maxChainDepth - b) q) = drain sync b E q := by
  induction b generalizing E q fuel with
  | zero =>
    simp only [pops, drain]
    rw [fifo_dropped sync q fuel E _ (by simp), fifo_nil]
  | succ b ih =>
    simp only [pops, drain]
    have hd : maxChainDepth - (b + 1) < maxChainDepth := by simp [maxChainDepth] at *; omega
    have hq : tag (maxChainDepth - (b + 1)) q = tag (maxChainDepth - (b + 1)) q ++ [] := by simp
    rw [hq, Nat.add_assoc, fifo_level sync q _ hd _ E []]
    have hs : maxChainDepth - (b + 1) + 1 = maxChainDepth - b := by simp [maxChainDepth] at *; omega
    simp only [List.nil_append, hs]
    rw [ih (by omega)]

/-- `process_inner`: the queue starts as `[(event, 0)]` -/
theorem fifo_processOne (sync : Bool) (E : Eng) (e : Ev) (fuel : Nat) :
    fifo sync (pops sync maxChainDepth E [e] + fuel) E [(e, 0)] = processOne sync E e := by
  have := fifo_eq_drain sync maxChainDepth (Nat.le_refl _) E [e] fuel
  simpa [tag, processOne] using this

/-! ## C23: load / reload -/

/-- stream names are unique -/
def NamesNodup (l : List SDef) : Prop := (l.map (·.name)).Nodup

/-- `E` is an engine on which program `P` was loaded and which then only processed events -/
structure Loaded (P : List SDef) (E : Eng) : Prop where
  streams : E.streams = (load P).streams
  router : E.router = (load P).router
  clean : ∀ s, E.find s = none → E.hist s = []

theorem register_names_nodup (E : Eng) (d : SDef) (h : NamesNodup E.streams) : NamesNodup (register E d).streams := by
  simp only [NamesNodup, register, List.map_append, List.map_cons, List.map_nil]
  refine List.nodup_append.mpr ⟨?_, by simp, ?_⟩
  · exact (List.Sublist.map _ List.filter_sublist).nodup h
  · intro a ha b hb
    simp at hb; subst hb
    obtain ⟨x, hx, rfl⟩ := List.mem_map.mp ha
    have := (List.mem_filter.mp hx).2
    simpa using this

theorem foldl_register_names_nodup (P : List SDef) (E : Eng) (h : NamesNodup E.streams) :
    NamesNodup (P.foldl register E).streams := by
  induction P generalizing E with
  | nil => exact h
  | cons d ds ih => exact ih _ (register_names_nodup E d h)

theorem load_names_nodup (P : List SDef) : NamesNodup (load P).streams :=
  foldl_register_names_nodup P emptyEng (by simp [NamesNodup, emptyEng])

theorem find_of_mem {l : List SDef} (h : NamesNodup l) {d : SDef} (hd : d ∈ l) :
    l.find? (fun x => x.name == d.name) = some d := by
  induction l with
  | nil => cases hd
  | cons x xs ih =>
    simp only [NamesNodup, List.map_cons, List.nodup_cons] at h
    simp only [List.find?]
    rcases List.mem_cons.mp hd with h1 | h1
    · subst h1; simp
    · have hne : x.name ≠ d.name := by
        intro he; exact h.1 (he ▸ List.mem_map_of_mem (f := (·.name)) h1)
      have : (x.name == d.name) = false := by simp [hne]
      simp only [this]
      exact ih h.2 h1

theorem foldl_register_hist_nil (P : List SDef) (E : Eng) (s : Ty) (h : E.hist s = []) :
    (P.foldl register E).hist s = [] := by
  induction P generalizing E with
  | nil => exact h
  | cons d ds ih =>
    apply ih
    simp only [register, setHist]
    split <;> simp [h]

theorem load_hist_nil (P : List SDef) (s : Ty) : (load P).hist s = [] :=
  foldl_register_hist_nil P emptyEng s rfl

theorem loaded_load (P : List SDef) : Loaded P (load P) := ⟨rfl, rfl, fun s _ => load_hist_nil P s⟩

theorem dispatch_hist_none (sync : Bool) (e : Ev) (ns : List Ty) (E : Eng) (s : Ty) (h : E.find s = none) :
    (dispatch sync E e ns).eng.hist s = E.hist s := by
  induction ns generalizing E with
  | nil => simp [dispatch]
  | cons n rest ih =>
    unfold dispatch
    cases hf : E.find n with
    | none => exact ih E h
    | some d =>
      simp only
      rw [ih _ (by simpa using h)]
      have : s ≠ n := by intro he; subst he; rw [h] at hf; cases hf
      simp [setHist, this]

theorem level_hist_none (sync : Bool) (q : List Ev) (E : Eng) (s : Ty) (h : E.find s = none) :
    (level sync E q).eng.hist s = E.hist s := by
  induction q generalizing E with
  | nil => simp [level]
  | cons e es ih =>
    simp only [level]
    have fr := dispatch_frame sync e (routesOf E.router e.ty) E
    rw [ih _ (by rw [find_congr fr.1]; exact h)]
    exact dispatch_hist_none sync e _ E s h

theorem drain_hist_none (sync : Bool) (n : Nat) (E : Eng) (q : List Ev) (s : Ty) (h : E.find s = none) :
    (drain sync n E q).eng.hist s = E.hist s := by
  induction n generalizing E q with
  | zero => simp [drain]
  | succ n ih =>
    simp only [drain]
    have fr := level_frame sync q E
    rw [ih _ _ (by rw [find_congr fr.1]; exact h)]
    exact level_hist_none sync q E s h

theorem processSeq_hist_none (sync : Bool) (evs : List Ev) (E : Eng) (s : Ty) (h : E.find s = none) :
    (processSeq sync E evs).eng.hist s = E.hist s := by
  induction evs generalizing E with
  | nil => simp [processSeq]
  | cons e es ih =>
    simp only [processSeq, processOne]
    have fr := drain_frame sync maxChainDepth E [e]
    rw [ih _ (by rw [find_congr fr.1]; exact h)]
    exact drain_hist_none sync maxChainDepth E [e] s h

/-- processing events (on any entry point) keeps an engine `Loaded` -/
theorem loaded_processSeq (sync : Bool) (P : List SDef) (E : Eng) (evs : List Ev) (h : Loaded P E) :
    Loaded P (processSeq sync E evs).eng := by
  have fr := processSeq_frame sync evs E
  refine ⟨fr.1.trans h.streams, fr.2.trans h.router, ?_⟩
  intro s hs
  have hs' : E.find s = none := by rw [← find_congr fr.1]; exact hs
  rw [processSeq_hist_none sync evs E s hs']
  exact h.clean s hs'

theorem changed_self (E N : Eng) (h : ∀ s, E.find s = N.find s) (d : SDef) : changed E N d d = false := by
  have : ∀ n, declChanged E N n = false := by
    intro n; simp only [declChanged, h]
    cases N.find n <;> simp
  simp [changed, sameSet, this]

theorem reloadPick_name (chg : Eng → Eng → SDef → SDef → Bool) (E N : Eng) (d' : SDef) :
    (reloadPick chg E N d').name = d'.name := by
  unfold reloadPick
  cases hf : E.find d'.name with
  | none => rfl
  | some d =>
    have : d.name = d'.name := by
      have := List.find?_some hf
      simpa using this
    simp only
    split <;> simp [this]

theorem find_map_pick (chg : Eng → Eng → SDef → SDef → Bool) (E N : Eng) (l : List SDef) (s : Ty) :
    (l.map (reloadPick chg E N)).find? (fun d => d.name == s) = (l.find? (fun d => d.name == s)).map (reloadPick chg E N) := by
  induction l with
  | nil => rfl
  | cons x xs ih =>
    simp only [List.map_cons, List.find?, reloadPick_name]
    cases hx : (x.name == s) with
    | true => simp
    | false => simpa using ih

/-- `reload P` on an engine loaded with `P` (and having processed anything since) is the identity -/
theorem reload_same (P : List SDef) (E : Eng) (h : Loaded P E) : reload E P = E := by
  have hn := load_names_nodup P
  have hfind : ∀ s, E.find s = (load P).find s := fun s => find_congr h.streams s
  have hcs := changed_self E (load P) hfind
  have hstreams : (load P).streams.map (reloadPick changed E (load P)) = E.streams := by
    rw [h.streams]
    conv => rhs; rw [← List.map_id (load P).streams]
    apply List.map_congr_left
    intro d hd
    have : E.find d.name = some d := by rw [hfind]; exact find_of_mem hn hd
    simp [reloadPick, this, hcs]
  have hhist : (fun s => if keeps changed E (load P) s then E.hist s else []) = E.hist := by
    funext s
    have hk : keeps changed E (load P) s = ((load P).find s).isSome := by
      simp only [keeps, hfind]
      cases (load P).find s with
      | none => rfl
      | some d => simp [hcs]
    rw [hk]
    cases hf : (load P).find s with
    | none => simpa using (h.clean s (by rw [hfind]; exact hf)).symm
    | some d => simp
  have hr := h.router
  cases E with
  | mk st ro hi =>
    simp only [reload]
    simp only at hstreams hhist hr
    rw [hstreams, hhist, ← hr]

/-- after `reload P'` the router is the one a fresh load of `P'` builds -/
theorem reload_router (E : Eng) (P' : List SDef) : (reload E P').router = (load P').router := rfl

theorem reload_find (E : Eng) (P' : List SDef) (s : Ty) :
    (reload E P').find s = ((load P').find s).map (reloadPick changed E (load P')) := by
  simp only [reload, Eng.find]
  exact find_map_pick changed E (load P') _ s

/-- a stream that is new or whose declaration changed is, after `reload P'`, exactly what a fresh load of
`P'` makes it: the new definition with empty state -/
theorem reload_changed_fresh (E : Eng) (P' : List SDef) (d' : SDef) (hd : (load P').find d'.name = some d')
    (hc : E.find d'.name = none ∨ ∃ d, E.find d'.name = some d ∧ changed E (load P') d d' = true) :
    (reload E P').find d'.name = some d' ∧ (reload E P').hist d'.name = [] := by
  constructor
  · rw [reload_find, hd]
    rcases hc with hc | ⟨d, hf, hch⟩
    · simp [reloadPick, hc]
    · simp [reloadPick, hf, hch]
  · simp only [reload, keeps, hd]
    rcases hc with hc | ⟨d, hf, hch⟩
    · simp [hc]
    · simp [hf, hch]

/-- a stream whose declaration did not change keeps its definition and its state -/
theorem reload_unchanged_kept (E : Eng) (P' : List SDef) (d d' : SDef) (hd : (load P').find d'.name = some d')
    (hf : E.find d'.name = some d) (hch : changed E (load P') d d' = false) :
    (reload E P').find d'.name = some d ∧ (reload E P').hist d'.name = E.hist d'.name := by
  constructor
  · rw [reload_find, hd]; simp [reloadPick, hf, hch]
  · simp [reload, keeps, hd, hf, hch]

/-- a stream that is not declared in `P'` is gone -/
theorem reload_removed (E : Eng) (P' : List SDef) (s : Ty) (h : (load P').find s = none) :
    (reload E P').find s = none ∧ (reload E P').hist s = [] := by
  constructor
  · rw [reload_find, h]; rfl
  · simp only [reload, keeps, h]
    cases E.find s <;> simp


/-! ## What was wrong before the repairs (concrete witnesses on the `legacy*` definitions) -/

/-- a stream with `.emit`: every handed event is emitted (and output) under the stream's name -/
def emitStream (name : Ty) (subs : List Ty) : SDef :=
  { name := name, subs := subs, prim := subs, isJoin := false, hasProcess := false, nops := 1, defId := name
    resp := fun _ e => { outs := [{ ty := name, pl := e.pl }], emitted := [{ ty := name, pl := e.pl }] } }

/-- a filter stream without `.emit`: the handed event is output (before the rename), nothing is emitted -/
def passStream (name : Ty) (subs : List Ty) : SDef :=
  { name := name, subs := subs, prim := subs, isJoin := false, hasProcess := false, nops := 1, defId := name
    resp := fun _ e => { outs := [e], emitted := [] } }

/-- a stream whose answer depends on its state: emits how many events it had been handed before -/
def countStream (name : Ty) (subs : List Ty) (on : Ty) : SDef :=
  { name := name, subs := subs, prim := subs, isJoin := false, hasProcess := false, nops := 1, defId := name
    resp := fun hist e => if e.ty = on then
        { outs := [{ ty := name, pl := hist.length }], emitted := [{ ty := name, pl := hist.length }] }
      else { outs := [], emitted := [] } }

/-- a two-source join: answers from the second handed event on -/
def joinStream (name : Ty) (subs : List Ty) : SDef :=
  { name := name, subs := subs, prim := [], isJoin := true, hasProcess := false, nops := 1, defId := name
    resp := fun hist e => if hist.isEmpty then { outs := [], emitted := [] }
      else { outs := [{ ty := name, pl := e.pl }], emitted := [{ ty := name, pl := e.pl }] } }

/-- `.process(f())` without `.emit`: the function emits an event of another type -/
def processStream (name : Ty) (subs : List Ty) (other : Ty) : SDef :=
  { name := name, subs := subs, prim := subs, isJoin := false, hasProcess := true, nops := 1, defId := name
    resp := fun _ e => { outs := [{ ty := other, pl := e.pl }], emitted := [] } }

/-- chain `F = A.emit`, `D = F.emit`: the pre-repair batch paths emitted `F,F,D,D`, `process` emits `F,D,F,D` -/
theorem legacy_batch_order_differs :
    let E := load [emitStream 10 [0], emitStream 11 [10]]
    (legacyBatchCall false E [⟨0, 1⟩, ⟨0, 2⟩]).sent = [⟨10, 1⟩, ⟨10, 2⟩, ⟨11, 1⟩, ⟨11, 2⟩] ∧
    (perEvent E [⟨0, 1⟩, ⟨0, 2⟩]).sent = [⟨10, 1⟩, ⟨11, 1⟩, ⟨10, 2⟩, ⟨11, 2⟩] := by decide

/-- a stream fed by an input type *and* a stream derived from it saw the events in another order on the
pre-repair batch paths: not only the order but the outputs themselves differed -/
theorem legacy_batch_content_differs :
    let E := load [emitStream 10 [0], countStream 12 [0, 10] 10]
    (legacyBatchCall false E [⟨0, 1⟩, ⟨0, 2⟩]).sent = [⟨10, 1⟩, ⟨10, 2⟩, ⟨12, 2⟩, ⟨12, 3⟩] ∧
    (perEvent E [⟨0, 1⟩, ⟨0, 2⟩]).sent = [⟨10, 1⟩, ⟨12, 1⟩, ⟨10, 2⟩, ⟨12, 3⟩] := by decide

/-- `S0 = A.emit`, `S1 = A.where(..)` (no emit, nobody consumes `S1`): the pre-repair sync path queued
`S1`'s un-renamed output, which is an `A` event again: `S0` emitted `MAX_CHAIN_DEPTH` copies, and `S1`
was handed the event ten times -/
theorem legacy_sync_rename_duplicates :
    let E := load [emitStream 10 [0], passStream 11 [0]]
    (legacyDrainSync maxChainDepth E [⟨0, 7⟩]).sent = List.replicate 10 ⟨10, 7⟩ ∧
    (legacyDrainSync maxChainDepth E [⟨0, 7⟩]).eng.hist 11 = List.replicate 10 ⟨0, 7⟩ ∧
    (perEvent E [⟨0, 7⟩]).sent = [⟨10, 7⟩] ∧ (perEvent E [⟨0, 7⟩]).eng.hist 11 = [⟨0, 7⟩] := by decide

/-- the pre-repair sync path returned nothing for join sources -/
theorem legacy_sync_join_starves :
    let E := load [joinStream 10 [0, 1]]
    (legacyDrainSync maxChainDepth (legacyDrainSync maxChainDepth E [⟨0, 1⟩]).eng [⟨1, 2⟩]).sent = [] ∧
    (perEvent E [⟨0, 1⟩, ⟨1, 2⟩]).sent = [⟨10, 2⟩] := by decide

/-- `.process()` without `.emit`: the pre-repair sync path sent the outputs under the function's event
type instead of the stream name -/
theorem legacy_sync_process_type :
    let E := load [processStream 10 [0] 20]
    (legacyDrainSync maxChainDepth E [⟨0, 1⟩]).sent = [⟨20, 1⟩] ∧ (perEvent E [⟨0, 1⟩]).sent = [⟨10, 1⟩] := by decide

/-- `S = A as a -> B as b` (registered for `A` and `B`, primary source `A`): the pre-repair `reload` of
the *same* program dropped the `B` route, so the sequence never completed again -/
theorem legacy_reload_sequence_starves :
    let S : SDef := { joinStream 10 [0, 1] with prim := [0], isJoin := false }
    let E := (perEvent (load [S]) [⟨0, 1⟩]).eng
    (perEvent (legacyReload E [S]) [⟨1, 2⟩]).sent = [] ∧ (perEvent E [⟨1, 2⟩]).sent = [⟨10, 2⟩] ∧
    (perEvent (reload E [S]) [⟨1, 2⟩]).sent = [⟨10, 2⟩] := by decide

/-- a join has no primary source at all: after the pre-repair `reload` it received nothing -/
theorem legacy_reload_join_starves :
    let E := load [joinStream 10 [0, 1]]
    routesOf (legacyReload E [joinStream 10 [0, 1]]).router 0 = [] ∧ routesOf (reload E [joinStream 10 [0, 1]]).router 0 = [10] := by decide

/-- an edit that keeps source and operation count (`.where(x > 0)` → `.where(x > 10)`): the pre-repair
`reload` kept the old definition -/
theorem legacy_reload_keeps_old_ops :
    let old := emitStream 10 [0]
    let new : SDef := { emitStream 10 [0] with defId := 99, resp := fun _ _ => { outs := [], emitted := [] } }
    (perEvent (legacyReload (load [old]) [new]) [⟨0, 1⟩]).sent = [⟨10, 1⟩] ∧
    (perEvent (reload (load [old]) [new]) [⟨0, 1⟩]).sent = [] := by decide

end Varpulis.EngineRoute
