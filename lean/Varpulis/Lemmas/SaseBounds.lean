import Varpulis.Lemmas.SaseKleene
import Varpulis.Model.SaseBounds
/-!
# Lemmas about the engine-level SASE model (C05, and the engine loop under C03)
-/
namespace Varpulis.SaseB
open Varpulis.SaseK Varpulis.Zdd

theorem swapRemove_length_le {α : Type} (l : List α) (i : Nat) : (swapRemove l i).length ≤ l.length := by
  unfold swapRemove
  split
  · exact Nat.le_refl _
  · simp [List.length_set, List.length_dropLast]

theorem swapRemove_length {α : Type} (l : List α) (i : Nat) (h : l ≠ []) : (swapRemove l i).length = l.length - 1 := by
  unfold swapRemove
  split
  · rename_i hn; simp [List.getLast?_eq_none_iff] at hn; exact absurd hn h
  · simp [List.length_set, List.length_dropLast]

theorem mem_swapRemove {α : Type} (l : List α) (i : Nat) (x : α) (hx : x ∈ swapRemove l i) : x ∈ l := by
  unfold swapRemove at hx
  split at hx
  · exact hx
  · rename_i last hl
    rcases List.mem_or_eq_of_mem_set hx with h | rfl
    · exact List.dropLast_subset l h
    · exact List.mem_of_getLast? hl

/-- bound on the matches of one completion -/
def GOk (lim : Limits) (g : List Match) : Prop := 1 ≤ lim.maxResults → g.length ≤ lim.maxResults

theorem processRuns_ok (nfa : Nfa) (lim : Limits) (e : Ev) (hw : NfaWf nfa) (hk : 1 ≤ lim.maxEvents) :
    ∀ (fuel : Nat) (runs : List Run) (i : Nat) (acc : List (List Match)),
      (∀ r ∈ runs, RunInv nfa lim r) → (∀ g ∈ acc, GOk lim g) →
      ∃ runs' ms, processRuns nfa lim e fuel runs i acc = some (runs', ms) ∧
        runs'.length ≤ runs.length ∧ (∀ r ∈ runs', RunInv nfa lim r) ∧ (∀ g ∈ ms, GOk lim g) := by
  intro fuel
  induction fuel with
  | zero => intro runs i acc hr ha; exact ⟨runs, acc, rfl, Nat.le_refl _, hr, ha⟩
  | succ fuel ih =>
    intro runs i acc hr ha
    simp only [processRuns]
    cases hi : runs[i]? with
    | none => exact ⟨runs, acc, rfl, Nat.le_refl _, hr, ha⟩
    | some r =>
      have hrin : r ∈ runs := List.mem_of_getElem? hi
      have hadv := advance_ok nfa lim r e hw hk (hr r hrin)
      have hset : ∀ r', RunInv nfa lim r' → ∀ x ∈ runs.set i r', RunInv nfa lim x := by
        intro r' hr' x hx
        rcases List.mem_or_eq_of_mem_set hx with h | rfl
        · exact hr x h
        · exact hr'
      have hsw : ∀ x ∈ swapRemove runs i, RunInv nfa lim x := fun x hx => hr x (mem_swapRemove _ _ _ hx)
      cases hadvr : advance nfa lim r e with
      | cont r' =>
        simp only [hadvr]
        rw [hadvr] at hadv
        obtain ⟨runs', ms, h1, h2, h3, h4⟩ := ih (runs.set i r') (i + 1) acc (hset r' hadv) ha
        exact ⟨runs', ms, h1, by simpa using h2, h3, h4⟩
      | noMatch r' =>
        simp only [hadvr]
        rw [hadvr] at hadv
        obtain ⟨runs', ms, h1, h2, h3, h4⟩ := ih (runs.set i r') (i + 1) acc (hset r' hadv) ha
        exact ⟨runs', ms, h1, by simpa using h2, h3, h4⟩
      | complete m =>
        simp only [hadvr]
        have hacc : ∀ g ∈ acc ++ [[m]], GOk lim g := by
          intro g hg
          rcases List.mem_append.mp hg with h | h
          · exact ha g h
          · simp at h; subst h; intro h1; simpa using h1
        obtain ⟨runs', ms, h1, h2, h3, h4⟩ := ih (swapRemove runs i) i _ hsw hacc
        exact ⟨runs', ms, h1, Nat.le_trans h2 (swapRemove_length_le _ _), h3, h4⟩
      | completeCont r' m =>
        simp only [hadvr]
        rw [hadvr] at hadv
        have hacc : ∀ g ∈ acc ++ [[m]], GOk lim g := by
          intro g hg
          rcases List.mem_append.mp hg with h | h
          · exact ha g h
          · simp at h; subst h; intro h1; simpa using h1
        obtain ⟨runs', ms, h1, h2, h3, h4⟩ := ih (runs.set i r') (i + 1) _ (hset r' hadv) hacc
        exact ⟨runs', ms, h1, by simpa using h2, h3, h4⟩
      | multi ms0 =>
        simp only [hadvr]
        rw [hadvr] at hadv
        have hacc : ∀ g ∈ acc ++ [ms0], GOk lim g := by
          intro g hg
          rcases List.mem_append.mp hg with h | h
          · exact ha g h
          · simp at h; subst h; exact hadv
        obtain ⟨runs', ms, h1, h2, h3, h4⟩ := ih (swapRemove runs i) i _ hsw hacc
        exact ⟨runs', ms, h1, Nat.le_trans h2 (swapRemove_length_le _ _), h3, h4⟩
      | panic => rw [hadvr] at hadv; exact absurd hadv (by simp [AdvOk])

theorem minIdxBy_none (key : Run → Nat) (l : List Run) (h : minIdxBy key l = none) : l = [] := by
  cases l with
  | nil => rfl
  | cons r rs =>
    simp only [minIdxBy] at h
    split at h
    · simp at h
    · split at h <;> simp at h

/-- `handle_backpressure*` never lets a run vector grow beyond `max_runs` -/
theorem handleBp_ok (nfa : Nfa) (cfg : Cfg) (created dropped : Nat) (runs : List Run) (r : Run)
    (hm : 1 ≤ cfg.maxRuns) (hl : runs.length ≤ cfg.maxRuns)
    (hr : ∀ x ∈ runs, RunInv nfa cfg.lim x) (hnew : RunInv nfa cfg.lim r) :
    (handleBp cfg created dropped runs r).1.length ≤ cfg.maxRuns ∧
    ∀ x ∈ (handleBp cfg created dropped runs r).1, RunInv nfa cfg.lim x := by
  have happ : ∀ x ∈ runs ++ [r], RunInv nfa cfg.lim x := by
    intro x hx
    rcases List.mem_append.mp hx with h | h
    · exact hr x h
    · simp at h; subst h; exact hnew
  have hev : ∀ (key : Run → Nat),
      (match minIdxBy key runs with
        | some i => (swapRemove runs i ++ [r], BpOutcome.addedEvicting)
        | none => (runs ++ [r], BpOutcome.added)).1.length ≤ cfg.maxRuns ∧
      ∀ x ∈ (match minIdxBy key runs with
        | some i => (swapRemove runs i ++ [r], BpOutcome.addedEvicting)
        | none => (runs ++ [r], BpOutcome.added)).1, RunInv nfa cfg.lim x := by
    intro key
    cases hmi : minIdxBy key runs with
    | none =>
      have := minIdxBy_none key runs hmi
      subst this
      exact ⟨by simpa using hm, happ⟩
    | some i =>
      have hne : runs ≠ [] := by intro hc; subst hc; simp [minIdxBy] at hmi
      have hpos : 0 < runs.length := List.length_pos_iff.mpr hne
      refine ⟨by simp [swapRemove_length _ _ hne]; omega, ?_⟩
      intro x hx
      rcases List.mem_append.mp hx with h | h
      · exact hr x (mem_swapRemove _ _ _ h)
      · simp at h; subst h; exact hnew
  unfold handleBp
  by_cases hlt : runs.length < cfg.maxRuns
  · simp only [hlt, if_true]
    exact ⟨by simp; omega, happ⟩
  · simp only [hlt, if_false]
    cases hs : cfg.strat with
    | drop => exact ⟨hl, hr⟩
    | error => exact ⟨hl, hr⟩
    | evictOldest => exact hev _
    | evictLeastProgress => exact hev _
    | sample num den =>
      simp only
      split
      · cases hmi : minIdxBy (·.seq) runs with
        | none => exact ⟨hl, hr⟩
        | some i =>
          have := hev (·.seq)
          rw [hmi] at this
          exact this
      · exact ⟨hl, hr⟩

/-- length part of `handleBp_ok`, for arbitrary runs -/
theorem handleBp_length (cfg : Cfg) (created dropped : Nat) (runs : List Run) (r : Run)
    (hm : 1 ≤ cfg.maxRuns) (hl : runs.length ≤ cfg.maxRuns) :
    (handleBp cfg created dropped runs r).1.length ≤ cfg.maxRuns := by
  have hev : ∀ (key : Run → Nat),
      (match minIdxBy key runs with
        | some i => (swapRemove runs i ++ [r], BpOutcome.addedEvicting)
        | none => (runs ++ [r], BpOutcome.added)).1.length ≤ cfg.maxRuns := by
    intro key
    cases hmi : minIdxBy key runs with
    | none =>
      have := minIdxBy_none key runs hmi
      subst this
      simpa using hm
    | some i =>
      have hne : runs ≠ [] := by intro hc; subst hc; simp [minIdxBy] at hmi
      have hpos : 0 < runs.length := List.length_pos_iff.mpr hne
      simp [swapRemove_length _ _ hne]; omega
  unfold handleBp
  by_cases hlt : runs.length < cfg.maxRuns
  · simp only [hlt, if_true]
    simp; omega
  · simp only [hlt, if_false]
    cases hs : cfg.strat with
    | drop => exact hl
    | error => exact hl
    | evictOldest => exact hev _
    | evictLeastProgress => exact hev _
    | sample num den =>
      simp only
      split
      · cases hmi : minIdxBy (·.seq) runs with
        | none => exact hl
        | some i =>
          have := hev (·.seq)
          rw [hmi] at this
          exact this
      · exact hl

/-- invariant of one run vector -/
def VecInv (nfa : Nfa) (cfg : Cfg) (v : List Run) : Prop :=
  v.length ≤ cfg.maxRuns ∧ ∀ r ∈ v, RunInv nfa cfg.lim r

/-- engine invariant: every run vector (the unpartitioned one and one per partition) is within `max_runs`
and every run satisfies the run invariant -/
def EngInv (nfa : Nfa) (cfg : Cfg) (s : Eng) : Prop :=
  VecInv nfa cfg s.runs ∧ ∀ p ∈ s.parts, VecInv nfa cfg p.2

def OutOk (cfg : Cfg) (o : Out) : Prop := ∀ g ∈ o.emitted, GOk cfg.lim g

theorem engInv_init (nfa : Nfa) (cfg : Cfg) : EngInv nfa cfg {} := by
  refine ⟨⟨by simp, by simp⟩, by simp⟩

theorem lookup_mem {α β : Type} [BEq α] [LawfulBEq α] (l : List (α × β)) (k : α) (v : β) (h : l.lookup k = some v) :
    (k, v) ∈ l := by
  induction l with
  | nil => simp at h
  | cons p l ih =>
    obtain ⟨a, b⟩ := p
    simp only [List.lookup_cons] at h
    split at h
    · rename_i heq
      have : k = a := by simpa using heq
      subst this; cases h; simp
    · exact List.mem_cons_of_mem _ (ih h)

theorem mem_partSet (parts : List (Option Nat × List Run)) (k : Option Nat) (rs : List Run) (p : Option Nat × List Run)
    (hp : p ∈ partSet parts k rs) : p ∈ parts ∨ p = (k, rs) := by
  unfold partSet at hp
  split at hp
  · rcases List.mem_map.mp hp with ⟨q, hq, rfl⟩
    split
    · right; rfl
    · left; exact hq
  · rcases List.mem_append.mp hp with h | h
    · left; exact h
    · right; simpa using h

theorem step_ok (nfa : Nfa) (cfg : Cfg) (s : Eng) (e : Ev) (hw : NfaWf nfa) (hm : 1 ≤ cfg.maxRuns)
    (hk : 1 ≤ cfg.lim.maxEvents) (h : EngInv nfa cfg s) :
    ∃ s' o, step nfa cfg s e = some (s', o) ∧ EngInv nfa cfg s' ∧ OutOk cfg o := by
  -- the vector this event works on
  have hcur : VecInv nfa cfg (if cfg.partitioned then (partGet s.parts e.key).getD [] else s.runs) := by
    split
    · cases hg : partGet s.parts e.key with
      | none => exact ⟨by simp, by simp⟩
      | some v => exact h.2 _ (lookup_mem _ _ _ hg)
    · exact h.1
  generalize hcv : (if cfg.partitioned then (partGet s.parts e.key).getD [] else s.runs) = cur at hcur
  obtain ⟨runs1, ms, hpr, hlen, hinv, hms⟩ :=
    processRuns_ok nfa cfg.lim e hw hk cur.length cur 0 [] hcur.2 (by simp)
  have hv1 : VecInv nfa cfg runs1 := ⟨Nat.le_trans hlen hcur.1, hinv⟩
  -- storing a vector that satisfies the invariant keeps the engine invariant
  have hput : ∀ (s0 : Eng) (rs : List Run), EngInv nfa cfg s0 → VecInv nfa cfg rs →
      EngInv nfa cfg (if cfg.partitioned then { s0 with parts := partSet s0.parts e.key rs } else { s0 with runs := rs }) := by
    intro s0 rs h0 hrs
    split
    · refine ⟨h0.1, ?_⟩
      intro p hp
      rcases mem_partSet _ _ _ _ hp with h' | rfl
      · exact h0.2 p h'
      · exact hrs
    · exact ⟨hrs, h0.2⟩
  have hs1 : EngInv nfa cfg (if (cfg.partitioned && (partGet s.parts e.key).isNone) = true then s
      else (if cfg.partitioned then { s with parts := partSet s.parts e.key runs1 } else { s with runs := runs1 })) := by
    split
    · exact h
    · exact hput s runs1 h hv1
  simp only [step, hcv, hpr]
  generalize (if (cfg.partitioned && (partGet s.parts e.key).isNone) = true then s
      else (if cfg.partitioned then { s with parts := partSet s.parts e.key runs1 } else { s with runs := runs1 })) = s1 at hs1
  have hstart := tryStart_ok nfa cfg.lim e s.nextSeq hw
  cases hts : tryStart nfa e s.nextSeq with
  | panic => rw [hts] at hstart; exact absurd hstart (by simp [StartOk])
  | none => exact ⟨_, _, rfl, hs1, hms⟩
  | run r =>
    rw [hts] at hstart
    have hbp := handleBp_ok nfa cfg s1.created s1.dropped runs1 r hm hv1.1 hv1.2 hstart
    have hs2 := hput s1 _ hs1 ⟨hbp.1, hbp.2⟩
    simp only
    refine ⟨_, _, rfl, ?_, hms⟩
    generalize (if cfg.partitioned then { s1 with parts := partSet s1.parts e.key (handleBp cfg s1.created s1.dropped runs1 r).1 }
      else { s1 with runs := (handleBp cfg s1.created s1.dropped runs1 r).1 }) = s2 at hs2
    cases (handleBp cfg s1.created s1.dropped runs1 r).2 <;> exact hs2

theorem runAll_ok (nfa : Nfa) (cfg : Cfg) (hw : NfaWf nfa) (hm : 1 ≤ cfg.maxRuns) (hk : 1 ≤ cfg.lim.maxEvents) :
    ∀ (evs : List Ev) (s : Eng), EngInv nfa cfg s →
      ∃ s' outs, runAll nfa cfg s evs = some (s', outs) ∧ EngInv nfa cfg s' ∧ ∀ o ∈ outs, OutOk cfg o := by
  intro evs
  induction evs with
  | nil => intro s h; exact ⟨s, [], rfl, h, by simp⟩
  | cons e es ih =>
    intro s h
    obtain ⟨s1, o, h1, h2, h3⟩ := step_ok nfa cfg s e hw hm hk h
    obtain ⟨s2, os, h4, h5, h6⟩ := ih s1 h2
    refine ⟨s2, o :: os, by simp [runAll, h1, h4], h5, ?_⟩
    intro o' ho'
    rcases List.mem_cons.mp ho' with rfl | h'
    · exact h3
    · exact h6 o' h'

/-! ### the engine on `A B^n C` (one run) -/

/-- captures seen by the next B event -/
def capOf (eA : Ev) (kept : List Ev) : Cap :=
  match kept.getLast? with | some l => capAB eA l | none => [(0, eA)]

/-- one B event: kept iff it passes the eager filter and the cap is not reached -/
def keep (pe : Option Pred) (mk : Nat) (eA : Ev) (kept : List Ev) (b : Ev) : List Ev :=
  if predOk pe b (capOf eA kept) && decide (kept.length < mk) then kept ++ [b] else kept

/-- the single run after A and the kept B events -/
def runOf (pp : Option Pred) (eA : Ev) (kept : List Ev) (seq : Nat) : Run :=
  match kept.getLast? with | some l => runAt2 pp eA kept l seq | none => runAt1 eA seq

theorem runOf_nil (pp : Option Pred) (eA : Ev) (seq : Nat) : runOf pp eA [] seq = runAt1 eA seq := rfl
theorem runOf_snoc (pp : Option Pred) (eA : Ev) (kept : List Ev) (b : Ev) (seq : Nat) :
    runOf pp eA (kept ++ [b]) seq = runAt2 pp eA (kept ++ [b]) b seq := by simp [runOf]

theorem adv_B (pa pe pp pc : Option Pred) (lim : Limits) (eA b : Ev) (kept : List Ev) (seq : Nat)
    (hb : b.ty = 1) (hk : 1 ≤ lim.maxEvents) :
    advance (nfaMid pa pe pp pc) lim (runOf pp eA kept seq) b = .cont (runOf pp eA (keep pe lim.maxEvents eA kept b) seq) ∨
    advance (nfaMid pa pe pp pc) lim (runOf pp eA kept seq) b = .noMatch (runOf pp eA (keep pe lim.maxEvents eA kept b) seq) := by
  cases hl : kept.getLast? with
  | none =>
    have hnil : kept = [] := by simpa [List.getLast?_eq_none_iff] using hl
    subst hnil
    simp only [runOf_nil, adv_first pa pe pp pc lim eA b seq hb hk, keep, capOf, List.getLast?_nil, List.length_nil]
    by_cases hok : predOk pe b [(0, eA)] = true
    · left; simp [hok, runOf, show 0 < lim.maxEvents by omega]
    · right; simp [hok, runOf]
  | some l =>
    have hr : runOf pp eA kept seq = runAt2 pp eA kept l seq := by simp [runOf, hl]
    simp only [hr, adv_loop pa pe pp pc lim eA l b kept seq hb, keep, capOf, hl]
    by_cases hok : predOk pe b (capAB eA l) = true
    · left
      by_cases hcap : kept.length ≥ lim.maxEvents
      · have : ¬ kept.length < lim.maxEvents := by omega
        simp [hok, hcap, this, hr]
      · have : kept.length < lim.maxEvents := by omega
        simp [hok, hcap, this, runOf_snoc]
    · right; simp [hok, hr]

theorem tryStart_mid_none (pa pe pp pc : Option Pred) (e : Ev) (seq : Nat) (h : e.ty ≠ 0) :
    tryStart (nfaMid pa pe pp pc) e seq = .none := by
  simp [tryStart, nfaMid, startTargets, startEps, matchesState, tyOk, h]

theorem tryStart_mid_A (pa pe pp pc : Option Pred) (e : Ev) (seq : Nat) (h : e.ty = 0) (hp : predOk pa e [] = true) :
    tryStart (nfaMid pa pe pp pc) e seq = .run (runAt1 e seq) := by
  simp [tryStart, nfaMid, startTargets, matchesState, tyOk, h, hp, runAt1, Run.push, Cap.setOpt, Cap.set]

/-- one event on an unpartitioned engine holding exactly one run that neither completes nor restarts -/
theorem step_single (nfa : Nfa) (cfg : Cfg) (s : Eng) (e : Ev) (r r' : Run) (hp : cfg.partitioned = false)
    (hr : s.runs = [r]) (ha : advance nfa cfg.lim r e = .cont r' ∨ advance nfa cfg.lim r e = .noMatch r')
    (hs : tryStart nfa e s.nextSeq = .none) :
    step nfa cfg s e = some ({ s with runs := [r'] }, { emitted := [] }) := by
  rcases ha with ha | ha <;>
    simp [step, hp, hr, processRuns, ha, hs]

theorem step_complete (nfa : Nfa) (cfg : Cfg) (s : Eng) (e : Ev) (r : Run) (ms : List Match) (hp : cfg.partitioned = false)
    (hr : s.runs = [r]) (ha : advance nfa cfg.lim r e = .multi ms ∨ (∃ m, ms = [m] ∧ advance nfa cfg.lim r e = .complete m))
    (hs : tryStart nfa e s.nextSeq = .none) :
    step nfa cfg s e = some ({ s with runs := [], completed := s.completed + ms.length }, { emitted := [ms] }) := by
  rcases ha with ha | ⟨m, rfl, ha⟩ <;>
    simp [step, hp, hr, processRuns, ha, hs, swapRemove]

theorem step_first (pa pe pp pc : Option Pred) (cfg : Cfg) (eA : Ev) (hp : cfg.partitioned = false) (hm : 1 ≤ cfg.maxRuns)
    (hA : eA.ty = 0) (hpa : predOk pa eA [] = true) :
    step (nfaMid pa pe pp pc) cfg {} eA =
      some ({ runs := [runAt1 eA 0], created := 1, nextSeq := 1 }, { emitted := [], started := true, bp := some .added }) := by
  have : (0 : Nat) < cfg.maxRuns := by omega
  simp [step, hp, processRuns, tryStart_mid_A pa pe pp pc eA 0 hA hpa, handleBp, this]

def quiet : Out := { emitted := [] }

theorem runAll_bs (pa pe pp pc : Option Pred) (cfg : Cfg) (eA : Ev) (hp : cfg.partitioned = false)
    (hk : 1 ≤ cfg.lim.maxEvents) :
    ∀ (bs : List Ev) (s : Eng) (kept : List Ev), (∀ b ∈ bs, b.ty = 1) → s.runs = [runOf pp eA kept 0] →
      ∃ s', runAll (nfaMid pa pe pp pc) cfg s bs = some (s', bs.map fun _ => quiet) ∧
        s'.runs = [runOf pp eA (bs.foldl (keep pe cfg.lim.maxEvents eA) kept) 0] := by
  intro bs
  induction bs with
  | nil => intro s kept _ hr; exact ⟨s, rfl, hr⟩
  | cons b bs ih =>
    intro s kept hb hr
    have hb1 : b.ty = 1 := hb b (by simp)
    have hstep := step_single (nfaMid pa pe pp pc) cfg s b _ _ hp hr
      (adv_B pa pe pp pc cfg.lim eA b kept 0 hb1 hk) (tryStart_mid_none pa pe pp pc b _ (by omega))
    obtain ⟨s', h1, h2⟩ := ih { s with runs := [runOf pp eA (keep pe cfg.lim.maxEvents eA kept b) 0] }
      (keep pe cfg.lim.maxEvents eA kept b) (fun x hx => hb x (List.mem_cons_of_mem _ hx)) rfl
    refine ⟨s', ?_, by simpa using h2⟩
    simp [runAll, hstep, h1, quiet]

/-- with a filter that is not evaluated eagerly (self-referencing or absent) every B is kept up to the cap -/
theorem foldl_keep_none (mk : Nat) (eA : Ev) : ∀ (bs kept : List Ev),
    bs.foldl (keep none mk eA) kept = kept ++ bs.take (mk - kept.length) := by
  intro bs
  induction bs with
  | nil => intro kept; simp
  | cons b bs ih =>
    intro kept
    simp only [List.foldl_cons, keep, predOk, Bool.true_and]
    by_cases h : kept.length < mk
    · simp only [h, decide_true, if_true, ih]
      have : mk - kept.length = (mk - (kept ++ [b]).length) + 1 := by simp; omega
      rw [this]; simp
    · simp only [h, decide_false, Bool.false_eq_true, if_false, ih]
      have : mk - kept.length = 0 := by omega
      simp [this]

/-- a filter that does not mention the Kleene alias does not depend on its binding -/
theorem evalPred_consistent (p : Pred) (e : Ev) (c c' : Cap) (h : selfRef (some 1) p = false)
    (hc : ∀ al, al ≠ 1 → Cap.get c al = Cap.get c' al) : evalPred p e c = evalPred p e c' := by
  induction p with
  | cmp f op v => simp [evalPred]
  | cmpRef f op al rf =>
    have hne : al ≠ 1 := by
      intro hc'; subst hc'; simp [selfRef] at h
    simp [evalPred, hc al hne]
  | and p q ihp ihq =>
    simp [selfRef] at h
    simp [evalPred, ihp h.1, ihq h.2]
  | or p q ihp ihq =>
    simp [selfRef] at h
    simp [evalPred, ihp h.1, ihq h.2]
  | not p ih => simp [selfRef] at h; simp [evalPred, ih h]

theorem predOk_capOf (pe : Option Pred) (b eA : Ev) (kept : List Ev)
    (h : ∀ p, pe = some p → selfRef (some 1) p = false) :
    predOk pe b (capOf eA kept) = predOk pe b [(0, eA)] := by
  cases pe with
  | none => rfl
  | some p =>
    unfold capOf
    cases kept.getLast? with
    | none => rfl
    | some l =>
      simp only [predOk, capAB]
      apply evalPred_consistent p b _ _ (h p rfl)
      intro al hal
      have : (al == 1) = false := by simpa using hal
      simp [Cap.get, List.lookup_cons, this]

/-- with a consistent filter the kept events are those that satisfy it (captures: only `a`), up to the cap -/
theorem foldl_keep_consistent (pe : Option Pred) (mk : Nat) (eA : Ev)
    (h : ∀ p, pe = some p → selfRef (some 1) p = false) : ∀ (bs kept : List Ev),
    bs.foldl (keep pe mk eA) kept = kept ++ (bs.filter fun b => predOk pe b [(0, eA)]).take (mk - kept.length) := by
  intro bs
  induction bs with
  | nil => intro kept; simp
  | cons b bs ih =>
    intro kept
    simp only [List.foldl_cons, keep, predOk_capOf pe b eA kept h]
    by_cases hok : predOk pe b [(0, eA)] = true
    · simp only [hok, Bool.true_and, List.filter_cons, if_true]
      by_cases hl : kept.length < mk
      · simp only [hl, decide_true, if_true, ih]
        have : mk - kept.length = (mk - (kept ++ [b]).length) + 1 := by simp; omega
        rw [this]; simp
      · simp only [hl, decide_false, Bool.false_eq_true, if_false, ih]
        have : mk - kept.length = 0 := by omega
        simp [this]
    · simp only [hok, Bool.false_and, Bool.false_eq_true, if_false, ih, List.filter_cons]

theorem runAll_append (nfa : Nfa) (cfg : Cfg) : ∀ (xs ys : List Ev) (s : Eng),
    runAll nfa cfg s (xs ++ ys) =
      match runAll nfa cfg s xs with
      | none => none
      | some (s1, o1) => (runAll nfa cfg s1 ys).map fun (s2, o2) => (s2, o1 ++ o2) := by
  intro xs
  induction xs with
  | nil => intro ys s; simp [runAll]
  | cons x xs ih =>
    intro ys s
    simp only [List.cons_append, runAll]
    cases hst : step nfa cfg s x with
    | none => rfl
    | some so =>
      obtain ⟨s1, o⟩ := so
      simp only [ih ys s1]
      cases runAll nfa cfg s1 xs with
      | none => rfl
      | some r =>
        obtain ⟨s2, o2⟩ := r
        simp only [Option.map_some]
        cases runAll nfa cfg s2 ys with
        | none => rfl
        | some r3 => obtain ⟨s3, o3⟩ := r3; simp

theorem evalDeferred_eq_chainOk (p : Pred) (al : Option Nat) (cap : Cap) : ∀ (l : List Ev),
    evalDeferred p al cap l = Spec.chainOk p al cap l := by
  intro l
  induction l with
  | nil => rfl
  | cons a l ih =>
    cases l with
    | nil => rfl
    | cons b l => simp only [evalDeferred, Spec.chainOk, ih]

theorem pick_eq_map (kept : List Ev) : ∀ (s : List Nat), (∀ i ∈ s, i < kept.length) →
    Spec.pick kept s = s.map fun i => kept.getD i default := by
  intro s
  induction s with
  | nil => intro _; rfl
  | cons i t ih =>
    intro h
    have hi : i < kept.length := h i (by simp)
    have := ih (fun j hj => h j (List.mem_cons_of_mem _ hj))
    simp only [Spec.pick] at this ⊢
    simp [List.filterMap_cons, List.getElem?_eq_getElem hi, this, List.getD_eq_getElem?_getD]

theorem kinv_kcOf (pp : Option Pred) (kept : List Ev) : KInv (kcOf pp kept) := by
  constructor
  · rfl
  · simp [kcOf]
  · intro h; simp only [kcOf] at h ⊢; simp [h]
  · intro h; simp only [kcOf] at h ⊢; simp [h]

/-- on index sets over the kept events, the loop body of `enumerate_with_filter` decides admissibility -/
theorem comboOk_eq_admissible (r : Run) (p : Pred) (kept : List Ev) (s : List Nat) (hs : ∀ i ∈ s, i < kept.length) :
    comboOk r p (s, entriesOf (kcOf (some p) kept) s) = Spec.admissible p (some 1) r.captured kept s := by
  cases s with
  | nil => simp [comboOk, Spec.admissible, entriesOf]
  | cons i t =>
    have hi : i < kept.length := hs i (by simp)
    have hal : deferredAlias p (entriesOf (kcOf (some p) kept) (i :: t)) = some 1 := by
      simp [deferredAlias, entriesOf, kcOf, List.getD_eq_getElem?_getD, List.getElem?_replicate, hi]
    have hev : (entriesOf (kcOf (some p) kept) (i :: t)).map (·.ev) = Spec.pick kept (i :: t) := by
      rw [pick_eq_map kept _ hs]
      simp [entriesOf, kcOf]
    simp only [comboOk, Spec.admissible, hal, hev, evalDeferred_eq_chainOk]
    simp [entriesOf]

/-- stack of a completed `A -> all B -> C` match -/
def stackOf (eA : Ev) (kept : List Ev) (eC : Ev) : List Entry :=
  (⟨eA, some 0⟩ :: kept.map (⟨·, some 1⟩)) ++ [⟨eC, some 2⟩]

/-- captures at completion: `c`, then `b` = last kept B, then `a` -/
def capC (eA last eC : Ev) : Cap := (2, eC) :: capAB eA last

/-- the run that reached the accept state -/
def runAt4 (pp : Option Pred) (eA : Ev) (kept : List Ev) (last eC : Ev) : Run :=
  { cur := 4, stack := stackOf eA kept eC, captured := capC eA last eC, seq := 0, kc := some (kcOf pp kept) }

theorem adv_first_C (pa pe pp pc : Option Pred) (lim : Limits) (eA c : Ev) (seq : Nat) (hc : c.ty = 2) :
    advance (nfaMid pa pe pp pc) lim (runAt1 eA seq) c = .noMatch (runAt1 eA seq) := by
  simp [advance, nfaMid, runAt1, tryTransitions, tryEps, matchesState, tyOk, hc]

/-- the emitted matches, event by event, of `A B^n C` on `A -> all B -> C` -/
theorem emitted_mid (pa pe pp pc : Option Pred) (cfg : Cfg) (eA eC : Ev) (bs : List Ev)
    (hp : cfg.partitioned = false) (hm : 1 ≤ cfg.maxRuns) (hk : 1 ≤ cfg.lim.maxEvents)
    (hA : eA.ty = 0) (hpa : predOk pa eA [] = true) (hB : ∀ b ∈ bs, b.ty = 1) (hC : eC.ty = 2) :
    emittedAll (nfaMid pa pe pp pc) cfg (eA :: (bs ++ [eC])) =
      some ([] :: (bs.map fun _ => []) ++
        [match (bs.foldl (keep pe cfg.lim.maxEvents eA) []).getLast? with
         | none => []
         | some l =>
           if predOk pc eC (capAB eA l) then
             (match completeRun (runAt4 pp eA (bs.foldl (keep pe cfg.lim.maxEvents eA) []) l eC) cfg.lim with
              | .multi ms => [ms]
              | .complete m => [[m]]
              | _ => [])
           else []]) := by
  have h1 := step_first pa pe pp pc cfg eA hp hm hA hpa
  obtain ⟨s2, h2, h2r⟩ := runAll_bs pa pe pp pc cfg eA hp hk bs
    { runs := [runAt1 eA 0], created := 1, nextSeq := 1 } [] hB rfl
  generalize hkept : bs.foldl (keep pe cfg.lim.maxEvents eA) [] = kept at h2r ⊢
  have hns := tryStart_mid_none pa pe pp pc eC s2.nextSeq (by omega)
  simp only [emittedAll, runAll, h1, runAll_append, h2]
  cases hl : kept.getLast? with
  | none =>
    have hr : s2.runs = [runAt1 eA 0] := by simpa [runOf, hl] using h2r
    have := step_single (nfaMid pa pe pp pc) cfg s2 eC _ _ hp hr (Or.inr (adv_first_C pa pe pp pc cfg.lim eA eC 0 hC)) hns
    simp [runAll, this, quiet]
  | some l =>
    have hr : s2.runs = [runAt2 pp eA kept l 0] := by simpa [runOf, hl] using h2r
    have hadv := adv_complete pa pe pp pc cfg.lim eA l eC kept 0 hC
    by_cases hok : predOk pc eC (capAB eA l) = true
    · simp only [hok, if_true] at hadv ⊢
      have hr4 : ({ cur := 4, stack := (⟨eA, some 0⟩ :: kept.map (⟨·, some 1⟩)) ++ [⟨eC, some 2⟩],
                    captured := (2, eC) :: capAB eA l, seq := 0, kc := some (kcOf pp kept) } : Run) = runAt4 pp eA kept l eC := rfl
      rw [hr4] at hadv
      have hcr := completeRun_ok (nfaMid pa pe pp pc) cfg.lim (runAt4 pp eA kept l eC)
        (by intro k hk; simp [runAt4] at hk; subst hk; exact kinv_kcOf pp kept)
      cases hcomp : completeRun (runAt4 pp eA kept l eC) cfg.lim with
      | multi ms =>
        rw [hcomp] at hadv
        have := step_complete (nfaMid pa pe pp pc) cfg s2 eC _ ms hp hr (Or.inl hadv) hns
        simp [runAll, this, quiet]
      | complete m =>
        rw [hcomp] at hadv
        have := step_complete (nfaMid pa pe pp pc) cfg s2 eC _ [m] hp hr (Or.inr ⟨m, rfl, hadv⟩) hns
        simp [runAll, this, quiet]
      | panic => rw [hcomp] at hcr; exact absurd hcr (by simp [AdvOk])
      | cont r => simp [completeRun] at hcomp; repeat (split at hcomp <;> try simp at hcomp)
      | noMatch r => simp [completeRun] at hcomp; repeat (split at hcomp <;> try simp at hcomp)
      | completeCont r m => simp [completeRun] at hcomp; repeat (split at hcomp <;> try simp at hcomp)
    · simp only [hok] at hadv ⊢
      have := step_single (nfaMid pa pe pp pc) cfg s2 eC _ _ hp hr (Or.inr hadv) hns
      simp [runAll, this, quiet]

/-! ### the engine on `A` followed by non-A events, pattern `A -> all B` -/

/-- the run of a trailing closure after A and the kept events -/
def runTOf (eA : Ev) (kept : List Ev) (seq : Nat) : Run :=
  match kept.getLast? with | some l => runT eA kept l seq | none => runAt1 eA seq

/-- a trailing closure keeps every B that passes the filter — no cap is consulted (known finding) -/
def keepT (pe : Option Pred) (eA : Ev) (kept : List Ev) (e : Ev) : List Ev :=
  if e.ty = 1 ∧ predOk pe e (capOf eA kept) = true then kept ++ [e] else kept

/-- what one event reports: the closure so far, iff the event extended it -/
def outT (pe : Option Pred) (eA : Ev) (kept : List Ev) (e : Ev) : List (List Match) :=
  if e.ty = 1 ∧ predOk pe e (capOf eA kept) = true then [[matchT eA (kept ++ [e]) e]] else []

theorem step_completeCont (nfa : Nfa) (cfg : Cfg) (s : Eng) (e : Ev) (r r' : Run) (m : Match) (hp : cfg.partitioned = false)
    (hr : s.runs = [r]) (ha : advance nfa cfg.lim r e = .completeCont r' m) (hs : tryStart nfa e s.nextSeq = .none) :
    step nfa cfg s e = some ({ s with runs := [r'], completed := s.completed + 1 }, { emitted := [[m]] }) := by
  simp [step, hp, hr, processRuns, ha, hs]

theorem stepT (pa pe : Option Pred) (cfg : Cfg) (s : Eng) (eA e : Ev) (kept : List Ev) (hp : cfg.partitioned = false)
    (hr : s.runs = [runTOf eA kept 0]) (he : e.ty ≠ 0) :
    ∃ s', step (nfaTrail pa pe) cfg s e = some (s', { emitted := outT pe eA kept e }) ∧
      s'.runs = [runTOf eA (keepT pe eA kept e) 0] := by
  have hns := tryStart_trail_none pa pe e s.nextSeq he
  cases hl : kept.getLast? with
  | none =>
    have hnil : kept = [] := by simpa [List.getLast?_eq_none_iff] using hl
    subst hnil
    have hr' : s.runs = [runAt1 eA 0] := by simpa [runTOf] using hr
    have hadv := advT_first pa pe cfg.lim eA e 0 he
    by_cases hc : e.ty = 1 ∧ predOk pe e [(0, eA)] = true
    · simp only [hc, and_self, if_true] at hadv
      have hout : outT pe eA [] e = [[matchT eA ([] ++ [e]) e]] := by simp [outT, capOf, hc]
      rw [hout]
      exact ⟨_, step_completeCont _ cfg s e _ _ _ hp hr' hadv hns, by simp [keepT, capOf, hc, runTOf]⟩
    · simp only [hc, if_false] at hadv
      have hout : outT pe eA [] e = [] := by simp [outT, capOf, hc]
      rw [hout]
      exact ⟨_, step_single _ cfg s e _ _ hp hr' (Or.inr hadv) hns, by simp [keepT, capOf, hc, runTOf]⟩
  | some l =>
    have hr' : s.runs = [runT eA kept l 0] := by simpa [runTOf, hl] using hr
    have hadv := advT_loop pa pe cfg.lim eA l e kept 0 he
    by_cases hc : e.ty = 1 ∧ predOk pe e (capAB eA l) = true
    · simp only [hc, and_self, if_true] at hadv
      have hout : outT pe eA kept e = [[matchT eA (kept ++ [e]) e]] := by simp [outT, capOf, hl, hc]
      rw [hout]
      exact ⟨_, step_completeCont _ cfg s e _ _ _ hp hr' hadv hns, by simp [keepT, capOf, hl, hc, runTOf]⟩
    · simp only [hc, if_false] at hadv
      have hout : outT pe eA kept e = [] := by simp [outT, capOf, hl, hc]
      rw [hout]
      exact ⟨_, step_single _ cfg s e _ _ hp hr' (Or.inr hadv) hns, by simp [keepT, capOf, hl, hc, runTOf]⟩

/-- outputs of a stream of non-A events after A -/
def outsT (pe : Option Pred) (eA : Ev) : List Ev → List Ev → List (List (List Match))
  | _, [] => []
  | kept, e :: es => outT pe eA kept e :: outsT pe eA (keepT pe eA kept e) es

theorem runAll_trail (pa pe : Option Pred) (cfg : Cfg) (eA : Ev) (hp : cfg.partitioned = false) :
    ∀ (es : List Ev) (s : Eng) (kept : List Ev), (∀ e ∈ es, e.ty ≠ 0) → s.runs = [runTOf eA kept 0] →
      (runAll (nfaTrail pa pe) cfg s es).map (fun r => r.2.map (·.emitted)) = some (outsT pe eA kept es) := by
  intro es
  induction es with
  | nil => intro s kept _ _; simp [runAll, outsT]
  | cons e es ih =>
    intro s kept he hr
    obtain ⟨s', h1, h2⟩ := stepT pa pe cfg s eA e kept hp hr (he e (by simp))
    have := ih s' (keepT pe eA kept e) (fun x hx => he x (List.mem_cons_of_mem _ hx)) h2
    simp only [runAll, h1, outsT]
    cases hra : runAll (nfaTrail pa pe) cfg s' es with
    | none => simp [hra] at this
    | some r2 => simp [hra] at this ⊢; exact this

/-- `A` followed by any events that are not of type A, on `A -> all B` -/
theorem emitted_trail (pa pe : Option Pred) (cfg : Cfg) (eA : Ev) (es : List Ev)
    (hp : cfg.partitioned = false) (hm : 1 ≤ cfg.maxRuns) (hA : eA.ty = 0) (hpa : predOk pa eA [] = true)
    (he : ∀ e ∈ es, e.ty ≠ 0) :
    emittedAll (nfaTrail pa pe) cfg (eA :: es) = some ([] :: outsT pe eA [] es) := by
  have h1 : step (nfaTrail pa pe) cfg {} eA =
      some ({ runs := [runAt1 eA 0], created := 1, nextSeq := 1 }, { emitted := [], started := true, bp := some .added }) := by
    have : (0 : Nat) < cfg.maxRuns := by omega
    simp [step, hp, processRuns, tryStart_trail_A pa pe eA 0 hA hpa, handleBp, this]
  have h2 := runAll_trail pa pe cfg eA hp es { runs := [runAt1 eA 0], created := 1, nextSeq := 1 } [] he rfl
  simp only [emittedAll, runAll, h1]
  cases hra : runAll (nfaTrail pa pe) cfg { runs := [runAt1 eA 0], created := 1, nextSeq := 1 } es with
  | none => simp [hra] at h2
  | some r2 => simp [hra] at h2 ⊢; exact h2

/-- successive reports of a trailing closure carry strictly longer stacks (hence are pairwise distinct),
and each is longer than the closure was before -/
theorem outsT_stacks (pe : Option Pred) (eA : Ev) : ∀ (es kept : List Ev),
    (∀ m ∈ (outsT pe eA kept es).flatten.flatten, kept.length + 1 < m.stack.length) ∧
    ((outsT pe eA kept es).flatten.flatten.map (·.stack.length)).Pairwise (· < ·) := by
  intro es
  induction es with
  | nil => intro kept; simp [outsT]
  | cons e es ih =>
    intro kept
    have ih' := ih (keepT pe eA kept e)
    by_cases hc : e.ty = 1 ∧ predOk pe e (capOf eA kept) = true
    · have hk : keepT pe eA kept e = kept ++ [e] := by simp [keepT, hc]
      have ho : outT pe eA kept e = [[matchT eA (kept ++ [e]) e]] := by simp [outT, hc]
      rw [hk] at ih'
      simp only [outsT, ho, hk, List.flatten_cons, List.flatten_nil, List.append_nil, List.cons_append, List.nil_append,
        List.map_cons, List.pairwise_cons, List.mem_cons, List.mem_map]
      refine ⟨?_, ?_, ih'.2⟩
      · intro m hm
        rcases hm with rfl | hm
        · simp [matchT]
        · have := ih'.1 m hm; simp at this; omega
      · rintro n ⟨m, hm, rfl⟩
        have := ih'.1 m hm
        simp [matchT] at this ⊢; omega
    · have hk : keepT pe eA kept e = kept := by simp [keepT, hc]
      have ho : outT pe eA kept e = [] := by simp [outT, hc]
      rw [hk] at ih'
      simpa [outsT, ho, hk] using ih'

end Varpulis.SaseB
