import Varpulis.Lemmas.SaseKleene
import Varpulis.Model.SaseBounds
/-!
# Lemmas about the engine-level SASE model (C05, and the engine loop under C03)
-/
namespace Varpulis.SaseB
open Varpulis.SaseK

theorem swapRemove_length_le {α : Type} (l : List α) (i : Nat) : (swapRemove l i).length ≤ l.length := by
  unfold swapRemove
  split
  · exact Nat.le_refl _
  · simp [List.length_set, List.length_dropLast]

theorem swapRemove_length {α : Type} (l : List α) (i : Nat) (h : l ≠ []) : (swapRemove l i).length = l.length - 1 := by
  unfold swapRemove
  split
  · rename_i hn; simp [List.getLast?_eq_none_iff] at hn; exact absurd hn h
  · simp [List.length_set, List.length_dropLast]

theorem mem_swapRemove {α : Type} (l : List α) (i : Nat) (x : α) (hx : x ∈ swapRemove l i) : x ∈ l := by
  unfold swapRemove at hx
  split at hx
  · exact hx
  · rename_i last hl
    rcases List.mem_or_eq_of_mem_set hx with h | rfl
    · exact List.dropLast_subset l h
    · exact List.mem_of_getLast? hl

/-- bound on the matches of one completion -/
def GOk (lim : Limits) (g : List Match) : Prop := 1 ≤ lim.maxResults → g.length ≤ lim.maxResults

theorem processRuns_ok (nfa : Nfa) (lim : Limits) (e : Ev) (hw : NfaWf nfa) (hk : 1 ≤ lim.maxEvents) :
    ∀ (fuel : Nat) (runs : List Run) (i : Nat) (acc : List (List Match)),
      (∀ r ∈ runs, RunInv nfa lim r) → (∀ g ∈ acc, GOk lim g) →
      ∃ runs' ms, processRuns nfa lim e fuel runs i acc = some (runs', ms) ∧
        runs'.length ≤ runs.length ∧ (∀ r ∈ runs', RunInv nfa lim r) ∧ (∀ g ∈ ms, GOk lim g) := by
  intro fuel
  induction fuel with
  | zero => intro runs i acc hr ha; exact ⟨runs, acc, rfl, Nat.le_refl _, hr, ha⟩
  | succ fuel ih =>
    intro runs i acc hr ha
    simp only [processRuns]
    cases hi : runs[i]? with
    | none => exact ⟨runs, acc, rfl, Nat.le_refl _, hr, ha⟩
    | some r =>
      have hrin : r ∈ runs := List.mem_of_getElem? hi
      have hadv := advance_ok nfa lim r e hw hk (hr r hrin)
      have hset : ∀ r', RunInv nfa lim r' → ∀ x ∈ runs.set i r', RunInv nfa lim x := by
        intro r' hr' x hx
        rcases List.mem_or_eq_of_mem_set hx with h | rfl
        · exact hr x h
        · exact hr'
      have hsw : ∀ x ∈ swapRemove runs i, RunInv nfa lim x := fun x hx => hr x (mem_swapRemove _ _ _ hx)
      cases hadvr : advance nfa lim r e with
      | cont r' =>
        simp only [hadvr]
        rw [hadvr] at hadv
        obtain ⟨runs', ms, h1, h2, h3, h4⟩ := ih (runs.set i r') (i + 1) acc (hset r' hadv) ha
        exact ⟨runs', ms, h1, by simpa using h2, h3, h4⟩
      | noMatch r' =>
        simp only [hadvr]
        rw [hadvr] at hadv
        obtain ⟨runs', ms, h1, h2, h3, h4⟩ := ih (runs.set i r') (i + 1) acc (hset r' hadv) ha
        exact ⟨runs', ms, h1, by simpa using h2, h3, h4⟩
      | complete m =>
        simp only [hadvr]
        have hacc : ∀ g ∈ acc ++ [[m]], GOk lim g := by
          intro g hg
          rcases List.mem_append.mp hg with h | h
          · exact ha g h
          · simp at h; subst h; intro h1; simpa using h1
        obtain ⟨runs', ms, h1, h2, h3, h4⟩ := ih (swapRemove runs i) i _ hsw hacc
        exact ⟨runs', ms, h1, Nat.le_trans h2 (swapRemove_length_le _ _), h3, h4⟩
      | completeCont r' m =>
        simp only [hadvr]
        rw [hadvr] at hadv
        have hacc : ∀ g ∈ acc ++ [[m]], GOk lim g := by
          intro g hg
          rcases List.mem_append.mp hg with h | h
          · exact ha g h
          · simp at h; subst h; intro h1; simpa using h1
        obtain ⟨runs', ms, h1, h2, h3, h4⟩ := ih (runs.set i r') (i + 1) _ (hset r' hadv) hacc
        exact ⟨runs', ms, h1, by simpa using h2, h3, h4⟩
      | multi ms0 =>
        simp only [hadvr]
        rw [hadvr] at hadv
        have hacc : ∀ g ∈ acc ++ [ms0], GOk lim g := by
          intro g hg
          rcases List.mem_append.mp hg with h | h
          · exact ha g h
          · simp at h; subst h; exact hadv
        obtain ⟨runs', ms, h1, h2, h3, h4⟩ := ih (swapRemove runs i) i _ hsw hacc
        exact ⟨runs', ms, h1, Nat.le_trans h2 (swapRemove_length_le _ _), h3, h4⟩
      | panic => rw [hadvr] at hadv; exact absurd hadv (by simp [AdvOk])

theorem minIdxBy_none (key : Run → Nat) (l : List Run) (h : minIdxBy key l = none) : l = [] := by
  cases l with
  | nil => rfl
  | cons r rs =>
    simp only [minIdxBy] at h
    split at h
    · simp at h
    · split at h <;> simp at h

/-- `handle_backpressure*` never lets a run vector grow beyond `max_runs` -/
theorem handleBp_ok (nfa : Nfa) (cfg : Cfg) (created dropped : Nat) (runs : List Run) (r : Run)
    (hm : 1 ≤ cfg.maxRuns) (hl : runs.length ≤ cfg.maxRuns)
    (hr : ∀ x ∈ runs, RunInv nfa cfg.lim x) (hnew : RunInv nfa cfg.lim r) :
    (handleBp cfg created dropped runs r).1.length ≤ cfg.maxRuns ∧
    ∀ x ∈ (handleBp cfg created dropped runs r).1, RunInv nfa cfg.lim x := by
  have happ : ∀ x ∈ runs ++ [r], RunInv nfa cfg.lim x := by
    intro x hx
    rcases List.mem_append.mp hx with h | h
    · exact hr x h
    · simp at h; subst h; exact hnew
  have hev : ∀ (key : Run → Nat),
      (match minIdxBy key runs with
        | some i => (swapRemove runs i ++ [r], BpOutcome.addedEvicting)
        | none => (runs ++ [r], BpOutcome.added)).1.length ≤ cfg.maxRuns ∧
      ∀ x ∈ (match minIdxBy key runs with
        | some i => (swapRemove runs i ++ [r], BpOutcome.addedEvicting)
        | none => (runs ++ [r], BpOutcome.added)).1, RunInv nfa cfg.lim x := by
    intro key
    cases hmi : minIdxBy key runs with
    | none =>
      have := minIdxBy_none key runs hmi
      subst this
      exact ⟨by simpa using hm, happ⟩
    | some i =>
      have hne : runs ≠ [] := by intro hc; subst hc; simp [minIdxBy] at hmi
      have hpos : 0 < runs.length := List.length_pos_iff.mpr hne
      refine ⟨by simp [swapRemove_length _ _ hne]; omega, ?_⟩
      intro x hx
      rcases List.mem_append.mp hx with h | h
      · exact hr x (mem_swapRemove _ _ _ h)
      · simp at h; subst h; exact hnew
  unfold handleBp
  by_cases hlt : runs.length < cfg.maxRuns
  · simp only [hlt, if_true]
    exact ⟨by simp; omega, happ⟩
  · simp only [hlt, if_false]
    cases hs : cfg.strat with
    | drop => exact ⟨hl, hr⟩
    | error => exact ⟨hl, hr⟩
    | evictOldest => exact hev _
    | evictLeastProgress => exact hev _
    | sample num den =>
      simp only
      split
      · cases hmi : minIdxBy (·.seq) runs with
        | none => exact ⟨hl, hr⟩
        | some i =>
          have := hev (·.seq)
          rw [hmi] at this
          exact this
      · exact ⟨hl, hr⟩

/-- length part of `handleBp_ok`, for arbitrary runs -/
theorem handleBp_length (cfg : Cfg) (created dropped : Nat) (runs : List Run) (r : Run)
    (hm : 1 ≤ cfg.maxRuns) (hl : runs.length ≤ cfg.maxRuns) :
    (handleBp cfg created dropped runs r).1.length ≤ cfg.maxRuns := by
  have hev : ∀ (key : Run → Nat),
      (match minIdxBy key runs with
        | some i => (swapRemove runs i ++ [r], BpOutcome.addedEvicting)
        | none => (runs ++ [r], BpOutcome.added)).1.length ≤ cfg.maxRuns := by
    intro key
    cases hmi : minIdxBy key runs with
    | none =>
      have := minIdxBy_none key runs hmi
      subst this
      simpa using hm
    | some i =>
      have hne : runs ≠ [] := by intro hc; subst hc; simp [minIdxBy] at hmi
      have hpos : 0 < runs.length := List.length_pos_iff.mpr hne
      simp [swapRemove_length _ _ hne]; omega
  unfold handleBp
  by_cases hlt : runs.length < cfg.maxRuns
  · simp only [hlt, if_true]
    simp; omega
  · simp only [hlt, if_false]
    cases hs : cfg.strat with
    | drop => exact hl
    | error => exact hl
    | evictOldest => exact hev _
    | evictLeastProgress => exact hev _
    | sample num den =>
      simp only
      split
      · cases hmi : minIdxBy (·.seq) runs with
        | none => exact hl
        | some i =>
          have := hev (·.seq)
          rw [hmi] at this
          exact this
      · exact hl

/-- invariant of one run vector -/
def VecInv (nfa : Nfa) (cfg : Cfg) (v : List Run) : Prop :=
  v.length ≤ cfg.maxRuns ∧ ∀ r ∈ v, RunInv nfa cfg.lim r

/-- engine invariant: every run vector (the unpartitioned one and one per partition) is within `max_runs`
and every run satisfies the run invariant -/
def EngInv (nfa : Nfa) (cfg : Cfg) (s : Eng) : Prop :=
  VecInv nfa cfg s.runs ∧ ∀ p ∈ s.parts, VecInv nfa cfg p.2

def OutOk (cfg : Cfg) (o : Out) : Prop := ∀ g ∈ o.emitted, GOk cfg.lim g

theorem engInv_init (nfa : Nfa) (cfg : Cfg) : EngInv nfa cfg {} := by
  refine ⟨⟨by simp, by simp⟩, by simp⟩

theorem lookup_mem {α β : Type} [BEq α] [LawfulBEq α] (l : List (α × β)) (k : α) (v : β) (h : l.lookup k = some v) :
    (k, v) ∈ l := by
  induction l with
  | nil => simp at h
  | cons p l ih =>
    obtain ⟨a, b⟩ := p
    simp only [List.lookup_cons] at h
    split at h
    · rename_i heq
      have : k = a := by simpa using heq
      subst this; cases h; simp
    · exact List.mem_cons_of_mem _ (ih h)

theorem mem_partSet (parts : List (Option Nat × List Run)) (k : Option Nat) (rs : List Run) (p : Option Nat × List Run)
    (hp : p ∈ partSet parts k rs) : p ∈ parts ∨ p = (k, rs) := by
  unfold partSet at hp
  split at hp
  · rcases List.mem_map.mp hp with ⟨q, hq, rfl⟩
    split
    · right; rfl
    · left; exact hq
  · rcases List.mem_append.mp hp with h | h
    · left; exact h
    · right; simpa using h

theorem step_ok (nfa : Nfa) (cfg : Cfg) (s : Eng) (e : Ev) (hw : NfaWf nfa) (hm : 1 ≤ cfg.maxRuns)
    (hk : 1 ≤ cfg.lim.maxEvents) (h : EngInv nfa cfg s) :
    ∃ s' o, step nfa cfg s e = some (s', o) ∧ EngInv nfa cfg s' ∧ OutOk cfg o := by
  -- the vector this event works on
  have hcur : VecInv nfa cfg (if cfg.partitioned then (partGet s.parts e.key).getD [] else s.runs) := by
    split
    · cases hg : partGet s.parts e.key with
      | none => exact ⟨by simp, by simp⟩
      | some v => exact h.2 _ (lookup_mem _ _ _ hg)
    · exact h.1
  generalize hcv : (if cfg.partitioned then (partGet s.parts e.key).getD [] else s.runs) = cur at hcur
  obtain ⟨runs1, ms, hpr, hlen, hinv, hms⟩ :=
    processRuns_ok nfa cfg.lim e hw hk cur.length cur 0 [] hcur.2 (by simp)
  have hv1 : VecInv nfa cfg runs1 := ⟨Nat.le_trans hlen hcur.1, hinv⟩
  -- storing a vector that satisfies the invariant keeps the engine invariant
  have hput : ∀ (s0 : Eng) (rs : List Run), EngInv nfa cfg s0 → VecInv nfa cfg rs →
      EngInv nfa cfg (if cfg.partitioned then { s0 with parts := partSet s0.parts e.key rs } else { s0 with runs := rs }) := by
    intro s0 rs h0 hrs
    split
    · refine ⟨h0.1, ?_⟩
      intro p hp
      rcases mem_partSet _ _ _ _ hp with h' | rfl
      · exact h0.2 p h'
      · exact hrs
    · exact ⟨hrs, h0.2⟩
  have hs1 : EngInv nfa cfg (if (cfg.partitioned && (partGet s.parts e.key).isNone) = true then s
      else (if cfg.partitioned then { s with parts := partSet s.parts e.key runs1 } else { s with runs := runs1 })) := by
    split
    · exact h
    · exact hput s runs1 h hv1
  simp only [step, hcv, hpr]
  generalize (if (cfg.partitioned && (partGet s.parts e.key).isNone) = true then s
      else (if cfg.partitioned then { s with parts := partSet s.parts e.key runs1 } else { s with runs := runs1 })) = s1 at hs1
  have hstart := tryStart_ok nfa cfg.lim e s.nextSeq hw
  cases hts : tryStart nfa e s.nextSeq with
  | panic => rw [hts] at hstart; exact absurd hstart (by simp [StartOk])
  | none => exact ⟨_, _, rfl, hs1, hms⟩
  | run r =>
    rw [hts] at hstart
    have hbp := handleBp_ok nfa cfg s1.created s1.dropped runs1 r hm hv1.1 hv1.2 hstart
    have hs2 := hput s1 _ hs1 ⟨hbp.1, hbp.2⟩
    simp only
    refine ⟨_, _, rfl, ?_, hms⟩
    generalize (if cfg.partitioned then { s1 with parts := partSet s1.parts e.key (handleBp cfg s1.created s1.dropped runs1 r).1 }
      else { s1 with runs := (handleBp cfg s1.created s1.dropped runs1 r).1 }) = s2 at hs2
    cases (handleBp cfg s1.created s1.dropped runs1 r).2 <;> exact hs2

theorem runAll_ok (nfa : Nfa) (cfg : Cfg) (hw : NfaWf nfa) (hm : 1 ≤ cfg.maxRuns) (hk : 1 ≤ cfg.lim.maxEvents) :
    ∀ (evs : List Ev) (s : Eng), EngInv nfa cfg s →
      ∃ s' outs, runAll nfa cfg s evs = some (s', outs) ∧ EngInv nfa cfg s' ∧ ∀ o ∈ outs, OutOk cfg o := by
  intro evs
  induction evs with
  | nil => intro s h; exact ⟨s, [], rfl, h, by simp⟩
  | cons e es ih =>
    intro s h
    obtain ⟨s1, o, h1, h2, h3⟩ := step_ok nfa cfg s e hw hm hk h
    obtain ⟨s2, os, h4, h5, h6⟩ := ih s1 h2
    refine ⟨s2, o :: os, by simp [runAll, h1, h4], h5, ?_⟩
    intro o' ho'
    rcases List.mem_cons.mp ho' with rfl | h'
    · exact h3
    · exact h6 o' h'

end Varpulis.SaseB
