import Varpulis.Model.Agg
/-! Helper lemmas for C14 (aggregates). Ring/field/order identities over `Rat` are discharged by
core `grind` (no Mathlib needed). -/
namespace Varpulis.Agg

/-! ### sums -/

theorem foldl_add_eq (l : List Rat) (s : Rat) : l.foldl (· + ·) s = s + sum l := by
  induction l generalizing s with
  | nil => simp [sum]; grind
  | cons x xs ih => simp only [List.foldl_cons, ih, sum, List.foldr_cons]; grind

theorem sum_cons (x : Rat) (xs : List Rat) : sum (x :: xs) = x + sum xs := rfl
theorem sum_nil : sum [] = 0 := rfl

theorem sum_append (a b : List Rat) : sum (a ++ b) = sum a + sum b := by
  induction a with
  | nil => simp [sum]; grind
  | cons x xs ih => simp only [List.cons_append, sum_cons, ih]; grind

/-- IEEE addition on NaN / ±∞ / exact numbers is associative and commutative (rounding aside) -/
theorem F.add_assoc' (a b c : F) : F.add (F.add a b) c = F.add a (F.add b c) := by
  cases a <;> cases b <;> cases c <;> simp [F.add] <;> grind

theorem F.add_comm' (a b : F) : F.add a b = F.add b a := by
  cases a <;> cases b <;> simp [F.add] <;> grind

instance : Std.Associative (α := F) (· + ·) := ⟨F.add_assoc'⟩
instance : Std.Commutative (α := F) (· + ·) := ⟨F.add_comm'⟩

theorem F.add_zero' (a : F) : a + F.num 0 = a := by
  cases a with
  | nan => rfl
  | inf s => rfl
  | num q => show F.num (q + 0) = F.num q; congr 1; grind

theorem sumX_cons (x : X) (xs : List X) : sumX (x :: xs) = x.toF + sumX xs := rfl

theorem foldl_addX_eq (l : List X) (s : F) : l.foldl (fun s x => s + x.toF) s = s + sumX l := by
  induction l generalizing s with
  | nil => simp [sumX, F.add_zero']
  | cons x xs ih => simp only [List.foldl_cons, ih, sumX_cons]; ac_rfl

theorem sumScalarLoop_eq (l : List X) (s0 s1 s2 s3 : F) :
    sumScalarLoop l s0 s1 s2 s3 = s0 + s1 + s2 + s3 + sumX l := by
  fun_induction sumScalarLoop l s0 s1 s2 s3 with
  | case1 a b c d rest s0 s1 s2 s3 ih => rw [ih]; simp only [sumX_cons]; ac_rfl
  | case2 rem s0 s1 s2 s3 _ => rw [foldl_addX_eq]; ac_rfl

theorem sumAvx2Loop_eq (l : List X) (s0 s1 s2 s3 : F) :
    sumAvx2Loop l s0 s1 s2 s3 = s0 + s1 + s2 + s3 + sumX l := by
  fun_induction sumAvx2Loop l s0 s1 s2 s3 with
  | case1 a b c d rest s0 s1 s2 s3 ih => rw [ih]; simp only [sumX_cons]; ac_rfl
  | case2 rem s0 s1 s2 s3 _ => rw [foldl_addX_eq]

theorem zero4 (x : F) : F.num 0 + F.num 0 + F.num 0 + F.num 0 + x = x := by
  have h : (F.num 0 + F.num 0 : F) = F.num 0 := F.add_zero' _
  rw [h, h, h]
  have : F.num 0 + x = x + F.num 0 := by ac_rfl
  rw [this, F.add_zero']

theorem sumScalar_eq (l : List X) : sumScalar l = sumX l := by
  rw [sumScalar, sumScalarLoop_eq, zero4]

theorem sumAvx2_eq (l : List X) : sumAvx2 l = sumX l := by
  rw [sumAvx2, sumAvx2Loop_eq, zero4]

/-- on finite values the extended sum is the rational sum -/
theorem sumX_num (l : List Rat) : sumX (l.map X.num) = F.num (sum l) := by
  induction l with
  | nil => rfl
  | cons x xs ih => simp only [List.map_cons, sumX_cons, ih, sum_cons]; rfl

/-! ### the paths see the same valid values -/

theorem toX_fill (v : Val) : F.toX? ((getFloat v).getD .nan) = v.validX? := by
  cases v <;> rfl

theorem toX_refs (v : Val) : (getFloat v).bind F.toX? = v.validX? := by
  cases v <;> rfl

theorem validFill_eq (vs : List Val) : validFill vs = validX vs := by
  simp only [validFill, extractNaN, nonNaN, validX, List.filterMap_map]
  congr 1
  funext v
  exact toX_fill v

theorem validRefs_eq (vs : List Val) : validRefs vs = validX vs := by
  simp only [validRefs, floats, nonNaN, validX, List.filterMap_filterMap]
  congr 1
  funext v
  exact toX_refs v

/-! ### min / max over the extended reals -/

theorem minX_assoc (a b c : X) : minX (minX a b) c = minX a (minX b c) := by
  cases a <;> cases b <;> cases c <;> simp [minX, X.lt] <;> grind

theorem minX_comm (a b : X) : minX a b = minX b a := by
  cases a <;> cases b <;> simp [minX, X.lt] <;> grind

instance : Std.Associative minX := ⟨minX_assoc⟩
instance : Std.Commutative minX := ⟨minX_comm⟩

theorem minAcc_eq (m v : X) : minAcc m v = minX m v := rfl
theorem minLane_eq (m v : X) : minLane m v = minX m v := by
  cases m <;> cases v <;> simp [minLane, minX, X.lt] <;> grind
theorem minX_top (a : X) : minX a (.inf false) = a := by
  cases a <;> simp [minX, X.lt] <;> grind

theorem foldl_minAcc (l : List X) (m : X) : l.foldl minAcc m = minX m (minScalar l) := by
  induction l generalizing m with
  | nil => simp [minScalar, minX_top]
  | cons x xs ih =>
    simp only [List.foldl_cons, minScalar]
    rw [ih, ih (minAcc (.inf false) x), minAcc_eq, minAcc_eq]
    have : minX (X.inf false) x = x := by rw [minX_comm, minX_top]
    rw [this, minX_assoc]

theorem minScalar_cons (x : X) (xs : List X) : minScalar (x :: xs) = minX x (minScalar xs) := by
  simp only [minScalar, List.foldl_cons]
  rw [foldl_minAcc, minAcc_eq]
  have : minX (X.inf false) x = x := by rw [minX_comm, minX_top]
  rw [this]; rfl

theorem minAvx2Loop_eq (l : List X) (m0 m1 m2 m3 : X) :
    minAvx2Loop l m0 m1 m2 m3 = minX (minX (minX (minX m0 m1) m2) m3) (minScalar l) := by
  fun_induction minAvx2Loop l m0 m1 m2 m3 with
  | case1 a b c d rest m0 m1 m2 m3 ih =>
    rw [ih]
    simp only [minScalar_cons, minLane_eq]
    ac_rfl
  | case2 rem m0 m1 m2 m3 _ => rw [foldl_minAcc]

/-- lane-wise (AVX2) and sequential (scalar) minimum agree on every list -/
theorem minAvx2_eq (l : List X) : minAvx2 l = minScalar l := by
  rw [minAvx2, minAvx2Loop_eq]
  have h : minX (X.inf false) (X.inf false) = X.inf false := minX_top _
  rw [h, h, h, minX_comm, minX_top]

theorem minX_cases (a b : X) : (minX a b = a ∨ minX a b = b) ∧ X.lt a (minX a b) = false ∧ X.lt b (minX a b) = false := by
  cases a <;> cases b <;> simp [minX, X.lt] <;> grind

theorem lt_trans_false (x m m' : X) (h1 : X.lt x m = false) (h2 : X.lt m m' = false) (h3 : m' = m ∨ True) :
    X.lt m' m = false → X.lt x m' = false := by
  cases x <;> cases m <;> cases m' <;> simp [X.lt] at * <;> grind

/-- `minScalar` of a non-empty list is a member that no member is below -/
theorem minScalar_spec (l : List X) (h : l ≠ []) :
    minScalar l ∈ l ∧ ∀ x ∈ l, X.lt x (minScalar l) = false := by
  induction l with
  | nil => exact absurd rfl h
  | cons x xs ih =>
    rw [minScalar_cons]
    cases xs with
    | nil =>
      simp only [minScalar, List.foldl_nil, minX_top]
      refine ⟨by simp, ?_⟩
      intro y hy; simp at hy; subst hy
      cases y <;> simp [X.lt] <;> grind
    | cons y ys =>
      obtain ⟨hmem, hle⟩ := ih (by simp)
      generalize minScalar (y :: ys) = m at *
      obtain ⟨hc, h1, h2⟩ := minX_cases x m
      constructor
      · rcases hc with e | e
        · rw [e]; simp
        · rw [e]; exact List.mem_cons_of_mem _ hmem
      · intro z hz
        rcases List.mem_cons.mp hz with e | e
        · subst e; exact h1
        · have hz' := hle z e
          generalize minX x m = r at *
          cases z <;> cases m <;> cases r <;> simp [X.lt] at * <;> grind

theorem maxX_assoc (a b c : X) : maxX (maxX a b) c = maxX a (maxX b c) := by
  cases a <;> cases b <;> cases c <;> simp [maxX, X.lt] <;> grind

theorem maxX_comm (a b : X) : maxX a b = maxX b a := by
  cases a <;> cases b <;> simp [maxX, X.lt] <;> grind

instance : Std.Associative maxX := ⟨maxX_assoc⟩
instance : Std.Commutative maxX := ⟨maxX_comm⟩

theorem maxAcc_eq (m v : X) : maxAcc m v = maxX m v := rfl
theorem maxLane_eq (m v : X) : maxLane m v = maxX m v := by
  cases m <;> cases v <;> simp [maxLane, maxX, X.lt] <;> grind
theorem maxX_bot (a : X) : maxX a (.inf true) = a := by
  cases a <;> simp [maxX, X.lt] <;> grind

theorem foldl_maxAcc (l : List X) (m : X) : l.foldl maxAcc m = maxX m (maxScalar l) := by
  induction l generalizing m with
  | nil => simp [maxScalar, maxX_bot]
  | cons x xs ih =>
    simp only [List.foldl_cons, maxScalar]
    rw [ih, ih (maxAcc (.inf true) x), maxAcc_eq, maxAcc_eq]
    have : maxX (X.inf true) x = x := by rw [maxX_comm, maxX_bot]
    rw [this, maxX_assoc]

theorem maxScalar_cons (x : X) (xs : List X) : maxScalar (x :: xs) = maxX x (maxScalar xs) := by
  simp only [maxScalar, List.foldl_cons]
  rw [foldl_maxAcc, maxAcc_eq]
  have : maxX (X.inf true) x = x := by rw [maxX_comm, maxX_bot]
  rw [this]; rfl

theorem maxAvx2Loop_eq (l : List X) (m0 m1 m2 m3 : X) :
    maxAvx2Loop l m0 m1 m2 m3 = maxX (maxX (maxX (maxX m0 m1) m2) m3) (maxScalar l) := by
  fun_induction maxAvx2Loop l m0 m1 m2 m3 with
  | case1 a b c d rest m0 m1 m2 m3 ih =>
    rw [ih]
    simp only [maxScalar_cons, maxLane_eq]
    ac_rfl
  | case2 rem m0 m1 m2 m3 _ => rw [foldl_maxAcc]

theorem maxAvx2_eq (l : List X) : maxAvx2 l = maxScalar l := by
  rw [maxAvx2, maxAvx2Loop_eq]
  have h : maxX (X.inf true) (X.inf true) = X.inf true := maxX_bot _
  rw [h, h, h, maxX_comm, maxX_bot]

theorem maxX_cases (a b : X) : (maxX a b = a ∨ maxX a b = b) ∧ X.lt (maxX a b) a = false ∧ X.lt (maxX a b) b = false := by
  cases a <;> cases b <;> simp [maxX, X.lt] <;> grind

/-- `maxScalar` of a non-empty list is a member that no member is above -/
theorem maxScalar_spec (l : List X) (h : l ≠ []) :
    maxScalar l ∈ l ∧ ∀ x ∈ l, X.lt (maxScalar l) x = false := by
  induction l with
  | nil => exact absurd rfl h
  | cons x xs ih =>
    rw [maxScalar_cons]
    cases xs with
    | nil =>
      simp only [maxScalar, List.foldl_nil, maxX_bot]
      refine ⟨by simp, ?_⟩
      intro y hy; simp at hy; subst hy
      cases y <;> simp [X.lt] <;> grind
    | cons y ys =>
      obtain ⟨hmem, hle⟩ := ih (by simp)
      generalize maxScalar (y :: ys) = m at *
      obtain ⟨hc, h1, h2⟩ := maxX_cases x m
      constructor
      · rcases hc with e | e
        · rw [e]; simp
        · rw [e]; exact List.mem_cons_of_mem _ hmem
      · intro z hz
        rcases List.mem_cons.mp hz with e | e
        · subst e; exact h1
        · have hz' := hle z e
          generalize maxX x m = r at *
          cases z <;> cases m <;> cases r <;> simp [X.lt] at * <;> grind

/-! ### NaN-propagating arithmetic -/

@[simp] theorem F.num_add (a b : Rat) : F.num a + F.num b = F.num (a + b) := rfl
@[simp] theorem F.num_sub (a b : Rat) : F.num a - F.num b = F.num (a - b) := by
  show F.num (a + -b) = F.num (a - b)
  congr 1; grind
@[simp] theorem F.num_mul (a b : Rat) : F.num a * F.num b = F.num (a * b) := rfl
@[simp] theorem F.num_div (a b : Rat) : F.num a / F.num b = F.num (a / b) := rfl
@[simp] theorem F.nan_add (x : F) : F.nan + x = F.nan := rfl
@[simp] theorem F.add_nan (x : F) : x + F.nan = F.nan := by cases x <;> rfl
@[simp] theorem F.nan_sub (x : F) : F.nan - x = F.nan := rfl
@[simp] theorem F.sub_nan (x : F) : x - F.nan = F.nan := by cases x <;> rfl
@[simp] theorem F.div_nan (x : F) : x / F.nan = F.nan := by cases x <;> rfl
@[simp] theorem F.nan_mul (x : F) : F.nan * x = F.nan := rfl
@[simp] theorem F.mul_nan (x : F) : x * F.nan = F.nan := by cases x <;> rfl
@[simp] theorem F.nan_div (x : F) : F.nan / x = F.nan := rfl

/-! ### Welford -/

def sumSq (l : List Rat) : Rat := sum (l.map fun x => x * x)

/-- the Welford state after consuming exactly the numbers `l` -/
def wState (l : List Rat) : W :=
  { n := l.length,
    mean := .num (sum l / (l.length : Nat)),
    m2 := .num (sumSq l - sum l * sum l / (l.length : Nat)) }

theorem natCast_ne_zero_of_cons (x : Rat) (xs : List Rat) : (((x :: xs).length : Nat) : Rat) ≠ 0 := by
  intro h
  have := Rat.natCast_eq_zero_iff.mp h
  simp at this

theorem sumSq_append_single (l : List Rat) (x : Rat) : sumSq (l ++ [x]) = sumSq l + x * x := by
  simp only [sumSq, List.map_append, sum_append, List.map_cons, List.map_nil, sum_cons, sum_nil]; grind

theorem wStep_wState (l : List Rat) (x : Rat) : wStep (wState l) (.num x) = wState (l ++ [x]) := by
  cases l with
  | nil =>
    simp only [wStep, wState, List.length_nil, sum_nil, sumSq, List.map_nil, List.nil_append,
      List.length_cons, List.map_cons, sum_cons, F.num_sub, F.num_div, F.num_add, F.num_mul]
    congr 1
    · congr 1; grind
    · congr 1; grind
  | cons y ys =>
    have hn := natCast_ne_zero_of_cons y ys
    have hlen : (((y :: ys) ++ [x]).length : Nat) = (y :: ys).length + 1 := by simp
    have hc : ((((y :: ys).length + 1 : Nat)) : Rat) = (((y :: ys).length : Nat) : Rat) + 1 := by grind
    have hn1 : (((y :: ys).length : Nat) : Rat) + 1 ≠ 0 := by
      have : (0 : Rat) ≤ (((y :: ys).length : Nat) : Rat) := Rat.natCast_nonneg
      grind
    simp only [wStep, wState, F.num_sub, F.num_div, F.num_add, F.num_mul, sum_append, sumSq_append_single,
      sum_cons, sum_nil, hlen, hc]
    generalize sum (y :: ys) = S1 at *
    generalize sumSq (y :: ys) = S2 at *
    generalize (((y :: ys).length : Nat) : Rat) = n at *
    congr 1
    · congr 1; grind
    · congr 1; grind

theorem foldl_wStep_num (rest pre : List Rat) :
    (rest.map F.num).foldl wStep (wState pre) = wState (pre ++ rest) := by
  induction rest generalizing pre with
  | nil => simp
  | cons x xs ih =>
    simp only [List.map_cons, List.foldl_cons, wStep_wState]
    rw [ih]; simp

theorem wState_nil : wState [] = { n := 0, mean := .num 0, m2 := .num 0 } := by
  simp only [wState, List.length_nil, sum_nil, sumSq, List.map_nil]
  congr 1
  · congr 1; grind
  · congr 1; grind

/-- on numbers, the loop ends in `n = length`, `mean = Σx/n`, `m2 = Σx² − (Σx)²/n` -/
theorem welford_num (l : List Rat) : welford (l.map F.num) = wState l := by
  rw [welford, ← wState_nil, foldl_wStep_num]; simp

theorem sum_sq_dev (l : List Rat) (mu : Rat) :
    sum (l.map fun x => (x - mu) * (x - mu)) = sumSq l - 2 * mu * sum l + (l.length : Nat) * mu * mu := by
  induction l with
  | nil => simp [sumSq, sum]; grind
  | cons x xs ih =>
    have hc : (((x :: xs).length : Nat) : Rat) = ((xs.length : Nat) : Rat) + 1 := by
      simp only [List.length_cons]; grind
    simp only [List.map_cons, sum_cons, ih, sumSq, hc] at *
    grind

/-- `m2/(n−1)` of the final Welford state is the sample variance -/
theorem wState_variance (l : List Rat) (h : 2 ≤ l.length) :
    (sumSq l - sum l * sum l / (l.length : Nat)) / ((l.length - 1 : Nat) : Rat) = sampleVar l := by
  unfold sampleVar
  simp only
  rw [sum_sq_dev]
  have hn : ((l.length : Nat) : Rat) ≠ 0 := by
    intro h0
    have := Rat.natCast_eq_zero_iff.mp h0
    omega
  congr 1
  generalize sum l = S1 at *
  generalize sumSq l = S2 at *
  generalize ((l.length : Nat) : Rat) = n at *
  grind

theorem welford_n (xs : List F) (w : W) : (xs.foldl wStep w).n = w.n + xs.length := by
  induction xs generalizing w with
  | nil => simp
  | cons x rest ih => simp only [List.foldl_cons, ih, wStep, List.length_cons]; omega

theorem foldl_wStep_nan (xs : List F) (w : W) (h1 : w.mean = .nan) (h2 : w.m2 = .nan) :
    (xs.foldl wStep w).m2 = .nan := by
  induction xs generalizing w with
  | nil => simpa using h2
  | cons x rest ih =>
    simp only [List.foldl_cons]
    apply ih <;> simp [wStep, h1, h2]

/-- a NaN anywhere among the numeric values makes `m2` NaN (the loop does not filter) -/
theorem welford_nan (xs : List F) (w : W) (h : F.nan ∈ xs) : (xs.foldl wStep w).m2 = .nan := by
  induction xs generalizing w with
  | nil => simp at h
  | cons x rest ih =>
    simp only [List.foldl_cons]
    rcases List.mem_cons.mp h with e | e
    · subst e
      apply foldl_wStep_nan <;> simp [wStep]
    · exact ih _ e

/-! ### EMA -/

theorem foldl_emaStep_num (k : Rat) (rest : List Rat) (acc : Rat) :
    (rest.map F.num).foldl (emaStep (.num k)) (some (.num acc))
      = some (.num ((1 - k) ^ rest.length * acc + emaWeighted k rest)) := by
  induction rest generalizing acc with
  | nil => simp [emaWeighted]; grind
  | cons x xs ih =>
    simp only [List.map_cons, List.foldl_cons, emaStep, F.num_mul, F.num_sub, F.num_add, ih,
      List.length_cons, emaWeighted]
    congr 2
    grind

/-- on numbers the EMA loop computes the closed form -/
theorem ema_num (k : Rat) (l : List Rat) :
    (l.map F.num).foldl (emaStep (.num k)) none = (emaClosed k l).map F.num := by
  cases l with
  | nil => rfl
  | cons x xs =>
    simp only [List.map_cons, List.foldl_cons, emaStep, foldl_emaStep_num, emaClosed, Option.map_some]

theorem foldl_emaStep_nan (k : F) (xs : List F) : xs.foldl (emaStep k) (some .nan) = some .nan := by
  induction xs with
  | nil => rfl
  | cons x rest ih => simp only [List.foldl_cons, emaStep, F.nan_mul, F.add_nan, ih]

theorem ema_nan (k : F) (xs : List F) (acc : Option F) (h : F.nan ∈ xs) :
    xs.foldl (emaStep k) acc = some .nan := by
  induction xs generalizing acc with
  | nil => simp at h
  | cons x rest ih =>
    simp only [List.foldl_cons]
    rcases List.mem_cons.mp h with e | e
    · subst e
      cases acc with
      | none => simp only [emaStep]; exact foldl_emaStep_nan k rest
      | some p => simp only [emaStep, F.nan_mul, F.nan_add]; exact foldl_emaStep_nan k rest
    · exact ih _ e

/-! ### count_distinct -/

theorem distinct_cond (x : Val) (seen : List Val) :
    (x == Val.missing || seen.contains x) = true ↔ (x = .missing ∨ x ∈ seen) := by
  simp

theorem distinct_fold (vs : List Val) (seen : List Val) (hnd : seen.Nodup) (hm : Val.missing ∉ seen) :
    let r := vs.foldl (fun seen v => if v == .missing || seen.contains v then seen else seen ++ [v]) seen
    r.Nodup ∧ Val.missing ∉ r ∧ ∀ v, v ∈ r ↔ (v ∈ seen ∨ (v ∈ vs ∧ v ≠ .missing)) := by
  induction vs generalizing seen with
  | nil => simp [hnd, hm]
  | cons x rest ih =>
    simp only [List.foldl_cons]
    by_cases hx : x = .missing ∨ x ∈ seen
    · have hc := (distinct_cond x seen).mpr hx
      simp only [hc, if_true]
      obtain ⟨h1, h2, h3⟩ := ih seen hnd hm
      refine ⟨h1, h2, fun v => ?_⟩
      rw [h3 v]
      simp only [List.mem_cons]
      grind
    · have hc : (x == Val.missing || seen.contains x) = false := by
        cases h : (x == Val.missing || seen.contains x) with
        | false => rfl
        | true => exact absurd ((distinct_cond x seen).mp h) hx
      simp only [hc, Bool.false_eq_true, if_false]
      have hxm : x ≠ .missing := fun e => hx (Or.inl e)
      have hxs : x ∉ seen := fun e => hx (Or.inr e)
      have hnd' : (seen ++ [x]).Nodup := by
        rw [List.nodup_append]
        refine ⟨hnd, by simp, ?_⟩
        intro a ha b hb
        simp only [List.mem_singleton] at hb
        subst hb
        intro e; subst e; exact hxs ha
      have hm' : Val.missing ∉ seen ++ [x] := by
        simp only [List.mem_append, List.mem_singleton, not_or]
        exact ⟨hm, fun e => hxm e.symm⟩
      obtain ⟨h1, h2, h3⟩ := ih (seen ++ [x]) hnd' hm'
      refine ⟨h1, h2, fun v => ?_⟩
      rw [h3 v]
      simp only [List.mem_append, List.mem_singleton, List.mem_cons]
      grind

/-! ### the variance is non-negative (its square root is defined) -/

theorem mul_self_nonneg (x : Rat) : 0 ≤ x * x := by
  rcases (Rat.le_total : 0 ≤ x ∨ x ≤ 0) with h | h
  · exact Rat.mul_nonneg h h
  · have : 0 ≤ (-x) * (-x) := Rat.mul_nonneg (by grind) (by grind)
    grind

theorem sum_nonneg (l : List Rat) (h : ∀ x ∈ l, 0 ≤ x) : 0 ≤ sum l := by
  induction l with
  | nil => simp [sum]
  | cons x xs ih =>
    rw [sum_cons]
    exact Rat.add_nonneg (h x (by simp)) (ih (fun y hy => h y (List.mem_cons_of_mem _ hy)))

theorem div_nonneg (a b : Rat) (ha : 0 ≤ a) (hb : 0 ≤ b) : 0 ≤ a / b := by
  rw [Rat.div_def]
  exact Rat.mul_nonneg ha (Lean.Grind.Field.IsOrdered.inv_nonneg_iff.mpr hb)

theorem sampleVar_nonneg (l : List Rat) : 0 ≤ sampleVar l := by
  unfold sampleVar
  apply div_nonneg
  · apply sum_nonneg
    intro x hx
    obtain ⟨y, _, rfl⟩ := List.mem_map.mp hx
    exact mul_self_nonneg _
  · exact Rat.natCast_nonneg

/-! ### NaN-free inputs -/

theorem floats_of_finite (vs : List Val) (h : finiteOnly vs) : floats vs = (valid vs).map F.num := by
  induction vs with
  | nil => rfl
  | cons v rest ih =>
    have hr : finiteOnly rest := ⟨fun e => h.1 (List.mem_cons_of_mem _ e), fun s e => h.2 s (List.mem_cons_of_mem _ e)⟩
    simp only [floats, valid] at ih ⊢
    cases v with
    | nan => exact absurd (by simp) h.1
    | inf s => exact absurd (by simp) (h.2 s)
    | missing => rw [List.filterMap_cons_none (by rfl), List.filterMap_cons_none (by rfl)]; exact ih hr
    | nonNum t => rw [List.filterMap_cons_none (by rfl), List.filterMap_cons_none (by rfl)]; exact ih hr
    | negZero =>
      rw [List.filterMap_cons_some (b := F.num 0) (by rfl), List.filterMap_cons_some (b := (0 : Rat)) (by rfl),
        List.map_cons, ih hr]
    | int i =>
      rw [List.filterMap_cons_some (b := F.num i) (by rfl), List.filterMap_cons_some (b := (i : Rat)) (by rfl),
        List.map_cons, ih hr]
    | flt q =>
      rw [List.filterMap_cons_some (b := F.num q) (by rfl), List.filterMap_cons_some (b := q) (by rfl),
        List.map_cons, ih hr]

theorem validX_of_finite (vs : List Val) (h : finiteOnly vs) : validX vs = (valid vs).map X.num := by
  induction vs with
  | nil => rfl
  | cons v rest ih =>
    have hr : finiteOnly rest := ⟨fun e => h.1 (List.mem_cons_of_mem _ e), fun s e => h.2 s (List.mem_cons_of_mem _ e)⟩
    simp only [validX, valid] at ih ⊢
    cases v with
    | nan => exact absurd (by simp) h.1
    | inf s => exact absurd (by simp) (h.2 s)
    | missing => rw [List.filterMap_cons_none (by rfl), List.filterMap_cons_none (by rfl)]; exact ih hr
    | nonNum t => rw [List.filterMap_cons_none (by rfl), List.filterMap_cons_none (by rfl)]; exact ih hr
    | negZero =>
      rw [List.filterMap_cons_some (b := X.num 0) (by rfl), List.filterMap_cons_some (b := (0 : Rat)) (by rfl),
        List.map_cons, ih hr]
    | int i =>
      rw [List.filterMap_cons_some (b := X.num i) (by rfl), List.filterMap_cons_some (b := (i : Rat)) (by rfl),
        List.map_cons, ih hr]
    | flt q =>
      rw [List.filterMap_cons_some (b := X.num q) (by rfl), List.filterMap_cons_some (b := q) (by rfl),
        List.map_cons, ih hr]

theorem inf_mem_floats (vs : List Val) (s : Bool) (h : Val.inf s ∈ vs) : F.inf s ∈ floats vs := by
  simp only [floats, List.mem_filterMap]
  exact ⟨Val.inf s, h, rfl⟩

/-! ### an infinite input makes Welford's `m2` NaN (`∞ − ∞` in `delta2`) -/

theorem foldl_wStep_m2_nan (xs : List F) (w : W) (h : w.m2 = .nan) : (xs.foldl wStep w).m2 = .nan := by
  induction xs generalizing w with
  | nil => simpa using h
  | cons x rest ih =>
    simp only [List.foldl_cons]
    apply ih; simp [wStep, h]

theorem wStep_inf_m2 (w : W) (s : Bool) : (wStep w (.inf s)).m2 = .nan := by
  have hpos : decide (((w.n : Nat) : Rat) + 1 < 0) = false := by
    have : (0 : Rat) ≤ ((w.n : Nat) : Rat) := Rat.natCast_nonneg
    simp only [decide_eq_false_iff_not]
    grind
  cases hm : w.mean with
  | nan => cases hm2 : w.m2 <;> simp [wStep, hm, hm2] <;> rfl
  | num mu =>
    have h1 : (F.inf s - F.num mu : F) = F.inf s := by cases s <;> rfl
    have h2 : (F.inf s / F.num ((w.n + 1 : Nat) : Rat) : F) = F.inf s := by
      show F.div (F.inf s) (F.num _) = _
      simp [F.div, hpos]
    have h3 : (F.num mu + F.inf s : F) = F.inf s := rfl
    have h4 : (F.inf s - F.inf s : F) = F.nan := by cases s <;> rfl
    have h5 : (F.inf s * F.nan : F) = F.nan := rfl
    simp only [wStep, hm, h1, h2, h3, h4, h5, F.add_nan]
  | inf t =>
    by_cases hst : s = t
    · subst hst
      have h1 : (F.inf s - F.inf s : F) = F.nan := by cases s <;> rfl
      simp only [wStep, hm, h1, F.nan_div, F.add_nan, F.sub_nan, F.nan_mul, F.mul_nan]
    · have h1 : (F.inf s - F.inf t : F) = F.inf s := by cases s <;> cases t <;> simp_all <;> rfl
      have h2 : (F.inf s / F.num ((w.n + 1 : Nat) : Rat) : F) = F.inf s := by
        show F.div (F.inf s) (F.num _) = _
        simp [F.div, hpos]
      have h3 : (F.inf t + F.inf s : F) = F.nan := by cases s <;> cases t <;> simp_all <;> rfl
      simp only [wStep, hm, h1, h2, h3, F.sub_nan, F.mul_nan, F.add_nan]

theorem welford_inf (xs : List F) (w : W) (s : Bool) (h : F.inf s ∈ xs) : (xs.foldl wStep w).m2 = .nan := by
  induction xs generalizing w with
  | nil => simp at h
  | cons x rest ih =>
    simp only [List.foldl_cons]
    rcases List.mem_cons.mp h with e | e
    · subst e
      exact foldl_wStep_m2_nan _ _ (wStep_inf_m2 w s)
    · exact ih _ e

theorem nan_mem_floats (vs : List Val) (h : Val.nan ∈ vs) : F.nan ∈ floats vs := by
  simp only [floats, List.mem_filterMap]
  exact ⟨Val.nan, h, rfl⟩

end Varpulis.Agg
