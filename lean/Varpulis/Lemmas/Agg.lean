import Varpulis.Model.Agg
/-! Helper lemmas for C14 (aggregates). Ring/field/order identities over `Rat` are discharged by
core `grind` (no Mathlib needed). -/
namespace Varpulis.Agg

/-! ### sums -/

theorem foldl_add_eq (l : List Rat) (s : Rat) : l.foldl (· + ·) s = s + sum l := by
  induction l generalizing s with
  | nil => simp [sum]; grind
  | cons x xs ih => simp only [List.foldl_cons, ih, sum, List.foldr_cons]; grind

theorem sum_cons (x : Rat) (xs : List Rat) : sum (x :: xs) = x + sum xs := rfl
theorem sum_nil : sum [] = 0 := rfl

theorem sum_append (a b : List Rat) : sum (a ++ b) = sum a + sum b := by
  induction a with
  | nil => simp [sum]; grind
  | cons x xs ih => simp only [List.cons_append, sum_cons, ih]; grind

theorem sumScalarLoop_eq (l : List Rat) (s0 s1 s2 s3 : Rat) :
    sumScalarLoop l s0 s1 s2 s3 = s0 + s1 + s2 + s3 + sum l := by
  fun_induction sumScalarLoop l s0 s1 s2 s3 with
  | case1 a b c d rest s0 s1 s2 s3 ih => rw [ih]; simp only [sum_cons]; grind
  | case2 rem s0 s1 s2 s3 _ => rw [foldl_add_eq]; grind

theorem sumAvx2Loop_eq (l : List Rat) (s0 s1 s2 s3 : Rat) :
    sumAvx2Loop l s0 s1 s2 s3 = s0 + s1 + s2 + s3 + sum l := by
  fun_induction sumAvx2Loop l s0 s1 s2 s3 with
  | case1 a b c d rest s0 s1 s2 s3 ih => rw [ih]; simp only [sum_cons]; grind
  | case2 rem s0 s1 s2 s3 _ => rw [foldl_add_eq]

theorem sumScalar_eq (l : List Rat) : sumScalar l = sum l := by
  rw [sumScalar, sumScalarLoop_eq]; grind

theorem sumAvx2_eq (l : List Rat) : sumAvx2 l = sum l := by
  rw [sumAvx2, sumAvx2Loop_eq]; grind

/-! ### the paths see the same valid values -/

theorem toRat_fill (v : Val) : F.toRat? ((getFloat v).getD .nan) = v.valid? := by
  cases v <;> rfl

theorem toRat_refs (v : Val) : (getFloat v).bind F.toRat? = v.valid? := by
  cases v <;> rfl

theorem validFill_eq (vs : List Val) : validFill vs = valid vs := by
  simp only [validFill, extractNaN, nonNaN, valid, List.filterMap_map]
  congr 1
  funext v
  exact toRat_fill v

theorem validRefs_eq (vs : List Val) : validRefs vs = valid vs := by
  simp only [validRefs, floats, nonNaN, valid, List.filterMap_filterMap]
  congr 1
  funext v
  exact toRat_refs v

/-! ### min / max -/

theorem minAcc_eq (m : Option Rat) (v : Rat) : minAcc m v = minOpt m (some v) := by
  cases m <;> rfl

theorem minOpt_none_right (a : Option Rat) : minOpt a none = a := by cases a <;> rfl
theorem minOpt_none_left (a : Option Rat) : minOpt none a = a := by cases a <;> rfl

theorem minOpt_assoc (a b c : Option Rat) : minOpt (minOpt a b) c = minOpt a (minOpt b c) := by
  cases a <;> cases b <;> cases c <;> simp [minOpt] <;> grind

theorem minOpt_comm (a b : Option Rat) : minOpt a b = minOpt b a := by
  cases a <;> cases b <;> simp [minOpt] <;> grind

instance : Std.Associative minOpt := ⟨minOpt_assoc⟩
instance : Std.Commutative minOpt := ⟨minOpt_comm⟩

theorem foldl_minAcc (l : List Rat) (m : Option Rat) : l.foldl minAcc m = minOpt m (minScalar l) := by
  induction l generalizing m with
  | nil => simp [minScalar, minOpt_none_right]
  | cons x xs ih =>
    simp only [List.foldl_cons, minScalar]
    rw [ih, ih (minAcc none x), minAcc_eq, minAcc_eq, minOpt_none_left, minOpt_assoc]

theorem minScalar_cons (x : Rat) (xs : List Rat) : minScalar (x :: xs) = minOpt (some x) (minScalar xs) := by
  simp only [minScalar, List.foldl_cons]
  rw [foldl_minAcc]; rfl

theorem minAvx2Loop_eq (l : List Rat) (m0 m1 m2 m3 : Option Rat) :
    minAvx2Loop l m0 m1 m2 m3 = minOpt (minOpt (minOpt (minOpt m0 m1) m2) m3) (minScalar l) := by
  fun_induction minAvx2Loop l m0 m1 m2 m3 with
  | case1 a b c d rest m0 m1 m2 m3 ih =>
    rw [ih]
    simp only [minScalar_cons, minAcc_eq]
    ac_rfl
  | case2 rem m0 m1 m2 m3 _ => rw [foldl_minAcc]

/-- lane-wise (AVX2) and sequential (scalar) minimum agree on every list -/
theorem minAvx2_eq (l : List Rat) : minAvx2 l = minScalar l := by
  rw [minAvx2, minAvx2Loop_eq]; simp [minOpt]

/-- `minScalar` is the least element -/
theorem minScalar_spec (l : List Rat) :
    (l = [] → minScalar l = none) ∧
    (l ≠ [] → ∃ m, minScalar l = some m ∧ m ∈ l ∧ ∀ x ∈ l, m ≤ x) := by
  induction l with
  | nil => simp [minScalar]
  | cons x xs ih =>
    refine ⟨by simp, fun _ => ?_⟩
    rw [minScalar_cons]
    cases xs with
    | nil => simp [minScalar, minOpt]
    | cons y ys =>
      obtain ⟨m, hm, hmem, hle⟩ := ih.2 (by simp)
      rw [hm]
      by_cases hlt : m < x
      · refine ⟨m, by simp [minOpt, hlt], List.mem_cons_of_mem _ hmem, ?_⟩
        intro z hz
        rcases List.mem_cons.mp hz with e | e
        · subst e; grind
        · exact hle z e
      · refine ⟨x, by simp [minOpt, hlt], by simp, ?_⟩
        intro z hz
        rcases List.mem_cons.mp hz with e | e
        · subst e; grind
        · have := hle z e; grind

theorem maxAcc_eq (m : Option Rat) (v : Rat) : maxAcc m v = maxOpt m (some v) := by
  cases m <;> rfl

theorem maxOpt_none_right (a : Option Rat) : maxOpt a none = a := by cases a <;> rfl
theorem maxOpt_none_left (a : Option Rat) : maxOpt none a = a := by cases a <;> rfl

theorem maxOpt_assoc (a b c : Option Rat) : maxOpt (maxOpt a b) c = maxOpt a (maxOpt b c) := by
  cases a <;> cases b <;> cases c <;> simp [maxOpt] <;> grind

theorem maxOpt_comm (a b : Option Rat) : maxOpt a b = maxOpt b a := by
  cases a <;> cases b <;> simp [maxOpt] <;> grind

instance : Std.Associative maxOpt := ⟨maxOpt_assoc⟩
instance : Std.Commutative maxOpt := ⟨maxOpt_comm⟩

theorem foldl_maxAcc (l : List Rat) (m : Option Rat) : l.foldl maxAcc m = maxOpt m (maxScalar l) := by
  induction l generalizing m with
  | nil => simp [maxScalar, maxOpt_none_right]
  | cons x xs ih =>
    simp only [List.foldl_cons, maxScalar]
    rw [ih, ih (maxAcc none x), maxAcc_eq, maxAcc_eq, maxOpt_none_left, maxOpt_assoc]

theorem maxScalar_cons (x : Rat) (xs : List Rat) : maxScalar (x :: xs) = maxOpt (some x) (maxScalar xs) := by
  simp only [maxScalar, List.foldl_cons]
  rw [foldl_maxAcc]; rfl

theorem maxAvx2Loop_eq (l : List Rat) (m0 m1 m2 m3 : Option Rat) :
    maxAvx2Loop l m0 m1 m2 m3 = maxOpt (maxOpt (maxOpt (maxOpt m0 m1) m2) m3) (maxScalar l) := by
  fun_induction maxAvx2Loop l m0 m1 m2 m3 with
  | case1 a b c d rest m0 m1 m2 m3 ih =>
    rw [ih]
    simp only [maxScalar_cons, maxAcc_eq]
    ac_rfl
  | case2 rem m0 m1 m2 m3 _ => rw [foldl_maxAcc]

theorem maxAvx2_eq (l : List Rat) : maxAvx2 l = maxScalar l := by
  rw [maxAvx2, maxAvx2Loop_eq]; simp [maxOpt]

theorem maxScalar_spec (l : List Rat) :
    (l = [] → maxScalar l = none) ∧
    (l ≠ [] → ∃ m, maxScalar l = some m ∧ m ∈ l ∧ ∀ x ∈ l, x ≤ m) := by
  induction l with
  | nil => simp [maxScalar]
  | cons x xs ih =>
    refine ⟨by simp, fun _ => ?_⟩
    rw [maxScalar_cons]
    cases xs with
    | nil => simp [maxScalar, maxOpt]
    | cons y ys =>
      obtain ⟨m, hm, hmem, hle⟩ := ih.2 (by simp)
      rw [hm]
      by_cases hlt : m > x
      · refine ⟨m, by simp [maxOpt, hlt], List.mem_cons_of_mem _ hmem, ?_⟩
        intro z hz
        rcases List.mem_cons.mp hz with e | e
        · subst e; grind
        · exact hle z e
      · refine ⟨x, by simp [maxOpt, hlt], by simp, ?_⟩
        intro z hz
        rcases List.mem_cons.mp hz with e | e
        · subst e; grind
        · have := hle z e; grind

/-! ### NaN-propagating arithmetic -/

@[simp] theorem F.num_add (a b : Rat) : F.num a + F.num b = F.num (a + b) := rfl
@[simp] theorem F.num_sub (a b : Rat) : F.num a - F.num b = F.num (a - b) := rfl
@[simp] theorem F.num_mul (a b : Rat) : F.num a * F.num b = F.num (a * b) := rfl
@[simp] theorem F.num_div (a b : Rat) : F.num a / F.num b = F.num (a / b) := rfl
@[simp] theorem F.nan_add (x : F) : F.nan + x = F.nan := rfl
@[simp] theorem F.add_nan (x : F) : x + F.nan = F.nan := by cases x <;> rfl
@[simp] theorem F.nan_sub (x : F) : F.nan - x = F.nan := rfl
@[simp] theorem F.sub_nan (x : F) : x - F.nan = F.nan := by cases x <;> rfl
@[simp] theorem F.nan_mul (x : F) : F.nan * x = F.nan := rfl
@[simp] theorem F.mul_nan (x : F) : x * F.nan = F.nan := by cases x <;> rfl
@[simp] theorem F.nan_div (x : F) : F.nan / x = F.nan := rfl

/-! ### Welford -/

def sumSq (l : List Rat) : Rat := sum (l.map fun x => x * x)

/-- the Welford state after consuming exactly the numbers `l` -/
def wState (l : List Rat) : W :=
  { n := l.length,
    mean := .num (sum l / (l.length : Nat)),
    m2 := .num (sumSq l - sum l * sum l / (l.length : Nat)) }

theorem natCast_ne_zero_of_cons (x : Rat) (xs : List Rat) : (((x :: xs).length : Nat) : Rat) ≠ 0 := by
  intro h
  have := Rat.natCast_eq_zero_iff.mp h
  simp at this

theorem sumSq_append_single (l : List Rat) (x : Rat) : sumSq (l ++ [x]) = sumSq l + x * x := by
  simp only [sumSq, List.map_append, sum_append, List.map_cons, List.map_nil, sum_cons, sum_nil]; grind

theorem wStep_wState (l : List Rat) (x : Rat) : wStep (wState l) (.num x) = wState (l ++ [x]) := by
  cases l with
  | nil =>
    simp only [wStep, wState, List.length_nil, sum_nil, sumSq, List.map_nil, List.nil_append,
      List.length_cons, List.map_cons, sum_cons, F.num_sub, F.num_div, F.num_add, F.num_mul]
    congr 1
    · congr 1; grind
    · congr 1; grind
  | cons y ys =>
    have hn := natCast_ne_zero_of_cons y ys
    have hlen : (((y :: ys) ++ [x]).length : Nat) = (y :: ys).length + 1 := by simp
    have hc : ((((y :: ys).length + 1 : Nat)) : Rat) = (((y :: ys).length : Nat) : Rat) + 1 := by grind
    have hn1 : (((y :: ys).length : Nat) : Rat) + 1 ≠ 0 := by
      have : (0 : Rat) ≤ (((y :: ys).length : Nat) : Rat) := Rat.natCast_nonneg
      grind
    simp only [wStep, wState, F.num_sub, F.num_div, F.num_add, F.num_mul, sum_append, sumSq_append_single,
      sum_cons, sum_nil, hlen, hc]
    generalize sum (y :: ys) = S1 at *
    generalize sumSq (y :: ys) = S2 at *
    generalize (((y :: ys).length : Nat) : Rat) = n at *
    congr 1
    · congr 1; grind
    · congr 1; grind

theorem foldl_wStep_num (rest pre : List Rat) :
    (rest.map F.num).foldl wStep (wState pre) = wState (pre ++ rest) := by
  induction rest generalizing pre with
  | nil => simp
  | cons x xs ih =>
    simp only [List.map_cons, List.foldl_cons, wStep_wState]
    rw [ih]; simp

theorem wState_nil : wState [] = { n := 0, mean := .num 0, m2 := .num 0 } := by
  simp only [wState, List.length_nil, sum_nil, sumSq, List.map_nil]
  congr 1
  · congr 1; grind
  · congr 1; grind

/-- on numbers, the loop ends in `n = length`, `mean = Σx/n`, `m2 = Σx² − (Σx)²/n` -/
theorem welford_num (l : List Rat) : welford (l.map F.num) = wState l := by
  rw [welford, ← wState_nil, foldl_wStep_num]; simp

theorem sum_sq_dev (l : List Rat) (mu : Rat) :
    sum (l.map fun x => (x - mu) * (x - mu)) = sumSq l - 2 * mu * sum l + (l.length : Nat) * mu * mu := by
  induction l with
  | nil => simp [sumSq, sum]; grind
  | cons x xs ih =>
    have hc : (((x :: xs).length : Nat) : Rat) = ((xs.length : Nat) : Rat) + 1 := by
      simp only [List.length_cons]; grind
    simp only [List.map_cons, sum_cons, ih, sumSq, hc] at *
    grind

/-- `m2/(n−1)` of the final Welford state is the sample variance -/
theorem wState_variance (l : List Rat) (h : 2 ≤ l.length) :
    (sumSq l - sum l * sum l / (l.length : Nat)) / ((l.length - 1 : Nat) : Rat) = sampleVar l := by
  unfold sampleVar
  simp only
  rw [sum_sq_dev]
  have hn : ((l.length : Nat) : Rat) ≠ 0 := by
    intro h0
    have := Rat.natCast_eq_zero_iff.mp h0
    omega
  congr 1
  generalize sum l = S1 at *
  generalize sumSq l = S2 at *
  generalize ((l.length : Nat) : Rat) = n at *
  grind

theorem welford_n (xs : List F) (w : W) : (xs.foldl wStep w).n = w.n + xs.length := by
  induction xs generalizing w with
  | nil => simp
  | cons x rest ih => simp only [List.foldl_cons, ih, wStep, List.length_cons]; omega

theorem foldl_wStep_nan (xs : List F) (w : W) (h1 : w.mean = .nan) (h2 : w.m2 = .nan) :
    (xs.foldl wStep w).m2 = .nan := by
  induction xs generalizing w with
  | nil => simpa using h2
  | cons x rest ih =>
    simp only [List.foldl_cons]
    apply ih <;> simp [wStep, h1, h2]

/-- a NaN anywhere among the numeric values makes `m2` NaN (the loop does not filter) -/
theorem welford_nan (xs : List F) (w : W) (h : F.nan ∈ xs) : (xs.foldl wStep w).m2 = .nan := by
  induction xs generalizing w with
  | nil => simp at h
  | cons x rest ih =>
    simp only [List.foldl_cons]
    rcases List.mem_cons.mp h with e | e
    · subst e
      apply foldl_wStep_nan <;> simp [wStep]
    · exact ih _ e

/-! ### EMA -/

theorem foldl_emaStep_num (k : Rat) (rest : List Rat) (acc : Rat) :
    (rest.map F.num).foldl (emaStep (.num k)) (some (.num acc))
      = some (.num ((1 - k) ^ rest.length * acc + emaWeighted k rest)) := by
  induction rest generalizing acc with
  | nil => simp [emaWeighted]; grind
  | cons x xs ih =>
    simp only [List.map_cons, List.foldl_cons, emaStep, F.num_mul, F.num_sub, F.num_add, ih,
      List.length_cons, emaWeighted]
    congr 2
    grind

/-- on numbers the EMA loop computes the closed form -/
theorem ema_num (k : Rat) (l : List Rat) :
    (l.map F.num).foldl (emaStep (.num k)) none = (emaClosed k l).map F.num := by
  cases l with
  | nil => rfl
  | cons x xs =>
    simp only [List.map_cons, List.foldl_cons, emaStep, foldl_emaStep_num, emaClosed, Option.map_some]

theorem foldl_emaStep_nan (k : F) (xs : List F) : xs.foldl (emaStep k) (some .nan) = some .nan := by
  induction xs with
  | nil => rfl
  | cons x rest ih => simp only [List.foldl_cons, emaStep, F.nan_mul, F.add_nan, ih]

theorem ema_nan (k : F) (xs : List F) (acc : Option F) (h : F.nan ∈ xs) :
    xs.foldl (emaStep k) acc = some .nan := by
  induction xs generalizing acc with
  | nil => simp at h
  | cons x rest ih =>
    simp only [List.foldl_cons]
    rcases List.mem_cons.mp h with e | e
    · subst e
      cases acc with
      | none => simp only [emaStep]; exact foldl_emaStep_nan k rest
      | some p => simp only [emaStep, F.nan_mul, F.nan_add]; exact foldl_emaStep_nan k rest
    · exact ih _ e

/-! ### count_distinct -/

theorem distinct_cond (x : Val) (seen : List Val) :
    (x == Val.missing || seen.contains x) = true ↔ (x = .missing ∨ x ∈ seen) := by
  simp

theorem distinct_fold (vs : List Val) (seen : List Val) (hnd : seen.Nodup) (hm : Val.missing ∉ seen) :
    let r := vs.foldl (fun seen v => if v == .missing || seen.contains v then seen else seen ++ [v]) seen
    r.Nodup ∧ Val.missing ∉ r ∧ ∀ v, v ∈ r ↔ (v ∈ seen ∨ (v ∈ vs ∧ v ≠ .missing)) := by
  induction vs generalizing seen with
  | nil => simp [hnd, hm]
  | cons x rest ih =>
    simp only [List.foldl_cons]
    by_cases hx : x = .missing ∨ x ∈ seen
    · have hc := (distinct_cond x seen).mpr hx
      simp only [hc, if_true]
      obtain ⟨h1, h2, h3⟩ := ih seen hnd hm
      refine ⟨h1, h2, fun v => ?_⟩
      rw [h3 v]
      simp only [List.mem_cons]
      grind
    · have hc : (x == Val.missing || seen.contains x) = false := by
        cases h : (x == Val.missing || seen.contains x) with
        | false => rfl
        | true => exact absurd ((distinct_cond x seen).mp h) hx
      simp only [hc, Bool.false_eq_true, if_false]
      have hxm : x ≠ .missing := fun e => hx (Or.inl e)
      have hxs : x ∉ seen := fun e => hx (Or.inr e)
      have hnd' : (seen ++ [x]).Nodup := by
        rw [List.nodup_append]
        refine ⟨hnd, by simp, ?_⟩
        intro a ha b hb
        simp only [List.mem_singleton] at hb
        subst hb
        intro e; subst e; exact hxs ha
      have hm' : Val.missing ∉ seen ++ [x] := by
        simp only [List.mem_append, List.mem_singleton, not_or]
        exact ⟨hm, fun e => hxm e.symm⟩
      obtain ⟨h1, h2, h3⟩ := ih (seen ++ [x]) hnd' hm'
      refine ⟨h1, h2, fun v => ?_⟩
      rw [h3 v]
      simp only [List.mem_append, List.mem_singleton, List.mem_cons]
      grind

/-! ### the variance is non-negative (its square root is defined) -/

theorem mul_self_nonneg (x : Rat) : 0 ≤ x * x := by
  rcases (Rat.le_total : 0 ≤ x ∨ x ≤ 0) with h | h
  · exact Rat.mul_nonneg h h
  · have : 0 ≤ (-x) * (-x) := Rat.mul_nonneg (by grind) (by grind)
    grind

theorem sum_nonneg (l : List Rat) (h : ∀ x ∈ l, 0 ≤ x) : 0 ≤ sum l := by
  induction l with
  | nil => simp [sum]
  | cons x xs ih =>
    rw [sum_cons]
    exact Rat.add_nonneg (h x (by simp)) (ih (fun y hy => h y (List.mem_cons_of_mem _ hy)))

theorem div_nonneg (a b : Rat) (ha : 0 ≤ a) (hb : 0 ≤ b) : 0 ≤ a / b := by
  rw [Rat.div_def]
  exact Rat.mul_nonneg ha (Lean.Grind.Field.IsOrdered.inv_nonneg_iff.mpr hb)

theorem sampleVar_nonneg (l : List Rat) : 0 ≤ sampleVar l := by
  unfold sampleVar
  apply div_nonneg
  · apply sum_nonneg
    intro x hx
    obtain ⟨y, _, rfl⟩ := List.mem_map.mp hx
    exact mul_self_nonneg _
  · exact Rat.natCast_nonneg

/-! ### NaN-free inputs -/

theorem floats_of_no_nan (vs : List Val) (h : Val.nan ∉ vs) : floats vs = (valid vs).map F.num := by
  induction vs with
  | nil => rfl
  | cons v rest ih =>
    have hr : Val.nan ∉ rest := fun e => h (List.mem_cons_of_mem _ e)
    have hv : v ≠ Val.nan := fun e => h (by simp [e])
    simp only [floats, valid] at ih ⊢
    cases v with
    | nan => exact absurd rfl hv
    | missing => rw [List.filterMap_cons_none (by rfl), List.filterMap_cons_none (by rfl)]; exact ih hr
    | nonNum t => rw [List.filterMap_cons_none (by rfl), List.filterMap_cons_none (by rfl)]; exact ih hr
    | int i =>
      rw [List.filterMap_cons_some (b := F.num i) (by rfl), List.filterMap_cons_some (b := (i : Rat)) (by rfl),
        List.map_cons, ih hr]
    | flt q =>
      rw [List.filterMap_cons_some (b := F.num q) (by rfl), List.filterMap_cons_some (b := q) (by rfl),
        List.map_cons, ih hr]

theorem nan_mem_floats (vs : List Val) (h : Val.nan ∈ vs) : F.nan ∈ floats vs := by
  simp only [floats, List.mem_filterMap]
  exact ⟨Val.nan, h, rfl⟩

end Varpulis.Agg
