import Varpulis.Lemmas.ZddTable
/-!
# The caches of the table model are functional: no key is ever inserted twice

`FxHashMap::insert` replaces, the model conses and `get` = first match — the same lookup semantics even
with duplicate keys. This file shows that duplicates never arise in the four persistent caches
(`union_cache`, `intersection_cache`, `difference_cache`, `count_cache`): a key is inserted only after a
miss on it, and everything inserted between the miss and the insert belongs to recursive calls on refs
of strictly smaller rank (node ids). Hence the association lists are maps, and their lengths are the
`len()` of the Rust maps (`GcStats.cache_entries_cleared`, `ArenaStats`).
-/
namespace Varpulis.ZddT
open Varpulis.Zdd

/-- keys of an association list -/
def keys {α β : Type} (c : List (α × β)) : List α := c.map (·.1)

/-- rank sum of a cache key -/
def rs (k : Ref × Ref) : Nat := k.1.rank + k.2.rank

/-- `c'` is `c` with new entries in front, all of key rank ≤ R, and no key was inserted twice
(`rk` = rank of a key: the recursions only insert keys of smaller rank than the key they are computing) -/
def Grows {κ β : Type} (rk : κ → Nat) (R : Nat) (c c' : List (κ × β)) : Prop :=
  ∃ new, c' = new ++ c ∧ (∀ e ∈ new, rk e.1 ≤ R) ∧ ((keys c).Nodup → (keys c').Nodup)

section
variable {κ β : Type} {rk : κ → Nat}

theorem Grows.refl (R : Nat) (c : List (κ × β)) : Grows rk R c c := ⟨[], rfl, by simp, id⟩

theorem Grows.nodup {R : Nat} {c c' : List (κ × β)} (h : Grows rk R c c') (hn : (keys c).Nodup) : (keys c').Nodup := by
  obtain ⟨_, _, _, d⟩ := h; exact d hn

theorem Grows.mono {R R' : Nat} {c c' : List (κ × β)} (h : Grows rk R c c') (hr : R ≤ R') : Grows rk R' c c' := by
  obtain ⟨n, e, b, d⟩ := h
  exact ⟨n, e, fun x hx => Nat.le_trans (b x hx) hr, d⟩

theorem Grows.trans {R : Nat} {c c1 c2 : List (κ × β)} (h1 : Grows rk R c c1) (h2 : Grows rk R c1 c2) : Grows rk R c c2 := by
  obtain ⟨n1, e1, b1, d1⟩ := h1
  obtain ⟨n2, e2, b2, d2⟩ := h2
  refine ⟨n2 ++ n1, by rw [e2, e1, List.append_assoc], ?_, fun h => d2 (d1 h)⟩
  intro x hx
  rcases List.mem_append.1 hx with h | h
  · exact b2 x h
  · exact b1 x h

/-- `cache.insert(key, r)` after a miss on `key` in `c`, when everything inserted since has a smaller rank -/
theorem Grows.insert [BEq κ] [LawfulBEq κ] {R R' : Nat} {c c1 : List (κ × β)} {k : κ} {r : β} (h : Grows rk R' c c1)
    (hlt : R' < rk k) (hle : rk k ≤ R) (hmiss : c.lookup k = none) : Grows rk R c ((k, r) :: c1) := by
  obtain ⟨n, e, b, d⟩ := h
  refine ⟨(k, r) :: n, by rw [e]; rfl, ?_, ?_⟩
  · intro x hx
    rcases List.mem_cons.1 hx with rfl | hx
    · exact hle
    · exact Nat.le_trans (Nat.le_of_lt (Nat.lt_of_le_of_lt (b x hx) hlt)) hle
  · intro hnd
    have hnd1 := d hnd
    simp only [keys, List.map_cons, List.nodup_cons] at hnd1 ⊢
    refine ⟨?_, hnd1⟩
    rw [e, List.map_append, List.mem_append]
    rintro (hm | hm)
    · obtain ⟨x, hx, rfl⟩ := List.mem_map.1 hm
      have := b x hx; omega
    · obtain ⟨x, hx, hk⟩ := List.mem_map.1 hm
      have := List.lookup_eq_none_iff.1 hmiss x hx
      simp [hk] at this
end

theorem norm_rs (a b : Ref) : rs (norm a b) = a.rank + b.rank := by
  simp only [norm, rs]; split <;> simp <;> omega

theorem norm_facts {t : Table} {a b a' b' : Ref} (hn : norm a b = (a', b')) (hae : a ≠ .E) (hbe : b ≠ .E) (hab : a ≠ b)
    (ha : Valid t a) (hb : Valid t b) :
    Valid t a' ∧ Valid t b' ∧ a'.rank + b'.rank = a.rank + b.rank ∧
    ((a' = .B ∧ ∃ j, b' = .N j) ∨ ∃ i j, a' = .N i ∧ b' = .N j ∧ i ≠ j) := by
  obtain ⟨h1, h2⟩ := norm_cases hae hbe hab
  have h3 := norm_rs a b
  rw [hn] at h1 h2 h3
  refine ⟨?_, ?_, h3, h2⟩
  · rcases h1 with e | e <;> cases e <;> assumption
  · rcases h1 with e | e <;> cases e <;> assumption

theorem unionT_grows : ∀ (fuel : Nat) (t : Table) (c : Cache2) (a b : Ref), TWF t → Cache2OK union t c →
    Valid t a → Valid t b → a.rank + b.rank < fuel →
    ∀ t' c' r, unionT fuel t c a b = some (t', c', r) → Grows rs (a.rank + b.rank) c c' := by
  intro fuel
  induction fuel with
  | zero => intro t c a b _ _ _ _ h; omega
  | succ fuel ih =>
    intro t c a b hw hc ha hb hf t' c' r h
    rw [unionT] at h
    by_cases hae : a = .E
    · simp only [hae, if_true, Option.some.injEq, Prod.mk.injEq] at h; obtain ⟨_, rfl, _⟩ := h; exact Grows.refl _ _
    by_cases hbe : b = .E
    · simp only [hae, hbe, if_true, if_false, Option.some.injEq, Prod.mk.injEq] at h; obtain ⟨_, rfl, _⟩ := h; exact Grows.refl _ _
    by_cases hab : a = b
    · simp only [hbe, hab, if_true, if_false, Option.some.injEq, Prod.mk.injEq] at h; obtain ⟨_, rfl, _⟩ := h; exact Grows.refl _ _
    simp only [hae, hbe, hab, if_false] at h
    generalize hn : norm a b = nb at h
    obtain ⟨a', b'⟩ := nb
    obtain ⟨ha', hb', hrs, hshape⟩ := norm_facts hn hae hbe hab ha hb
    rw [← hrs]
    simp only at h
    cases hlk : c.lookup (a', b') with
    | some r0 => simp only [hlk, Option.some.injEq, Prod.mk.injEq] at h; obtain ⟨_, rfl, _⟩ := h; exact Grows.refl _ _
    | none =>
      simp only [hlk] at h
      rcases hshape with ⟨rfl, j, rfl⟩ | ⟨i, j, rfl, rfl, hij⟩
      · obtain ⟨y, hy⟩ := get_of_valid hb'
        have hcy := hw.toBelow.child_valid hy
        have hby := hw.below hy
        simp only [rank_B, rank_N] at hrs hf ⊢
        obtain ⟨t1, c1, nlo, e1, _⟩ := unionT_spec fuel t c .B y.lo hw hc (valid_B _) hcy.1 (by simp only [rank_B]; omega)
        have g1 := ih t c .B y.lo hw hc (valid_B _) hcy.1 (by simp only [rank_B]; omega) _ _ _ e1
        simp [nodeInfo, hy, e1] at h
        obtain ⟨_, rfl, _⟩ := h
        exact Grows.insert g1 (by simp only [rs, rank_B, rank_N]; omega) (by simp [rs]) hlk
      · obtain ⟨x, hx⟩ := get_of_valid ha'
        obtain ⟨y, hy⟩ := get_of_valid hb'
        have hcx := hw.toBelow.child_valid hx
        have hbx := hw.below hx
        have hcy := hw.toBelow.child_valid hy
        have hby := hw.below hy
        simp only [rank_N] at hrs hf ⊢
        simp only [nodeInfo, hx, hy] at h
        rcases Nat.lt_trichotomy x.v y.v with hlt | heq | hgt
        · obtain ⟨t1, c1, nlo, e1, _⟩ := unionT_spec fuel t c x.lo (.N j) hw hc hcx.1 hb' (by simp only [rank_N]; omega)
          have g1 := ih t c x.lo (.N j) hw hc hcx.1 hb' (by simp only [rank_N]; omega) _ _ _ e1
          simp [hlt, e1] at h
          obtain ⟨_, rfl, _⟩ := h
          exact Grows.insert g1 (by simp only [rs, rank_N]; omega) (by simp [rs]) hlk
        · obtain ⟨t1, c1, nlo, e1, x1, w1, k1, _⟩ := unionT_spec fuel t c x.lo y.lo hw hc hcx.1 hcy.1 (by omega)
          have g1 := ih t c x.lo y.lo hw hc hcx.1 hcy.1 (by omega) _ _ _ e1
          obtain ⟨t2, c2, nhi, e2, _⟩ := unionT_spec fuel t1 c1 x.hi y.hi w1 k1 (x1.valid hcx.2) (x1.valid hcy.2) (by omega)
          have g2 := ih t1 c1 x.hi y.hi w1 k1 (x1.valid hcx.2) (x1.valid hcy.2) (by omega) _ _ _ e2
          simp [heq, e1, e2] at h
          obtain ⟨_, rfl, _⟩ := h
          have g12 : Grows rs (i + j) c c2 := (g1.mono (by omega)).trans (g2.mono (by omega))
          exact Grows.insert g12 (by simp only [rs, rank_N]; omega) (by simp [rs]) hlk
        · obtain ⟨t1, c1, nlo, e1, _⟩ := unionT_spec fuel t c (.N i) y.lo hw hc ha' hcy.1 (by simp only [rank_N]; omega)
          have g1 := ih t c (.N i) y.lo hw hc ha' hcy.1 (by simp only [rank_N]; omega) _ _ _ e1
          simp [Nat.lt_asymm hgt, hgt, e1] at h
          obtain ⟨_, rfl, _⟩ := h
          exact Grows.insert g1 (by simp only [rs, rank_N]; omega) (by simp [rs]) hlk

theorem interT_grows : ∀ (fuel : Nat) (t : Table) (c : Cache2) (a b : Ref), TWF t → Cache2OK inter t c →
    Valid t a → Valid t b → a.rank + b.rank < fuel →
    ∀ t' c' r, interT fuel t c a b = some (t', c', r) → Grows rs (a.rank + b.rank) c c' := by
  intro fuel
  induction fuel with
  | zero => intro t c a b _ _ _ _ h; omega
  | succ fuel ih =>
    intro t c a b hw hc ha hb hf t' c' r h
    rw [interT] at h
    by_cases hae : a = .E
    · simp only [hae, true_or, if_true, Option.some.injEq, Prod.mk.injEq] at h; obtain ⟨_, rfl, _⟩ := h; exact Grows.refl _ _
    by_cases hbe : b = .E
    · simp only [hbe, or_true, if_true, Option.some.injEq, Prod.mk.injEq] at h; obtain ⟨_, rfl, _⟩ := h; exact Grows.refl _ _
    by_cases hab : a = b
    · simp only [hbe, hab, or_self, if_true, if_false, Option.some.injEq, Prod.mk.injEq] at h; obtain ⟨_, rfl, _⟩ := h; exact Grows.refl _ _
    simp only [hae, hbe, hab, or_self, if_false] at h
    generalize hn : norm a b = nb at h
    obtain ⟨a', b'⟩ := nb
    obtain ⟨ha', hb', hrs, hshape⟩ := norm_facts hn hae hbe hab ha hb
    rw [← hrs]
    simp only at h
    cases hlk : c.lookup (a', b') with
    | some r0 => simp only [hlk, Option.some.injEq, Prod.mk.injEq] at h; obtain ⟨_, rfl, _⟩ := h; exact Grows.refl _ _
    | none =>
      simp only [hlk] at h
      rcases hshape with ⟨rfl, j, rfl⟩ | ⟨i, j, rfl, rfl, hij⟩
      · obtain ⟨y, hy⟩ := get_of_valid hb'
        have hcy := hw.toBelow.child_valid hy
        have hby := hw.below hy
        simp only [rank_B, rank_N] at hrs hf ⊢
        obtain ⟨t1, c1, nlo, e1, _⟩ := interT_spec fuel t c .B y.lo hw hc (valid_B _) hcy.1 (by simp only [rank_B]; omega)
        have g1 := ih t c .B y.lo hw hc (valid_B _) hcy.1 (by simp only [rank_B]; omega) _ _ _ e1
        simp [nodeInfo, hy, e1] at h
        obtain ⟨_, rfl, _⟩ := h
        exact Grows.insert g1 (by simp only [rs, rank_B, rank_N]; omega) (by simp [rs]) hlk
      · obtain ⟨x, hx⟩ := get_of_valid ha'
        obtain ⟨y, hy⟩ := get_of_valid hb'
        have hcx := hw.toBelow.child_valid hx
        have hbx := hw.below hx
        have hcy := hw.toBelow.child_valid hy
        have hby := hw.below hy
        simp only [rank_N] at hrs hf ⊢
        simp only [nodeInfo, hx, hy] at h
        rcases Nat.lt_trichotomy x.v y.v with hlt | heq | hgt
        · obtain ⟨t1, c1, nlo, e1, _⟩ := interT_spec fuel t c x.lo (.N j) hw hc hcx.1 hb' (by simp only [rank_N]; omega)
          have g1 := ih t c x.lo (.N j) hw hc hcx.1 hb' (by simp only [rank_N]; omega) _ _ _ e1
          simp [hlt, e1] at h
          obtain ⟨_, rfl, _⟩ := h
          exact Grows.insert g1 (by simp only [rs, rank_N]; omega) (by simp [rs]) hlk
        · obtain ⟨t1, c1, nlo, e1, x1, w1, k1, _⟩ := interT_spec fuel t c x.lo y.lo hw hc hcx.1 hcy.1 (by omega)
          have g1 := ih t c x.lo y.lo hw hc hcx.1 hcy.1 (by omega) _ _ _ e1
          obtain ⟨t2, c2, nhi, e2, _⟩ := interT_spec fuel t1 c1 x.hi y.hi w1 k1 (x1.valid hcx.2) (x1.valid hcy.2) (by omega)
          have g2 := ih t1 c1 x.hi y.hi w1 k1 (x1.valid hcx.2) (x1.valid hcy.2) (by omega) _ _ _ e2
          simp [heq, e1, e2] at h
          obtain ⟨_, rfl, _⟩ := h
          have g12 : Grows rs (i + j) c c2 := (g1.mono (by omega)).trans (g2.mono (by omega))
          exact Grows.insert g12 (by simp only [rs, rank_N]; omega) (by simp [rs]) hlk
        · obtain ⟨t1, c1, nlo, e1, _⟩ := interT_spec fuel t c (.N i) y.lo hw hc ha' hcy.1 (by simp only [rank_N]; omega)
          have g1 := ih t c (.N i) y.lo hw hc ha' hcy.1 (by simp only [rank_N]; omega) _ _ _ e1
          simp [Nat.lt_asymm hgt, hgt, e1] at h
          obtain ⟨_, rfl, _⟩ := h
          exact Grows.insert g1 (by simp only [rs, rank_N]; omega) (by simp [rs]) hlk

theorem diffT_grows : ∀ (fuel : Nat) (t : Table) (c : Cache2) (a b : Ref), TWF t → Cache2OK diff t c →
    Valid t a → Valid t b → a.rank + b.rank < fuel →
    ∀ t' c' r, diffT fuel t c a b = some (t', c', r) → Grows rs (a.rank + b.rank) c c' := by
  intro fuel
  induction fuel with
  | zero => intro t c a b _ _ _ _ h; omega
  | succ fuel ih =>
    intro t c a b hw hc ha hb hf t' c' r h
    rw [diffT] at h
    by_cases hae : a = .E
    · simp only [hae, if_true, Option.some.injEq, Prod.mk.injEq] at h; obtain ⟨_, rfl, _⟩ := h; exact Grows.refl _ _
    by_cases hbe : b = .E
    · simp only [hae, hbe, if_true, if_false, Option.some.injEq, Prod.mk.injEq] at h; obtain ⟨_, rfl, _⟩ := h; exact Grows.refl _ _
    by_cases hab : a = b
    · simp only [hbe, hab, if_true, if_false, Option.some.injEq, Prod.mk.injEq] at h; obtain ⟨_, rfl, _⟩ := h; exact Grows.refl _ _
    simp only [hae, hbe, hab, if_false] at h
    cases hlk : c.lookup (a, b) with
    | some r0 => simp only [hlk, Option.some.injEq, Prod.mk.injEq] at h; obtain ⟨_, rfl, _⟩ := h; exact Grows.refl _ _
    | none =>
      simp only [hlk] at h
      cases a with
      | E => exact absurd rfl hae
      | B =>
        cases b with
        | E => exact absurd rfl hbe
        | B => exact absurd rfl hab
        | N j =>
          obtain ⟨y, hy⟩ := get_of_valid hb
          have hcy := hw.toBelow.child_valid hy
          have hby := hw.below hy
          simp only [rank_B, rank_N] at hf ⊢
          obtain ⟨t1, c1, nlo, e1, _⟩ := diffT_spec fuel t c .B y.lo hw hc (valid_B _) hcy.1 (by simp only [rank_B]; omega)
          have g1 := ih t c .B y.lo hw hc (valid_B _) hcy.1 (by simp only [rank_B]; omega) _ _ _ e1
          simp [nodeInfo, hy, e1] at h
          obtain ⟨_, rfl, _⟩ := h
          exact Grows.insert g1 (by simp only [rs, rank_B, rank_N]; omega) (by simp [rs]) hlk
      | N i =>
        obtain ⟨x, hx⟩ := get_of_valid ha
        have hcx := hw.toBelow.child_valid hx
        have hbx := hw.below hx
        cases b with
        | E => exact absurd rfl hbe
        | B =>
          simp only [rank_B, rank_N] at hf ⊢
          obtain ⟨t1, c1, nlo, e1, _⟩ := diffT_spec fuel t c x.lo .B hw hc hcx.1 (valid_B _) (by simp only [rank_B]; omega)
          have g1 := ih t c x.lo .B hw hc hcx.1 (valid_B _) (by simp only [rank_B]; omega) _ _ _ e1
          simp [nodeInfo, hx, e1] at h
          obtain ⟨_, rfl, _⟩ := h
          exact Grows.insert g1 (by simp only [rs, rank_B, rank_N]; omega) (by simp [rs]) hlk
        | N j =>
          obtain ⟨y, hy⟩ := get_of_valid hb
          have hcy := hw.toBelow.child_valid hy
          have hby := hw.below hy
          simp only [rank_N] at hf ⊢
          simp only [nodeInfo, hx, hy] at h
          rcases Nat.lt_trichotomy x.v y.v with hlt | heq | hgt
          · obtain ⟨t1, c1, nlo, e1, _⟩ := diffT_spec fuel t c x.lo (.N j) hw hc hcx.1 hb (by simp only [rank_N]; omega)
            have g1 := ih t c x.lo (.N j) hw hc hcx.1 hb (by simp only [rank_N]; omega) _ _ _ e1
            simp [hlt, e1] at h
            obtain ⟨_, rfl, _⟩ := h
            exact Grows.insert g1 (by simp only [rs, rank_N]; omega) (by simp [rs]) hlk
          · obtain ⟨t1, c1, nlo, e1, x1, w1, k1, _⟩ := diffT_spec fuel t c x.lo y.lo hw hc hcx.1 hcy.1 (by omega)
            have g1 := ih t c x.lo y.lo hw hc hcx.1 hcy.1 (by omega) _ _ _ e1
            obtain ⟨t2, c2, nhi, e2, _⟩ := diffT_spec fuel t1 c1 x.hi y.hi w1 k1 (x1.valid hcx.2) (x1.valid hcy.2) (by omega)
            have g2 := ih t1 c1 x.hi y.hi w1 k1 (x1.valid hcx.2) (x1.valid hcy.2) (by omega) _ _ _ e2
            simp [heq, e1, e2] at h
            obtain ⟨_, rfl, _⟩ := h
            have g12 : Grows rs (i + j) c c2 := (g1.mono (by omega)).trans (g2.mono (by omega))
            exact Grows.insert g12 (by simp only [rs, rank_N]; omega) (by simp [rs]) hlk
          · obtain ⟨t1, c1, nlo, e1, _⟩ := diffT_spec fuel t c (.N i) y.lo hw hc ha hcy.1 (by simp only [rank_N]; omega)
            have g1 := ih t c (.N i) y.lo hw hc ha hcy.1 (by simp only [rank_N]; omega) _ _ _ e1
            simp [Nat.lt_asymm hgt, hgt, e1] at h
            obtain ⟨_, rfl, _⟩ := h
            exact Grows.insert g1 (by simp only [rs, rank_N]; omega) (by simp [rs]) hlk

theorem countT_grows : ∀ (fuel : Nat) (t : Table) (cc : CacheN) (a : Ref), TWF t → CacheNOK t cc → Valid t a →
    a.rank ≤ fuel → ∀ cc' k, countT fuel t cc a = some (cc', k) → Grows Ref.rank a.rank cc cc' := by
  intro fuel
  induction fuel with
  | zero =>
    intro t cc a hw hc ha hf cc' k h
    cases a with
    | E => simp [countT] at h; obtain ⟨rfl, _⟩ := h; exact Grows.refl _ _
    | B => simp [countT] at h; obtain ⟨rfl, _⟩ := h; exact Grows.refl _ _
    | N i => simp at hf
  | succ fuel ih =>
    intro t cc a hw hc ha hf cc' k h
    cases a with
    | E => simp [countT] at h; obtain ⟨rfl, _⟩ := h; exact Grows.refl _ _
    | B => simp [countT] at h; obtain ⟨rfl, _⟩ := h; exact Grows.refl _ _
    | N i =>
      simp only [rank_N] at hf ⊢
      rw [countT] at h
      cases hlk : cc.lookup (.N i) with
      | some k0 => simp only [hlk, Option.some.injEq, Prod.mk.injEq] at h; obtain ⟨rfl, _⟩ := h; exact Grows.refl _ _
      | none =>
        obtain ⟨n, hn⟩ := get_of_valid ha
        have hcn := hw.toBelow.child_valid hn
        have hbn := hw.below hn
        obtain ⟨cc1, k1, e1, c1, _⟩ := countT_spec fuel t cc n.lo hw hc hcn.1 (by omega)
        have g1 := ih t cc n.lo hw hc hcn.1 (by omega) _ _ e1
        obtain ⟨cc2, k2, e2, _, _⟩ := countT_spec fuel t cc1 n.hi hw c1 hcn.2 (by omega)
        have g2 := ih t cc1 n.hi hw c1 hcn.2 (by omega) _ _ e2
        simp [hlk, hn, e1, e2] at h
        obtain ⟨rfl, _⟩ := h
        have g12 : Grows Ref.rank i cc cc2 := (g1.mono (by omega)).trans (g2.mono (by omega))
        exact Grows.insert g12 (by simp) (by simp) hlk

/-- `product_with_optional_rec` never inserts a union-cache key twice either -/
theorem pwoT_ucache_nodup (var : Nat) : ∀ (fuel : Nat) (t : Table) (uc : Cache2) (pc : Cache1) (a : Ref),
    TWF t → Cache2OK union t uc → Cache1OK var t pc → Valid t a → a.rank ≤ fuel →
    ∀ t' uc' pc' r, pwoT true fuel t uc pc a var = some (t', uc', pc', r) → (keys uc).Nodup → (keys uc').Nodup := by
  intro fuel
  induction fuel with
  | zero =>
    intro t uc pc a hw hu hp ha hf t' uc' pc' r h hn
    cases a with
    | E => simp [pwoT] at h; obtain ⟨_, rfl, _⟩ := h; exact hn
    | B => simp [pwoT] at h; obtain ⟨_, rfl, _⟩ := h; exact hn
    | N i => simp at hf
  | succ fuel ih =>
    intro t uc pc a hw hu hp ha hf t' uc' pc' r h hn
    cases a with
    | E => simp [pwoT] at h; obtain ⟨_, rfl, _⟩ := h; exact hn
    | B => simp [pwoT] at h; obtain ⟨_, rfl, _⟩ := h; exact hn
    | N i =>
      simp only [rank_N] at hf
      rw [pwoT] at h
      cases hlk : pc.lookup (.N i) with
      | some r0 => simp only [hlk, Option.some.injEq, Prod.mk.injEq] at h; obtain ⟨_, rfl, _⟩ := h; exact hn
      | none =>
        obtain ⟨n, hnn⟩ := get_of_valid ha
        have hcn := hw.toBelow.child_valid hnn
        have hbn := hw.below hnn
        by_cases hlt : n.v < var
        · obtain ⟨t1, uc1, pc1, nlo, e1, x1, w1, u1, p1, _⟩ := pwoT_spec true var fuel t uc pc n.lo hw hu hp hcn.1 (by omega)
          have n1 := ih t uc pc n.lo hw hu hp hcn.1 (by omega) _ _ _ _ e1 hn
          obtain ⟨t2, uc2, pc2, nhi, e2, _⟩ := pwoT_spec true var fuel t1 uc1 pc1 n.hi w1 u1 p1 (x1.valid hcn.2) (by omega)
          have n2 := ih t1 uc1 pc1 n.hi w1 u1 p1 (x1.valid hcn.2) (by omega) _ _ _ _ e2 n1
          simp [hlk, hnn, hlt, e1, e2] at h
          obtain ⟨_, rfl, _⟩ := h
          exact n2
        · by_cases heq : n.v = var
          · obtain ⟨t1, uc1, nhi, e1, _⟩ := unionA_spec hw hu hcn.1 hcn.2
            have g := unionT_grows _ t uc n.lo n.hi hw hu hcn.1 hcn.2 (Nat.lt_succ_self _) _ _ _ e1
            simp [hlk, hnn, heq, e1] at h
            obtain ⟨_, rfl, _⟩ := h
            exact g.nodup hn
          · simp [hlk, hnn, hlt, heq] at h
            obtain ⟨_, rfl, _⟩ := h
            exact hn

/-! ### arena level: every key of every persistent cache occurs once (the association lists are maps) -/

/-- no key occurs twice in any of the four persistent caches -/
structure Arena.KeysNodup (s : Arena) : Prop where
  u : (keys s.ucache).Nodup
  i : (keys s.icache).Nodup
  d : (keys s.dcache).Nodup
  c : (keys s.ccache).Nodup

theorem Arena.keysNodup_empty : Arena.KeysNodup {} := ⟨List.nodup_nil, List.nodup_nil, List.nodup_nil, List.nodup_nil⟩

theorem Arena.union_keys {s : Arena} (hs : s.OK) (hk : s.KeysNodup) {a b : Ref} (ha : Valid s.table a) (hb : Valid s.table b)
    {s' : Arena} {r : Ref} (h : s.union a b = some (s', r)) : s'.KeysNodup := by
  obtain ⟨t', c', r', e, _⟩ := unionA_spec hs.twf hs.u ha hb
  have g := unionT_grows _ _ _ _ _ hs.twf hs.u ha hb (Nat.lt_succ_self _) _ _ _ e
  simp [Arena.union, e] at h
  obtain ⟨rfl, _⟩ := h
  exact ⟨g.nodup hk.u, hk.i, hk.d, hk.c⟩

theorem Arena.inter_keys {s : Arena} (hs : s.OK) (hk : s.KeysNodup) {a b : Ref} (ha : Valid s.table a) (hb : Valid s.table b)
    {s' : Arena} {r : Ref} (h : s.inter a b = some (s', r)) : s'.KeysNodup := by
  obtain ⟨t', c', r', e, _⟩ := interA_spec hs.twf hs.i ha hb
  have g := interT_grows _ _ _ _ _ hs.twf hs.i ha hb (Nat.lt_succ_self _) _ _ _ e
  simp [Arena.inter, e] at h
  obtain ⟨rfl, _⟩ := h
  exact ⟨hk.u, g.nodup hk.i, hk.d, hk.c⟩

theorem Arena.diff_keys {s : Arena} (hs : s.OK) (hk : s.KeysNodup) {a b : Ref} (ha : Valid s.table a) (hb : Valid s.table b)
    {s' : Arena} {r : Ref} (h : s.diff a b = some (s', r)) : s'.KeysNodup := by
  obtain ⟨t', c', r', e, _⟩ := diffA_spec hs.twf hs.d ha hb
  have g := diffT_grows _ _ _ _ _ hs.twf hs.d ha hb (Nat.lt_succ_self _) _ _ _ e
  simp [Arena.diff, e] at h
  obtain ⟨rfl, _⟩ := h
  exact ⟨hk.u, hk.i, g.nodup hk.d, hk.c⟩

theorem Arena.pwo_keys {s : Arena} (hs : s.OK) (hk : s.KeysNodup) {a : Ref} (ha : Valid s.table a) (var : Nat)
    {s' : Arena} {r : Ref} (h : s.pwo a var = some (s', r)) : s'.KeysNodup := by
  obtain ⟨t', uc', pc', r', e, _⟩ :=
    pwoT_spec true var (a.rank + 1) s.table s.ucache [] a hs.twf hs.u (Cache1OK.nil _ _) ha (Nat.le_succ _)
  have g := pwoT_ucache_nodup var _ _ _ _ _ hs.twf hs.u (Cache1OK.nil _ _) ha (Nat.le_succ _) _ _ _ _ e hk.u
  simp [Arena.pwo, e] at h
  obtain ⟨rfl, _⟩ := h
  exact ⟨g, hk.i, hk.d, hk.c⟩

theorem Arena.count_keys {s : Arena} (hs : s.OK) (hk : s.KeysNodup) {a : Ref} (ha : Valid s.table a)
    {s' : Arena} {k : Nat} (h : s.count a = some (s', k)) : s'.KeysNodup := by
  obtain ⟨cc', k', e, _⟩ := countT_spec (a.rank + 1) s.table s.ccache a hs.twf hs.c ha (Nat.le_succ _)
  have g := countT_grows _ _ _ _ hs.twf hs.c ha (Nat.le_succ _) _ _ e
  simp [Arena.count, e] at h
  obtain ⟨rfl, _⟩ := h
  exact ⟨hk.u, hk.i, hk.d, g.nodup hk.c⟩

end Varpulis.ZddT
