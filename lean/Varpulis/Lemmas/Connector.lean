import Varpulis.Model.Connector
import Varpulis.Lemmas.Expand
/-! Lemmas for C39: the grammar rules read a rendered connector declaration back exactly; injection only prepends. -/
namespace Varpulis.Connector
open Varpulis.Expand (isDigit digitVal digitsVal fmtNat canonDigits)

theorem takeWhile_append_stop {α : Type} (p : α → Bool) (l : List α) (c : α) (r : List α)
    (hl : l.all p = true) (hc : p c = false) : (l ++ c :: r).takeWhile p = l := by
  induction l with
  | nil => simp [List.takeWhile, hc]
  | cons a l ih =>
    simp only [List.all_cons, Bool.and_eq_true] at hl
    simp [List.takeWhile, hl.1, ih hl.2]

theorem dropWhile_append_stop {α : Type} (p : α → Bool) (l : List α) (c : α) (r : List α)
    (hl : l.all p = true) (hc : p c = false) : (l ++ c :: r).dropWhile p = c :: r := by
  induction l with
  | nil => simp [List.dropWhile, hc]
  | cons a l ih =>
    simp only [List.all_cons, Bool.and_eq_true] at hl
    simp [List.dropWhile, hl.1, ih hl.2]

theorem lexStringBody_escape (v rest : Text) : lexStringBody (escape v ++ '"' :: rest) = some (v, rest) := by
  induction v with
  | nil => simp [escape, lexStringBody]
  | cons c cs ih =>
    by_cases h1 : c = '\\'
    · subst h1; simp [escape, lexStringBody, ih]
    · by_cases h2 : c = '"'
      · subst h2; simp [escape, lexStringBody, ih]
      · simp only [escape, h1, h2, if_false, List.cons_append]
        rw [lexStringBody.eq_def]
        simp [h1, h2, ih]


/-- a character at which the implicit whitespace/comment skipping stops -/
def stops (c : Char) : Bool := !isWsChar c && c != '#' && c != '/'

theorem skip_stop (c : Char) (r : Text) (h : stops c = true) : skip (c :: r) = c :: r := by
  simp only [stops, Bool.and_eq_true, Bool.not_eq_true', bne_iff_ne, ne_eq] at h
  simp [skip, skipGo, h.1.1, h.1.2, h.2]

theorem skip_nil : skip [] = [] := rfl

theorem skip_space (s : Text) : skip (' ' :: s) = skip s := by
  simp [skip, skipGo, isWsChar]

theorem stops_of_ne (c : Char) (h1 : c ≠ ' ') (h2 : c ≠ '\t') (h3 : c ≠ '\r') (h4 : c ≠ '\n') (h5 : c ≠ '#')
    (h6 : c ≠ '/') : stops c = true := by
  simp [stops, isWsChar, h1, h2, h3, h4, h5, h6]

theorem isIdStart_stops (c : Char) (h : isIdStart c = true) : stops c = true := by
  apply stops_of_ne <;> (intro hc; subst hc; revert h; decide)

theorem isIdChar_of_isIdStart (c : Char) (h : isIdStart c = true) : isIdChar c = true := by
  simp only [isIdStart, isIdChar, Bool.or_eq_true] at *
  rcases h with h | h
  · exact Or.inl (Or.inl h)
  · exact Or.inr h

theorem ident_append (k : Text) (c : Char) (rest : Text) (hk : isIdent k = true) (hc : isIdChar c = false) :
    ident (k ++ c :: rest) = some (k, c :: rest) := by
  cases k with
  | nil => simp [isIdent] at hk
  | cons a k =>
    simp only [isIdent, Bool.and_eq_true] at hk
    simp [ident, hk.1, takeWhile_append_stop isIdChar k c rest hk.2 hc, dropWhile_append_stop isIdChar k c rest hk.2 hc]

theorem lit_append (k : String) (rest : Text) : lit k (k.toList ++ rest) = some rest := by
  have h : k.length = k.toList.length := Eq.symm String.length_toList
  simp [lit, List.isPrefixOf_iff_prefix, h]


/-- the value the grammar reads for a rendered parameter value -/
def cvOf (v : Text) : CV := if isCanonInt v then .int (digitsVal v) else .str v

theorem valueText_cvOf (v : Text) : valueText (cvOf v) = some v := by
  unfold cvOf
  split
  · rename_i h
    simp only [isCanonInt, Bool.and_eq_true] at h
    simp [valueText, Varpulis.Expand.fmtNat_digitsVal v h.1]
  · rfl

theorem isDigit_ne (c : Char) (h : isDigit c = true) : c ≠ '[' ∧ c ≠ '"' := by
  constructor <;> (intro hc; subst hc; revert h; decide)

/-- a delimiter that may follow a parameter value in a rendered declaration -/
def isDelim (d : Char) : Bool := d == ',' || d == ')'

theorem configValue_render (v : Text) (d : Char) (rest : Text) (hd : isDelim d = true) :
    configValue (renderValue v ++ d :: rest) = some (cvOf v, d :: rest) := by
  have hdd : isDigit d = false := by
    simp only [isDelim, Bool.or_eq_true, beq_iff_eq] at hd
    rcases hd with hd | hd <;> (subst hd; decide)
  unfold renderValue cvOf
  by_cases hci : isCanonInt v = true
  · simp only [hci, if_true]
    simp only [isCanonInt, Bool.and_eq_true, decide_eq_true_eq] at hci
    obtain ⟨hcan, hmax⟩ := hci
    have hcan' := hcan
    simp only [canonDigits, Bool.and_eq_true, Bool.not_eq_true'] at hcan'
    obtain ⟨⟨hne, hall⟩, _⟩ := hcan'
    cases v with
    | nil => simp at hne
    | cons c cs =>
      have hc : isDigit c = true := by simp at hall; exact hall.1
      obtain ⟨hn1, hn2⟩ := isDigit_ne c hc
      have htw := takeWhile_append_stop isDigit (c :: cs) d rest hall hdd
      have hdw := dropWhile_append_stop isDigit (c :: cs) d rest hall hdd
      simp only [List.cons_append] at htw hdw ⊢
      unfold configValue
      split
      · rename_i heq; cases heq; exact absurd rfl hn1
      · rename_i heq; cases heq; exact absurd rfl hn2
      · rename_i c' _ _ _ heq
        cases heq
        simp only [hc, if_true, htw, hdw]
        simp only [isDelim, Bool.or_eq_true, beq_iff_eq] at hd
        rcases hd with hd | hd <;> subst hd <;> simp [DUR_UNITS, List.find?, List.isPrefixOf, hmax]
      · rename_i heq; cases heq
  · simp only [hci, Bool.false_eq_true, if_false, List.cons_append, List.append_assoc]
    simp [configValue, lexStringBody_escape]


theorem renderValue_head (v : Text) : ∃ c r, renderValue v = c :: r ∧ stops c = true := by
  unfold renderValue
  split
  · rename_i h
    simp only [isCanonInt, canonDigits, Bool.and_eq_true, Bool.not_eq_true'] at h
    cases v with
    | nil => simp at h
    | cons c cs =>
      refine ⟨c, cs, rfl, ?_⟩
      have hc : isDigit c = true := by have := h.1.1.2; simp at this; exact this.1
      apply stops_of_ne <;> (intro hc'; subst hc'; revert hc; decide)
  · exact ⟨'"', _, rfl, by decide⟩

theorem renderParam_append (p : Text × Text) (x : Text) :
    renderParam p ++ x = p.1 ++ ':' :: ' ' :: (renderValue p.2 ++ x) := by
  simp [renderParam]

theorem joinComma_cons2 (a b : Text) (l : List Text) : joinComma (a :: b :: l) = a ++ ',' :: ' ' :: joinComma (b :: l) := by
  simp [joinComma]

theorem paramsGo_render (ps : List (Text × Text)) (rest : Text) (fuel : Nat) (hf : ps.length ≤ fuel)
    (hne : ps ≠ []) (hk : ∀ p ∈ ps, isIdent p.1 = true) :
    paramsGo fuel (joinComma (ps.map renderParam) ++ ')' :: rest) =
      some (ps.map (fun p => (p.1, cvOf p.2)), ')' :: rest) := by
  induction ps generalizing fuel with
  | nil => exact absurd rfl hne
  | cons p ps ih =>
    cases fuel with
    | zero => simp at hf
    | succ f =>
      have hkp : isIdent p.1 = true := hk p (by simp)
      obtain ⟨vc, vr, hv, hvs⟩ := renderValue_head p.2
      cases ps with
      | nil =>
        simp only [List.map_cons, List.map_nil, joinComma, renderParam_append]
        unfold paramsGo
        rw [ident_append p.1 ':' _ hkp (by decide)]
        simp only [skip_stop ':' _ (by decide)]
        rw [show (':' :: ' ' :: (renderValue p.2 ++ ')' :: rest)) = ":".toList ++ (' ' :: (renderValue p.2 ++ ')' :: rest)) from rfl, lit_append]
        simp only [skip_space]
        rw [hv, List.cons_append, skip_stop vc _ hvs, ← List.cons_append, ← hv, configValue_render p.2 ')' rest (by decide)]
        simp [skip_stop ')' _ (by decide), lit, List.isPrefixOf]
      | cons q ps' =>
        have hkq : isIdent q.1 = true := hk q (by simp)
        have ih' := ih f (by simp at hf ⊢; omega) (by simp) (fun x hx => hk x (by simp at hx ⊢; exact Or.inr hx))
        simp only [List.map_cons, joinComma_cons2, List.append_assoc, List.cons_append, renderParam_append]
        simp only [List.map_cons] at ih'
        unfold paramsGo
        rw [ident_append p.1 ':' _ hkp (by decide)]
        simp only [skip_stop ':' _ (by decide)]
        rw [show (':' :: ' ' :: (renderValue p.2 ++ ',' :: ' ' :: (joinComma (renderParam q :: List.map renderParam ps') ++ ')' :: rest)))
              = ":".toList ++ (' ' :: (renderValue p.2 ++ ',' :: ' ' :: (joinComma (renderParam q :: List.map renderParam ps') ++ ')' :: rest))) from rfl, lit_append]
        simp only [skip_space]
        rw [hv, List.cons_append, skip_stop vc _ hvs, ← List.cons_append, ← hv,
          configValue_render p.2 ',' _ (by decide)]
        simp only [skip_stop ',' _ (by decide)]
        rw [show (',' :: ' ' :: (joinComma (renderParam q :: List.map renderParam ps') ++ ')' :: rest))
              = ",".toList ++ (' ' :: (joinComma (renderParam q :: List.map renderParam ps') ++ ')' :: rest)) from rfl, lit_append]
        simp only [skip_space]
        -- the next parameter starts with its key: skipping stops there
        have hq : ∃ c r, joinComma (renderParam q :: List.map renderParam ps') ++ ')' :: rest = c :: r ∧ stops c = true := by
          cases hq1 : q.1 with
          | nil => simp [hq1, isIdent] at hkq
          | cons a k =>
            have ha : isIdStart a = true := by simp [hq1, isIdent] at hkq; exact hkq.1
            cases ps' with
            | nil => exact ⟨a, _, by simp only [joinComma, renderParam, hq1, List.map_nil, List.cons_append, List.append_assoc]; rfl, isIdStart_stops a ha⟩
            | cons r ps'' => exact ⟨a, _, by simp only [joinComma, renderParam, hq1, List.map_cons, List.cons_append, List.append_assoc]; rfl, isIdStart_stops a ha⟩
        obtain ⟨c, r, hcr, hcs⟩ := hq
        rw [hcr, skip_stop c r hcs, ← hcr, ih']


theorem connectorType_valid (ty : Text) (rest : Text) (h : VALID_TYPES.contains ty = true) :
    connectorType (ty ++ '(' :: rest) = some (ty, '(' :: rest) := by
  simp only [VALID_TYPES, List.map_cons, List.map_nil, List.contains_cons, List.contains_nil,
    Bool.or_false, Bool.or_eq_true, beq_iff_eq] at h
  rcases h with h | h | h | h | h <;> subst h <;>
    simp [connectorType, TYPE_WORDS, List.find?, List.isPrefixOf, ident, isIdStart, isIdChar, isAlpha, List.takeWhile, List.dropWhile,
      (by decide : "mqtt".length = 4), (by decide : "kafka".length = 5), (by decide : "nats".length = 4),
      (by decide : "http".length = 4), (by decide : isDigit '(' = false)]

theorem joinComma_length (ps : List (Text × Text)) : ps.length ≤ (joinComma (ps.map renderParam)).length + 1 := by
  induction ps with
  | nil => simp
  | cons p ps ih =>
    cases ps with
    | nil => simp
    | cons q ps' =>
      simp only [List.map_cons, joinComma_cons2, List.length_append, List.length_cons] at ih ⊢
      omega

theorem connectorDecl_render (c : Connector) (h : validate c = true) :
    connectorDecl (render c) =
      some ({ name := c.name, ctype := c.ctype, params := c.params.map fun p => (p.1, cvOf p.2) }, []) := by
  simp only [validate, Bool.and_eq_true, List.all_eq_true] at h
  obtain ⟨⟨⟨hname, hty⟩, _⟩, hps⟩ := h
  have hk : ∀ p ∈ c.params, isIdent p.1 = true := fun p hp => (hps p hp).1
  unfold render connectorDecl
  simp only [List.append_assoc]
  rw [show "connector ".toList = "connector".toList ++ [' '] from rfl, List.append_assoc, lit_append]
  simp only [show " = ".toList = [' ', '=', ' '] from rfl, List.cons_append, List.nil_append, skip_space]
  -- the name
  cases hn : c.name with
  | nil => simp [hn, isIdent] at hname
  | cons a k =>
    have ha : isIdStart a = true := by simp [hn, isIdent] at hname; exact hname.1
    rw [List.cons_append, skip_stop a _ (isIdStart_stops a ha), ← List.cons_append, ← hn]
    rw [ident_append c.name ' ' _ hname (by decide)]
    simp only [skip_space, skip_stop '=' _ (by decide)]
    rw [show ('=' :: ' ' :: (c.ctype ++ '(' :: (joinComma (List.map renderParam c.params) ++ [')'])))
          = "=".toList ++ (' ' :: (c.ctype ++ '(' :: (joinComma (List.map renderParam c.params) ++ [')']))) from rfl, lit_append]
    simp only [skip_space]
    -- the type
    have hty0 : ∃ t0 tr, c.ctype = t0 :: tr ∧ stops t0 = true := by
      simp only [VALID_TYPES, List.map_cons, List.map_nil, List.contains_cons, List.contains_nil,
        Bool.or_false, Bool.or_eq_true, beq_iff_eq] at hty
      rcases hty with h | h | h | h | h <;> rw [h] <;> exact ⟨_, _, rfl, by decide⟩
    obtain ⟨t0, tr, ht, hts⟩ := hty0
    rw [ht, List.cons_append, skip_stop t0 _ hts, ← List.cons_append, ← ht]
    rw [connectorType_valid c.ctype _ hty]
    simp only [skip_stop '(' _ (by decide)]
    rw [show ('(' :: (joinComma (List.map renderParam c.params) ++ [')']))
          = "(".toList ++ (joinComma (List.map renderParam c.params) ++ [')']) from rfl, lit_append]
    -- the parameters
    cases hp : c.params with
    | nil =>
      simp [joinComma, skip_stop ')' _ (by decide), paramsGo, ident, isIdStart, isAlpha, lit, List.isPrefixOf,
        (by decide : ")".length = 1)]
    | cons p ps =>
      have hkp : isIdent p.1 = true := hk p (by simp [hp])
      have hhead : ∃ x r, joinComma (List.map renderParam (p :: ps)) ++ [')'] = x :: r ∧ stops x = true := by
        cases hp1 : p.1 with
        | nil => simp [hp1, isIdent] at hkp
        | cons a' k' =>
          have ha' : isIdStart a' = true := by simp [hp1, isIdent] at hkp; exact hkp.1
          cases ps with
          | nil => exact ⟨a', _, by simp only [joinComma, renderParam, hp1, List.map_cons, List.map_nil, List.cons_append, List.append_assoc]; rfl, isIdStart_stops a' ha'⟩
          | cons q ps' => exact ⟨a', _, by simp only [joinComma, renderParam, hp1, List.map_cons, List.cons_append, List.append_assoc]; rfl, isIdStart_stops a' ha'⟩
      obtain ⟨x, r, hxr, hxs⟩ := hhead
      simp only [hxr, skip_stop x r hxs]
      simp only [← hxr]
      have hlen := joinComma_length (p :: ps)
      rw [paramsGo_render (p :: ps) [] _ (by simp only [List.length_append, List.length_cons, List.length_nil] at *; omega) (by simp)
        (fun y hy => hk y (by rw [hp]; exact hy))]
      simp [skip_stop ')' _ (by decide), lit, List.isPrefixOf, (by decide : ")".length = 1)]

/-- **C39, rendering side**: what the grammar reads back from a rendered declaration are exactly the
stored parameters -/
theorem lexParams_render (c : Connector) (h : validate c = true) : lexParams (render c) = some c.params := by
  simp only [lexParams, connectorDecl_render c h]
  induction c.params with
  | nil => rfl
  | cons p ps ih =>
    simp only [List.map_cons, List.mapM_cons, valueText_cvOf, Option.map_some] at ih ⊢
    simp [ih]


/-! ### injection -/

open Varpulis.Expand (rustLines linesGo stripCR trim)

/-- no stored connector asks for the `append_pipeline` rewriting of `.from(…)`/`.to(…)` references -/
def noAppendMode (store : Store) : Bool :=
  store.all fun e => e.2.param "client_id_mode" != some "append_pipeline".toList

theorem inject_eq (source : Text) (store : Store) (h : noAppendMode store = true) :
    inject source store =
      (((findMissing source).filterMap fun n => (store.find? fun e => e.1 == n).map fun e => render e.2).map
        fun d => d ++ ['\n']).flatten ++ source := by
  have henr : ∀ (st : Store) (src : Text), noAppendMode st = true →
      st.foldl (fun src e =>
        if e.2.param "client_id_mode" == some "append_pipeline".toList then
          appendClientIds src e.2.name ((e.2.param "client_id").getD e.2.name)
        else src) src = src := by
    intro st
    induction st with
    | nil => intro src _; rfl
    | cons e st ih =>
      intro src hst
      simp only [noAppendMode, List.all_cons, Bool.and_eq_true, bne_iff_ne, ne_eq] at hst
      have : (e.2.param "client_id_mode" == some "append_pipeline".toList) = false := by
        simpa using hst.1
      simp only [List.foldl_cons, this, Bool.false_eq_true, if_false]
      exact ih src (by simpa [noAppendMode] using hst.2)
  unfold inject
  simp only [henr store source h]
  split
  · rename_i he
    simp only [List.isEmpty_iff] at he
    simp [he]
  · rfl

theorem linesGo_append_nl (a b : Text) (acc : List Char) :
    linesGo (a ++ '\n' :: b) acc = linesGo (a ++ ['\n']) acc ++ linesGo b [] := by
  induction a generalizing acc with
  | nil => simp [linesGo]
  | cons c a ih =>
    simp only [List.cons_append, linesGo]
    split
    · simp [ih]
    · exact ih _

/-- after a preamble of complete lines the lines of the source follow unchanged -/
theorem rustLines_preamble (decls : List Text) (source : Text) :
    rustLines ((decls.map fun d => d ++ ['\n']).flatten ++ source) =
      rustLines ((decls.map fun d => d ++ ['\n']).flatten) ++ rustLines source := by
  induction decls with
  | nil => simp [rustLines, linesGo]
  | cons d ds ih =>
    simp only [rustLines] at ih ⊢
    have e1 : (List.map (fun d => d ++ ['\n']) (d :: ds)).flatten ++ source
        = d ++ '\n' :: ((List.map (fun d => d ++ ['\n']) ds).flatten ++ source) := by simp
    have e2 : (List.map (fun d => d ++ ['\n']) (d :: ds)).flatten
        = d ++ '\n' :: (List.map (fun d => d ++ ['\n']) ds).flatten := by simp
    rw [e1, e2, linesGo_append_nl d ((List.map (fun d => d ++ ['\n']) ds).flatten ++ source) [],
      linesGo_append_nl d ((List.map (fun d => d ++ ['\n']) ds).flatten) [], ih, List.append_assoc]

/-! ### the `append_pipeline` rewriting -/

/-- the `append_pipeline` rewriting leaves every line alone that is not a `stream …` line -/
theorem appendLine_other (cname baseId line : Text) (h : "stream ".toList.isPrefixOf (trim line) = false) :
    appendLine cname baseId line = line := by
  unfold appendLine
  simp only [h, Bool.false_eq_true, if_false]

theorem replaceOutside_shape (pat to pre : Text) (l r : Text) (h : replaceOutside pat to pre l = some r) :
    ∃ a b, pre ++ l = a ++ pat ++ b ∧ r = a ++ to ++ b := by
  induction l generalizing pre with
  | nil => simp [replaceOutside] at h
  | cons c cs ih =>
    simp only [replaceOutside] at h
    split at h
    · rename_i hc
      simp only [Bool.and_eq_true] at hc
      obtain ⟨t, ht⟩ := List.isPrefixOf_iff_prefix.mp hc.1
      cases h
      refine ⟨pre, t, by rw [← ht]; simp, ?_⟩
      rw [← ht]; simp
    · obtain ⟨a, b, h1, h2⟩ := ih (pre ++ [c]) h
      exact ⟨a, b, by simpa using h1, h2⟩

/-- … and changes a `stream` line at most by replacing one reference `.from(name,` / `.to(name,` with
the same reference followed by a `client_id` parameter -/
theorem appendLine_shape (cname baseId line : Text) :
    appendLine cname baseId line = line ∨
    ∃ a b p ins, line = a ++ p ++ b ∧ appendLine cname baseId line = a ++ ins ++ b ∧
      (p = ".from(".toList ++ cname ++ [','] ∨ p = ".to(".toList ++ cname ++ [',']) ∧
      ∃ pname, ins = p.dropLast ++ ", client_id: \"".toList ++ escape baseId ++ ['-'] ++ pname ++ "\",".toList := by
  unfold appendLine
  simp only []
  split
  · split
    · rename_i pname _
      simp only [List.filterMap_cons, List.filterMap_nil]
      cases h1 : replaceOutside (".from(".toList ++ cname ++ [',']) _ [] line with
      | some r =>
        right
        obtain ⟨a, b, hl, hr⟩ := replaceOutside_shape _ _ [] line r h1
        exact ⟨a, b, _, _, by simpa using hl, by simpa using hr, Or.inl rfl, pname, rfl⟩
      | none =>
        cases h2 : replaceOutside (".to(".toList ++ cname ++ [',']) _ [] line with
        | some r =>
          right
          obtain ⟨a, b, hl, hr⟩ := replaceOutside_shape _ _ [] line r h2
          exact ⟨a, b, _, _, by simpa using hl, by simpa using hr, Or.inr rfl, pname, rfl⟩
        | none => left; simp
    · left; rfl
  · left; rfl

end Varpulis.Connector
