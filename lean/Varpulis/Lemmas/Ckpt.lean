import Varpulis.Model.Ckpt
/-! Helper lemmas for M-CKPT part 1 (C20): every encoder is clean, every decoder inverts its encoder. -/
namespace Varpulis.Ckpt

mutual
theorem wire_clean : ∀ j, Clean j = true → wire j = j
  | .null, _ => by simp [wire]
  | .bool _, _ => by simp [wire]
  | .int _, _ => by simp [wire]
  | .num f, h => by simp [Clean] at h; simp [wire, h]
  | .str _, _ => by simp [wire]
  | .arr l, h => by simp [Clean] at h; simp [wire, wireL_clean l h]
  | .obj l, h => by simp [Clean] at h; simp [wire, wireO_clean l h]
theorem wireL_clean : ∀ l, CleanL l = true → wireL l = l
  | [], _ => by simp [wireL]
  | j :: js, h => by simp [CleanL] at h; simp [wireL, wire_clean j h.1, wireL_clean js h.2]
theorem wireO_clean : ∀ l, CleanO l = true → wireO l = l
  | [], _ => by simp [wireO]
  | (k, j) :: r, h => by simp [CleanO] at h; simp [wireO, wire_clean j h.1, wireO_clean r h.2]
end

theorem cleanL_map {α} (f : α → Json) (l : List α) (h : ∀ a, Clean (f a) = true) : CleanL (l.map f) = true := by
  induction l with
  | nil => simp [CleanL]
  | cons a t ih => simp [CleanL, h a, ih]

theorem cleanO_map {α} (f : α → Json) (l : List (String × α)) (h : ∀ a, Clean (f a) = true) :
    CleanO (l.map fun kv => (kv.1, f kv.2)) = true := by
  induction l with
  | nil => simp [CleanO]
  | cons a t ih => obtain ⟨k, v⟩ := a; simp [CleanO, h v, ih]

theorem mapM_map_rt {α} (f : α → Json) (d : Json → Option α) (h : ∀ a, d (f a) = some a) (l : List α) :
    (l.map f).mapM d = some l := by
  induction l with
  | nil => simp
  | cons a t ih => simp [List.mapM_cons, h a, ih]

theorem decList_encList {α} (f : α → Json) (d : Json → Option α) (h : ∀ a, d (f a) = some a) (l : List α) :
    decList d (encList f l) = some l := by
  simp [decList, encList, mapM_map_rt f d h]

theorem decMap_encMap {α} (f : α → Json) (d : Json → Option α) (h : ∀ a, d (f a) = some a) (m : List (String × α)) :
    decMap d (encMap f m) = some m := by
  simp only [decMap, encMap]
  induction m with
  | nil => simp
  | cons a t ih => obtain ⟨k, v⟩ := a; simp [List.mapM_cons, h v] at ih ⊢; simp [ih]

theorem decOpt_encOpt {α} (f : α → Json) (d : Json → Option α) (h : ∀ a, d (f a) = some a)
    (hn : ∀ a, f a ≠ .null) (o : Option α) : decOpt d (encOpt f o) = some o := by
  cases o with
  | none => simp [encOpt, decOpt]
  | some a =>
    simp only [encOpt]
    have := hn a
    cases hfa : f a <;> simp_all [decOpt] <;> (rw [← hfa, h a])

theorem decNat_int (n : Nat) : decNat (.int (n : Int)) = some n := by simp [decNat]

mutual
theorem s2v_v2s : ∀ v, s2v (v2s v) = v
  | .int _ => by simp [v2s, s2v]
  | .float _ => by simp [v2s, s2v]
  | .bool _ => by simp [v2s, s2v]
  | .str _ => by simp [v2s, s2v]
  | .null => by simp [v2s, s2v]
  | .ts _ => by simp [v2s, s2v]
  | .dur _ => by simp [v2s, s2v]
  | .arr l => by simp [v2s, s2v, s2vL_v2sL l]
  | .map l => by simp [v2s, s2v, s2vM_v2sM l]
theorem s2vL_v2sL : ∀ l, s2vL (v2sL l) = l
  | [] => by simp [v2sL, s2vL]
  | v :: vs => by simp [v2sL, s2vL, s2v_v2s v, s2vL_v2sL vs]
theorem s2vM_v2sM : ∀ l, s2vM (v2sM l) = l
  | [] => by simp [v2sM, s2vM]
  | (k, v) :: r => by simp [v2sM, s2vM, s2v_v2s v, s2vM_v2sM r]
end

theorem decF_encF (f : F64) : decF (encF f) = some f := by cases f <;> simp [encF, decF]
theorem clean_encF (f : F64) : Clean (encF f) = true := by cases f <;> simp [encF, Clean, F64.isFinite]

mutual
theorem decSV_encSV : ∀ v, decSV (encSV v) = some v
  | .int _ => by simp [encSV, decSV, decInt]
  | .float f => by simp [encSV, decSV, decF_encF]
  | .bool _ => by simp [encSV, decSV, decBool]
  | .str _ => by simp [encSV, decSV, decStr]
  | .null => by simp [encSV, decSV]
  | .ts _ => by simp [encSV, decSV, decInt]
  | .dur _ => by simp [encSV, decSV, decNat]
  | .arr l => by simp [encSV, decSV, decSVs_encSVs l]
  | .map l => by simp [encSV, decSV, decSVm_encSVm l]
theorem decSVs_encSVs : ∀ l, decSVs (encSVs l) = some l
  | [] => by simp [encSVs, decSVs]
  | v :: vs => by simp [encSVs, decSVs, decSV_encSV v, decSVs_encSVs vs]
theorem decSVm_encSVm : ∀ l, decSVm (encSVm l) = some l
  | [] => by simp [encSVm, decSVm]
  | (k, v) :: r => by simp [encSVm, decSVm, decSV_encSV v, decSVm_encSVm r]
end

mutual
theorem clean_encSV : ∀ v, Clean (encSV v) = true
  | .int _ => by simp [encSV, Clean, CleanO]
  | .float f => by simp [encSV, Clean, CleanO, clean_encF]
  | .bool _ => by simp [encSV, Clean, CleanO]
  | .str _ => by simp [encSV, Clean, CleanO]
  | .null => by simp [encSV, Clean]
  | .ts _ => by simp [encSV, Clean, CleanO]
  | .dur _ => by simp [encSV, Clean, CleanO]
  | .arr l => by simp [encSV, Clean, CleanO, clean_encSVs l]
  | .map l => by simp [encSV, Clean, CleanO, clean_encSVm l]
theorem clean_encSVs : ∀ l, CleanL (encSVs l) = true
  | [] => by simp [encSVs, CleanL]
  | v :: vs => by simp [encSVs, CleanL, clean_encSV v, clean_encSVs vs]
theorem clean_encSVm : ∀ l, CleanL (encSVm l) = true
  | [] => by simp [encSVm, CleanL]
  | (k, v) :: r => by simp [encSVm, CleanL, Clean, clean_encSV v, clean_encSVm r]
end

theorem encSV_ne_null (v : SV) : encSV v ≠ .null := by cases v <;> simp [encSV]

theorem decSE_encSE (e : SerEvent) : decSE (encSE e) = some e := by
  simp [decSE, encSE, req, dflt, List.lookup, decStr, decInt, decNat_int, decMap_encMap encSV decSV decSV_encSV]

theorem clean_encSE (e : SerEvent) : Clean (encSE e) = true := by
  simp [encSE, Clean, CleanO, encMap, cleanO_map encSV _ clean_encSV]

theorem encSE_ne_null (e : SerEvent) : encSE e ≠ .null := by simp [encSE]

private theorem natInt_ne_null (n : Nat) : (Json.int (n : Int)) ≠ .null := by simp
private theorem int_ne_null (i : Int) : Json.int i ≠ .null := by simp

theorem decOptInt (o : Option Int) : decOpt decInt (encOpt .int o) = some o :=
  decOpt_encOpt _ _ (by simp [decInt]) (by simp) o

theorem decOptNat (o : Option Nat) : decOpt decNat (encOpt (fun n : Nat => Json.int n) o) = some o :=
  decOpt_encOpt _ _ (by simp [decNat]) (by simp) o

theorem decOptStr (o : Option String) : decOpt decStr (encOpt .str o) = some o :=
  decOpt_encOpt _ _ (by simp [decStr]) (by simp) o

theorem clean_encOpt {α} (f : α → Json) (h : ∀ a, Clean (f a) = true) (o : Option α) : Clean (encOpt f o) = true := by
  cases o <;> simp [encOpt, Clean, h]

theorem clean_encOptInt (o : Option Int) : Clean (encOpt Json.int o) = true :=
  clean_encOpt _ (by simp [Clean]) o

theorem clean_encOptNat (o : Option Nat) : Clean (encOpt (fun n : Nat => Json.int n) o) = true :=
  clean_encOpt _ (by simp [Clean]) o

theorem clean_encOptStr (o : Option String) : Clean (encOpt Json.str o) = true :=
  clean_encOpt _ (by simp [Clean]) o

theorem clean_encList {α} (f : α → Json) (h : ∀ a, Clean (f a) = true) (l : List α) : Clean (encList f l) = true := by
  simp [encList, Clean, cleanL_map f l h]

theorem clean_encMap {α} (f : α → Json) (h : ∀ a, Clean (f a) = true) (m : List (String × α)) : Clean (encMap f m) = true := by
  simp [encMap, Clean, cleanO_map f m h]

/-! ### windows -/
theorem decPWC_encPWC (p : PartWinCkpt) : decPWC (encPWC p) = some p := by
  simp [decPWC, encPWC, req, optF, dflt, decNat_int, List.lookup, decList_encList encSE decSE decSE_encSE, decOptInt, decOptNat]

theorem clean_encPWC (p : PartWinCkpt) : Clean (encPWC p) = true := by
  simp [encPWC, Clean, CleanO, clean_encList encSE clean_encSE, clean_encOptInt, clean_encOptNat]

theorem decWC_encWC (w : WindowCkpt) : decWC (encWC w) = some w := by
  simp [decWC, encWC, req, optF, dflt, decNat_int, List.lookup, decList_encList encSE decSE decSE_encSE, decOptInt, decOptNat,
    decMap_encMap encPWC decPWC decPWC_encPWC]

theorem clean_encWC (w : WindowCkpt) : Clean (encWC w) = true := by
  simp [encWC, Clean, CleanO, clean_encList encSE clean_encSE, clean_encOptInt, clean_encOptNat, clean_encMap encPWC clean_encPWC]

/-! ### SASE -/
theorem decStack_encStack (s : StackCkpt) : decStack (encStack s) = some s := by
  simp [decStack, encStack, req, optF, List.lookup, decSE_encSE, decOptStr]

theorem clean_encStack (s : StackCkpt) : Clean (encStack s) = true := by
  simp [encStack, Clean, CleanO, clean_encSE, clean_encOptStr]

theorem decAB_encAB (p : Nat × SerEvent) : decAB (encAB p) = some p := by
  simp [decAB, encAB, decNat_int, decSE_encSE]

theorem clean_encAB (p : Nat × SerEvent) : Clean (encAB p) = true := by
  simp [encAB, Clean, CleanL, clean_encSE]

theorem decRun_encRun (r : RunCkpt) : decRun (encRun r) = some r := by
  simp [decRun, encRun, req, optF, dflt, List.lookup, decNat_int, decBool, decOptInt,
    decOpt_encOpt (encList encAB) (decList decAB) (decList_encList encAB decAB decAB_encAB) (by simp [encList]),
    decList_encList encStack decStack decStack_encStack, decMap_encMap encSE decSE decSE_encSE,
    decOpt_encOpt encSV decSV decSV_encSV encSV_ne_null,
    decOpt_encOpt (encList encSE) (decList decSE) (decList_encList encSE decSE decSE_encSE) (by simp [encList])]

theorem clean_encRun (r : RunCkpt) : Clean (encRun r) = true := by
  simp [encRun, Clean, CleanO, clean_encList encStack clean_encStack, clean_encMap encSE clean_encSE,
    clean_encOptInt, clean_encOpt encSV clean_encSV, clean_encOpt (encList encSE) (clean_encList encSE clean_encSE),
    clean_encOpt (encList encAB) (clean_encList encAB clean_encAB)]

theorem decSase_encSase (s : SaseCkpt) : decSase (encSase s) = some s := by
  simp [decSase, encSase, req, optF, dflt, List.lookup, decNat_int, decOptInt,
    decList_encList encRun decRun decRun_encRun,
    decMap_encMap (encList encRun) (decList decRun) (decList_encList encRun decRun decRun_encRun)]

theorem clean_encSase (s : SaseCkpt) : Clean (encSase s) = true := by
  simp [encSase, Clean, CleanO, clean_encList encRun clean_encRun, clean_encOptInt,
    clean_encMap (encList encRun) (clean_encList encRun clean_encRun)]

/-! ### join, watermarks, distinct, limit -/
theorem decJE_encJE (p : Int × SerEvent) : decJE (encJE p) = some p := by
  simp [decJE, encJE, decSE_encSE]

theorem clean_encJE (p : Int × SerEvent) : Clean (encJE p) = true := by
  simp [encJE, Clean, CleanL, clean_encSE]

theorem decQE_encQE (q : QEntry) : decQE (encQE q) = some q := by
  simp [decQE, encQE, decInt, decNat_int, decStr]

theorem clean_encQE (q : QEntry) : Clean (encQE q) = true := by
  simp [encQE, Clean, CleanL]

theorem decJoin_encJoin (j : JoinCkpt) : decJoin (encJoin j) = some j := by
  simp [decJoin, encJoin, req, optF, dflt, decNat_int, decOptInt, List.lookup, decInt,
    decOpt_encOpt (encList encQE) (decList decQE) (decList_encList encQE decQE decQE_encQE) (by simp [encList]),
    decMap_encMap (encMap (encList encJE)) (decMap (decList decJE))
      (decMap_encMap (encList encJE) (decList decJE) (decList_encList encJE decJE decJE_encJE)),
    decList_encList Json.str decStr (by simp [decStr]), decMap_encMap Json.str decStr (by simp [decStr])]

theorem clean_encJoin (j : JoinCkpt) : Clean (encJoin j) = true := by
  simp [encJoin, Clean, CleanO,
    clean_encMap (encMap (encList encJE)) (clean_encMap (encList encJE) (clean_encList encJE clean_encJE)),
    clean_encList Json.str (by simp [Clean]), clean_encMap Json.str (by simp [Clean]), clean_encOptInt,
    clean_encOpt (encList encQE) (clean_encList encQE clean_encQE)]

theorem decSrcWm_encSrcWm (s : SrcWmCkpt) : decSrcWm (encSrcWm s) = some s := by
  simp [decSrcWm, encSrcWm, req, optF, dflt, decNat_int, List.lookup, decInt, decOptInt]

theorem clean_encSrcWm (s : SrcWmCkpt) : Clean (encSrcWm s) = true := by
  simp [encSrcWm, Clean, CleanO, clean_encOptInt]

theorem decWm_encWm (w : WmCkpt) : decWm (encWm w) = some w := by
  simp [decWm, encWm, req, optF, dflt, decNat_int, List.lookup, decOptInt, decMap_encMap encSrcWm decSrcWm decSrcWm_encSrcWm]

theorem clean_encWm (w : WmCkpt) : Clean (encWm w) = true := by
  simp [encWm, Clean, CleanO, clean_encOptInt, clean_encMap encSrcWm clean_encSrcWm]

theorem decDistinct_encDistinct (k : List String) : decDistinct (encDistinct k) = some k := by
  simp [decDistinct, encDistinct, req, List.lookup, decList_encList Json.str decStr (by simp [decStr])]

theorem clean_encDistinct (k : List String) : Clean (encDistinct k) = true := by
  simp [encDistinct, Clean, CleanO, clean_encList Json.str (by simp [Clean])]

theorem decLimit_encLimit (l : Nat × Nat) : decLimit (encLimit l) = some l := by
  simp [decLimit, encLimit, req, List.lookup, decNat_int]

theorem clean_encLimit (l : Nat × Nat) : Clean (encLimit l) = true := by
  simp [encLimit, Clean, CleanO]

/-! ### engine and store checkpoints -/
theorem encWm_ne_null (w : WmCkpt) : encWm w ≠ .null := by simp [encWm]

theorem decEngine_encEngine (c : EngineCkpt) : decEngine (encEngine c) = some c := by
  simp [decEngine, encEngine, req, optF, dflt, List.lookup, decNat_int,
    decMap_encMap encWC decWC decWC_encWC, decMap_encMap encSase decSase decSase_encSase,
    decMap_encMap encJoin decJoin decJoin_encJoin, decMap_encMap encSV decSV decSV_encSV,
    decOpt_encOpt encWm decWm decWm_encWm encWm_ne_null,
    decMap_encMap encDistinct decDistinct decDistinct_encDistinct,
    decMap_encMap encLimit decLimit decLimit_encLimit]

theorem clean_encEngine (c : EngineCkpt) : Clean (encEngine c) = true := by
  simp [encEngine, Clean, CleanO, clean_encMap encWC clean_encWC, clean_encMap encSase clean_encSase,
    clean_encMap encJoin clean_encJoin, clean_encMap encSV clean_encSV, clean_encOpt encWm clean_encWm,
    clean_encMap encDistinct clean_encDistinct, clean_encMap encLimit clean_encLimit]

theorem decPM_encPM (p : PartialMatchCkpt) : decPM (encPM p) = some p := by
  simp [decPM, encPM, req, List.lookup, decStr, decInt, decList_encList encSE decSE decSE_encSE]

theorem clean_encPM (p : PartialMatchCkpt) : Clean (encPM p) = true := by
  simp [encPM, Clean, CleanO, clean_encList encSE clean_encSE]

theorem decPattern_encPattern (l : List PartialMatchCkpt) : decPattern (encPattern l) = some l := by
  simp [decPattern, encPattern, req, List.lookup, decList_encList encPM decPM decPM_encPM]

theorem clean_encPattern (l : List PartialMatchCkpt) : Clean (encPattern l) = true := by
  simp [encPattern, Clean, CleanO, clean_encList encPM clean_encPM]

theorem decCkpt_encCkpt (c : Ckpt) : decCkpt (encCkpt c) = some c := by
  simp [decCkpt, encCkpt, req, dflt, List.lookup, decNat_int, decInt,
    decMap_encMap encWC decWC decWC_encWC, decMap_encMap encPattern decPattern decPattern_encPattern,
    decMap_encMap Json.str decStr (by simp [decStr]), decMap_encMap encEngine decEngine decEngine_encEngine]

theorem clean_encCkpt (c : Ckpt) : Clean (encCkpt c) = true := by
  simp [encCkpt, Clean, CleanO, clean_encMap encWC clean_encWC, clean_encMap encPattern clean_encPattern,
    clean_encMap Json.str (by simp [Clean]), clean_encMap encEngine clean_encEngine]

/-! ### time -/
theorem ofMs_msOf_add (t : Int) : ofMs (msOf t) + ((t % 1000000).toNat : Int) = t := by
  simp only [ofMs, msOf]; omega

theorem ofMs_msOf_whole (t : Int) (h : t % 1000000 = 0) : ofMs (msOf t) = t := by
  simp only [ofMs, msOf]; omega

end Varpulis.Ckpt

/-! ## part 2 (C19): `restore ∘ checkpoint` per component -/
namespace Varpulis.Ckpt

theorem map_eq_self {α} (f : α → α) (l : List α) (h : ∀ x ∈ l, f x = x) : l.map f = l := by
  induction l with
  | nil => rfl
  | cons a t ih =>
    simp only [List.map_cons, List.cons.injEq]
    exact ⟨h a List.mem_cons_self, ih fun x hx => h x (List.mem_cons_of_mem _ hx)⟩

theorem joinTs_split (t : Int) : joinTs (msOf t) (subOf t) = t := by
  simp only [joinTs, subOf]; exact ofMs_msOf_add t

/-- a timestamp stored as milliseconds + sub-millisecond remainder comes back exactly -/
theorem optTs_rt' (o : Option Int) :
    Option.map ((fun ms => joinTs ms ((Option.map subOf o).getD 0)) ∘ msOf) o = o := by
  cases o <;> simp [joinTs_split]

theorem optTs_rt (o : Option Int) :
    (o.map msOf).map (fun ms => joinTs ms ((o.map subOf).getD 0)) = o := by
  cases o <;> simp [joinTs_split]

theorem wholeTs_rt (t : Int) (h : wholeTs t = true) : ofMs (msOf t) = t :=
  ofMs_msOf_whole t (by simpa [wholeTs] using h)

/-- a timestamp stored as milliseconds only comes back iff it is a whole number of milliseconds -/
theorem optTs_whole (o : Option Int) (h : o.all wholeTs = true) : Option.map (ofMs ∘ msOf) o = o := by
  cases o with
  | none => rfl
  | some t => simp only [Option.all_some] at h; simp [wholeTs_rt t h]

/-- what the conversion pair does to any event: the timestamp is truncated to milliseconds -/
theorem eventOfSer_serOfEvent (e : Event) : eventOfSer (serOfEvent e) = e.truncMs := by
  obtain ⟨ty, t, d⟩ := e
  simp only [eventOfSer, serOfEvent, Event.truncMs, s2vM_v2sM]

theorem event_rt_whole (e : Event) (h : e.whole = true) : eventOfSer (serOfEvent e) = e := by
  rw [eventOfSer_serOfEvent]
  obtain ⟨ty, t, d⟩ := e
  simp only [Event.truncMs, Event.whole] at h ⊢
  rw [wholeTs_rt t h]

theorem map_event_rt (l : List Event) (h : l.all Event.whole = true) :
    List.map (eventOfSer ∘ serOfEvent) l = l := by
  apply map_eq_self
  intro e he
  exact event_rt_whole e (List.all_eq_true.mp h e he)

theorem tumbling_rt (w : TumblingSt) (h : w.Whole = true) : TumblingSt.restore w.ckpt = w := by
  obtain ⟨b, s⟩ := w
  simp only [TumblingSt.Whole, Bool.and_eq_true] at h
  simp only [TumblingSt.restore, TumblingSt.ckpt, emptyWC, List.map_map, Option.map_map]
  rw [map_event_rt b h.1, optTs_whole s h.2]

theorem sliding_rt (w : SlidingSt) (h : w.Whole = true) : SlidingSt.restore w.ckpt = w := by
  obtain ⟨b, s⟩ := w
  simp only [SlidingSt.Whole, Bool.and_eq_true] at h
  simp only [SlidingSt.restore, SlidingSt.ckpt, emptyWC, List.map_map, Option.map_map]
  rw [map_event_rt b h.1, optTs_whole s h.2]

theorem count_rt (w : CountSt) (h : w.Whole = true) : CountSt.restore w.ckpt = w := by
  obtain ⟨b⟩ := w
  simp only [CountSt.Whole] at h
  simp only [CountSt.restore, CountSt.ckpt, emptyWC, List.map_map]
  rw [map_event_rt b h]

theorem slidingCount_rt (w : SlidingCountSt) (h : w.Whole = true) : SlidingCountSt.restore w.ckpt = w := by
  obtain ⟨b, s⟩ := w
  simp only [SlidingCountSt.Whole, Bool.and_eq_true, beq_iff_eq] at h
  simp only [SlidingCountSt.restore, SlidingCountSt.ckpt, emptyWC, List.map_map]
  rw [map_event_rt b h.1, h.2]

theorem session_rt (w : SessionSt) (h : w.Whole = true) : SessionSt.restore w.ckpt = w := by
  obtain ⟨b, s⟩ := w
  simp only [SessionSt.Whole, Bool.and_eq_true] at h
  simp only [SessionSt.restore, SessionSt.ckpt, emptyWC, List.map_map, Option.map_map]
  rw [map_event_rt b h.1, optTs_whole s h.2]

theorem part_rt {σ} (ck : σ → PartWinCkpt) (rs : PartWinCkpt → σ) (ws : List (String × σ))
    (h : ∀ kv ∈ ws, rs (ck kv.2) = kv.2) : partRestore rs (partCkpt ck ws) = ws := by
  simp only [partRestore, partCkpt, emptyWC, List.map_map]
  apply map_eq_self
  intro kv hkv
  obtain ⟨k, w⟩ := kv
  simp only [Function.comp, Prod.mk.injEq, true_and]
  exact h (k, w) hkv

theorem tumbling_prt (w : TumblingSt) (h : w.buf.all Event.whole = true) : tumblingOfPwc (tumblingPwc w) = w := by
  obtain ⟨b, s⟩ := w
  simp only [tumblingOfPwc, tumblingPwc, emptyPWC, List.map_map, Option.map_map]
  rw [map_event_rt b h, optTs_rt' s]

theorem sliding_prt (w : SlidingSt) (h : w.buf.all Event.whole = true) : slidingOfPwc (slidingPwc w) = w := by
  obtain ⟨b, s⟩ := w
  simp only [slidingOfPwc, slidingPwc, emptyPWC, List.map_map, Option.map_map]
  rw [map_event_rt b h, optTs_rt' s]

theorem session_prt (w : SessionSt) (h : w.buf.all Event.whole = true) : sessionOfPwc (sessionPwc w) = w := by
  obtain ⟨b, s⟩ := w
  simp only [sessionOfPwc, sessionPwc, emptyPWC, List.map_map, Option.map_map]
  rw [map_event_rt b h, optTs_rt' s]

theorem count_prt (w : CountSt) (h : w.buf.all Event.whole = true) : countOfPwc (countPwc w) = w := by
  obtain ⟨b⟩ := w
  simp only [countOfPwc, countPwc, emptyPWC, List.map_map]
  rw [map_event_rt b h]

/-- the partitioned sliding count window keeps its slide counter -/
theorem slidingCount_prt (w : SlidingCountSt) (h : w.buf.all Event.whole = true) :
    slidingCountOfPwc (slidingCountPwc w) = w := by
  obtain ⟨b, s⟩ := w
  simp only [slidingCountOfPwc, slidingCountPwc, emptyPWC, List.map_map, Option.getD_some]
  rw [map_event_rt b h]

theorem winSt_rt (w : WinSt) (h : w.Restorable = true) : (WinSt.fresh w).restore w.ckpt = w := by
  cases w with
  | tumbling w => simp only [WinSt.fresh, WinSt.restore, WinSt.ckpt, tumbling_rt w h]
  | sliding w => simp only [WinSt.fresh, WinSt.restore, WinSt.ckpt, sliding_rt w h]
  | count w => simp only [WinSt.fresh, WinSt.restore, WinSt.ckpt, count_rt w h]
  | slidingCount w => simp only [WinSt.fresh, WinSt.restore, WinSt.ckpt, slidingCount_rt w h]
  | session w => simp only [WinSt.fresh, WinSt.restore, WinSt.ckpt, session_rt w h]
  | pTumbling ws =>
    simp only [WinSt.fresh, WinSt.restore, WinSt.ckpt]
    rw [part_rt _ _ ws fun kv hkv => tumbling_prt kv.2 (List.all_eq_true.mp h kv hkv)]
  | pSliding ws =>
    simp only [WinSt.fresh, WinSt.restore, WinSt.ckpt]
    rw [part_rt _ _ ws fun kv hkv => sliding_prt kv.2 (List.all_eq_true.mp h kv hkv)]
  | pSession ws =>
    simp only [WinSt.fresh, WinSt.restore, WinSt.ckpt]
    rw [part_rt _ _ ws fun kv hkv => session_prt kv.2 (List.all_eq_true.mp h kv hkv)]
  | pCount ws =>
    simp only [WinSt.fresh, WinSt.restore, WinSt.ckpt]
    rw [part_rt _ _ ws fun kv hkv => count_prt kv.2 (List.all_eq_true.mp h kv hkv)]
  | pSlidingCount ws =>
    simp only [WinSt.fresh, WinSt.restore, WinSt.ckpt]
    rw [part_rt _ _ ws fun kv hkv => slidingCount_prt kv.2 (List.all_eq_true.mp h kv hkv)]

/-! ### SASE -/
theorem val_comp : s2v ∘ v2s = id := by funext v; simp [s2v_v2s]

theorem run_rt (r : Run) (hw : r.Whole = true) :
    Run.fromCkpt r.ckpt = { r with pendingNegs := [], kleene := r.kleene.map fun kc =>
      { events := kc.events, aliases := kc.events.map fun _ => none, deferred := none } } := by
  obtain ⟨cs, st, ca, sa, dl, pk, iv, pn, an, kl⟩ := r
  simp only [Run.Whole, Bool.and_eq_true] at hw
  obtain ⟨⟨⟨hst, hca⟩, han⟩, hkl⟩ := hw
  simp only [Run.fromCkpt, Run.ckpt, List.map_map, Option.map_map]
  congr 1
  · apply map_eq_self
    intro a ha
    obtain ⟨e, al⟩ := a
    have := List.all_eq_true.mp hst (e, al) ha
    simp only [Function.comp, event_rt_whole e this]
  · apply map_eq_self
    intro a ha
    obtain ⟨k, e⟩ := a
    have := List.all_eq_true.mp hca (k, e) ha
    simp only [Function.comp, event_rt_whole e this]
  · exact optTs_rt' sa
  · exact optTs_rt' dl
  · simp [val_comp]
  · cases an with
    | none => rfl
    | some l =>
      simp only [Option.map_some, Function.comp, List.map_map, Option.some.injEq]
      apply map_eq_self
      intro a ha
      obtain ⟨k, e⟩ := a
      have := List.all_eq_true.mp han (k, e) ha
      simp only at this
      simp only [Function.comp, event_rt_whole e this]
  · cases kl with
    | none => rfl
    | some kc =>
      simp only at hkl
      simp [List.map_map, map_event_rt kc.events hkl]

theorem run_view_rt (r : Run) (h : r.Restorable = true) : (Run.fromCkpt r.ckpt).view = r.view := by
  simp only [Run.Restorable, Bool.and_eq_true, List.isEmpty_iff] at h
  obtain ⟨⟨h1, h2⟩, h3⟩ := h
  rw [run_rt r h3]
  obtain ⟨cs, st, ca, sa, dl, pk, iv, pn, an, kl⟩ := r
  simp only at h1 h2
  subst h1
  simp only [Run.view]
  congr 1
  cases kl with
  | none => rfl
  | some kc =>
    obtain ⟨ev, al, df⟩ := kc
    simp only [Option.isNone_iff_eq_none] at h2
    subst h2
    simp [KC.view]

theorem runs_view_rt (l : List Run) (h : l.all Run.Restorable = true) :
    l.map (Run.view ∘ Run.fromCkpt ∘ Run.ckpt) = l.map Run.view := by
  induction l with
  | nil => rfl
  | cons a t ih =>
    simp only [List.all_cons, Bool.and_eq_true] at h
    simp only [List.map_cons, Function.comp, run_view_rt a h.1, List.cons.injEq, true_and]
    exact ih h.2

theorem sase_view_rt (s : SaseSt) (h : s.Restorable = true) : (SaseSt.restore s.ckpt).view = s.view := by
  obtain ⟨rs, ps, wm, mt, a, b, c, d⟩ := s
  simp only [SaseSt.Restorable, Bool.and_eq_true] at h
  simp only [SaseSt.view, SaseSt.restore, SaseSt.ckpt, List.map_map, Option.map_map, optTs_rt']
  congr 1
  · exact runs_view_rt rs h.1
  · have h2 := h.2
    clear h
    induction ps with
    | nil => rfl
    | cons x t ih =>
      obtain ⟨k, l⟩ := x
      simp only [List.all_cons, Bool.and_eq_true] at h2
      simp only [List.map_cons, Function.comp, List.cons.injEq, Prod.mk.injEq, true_and]
      refine ⟨?_, ih h2.2⟩
      have := runs_view_rt l h2.1
      simpa [List.map_map, Function.comp] using this

/-! ### join -/
theorem heapPush_sorted (a : Expiry) (l : List Expiry) (h : HeapSorted (a :: l)) : heapPush a l = a :: l := by
  cases l with
  | nil => rfl
  | cons b r => simp [heapPush, h.1]

theorem heapOfList_sorted (l : List Expiry) (h : HeapSorted l) : heapOfList l = l := by
  induction l with
  | nil => rfl
  | cons a t ih =>
    have ht : HeapSorted t := by
      cases t with
      | nil => trivial
      | cons b r => exact h.2
    simp only [heapOfList, List.foldr_cons] at ih ⊢
    rw [ih ht]
    exact heapPush_sorted a t h

theorem join_rt (c : JoinCfg) (w : Int) (j : JoinSt) (h : j.WF) (hw : j.Whole) :
    JoinSt.restore w (j.ckpt c) = j := by
  obtain ⟨bufs, q, gc⟩ := j
  obtain ⟨hb, hq⟩ := h
  simp only [JoinSt.Whole] at hw
  simp only at hb hq
  simp only [JoinSt.restore, JoinSt.ckpt, List.map_map, Option.map_map, optTs_rt']
  congr 1
  · apply map_eq_self
    intro sb hsb
    obtain ⟨s, kbs⟩ := sb
    simp only [Function.comp, List.map_map, Prod.mk.injEq, true_and]
    apply map_eq_self
    intro kb hkb
    obtain ⟨k, ps⟩ := kb
    simp only [Function.comp, Prod.mk.injEq, true_and, List.map_map]
    apply map_eq_self
    intro p hp
    obtain ⟨ts, e⟩ := p
    have := hb (s, kbs) hsb (k, ps) hkb (ts, e) hp
    have hwe := hw (s, kbs) hsb (k, ps) hkb (ts, e) hp
    simp only at this hwe
    simp [event_rt_whole e hwe, this]
  · have : q.map ((fun x : QEntry => ({ t := joinTs x.ms x.sub, source := x.source, key := x.key } : Expiry)) ∘
        fun x : Expiry => ({ ms := msOf x.t, sub := subOf x.t, source := x.source, key := x.key } : QEntry)) = q := by
      apply map_eq_self
      intro x _
      simp [joinTs_split]
    rw [this]
    exact heapOfList_sorted q hq

/-! ### distinct -/
theorem foldl_lruInsert (l acc : List String) (h : (acc ++ l).Nodup) : l.foldl lruInsert acc = acc ++ l := by
  induction l generalizing acc with
  | nil => simp
  | cons k t ih =>
    have hk : k ∉ acc := by
      intro hm
      have := List.nodup_append.mp h
      exact this.2.2 k hm k List.mem_cons_self rfl
    simp only [List.foldl_cons, lruInsert, List.erase_of_not_mem hk]
    rw [ih (acc ++ [k]) (by simpa using h)]
    simp

theorem distinct_rt (seen : List String) (h : seen.Nodup) : distinctRestore (distinctCkpt seen) = seen := by
  simp only [distinctRestore, distinctCkpt, List.reverse_reverse]
  simpa using foldl_lruInsert seen [] (by simpa using h)


/-! ### association lists -/
theorem lookup_map_snd {α β} (f : α → β) (l : List (String × α)) (k : String) :
    (l.map fun kv => (kv.1, f kv.2)).lookup k = (l.lookup k).map f := by
  induction l with
  | nil => rfl
  | cons a t ih =>
    obtain ⟨k', v⟩ := a
    simp only [List.map_cons, List.lookup_cons]
    cases h : k == k' <;> simp [ih]

theorem lookup_upsert {α} (k k' : String) (v : α) (l : List (String × α)) :
    (upsert k v l).lookup k' = if k' = k then some v else l.lookup k' := by
  induction l with
  | nil =>
    by_cases h : k' = k
    · simp [upsert, List.lookup, h]
    · have : (k' == k) = false := by simp [h]
      simp [upsert, List.lookup, h, this]
  | cons a t ih =>
    obtain ⟨k2, v2⟩ := a
    simp only [upsert]
    by_cases h2 : k2 = k
    · subst h2
      by_cases h : k' = k2
      · simp [List.lookup_cons, h]
      · have : (k' == k2) = false := by simp [h]
        simp [List.lookup_cons, h, this]
    · by_cases h : k' = k
      · subst h
        have : (k' == k2) = false := by simp; exact fun h' => h2 h'.symm
        simp [h2, List.lookup_cons, this, ih]
      · simp only [h2, if_false, List.lookup_cons, ih, h]

theorem lookup_none_of_not_mem {α} (l : List (String × α)) (k : String) (h : k ∉ l.map (·.1)) : l.lookup k = none := by
  induction l with
  | nil => rfl
  | cons a t ih =>
    obtain ⟨k', v⟩ := a
    simp only [List.map_cons, List.mem_cons, not_or] at h
    have : (k == k') = false := by simp [h.1]
    simp [List.lookup_cons, this, ih h.2]

theorem lookup_foldl_upsert {α β} (g : β → α) (l : List (String × β)) (acc : List (String × α)) (k : String)
    (h : (l.map (·.1)).Nodup) :
    (l.foldl (fun acc kv => upsert kv.1 (g kv.2) acc) acc).lookup k =
      match l.lookup k with
      | some b => some (g b)
      | none => acc.lookup k := by
  induction l generalizing acc with
  | nil => rfl
  | cons a t ih =>
    obtain ⟨k', v⟩ := a
    simp only [List.map_cons, List.nodup_cons] at h
    simp only [List.foldl_cons, List.lookup_cons]
    rw [ih _ h.2]
    by_cases hk : k = k'
    · subst hk
      simp [lookup_none_of_not_mem t k h.1, lookup_upsert]
    · have : (k == k') = false := by simp [hk]
      simp only [this]
      cases t.lookup k <;> simp [lookup_upsert, hk]

theorem lookup_filterMap {α β} (f : String → α → Option β) (l : List (String × α)) (k : String) (v : α)
    (hn : (l.map (·.1)).Nodup) (hm : (k, v) ∈ l) :
    (l.filterMap fun kv => (f kv.1 kv.2).map fun b => (kv.1, b)).lookup k = f k v := by
  induction l with
  | nil => cases hm
  | cons a t ih =>
    obtain ⟨k', v'⟩ := a
    simp only [List.map_cons, List.nodup_cons] at hn
    simp only [List.mem_cons, Prod.mk.injEq] at hm
    rcases hm with ⟨hk, hv⟩ | hm
    · subst hk; subst hv
      simp only [List.filterMap_cons]
      cases hf : f k v with
      | none =>
        simp only [Option.map_none]
        apply lookup_none_of_not_mem
        intro hmem
        simp only [List.map_filterMap, List.mem_filterMap] at hmem
        obtain ⟨x, hx, hx2⟩ := hmem
        cases hfx : f x.1 x.2 <;> simp [hfx] at hx2
        subst hx2
        exact hn.1 (List.mem_map_of_mem (f := (·.1)) hx)
      | some b => simp
    · have hne : (k == k') = false := by
        simp; intro h; subst h
        exact hn.1 (List.mem_map_of_mem (f := (·.1)) hm)
      simp only [List.filterMap_cons]
      cases f k' v' with
      | none => simpa using ih hn.2 hm
      | some b => simp [List.lookup_cons, hne, ih hn.2 hm]

/-! ### watermarks, variables -/
theorem srcWm_rt (s : SrcWm) : SrcWm.ofCkpt s.ckpt = s := by
  obtain ⟨w, m, o⟩ := s
  simp [SrcWm.ofCkpt, SrcWm.ckpt, optTs_rt']

theorem lookup_ne_none_of_mem {α} (l : List (String × α)) (kv : String × α) (h : kv ∈ l) : l.lookup kv.1 ≠ none := by
  induction l with
  | nil => cases h
  | cons a t ih =>
    obtain ⟨k', v'⟩ := a
    simp only [List.lookup_cons]
    cases hk : kv.1 == k' with
    | true => simp
    | false =>
      simp only
      apply ih
      rcases List.mem_cons.mp h with h1 | h1
      · subst h1; simp at hk
      · exact h1

/-- the tracker comes back exactly: every source with its watermark and maximum timestamp to the
nanosecond, the effective and the applied watermark — provided the program's registered sources
are among the tracker's (sources are never removed) -/
theorem wm_restore_eq (w : WmSt) (src0 : List (String × SrcWm))
    (h0 : ∀ kv ∈ src0, kv.1 ∈ w.sources.map (·.1))
    (hi : w.lastApplied = none → w.effective = none) : WmSt.restore src0 w.ckpt = w := by
  obtain ⟨srcs, eff, la⟩ := w
  simp only [WmSt.restore, WmSt.ckpt, List.map_map, Option.map_map, optTs_rt'] at h0 ⊢
  have h1 : List.map ((fun kv : String × SrcWmCkpt => (kv.1, SrcWm.ofCkpt kv.2)) ∘ fun kv : String × SrcWm => (kv.1, kv.2.ckpt)) srcs = srcs := by
    apply map_eq_self
    intro kv _
    simp [srcWm_rt]
  have h2 : List.filter (fun kv : String × SrcWm => !(List.map ((fun x : String × SrcWmCkpt => x.1) ∘ fun kv : String × SrcWm => (kv.1, kv.2.ckpt)) srcs).contains kv.1) src0 = [] := by
    apply List.filter_eq_nil_iff.mpr
    intro kv hkv
    have := h0 kv hkv
    simp only [Function.comp_def, Bool.not_eq_true, Bool.not_eq_false', List.contains_iff_mem] at this ⊢
    simpa using this
  rw [h1, h2, List.append_nil]
  congr 1
  cases la with
  | none =>
    have := hi rfl
    simp only at this
    subst this
    rfl
  | some t => simp [joinTs_split]

theorem wm_rt (w : WmSt) (src0 : List (String × SrcWm)) (_hn : (w.sources.map (·.1)).Nodup)
    (h0 : ∀ k, w.sources.lookup k = none → src0.lookup k = none)
    (hi : w.lastApplied = none → w.effective = none) :
    (∀ k, (WmSt.restore src0 w.ckpt).sources.lookup k = w.sources.lookup k)
      ∧ (WmSt.restore src0 w.ckpt).effective = w.effective
      ∧ (WmSt.restore src0 w.ckpt).lastApplied = w.lastApplied := by
  have h0' : ∀ kv ∈ src0, kv.1 ∈ w.sources.map (·.1) := by
    intro kv hkv
    by_cases hc : kv.1 ∈ w.sources.map (·.1)
    · exact hc
    · exact absurd (h0 kv.1 (lookup_none_of_not_mem w.sources kv.1 hc)) (lookup_ne_none_of_mem src0 kv hkv)
  rw [wm_restore_eq w src0 h0' hi]
  exact ⟨fun _ => rfl, rfl, rfl⟩

/-- `upsert` never removes a key -/
theorem mem_keys_upsert {α} (k k' : String) (v : α) (l : List (String × α)) (h : k ∈ l.map (·.1)) :
    k ∈ (upsert k' v l).map (·.1) := by
  induction l with
  | nil => cases h
  | cons a t ih =>
    obtain ⟨k2, v2⟩ := a
    simp only [upsert]
    by_cases h2 : k2 = k'
    · subst h2; simpa using h
    · simp only [h2, if_false, List.map_cons, List.mem_cons] at h ⊢
      rcases h with h | h
      · exact Or.inl h
      · exact Or.inr (ih h)

/-- sources are never removed from the tracker: every state reached from the freshly loaded
tracker still holds the registered sources (the premise of `wm_restore_eq`) -/
theorem keys_step (w : WmSt) (op : WmOp) (k : String) (h : k ∈ w.sources.map (·.1)) :
    k ∈ (w.step op).1.sources.map (·.1) := by
  have hr : ∀ x : WmSt, x.recompute.sources = x.sources := by
    intro x
    simp only [WmSt.recompute]
    split
    · rfl
    · split <;> rfl
  cases op with
  | observe src ts =>
    simp only [WmSt.step, WmSt.observe, hr]
    exact mem_keys_upsert _ _ _ _ h
  | advance src t =>
    simp only [WmSt.step, WmSt.advance]
    split
    · exact h
    · simp only [hr]; exact mem_keys_upsert _ _ _ _ h

theorem keys_run (ops : List WmOp) : ∀ (w : WmSt) (k : String), k ∈ w.sources.map (·.1) →
    k ∈ (ops.foldl (fun w op => (w.step op).1) w).sources.map (·.1) := by
  induction ops with
  | nil => intro w k h; exact h
  | cons op rest ih => intro w k h; exact ih _ k (keys_step w op k h)

theorem vars_rt (vars vars0 : List (String × Val)) (hn : (vars.map (·.1)).Nodup)
    (h0 : ∀ k, vars.lookup k = none → vars0.lookup k = none) (k : String) :
    ((vars.map fun kv => (kv.1, v2s kv.2)).foldl (fun acc kv => upsert kv.1 (s2v kv.2) acc) vars0).lookup k
      = vars.lookup k := by
  rw [lookup_foldl_upsert s2v _ _ _ (by simpa [List.map_map, Function.comp_def] using hn), lookup_map_snd]
  cases hl : vars.lookup k with
  | none => simp [h0 k hl]
  | some v => simp [s2v_v2s]


/-! ### the engine -/
theorem map_congr_mem {α β} (f g : α → β) (l : List α) (h : ∀ x ∈ l, f x = g x) : l.map f = l.map g := by
  induction l with
  | nil => rfl
  | cons a t ih =>
    simp only [List.map_cons, List.cons.injEq]
    exact ⟨h a List.mem_cons_self, ih fun x hx => h x (List.mem_cons_of_mem _ hx)⟩

theorem stream_rt (cfg : String → StreamCfg) (s : EngineSt) (vars0 : List (String × Val))
    (src0 : List (String × SrcWm)) (h : s.Restorable vars0 src0) (k : String) (st : StreamSt)
    (hm : (k, st) ∈ s.streams) :
    (StreamSt.restore (cfg k) (s.ckpt cfg) k st.fresh).view = st.view := by
  have hw : (s.ckpt cfg).windowStates.lookup k = st.win.map WinSt.ckpt := by
    simpa [EngineSt.ckpt, Option.map_map, Function.comp_def] using
      lookup_filterMap (fun _ (x : StreamSt) => x.win.map WinSt.ckpt) s.streams k st h.names hm
  have hs : (s.ckpt cfg).saseStates.lookup k = st.sase.map SaseSt.ckpt := by
    simpa [EngineSt.ckpt, Option.map_map, Function.comp_def] using
      lookup_filterMap (fun _ (x : StreamSt) => x.sase.map SaseSt.ckpt) s.streams k st h.names hm
  have hd : (s.ckpt cfg).distinctStates.lookup k = st.distinct.map distinctCkpt := by
    simpa [EngineSt.ckpt, Option.map_map, Function.comp_def] using
      lookup_filterMap (fun _ (x : StreamSt) => x.distinct.map distinctCkpt) s.streams k st h.names hm
  have hl : (s.ckpt cfg).limitStates.lookup k = st.limit := by
    simpa [EngineSt.ckpt, Option.map_map, Function.comp_def] using
      lookup_filterMap (fun _ (x : StreamSt) => x.limit) s.streams k st h.names hm
  have hj : (s.ckpt cfg).joinStates.lookup k = st.join.map fun j => j.ckpt (cfg k).join := by
    simpa [EngineSt.ckpt, Option.map_map, Function.comp_def] using
      lookup_filterMap (fun n (x : StreamSt) => x.join.map fun j => j.ckpt (cfg n).join) s.streams k st h.names hm
  obtain ⟨win, sase, join, dist, lim⟩ := st
  simp only [StreamSt.restore, StreamSt.fresh, StreamSt.view, hw, hs, hd, hl, hj]
  congr 1
  · cases win with
    | none => rfl
    | some w => simp [winSt_rt w (h.windows _ hm w rfl)]
  · cases sase with
    | none => rfl
    | some x =>
      simp only [Option.map_some]
      exact congrArg some (sase_view_rt x (h.sase _ hm x rfl))
  · cases join with
    | none => rfl
    | some j => simp [join_rt _ _ j (h.join _ hm j rfl) (h.joinWhole _ hm j rfl)]
  · cases dist with
    | none => rfl
    | some d => simp [distinct_rt d (h.distinct _ hm d rfl)]
  · cases lim with
    | none => rfl
    | some l => simp

theorem engine_rt (cfg : String → StreamCfg) (s : EngineSt) (vars0 : List (String × Val))
    (src0 : List (String × SrcWm)) (h : s.Restorable vars0 src0) :
    EngineSt.Equiv (EngineSt.restore cfg (s.fresh vars0 src0) (s.ckpt cfg)) s := by
  constructor
  · simp only [EngineSt.restore, EngineSt.fresh, List.map_map]
    apply map_congr_mem
    intro kv hkv
    obtain ⟨k, st⟩ := kv
    simp only [Function.comp, Prod.mk.injEq, true_and]
    exact stream_rt cfg s vars0 src0 h k st hkv
  · intro k
    simp only [EngineSt.restore, EngineSt.fresh, EngineSt.ckpt]
    exact vars_rt s.variables vars0 h.varNames h.vars0 k
  · rfl
  · rfl
  · cases hw : s.wm with
    | none => simp [EngineSt.restore, EngineSt.fresh, EngineSt.ckpt, hw]
    | some w =>
      simp only [EngineSt.restore, EngineSt.fresh, EngineSt.ckpt, hw, Option.map_some, Option.getD_some]
      exact wm_rt w src0 (h.srcNames w hw) (h.src0 w hw) (h.applied w hw)


end Varpulis.Ckpt
