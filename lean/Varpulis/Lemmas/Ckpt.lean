import Varpulis.Model.Ckpt
/-! Helper lemmas for M-CKPT part 1 (C20): every encoder is clean, every decoder inverts its encoder. -/
namespace Varpulis.Ckpt

mutual
theorem wire_clean : ∀ j, Clean j = true → wire j = j
  | .null, _ => by simp [wire]
  | .bool _, _ => by simp [wire]
  | .int _, _ => by simp [wire]
  | .num f, h => by simp [Clean] at h; simp [wire, h]
  | .str _, _ => by simp [wire]
  | .arr l, h => by simp [Clean] at h; simp [wire, wireL_clean l h]
  | .obj l, h => by simp [Clean] at h; simp [wire, wireO_clean l h]
theorem wireL_clean : ∀ l, CleanL l = true → wireL l = l
  | [], _ => by simp [wireL]
  | j :: js, h => by simp [CleanL] at h; simp [wireL, wire_clean j h.1, wireL_clean js h.2]
theorem wireO_clean : ∀ l, CleanO l = true → wireO l = l
  | [], _ => by simp [wireO]
  | (k, j) :: r, h => by simp [CleanO] at h; simp [wireO, wire_clean j h.1, wireO_clean r h.2]
end

theorem cleanL_map {α} (f : α → Json) (l : List α) (h : ∀ a, Clean (f a) = true) : CleanL (l.map f) = true := by
  induction l with
  | nil => simp [CleanL]
  | cons a t ih => simp [CleanL, h a, ih]

theorem cleanO_map {α} (f : α → Json) (l : List (String × α)) (h : ∀ a, Clean (f a) = true) :
    CleanO (l.map fun kv => (kv.1, f kv.2)) = true := by
  induction l with
  | nil => simp [CleanO]
  | cons a t ih => obtain ⟨k, v⟩ := a; simp [CleanO, h v, ih]

theorem mapM_map_rt {α} (f : α → Json) (d : Json → Option α) (h : ∀ a, d (f a) = some a) (l : List α) :
    (l.map f).mapM d = some l := by
  induction l with
  | nil => simp
  | cons a t ih => simp [List.mapM_cons, h a, ih]

theorem decList_encList {α} (f : α → Json) (d : Json → Option α) (h : ∀ a, d (f a) = some a) (l : List α) :
    decList d (encList f l) = some l := by
  simp [decList, encList, mapM_map_rt f d h]

theorem decMap_encMap {α} (f : α → Json) (d : Json → Option α) (h : ∀ a, d (f a) = some a) (m : List (String × α)) :
    decMap d (encMap f m) = some m := by
  simp only [decMap, encMap]
  induction m with
  | nil => simp
  | cons a t ih => obtain ⟨k, v⟩ := a; simp [List.mapM_cons, h v] at ih ⊢; simp [ih]

theorem decOpt_encOpt {α} (f : α → Json) (d : Json → Option α) (h : ∀ a, d (f a) = some a)
    (hn : ∀ a, f a ≠ .null) (o : Option α) : decOpt d (encOpt f o) = some o := by
  cases o with
  | none => simp [encOpt, decOpt]
  | some a =>
    simp only [encOpt]
    have := hn a
    cases hfa : f a <;> simp_all [decOpt] <;> (rw [← hfa, h a])

theorem decNat_int (n : Nat) : decNat (.int (n : Int)) = some n := by simp [decNat]

mutual
theorem s2v_v2s : ∀ v, s2v (v2s v) = v
  | .int _ => by simp [v2s, s2v]
  | .float _ => by simp [v2s, s2v]
  | .bool _ => by simp [v2s, s2v]
  | .str _ => by simp [v2s, s2v]
  | .null => by simp [v2s, s2v]
  | .ts _ => by simp [v2s, s2v]
  | .dur _ => by simp [v2s, s2v]
  | .arr l => by simp [v2s, s2v, s2vL_v2sL l]
  | .map l => by simp [v2s, s2v, s2vM_v2sM l]
theorem s2vL_v2sL : ∀ l, s2vL (v2sL l) = l
  | [] => by simp [v2sL, s2vL]
  | v :: vs => by simp [v2sL, s2vL, s2v_v2s v, s2vL_v2sL vs]
theorem s2vM_v2sM : ∀ l, s2vM (v2sM l) = l
  | [] => by simp [v2sM, s2vM]
  | (k, v) :: r => by simp [v2sM, s2vM, s2v_v2s v, s2vM_v2sM r]
end

theorem decF_encF (f : F64) : decF (encF f) = some f := by cases f <;> simp [encF, decF]
theorem clean_encF (f : F64) : Clean (encF f) = true := by cases f <;> simp [encF, Clean, F64.isFinite]

mutual
theorem decSV_encSV : ∀ v, decSV (encSV v) = some v
  | .int _ => by simp [encSV, decSV, decInt]
  | .float f => by simp [encSV, decSV, decF_encF]
  | .bool _ => by simp [encSV, decSV, decBool]
  | .str _ => by simp [encSV, decSV, decStr]
  | .null => by simp [encSV, decSV]
  | .ts _ => by simp [encSV, decSV, decInt]
  | .dur _ => by simp [encSV, decSV, decNat]
  | .arr l => by simp [encSV, decSV, decSVs_encSVs l]
  | .map l => by simp [encSV, decSV, decSVm_encSVm l]
theorem decSVs_encSVs : ∀ l, decSVs (encSVs l) = some l
  | [] => by simp [encSVs, decSVs]
  | v :: vs => by simp [encSVs, decSVs, decSV_encSV v, decSVs_encSVs vs]
theorem decSVm_encSVm : ∀ l, decSVm (encSVm l) = some l
  | [] => by simp [encSVm, decSVm]
  | (k, v) :: r => by simp [encSVm, decSVm, decSV_encSV v, decSVm_encSVm r]
end

mutual
theorem clean_encSV : ∀ v, Clean (encSV v) = true
  | .int _ => by simp [encSV, Clean, CleanO]
  | .float f => by simp [encSV, Clean, CleanO, clean_encF]
  | .bool _ => by simp [encSV, Clean, CleanO]
  | .str _ => by simp [encSV, Clean, CleanO]
  | .null => by simp [encSV, Clean]
  | .ts _ => by simp [encSV, Clean, CleanO]
  | .dur _ => by simp [encSV, Clean, CleanO]
  | .arr l => by simp [encSV, Clean, CleanO, clean_encSVs l]
  | .map l => by simp [encSV, Clean, CleanO, clean_encSVm l]
theorem clean_encSVs : ∀ l, CleanL (encSVs l) = true
  | [] => by simp [encSVs, CleanL]
  | v :: vs => by simp [encSVs, CleanL, clean_encSV v, clean_encSVs vs]
theorem clean_encSVm : ∀ l, CleanL (encSVm l) = true
  | [] => by simp [encSVm, CleanL]
  | (k, v) :: r => by simp [encSVm, CleanL, Clean, clean_encSV v, clean_encSVm r]
end

theorem encSV_ne_null (v : SV) : encSV v ≠ .null := by cases v <;> simp [encSV]

theorem decSE_encSE (e : SerEvent) : decSE (encSE e) = some e := by
  simp [decSE, encSE, req, dflt, List.lookup, decStr, decInt, decNat_int, decMap_encMap encSV decSV decSV_encSV]

theorem clean_encSE (e : SerEvent) : Clean (encSE e) = true := by
  simp [encSE, Clean, CleanO, encMap, cleanO_map encSV _ clean_encSV]

theorem encSE_ne_null (e : SerEvent) : encSE e ≠ .null := by simp [encSE]

private theorem natInt_ne_null (n : Nat) : (Json.int (n : Int)) ≠ .null := by simp
private theorem int_ne_null (i : Int) : Json.int i ≠ .null := by simp

theorem decOptInt (o : Option Int) : decOpt decInt (encOpt .int o) = some o :=
  decOpt_encOpt _ _ (by simp [decInt]) (by simp) o

theorem decOptNat (o : Option Nat) : decOpt decNat (encOpt (fun n : Nat => Json.int n) o) = some o :=
  decOpt_encOpt _ _ (by simp [decNat]) (by simp) o

theorem decOptStr (o : Option String) : decOpt decStr (encOpt .str o) = some o :=
  decOpt_encOpt _ _ (by simp [decStr]) (by simp) o

theorem clean_encOpt {α} (f : α → Json) (h : ∀ a, Clean (f a) = true) (o : Option α) : Clean (encOpt f o) = true := by
  cases o <;> simp [encOpt, Clean, h]

theorem clean_encOptInt (o : Option Int) : Clean (encOpt Json.int o) = true :=
  clean_encOpt _ (by simp [Clean]) o

theorem clean_encOptNat (o : Option Nat) : Clean (encOpt (fun n : Nat => Json.int n) o) = true :=
  clean_encOpt _ (by simp [Clean]) o

theorem clean_encOptStr (o : Option String) : Clean (encOpt Json.str o) = true :=
  clean_encOpt _ (by simp [Clean]) o

theorem clean_encList {α} (f : α → Json) (h : ∀ a, Clean (f a) = true) (l : List α) : Clean (encList f l) = true := by
  simp [encList, Clean, cleanL_map f l h]

theorem clean_encMap {α} (f : α → Json) (h : ∀ a, Clean (f a) = true) (m : List (String × α)) : Clean (encMap f m) = true := by
  simp [encMap, Clean, cleanO_map f m h]

/-! ### windows -/
theorem decPWC_encPWC (p : PartWinCkpt) : decPWC (encPWC p) = some p := by
  simp [decPWC, encPWC, req, optF, dflt, decNat_int, List.lookup, decList_encList encSE decSE decSE_encSE, decOptInt, decOptNat]

theorem clean_encPWC (p : PartWinCkpt) : Clean (encPWC p) = true := by
  simp [encPWC, Clean, CleanO, clean_encList encSE clean_encSE, clean_encOptInt, clean_encOptNat]

theorem decWC_encWC (w : WindowCkpt) : decWC (encWC w) = some w := by
  simp [decWC, encWC, req, optF, dflt, decNat_int, List.lookup, decList_encList encSE decSE decSE_encSE, decOptInt, decOptNat,
    decMap_encMap encPWC decPWC decPWC_encPWC]

theorem clean_encWC (w : WindowCkpt) : Clean (encWC w) = true := by
  simp [encWC, Clean, CleanO, clean_encList encSE clean_encSE, clean_encOptInt, clean_encOptNat, clean_encMap encPWC clean_encPWC]

/-! ### SASE -/
theorem decStack_encStack (s : StackCkpt) : decStack (encStack s) = some s := by
  simp [decStack, encStack, req, optF, List.lookup, decSE_encSE, decOptStr]

theorem clean_encStack (s : StackCkpt) : Clean (encStack s) = true := by
  simp [encStack, Clean, CleanO, clean_encSE, clean_encOptStr]

theorem decAB_encAB (p : Nat × SerEvent) : decAB (encAB p) = some p := by
  simp [decAB, encAB, decNat_int, decSE_encSE]

theorem clean_encAB (p : Nat × SerEvent) : Clean (encAB p) = true := by
  simp [encAB, Clean, CleanL, clean_encSE]

theorem decRun_encRun (r : RunCkpt) : decRun (encRun r) = some r := by
  simp [decRun, encRun, req, optF, dflt, List.lookup, decNat_int, decBool, decOptInt,
    decOpt_encOpt (encList encAB) (decList decAB) (decList_encList encAB decAB decAB_encAB) (by simp [encList]),
    decList_encList encStack decStack decStack_encStack, decMap_encMap encSE decSE decSE_encSE,
    decOpt_encOpt encSV decSV decSV_encSV encSV_ne_null,
    decOpt_encOpt (encList encSE) (decList decSE) (decList_encList encSE decSE decSE_encSE) (by simp [encList])]

theorem clean_encRun (r : RunCkpt) : Clean (encRun r) = true := by
  simp [encRun, Clean, CleanO, clean_encList encStack clean_encStack, clean_encMap encSE clean_encSE,
    clean_encOptInt, clean_encOpt encSV clean_encSV, clean_encOpt (encList encSE) (clean_encList encSE clean_encSE),
    clean_encOpt (encList encAB) (clean_encList encAB clean_encAB)]

theorem decSase_encSase (s : SaseCkpt) : decSase (encSase s) = some s := by
  simp [decSase, encSase, req, optF, dflt, List.lookup, decNat_int, decOptInt,
    decList_encList encRun decRun decRun_encRun,
    decMap_encMap (encList encRun) (decList decRun) (decList_encList encRun decRun decRun_encRun)]

theorem clean_encSase (s : SaseCkpt) : Clean (encSase s) = true := by
  simp [encSase, Clean, CleanO, clean_encList encRun clean_encRun, clean_encOptInt,
    clean_encMap (encList encRun) (clean_encList encRun clean_encRun)]

/-! ### join, watermarks, distinct, limit -/
theorem decJE_encJE (p : Int × SerEvent) : decJE (encJE p) = some p := by
  simp [decJE, encJE, decSE_encSE]

theorem clean_encJE (p : Int × SerEvent) : Clean (encJE p) = true := by
  simp [encJE, Clean, CleanL, clean_encSE]

theorem decQE_encQE (q : QEntry) : decQE (encQE q) = some q := by
  simp [decQE, encQE, decInt, decNat_int, decStr]

theorem clean_encQE (q : QEntry) : Clean (encQE q) = true := by
  simp [encQE, Clean, CleanL]

theorem decJoin_encJoin (j : JoinCkpt) : decJoin (encJoin j) = some j := by
  simp [decJoin, encJoin, req, optF, dflt, decNat_int, decOptInt, List.lookup, decInt,
    decOpt_encOpt (encList encQE) (decList decQE) (decList_encList encQE decQE decQE_encQE) (by simp [encList]),
    decMap_encMap (encMap (encList encJE)) (decMap (decList decJE))
      (decMap_encMap (encList encJE) (decList decJE) (decList_encList encJE decJE decJE_encJE)),
    decList_encList Json.str decStr (by simp [decStr]), decMap_encMap Json.str decStr (by simp [decStr])]

theorem clean_encJoin (j : JoinCkpt) : Clean (encJoin j) = true := by
  simp [encJoin, Clean, CleanO,
    clean_encMap (encMap (encList encJE)) (clean_encMap (encList encJE) (clean_encList encJE clean_encJE)),
    clean_encList Json.str (by simp [Clean]), clean_encMap Json.str (by simp [Clean]), clean_encOptInt,
    clean_encOpt (encList encQE) (clean_encList encQE clean_encQE)]

theorem decSrcWm_encSrcWm (s : SrcWmCkpt) : decSrcWm (encSrcWm s) = some s := by
  simp [decSrcWm, encSrcWm, req, optF, dflt, decNat_int, List.lookup, decInt, decOptInt]

theorem clean_encSrcWm (s : SrcWmCkpt) : Clean (encSrcWm s) = true := by
  simp [encSrcWm, Clean, CleanO, clean_encOptInt]

theorem decWm_encWm (w : WmCkpt) : decWm (encWm w) = some w := by
  simp [decWm, encWm, req, optF, dflt, decNat_int, List.lookup, decOptInt, decMap_encMap encSrcWm decSrcWm decSrcWm_encSrcWm]

theorem clean_encWm (w : WmCkpt) : Clean (encWm w) = true := by
  simp [encWm, Clean, CleanO, clean_encOptInt, clean_encMap encSrcWm clean_encSrcWm]

theorem decDistinct_encDistinct (k : List String) : decDistinct (encDistinct k) = some k := by
  simp [decDistinct, encDistinct, req, List.lookup, decList_encList Json.str decStr (by simp [decStr])]

theorem clean_encDistinct (k : List String) : Clean (encDistinct k) = true := by
  simp [encDistinct, Clean, CleanO, clean_encList Json.str (by simp [Clean])]

theorem decLimit_encLimit (l : Nat × Nat) : decLimit (encLimit l) = some l := by
  simp [decLimit, encLimit, req, List.lookup, decNat_int]

theorem clean_encLimit (l : Nat × Nat) : Clean (encLimit l) = true := by
  simp [encLimit, Clean, CleanO]

/-! ### engine and store checkpoints -/
theorem encWm_ne_null (w : WmCkpt) : encWm w ≠ .null := by simp [encWm]

theorem decEngine_encEngine (c : EngineCkpt) : decEngine (encEngine c) = some c := by
  simp [decEngine, encEngine, req, optF, dflt, List.lookup, decNat_int,
    decMap_encMap encWC decWC decWC_encWC, decMap_encMap encSase decSase decSase_encSase,
    decMap_encMap encJoin decJoin decJoin_encJoin, decMap_encMap encSV decSV decSV_encSV,
    decOpt_encOpt encWm decWm decWm_encWm encWm_ne_null,
    decMap_encMap encDistinct decDistinct decDistinct_encDistinct,
    decMap_encMap encLimit decLimit decLimit_encLimit]

theorem clean_encEngine (c : EngineCkpt) : Clean (encEngine c) = true := by
  simp [encEngine, Clean, CleanO, clean_encMap encWC clean_encWC, clean_encMap encSase clean_encSase,
    clean_encMap encJoin clean_encJoin, clean_encMap encSV clean_encSV, clean_encOpt encWm clean_encWm,
    clean_encMap encDistinct clean_encDistinct, clean_encMap encLimit clean_encLimit]

theorem decPM_encPM (p : PartialMatchCkpt) : decPM (encPM p) = some p := by
  simp [decPM, encPM, req, List.lookup, decStr, decInt, decList_encList encSE decSE decSE_encSE]

theorem clean_encPM (p : PartialMatchCkpt) : Clean (encPM p) = true := by
  simp [encPM, Clean, CleanO, clean_encList encSE clean_encSE]

theorem decPattern_encPattern (l : List PartialMatchCkpt) : decPattern (encPattern l) = some l := by
  simp [decPattern, encPattern, req, List.lookup, decList_encList encPM decPM decPM_encPM]

theorem clean_encPattern (l : List PartialMatchCkpt) : Clean (encPattern l) = true := by
  simp [encPattern, Clean, CleanO, clean_encList encPM clean_encPM]

theorem decCkpt_encCkpt (c : Ckpt) : decCkpt (encCkpt c) = some c := by
  simp [decCkpt, encCkpt, req, dflt, List.lookup, decNat_int, decInt,
    decMap_encMap encWC decWC decWC_encWC, decMap_encMap encPattern decPattern decPattern_encPattern,
    decMap_encMap Json.str decStr (by simp [decStr]), decMap_encMap encEngine decEngine decEngine_encEngine]

theorem clean_encCkpt (c : Ckpt) : Clean (encCkpt c) = true := by
  simp [encCkpt, Clean, CleanO, clean_encMap encWC clean_encWC, clean_encMap encPattern clean_encPattern,
    clean_encMap Json.str (by simp [Clean]), clean_encMap encEngine clean_encEngine]

/-! ### time -/
theorem ofMs_msOf_add (t : Int) : ofMs (msOf t) + ((t % 1000000).toNat : Int) = t := by
  simp only [ofMs, msOf]; omega

theorem ofMs_msOf_whole (t : Int) (h : t % 1000000 = 0) : ofMs (msOf t) = t := by
  simp only [ofMs, msOf]; omega

end Varpulis.Ckpt
