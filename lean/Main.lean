import Varpulis.Driver.Util
import Varpulis.Driver.Zdd
open Varpulis.Driver

def main (args : List String) : IO UInt32 := do
  let stdin ← IO.getStdin
  let stdout ← IO.getStdout
  match args with
  | ["zdd"] => loopLines stdin stdout ZddD.driver ZddD.driver.init; return 0
  | _ => IO.eprintln "usage: vmodel <driver>"; return 2
