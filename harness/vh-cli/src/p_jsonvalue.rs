//! C44: event values through the REST API.
//!  conv   — the private `json_to_runtime_value` (hook) on the serde_json tree of a generated payload
//!  back   — `json_from_value` (hook) and `websocket::value_to_json` on generated runtime values
//!  inject / batch — the same payload as the `fields` of POST …/events and …/events-batch against the
//!           real `api_routes` (`warp::test`), through a pipeline that emits its four fields unchanged;
//!           the answer is the first output event's fields.
//! Trees are written in the syntax of Driver/JsonValue.lean. Payload texts are rendered by hand so that
//! integer literals beyond u64 and exact float literals reach the server as written.
use crate::util::{Ctx, Rng};
use std::sync::Arc;
use varpulis_core::value::FxIndexMap;
use varpulis_core::Value;
use varpulis_runtime::tenant::{SharedTenantManager, TenantManager, TenantQuota};

pub const NAMES: &[&str] = &["C44"];

#[derive(Clone, Debug)]
enum J { Null, Bool(bool), Int(i128), Float(f64), Str(String), Arr(Vec<J>), Obj(Vec<(String, J)>) }

fn hex(s: &str) -> String { s.bytes().map(|b| format!("{:02x}", b)).collect() }

impl J {
    /// JSON text as sent
    fn text(&self) -> String {
        match self {
            J::Null => "null".into(),
            J::Bool(b) => b.to_string(),
            J::Int(n) => n.to_string(),
            J::Float(f) => {
                let s = serde_json::to_string(f).unwrap();
                if s.contains('.') || s.contains('e') || s.contains('E') { s } else { format!("{s}.0") }
            }
            J::Str(s) => serde_json::to_string(s).unwrap(),
            J::Arr(xs) => format!("[{}]", xs.iter().map(|x| x.text()).collect::<Vec<_>>().join(",")),
            J::Obj(kvs) => format!("{{{}}}", kvs.iter().map(|(k, v)| format!("{}:{}", serde_json::to_string(k).unwrap(), v.text())).collect::<Vec<_>>().join(",")),
        }
    }
    /// the tree in the line-protocol syntax
    fn show(&self) -> String {
        match self {
            J::Null => "N".into(),
            J::Bool(b) => if *b { "B1".into() } else { "B0".into() },
            J::Int(n) => format!("I{n}"),
            J::Float(f) => format!("D{:016x}", f.to_bits()),
            J::Str(s) => format!("S{}", hex(s)),
            J::Arr(xs) => format!("A[{}]", xs.iter().map(|x| x.show()).collect::<Vec<_>>().join(",")),
            J::Obj(kvs) => format!("O{{{}}}", kvs.iter().map(|(k, v)| format!("{}:{}", hex(k), v.show())).collect::<Vec<_>>().join(",")),
        }
    }
    fn has_big(&self) -> bool {
        match self {
            J::Int(n) => *n < i64::MIN as i128 || *n > i64::MAX as i128,
            J::Arr(xs) => xs.iter().any(|x| x.has_big()),
            J::Obj(kvs) => kvs.iter().any(|(_, v)| v.has_big()),
            _ => false,
        }
    }
}

fn show_value(v: &Value) -> String {
    match v {
        Value::Null => "N".into(),
        Value::Bool(b) => if *b { "B1".into() } else { "B0".into() },
        Value::Int(i) => format!("I{i}"),
        Value::Float(f) => format!("D{:016x}", f.to_bits()),
        Value::Str(s) => format!("S{}", hex(s)),
        Value::Timestamp(t) => format!("Ts{t}"),
        Value::Duration(d) => format!("Du{d}"),
        Value::Array(xs) => format!("A[{}]", xs.iter().map(show_value).collect::<Vec<_>>().join(",")),
        Value::Map(m) => format!("O{{{}}}", m.iter().map(|(k, v)| format!("{}:{}", hex(k), show_value(v))).collect::<Vec<_>>().join(",")),
    }
}

fn show_serde(v: &serde_json::Value) -> String {
    use serde_json::Value as S;
    match v {
        S::Null => "N".into(),
        S::Bool(b) => if *b { "B1".into() } else { "B0".into() },
        S::Number(n) => {
            if let Some(i) = n.as_i64() { format!("I{i}") }
            else if let Some(u) = n.as_u64() { format!("I{u}") }
            else { format!("D{:016x}", n.as_f64().unwrap_or(f64::NAN).to_bits()) }
        }
        S::String(s) => format!("S{}", hex(s)),
        S::Array(xs) => format!("A[{}]", xs.iter().map(show_serde).collect::<Vec<_>>().join(",")),
        S::Object(m) => format!("O{{{}}}", m.iter().map(|(k, v)| format!("{}:{}", hex(k), show_serde(v))).collect::<Vec<_>>().join(",")),
    }
}

// ----------------------------------------------------------------------------- generators

const INTS: &[i128] = &[
    0, 1, -1, 2, 42, -7, 255, 65536, 4294967295, 4294967296, -2147483649,
    9007199254740991, 9007199254740992, 9007199254740993, -9007199254740993,   // 2^53 neighbourhood (exact in i64, not in f64)
    9223372036854775806, 9223372036854775807, -9223372036854775807, -9223372036854775808,   // i64 boundaries
];
/// the known finding's domain: u64 above i64::MAX (serde_json keeps them as integers) …
const BIG_U64: &[i128] = &[9223372036854775808, 9223372036854775809, 9223372036854776832, 9223372036854776833,
    12345678901234567890, 18446744073709551614, 18446744073709551615];
/// … and integer literals serde_json itself already reads as floats (exactly representable ones only)
const BEYOND: &[i128] = &[18446744073709551616, 36893488147419103232, -9223372036854775808 * 2, -18446744073709551616];

fn gen_float(rng: &mut Rng) -> f64 {
    const FS: &[f64] = &[0.0, -0.0, 1.0, -1.0, 0.5, 1.5, 0.1, 2.5e-3, 1e21, 1e-7, 123456.789, 9007199254740992.0,
        9223372036854775808.0, 1.7976931348623157e308, 5e-324, 2.2250738585072014e-308, 3.141592653589793, -2.718281828459045e100];
    if rng.chance(1, 2) { *rng.pick(FS) } else {
        loop {
            let f = f64::from_bits(rng.next());
            if f.is_finite() && literal_exact(f) { return f; }
        }
    }
}

/// serde_json without its `float_roundtrip` feature (the workspace does not enable it) reads a
/// 16-17 digit float literal up to a few ULP off — before any repo code runs. Only floats whose
/// shortest literal serde_json reads back exactly are used as inputs (the others are counted).
fn literal_exact(f: f64) -> bool {
    let ok = serde_json::to_string(&f).ok().and_then(|s| serde_json::from_str::<f64>(&s).ok()).map(|g| g.to_bits() == f.to_bits()).unwrap_or(false);
    if !ok { INEXACT.fetch_add(1, std::sync::atomic::Ordering::Relaxed); }
    ok
}
static INEXACT: std::sync::atomic::AtomicU64 = std::sync::atomic::AtomicU64::new(0);

fn gen_string(rng: &mut Rng) -> String {
    const SS: &[&str] = &["", "a", "hello world", "42", "true", "null", "1.5", "\"quoted\"", "back\\slash", "line\nbreak\ttab",
        "é", "日本語", "😀", "\u{0}", "\u{7f}\u{80}", " lead", "trail ", "{\"k\":1}", "[1,2]", "\u{2028}"];
    if rng.chance(3, 4) { rng.pick(SS).to_string() } else {
        let n = rng.below(6) as usize;
        (0..n).map(|_| char::from_u32(match rng.below(4) { 0 => 32 + rng.below(95) as u32, 1 => 0xA0 + rng.below(0x500) as u32, 2 => 0x4E00 + rng.below(0x100) as u32, _ => 0x1F600 + rng.below(0x40) as u32 }).unwrap_or('?')).collect()
    }
}

fn gen_key(rng: &mut Rng, i: usize) -> String {
    const KS: &[&str] = &["a", "b", "key", "k k", "é", "", "0", "a.b", "event_type2", "Z", "日"];
    format!("{}{}", rng.pick(KS), i)
}

fn gen_json(rng: &mut Rng, depth: u32, big: bool) -> J {
    let leaf = depth == 0 || rng.chance(3, 5);
    if leaf {
        match rng.below(if big { 8 } else { 7 }) {
            0 => J::Null,
            1 => J::Bool(rng.chance(1, 2)),
            2 => J::Int(*rng.pick(INTS)),
            3 => J::Int(rng.next() as i64 as i128 >> rng.below(63)),
            4 => J::Float(gen_float(rng)),
            5 | 6 => J::Str(gen_string(rng)),
            _ => J::Int(if rng.chance(4, 5) { *rng.pick(BIG_U64) } else { *rng.pick(BEYOND) }),
        }
    } else if rng.chance(1, 2) {
        let n = rng.below(4) as usize;
        J::Arr((0..n).map(|_| gen_json(rng, depth - 1, big)).collect())
    } else {
        let n = rng.below(4) as usize;
        // keys sorted and distinct: serde_json's map order and the request order then coincide
        let mut kvs: Vec<(String, J)> = (0..n).map(|i| (gen_key(rng, i), gen_json(rng, depth - 1, big))).collect();
        kvs.sort_by(|a, b| a.0.cmp(&b.0));
        kvs.dedup_by(|a, b| a.0 == b.0);
        J::Obj(kvs)
    }
}

fn gen_value(rng: &mut Rng, depth: u32) -> Value {
    let leaf = depth == 0 || rng.chance(3, 5);
    if leaf {
        match rng.below(10) {
            0 => Value::Null,
            1 => Value::Bool(rng.chance(1, 2)),
            2 => Value::Int(*rng.pick(INTS) as i64),
            3 => Value::Int(rng.next() as i64),
            4 => Value::Float(gen_float(rng)),
            5 => Value::Float(*rng.pick(&[f64::NAN, f64::INFINITY, f64::NEG_INFINITY])),
            6 => Value::Str(gen_string(rng).into()),
            7 => Value::Timestamp(*rng.pick(&[0i64, 1, -1, 1_700_000_000_000_000_000, i64::MAX, i64::MIN])),
            8 => Value::Duration(*rng.pick(&[0u64, 1, 1_000_000_000, 9223372036854775808, u64::MAX])),
            _ => Value::Str(gen_string(rng).into()),
        }
    } else if rng.chance(1, 2) {
        let n = rng.below(4) as usize;
        Value::array((0..n).map(|_| gen_value(rng, depth - 1)).collect())
    } else {
        let n = rng.below(4) as usize;
        let mut kvs: Vec<(String, Value)> = (0..n).map(|i| (gen_key(rng, i), gen_value(rng, depth - 1))).collect();
        kvs.sort_by(|a, b| a.0.cmp(&b.0));
        kvs.dedup_by(|a, b| a.0 == b.0);
        let mut m: FxIndexMap<Arc<str>, Value> = FxIndexMap::default();
        for (k, v) in kvs { m.insert(k.as_str().into(), v); }
        Value::map(m)
    }
}

// ----------------------------------------------------------------------------- HTTP

const FIELDS: &[&str] = &["f0", "f1", "f2", "f3"];
const PIPELINE: &str = "stream Out = E\n    .emit(f0: f0, f1: f1, f2: f2, f3: f3)\n";

async fn post(routes: &(impl warp::Filter<Extract = (impl warp::Reply + Send,), Error = warp::Rejection> + Clone + Send + Sync + 'static),
              path: &str, body: String) -> (u16, serde_json::Value) {
    let resp = warp::test::request().method("POST").path(path).header("x-api-key", "k44")
        .header("content-type", "application/json").body(body).reply(routes).await;
    (resp.status().as_u16(), serde_json::from_slice(resp.body()).unwrap_or(serde_json::Value::Null))
}

fn first_output_fields(body: &serde_json::Value, batch: bool) -> String {
    let evs = body.get("output_events").and_then(|e| e.as_array()).cloned().unwrap_or_default();
    match evs.first() {
        None => "-".into(),
        Some(e) => {
            let obj = if batch {
                // flat form: drop the event_type entry
                let mut m = e.as_object().cloned().unwrap_or_default();
                m.remove("event_type");
                serde_json::Value::Object(m)
            } else { e.get("fields").cloned().unwrap_or(serde_json::Value::Null) };
            show_serde(&obj)
        }
    }
}

pub fn run(ctx: &mut Ctx, name: &str) {
    run_inner(ctx, name);
    let n = INEXACT.load(std::sync::atomic::Ordering::Relaxed);
    ctx.count_n("float-literals-skipped:serde_json-reads-them-inexactly", n);
    ctx.notes.push(format!("{n} random floats skipped because serde_json (no float_roundtrip feature) does not read their shortest literal back exactly"));
}

fn run_inner(ctx: &mut Ctx, _name: &str) {
    let n_conv = if ctx.thorough { 30000 } else { 2500 };
    let n_back = if ctx.thorough { 10000 } else { 1000 };
    let n_http = if ctx.thorough { 4000 } else { 400 };
    ctx.directive("new");

    // fixed witnesses first: the finding's identity and the boundaries
    let mut fixed: Vec<J> = INTS.iter().chain(BIG_U64).chain(BEYOND).map(|n| J::Int(*n)).collect();
    fixed.push(J::Arr(vec![J::Int(18446744073709551615), J::Obj(vec![("k".into(), J::Int(9223372036854775808))])]));
    let mut conv_cases: Vec<J> = fixed.clone();
    for i in 0..n_conv {
        let depth = 1 + ctx.rng.below(4) as u32;
        let big = i % 10 == 0;
        conv_cases.push(gen_json(&mut ctx.rng, depth, big));
    }
    for j in &conv_cases {
        let text = j.text();
        let parsed: serde_json::Value = match serde_json::from_str(&text) {
            Ok(v) => v,
            Err(e) => { eprintln!("generator error: serde_json rejects {text}: {e}"); std::process::exit(3) }
        };
        let v = varpulis_cli::api::verif_json_to_runtime_value(&parsed);
        ctx.count(if j.has_big() { "conv:with-out-of-i64-integer" } else { "conv:in-domain" });
        ctx.case(&format!("conv {}", j.show()), &show_value(&v));
    }

    for _ in 0..n_back {
        let depth = ctx.rng.below(4) as u32;
        let v = gen_value(&mut ctx.rng, depth);
        let a = varpulis_cli::api::verif_json_from_value(&v);
        ctx.case(&format!("back {}", show_value(&v)), &show_serde(&a));
        let b = varpulis_cli::websocket::value_to_json(&v);
        ctx.case(&format!("wsback {}", show_value(&v)), &show_serde(&b));
        ctx.count("back");
    }

    let rt = tokio::runtime::Builder::new_multi_thread().worker_threads(2).enable_all().build().expect("runtime");
    rt.block_on(async {
        let mut mgr = TenantManager::new();
        // quota without an events-per-second limit so that the run is not rate limited
        let quota = TenantQuota { max_pipelines: 10, max_events_per_second: 0, max_streams_per_pipeline: 50 };
        let tid = mgr.create_tenant("T".into(), "k44".into(), quota).expect("tenant");
        let pid = match mgr.get_tenant_mut(&tid).unwrap().deploy_pipeline("P".into(), PIPELINE.into()).await {
            Ok(p) => p,
            Err(e) => { eprintln!("generator error: pass-through pipeline rejected: {e}"); std::process::exit(3) }
        };
        let mgr: SharedTenantManager = Arc::new(tokio::sync::RwLock::new(mgr));
        let routes = varpulis_cli::api::api_routes(mgr.clone(), None);
        let mut payloads: Vec<Vec<J>> = vec![];
        for chunk in fixed.chunks(4) {
            let mut c = chunk.to_vec();
            while c.len() < 4 { c.push(J::Null); }
            payloads.push(c);
        }
        for i in 0..n_http {
            let big = i % 10 == 0;
            payloads.push((0..4).map(|_| { let d = ctx.rng.below(4) as u32; gen_json(&mut ctx.rng, d, big) }).collect());
        }
        // a second pipeline whose outputs are COMPUTED by the evaluator from the converted values
        let mut tpid = None;
        for src in ["stream Out = E\n    .emit(a: f0 + 1, b: -f1, c: f2, d: f3)\n", "stream Out = E\n    .emit(a: f0 + 1, b: f1 * -1.0, c: f2, d: f3)\n"] {
            let mut m = mgr.write().await;
            if let Ok(p) = m.get_tenant_mut(&tid).unwrap().deploy_pipeline("T".into(), src.into()).await { tpid = Some(p); break; }
        }
        let tpid = match tpid { Some(p) => p, None => { eprintln!("generator error: transforming pipeline rejected"); std::process::exit(3) } };
        let n_t = if ctx.thorough { 3000 } else { 300 };
        for i in 0..n_t {
            const NS: &[i128] = &[0, 1, -1, 41, -2, 9007199254740991, 9007199254740992, -9007199254740993, 4611686018427387904, -4611686018427387904,
                9223372036854775806, 9223372036854775805, -9223372036854775808, -9223372036854775807];
            let n = if ctx.rng.chance(1, 2) { *ctx.rng.pick(NS) } else { (ctx.rng.next() as i64 as i128 >> ctx.rng.below(63)).min(9223372036854775806) };
            let x = gen_float(&mut ctx.rng);
            let d2 = ctx.rng.below(3) as u32; let d3 = ctx.rng.below(4) as u32;
            let j2 = if ctx.rng.chance(1, 2) { J::Str(gen_string(&mut ctx.rng)) } else { gen_json(&mut ctx.rng, d2, false) };
            let j3 = gen_json(&mut ctx.rng, d3, i % 10 == 0);
            let obj = J::Obj(vec![("f0".into(), J::Int(n)), ("f1".into(), J::Float(x)), ("f2".into(), j2), ("f3".into(), j3)]);
            let single = format!("{{\"event_type\":\"E\",\"fields\":{}}}", obj.text());
            let (st, body) = post(&routes, &format!("/api/v1/pipelines/{tpid}/events"), single).await;
            ctx.count(&format!("tinject:{st}"));
            ctx.case(&format!("tinject {}", obj.show()), &format!("{} {}", st, first_output_fields(&body, false)));
            let batch = format!("{{\"events\":[{{\"event_type\":\"E\",\"fields\":{}}}]}}", obj.text());
            let (st, body) = post(&routes, &format!("/api/v1/pipelines/{tpid}/events-batch"), batch).await;
            ctx.count(&format!("tbatch:{st}"));
            ctx.case(&format!("tbatch {}", obj.show()), &format!("{} {}", st, first_output_fields(&body, true)));
        }
        for p in payloads {
            let obj = J::Obj(FIELDS.iter().zip(p.iter()).map(|(k, v)| (k.to_string(), v.clone())).collect());
            let single = format!("{{\"event_type\":\"E\",\"fields\":{}}}", obj.text());
            let (st, body) = post(&routes, &format!("/api/v1/pipelines/{pid}/events"), single).await;
            ctx.count(&format!("inject:{st}"));
            ctx.case(&format!("inject {}", obj.show()), &format!("{} {}", st, first_output_fields(&body, false)));
            let batch = format!("{{\"events\":[{{\"event_type\":\"E\",\"fields\":{}}}]}}", obj.text());
            let (st, body) = post(&routes, &format!("/api/v1/pipelines/{pid}/events-batch"), batch).await;
            ctx.count(&format!("batch:{st}"));
            ctx.case(&format!("batch {}", obj.show()), &format!("{} {}", st, first_output_fields(&body, true)));
        }
    });
}
