//! C29: every extracted route x credential kinds x RBAC configurations, through `warp::test`
//! against the REAL filter trees (`cluster_routes_with_raft`, `raft_routes`, `api_routes`) wrapped in
//! the production `recover(handle_rejection)`.  Both servers are driven from this one module: it lives in
//! vh-cli, whose varpulis-cluster dependency enables the `raft` feature (no RocksDB needed).
//!
//! The route list is NOT written here: it is `lean/Varpulis/Generated/routes.tsv`, regenerated from
//! the source by tools/extract_routes.py in the same `bin/check` run that builds the Lean tables.
//! Case lines (see Driver/Rbac.lean):
//!   new <app> anon=.. anonrole=.. keys=.. raft=.. tenants=.. admin=..
//!   anyadmin <+key|->                                     => ok
//!   req <route#> <method> <path> api=<+k|-> adm=<+k|->    => pass | deny <status> <same|changed> | nomatch <status>
use crate::util::Ctx;
use std::collections::HashMap;
use std::sync::Arc;
use varpulis_cluster::rbac::{ApiKeyEntry, RbacConfig, Role};
use varpulis_cluster::worker::{WorkerId, WorkerNode};
use varpulis_cluster::{ClusterConnector, SharedCoordinator};
use varpulis_runtime::tenant::{SharedTenantManager, TenantManager, TenantQuota};
use warp::Filter;

pub const NAMES: &[&str] = &["C29", "C29-raft-idle"];

#[derive(Clone, Debug)]
struct RouteRow {
    idx: usize,
    app: String,
    name: String,
    method: String,
    pattern: Vec<String>, // "{}" = parameter
    handler: String,
    body: bool,
}

fn load_routes() -> Vec<RouteRow> {
    let p = concat!(env!("CARGO_MANIFEST_DIR"), "/../../lean/Varpulis/Generated/routes.tsv");
    let text = std::fs::read_to_string(p).unwrap_or_else(|e| {
        eprintln!("cannot read {p}: {e} (run tools/extract_routes.py)");
        std::process::exit(3)
    });
    let mut out = Vec::new();
    for line in text.lines() {
        if line.starts_with('#') || line.trim().is_empty() { continue; }
        let f: Vec<&str> = line.split('\t').collect();
        if f[0] == "doc" || f[0] == "main" { continue; }
        out.push(RouteRow {
            idx: out.len(),
            app: f[0].to_string(),
            name: f[1].to_string(),
            method: f[2].to_string(),
            pattern: f[3].trim_matches('/').split('/').map(|s| s.to_string()).collect(),
            handler: f[6].to_string(),
            body: f[7] == "true",
        });
    }
    out
}

fn role_name(r: Role) -> &'static str {
    match r { Role::Viewer => "viewer", Role::Operator => "operator", Role::Admin => "admin" }
}
fn opt(k: &Option<String>) -> String { match k { Some(k) => format!("+{k}"), None => "-".into() } }

// ----------------------------------------------------------------------------- configurations

#[derive(Clone, Debug)]
struct Conf {
    keys: Vec<(String, Role)>,
    anon: bool,
    anon_role: Role,
    /// how the rbac object is built (exercises the constructors): "disabled" | "single" | "multi" | "file" | "fields"
    ctor: &'static str,
    /// None = production wiring `cluster_routes_with_raft` (raft key = rbac.any_admin_key());
    /// Some(k) = `raft_routes(raft, k)` or `cluster_routes` mounted separately with an explicit raft key
    raft_explicit: Option<Option<String>>,
    tenants: Vec<String>,       // api keys of the tenants (cli app)
    admin: Option<String>,      // cli admin key
    /// member of the exhaustive small scope (thorough): credentials are exactly none, "", a, b, c
    exhaustive: bool,
}

fn build_rbac(c: &Conf, dir: &std::path::Path) -> RbacConfig {
    match c.ctor {
        "disabled" => RbacConfig::disabled(),
        "single" => RbacConfig::single_key(c.keys[0].0.clone()),
        "file" => {
            // role aliases of `Role::from_str`
            let alias = |r: Role| match r { Role::Viewer => "read", Role::Operator => "Deploy", Role::Admin => "ROOT" };
            let entries: Vec<serde_json::Value> = c.keys.iter()
                .map(|(k, r)| serde_json::json!({"key": k, "role": alias(*r), "name": "n"})).collect();
            let p = dir.join("keys.json");
            std::fs::write(&p, serde_json::to_string(&serde_json::json!({ "keys": entries })).unwrap()).unwrap();
            RbacConfig::from_file(&p).expect("keys file")
        }
        _ => {
            let mut m = HashMap::new();
            for (k, r) in &c.keys { m.insert(k.clone(), ApiKeyEntry { role: *r, name: None }); }
            let mut cfg = RbacConfig::multi_key(m);
            cfg.allow_anonymous = c.anon;
            cfg.anonymous_role = c.anon_role;
            cfg
        }
    }
}

fn cluster_confs(ctx: &mut Ctx) -> Vec<Conf> {
    let base = Conf { keys: vec![], anon: false, anon_role: Role::Viewer, ctor: "multi", raft_explicit: None, tenants: vec![], admin: None, exhaustive: false };
    let three = vec![("vk".to_string(), Role::Viewer), ("ok".to_string(), Role::Operator), ("ak".to_string(), Role::Admin)];
    let mut v = vec![
        // RBAC off: everybody is admin, raft open
        Conf { anon: true, anon_role: Role::Admin, ctor: "disabled", ..base.clone() },
        // single admin key (--api-key); raft key = that key
        Conf { keys: vec![("secret".into(), Role::Admin)], ctor: "single", ..base.clone() },
        // multi-key map
        Conf { keys: three.clone(), ..base.clone() },
        // multi-key file with role aliases, no admin key at all -> raft endpoints unauthenticated
        Conf { keys: vec![("vk".into(), Role::Viewer), ("ok".into(), Role::Operator)], ctor: "file", ..base.clone() },
        // keys + anonymous viewers
        Conf { keys: three.clone(), anon: true, anon_role: Role::Viewer, ctor: "fields", ..base.clone() },
        // explicit raft key that is not an RBAC key; RBAC keys are nobody on /raft
        Conf { keys: three.clone(), raft_explicit: Some(Some("raftsecret".into())), ..base.clone() },
        // raft key unset although an admin key exists
        Conf { keys: three.clone(), raft_explicit: Some(None), ..base.clone() },
        // anonymous operators, keys present
        Conf { keys: vec![("ak".into(), Role::Admin)], anon: true, anon_role: Role::Operator, ctor: "fields", ..base.clone() },
    ];
    let n_rand = if ctx.thorough { 12 } else { 2 };
    for _ in 0..n_rand {
        let nk = ctx.rng.below(4) as usize;
        let mut keys = vec![];
        for i in 0..nk {
            let r = *ctx.rng.pick(&[Role::Viewer, Role::Operator, Role::Admin]);
            keys.push((format!("k{}{}", i, ctx.rng.below(100)), r));
        }
        let anon = ctx.rng.chance(1, 3);
        let anon_role = *ctx.rng.pick(&[Role::Viewer, Role::Operator, Role::Admin]);
        let raft_explicit = match ctx.rng.below(3) { 0 => None, 1 => Some(None), _ => Some(Some(format!("r{}", ctx.rng.below(100)))) };
        v.push(Conf { keys, anon, anon_role, ctor: "fields", raft_explicit, ..base.clone() });
    }
    if ctx.thorough {
        // EXHAUSTIVE small scope: every key set of size <= 2 over the alphabet {a, b, c} with every role
        // assignment (1 + 9 + 27 = 37), times anonymous access off / on with each anonymous role (4):
        // 148 configurations in the production wiring (raft key = any_admin_key()), each met with every
        // credential of the scope: no header, "", a, b, c.
        let roles = [Role::Viewer, Role::Operator, Role::Admin];
        let alpha = ["a", "b", "c"];
        let mut keysets: Vec<Vec<(String, Role)>> = vec![vec![]];
        for k in alpha { for r in roles { keysets.push(vec![(k.to_string(), r)]); } }
        for i in 0..3 { for j in (i + 1)..3 { for r1 in roles { for r2 in roles {
            keysets.push(vec![(alpha[i].to_string(), r1), (alpha[j].to_string(), r2)]);
        } } } }
        for ks in keysets {
            v.push(Conf { keys: ks.clone(), anon: false, anon_role: Role::Viewer, ctor: "fields", exhaustive: true, ..base.clone() });
            for ar in roles {
                v.push(Conf { keys: ks.clone(), anon: true, anon_role: ar, ctor: "fields", exhaustive: true, ..base.clone() });
            }
        }
    }
    v
}

fn cli_confs(ctx: &mut Ctx) -> Vec<Conf> {
    let base = Conf { keys: vec![], anon: true, anon_role: Role::Admin, ctor: "disabled", raft_explicit: Some(None), tenants: vec![], admin: None, exhaustive: false };
    let mut v = vec![
        // no --api-key: admin API disabled, two tenants
        Conf { tenants: vec!["tk1".into(), "tk2".into()], ..base.clone() },
        // admin key set, two tenants
        Conf { tenants: vec!["tk1".into(), "tk2".into()], admin: Some("adm".into()), ..base.clone() },
        // production auto-provisioning: the default tenant's key IS the admin key
        Conf { tenants: vec!["adm".into(), "tk2".into()], admin: Some("adm".into()), ..base.clone() },
        // no tenant at all
        Conf { tenants: vec![], admin: Some("adm".into()), ..base.clone() },
        // three tenants, admin key that is a prefix of a tenant key
        Conf { tenants: vec!["tk1".into(), "tk12".into(), "TK1".into()], admin: Some("tk".into()), ..base.clone() },
    ];
    let n_rand = if ctx.thorough { 6 } else { 1 };
    for _ in 0..n_rand {
        let nt = ctx.rng.below(4) as usize;
        let tenants = (0..nt).map(|i| format!("t{}{}", i, ctx.rng.below(50))).collect();
        let admin = if ctx.rng.chance(2, 3) { Some(format!("a{}", ctx.rng.below(50))) } else { None };
        v.push(Conf { tenants, admin, ..base.clone() });
    }
    v
}

// ----------------------------------------------------------------------------- credentials

fn near_misses(k: &str) -> Vec<String> {
    let mut v = vec![format!("{k}x"), k.to_uppercase(), k.to_lowercase()];
    if k.len() > 1 { v.push(k[..k.len() - 1].to_string()); }
    v.retain(|x| x != k);
    v
}

/// (x-api-key, x-admin-key) pairs: none, empty, wrong, near misses, every configured key of every kind
fn credentials(c: &Conf, raft_key: &Option<String>, app: &str, ctx: &mut Ctx) -> Vec<(Option<String>, Option<String>)> {
    if c.exhaustive {
        return vec![(None, None), (Some(String::new()), None), (Some("a".into()), None), (Some("b".into()), None), (Some("c".into()), None)];
    }
    let mut keys: Vec<String> = vec![];
    for (k, _) in &c.keys { keys.push(k.clone()); }
    if let Some(k) = raft_key { keys.push(k.clone()); }
    for k in &c.tenants { keys.push(k.clone()); }
    if let Some(k) = &c.admin { keys.push(k.clone()); }
    keys.sort(); keys.dedup();
    let mut api: Vec<Option<String>> = vec![None, Some(String::new()), Some("nope".into())];
    for k in &keys { api.push(Some(k.clone())); }
    // foreign kinds: keys the *other* server would know
    api.push(Some(if app == "cluster" { "tk1".into() } else { "ak".into() }));
    let mut misses: Vec<String> = keys.iter().flat_map(|k| near_misses(k)).filter(|m| !keys.contains(m)).collect();
    misses.sort(); misses.dedup();
    let n_miss = if ctx.thorough { misses.len() } else { misses.len().min(2) };
    for _ in 0..n_miss {
        if misses.is_empty() { break; }
        let i = ctx.rng.below(misses.len() as u64) as usize;
        api.push(Some(misses.remove(i)));
    }
    let mut out = vec![];
    if app == "cluster" {
        for a in &api { out.push((a.clone(), None)); }
        out.push((None, Some("adm".into())));
        out.push((None, Some(String::new())));          // the empty string in every header
        out.push((Some(String::new()), Some(String::new())));
        if let Some((k, _)) = c.keys.first() { out.push((None, Some(k.clone()))); }   // a real key in the wrong header
    } else {
        let mut adm: Vec<Option<String>> = vec![None, Some(String::new()), Some("nope".into())];
        if let Some(k) = &c.admin { adm.push(Some(k.clone())); for m in near_misses(k).into_iter().take(2) { adm.push(Some(m)); } }
        if let Some(k) = c.tenants.first() { adm.push(Some(k.clone())); }
        for a in &api { out.push((a.clone(), None)); }
        for d in &adm { out.push((None, d.clone())); }
        // both headers
        for a in api.iter().take(4).chain(api.iter().skip(3).take(2)) {
            for d in adm.iter().skip(2) { out.push((a.clone(), d.clone())); }
        }
    }
    out.sort(); out.dedup();
    out
}

// ----------------------------------------------------------------------------- requests

fn body_for(app: &str, handler: &str, extra: &HashMap<String, serde_json::Value>) -> serde_json::Value {
    use serde_json::json;
    let vote = json!({"leader_id": {"term": 1, "node_id": 2}, "committed": false});
    // append-entries / install-snapshot come from an established leader: openraft asserts a committed vote
    let lvote = json!({"leader_id": {"term": 1, "node_id": 2}, "committed": true});
    match handler {
        "handle_vote" => json!({"vote": vote, "last_log_id": null}),
        "handle_append_entries" => json!({"vote": lvote, "prev_log_id": null, "entries": [], "leader_commit": null}),
        "handle_snapshot" => json!({"vote": lvote, "meta": {"last_log_id": null, "last_membership": {"log_id": null, "membership": {"configs": [], "nodes": {}}}, "snapshot_id": "s"}, "offset": 0, "data": [], "done": true}),
        "handle_init" => json!({"members": {}}),
        "handle_add_learner" => json!({"node_id": 2, "addr": "http://127.0.0.1:9"}),
        "handle_change_membership" => json!({"members": [1]}),
        "handle_register_worker" => json!({"worker_id": "w2", "address": "http://127.0.0.1:9", "api_key": "k", "capacity": {"cpu_cores": 1, "pipelines_running": 0, "max_pipelines": 10}}),
        "handle_heartbeat" => json!({"events_processed": 1, "pipelines_running": 0}),
        "handle_drain_worker" => json!({"timeout_secs": 1}),
        "handle_deploy_group" => json!({"name": "g", "pipelines": [{"name": "p", "source": "stream A = X .where(v > 1)"}]}),
        "handle_inject_event" => json!({"event_type": "X", "fields": {"v": 1}}),
        "handle_inject_batch" if app == "cluster" => json!({"events_text": "X { v: 1 }"}),
        "handle_validate" => json!({"source": "stream A = X .where(v > 1)"}),
        "handle_manual_migrate" => json!({"target_worker_id": "w1"}),
        "handle_create_connector" => json!({"name": "c2", "connector_type": "mqtt", "params": {"host": "localhost", "port": "1883"}}),
        "handle_update_connector" => json!({"name": "c1", "connector_type": "mqtt", "params": {"host": "localhost", "port": "1884"}}),
        "handle_upload_model" => json!({"name": "m1", "inputs": ["a"], "outputs": ["b"]}),
        "handle_chat" => json!({"messages": []}),
        "handle_update_chat_config" => json!({"endpoint": "http://127.0.0.1:9", "model": "m", "provider": "openai-compatible"}),
        // SaaS server
        "handle_deploy" => json!({"name": "n", "source": "stream B = Y .where(z > 1)"}),
        "handle_inject" => json!({"event_type": "SensorReading", "fields": {"x": 5}}),
        "handle_inject_batch" => json!({"events": [{"event_type": "SensorReading", "fields": {"x": 7}}]}),
        "handle_restore" => extra.get("restore").cloned().unwrap_or(json!({})),
        "handle_reload" => json!({"source": "stream A = SensorReading .where(x > 2)"}),
        "handle_create_tenant" => json!({"name": "T"}),
        _ => json!({}),
    }
}

/// natural value for a parameter segment of a route
fn natural_param(r: &RouteRow, pos: usize, pipeline_id: &str) -> String {
    let prev = if pos > 0 { r.pattern[pos - 1].as_str() } else { "" };
    match (r.app.as_str(), prev) {
        ("cluster", "workers") => "w1".into(),
        ("cluster", "pipeline-groups") => "g1".into(),
        ("cluster", "connectors") => "c1".into(),
        ("cluster", "models") => "m1".into(),
        ("cluster", "migrations") => "mig1".into(),
        ("cli", "pipelines") => if r.handler == "handle_logs" { "no-such-pipeline".into() } else { pipeline_id.to_string() },
        ("cli", "tenants") => "no-such-tenant".into(),
        _ => "x1".into(),
    }
}

fn instantiate(r: &RouteRow, pipeline_id: &str, confusable: Option<&str>) -> String {
    let mut segs = vec![];
    let mut used = false;
    for (i, s) in r.pattern.iter().enumerate() {
        if s == "{}" {
            match confusable {
                Some(c) if !used && r.handler != "handle_logs" => { segs.push(c.to_string()); used = true; }
                _ => segs.push(natural_param(r, i, pipeline_id)),
            }
        } else { segs.push(s.clone()); }
    }
    format!("/{}", segs.join("/"))
}

struct Answer { status: u16, error: String }

async fn send<F>(routes: &F, method: &str, path: &str, api: &Option<String>, adm: &Option<String>, body: Option<&serde_json::Value>) -> Option<Answer>
where F: Filter<Error = std::convert::Infallible> + Clone + Send + Sync + 'static, F::Extract: warp::Reply + Send {
    let mut req = warp::test::request().method(&method.to_uppercase()).path(path);
    if let Some(k) = api { req = req.header("x-api-key", k.as_str()); }
    if let Some(k) = adm { req = req.header("x-admin-key", k.as_str()); }
    if let Some(b) = body { req = req.json(b); }
    let fut = req.reply(routes);
    match tokio::time::timeout(std::time::Duration::from_secs(20), fut).await {
        Ok(resp) => {
            let error = serde_json::from_slice::<serde_json::Value>(resp.body()).ok()
                .and_then(|v| v.get("error").and_then(|e| e.as_str().map(|s| s.to_string()))).unwrap_or_default();
            Some(Answer { status: resp.status().as_u16(), error })
        }
        Err(_) => None,
    }
}

/// status class: refused by access control / no route / reached the code behind the access check
fn classify(a: &Answer) -> (&'static str, u16) {
    match a.status {
        401 | 403 => ("deny", a.status),
        500 if a.error == "Internal server error" => ("deny", 500),
        404 if a.error == "Not found" => ("nomatch", 404),
        405 if a.error == "Method not allowed" => ("nomatch", 405),
        s => ("pass", s),
    }
}

// ----------------------------------------------------------------------------- state snapshots

async fn coord_snapshot(c: &SharedCoordinator) -> String {
    let c = c.read().await;
    let mut w: Vec<String> = c.workers.values().map(|n| format!("{}:{}:{:?}:{}:{}", n.id, n.status, n.assigned_pipelines, n.events_processed, n.capacity.pipelines_running)).collect();
    w.sort();
    let mut g: Vec<String> = c.pipeline_groups.keys().cloned().collect(); g.sort();
    let mut k: Vec<String> = c.connectors.values().map(|x| { let mut p: Vec<_> = x.params.iter().collect(); p.sort(); format!("{}:{}:{:?}", x.name, x.connector_type, p) }).collect(); k.sort();
    let mut m: Vec<String> = c.active_migrations.keys().cloned().collect(); m.sort();
    let mut r: Vec<String> = c.model_registry.keys().cloned().collect(); r.sort();
    let llm = c.llm_config.as_ref().map(|l| format!("{}|{}", l.endpoint, l.model));
    format!("W{:?} G{:?} C{:?} M{:?} R{:?} L{:?} P{} H{:?}", w, g, k, m, r, llm, c.pending_rebalance, c.ha_role)
}

fn raft_read(raft: &varpulis_cluster::raft::routes::SharedRaft) -> String {
    let m = raft.metrics().borrow().clone();
    format!("{:?}|{:?}|{:?}|{:?}|{:?}|{:?}", m.current_term, m.vote, m.last_log_index, m.last_applied, m.membership_config, m.state)
}

/// the raft core publishes its metrics asynchronously (a served vote/append shows up a moment after the
/// reply): read until two consecutive reads 2 ms apart agree, so that the effect of an earlier SERVED
/// request is not charged to the next (refused) one
async fn raft_snapshot(raft: &varpulis_cluster::raft::routes::SharedRaft) -> String {
    let mut last = raft_read(raft);
    for _ in 0..100 {
        tokio::time::sleep(std::time::Duration::from_millis(2)).await;
        let now = raft_read(raft);
        if now == last { return now; }
        last = now;
    }
    last
}

async fn tenant_snapshot(mgr: &SharedTenantManager) -> String {
    let m = mgr.read().await;
    let mut ts: Vec<String> = m.list_tenants().iter().map(|t| {
        let mut ps: Vec<String> = t.pipelines.values().map(|p| format!("{}|{}|{}|{}", p.id, p.name, p.source, p.status)).collect();
        ps.sort();
        format!("{}|{}|{}|{}|{}|{}|{:?}", t.id, t.name, t.api_key, t.usage.events_processed, t.usage.output_events_emitted, t.usage.active_pipelines, ps)
    }).collect();
    ts.sort();
    let mut pm = m.collect_pipeline_metrics().await; pm.sort();
    format!("{:?} {:?}", ts, pm)
}

// ----------------------------------------------------------------------------- the two servers

fn literals_of(routes: &[RouteRow], app: &str) -> Vec<String> {
    let mut v: Vec<String> = routes.iter().filter(|r| r.app == app).flat_map(|r| r.pattern.iter().cloned()).filter(|s| s != "{}").collect();
    v.sort(); v.dedup();
    v
}

async fn run_cluster(ctx: &mut Ctx, routes: &[RouteRow], tmp: &std::path::Path) {
    let lits = literals_of(routes, "cluster");
    let mine: Vec<RouteRow> = routes.iter().filter(|r| r.app == "cluster").cloned().collect();
    for conf in cluster_confs(ctx) {
        let rbac = Arc::new(build_rbac(&conf, tmp));
        let coord = varpulis_cluster::shared_coordinator();
        {
            let mut c = coord.write().await;
            c.register_worker(WorkerNode::new(WorkerId("w1".into()), "http://127.0.0.1:9".into(), "wk".into()));
            let mut params = HashMap::new();
            params.insert("host".to_string(), "localhost".to_string());
            params.insert("port".to_string(), "1883".to_string());
            let _ = c.create_connector(ClusterConnector { name: "c1".into(), connector_type: "mqtt".into(), params, description: None });
        }
        let raft_key: Option<String> = match &conf.raft_explicit { None => rbac.any_admin_key(), Some(k) => k.clone() };
        // the model is told exactly what the real objects were built from
        let keys = if conf.keys.is_empty() { "-".to_string() } else { conf.keys.iter().map(|(k, r)| format!("{}:{}", k, role_name(*r))).collect::<Vec<_>>().join(";") };
        ctx.directive(&format!("new cluster anon={} anonrole={} keys={} raft={} tenants=- admin=-",
            if rbac.allow_anonymous { 1 } else { 0 }, role_name(rbac.anonymous_role), keys, opt(&raft_key)));
        ctx.count(&format!("conf:cluster:{}:{}{}", conf.ctor, if conf.raft_explicit.is_none() { "with_raft" } else { "raft_routes" }, if conf.exhaustive { ":exhaustive-scope" } else { "" }));
        if conf.raft_explicit.is_none() {
            ctx.case(&format!("anyadmin {}", opt(&raft_key)), "ok");
        }
        let creds = credentials(&conf, &raft_key, "cluster", ctx);
        macro_rules! drive { ($raft:ident, $api:ident, $adm:ident, $part:ident, $filter:expr) => {{
            let filter = $filter;
            for r in mine.iter().filter(|r| (r.pattern[0] == "raft") == $part) {
                let mut paths = vec![instantiate(r, "", None)];
                if !conf.exhaustive && r.pattern.iter().any(|s| s == "{}") && (ctx.thorough || ctx.rng.chance(1, 3)) {
                    let c = ctx.rng.pick(&lits).clone();
                    paths.push(instantiate(r, "", Some(&c)));
                }
                for path in paths {
                    let body = if r.body { Some(body_for("cluster", &r.handler, &HashMap::new())) } else { None };
                    let before = format!("{} {}", coord_snapshot(&coord).await, if r.pattern[0] == "raft" { raft_snapshot(&$raft).await } else { raft_read(&$raft) });
                    let ans = send(&filter, &r.method, &path, $api, $adm, body.as_ref()).await;
                    let after = format!("{} {}", coord_snapshot(&coord).await, if r.pattern[0] == "raft" { raft_snapshot(&$raft).await } else { raft_read(&$raft) });
                    report(ctx, r, &path, $api, $adm, ans, before == after);
                }
            }
        }}; }
        for (api, adm) in &creds { for raft_part in [true, false] {
            // a fresh raft node per credential, and another one for the non-raft routes: a node that served
            // a vote/append keeps timers running (leader lease, election timeout) whose expiry changes its
            // metrics at an arbitrary later moment; a refused request must meet a node nothing has reached
            let boot = varpulis_cluster::raft::bootstrap(1, &["http://127.0.0.1:9".to_string()], None).await.expect("raft bootstrap");
            let raft = boot.raft.clone();
            // `bootstrap` initialises a single-node cluster: let the election and the first log entry settle
            raft_settle(&raft).await;
            match &conf.raft_explicit {
                None => drive!(raft, api, adm, raft_part, varpulis_cluster::api::cluster_routes_with_raft(coord.clone(), rbac.clone(), raft.clone(), None)
                    .recover(varpulis_cluster::api::handle_rejection)),
                Some(k) => drive!(raft, api, adm, raft_part, varpulis_cluster::raft::routes::raft_routes(raft.clone(), k.clone())
                    .or(varpulis_cluster::cluster_routes(coord.clone(), rbac.clone(), None))
                    .recover(varpulis_cluster::api::handle_rejection)),
            }
            let _ = raft.shutdown().await;
        } }
    }
}

fn report(ctx: &mut Ctx, r: &RouteRow, path: &str, api: &Option<String>, adm: &Option<String>, ans: Option<Answer>, same: bool) {
    let op = format!("req {} {} {} api={} adm={}", r.idx, r.method, path, opt(api), opt(adm));
    match ans {
        None => { ctx.count("timeout"); ctx.case(&op, "timeout"); }
        Some(a) => {
            let (class, st) = classify(&a);
            ctx.count(&format!("{}:{}", class, st));
            ctx.count(&format!("route:{}:{}:{}", r.app, r.name, class));
            if class == "pass" && a.status == 400 && a.error.starts_with("Invalid request body") { ctx.count("pass-but-body-rejected"); }
            let res = match class {
                "pass" => "pass".to_string(),
                "deny" => format!("deny {} {}", st, if same { "same" } else { "changed" }),
                _ => format!("nomatch {} {}", st, if same { "same" } else { "changed" }),
            };
            ctx.case(&op, &res);
        }
    }
}

async fn run_cli(ctx: &mut Ctx, routes: &[RouteRow]) {
    // a well-formed checkpoint for restore bodies (the handler-level key check runs after body parsing)
    let any_checkpoint = {
        let mut m = TenantManager::new();
        let id = m.create_tenant("scratch".into(), "scratch-key".into(), TenantQuota::enterprise()).expect("tenant");
        let t = m.get_tenant_mut(&id).unwrap();
        let pid = t.deploy_pipeline("P".into(), "stream A = SensorReading .where(x > 1)".into()).await.expect("deploy");
        serde_json::to_value(t.checkpoint_pipeline(&pid).await.expect("checkpoint")).expect("json")
    };
    let lits = literals_of(routes, "cli");
    let mine: Vec<RouteRow> = routes.iter().filter(|r| r.app == "cli").cloned().collect();
    for conf in cli_confs(ctx) {
        let mut mgr = TenantManager::new();
        let mut index: Vec<(String, String)> = vec![];
        let mut pipeline_id = "no-pipeline".to_string();
        let mut extra = HashMap::new();
        extra.insert("restore".to_string(), serde_json::json!({ "checkpoint": any_checkpoint }));
        for (i, key) in conf.tenants.iter().enumerate() {
            let id = mgr.create_tenant(format!("T{i}"), key.clone(), TenantQuota::enterprise()).expect("tenant");
            let t = mgr.get_tenant_mut(&id).unwrap();
            let pid = t.deploy_pipeline("P".into(), "stream A = SensorReading .where(x > 1)".into()).await.expect("deploy");
            if i == 0 {
                let cp = t.checkpoint_pipeline(&pid).await.expect("checkpoint");
                extra.insert("restore".to_string(), serde_json::json!({ "checkpoint": cp }));
                pipeline_id = pid;
            }
            index.push((key.clone(), format!("T{i}")));   // canonical tenant id (the real one is a UUID)
        }
        let mgr: SharedTenantManager = Arc::new(tokio::sync::RwLock::new(mgr));
        let filter = varpulis_cli::api::api_routes(mgr.clone(), conf.admin.clone()).recover(varpulis_cli::auth::handle_rejection);
        let tenants = if index.is_empty() { "-".to_string() } else { index.iter().map(|(k, t)| format!("{k}:{t}")).collect::<Vec<_>>().join(";") };
        ctx.directive(&format!("new cli anon=1 anonrole=admin keys=- raft=- tenants={} admin={}", tenants, opt(&conf.admin)));
        ctx.count("conf:cli");
        let creds = credentials(&conf, &None, "cli", ctx);
        for (api, adm) in &creds {
            for r in &mine {
                let mut paths = vec![instantiate(r, &pipeline_id, None)];
                if r.pattern.iter().any(|s| s == "{}") && (ctx.thorough || ctx.rng.chance(1, 3)) {
                    let c = ctx.rng.pick(&lits).clone();
                    paths.push(instantiate(r, &pipeline_id, Some(&c)));
                }
                for path in paths {
                    let body = if r.body { Some(body_for("cli", &r.handler, &extra)) } else { None };
                    let before = tenant_snapshot(&mgr).await;
                    let ans = send(&filter, &r.method, &path, api, adm, body.as_ref()).await;
                    let after = tenant_snapshot(&mgr).await;
                    report(ctx, r, &path, api, adm, ans, before == after);
                }
            }
        }
    }
}

/// wait until the freshly bootstrapped single-node cluster has elected itself and applied its log
async fn raft_settle(raft: &varpulis_cluster::raft::routes::SharedRaft) {
    for _ in 0..1000 {
        let (ok, _) = { let m = raft.metrics().borrow().clone();
            (format!("{:?}", m.state) == "Leader" && m.last_applied.map(|l| l.index) == m.last_log_index && m.last_log_index.is_some(), ()) };
        if ok { break; }
        tokio::time::sleep(std::time::Duration::from_millis(2)).await;
    }
    let _ = raft_snapshot(raft).await;
}

/// diagnostic: what does a raft node nothing has ever reached do on its own within 5 s?
fn raft_idle(ctx: &mut Ctx) {
    let rt = tokio::runtime::Builder::new_multi_thread().worker_threads(2).enable_all().build().expect("runtime");
    rt.block_on(async {
        let boot = varpulis_cluster::raft::bootstrap(1, &["http://127.0.0.1:9".to_string()], None).await.expect("raft bootstrap");
        let t0 = std::time::Instant::now();
        let mut last = String::new();
        while t0.elapsed().as_millis() < 5000 {
            let now = raft_read(&boot.raft);
            if now != last { ctx.case(&format!("idle {}ms", t0.elapsed().as_millis()), &now.replace('\n', " ")); last = now; }
            tokio::time::sleep(std::time::Duration::from_millis(5)).await;
        }
    });
}

pub fn run(ctx: &mut Ctx, name: &str) {
    if name == "C29-raft-idle" { return raft_idle(ctx); }
    let routes = load_routes();
    ctx.notes.push(format!("{} extracted code routes driven (cluster {}, cli {})", routes.len(),
        routes.iter().filter(|r| r.app == "cluster").count(), routes.iter().filter(|r| r.app == "cli").count()));
    let tmp = tempfile::tempdir().expect("tempdir");
    let rt = tokio::runtime::Builder::new_multi_thread().worker_threads(2).enable_all().build().expect("runtime");
    rt.block_on(async {
        run_cluster(ctx, &routes, tmp.path()).await;
        run_cli(ctx, &routes).await;
    });
    // every extracted route must have been reached by some credential (guards the extractor)
    for r in &routes {
        let reached = ctx.hist.get(&format!("route:{}:{}:pass", r.app, r.name)).copied().unwrap_or(0);
        if reached == 0 { ctx.notes.push(format!("route {} {} never passed the access check in this run", r.app, r.name)); }
    }
}
